#!/usr/bin/env python3
"""tools/mutrun.py — mutation analysis of the generated workloads (DESIGN §11.9). Not part of any check.

For every mutant of /repo produced by go/cmd/mutate (operator swaps, integer literals +-1, negated conditions; table
entries excluded) that compiles and passes the existing test suite, the quick workloads of the package's families are
run on the mutated implementation and compared with the outputs of the unchanged implementation. A mutant whose
outputs are all identical *survives*: either it is equivalent (dead code, redundant guard) or the workload has a gap.

  tools/mutrun.py <workdir> [file-substring] [max]     results: <workdir>/results.tsv  (status, mutant, first differing op)
"""
import os, sys, subprocess, shutil, time, json, re
from concurrent.futures import ThreadPoolExecutor
V = os.path.dirname(os.path.dirname(os.path.abspath(__file__)))
ENV = dict(os.environ, GOFLAGS="-mod=mod", GOPROXY="off", GOSUMDB="off", GOTOOLCHAIN="local")
W = sys.argv[1]
FILT = sys.argv[2] if len(sys.argv) > 2 else ""
MAX = int(sys.argv[3]) if len(sys.argv) > 3 else 10**9
NW = 14
PROPS = "C01 C02 C03 C04 C05 C06 C07 C08 C09 C10 C11 C12 C13 C14 C17 C18".split()

def sh(cmd, cwd=None, timeout=None, inp=None):
    return subprocess.run(cmd, cwd=cwd, env=ENV, text=True, capture_output=True, timeout=timeout, input=inp)

FAM = {
    "qr": ["qr", "st.qr", "scale:qr"], "datamatrix": ["dm", "st.dm", "scale:dm"], "aztec": ["aztec", "st.az", "scale:aztec", "mut"],
    "pdf417": ["pdf", "st.pdf", "scale:pdf"], "code128": ["c128", "st.c128", "scale:c128"], "code39": ["c39", "st.c39", "scale:c39"],
    "code93": ["c93", "st.c93", "scale:c93"], "codabar": ["codabar", "scale:codabar"], "ean": ["ean", "st.ean", "scale:ean"],
    "twooffive": ["tof", "scale:tof"], "scaledbarcode.go": ["scale"],
    "utils/bitlist.go": ["bl", "ean", "c128", "c39", "c93", "codabar", "tof", "qr", "dm", "aztec", "pdf", "st."],
    "utils/galoisfield.go": ["gf.", "poly", "rs", "qr", "dm", "aztec", "st.qr.blocks", "st.dm.ecc", "st.az.check"],
    "utils/gfpoly.go": ["gf.", "poly", "rs", "qr", "dm", "aztec", "st.qr.blocks", "st.dm.ecc", "st.az.check"],
    "utils/reedsolomon.go": ["gf.", "poly", "rs", "qr", "dm", "aztec", "st.qr.blocks", "st.dm.ecc", "st.az.check"],
    "utils/base1dcode.go": ["raw1d", "ean", "c128", "c39", "c93", "codabar", "tof", "scale"],
    "utils/runeint.go": ["ean", "tof", "pdf", "st.ean", "st.pdf.hl"],
}
CAP = {"codabar": 6000, "tof": 6000, "tofcs": 3000, "c39": 8000, "c93": 8000, "c128": 6000, "c128nc": 4000, "bl": 8000}
if os.environ.get("MUT_NOCAP"):
    CAP = {}
IDS = set(os.environ.get("MUT_IDS", "").split(",")) - {""}
TIER = os.environ.get("MUT_TIER", "quick")

def kind(op):
    t = op.split(" ")
    return "scale:" + t[4] if t[0] == "scale" and len(t) > 4 else t[0]

def main():
    os.makedirs(W, exist_ok=True)
    harness = os.path.join(V, ".work", "bin", "harness")
    mutate = os.path.join(W, "mutate")
    assert sh(["go", "build", "-o", mutate, "./cmd/mutate"], cwd=os.path.join(V, "go")).returncode == 0
    assert sh(["go", "build", "-tags", "verif", "-o", harness, "./cmd/harness"], cwd=os.path.join(V, "go")).returncode == 0
    ops, seen = [], set()
    for p in PROPS:
        for l in sh([harness, "gen", p, TIER, "1"]).stdout.split("\n"):
            if l and l not in seen:
                seen.add(l); ops.append(l)
    # cap the huge exhaustive 1-D streams (every k-th op)
    by = {}
    for o in ops:
        by.setdefault(kind(o), []).append(o)
    ops = []
    for k, l in by.items():
        c = CAP.get(k, int(os.environ.get("MUT_DEFAULT_CAP", "0")) or None)
        ops += l if not c or len(l) <= c else l[:: len(l) // c + 1]
    golden = dict(zip(ops, sh([harness, "run"], inp="\n".join(ops) + "\n").stdout.split("\n")))
    print("ops", len(ops), flush=True)
    muts = [l.split("\t") for l in sh([mutate, "list", "/repo"]).stdout.split("\n") if l]
    muts = [m for m in muts if FILT in m[1] and (not IDS or m[0] in IDS)][:MAX]
    print("mutants", len(muts), flush=True)
    # worker trees
    for i in range(NW):
        d = os.path.join(W, f"w{i}")
        shutil.rmtree(d, ignore_errors=True)
        os.makedirs(d)
        sh(["bash", "-c", f"git -C /repo archive HEAD | tar -x -C {d}/ --one-top-level=repo && cp /repo/go.mod /repo/go.sum {d}/repo/ 2>/dev/null; cp -r {V}/go {d}/go && sed -i 's#=> /repo#=> {d}/repo#' {d}/go/go.mod"])
    done = set()
    resf = os.path.join(W, "results.tsv")
    if os.path.exists(resf):
        done = {l.split("\t")[1] for l in open(resf) if l.strip()}
    out = open(resf, "a")

    def select(file):
        fams = None
        for k, v in FAM.items():
            if file.startswith(k) or file == k:
                fams = v
        if fams is None:
            return ops
        return [o for o in ops if any(kind(o) == f or kind(o).startswith(f) for f in fams)]

    def work(args):
        i, m = args
        mid, file = m[0], m[1]
        if mid in done:
            return
        d = os.path.join(W, f"w{i % NW}")
        repo = os.path.join(d, "repo")
        p = os.path.join(repo, file)
        orig = open(p, "rb").read()
        status, detail = "?", ""
        try:
            r = sh([mutate, "apply", repo, mid])
            desc = r.stdout.strip()
            if sh(["go", "build", "./..."], cwd=repo).returncode != 0:
                status = "nocompile"
            else:
                try:
                    t = sh(["go", "test", "-vet=off", "-count=1", "./..."], cwd=repo, timeout=120)
                    tests_ok = t.returncode == 0
                except subprocess.TimeoutExpired:
                    tests_ok = False
                if not tests_ok:
                    status = "killed-by-tests"
                else:
                    hb = os.path.join(d, "harness")
                    b = sh(["go", "build", "-tags", "verif", "-o", hb, "./cmd/harness"], cwd=os.path.join(d, "go"))
                    if b.returncode != 0:
                        b = sh(["go", "build", "-o", hb, "./cmd/harness"], cwd=os.path.join(d, "go"))
                    if b.returncode != 0:
                        status = "harness-nocompile"
                    else:
                        sel = select(file)
                        try:
                            res = sh([hb, "run"], inp="\n".join(sel) + "\n", timeout=600).stdout.split("\n")
                        except subprocess.TimeoutExpired:
                            res = []
                        diff = [o for o, r2 in zip(sel, res) if golden[o] != r2 and r2 != "nohook"]
                        if len(res) < len(sel):
                            status, detail = "killed", "hang-or-crash"
                        elif diff:
                            status, detail = "killed", f"{len(diff)} ops differ, first: {diff[0][:120]}"
                        else:
                            status, detail = "SURVIVED", f"{len(sel)} ops identical"
        finally:
            open(p, "wb").write(orig)
        out.write("\t".join([status, mid, file, m[5], m[3][:60], m[4][:60], detail]) + "\n")
        out.flush()

    # one thread per worker tree: mutants of worker i are processed sequentially
    def lane(i):
        for j, m in enumerate(muts):
            if j % NW == i:
                try:
                    work((i, m))
                except Exception as e:
                    out.write(f"error\t{m[0]}\t{m[1]}\t{e}\n")
    with ThreadPoolExecutor(NW) as ex:
        list(ex.map(lane, range(NW)))

main()
