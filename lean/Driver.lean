import BV.Ops
open BV

partial def loop (h : IO.FS.Stream) (out : IO.FS.Stream) : IO Unit := do
  let line ← h.getLine
  if line.isEmpty then return ()
  let line := (line.trimAsciiEnd).toString
  out.putStrLn (Ops.execOp line)
  loop h out

def main : IO Unit := do
  let out ← IO.getStdout
  loop (← IO.getStdin) out
  out.flush
