import BV.OracleMain
open BV

/-- `bvspec`: the property side. Reads `oracle …` lines, prints verdicts. Independent of BV.Gen / BV.Model. -/
partial def loop (h : IO.FS.Stream) (out : IO.FS.Stream) : IO Unit := do
  let line ← h.getLine
  if line.isEmpty then return ()
  let line := (line.trimAsciiEnd).toString
  let toks := (line.splitOn " ").filter (· ≠ "")
  match toks with
  | "oracle" :: rest => out.putStrLn (Oracle.run rest)
  | _ => out.putStrLn "bad-op"
  loop h out

def main : IO Unit := do
  let out ← IO.getStdout
  loop (← IO.getStdin) out
  out.flush
