/-
  BV.Oracle — the Spec oracles: each property's demand evaluated on what the IMPLEMENTATION returned.
  Input line:  `oracle <PROP> <op tokens…> => <implementation result line> [<= <auxiliary result line>]`
  Output line: `pass` | `na` (property says nothing about this case) | `fail <tag> <reason>`
  The tag names the failure class; `known_findings.json` refers to tags.
  This module never imports BV.Gen or BV.Model: it is the property side, independent of the code.
-/
import BV.Base
import BV.Spec.OneD
namespace BV.Oracle
open BV

/-- a parsed result line -/
structure Obs where
  cls : String                        -- ok / rej / panic / timeout / bad…
  fields : List (String × String)     -- key=value tokens
  deriving Repr

def parseObs (toks : List String) : Obs :=
  match toks with
  | [] => { cls := "empty", fields := [] }
  | c :: rest =>
    { cls := c, fields := rest.filterMap (fun t =>
        match t.splitOn "=" with
        | k :: v :: more => some (k, String.intercalate "=" (v :: more))
        | _ => none) }

def Obs.get (o : Obs) (k : String) : String := (o.fields.lookup k).getD ""
def Obs.nat (o : Obs) (k : String) : Nat := (o.get k).toNat?.getD 0

/-- a picture extracted from a result line: dark = "has the foreground colour of the reported scheme" -/
structure Pic where
  w : Nat
  h : Nat
  dark : Nat → Nat → Bool
  twoColour : Bool        -- every pixel is the scheme's fg or bg

def Obs.pic (o : Obs) : Pic :=
  let w := o.nat "w"
  let h := o.nat "h"
  let pal := (o.get "pal").splitOn ";"
  let (bg, fg) := match (o.get "scheme").splitOn "|" with
    | [b, f] => (b, f)
    | _ => ("", "")
  let px := (o.get "px").toUTF8
  let fgIdx := pal.findIdx? (· == fg)
  let bgIdx := pal.findIdx? (· == bg)
  let isFg := fun (i : Nat) => some (px.get! i).toNat == fgIdx.map (· + 48)
  let ok := (List.range px.size).all (fun i =>
    let d := (px.get! i).toNat
    some d == fgIdx.map (· + 48) || some d == bgIdx.map (· + 48))
  { w := w, h := h, dark := fun x y => isFg (y * w + x), twoColour := ok && px.size == w * h }

def Pic.row0 (p : Pic) : List Bool := (List.range p.w).map (fun x => p.dark x 0)

inductive Verdict
  | pass
  | na
  | fail (tag reason : String)

def Verdict.line : Verdict → String
  | .pass => "pass"
  | .na => "na"
  | .fail t r => s!"fail {t} {r}"

def hexArg (s : String) : Bytes := (fromHex s).getD []

def isDigitByte (b : UInt8) : Bool := 48 ≤ b.toNat && b.toNat ≤ 57

/-! ### C05 Code 128 -/

def c128InDomain (rs : List Nat) : Bool :=
  1 ≤ rs.length && rs.length ≤ 80 && rs.all (fun r => r ≤ 127 || (0xF1 ≤ r && r ≤ 0xF4))

def oracleC05 (op : List String) (o : Obs) : Verdict :=
  match op with
  | [kind, c] =>
    if kind ≠ "c128" ∧ kind ≠ "c128nc" then .na else
    let content := hexArg c
    let rs := runeList content
    if !c128InDomain rs then .na
    else if o.cls ≠ "ok" then .fail "c128-rejected" s!"in-domain content not encoded: {o.cls}"
    else
      let withCheck := kind == "c128"
      match Spec.OneD.c128Decode withCheck o.pic.row0 with
      | .error e => .fail "c128-structure" e
      | .ok info =>
        if info.runes ≠ rs then .fail "c128-roundtrip" "decoded text differs from the content"
        else if withCheck ∧ o.get "cs" ≠ toString (info.check.getD 0) then
          .fail "c128-checksum" "CheckSum() differs from the drawn check character"
        else .pass
  | _ => .na

/-! ### C06 EAN -/

def oracleC06 (op : List String) (o : Obs) : Verdict :=
  match op with
  | ["ean", c] =>
    let content := hexArg c
    let allDigits := content.all isDigitByte
    let ds := content.map (fun b => b.toNat - 48)
    let n := content.length
    let expect : Option (List Nat) :=
      if !allDigits then none
      else if n = 7 ∨ n = 12 then some (ds ++ [Spec.OneD.gs1Check ds])
      else if n = 8 ∨ n = 13 then
        (if ds.getLastD 0 = Spec.OneD.gs1Check ds.dropLast then some ds else none)
      else none
    match expect with
    | none => if o.cls = "rej" then .pass else .fail "ean-accepts-invalid" s!"invalid input gave {o.cls}"
    | some full =>
      if o.cls ≠ "ok" then .fail "ean-rejected" s!"valid input gave {o.cls}"
      else
        let bits := o.pic.row0
        match Spec.OneD.eanDecode bits with
        | .error e => .fail "ean-structure" e
        | .ok digits =>
          let kind := if full.length = 8 then "EAN 8" else "EAN 13"
          if digits ≠ full then .fail "ean-roundtrip" "decoded digits differ from the completed number"
          else if hexArg (o.get "content") ≠ full.map (fun d => UInt8.ofNat (d + 48)) then
            .fail "ean-content" "Content() is not the completed number"
          else if hexArg (o.get "kind") ≠ strBytes kind then .fail "ean-kind" "wrong kind"
          else if bits.length ≠ (if full.length = 8 then 67 else 95) then .fail "ean-length" "wrong module count"
          else .pass
  | _ => .na

/-! ### C07 Code 39 / Code 93 -/

def c39BasicAlphabet (r : Nat) : Bool := Spec.OneD.c39Alphabet.any (fun c => c.toNat == r)

def oracleC07 (op : List String) (o : Obs) : Verdict :=
  match op with
  | [kind, c, cs, full] =>
    if kind ≠ "c39" ∧ kind ≠ "c93" then .na else
    let content := hexArg c
    let rs := runeList content
    let cs := cs == "1"
    let full := full == "1"
    let inDomain := if full then rs.all (· ≤ 127) else rs.all c39BasicAlphabet
    if o.cls ≠ "ok" then
      if o.cls = "rej" ∧ !inDomain then .na
      else if inDomain then .fail (kind ++ "-rejected") s!"in-domain text gave {o.cls}"
      else .fail (kind ++ "-crash") o.cls
    else
      let bits := o.pic.row0
      if kind == "c39" then
        match Spec.OneD.c39Decode cs full bits with
        | .error e => .fail "c39-structure" e
        | .ok info => if info.text = rs then .pass else .fail "c39-roundtrip" "decoded text differs"
      else
        match Spec.OneD.c93Decode cs full bits with
        | .error e => .fail "c93-structure" e
        | .ok info => if info.text = rs then .pass else .fail "c93-roundtrip" "decoded text differs"
  | _ => .na

/-! ### C08 Codabar / 2 of 5 -/

def oracleC08 (op : List String) (o : Obs) : Verdict :=
  match op with
  | ["codabar", c] =>
    let content := hexArg c
    if o.cls = "rej" then .na
    else if o.cls ≠ "ok" then .fail "codabar-crash" o.cls
    else match Spec.OneD.codabarDecode o.pic.row0 with
      | .error e => .fail "codabar-structure" e
      | .ok chars => if chars = content.map (·.toNat) then .pass else .fail "codabar-roundtrip" "decoded text differs"
  | ["tof", c, il] =>
    let content := hexArg c
    if o.cls = "rej" then .na
    else if o.cls ≠ "ok" then .fail "tof-crash" o.cls
    else
      let r := if il == "1" then Spec.OneD.tofDecodeInterleaved o.pic.row0 else Spec.OneD.tofDecodeStandard o.pic.row0
      match r with
      | .error e => .fail "tof-structure" e
      | .ok ds => if ds = content.map (·.toNat) then .pass else .fail "tof-roundtrip" "decoded digits differ"
  | ["tofcs", c] =>
    let content := hexArg c
    if content.isEmpty ∨ !content.all isDigitByte then .na
    else if o.cls ≠ "ok" then .fail "tofcs-rejected" s!"digit string gave {o.cls}"
    else
      let out := hexArg (o.get "str")
      if out.length ≠ content.length + 1 ∨ out.take content.length ≠ content ∨ !out.all isDigitByte then
        .fail "tofcs-shape" "result is not the content plus one digit"
      else if Spec.OneD.tofWeightedSum (out.map (fun b => b.toNat - 48)) % 10 ≠ 0 then
        .fail "tofcs-sum" "3-1 weighted sum is not a multiple of ten"
      else .pass
  | _ => .na

/-! ### dispatcher -/

def splitAt (sep : String) (l : List String) : List String × List String :=
  (l.takeWhile (· ≠ sep), (l.dropWhile (· ≠ sep)).drop 1)

def run (toks : List String) : String :=
  match toks with
  | prop :: rest =>
    let (op, r1) := splitAt "=>" rest
    let (impl, _aux) := splitAt "<=" r1
    let o := parseObs impl
    let v := match prop with
      | "C05" => oracleC05 op o
      | "C06" => oracleC06 op o
      | "C07" => oracleC07 op o
      | "C08" => oracleC08 op o
      | _ => .na
    v.line
  | [] => "na"

end BV.Oracle
