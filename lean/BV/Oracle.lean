/-
  BV.Oracle — the Spec oracles: each property's demand evaluated on what the IMPLEMENTATION returned.
  Input line:  `oracle <PROP> <op tokens…> => <implementation result line> [<= <auxiliary result line>]`
  Output line: `pass` | `na` (property says nothing about this case) | `fail <tag> <reason>`
  The tag names the failure class; `known_findings.json` refers to tags.
  This module never imports BV.Gen or BV.Model: it is the property side, independent of the code.
-/
import BV.Base
import BV.Spec.OneD
import BV.Spec.RS
import BV.Spec.BitSeq
import BV.Spec.Datamatrix
import BV.Spec.Qr
import BV.Spec.Pdf417
namespace BV.Oracle
open BV

/-- a parsed result line -/
structure Obs where
  cls : String                        -- ok / rej / panic / timeout / bad…
  fields : List (String × String)     -- key=value tokens
  deriving Repr

def parseObs (toks : List String) : Obs :=
  match toks with
  | [] => { cls := "empty", fields := [] }
  | c :: rest =>
    { cls := c, fields := rest.filterMap (fun t =>
        match t.splitOn "=" with
        | k :: v :: more => some (k, String.intercalate "=" (v :: more))
        | _ => none) }

def Obs.get (o : Obs) (k : String) : String := (o.fields.lookup k).getD ""
def Obs.nat (o : Obs) (k : String) : Nat := (o.get k).toNat?.getD 0

/-- a picture extracted from a result line: dark = "has the foreground colour of the reported scheme" -/
structure Pic where
  w : Nat
  h : Nat
  dark : Nat → Nat → Bool
  twoColour : Bool        -- every pixel is the scheme's fg or bg

def Obs.pic (o : Obs) : Pic :=
  let w := o.nat "w"
  let h := o.nat "h"
  let pal := (o.get "pal").splitOn ";"
  let (bg, fg) := match (o.get "scheme").splitOn "|" with
    | [b, f] => (b, f)
    | _ => ("", "")
  let px := (o.get "px").toUTF8
  let fgIdx := pal.findIdx? (· == fg)
  let bgIdx := pal.findIdx? (· == bg)
  let isFg := fun (i : Nat) => some (px.get! i).toNat == fgIdx.map (· + 48)
  let ok := (List.range px.size).all (fun i =>
    let d := (px.get! i).toNat
    some d == fgIdx.map (· + 48) || some d == bgIdx.map (· + 48))
  { w := w, h := h, dark := fun x y => isFg (y * w + x), twoColour := ok && px.size == w * h }

def Pic.row0 (p : Pic) : List Bool := (List.range p.w).map (fun x => p.dark x 0)

inductive Verdict
  | pass
  | na
  | fail (tag reason : String)

def Verdict.line : Verdict → String
  | .pass => "pass"
  | .na => "na"
  | .fail t r => s!"fail {t} {r}"

def hexArg (s : String) : Bytes := (fromHex s).getD []

def isDigitByte (b : UInt8) : Bool := 48 ≤ b.toNat && b.toNat ≤ 57

/-! ### C05 Code 128 -/

def c128InDomain (rs : List Nat) : Bool :=
  1 ≤ rs.length && rs.length ≤ 80 && rs.all (fun r => r ≤ 127 || (0xF1 ≤ r && r ≤ 0xF4))

def oracleC05 (op : List String) (o : Obs) : Verdict :=
  match op with
  | [kind, c] =>
    if kind ≠ "c128" ∧ kind ≠ "c128nc" then .na else
    let content := hexArg c
    let rs := runeList content
    if !c128InDomain rs then .na
    else if o.cls ≠ "ok" then .fail "c128-rejected" s!"in-domain content not encoded: {o.cls}"
    else
      let withCheck := kind == "c128"
      match Spec.OneD.c128Decode withCheck o.pic.row0 with
      | .error e => .fail "c128-structure" e
      | .ok info =>
        if info.runes ≠ rs then .fail "c128-roundtrip" "decoded text differs from the content"
        else if withCheck ∧ o.get "cs" ≠ toString (info.check.getD 0) then
          .fail "c128-checksum" "CheckSum() differs from the drawn check character"
        else .pass
  | _ => .na

/-! ### C06 EAN -/

def oracleC06 (op : List String) (o : Obs) : Verdict :=
  match op with
  | ["ean", c] =>
    let content := hexArg c
    let allDigits := content.all isDigitByte
    let ds := content.map (fun b => b.toNat - 48)
    let n := content.length
    let expect : Option (List Nat) :=
      if !allDigits then none
      else if n = 7 ∨ n = 12 then some (ds ++ [Spec.OneD.gs1Check ds])
      else if n = 8 ∨ n = 13 then
        (if ds.getLastD 0 = Spec.OneD.gs1Check ds.dropLast then some ds else none)
      else none
    match expect with
    | none => if o.cls = "rej" then .pass else .fail "ean-accepts-invalid" s!"invalid input gave {o.cls}"
    | some full =>
      if o.cls ≠ "ok" then .fail "ean-rejected" s!"valid input gave {o.cls}"
      else
        let bits := o.pic.row0
        match Spec.OneD.eanDecode bits with
        | .error e => .fail "ean-structure" e
        | .ok digits =>
          let kind := if full.length = 8 then "EAN 8" else "EAN 13"
          if digits ≠ full then .fail "ean-roundtrip" "decoded digits differ from the completed number"
          else if hexArg (o.get "content") ≠ full.map (fun d => UInt8.ofNat (d + 48)) then
            .fail "ean-content" "Content() is not the completed number"
          else if hexArg (o.get "kind") ≠ strBytes kind then .fail "ean-kind" "wrong kind"
          else if bits.length ≠ (if full.length = 8 then 67 else 95) then .fail "ean-length" "wrong module count"
          else .pass
  | _ => .na

/-! ### C07 Code 39 / Code 93 -/

def c39BasicAlphabet (r : Nat) : Bool := Spec.OneD.c39Alphabet.any (fun c => c.toNat == r)

def oracleC07 (op : List String) (o : Obs) : Verdict :=
  match op with
  | [kind, c, cs, full] =>
    if kind ≠ "c39" ∧ kind ≠ "c93" then .na else
    let content := hexArg c
    let rs := runeList content
    let cs := cs == "1"
    let full := full == "1"
    let inDomain := if full then rs.all (· ≤ 127) else rs.all c39BasicAlphabet
    if o.cls ≠ "ok" then
      if o.cls = "rej" ∧ !inDomain then .na
      else if inDomain then .fail (kind ++ "-rejected") s!"in-domain text gave {o.cls}"
      else .fail (kind ++ "-crash") o.cls
    else
      let bits := o.pic.row0
      if kind == "c39" then
        match Spec.OneD.c39Decode cs full bits with
        | .error e => .fail "c39-structure" e
        | .ok info => if info.text = rs then .pass else .fail "c39-roundtrip" "decoded text differs"
      else
        match Spec.OneD.c93Decode cs full bits with
        | .error e => .fail "c93-structure" e
        | .ok info => if info.text = rs then .pass else .fail "c93-roundtrip" "decoded text differs"
  | _ => .na

/-! ### C08 Codabar / 2 of 5 -/

def oracleC08 (op : List String) (o : Obs) : Verdict :=
  match op with
  | ["codabar", c] =>
    let content := hexArg c
    if o.cls = "rej" then .na
    else if o.cls ≠ "ok" then .fail "codabar-crash" o.cls
    else match Spec.OneD.codabarDecode o.pic.row0 with
      | .error e => .fail "codabar-structure" e
      | .ok chars => if chars = content.map (·.toNat) then .pass else .fail "codabar-roundtrip" "decoded text differs"
  | ["tof", c, il] =>
    let content := hexArg c
    if o.cls = "rej" then .na
    else if o.cls ≠ "ok" then .fail "tof-crash" o.cls
    else
      let r := if il == "1" then Spec.OneD.tofDecodeInterleaved o.pic.row0 else Spec.OneD.tofDecodeStandard o.pic.row0
      match r with
      | .error e => .fail "tof-structure" e
      | .ok ds => if ds = content.map (·.toNat) then .pass else .fail "tof-roundtrip" "decoded digits differ"
  | ["tofcs", c] =>
    let content := hexArg c
    if content.isEmpty ∨ !content.all isDigitByte then .na
    else if o.cls ≠ "ok" then .fail "tofcs-rejected" s!"digit string gave {o.cls}"
    else
      let out := hexArg (o.get "str")
      if out.length ≠ content.length + 1 ∨ out.take content.length ≠ content ∨ !out.all isDigitByte then
        .fail "tofcs-shape" "result is not the content plus one digit"
      else if Spec.OneD.tofWeightedSum (out.map (fun b => b.toNat - 48)) % 10 ≠ 0 then
        .fail "tofcs-sum" "3-1 weighted sum is not a multiple of ten"
      else .pass
  | _ => .na

/-! ### C17 Galois fields, polynomials, Reed–Solomon -/

def intList (s : String) : List Int :=
  if s == "-" || s == "" then [] else (s.splitOn ",").map (fun t => t.toInt?.getD 0)
def natList (s : String) : List Nat := (intList s).map Int.toNat

def oracleC17 (op : List String) (o : Obs) : Verdict :=
  let field? : Option (Spec.RS.BinField × Nat) :=
    match op with
    | _ :: pp :: size :: base :: _ => some (⟨pp.toNat?.getD 0, size.toNat?.getD 0⟩, base.toNat?.getD 0)
    | _ => none
  match field? with
  | none => .na
  | some (f, base) =>
  let n := f.size
  match op with
  | ["gf.tables", _, _, _] =>
    if o.cls ≠ "ok" then .fail "gf-tables" o.cls else
    let alog := natList (o.get "alog")
    let log := natList (o.get "log")
    if alog.length ≠ n ∨ log.length ≠ n then .fail "gf-tables" "table sizes" else
    -- alog[i] = x^i ; log is a right inverse of alog on the non-zero elements
    let okA := (List.range n).foldl (fun (acc : Bool × Nat) i => (acc.1 && alog.getD i 0 == acc.2, f.mulx acc.2)) (true, 1)
    let alogA := alog.toArray
    let okL := (List.range n).all (fun a => a == 0 || alogA.getD ((log.getD a 0) % (n - 1)) 0 == a)
    if okA.1 && okL then .pass else .fail "gf-tables" "antilog table is not the powers of x / log is not its inverse"
  | ["gf.mulrow", _, _, _, a] =>
    if o.cls ≠ "ok" then .fail "gf-mul" o.cls else
    let a := a.toNat?.getD 0
    let v := natList (o.get "v")
    if v.length == n && (List.range n).all (fun b => v.getD b 0 == f.mul a b) then .pass
    else .fail "gf-mul" s!"Multiply({a}, b) differs from the field product for some b"
  | ["gf.divrow", _, _, _, a] =>
    if o.cls ≠ "ok" then .fail "gf-div" s!"Divide({a}, b) for non-zero b gave {o.cls}" else
    let a := a.toNat?.getD 0
    let v := intList (o.get "v")
    if v.length == n && (List.range n).all (fun b => b == 0 ||
        (let q := v.getD b (-1); q ≥ 0 && q.toNat < n && f.mul q.toNat b == a)) then .pass
    else .fail "gf-div" s!"Divide({a}, b) * b differs from {a} for some non-zero b"
  | ["gf.inv", _, _, _] =>
    if o.cls ≠ "ok" then .fail "gf-inv" o.cls else
    let v := natList (o.get "v")
    if v.length == n && (List.range n).all (fun a => a == 0 || (v.getD a 0 < n && f.mul a (v.getD a 0) == 1)) then .pass
    else .fail "gf-inv" "a * Invers(a) differs from 1 for some a"
  | ["poly", _, _, _, "div", p, q] =>
    let p := natList p
    let q := natList q
    if q.headD 0 == 0 then .na
    else if o.cls ≠ "ok" then .fail "poly-div" o.cls else
    let quo := natList (o.get "q")
    let rem := natList (o.get "r")
    let back := Spec.RS.polyAddRaw (f.polyMulRaw quo q) rem
    if !Spec.RS.polyEq back p then .fail "poly-div" "dividend differs from quotient * divisor + remainder"
    else if Spec.RS.polyDeg rem ≥ Spec.RS.polyDeg q ∧ Spec.RS.polyDeg rem ≥ 0 ∧ !(Spec.RS.polyDeg q == 0 ∧ Spec.RS.stripZeros rem == []) then
      .fail "poly-div" "degree of the remainder is not below the degree of the divisor"
    else .pass
  | ["poly", _, _, _, "mul", p, q] =>
    if o.cls ≠ "ok" then .fail "poly-mul" o.cls
    else if Spec.RS.polyEq (natList (o.get "r")) (f.polyMulRaw (natList p) (natList q)) then .pass
    else .fail "poly-mul" "product differs"
  | ["poly", _, _, _, "add", p, q] =>
    if o.cls ≠ "ok" then .fail "poly-add" o.cls
    else if Spec.RS.polyEq (natList (o.get "r")) (Spec.RS.polyAddRaw (natList p) (natList q)) then .pass
    else .fail "poly-add" "sum differs"
  | ["rs", _, _, _, calls] =>
    if o.cls ≠ "ok" then .fail "rs-encode" o.cls else
    if o.get "guard" = "0" then .fail "rs-caller-memory" "Encode wrote to the caller's memory (inside or beyond the data slice)" else
    let cs := (calls.splitOn ";").map (fun c => match c.splitOn ":" with
      | [k, d] => (k.toNat?.getD 0, natList d)
      | _ => (0, []))
    let rs := (o.get "r").splitOn ";"
    if rs.length ≠ cs.length then .fail "rs-encode" "number of results" else
    let bad := (List.zip cs rs).find? (fun ((k, d), r) =>
      let e := natList r
      !(e.length == k && f.valid base k (d ++ e)))
    match bad with
    | none => .pass
    | some ((k, _), _) => .fail "rs-encode" s!"data ++ check symbols (k={k}) is not a codeword (non-zero syndrome or wrong length)"
  | _ => .na

/-! ### C18 BitList as a bit sequence -/

/-- interpret a BitList script on the abstract bit sequence; `none` when an index is outside the sequence -/
def bitSeqRun : List String → Array Bool → String → Option (Array Bool × String)
  | [], bs, gets => some (bs, gets)
  | t :: rest, bs, gets =>
    let arg := (t.drop 1).toString
    if t.startsWith "a" then bitSeqRun rest (bs.push (arg == "1")) gets
    else if t.startsWith "A" then bitSeqRun rest (bs ++ (arg.toList.map (· == '1')).toArray) gets
    else if t.startsWith "B" then bitSeqRun rest (bs ++ (Spec.BitSeq.lowBits (arg.toInt?.getD 0) 8).toArray) gets
    else if t.startsWith "b" then
      match arg.splitOn "," with
      | [x, k] => bitSeqRun rest (bs ++ (Spec.BitSeq.lowBits (x.toInt?.getD 0) (k.toNat?.getD 0)).toArray) gets
      | _ => none
    else if t.startsWith "s" then
      match arg.splitOn "," with
      | [i, v] =>
        let i := i.toNat?.getD bs.size
        if i < bs.size then bitSeqRun rest (bs.setIfInBounds i (v == "1")) gets else none
      | _ => none
    else if t.startsWith "g" then
      let i := arg.toNat?.getD bs.size
      if i < bs.size then bitSeqRun rest bs (gets.push (if bs.getD i false then '1' else '0')) else none
    else none

/-- `Spec.BitSeq.pack` on an array (same definition, constant-time indexing) -/
def packArr (bs : Array Bool) : List Nat :=
  (List.range ((bs.size + 7) / 8)).map (fun i =>
    (List.range 8).foldl (fun acc j => 2 * acc + (if bs.getD (8 * i + j) false then 1 else 0)) 0)

def oracleC18 (op : List String) (o : Obs) : Verdict :=
  match op with
  | "bl" :: first :: script =>
    let init : Option (Array Bool) :=
      if first == "z" then some #[]
      else if first.startsWith "n" then (first.drop 1).toString.toNat?.map (Array.replicate · false) else none
    match init with
    | none => .na
    | some bs =>
      match bitSeqRun script bs "" with
      | none => .na     -- an index at or beyond the length: outside the property
      | some (bs, gets) =>
        if o.cls ≠ "ok" then .fail "bitlist-crash" o.cls else
        let bytes := packArr bs
        let hexOf := fun (l : List Nat) => toHexField (l.map UInt8.ofNat)
        if o.nat "len" ≠ bs.size then .fail "bitlist-len" "Len() differs from the number of bits appended"
        else if o.get "bytes" ≠ hexOf bytes then .fail "bitlist-bytes" "GetBytes() is not the packed sequence"
        else if o.get "iter" ≠ hexOf bytes then .fail "bitlist-iter" "IterateBytes() is not the packed sequence"
        else if o.get "gets" ≠ (if gets.isEmpty then "-" else gets) then .fail "bitlist-get" "GetBit differs from the sequence"
        else .pass
  | _ => .na

/-! ### C01 QR -/

def oracleC01 (op : List String) (o : Obs) : Verdict :=
  match op with
  | ["qr", c, level, mode] =>
    let content := hexArg c
    let level := (level.toNat?.getD 0) % 256
    let mode := (mode.toNat?.getD 0) % 256
    if level > 3 ∨ mode > 3 then .na      -- undefined constants: outside the property's quantifier
    else if o.cls = "rej" then .na
    else if o.cls ≠ "ok" then .fail "qr-crash" o.cls
    else
      let p := o.pic
      if !p.twoColour then .fail "qr-colours" "pixels are not exactly the two scheme colours" else
      match Spec.Qr.decode p.w p.h p.dark with
      | .error e => .fail "qr-structure" e
      | .ok info =>
        if info.content ≠ content then .fail "qr-roundtrip" "decoded content differs"
        else if info.level ≠ level then .fail "qr-level" "format information names another level"
        else .pass
  | _ => .na

/-! ### C02 DataMatrix -/

def oracleC02 (op : List String) (o : Obs) : Verdict :=
  match op with
  | ["dm", c] =>
    let content := hexArg c
    if o.cls = "rej" then .na      -- acceptance is C10's business
    else if o.cls ≠ "ok" then .fail "dm-crash" o.cls
    else
      let p := o.pic
      if !p.twoColour then .fail "dm-colours" "pixels are not exactly the two scheme colours" else
      match Spec.Datamatrix.decode p.w p.h p.dark with
      | .error e => .fail "dm-structure" e
      | .ok info =>
        if info.content = content then .pass else .fail "dm-roundtrip" "decoded content differs"
  | _ => .na

/-! ### C04 PDF417 -/

def oracleC04 (op : List String) (o : Obs) : Verdict :=
  match op with
  | ["pdf", c, lvl] =>
    let content := hexArg c
    let lvl := (lvl.toNat?.getD 0) % 256
    if o.cls = "rej" then .na
    else if o.cls ≠ "ok" then .fail "pdf-crash" o.cls
    else
      let p := o.pic
      if !p.twoColour then .fail "pdf-colours" "pixels are not exactly the two scheme colours" else
      match Spec.Pdf417.decode p.w p.h p.dark with
      | .error e => .fail "pdf-structure" e
      | .ok info =>
        if info.content ≠ content then .fail "pdf-roundtrip" "decoded data differs"
        else if info.level ≠ lvl then .fail "pdf-level" "row indicators name another security level"
        else if info.ecCount ≠ 2 ^ (lvl + 1) then .fail "pdf-eccount" "number of check words is not 2^(level+1)"
        else .pass
  | _ => .na

end BV.Oracle
