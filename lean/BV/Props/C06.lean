/-
  C06 — EAN-8 / EAN-13: GS1 check digit, acceptance, and round trip through the reference decoder.
  Statements only; proofs in BV/Proofs/Ean.lean (shared lemmas: BV/Proofs/Ascii.lean, BV/Proofs/OneD.lean).

  Vocabulary (defined in BV/Proofs/OneD.lean and BV/Proofs/Ean.lean, restated by `rfl`-lemmas below):
    `AllDigits s`   every byte of `s` is an ASCII digit '0'..'9'
    `digitsOf s`    the digit values (byte − 48)
    `digitByte d`   the ASCII byte of digit `d`
    `Accepts code`  7 or 12 digits, or 8 or 13 digits ending in the GS1 check digit of the others
    `completed code` the 7/12-digit input with its check digit appended (8/13-digit input unchanged)
-/
import BV.Proofs.Ean
namespace BV.Props.C06
open BV BV.Spec.OneD BV.Proofs.OneD BV.Proofs.Ean

/-! ### the vocabulary, spelled out -/

theorem AllDigits_def (s : Bytes) : AllDigits s ↔ ∀ b ∈ s, 48 ≤ b.toNat ∧ b.toNat ≤ 57 := by
  simp only [AllDigits, isDigitByte_iff]

theorem digitsOf_def (s : Bytes) : digitsOf s = s.map (fun b => b.toNat - 48) := rfl

theorem digitByte_def (d : Nat) : digitByte d = UInt8.ofNat (48 + d) := rfl

theorem Accepts_def (code : Bytes) : Accepts code ↔
    AllDigits code ∧ (code.length = 7 ∨ code.length = 12 ∨
      ((code.length = 8 ∨ code.length = 13) ∧
        (digitsOf code).getLast? = some (gs1Check (digitsOf code).dropLast))) := Iff.rfl

theorem completed_def (code : Bytes) : completed code =
    if code.length = 7 ∨ code.length = 12 then code ++ [digitByte (gs1Check (digitsOf code))] else code := rfl

/-! ### table certificates (finite facts about the generated table, by `decide`) -/

/-- certificate: the generated `encoderTable` has exactly the keys '0'..'9' (each once, in order) -/
theorem C06_table_keys : Gen.Ean.v_encoderTable.map (·.1) = [48, 49, 50, 51, 52, 53, 54, 55, 56, 57] := by decide

/-- certificate: `LeftOdd` is set L of ISO/IEC 15420, `Right` its complement (set R), `LeftEven` the reversed `Right`
    (set G), and `CheckSum` the first-digit parity row -/
theorem C06_table_entries :
    Gen.Ean.v_encoderTable.map (·.2.1) = eanL ∧
    Gen.Ean.v_encoderTable.map (·.2.2.2.1) = eanL.map (fun p => p.map (!·)) ∧
    Gen.Ean.v_encoderTable.map (·.2.2.1) = (Gen.Ean.v_encoderTable.map (·.2.2.2.1)).map List.reverse ∧
    Gen.Ean.v_encoderTable.map (·.2.2.1) = eanG ∧
    Gen.Ean.v_encoderTable.map (·.2.2.2.1) = eanR ∧
    Gen.Ean.v_encoderTable.map (·.2.2.2.2) = eanParity := by decide

/-- certificate: the 20 left-hand patterns (sets L and G together) are pairwise distinct, so are the 10 set-R
    patterns and the 10 parity rows: digit and parity recovery by the decoder is unambiguous -/
theorem C06_patterns_distinct : (eanL ++ eanG).Nodup ∧ eanR.Nodup ∧ eanParity.Nodup := by decide

/-- certificate: every pattern has 7 modules and every parity row 6 entries -/
theorem C06_pattern_sizes :
    (∀ p ∈ eanL ++ eanG ++ eanR, p.length = 7) ∧ (∀ p ∈ eanParity, p.length = 6) ∧
    eanL.length = 10 ∧ eanG.length = 10 ∧ eanR.length = 10 ∧ eanParity.length = 10 := by decide

/-! ### the property -/

/-- C06, acceptance.  For EVERY byte string `code` (any length, any bytes, including invalid UTF-8):
    the encoder succeeds exactly when `code` consists of 7 or 12 ASCII digits, or of 8 or 13 ASCII digits whose last
    digit is the GS1 modulo-10 check digit of the preceding ones; every other input is rejected with an error
    (never a panic). -/
theorem C06_accept (code : Bytes) :
    ((∃ bc, Model.Ean.encode code = .ok bc) ↔ Accepts code) ∧
    (¬ Accepts code → Model.Ean.encode code = .error .rejected) := by
  refine ⟨⟨?_, fun h => ⟨_, encode_accepts code scheme16 h⟩⟩, encode_rejects code scheme16⟩
  rintro ⟨bc, hbc⟩
  by_cases h : Accepts code
  · exact h
  · rw [Model.Ean.encode, encode_rejects code scheme16 h] at hbc
    cases hbc

/-- C06, result.  Whenever the encoder returns a barcode `bc` for `code`:
    `Content()` is the input completed by its GS1 check digit, an 8- or 13-digit string; the kind is "EAN 8" / "EAN 13",
    the symbol is 67 / 95 modules wide, one-dimensional of height 1; the reference decoder (guard bars, L/G/R digit
    sets, first-digit parity pattern) reads exactly the digits of `Content()` from the drawn row; the last digit of
    `Content()` is the GS1 check digit of the others and it is what `CheckSum()` reports. -/
theorem C06_roundtrip (code : Bytes) (bc : Barcode) (h : Model.Ean.encode code = .ok bc) :
    bc.content = completed code ∧
    AllDigits bc.content ∧
    (bc.content.length = 8 ∨ bc.content.length = 13) ∧
    bc.kind = (if bc.content.length = 8 then "EAN 8" else "EAN 13") ∧
    bc.w = (if bc.content.length = 8 then 67 else 95) ∧
    bc.h = 1 ∧ bc.dims = 1 ∧
    eanDecode bc.row0 = .ok (digitsOf bc.content) ∧
    (digitsOf bc.content).getLast? = some (gs1Check (digitsOf bc.content).dropLast) ∧
    bc.checksum = some ((gs1Check (digitsOf bc.content).dropLast : Nat) : Int) := by
  have hacc : Accepts code := (C06_accept code).1.1 ⟨bc, h⟩
  rw [Model.Ean.encode, encode_accepts code scheme16 hacc] at h
  injection h with h
  subst h
  obtain ⟨hd, hl, hc⟩ := completed_spec code hacc
  have hrow := expected_decode (completed code) scheme16 hd hl
  have hlast : (digitsOf (completed code)).getLastD 0 = gs1Check (digitsOf (completed code)).dropLast := by
    rw [List.getLastD_eq_getLast?, hc]; rfl
  refine ⟨rfl, hd, hl, rfl, ?_, rfl, rfl, hrow, hc, ?_⟩
  · show (if (completed code).length = 8 then sym8 _ else sym13 _).length =
      (if (completed code).length = 8 then 67 else 95)
    rcases hl with hl | hl
    · simp only [hl, if_true]
      exact (sym8_length _ (by rw [digitsOf_length, hl]) (digitsOf_lt hd)).1
    · simp only [hl, show ¬ ((13 : Nat) = 8) by decide, if_false]
      exact (sym13_length _ (by rw [digitsOf_length, hl]) (digitsOf_lt hd)).1
  · show some (((digitsOf (completed code)).getLastD 0 : Nat) : Int) = _
    rw [hlast]
    rfl

/-- C06, guard bars spelled out: normal guard 101 at both ends, centre guard 01010 after the left half. -/
theorem C06_guards (code : Bytes) (bc : Barcode) (h : Model.Ean.encode code = .ok bc) :
    bc.row0.take 3 = [true, false, true] ∧
    (bc.row0.drop (if bc.content.length = 8 then 31 else 45)).take 5 = [false, true, false, true, false] ∧
    bc.row0.drop (if bc.content.length = 8 then 64 else 92) = [true, false, true] := by
  have hacc : Accepts code := (C06_accept code).1.1 ⟨bc, h⟩
  rw [Model.Ean.encode, encode_accepts code scheme16 hacc] at h
  injection h with h
  subst h
  obtain ⟨hd, hl, _⟩ := completed_spec code hacc
  rw [expected, row0_mk1D]
  show _ ∧ (List.drop (if (completed code).length = 8 then 31 else 45) _).take 5 = _ ∧
    List.drop (if (completed code).length = 8 then 64 else 92) _ = _
  rcases hl with hl | hl
  · simp only [hl, if_true]
    obtain ⟨_, h1, h2, h3⟩ := sym8_length _ (by rw [digitsOf_length, hl]) (digitsOf_lt hd)
    exact ⟨h1, h2, h3⟩
  · simp only [hl, show ¬ ((13 : Nat) = 8) by decide, if_false]
    obtain ⟨_, h1, h2, h3⟩ := sym13_length _ (by rw [digitsOf_length, hl]) (digitsOf_lt hd)
    exact ⟨h1, h2, h3⟩

/-! ### the hypotheses are satisfiable: concrete inputs -/

/-- "5512345" (7 digits) is accepted and completed to "55123457" -/
example : Accepts [53, 53, 49, 50, 51, 52, 53] ∧ completed [53, 53, 49, 50, 51, 52, 53] = [53, 53, 49, 50, 51, 52, 53, 55] := by
  decide

/-- "5901234123457" (13 digits, correct check digit) is accepted; with a wrong last digit it is not -/
example : Accepts [53, 57, 48, 49, 50, 51, 52, 49, 50, 51, 52, 53, 55] ∧
    ¬ Accepts [53, 57, 48, 49, 50, 51, 52, 49, 50, 51, 52, 53, 56] := by decide

/-- a non-ASCII input of 12 bytes and a 9-digit input are not accepted -/
example : ¬ Accepts [53, 57, 48, 49, 50, 51, 52, 49, 50, 51, 0xC3, 0xA9] ∧ ¬ Accepts [49, 50, 51, 52, 53, 54, 55, 56, 57] := by
  decide

/-- so the encoder returns a barcode for "5512345", and `C06_roundtrip` applies to it -/
example : ∃ bc, Model.Ean.encode [53, 53, 49, 50, 51, 52, 53] = .ok bc ∧
    bc.content = [53, 53, 49, 50, 51, 52, 53, 55] ∧ bc.checksum = some 7 := by
  obtain ⟨bc, h⟩ := (C06_accept [53, 53, 49, 50, 51, 52, 53]).1.2 (by decide)
  obtain ⟨h1, _, _, _, _, _, _, _, _, h2⟩ := C06_roundtrip _ bc h
  refine ⟨bc, h, by rw [h1]; decide, ?_⟩
  rw [h2, h1]
  decide

end BV.Props.C06
