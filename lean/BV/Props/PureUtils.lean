/-
  PureUtils — faithfulness preconditions of the pure-function models of these packages (Root, Utils), as generated
  syntactic facts of the *current* source:
  * no package-level variable is assigned, incremented or sent to outside `init`, and no method of a type that has a
    package-level instance assigns a field through its receiver (no hidden state that could make a result depend on
    earlier calls — a memo, a free list, a resume hint);
  * no struct field is assigned directly from a slice parameter (no aliasing of caller memory);
  * the only assignments to fields through a method receiver are the three known ones in `utils` (`BitList.SetBit`,
    `BitList.grow`, and the Reed–Solomon cache in `getPolynomial`, which C15–C17 treat) — an object that several calls
    share (the encoders' package-level `ec`, its `ReedSolomonEncoder`) gets no new memory;
  * no local variable or struct field is a fixed-size array beyond the known 5-element 2-of-5 patterns (the models work
    on unbounded lists; a scratch buffer of fixed capacity is a precondition they do not carry).
  Every property whose model treats an encoder as a function of its arguments depends on these facts, so they are among
  the obligations of each of those properties: a change that introduces such state fails this module in the check of every
  property of the family, whether or not an input exhibiting a wrong result is found (a memo keyed by a checksum can need
  a 2^-32 coincidence). (`utils.ReedSolomonEncoder`'s cache lives in a struct field and is handled by C15/C16/C17.)
-/
import BV.Gen.Root
import BV.Gen.Utils
namespace BV.Props.PureUtils
open BV

theorem pureUtils_no_hidden_state :
    Gen.Root.fact_globalWrites = [] ∧ Gen.Root.fact_aliasAssign = [] ∧ Gen.Root.fact_fixedArrays = [] ∧ Gen.Root.fact_receiverWrites = [] ∧
    Gen.Utils.fact_globalWrites = [] ∧ Gen.Utils.fact_aliasAssign = [] ∧ Gen.Utils.fact_fixedArrays = [] ∧ Gen.Utils.fact_receiverWrites = ["BitList_SetBit:data", "BitList_grow:data", "ReedSolomonEncoder_getPolynomial:polynomes"] := by
  decide

/-- The library routines these packages call are exactly the ones the models were written against (DESIGN §7, item 5):
    a body that starts to use another routine — `math/bits.Div` instead of `big.Int.DivMod`, `hash/crc32`,
    `bytes.TrimPrefix`, `strings.HasPrefix` — is outside what the model mirrors, whether or not an input shows it. -/
theorem pureUtils_external_calls :
    Gen.Root.fact_externalCalls = ["(image.Image).At", "(image.Image).Bounds", "(image.Image).ColorModel", "errors.New", "fmt.Errorf", "image.Rect", "math.Min"] ∧
    Gen.Utils.fact_externalCalls = ["(*sync.Mutex).Lock", "(*sync.Mutex).Unlock", "image.Rect"] := by
  decide

end BV.Props.PureUtils
