/-
  AztecA — the Aztec encoder (`/repo/aztec`) against the reference decoder written from ISO/IEC 24778:
  property C03 (valid symbol, payload round trip, explicit layer request honoured) and the Aztec parts of
  C10 (request range, no panic), C12 (check bits ≥ requested percentage), C13 (automatic size is minimal).
  Only property statements live here; lemmas are in
    BV/Proofs/AztecBits.lean     (vocabulary: `render`, `Shape`, `LayoutOK`, `modAt`)
    BV/Proofs/AztecStream.lean   (reference parser on the emitted code sequences, table certificates)
    BV/Proofs/AztecSearch.lean   (invariant of the state search, stream round trip)
    BV/Proofs/AztecStuff.lean    (bit stuffing)
    BV/Proofs/AztecLayers.lean   (layer choice, size arithmetic)
    BV/Proofs/AztecCheck.lean    (check words, mode message)
    BV/Proofs/AztecDecode.lean   (the reference decoder in stages)
    BV/Proofs/AztecAssemble.lean (assembly)
    BV/Proofs/AztecGeom*.lean    (geometry of the drawing)
-/
import BV.Proofs.AztecAssemble
import BV.Proofs.AztecGeomMain
namespace BV.Props.AztecA
open BV BV.Model BV.Model.Aztec BV.Proofs.Bits BV.Proofs.AztecBits
open BV.Proofs.AztecStream (modeOf latchPath latchBits)
open BV.Proofs.AztecAssemble (GeometryOK selectLayers)

/-! ## 1 — tables of the high-level encoder -/

/-- `charMap` (5 × 256 entries, built by `init()`) agrees with the character tables of the standard wherever it
    is non-zero: the entry is the code of exactly that byte in that mode, and never the all-ones code.
    (Certificate by kernel evaluation over all 1280 entries.) -/
theorem AztecA_charMap (mode : Nat) (hm : mode < 5) (ch : UInt8) (h : 0 < charMapAt mode ch) :
    charMapAt mode ch < 2 ^ Spec.Aztec.codeBits (modeOf mode) - 1 ∧
      Spec.Aztec.table (modeOf mode) (charMapAt mode ch) = .chars [ch] :=
  BV.Proofs.AztecStream.charMap_spec mode hm ch h

/-- every one of the 20 latch table entries `a → b` (`a ≠ b`) is a sequence of latch codes of the standard that
    drives the reference parser from mode `a` to mode `b` consuming exactly the entry's bits, at most 14 -/
theorem AztecA_latchTable : ∀ a < 5, ∀ b < 5, a ≠ b →
    latchPath 3 (modeOf a) (latchBits a b) = some (modeOf b) ∧ latchTable a b >>> 16 ≤ 14 :=
  BV.Proofs.AztecStream.latch_cert

/-- every shift table entry is the shift code of the standard (to Punct: 0; to Upper: 28 from Lower, 15 from
    Digit), fits the code width of its mode, and the shifted-to mode has 5-bit codes -/
theorem AztecA_shiftTable (a b : Nat) (ha : a < 5) (hb : b < 5) (h : (shiftTableOk a b).isSome = true) :
    Spec.Aztec.table (modeOf a) (shiftTable a b) = .shift (modeOf b) ∧
      shiftTable a b < 2 ^ Spec.Aztec.codeBits (modeOf a) ∧ Spec.Aztec.codeBits (modeOf b) = 5 :=
  BV.Proofs.AztecStream.shift_spec a b ha hb h

/-- the duplicated `'\''` in `punctTable`: the double quote (34) is in none of the five tables, so it is encoded
    by a binary shift (still a valid encoding, see the example after `AztecA_stream_roundtrip`) -/
example : ∀ mode < 5, charMapAt mode 34 = 0 := by decide +kernel

/-! ## 2 — the character stream -/

/-- **High-level stream round trip** (heart of C03).  For every payload (shorter than 2^58 bytes, so that the bit
    counts of the search stay below Go's `MaxInt`), `highlevelEncode data` followed by any padding of fewer than
    `ws` one-bits (`ws ≤ 18`; the codeword sizes are 6, 8, 10, 12) is parsed by the reference parser of the
    standard — Upper/Lower/Mixed/Punct/Digit codes, latches, shifts, binary shift with 5 and 5+11 bit length —
    to exactly `data`.  Optimality of the encoding is not claimed. -/
theorem AztecA_stream_roundtrip (ws : Nat) (hws : ws ≤ 18) (data : Bytes) (hlen : data.length < 2 ^ 58)
    (pad : List Bool) (hp1 : pad.length < ws) (hp2 : pad.all id = true) :
    Spec.Aztec.parse ws ((highlevelEncode data ++ pad).length + 1) .upper none (highlevelEncode data ++ pad).length
      (highlevelEncode data ++ pad) [] = .ok data :=
  BV.Proofs.AztecSearch.highlevel_roundtrip ws hws data hlen pad hp1 hp2

/-- instance: "Az \"q\" 1, 2.\r\n" followed by the byte 255, with three pad bits (all five modes, a pair code, a
    binary shift for the quotes and for 255) -/
example : Spec.Aztec.parse 8
    ((highlevelEncode [65, 122, 32, 34, 113, 34, 32, 49, 44, 32, 50, 46, 13, 10, 255] ++ [true, true, true]).length + 1)
    .upper none
    (highlevelEncode [65, 122, 32, 34, 113, 34, 32, 49, 44, 32, 50, 46, 13, 10, 255] ++ [true, true, true]).length
    (highlevelEncode [65, 122, 32, 34, 113, 34, 32, 49, 44, 32, 50, 46, 13, 10, 255] ++ [true, true, true]) [] =
    .ok [65, 122, 32, 34, 113, 34, 32, 49, 44, 32, 50, 46, 13, 10, 255] :=
  AztecA_stream_roundtrip 8 (by decide) _ (by decide) _ (by decide) (by decide)

/-! ## 3 — bit stuffing -/

/-- **Bit stuffing.**  For every bit list and word size `w ≥ 2`: the stuffed stream consists of whole `w`-bit
    words, no word is all-zero or all-one, and removing the stuffing bits (`Spec.Aztec.unstuffWord`) returns the
    original bits followed by fewer than `w` one-bits (the padding that the parser ignores). -/
theorem AztecA_stuffing (bits : List Bool) (w : Nat) (hw : 2 ≤ w) :
    (stuffBits bits w).length % w = 0 ∧
    (let ws := Spec.Aztec.groups w ((stuffBits bits w).length / w) (stuffBits bits w)
     (∀ x ∈ ws, x < 2 ^ w ∧ x ≠ 0 ∧ x ≠ 2 ^ w - 1) ∧
     (∃ pad : List Bool, pad.length < w ∧ pad.all id = true ∧
        ws.flatMap (Spec.Aztec.unstuffWord w) = bits ++ pad) ∧
     ws.flatMap (fun x => msbBits x w) = stuffBits bits w) :=
  ⟨BV.Proofs.AztecStuff.stuffBits_length_mod bits w hw, BV.Proofs.AztecStuff.stuffBits_words bits w hw⟩

/-- stuffing grows the stream, by at most one bit per `w - 1` bits (plus one word) -/
theorem AztecA_stuffing_length (bits : List Bool) (w : Nat) (hw : 2 ≤ w) :
    bits.length ≤ (stuffBits bits w).length ∧ (stuffBits bits w).length ≤ (bits.length / (w - 1) + 1) * w :=
  ⟨BV.Proofs.AztecStuff.stuffBits_length_ge bits w hw, BV.Proofs.AztecStuff.stuffBits_length_le bits w hw⟩

example : stuffBits [true, true, true, true, true, false, false, false, false, false, true, false, true] 6 =
    [true, true, true, true, true, false, false, false, false, false, false, true,
     true, false, true, true, true, true] := by decide

/-! ## 4 — layer choice and size arithmetic -/

/-- the codeword size table is the one of the standard: 6 bits for 1–2 layers, 8 for 3–8, 10 for 9–22, 12 for
    23–32 -/
theorem AztecA_word_size (L : Nat) (h1 : 1 ≤ L) (h2 : L ≤ 32) : word_size L = Spec.Aztec.wordSizeOf L :=
  BV.Proofs.AztecLayers.word_size_eq L h1 h2

/-- side lengths: the model's `matrixSize` is the standard's symbol size, compact `11 + 4L`, full range
    `15 + 4L + 2⌊(2L+6)/15⌋` (19 … 151) -/
theorem AztecA_symbol_size (compact : Bool) (L : Nat) (h : Shape compact L) :
    (alignmentMap compact (if compact then 11 + L * 4 else 14 + L * 4)).2 = Spec.Aztec.symbolSize compact L ∧
    Spec.Aztec.symbolSize true L = 11 + 4 * L ∧
    Spec.Aztec.symbolSize false L = 15 + 4 * L + 2 * ((2 * L + 6) / 15) :=
  ⟨BV.Proofs.AztecLayers.matrixSize_eq h, BV.Proofs.AztecLayers.symbolSize_compact L,
    BV.Proofs.AztecLayers.symbolSize_full L⟩

/-- the Galois fields of `getGF` are the fields of the standard (GF(16)/0x13, GF(64)/0x43, GF(256)/0x12D,
    GF(1024)/0x409, GF(4096)/0x1069, generator base 1), all covered by C17 -/
theorem AztecA_field : ∀ w ∈ [4, 6, 8, 10, 12], ∃ pp n, getGF w = some (GF.newField pp n 1) ∧
    Spec.RS.aztecField w = some ⟨pp, n⟩ ∧ n = 2 ^ w ∧ (pp, n, 1) ∈ BV.Props.C17.fields :=
  BV.Proofs.AztecLayers.getGF_eq

/-- an accepted explicit request (`-4..-1` compact, `1..32` full range) yields exactly the requested shape, with
    the stuffed bits and the requested check bits fitting into the usable bits (and into 64 words if compact) -/
theorem AztecA_explicit (bits : List Bool) (ecc req : Int) (lay : Layout)
    (h : explicitLayers bits ecc req = .ok lay) (h0 : req ≠ 0) :
    (-4 ≤ req ∧ req ≤ 32) ∧ lay.compact = decide (req < 0) ∧ lay.layers = req.natAbs ∧ LayoutOK bits ecc lay :=
  BV.Proofs.AztecLayers.explicitLayers_ok h h0

/-- an explicit request in range is accepted iff the message fits; otherwise it is rejected (never a panic) -/
theorem AztecA_explicit_iff (bits : List Bool) (ecc req : Int) (h1 : -4 ≤ req) (h2 : req ≤ 32) :
    ((∃ lay, explicitLayers bits ecc req = .ok lay) ↔
      (((stuffBits bits (word_size req.natAbs)).length : Int) + ecc ≤
          ((totalBitsInLayer req.natAbs (decide (req < 0)) -
            totalBitsInLayer req.natAbs (decide (req < 0)) % word_size req.natAbs : Nat) : Int) ∧
        (req < 0 → (stuffBits bits (word_size req.natAbs)).length ≤ word_size req.natAbs * 64))) ∧
    ((¬ ∃ lay, explicitLayers bits ecc req = .ok lay) → explicitLayers bits ecc req = .error .rejected) :=
  BV.Proofs.AztecLayers.explicitLayers_ok_iff bits ecc req h1 h2

/-- the automatic choice tries compact 1–4, then full range 4–32 (never full range 1–3) and returns the first
    shape that fits: the result is an accepted layout, equal to what the explicit request for that shape gives,
    and every candidate tried before it is rejected as an explicit request -/
theorem AztecA_auto (bits : List Bool) (ecc : Int) (lay : Layout)
    (h : autoLayers bits ecc (bits.length + ecc) 34 0 0 [] = .ok lay) :
    LayoutOK bits ecc lay ∧ (lay.compact = false → 4 ≤ lay.layers) ∧
    explicitLayers bits ecc (if lay.compact then -(lay.layers : Int) else lay.layers) = .ok lay ∧
    (∀ L : Nat, 1 ≤ L → L ≤ 4 → (lay.compact = true → L < lay.layers) →
      explicitLayers bits ecc (-(L : Int)) = .error .rejected) ∧
    (∀ L : Nat, 4 ≤ L → lay.compact = false → L < lay.layers →
      explicitLayers bits ecc (L : Int) = .error .rejected) :=
  have hge : ∀ w, 2 ≤ w → bits.length ≤ (stuffBits bits w).length :=
    fun w hw => BV.Proofs.AztecStuff.stuffBits_length_ge bits w hw
  ⟨(BV.Proofs.AztecLayers.autoLayers_ok h).1, (BV.Proofs.AztecLayers.autoLayers_ok h).2,
    BV.Proofs.AztecLayers.autoLayers_eq_explicit h,
    (BV.Proofs.AztecLayers.autoLayers_first_fit_req hge h).1,
    (BV.Proofs.AztecLayers.autoLayers_first_fit_req hge h).2⟩

/-- **C10 (Aztec part)**: layer requests outside `-4..32` are rejected -/
theorem C10_aztec_range (data : Bytes) (pct req : Int) (s : Scheme) (h : req < -4 ∨ 32 < req) :
    encodeWithColor data pct req s = .error .rejected := by
  rw [encodeWithColor_eq]
  have h0 : (req != Int.ofNat BV.Gen.Aztec.c_DEFAULT_LAYERS) = true := by
    simp [BV.Gen.Aztec.c_DEFAULT_LAYERS]; omega
  simp only [h0, if_true]
  rw [BV.Proofs.AztecLayers.explicitLayers_reject_range _ _ req h]
  rfl

/-- **C10 (Aztec part)**: for `pct ≥ 0` the encoder never panics — it returns a barcode or rejects -/
theorem C10_aztec_no_panic (data : Bytes) (pct req : Int) (s : Scheme) (hpct : 0 ≤ pct) :
    encodeWithColor data pct req s ≠ .error .panic := by
  rcases BV.Proofs.AztecAssemble.encode_cases data pct req hpct s with ⟨_, h⟩ | ⟨_, _, _, _, _, _, _, h⟩ <;>
    rw [h] <;> simp

/-- **C03 "an explicit layer request is honoured exactly"** (size level, no geometry needed): an accepted explicit
    request is in `-4..-1` or `1..32`, and the returned barcode is square with the side length of exactly the
    requested shape; the content is the payload -/
theorem C03_aztec_honoured (data : Bytes) (pct req : Int) (s : Scheme) (bc : Barcode) (hpct : 0 ≤ pct)
    (h0 : req ≠ 0) (h : encodeWithColor data pct req s = .ok bc) :
    (-4 ≤ req ∧ req ≤ 32) ∧ bc.w = Spec.Aztec.symbolSize (decide (req < 0)) req.natAbs ∧ bc.h = bc.w ∧
      bc.content = data := by
  rcases BV.Proofs.AztecAssemble.encode_cases data pct req hpct s with ⟨_, h'⟩ | ⟨lay, mb, mm, hsel, ok, _, _, h'⟩
  · rw [h'] at h; cases h
  · rw [h'] at h
    have hbc := Except.ok.inj h
    rw [BV.Proofs.AztecAssemble.selectLayers_explicit _ _ _ h0] at hsel
    obtain ⟨hr, hc, hl, _⟩ := BV.Proofs.AztecLayers.explicitLayers_ok hsel h0
    obtain ⟨hs, hcont⟩ := BV.Proofs.AztecAssemble.render_size lay.compact lay.layers ok.shape mb mm data s
    rw [← hbc, ← hc, ← hl]
    exact ⟨hr, hs, rfl, hcont⟩

/-- **C12**: for `pct ≥ 0`, whenever a barcode is returned the chosen layout carries at least one check word and
    `checkWords · wordSize · 100 ≥ pct · (number of high-level bits)`; data and check words together do not
    exceed the Reed–Solomon block length `2^wordSize - 1` -/
theorem C12_aztec (data : Bytes) (pct req : Int) (s : Scheme) (bc : Barcode) (hpct : 0 ≤ pct)
    (h : encodeWithColor data pct req s = .ok bc) :
    ∃ lay, selectLayers (highlevelEncode data) pct req = .ok lay ∧
      bc.w = Spec.Aztec.symbolSize lay.compact lay.layers ∧
      (let checkWords := lay.totalBitsInLayer / lay.wordSize - lay.stuffedBits.length / lay.wordSize
       ((checkWords : Int) * lay.wordSize * 100 ≥ pct * (highlevelEncode data).length) ∧ 1 ≤ checkWords ∧
       lay.stuffedBits.length / lay.wordSize + checkWords ≤ 2 ^ lay.wordSize - 1) := by
  rcases BV.Proofs.AztecAssemble.encode_cases data pct req hpct s with ⟨_, h'⟩ | ⟨lay, mb, mm, hsel, ok, _, _, h'⟩
  · rw [h'] at h; cases h
  · rw [h'] at h
    have hbc := Except.ok.inj h
    have hw := BV.Proofs.AztecLayers.word_size_mem ok.shape
    rw [← ok.ws] at hw
    have hw2 : 2 ≤ lay.wordSize := by
      simp only [List.mem_cons, List.not_mem_nil, or_false] at hw; omega
    have hmod : lay.stuffedBits.length % lay.wordSize = 0 := by
      rw [ok.stuffed]; exact BV.Proofs.AztecStuff.stuffBits_length_mod _ _ hw2
    refine ⟨lay, hsel, ?_, BV.Proofs.AztecLayers.checkWords_ok ok rfl hpct hmod⟩
    rw [← hbc]
    exact (BV.Proofs.AztecAssemble.render_size lay.compact lay.layers ok.shape mb mm data s).1

/-- **C13**: when the automatic choice (`req = 0`) returns a barcode, every explicit request naming a symbol with a
    strictly smaller side length is refused — including the full-range sizes 1–3 that the loop never tries and
    the change of codeword size between full-range 2 (6 bits) and compact 3 (8 bits) -/
theorem C13_aztec (data : Bytes) (pct : Int) (s : Scheme) (bc : Barcode) (hpct : 0 ≤ pct)
    (h : encodeWithColor data pct 0 s = .ok bc) (req : Int) (h0 : req ≠ 0)
    (hsz : Spec.Aztec.symbolSize (decide (req < 0)) req.natAbs < bc.w) (s' : Scheme) :
    encodeWithColor data pct req s' = .error .rejected := by
  by_cases hr : req < -4 ∨ 32 < req
  · exact C10_aztec_range data pct req s' hr
  rcases BV.Proofs.AztecAssemble.encode_cases data pct 0 hpct s with ⟨_, h'⟩ | ⟨lay, mb, mm, hsel, ok, _, _, h'⟩
  · rw [h'] at h; cases h
  · rw [h'] at h
    have hbc := Except.ok.inj h
    rw [BV.Proofs.AztecAssemble.selectLayers_auto] at hsel
    have hw : bc.w = Spec.Aztec.symbolSize lay.compact lay.layers := by
      rw [← hbc]
      exact (BV.Proofs.AztecAssemble.render_size lay.compact lay.layers ok.shape mb mm data s).1
    rw [hw] at hsz
    have hrej := BV.Proofs.AztecLayers.autoLayers_minimal
      (fun w hw => BV.Proofs.AztecStuff.stuffBits_length_ge _ w hw)
      (fun w hw => BV.Proofs.AztecStuff.stuffBits_length_le _ w hw)
      (BV.Proofs.AztecAssemble.ecc_ge _ pct hpct) hsel req h0 (by omega) (by omega) hsz
    rcases BV.Proofs.AztecAssemble.encode_cases data pct req hpct s' with ⟨_, h''⟩ | ⟨lay', _, _, hsel', _⟩
    · exact h''
    · rw [BV.Proofs.AztecAssemble.selectLayers_explicit _ _ _ h0, hrej] at hsel'
      cases hsel'

/-! ## 5 — check words and mode message -/

/-- **Check words.**  For a word size `w ∈ {4,6,8,10,12}`, a stuffed stream and a symbol capacity that leave between
    1 and `2^w - 1` check words, `generateCheckWords` succeeds with: zero start padding (`totalBits % w` bits), the
    data words, and the check words `rsEncode`; all are `w`-bit values and data ++ check words is a valid
    Reed–Solomon codeword of the standard's field with roots α¹ … α^k (by C17). -/
theorem AztecA_check_words (w : Nat) (hw : w ∈ [4, 6, 8, 10, 12]) (stuffed : List Bool) (totalBits : Nat)
    (hk1 : 1 ≤ totalBits / w - stuffed.length / w) (hkn : totalBits / w - stuffed.length / w ≤ 2 ^ w - 1) :
    let m := stuffed.length / w
    let k := totalBits / w - m
    let dw := Spec.Aztec.groups w m stuffed
    ∃ pp n ecc, getGF w = some (GF.newField pp n 1) ∧ Spec.RS.aztecField w = some ⟨pp, n⟩ ∧ n = 2 ^ w ∧
      ecc = GF.rsEncode (GF.newField pp n 1) dw k ∧
      generateCheckWords stuffed totalBits w =
        .ok (List.replicate (totalBits % w) false ++ (dw ++ ecc).flatMap (fun x => msbBits x w)) ∧
      dw.length = m ∧ ecc.length = k ∧ (∀ x ∈ dw, x < 2 ^ w) ∧ (∀ x ∈ ecc, x < 2 ^ w) ∧
      (Spec.RS.BinField.mk pp n).valid 1 k (dw ++ ecc) = true :=
  BV.Proofs.AztecCheck.generateCheckWords_spec w hw stuffed totalBits hk1 hkn

/-- **Mode message.**  For each of the 36 shapes and `1 ≤ W ≤ 64` (compact) / `2048` (full range) data words the
    mode message has 28 / 40 bits; as 4-bit words it is a GF(16) Reed–Solomon codeword with 5 / 6 check words,
    and its 2 / 4 data words hold `(L-1)·64 + (W-1)` / `(L-1)·2048 + (W-1)`, from which the reference decoder
    reads back `L` layers and `W` data words. -/
theorem AztecA_mode_message (compact : Bool) (L W : Nat) (hL : Shape compact L)
    (hW : 1 ≤ W ∧ W ≤ (if compact then 64 else 2048)) :
    ∃ mm, generateModeMessage compact L W = .ok mm ∧ mm.length = (if compact then 28 else 40) ∧
      (let words := Spec.Aztec.groups 4 (mm.length / 4) mm
       let modeData := if compact then 2 else 4
       (Spec.RS.BinField.mk 0x13 16).valid 1 (words.length - modeData) words = true ∧
       (words.take modeData).foldl (fun a x => 16 * a + x) 0 =
         (L - 1) * (if compact then 64 else 2048) + (W - 1)) ∧
      (let v := (L - 1) * (if compact then 64 else 2048) + (W - 1)
       (if compact then v / 64 else v / 2048) + 1 = L ∧ (if compact then v % 64 else v % 2048) + 1 = W) := by
  obtain ⟨mm, h1, h2, h3⟩ := BV.Proofs.AztecCheck.generateModeMessage_spec compact L W hL hW
  exact ⟨mm, h1, h2, h3, BV.Proofs.AztecCheck.mode_read_back compact L W hL.1 hW⟩

example : (generateModeMessage true 1 3).toOption.map (Spec.Aztec.groups 4 7) = some [0, 2, 5, 8, 12, 4, 2] := by
  decide +kernel

/-! ## 6 — the whole symbol -/

/-- **C03, assembled**, relative to the geometry of the drawing (`GeometryOK`: for each of the 36 shapes the modules
    read at the standard's data / mode-message positions are the message bits / the mode message, and bullseye,
    orientation marks and reference grid are as prescribed — proved as `AztecA_geometry`, see `C03_aztec` below).
    For every payload (shorter than 2^58 bytes; the empty one included), `pct ≥ 0` and layer request for which the encoder
    returns a barcode, the reference decoder of ISO/IEC 24778 accepts the image: square Aztec size, bullseye,
    orientation marks, Reed–Solomon-valid mode message that agrees with the size, complete reference grid in
    full-range symbols, zero start padding, data and check words forming a valid Reed–Solomon codeword, no
    all-zero / all-one data word; un-stuffing and parsing the character stream yields exactly the payload; an
    explicit request is honoured exactly; and (C12) the check words carry at least `pct` percent of the
    high-level bits. -/
theorem C03_aztec_partial (hgeo : GeometryOK) (data : Bytes) (hlen : data.length < 2 ^ 58)
    (pct req : Int) (hpct : 0 ≤ pct) (s : Scheme) (bc : Barcode)
    (h : encodeWithColor data pct req s = .ok bc) :
    ∃ info, Spec.Aztec.decode bc.w bc.h bc.dark = .ok info ∧ info.content = data ∧ bc.content = data ∧
      (req ≠ 0 → info.compact = decide (req < 0) ∧ info.layers = req.natAbs) ∧
      (req = 0 → info.compact = false → 4 ≤ info.layers) ∧
      bc.w = Spec.Aztec.symbolSize info.compact info.layers ∧ info.size = bc.w ∧
      1 ≤ info.checkWords ∧
      (info.checkWords : Int) * info.wordSize * 100 ≥ pct * (highlevelEncode data).length := by
  rcases BV.Proofs.AztecAssemble.encode_cases data pct req hpct s with ⟨_, h'⟩ | ⟨lay, mb, mm, hsel, ok, hmb, hmm, h'⟩
  · rw [h'] at h; cases h
  · rw [h'] at h
    have hbc := Except.ok.inj h
    obtain ⟨info, hdec, hcont, hc, hl, hsize, hw, hbcc, hws, hdw, hcw⟩ :=
      BV.Proofs.AztecAssemble.decode_of_layout hgeo data hlen pct hpct lay ok mb mm hmb hmm s
    rw [hbc] at hdec hsize hw hbcc
    have hwm := BV.Proofs.AztecLayers.word_size_mem ok.shape
    rw [← ok.ws] at hwm
    have hw2 : 2 ≤ lay.wordSize := by
      simp only [List.mem_cons, List.not_mem_nil, or_false] at hwm; omega
    have hmod : lay.stuffedBits.length % lay.wordSize = 0 := by
      rw [ok.stuffed]; exact BV.Proofs.AztecStuff.stuffBits_length_mod _ _ hw2
    obtain ⟨c1, c2, _⟩ := BV.Proofs.AztecLayers.checkWords_ok ok rfl hpct hmod
    refine ⟨info, hdec, hcont, hbcc, ?_, ?_, by rw [hc, hl]; exact hw, hsize, by rw [hcw]; exact c2,
      by rw [hcw, hws]; exact c1⟩
    · intro h0
      rw [BV.Proofs.AztecAssemble.selectLayers_explicit _ _ _ h0] at hsel
      obtain ⟨_, e1, e2, _⟩ := BV.Proofs.AztecLayers.explicitLayers_ok hsel h0
      rw [hc, hl]; exact ⟨e1, e2⟩
    · intro h0 hcf
      subst h0
      rw [BV.Proofs.AztecAssemble.selectLayers_auto] at hsel
      rw [hl]
      exact (BV.Proofs.AztecLayers.autoLayers_ok hsel).2 (by rw [← hc]; exact hcf)

/-- **Geometry of the drawing** (`GeometryOK`).  For each of the 36 shapes and all message bits / mode message bits of
    the right lengths: the symbol has the standard's side length; reading the modules at the standard's data
    positions (`Spec.Aztec.dataModules`, outermost layer first, dominoes, reference grid skipped) gives exactly the
    message bits, at the mode-message positions exactly the mode message; ring 5 tells compact from full range;
    bullseye, orientation marks and (full range) the complete reference grid are as prescribed.  (General lemmas
    plus 36 kernel certificates on the outermost layer and the fixed patterns, `BV/Proofs/AztecGeom*.lean`.) -/
theorem AztecA_geometry : GeometryOK :=
  fun compact layers h mb mm hm hmm data color =>
    BV.Proofs.AztecGeom.render_geometry compact layers h mb mm hm hmm data color

/-- **C03 for the Aztec encoder.**  For every payload (shorter than 2^58 bytes; the empty payload included),
    minimum error-correction percentage `pct ≥ 0` and layer request for which `EncodeWithColor` returns a barcode,
    the reference decoder written from ISO/IEC 24778 accepts the image (bullseye, orientation marks,
    Reed–Solomon-valid mode message agreeing with the symbol size, complete reference grid in full-range symbols,
    zero start padding, data + check words a valid Reed–Solomon codeword, no all-zero / all-one data word) and,
    un-stuffing and parsing the Upper/Lower/Mixed/Punct/Digit/binary-shift stream, returns exactly the payload;
    an explicit layer request is honoured exactly; the automatic choice never is full range with fewer than 4
    layers; and (C12) there is at least one check word and the check words carry at least `pct` percent of the
    high-level bits. -/
theorem C03_aztec (data : Bytes) (hlen : data.length < 2 ^ 58) (pct req : Int) (hpct : 0 ≤ pct) (s : Scheme)
    (bc : Barcode) (h : encodeWithColor data pct req s = .ok bc) :
    ∃ info, Spec.Aztec.decode bc.w bc.h bc.dark = .ok info ∧ info.content = data ∧ bc.content = data ∧
      (req ≠ 0 → info.compact = decide (req < 0) ∧ info.layers = req.natAbs) ∧
      (req = 0 → info.compact = false → 4 ≤ info.layers) ∧
      bc.w = Spec.Aztec.symbolSize info.compact info.layers ∧ info.size = bc.w ∧
      1 ≤ info.checkWords ∧
      (info.checkWords : Int) * info.wordSize * 100 ≥ pct * (highlevelEncode data).length :=
  C03_aztec_partial AztecA_geometry data hlen pct req hpct s bc h

/-- the statement of C03 in the short form of the task description -/
def C03_aztec_full : Prop :=
  ∀ (data : Bytes), data.length < 2 ^ 58 → ∀ (pct req : Int), 0 ≤ pct → ∀ (s : Scheme) (bc : Barcode),
    encodeWithColor data pct req s = .ok bc →
    ∃ info, Spec.Aztec.decode bc.w bc.h bc.dark = .ok info ∧ info.content = data ∧
      (req ≠ 0 → info.compact = decide (req < 0) ∧ info.layers = req.natAbs)

/-- … and it holds -/
theorem C03_aztec_full_holds : C03_aztec_full := by
  intro data hlen pct req hpct s bc h
  obtain ⟨info, h1, h2, _, h3, _⟩ := C03_aztec data hlen pct req hpct s bc h
  exact ⟨info, h1, h2, h3⟩

/-- the hypotheses of `C03_aztec` are satisfiable: "Hi!" with 33 %, compact 3 layers requested, is accepted -/
example : (encodeWithColor [72, 105, 33] 33 (-3) scheme16).toOption.isSome = true := by decide +kernel

/-! ## 7 — concrete symbols (kernel evaluation of the whole encoder and the whole reference decoder) -/

/-- what the reference decoder reads from `Encode(data, pct, req)`: (compact, layers, side length, content) -/
def decodeOf (data : Bytes) (pct req : Int) : Option (Bool × Nat × Nat × Bytes) :=
  match encode data pct req with
  | .ok bc => (Spec.Aztec.decode bc.w bc.h bc.dark).toOption.map (fun i => (i.compact, i.layers, bc.w, i.content))
  | .error _ => none

/-- "Hi!" with 33 % error correction, automatic size: compact, 1 layer, 15×15 -/
example : decodeOf [72, 105, 33] 33 0 = some (true, 1, 15, [72, 105, 33]) := by decide +kernel

/-- the EMPTY payload (formerly the open finding `aztec-empty-payload`, fixed in the Go code by emitting one
    codeword of padding): one data word `2^w - 2`, which un-stuffs to `w - 1` one-bits, i.e. to nothing -/
example : decodeOf [] 33 0 = some (true, 1, 15, []) := by decide +kernel

end BV.Props.AztecA
