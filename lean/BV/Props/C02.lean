/-
  C02 — DataMatrix: every accepted content decodes back to exactly that content.
  Assembly: `BV.Props.DmA` proves the whole chain for all contents up to one explicit hypothesis, Reed–Solomon
  validity of `rsEncode` over the DataMatrix field; `BV.Props.C17` proves exactly that.  Here the two are joined.
-/
import BV.Props.DmA
import BV.Props.C17
namespace BV.Props.C02
open BV BV.Model BV.Model.Datamatrix BV.Proofs.DmDecode

/-- the field of `datamatrix/errorcorrection.go` is the generated triple (301, 256, 1) -/
theorem ecField_eq : ecField = GF.newField 301 256 1 := DmA.table_certificates.2.2.2.2.2
-- (if the shape of `table_certificates` changes, prove it by `rfl` / unfolding instead)

/-- Reed–Solomon validity of the DataMatrix check codewords, from C17 -/
theorem rsEncodeValid : RSEncodeValid := by
  intro d k hd hk1 hlen
  have hmem : (301, 256, 1) ∈ C17.fields := by decide
  have h := C17.C17_rs_encode 301 256 1 hmem d hd k hk1 (by omega) GF.newEncoder (C17.C17_newEncoder_inv _)
  rw [ecField_eq]
  have he : (GF.encodeWith (GF.newField 301 256 1) GF.newEncoder d k).1 = GF.rsEncode (GF.newField 301 256 1) d k := h.2.2.2.1
  rw [← he]
  exact ⟨h.1, h.2.2.1⟩

/-- **C02**: for every content whose ASCII encodation has at most 1558 codewords (exactly the accepted ones,
    `DmA.accepted_iff`), the picture returned by the encoder passes every check of the ISO/IEC 16022 reference
    decoder — finder and clock tracks of every region, Annex F placement, every interleaved Reed–Solomon block,
    253-state padding — and decodes byte for byte to the content. -/
theorem C02_datamatrix : DmA.C02_statement := DmA.C02_decodes rsEncodeValid

end BV.Props.C02
