/-
  PdfA — PDF417 (properties C04, C12, C13 and the PDF417 part of C10), for ALL inputs.
  Statements only; proofs in BV/Proofs/Pdf*.lean:
    PdfRS / PdfRSPoly  Reed–Solomon over GF(929): generator certificate, LFSR = polynomial division, validity
    PdfDims            ⌈·⌉ rows, the column search, padding
    PdfFrame           row indicators, start/stop, symbol-character tables (certificates)
    PdfByte / PdfNumeric / PdfText / PdfHigh   compaction round trips
    PdfAccept          EncodeWithColor as a whole: acceptance, no panic, closed form of the symbol
    PdfRender / PdfDecode / PdfEnd   the ISO reference decoder run on the rendered picture
-/
import BV.Proofs.PdfEnd
import BV.Proofs.PdfRSPoly
namespace BV.Props.PdfA
open BV BV.Model.Pdf417 BV.Gen.Pdf417 BV.Spec.Pdf417
open BV.Proofs.PdfDims BV.Proofs.PdfFrame BV.Proofs.PdfRS BV.Proofs.PdfHigh BV.Proofs.PdfAccept
open BV.Proofs.PdfDecode BV.Proofs.PdfText

/-! ## 1. Reed–Solomon (C04, C12) -/

/-- (1a, certificate) For every level 0..8 the table `correctionFactors[level]` (as naturals, `factorsOf`)
    followed by the leading coefficient 1 is g(x) = ∏_{i=1}^{2^(level+1)} (x − 3^i) mod 929, coefficients lowest
    degree first — the order in which `Compute` indexes the table (`factors[i]` multiplies x^i).  `genPoly` is
    defined by iterated multiplication with the linear factors; equality is checked by kernel evaluation. -/
theorem C04_rs_generator (level : Nat) (h : level ≤ 8) :
    factorsOf level ++ [1] = genPoly (2 ^ (level + 1)) :=
  factors_eq_genPoly level h

/-- multiplication by a linear factor, justifying the name `genPoly`: evaluation of `mulLin p r` is evaluation
    of `p` times `(y − r)`, in every commutative ring of characteristic 929 -/
theorem C04_rs_mulLin {R : Type} [CommRing R] [CharP R 929] (p : List Nat) (r : Nat) (y : R) :
    evalLowZ (mulLin p r) y = evalLowZ p y * (y - (r : R)) :=
  evalLowZ_mulLin p r y

/-- (1b, general lemma) The LFSR `Compute` is polynomial division: for every level 0..8 and EVERY data list
    there are quotient digits `q` and a final register `T` of 2^(level+1) words < 929 such that
    data(y)·y^n = q(y)·g(y) + T(y) in every commutative ring `R` of characteristic 929 (g = y^n + Σ factors_i y^i,
    lists are read highest degree first), and `Compute` returns the word-wise negation of `T`.  With
    `R = (ZMod 929)[X]`, `y = X` this is an identity of polynomials. -/
theorem C04_rs_lfsr_division {R : Type} [CommRing R] [CharP R 929] (level : Nat) (h : level ≤ 8)
    (data : List Nat) (y : R) :
    ∃ q T : List Nat, T.length = 2 ^ (level + 1) ∧ (∀ x ∈ T, x < 929) ∧
      compute level data = .ok (T.map (fun word => if word > 0 then 929 - word else word)) ∧
      evalZ data y * y ^ (2 ^ (level + 1)) = evalZ q y * gEval (factorsOf level) y + evalZ T y := by
  obtain ⟨q, T, h1, h2, h3, h4, _⟩ := compute_division (R := R) level h data y
  exact ⟨q, T, h1, h2, by rw [compute_eq level h, h3], h4⟩

/-- (1b in Mathlib's terms) the register is the remainder of data(X)·X^n modulo the monic polynomial g_level,
    `Polynomial.modByMonic` over `ZMod 929`; the check words are its negated coefficients. -/
theorem C04_rs_remainder (level : Nat) (h : level ≤ 8) (data : List Nat) :
    ∃ T : List Nat, T.length = 2 ^ (level + 1) ∧ (∀ x ∈ T, x < 929) ∧
      compute level data = .ok (T.map (fun word => if word > 0 then 929 - word else word)) ∧
      toPoly T = Polynomial.modByMonic (toPoly data * Polynomial.X ^ (2 ^ (level + 1))) (gPoly level) :=
  compute_modByMonic level h data

/-- (C04 / C12) For every level 0..8 and every list of codewords < 929, `Compute` returns exactly 2^(level+1)
    check words < 929, and data followed by the check words is a Reed–Solomon codeword as ISO/IEC 15438
    defines it: it evaluates to zero at 3^1, …, 3^(2^(level+1)) modulo 929 (`Spec.RS.valid929`). -/
theorem C04_rs_valid (level : Nat) (h : level ≤ 8) (data : List Nat) (hd : ∀ d ∈ data, d < 929) :
    ∃ ec, compute level data = .ok ec ∧ ec.length = 2 ^ (level + 1) ∧ (∀ c ∈ ec, c < 929) ∧
      Spec.RS.valid929 (2 ^ (level + 1)) (data ++ ec) = true :=
  compute_valid level h data hd

set_option maxRecDepth 100000 in
example : Spec.RS.valid929 4 ([5, 453, 178, 121] ++ checkWords 1 [5, 453, 178, 121]) = true := by decide +kernel
set_option maxRecDepth 100000 in
example : compute 1 [5, 453, 178, 121] = .ok [204, 7, 105, 286] := by
  rw [compute_eq 1 (by decide)]; decide +kernel

/-- (C12) `encodeData` for levels 0..8 never fails and returns: the length descriptor (= number of data
    codewords + pads + 1), the data, the pad codewords 900, then exactly 2^(level+1) check words. -/
theorem C12_encodeData (cws : List Nat) (cols lvl : Nat) (h : lvl ≤ 8) :
    encodeData cws cols lvl = .ok (dataRegion cws cols lvl ++ checkWords lvl (dataRegion cws cols lvl)) ∧
    (checkWords lvl (dataRegion cws cols lvl)).length = 2 ^ (lvl + 1) ∧
    dataRegion cws cols lvl =
      (cws.length + (getPadding cws.length (2 ^ (lvl + 1)) cols).length + 1) ::
        (cws ++ getPadding cws.length (2 ^ (lvl + 1)) cols) :=
  ⟨encodeData_eq cws cols lvl h, checkWords_length lvl h _, rfl⟩

/-! ## 2. Dimensions (C13) -/

/-- `calculateNumberOfRows m k c` is ⌈(m+1+k)/c⌉ -/
theorem C13_rows_ceil (m k c : Nat) (hc : 0 < c) :
    calculateNumberOfRows m k c = (m + 1 + k + c - 1) / c ∧
    m + 1 + k ≤ c * calculateNumberOfRows m k c ∧ c * (calculateNumberOfRows m k c - 1) < m + 1 + k :=
  ⟨rows_eq_ceil m k c hc, (rows_ceil m k c hc).1, (rows_ceil m k c hc).2.1⟩

/-- (C13) For every number `m` of data codewords and every level 0..8: if the dimensions chosen by
    `calcDimensions` pass the limit test of `EncodeWithColor` (2 ≤ cols ≤ 30, 2 ≤ rows ≤ 30), then the row count
    is the ceiling for the column count, rows·cols = 1 (length descriptor) + m + pad + 2^(level+1) where `pad`
    is the number of pad codewords `getPadding` produces, pad < cols (less than one row of padding), and every
    pad codeword is 900. -/
theorem C13_dimensions (m lvl cols rows : Nat) (hl : lvl ≤ 8)
    (h : calcDimensions m (errorCorrectionWordCount lvl) = (cols, rows))
    (hlim : ¬ (cols < c_minCols ∨ cols > c_maxCols ∨ rows < c_minRows ∨ rows > c_maxRows)) :
    rows = calculateNumberOfRows m (2 ^ (lvl + 1)) cols ∧
    rows * cols = 1 + m + (getPadding m (2 ^ (lvl + 1)) cols).length + 2 ^ (lvl + 1) ∧
    (getPadding m (2 ^ (lvl + 1)) cols).length < cols ∧
    (∀ x ∈ getPadding m (2 ^ (lvl + 1)) cols, x = c_padding_codeword) := by
  rw [eccCount_eq] at h
  simp only [c_minCols, c_maxCols, c_minRows, c_maxRows] at hlim
  have hk : 2 ≤ 2 ^ (lvl + 1) := by
    have : 2 ^ 1 ≤ 2 ^ (lvl + 1) := Nat.pow_le_pow_right (by omega) (by omega)
    simpa using this
  have hrows : rows = calculateNumberOfRows m (2 ^ (lvl + 1)) cols := by
    rcases calcDimensions_cases m (2 ^ (lvl + 1)) with hz | ⟨_, hz⟩ | hz
    · rw [h] at hz; simp only [Prod.mk.injEq] at hz; omega
    · omega
    · rw [h] at hz; exact hz.2.2.1
  obtain ⟨h1, h2, h3⟩ := padding_spec m (2 ^ (lvl + 1)) cols (by omega)
  rw [← hrows] at h2
  exact ⟨hrows, h2, h1, h3⟩

/-- (C13, converse) For every `m` and level 0..8 the limit test passes iff length descriptor, data and check
    words fit into 900 codewords; otherwise `calcDimensions` finds no column count (and returns (0, 0)). -/
theorem C13_accept_iff (m lvl : Nat) :
    (2 ≤ (calcDimensions m (errorCorrectionWordCount lvl)).1 ∧ (calcDimensions m (errorCorrectionWordCount lvl)).1 ≤ 30 ∧
      2 ≤ (calcDimensions m (errorCorrectionWordCount lvl)).2 ∧ (calcDimensions m (errorCorrectionWordCount lvl)).2 ≤ 30)
      ↔ m + 1 + 2 ^ (lvl + 1) ≤ 900 := by
  rw [eccCount_eq]
  have hk : 2 ≤ 2 ^ (lvl + 1) := by
    have : 2 ^ 1 ≤ 2 ^ (lvl + 1) := Nat.pow_le_pow_right (by omega) (by omega)
    simpa using this
  exact calcDimensions_accept_iff m (2 ^ (lvl + 1)) hk

example : calcDimensions 100 (errorCorrectionWordCount 5) = (7, 24) ∧ (getPadding 100 64 7).length = 3 ∧
    24 * 7 = 1 + 100 + 3 + 64 := by decide
example : calcDimensions 835 64 = (30, 30) ∧ calcDimensions 836 64 = (0, 0) := by decide

/-! ## 3. Row indicators, start/stop, symbol-character tables (C04) -/

/-- `getLeftCodeWord` is the ISO/IEC 15438 left row indicator used by the Spec, for all arguments: cluster 0
    carries 30·(r div 3) + (rows−1) div 3, cluster 3 carries 3·level + (rows−1) mod 3, cluster 6 carries cols−1 -/
theorem C04_left_indicator (r rows cols level : Nat) :
    getLeftCodeWord r rows cols level = leftIndicator r rows cols level :=
  left_eq r rows cols level

/-- `getRightCodeWord` is the ISO/IEC 15438 right row indicator used by the Spec, for all arguments -/
theorem C04_right_indicator (r rows cols level : Nat) :
    getRightCodeWord r rows cols level = rightIndicator r rows cols level :=
  right_eq r rows cols level

/-- within the encoder's limits the indicators are codeword values (< 929), and rows 0 and 1 declare the true
    row count, column count and security level in the way `Spec.decode` reads them -/
theorem C04_indicators_declare (r rows cols level : Nat) (hr : r < rows) (hrows : rows ≤ 30)
    (hcols : 1 ≤ cols ∧ cols ≤ 30) (hl : level ≤ 8) :
    getLeftCodeWord r rows cols level < 929 ∧ getRightCodeWord r rows cols level < 929 ∧
    3 * (getLeftCodeWord 0 rows cols level % 30) + getLeftCodeWord 1 rows cols level % 30 % 3 + 1 = rows ∧
    getRightCodeWord 0 rows cols level % 30 + 1 = cols ∧
    getLeftCodeWord 1 rows cols level % 30 / 3 = level := by
  obtain ⟨h1, h2⟩ := indicators_lt r rows cols level hr hrows hcols hl
  exact ⟨h1, h2, indicators_declare rows cols level (by omega) hcols hl⟩

example : getLeftCodeWord 4 12 5 3 = 41 ∧ getRightCodeWord 4 12 5 3 = 33 ∧ getLeftCodeWord 5 12 5 3 = 34 := by
  decide

/-- the start word is the 17-module pattern 81111113 and the stop word the 18-module pattern 711311121 -/
theorem C04_start_stop :
    msbBits c_start_word 17 = expand [8, 1, 1, 1, 1, 1, 1, 3] ∧
    msbBits c_stop_word 18 = expand [7, 1, 1, 3, 1, 1, 1, 2, 1] :=
  ⟨start_word, stop_word⟩

/-- (certificate) the three generated codeword tables equal the frozen ISO snapshot of `Spec.Pdf417Patterns`,
    entry by entry (snapshot entries are bar/space widths, table entries 17-module values) -/
theorem C04_tables_snapshot :
    v_codewords.map (fun t => t.map Int.toNat) =
      [cluster0.map entryModules, cluster3.map entryModules, cluster6.map entryModules] :=
  tables_eq_snapshot

/-- (certificates) every table has 929 entries; every entry has 4 bars and 4 spaces of 1..6 modules, 17 modules
    in total, starts with a bar, has the cluster number of its table (0, 3, 6) and its 17-module value reads
    back (run lengths) to its widths (`entryOk`); no pattern occurs twice within a cluster. -/
theorem C04_tables_wellformed :
    (cluster0.length = 929 ∧ cluster0.all (entryOk 0) = true ∧ cluster0.Nodup) ∧
    (cluster3.length = 929 ∧ cluster3.all (entryOk 3) = true ∧ cluster3.Nodup) ∧
    (cluster6.length = 929 ∧ cluster6.all (entryOk 6) = true ∧ cluster6.Nodup) :=
  ⟨⟨cluster0_ok.1, cluster0_ok.2, clusters_nodup.1⟩, ⟨cluster3_ok.1, cluster3_ok.2, clusters_nodup.2.1⟩,
   ⟨cluster6_ok.1, cluster6_ok.2, clusters_nodup.2.2⟩⟩

/-- no table lookup of `getCodeword` is out of range for a cluster index < 3 and a codeword < 929, and the
    Spec's symbol-character reader maps the 17 modules drawn for codeword `w` in a row of cluster index `ci`
    back to `w` (checking 17 modules, bar first, 4+4 elements of width 1..6, cluster rule, table membership) -/
theorem C04_symbol_readback (ci w : Nat) (hci : ci < 3) (hw : w < 929) :
    ∃ v, getCodeword ci w = .ok v ∧ v < 2 ^ 17 ∧ symbolValue ci (msbBits v 17) = .ok w :=
  symbolValue_getCodeword ci w hci hw

/-! ## 4. Compaction round trips (C04) -/

/-- (4a) Byte compaction, one byte in Text mode: shift 913 and the byte -/
theorem C04_byte_shift (b : UInt8) : encodeBinary [b] c_encText = [913, b.toNat] :=
  BV.Proofs.PdfByte.encodeBinary_shift b

/-- (4a) Byte compaction otherwise: latch 924 iff the byte count is a multiple of six, else 901, followed by
    codewords < 900 (five base-900 digits per six bytes, then one codeword per remaining byte) which the Spec
    byte decoder maps back to exactly the bytes -/
theorem C04_byte_latch (data : Bytes) (startmode : Nat) (h : ¬ (data.length = 1 ∧ startmode = c_encText)) :
    ∃ body, encodeBinary data startmode = (if data.length % 6 = 0 then 924 else 901) :: body ∧
      (∀ c ∈ body, c < 900) ∧ flushByte (data.length % 6 == 0) body = .ok data :=
  BV.Proofs.PdfByte.encodeBinary_latch data startmode h

/-- (4b) Numeric compaction: any run of ASCII digits is encoded without error into codewords < 900 (base-900
    digits of "1"+chunk for chunks of 44 digits) which the Spec numeric decoder maps back to the same digits -/
theorem C04_numeric (digits : List Nat) (h : ∀ d ∈ digits, 48 ≤ d ∧ d ≤ 57) :
    ∃ cws, encodeNumeric digits = .ok cws ∧ (∀ c ∈ cws, c < 900) ∧
      flushNumeric cws.length cws = .ok (digits.map UInt8.ofNat) :=
  BV.Proofs.PdfNumeric.encodeNumeric_roundtrip digits h

/-- (4c) Text compaction: for every run of text characters and every incoming sub-mode, the Spec Text decoder
    started in that sub-mode (no pending shift) and fed the codewords of `encodeText` appends exactly the text
    and ends in the sub-mode `encodeText` returns — including latches, shifts and the pad 29 (a pending `ps`
    in Alpha/Lower/Mixed, a latch to Alpha in Punctuation, where the encoder returns Upper). -/
theorem C04_text (text : List Nat) (submode : Nat) (hs : 3 ≤ submode ∧ submode ≤ 6)
    (ht : ∀ ch ∈ text, isText ch = true) (out : Array UInt8) :
    ∃ sh, (encodeText text submode).2.foldlM step (Mode.text (subOf submode) .none, out)
        = .ok (Mode.text (subOf (encodeText text submode).1) sh, out ++ (text.map UInt8.ofNat).toArray) :=
  encodeText_roundtrip text submode hs ht out

/-- (4c) the sub-mode loop never runs out of fuel: with fuel ≥ 4·len (the model supplies 4·len + 4) it equals
    the fuel-free character-by-character emitter -/
theorem C04_text_fuel (fuel : Nat) (text : List Nat) (sub : Nat) (tmp : Array Nat)
    (h : 4 * text.length ≤ fuel) :
    encodeTextLoop fuel text sub tmp = ((emitAll sub text).2, tmp ++ (emitAll sub text).1.toArray) :=
  loop_eq text fuel sub tmp h

/-- (4d) `highlevelEncode` never fails; all data codewords are < 929; the Spec compaction decoder (Text with
    its four sub-modes, Byte 901/924, Numeric 902, shift 913), started in Text/Alpha, maps them back to the
    data byte for byte — for EVERY byte string (including invalid UTF-8); and the last codeword is never 900,
    so that pad stripping cannot eat data. -/
theorem C04_highlevel (data : Bytes) :
    ∃ cws, highlevelEncode data = .ok cws ∧ (∀ c ∈ cws, c < 929) ∧
      Spec.Pdf417.decodeData cws = .ok data ∧ cws.getLast? ≠ some 900 :=
  highlevelEncode_spec data

example : highlevelEncode [104, 101, 108, 108, 111] = .ok [817, 131, 344] ∧
    decodeData [817, 131, 344] = .ok [104, 101, 108, 108, 111] := ⟨by rfl, by rfl⟩

/-! ## 5. Acceptance, no panic (C10) -/

/-- (C10) a security level ≥ 9 is rejected with an error -/
theorem C10_level_rejected (data : Bytes) (lvl : Nat) (s : Scheme) (h : 9 ≤ lvl) :
    encodeWithColor data lvl s = .error .rejected :=
  reject_level data lvl s h

/-- (C10) `EncodeWithColor` never panics: no table index (factor table, codeword tables) is out of range, for
    any data, any security level and any colour scheme -/
theorem C10_never_panics (data : Bytes) (lvl : Nat) (s : Scheme) :
    encodeWithColor data lvl s ≠ .error .panic :=
  never_panics data lvl s

/-- the complete case analysis for levels 0..8: with `cws` the data codewords, the input is rejected iff
    length descriptor + data + check words exceed 900 codewords; otherwise the result is the symbol `symbolOf`
    with the dimensions `calcDimensions` chose (2..30 each, rows = ⌈(m+1+k)/cols⌉) -/
theorem C04_encode_cases (data : Bytes) (lvl : Nat) (s : Scheme) (h : lvl ≤ 8) :
    ∃ cws, highlevelEncode data = .ok cws ∧
      ((900 < cws.length + 1 + 2 ^ (lvl + 1) ∧ encodeWithColor data lvl s = .error .rejected) ∨
       (cws.length + 1 + 2 ^ (lvl + 1) ≤ 900 ∧
        ∃ cols rows, calcDimensions cws.length (2 ^ (lvl + 1)) = (cols, rows) ∧
          2 ≤ cols ∧ cols ≤ 30 ∧ 2 ≤ rows ∧ rows ≤ 30 ∧
          rows = calculateNumberOfRows cws.length (2 ^ (lvl + 1)) cols ∧
          encodeWithColor data lvl s = .ok (symbolOf data cws cols rows lvl s))) := by
  obtain ⟨cws, h1, _, _, _, h5⟩ := encodeWithColor_cases data lvl s h
  exact ⟨cws, h1, h5⟩

/-! ## 6. C04 end to end -/

/-- (C04) For every data string, security level and colour scheme for which `EncodeWithColor` returns a barcode
    `bc`: the level is ≤ 8; with `cws` the data codewords and (cols, rows) the chosen dimensions (each 2..30,
    rows·cols = 1 + |cws| + pad + 2^(level+1), pad < cols), the picture is 17·(cols+4)+1 wide and 2·rows high, and
    the ISO/IEC 15438 reference decoder `Spec.Pdf417.decode` accepts it — i.e. both pixel lines of every row
    agree, every row starts with 81111113 and ends with 711311121, every symbol character is a pattern of the
    cluster 3·(row mod 3), the left and right row indicators of every row are the ISO values for the true row
    number, row count, column count and security level, the length descriptor is rows·cols − 2^(level+1), the
    codeword sequence is a Reed–Solomon codeword over GF(929) with roots 3^1 … 3^(2^(level+1)), exactly the pad
    codewords are stripped, and compaction decoding yields byte for byte the data. -/
theorem C04_encode_decode (data : Bytes) (lvl : Nat) (s : Scheme) (bc : Barcode)
    (h : encodeWithColor data lvl s = .ok bc) :
    lvl ≤ 8 ∧ ∃ cws cols rows, highlevelEncode data = .ok cws ∧
      calcDimensions cws.length (2 ^ (lvl + 1)) = (cols, rows) ∧
      2 ≤ cols ∧ cols ≤ 30 ∧ 2 ≤ rows ∧ rows ≤ 30 ∧
      rows * cols = 1 + cws.length + (getPadding cws.length (2 ^ (lvl + 1)) cols).length + 2 ^ (lvl + 1) ∧
      (getPadding cws.length (2 ^ (lvl + 1)) cols).length < cols ∧
      bc.content = data ∧ bc.w = 17 * (cols + 4) + 1 ∧ bc.h = 2 * rows ∧
      decode bc.w bc.h bc.dark =
        .ok { rows := rows, cols := cols, level := lvl,
              dataCodewords := cws.length + (getPadding cws.length (2 ^ (lvl + 1)) cols).length + 1,
              padCount := (getPadding cws.length (2 ^ (lvl + 1)) cols).length,
              ecCount := 2 ^ (lvl + 1), content := data } :=
  BV.Proofs.PdfEnd.encode_decode data lvl s bc h

/-- the hypothesis of `C04_encode_decode` is satisfiable: "hello" at level 2 is accepted (3 data codewords,
    3 columns × 4 rows) -/
example : ∃ bc, encodeWithColor [104, 101, 108, 108, 111] 2 scheme16 = .ok bc := by
  obtain ⟨cws, h1, h2⟩ := C04_encode_cases [104, 101, 108, 108, 111] 2 scheme16 (by decide)
  have e : highlevelEncode [104, 101, 108, 108, 111] = .ok [817, 131, 344] := by rfl
  rw [e] at h1
  injection h1 with h1
  subst h1
  rcases h2 with ⟨hbig, _⟩ | ⟨_, cols, rows, _, _, _, _, _, _, hok⟩
  · simp at hbig
  · exact ⟨_, hok⟩

example : calcDimensions 3 8 = (3, 4) ∧
    symbolCodewords [817, 131, 344] 3 2 = [4, 817, 131, 344, 501, 447, 130, 810, 191, 712, 824, 227] := by
  decide

end BV.Props.PdfA
