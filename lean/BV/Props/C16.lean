/-
  C16 — concurrent use (partial by nature: the Go scheduler and memory model are not modelled).

  What is proved: (1) the only shared mutable state, the generator-polynomial cache, is accessed under the mutex
  only (generated facts) and its result does not depend on the state (C17) — so concurrent encodes are
  serialisable and every serial order gives every call its stand-alone result; (2) the producer/consumer
  protocol of the channel pipelines: with one unbuffered channel, a producer that sends `k` values and closes,
  and a consumer that performs `j` receives, both goroutines finish iff `k ≤ j`; otherwise the producer leaks.
  (3) which functions start goroutines at all (generated).
-/
import BV.Proofs.Purity
import BV.Gen
import BV.Props.C17
namespace BV.Props.C16
open BV BV.Proofs.Purity

/-- goroutines are started only by `BitList.IterateBytes`, `qr.stringToAlphaIdx` and `qr.iterateModules` (two) -/
theorem C16_goroutine_sites :
    Gen.Utils.fact_goStatements = ["BitList_IterateBytes"] ∧
    Gen.Qr.fact_goStatements = ["stringToAlphaIdx", "iterateModules", "iterateModules"] ∧
    Gen.Root.fact_goStatements = [] ∧ Gen.Datamatrix.fact_goStatements = [] ∧ Gen.Aztec.fact_goStatements = [] ∧
    Gen.Pdf417.fact_goStatements = [] ∧ Gen.Code128.fact_goStatements = [] ∧ Gen.Code39.fact_goStatements = [] ∧
    Gen.Code93.fact_goStatements = [] ∧ Gen.Codabar.fact_goStatements = [] ∧ Gen.Ean.fact_goStatements = [] ∧
    Gen.Twooffive.fact_goStatements = [] := by
  decide

/-- the cache is only touched under the lock (precondition of serialisability) -/
theorem C16_cache_guarded :
    Gen.Utils.fact_polynomesAccess = ["ReedSolomonEncoder_getPolynomial"] ∧
    "ReedSolomonEncoder_getPolynomial" ∈ Gen.Utils.fact_lockedFuncs := by
  decide

/-- serialisability: `getPolynomial` runs under the mutex, so a concurrent execution of encoder calls is some
    sequential order of them on the shared cache; for EVERY order (every permutation of the calls) each call
    returns exactly its stand-alone result -/
theorem C16_serialisable (f : Model.GF.Field) (reqs order : List (List Nat × Nat)) (_h : order.Perm reqs) :
    C17.runEncoder f Model.GF.newEncoder order = order.map (fun r => Model.GF.rsEncode f r.1 r.2) :=
  C17.C17_rs_history_independent f Model.GF.newEncoder order (C17.C17_newEncoder_inv f)

/-- pipelines: a producer sending `k` values then closing and a consumer performing `j ≥ k` receives (receives
    on the closed channel return at once) always run to completion: no deadlock, nothing left running.
    Instances: `IterateBytes` (k = ⌈bits/8⌉) with `splitToBlocks` (j = totalDataBytes, equal by the padding rule);
    `stringToAlphaIdx` (k = runes up to and including the first invalid one) with its consumer
    (j = all its receives, at least k); `iterateModules` with a `range` consumer (j unbounded). -/
theorem C16_pipeline_completes (k j : Nat) (h : k ≤ j) :
    (Chan.run (k + j + 2) { toSend := k, closed := false, toRecv := j }).done = true :=
  run_done k j h _ (Nat.le_refl _)

/-- and the condition is necessary: a consumer that returns early leaves the producer blocked for ever -/
theorem C16_pipeline_leaks (k j : Nat) (h : j < k) (fuel : Nat) :
    (Chan.run fuel { toSend := k, closed := false, toRecv := j }).done = false :=
  run_leak k j h fuel

example : (Chan.run 20 { toSend := 5, closed := false, toRecv := 7 }).done = true := by decide
example : (Chan.run 20 { toSend := 5, closed := false, toRecv := 4 }).done = false := by decide

end BV.Props.C16
