/-
  C08 — Codabar and 2 of 5 (standard / interleaved): acceptance, round trip through the reference decoders,
  and the 2-of-5 check-digit helper.
  Statements only; proofs in BV/Proofs/Codabar.lean, BV/Proofs/Twooffive.lean
  (shared lemmas: BV/Proofs/Ascii.lean, BV/Proofs/OneD.lean).

  Vocabulary (defined in the Proofs files, restated below by `rfl`/`Iff.rfl` lemmas):
    `drawW ws`            the module list of an element-width list that starts with a bar (bar, space, bar, …)
    `AllDigits s`, `digitsOf s`, `digitByte d`   as in C06
    Codabar:  `matchesCodabar c`  the bytes match `^[A-D][0-9\-$:/.+]*[A-D]$`
              `cbW r`             the 7 element widths of character `r` in the reference table (wide = 2)
              `symW rs`           the characters' elements separated by single narrow spaces
    2 of 5:   `Tof.Accepts c il`  non-empty ASCII digits, an even number of them when interleaved
              `widthsStd ds` / `widthsIl ds`   start ++ digit groups ++ stop as element widths (wide = 3)
-/
import BV.Proofs.Codabar
import BV.Proofs.Twooffive
namespace BV.Props.C08
open BV BV.Spec.OneD BV.Proofs.OneD
open BV.Proofs.Codabar (matchesCodabar isStartStopByte isMiddleByte keyW cbW symW joinSep)
open BV.Proofs.Twooffive (pat wOf stdW ilW startStd stopStd startIl stopIl pairs widthsStd widthsIl checkDigit)

namespace Tof
export BV.Proofs.Twooffive (Accepts)
end Tof

/-! ### the vocabulary, spelled out -/

theorem drawW_def (ws : List Nat) : drawW ws = expand (barsFrom true ws) := rfl
theorem expand_cons (c : Bool) (n : Nat) (rest : List (Bool × Nat)) :
    expand ((c, n) :: rest) = List.replicate n c ++ expand rest := rfl
theorem barsFrom_cons (c : Bool) (w : Nat) (rest : List Nat) :
    barsFrom c (w :: rest) = (c, w) :: barsFrom (!c) rest := rfl

/-- `matchesCodabar` is the anchored pattern `^[A-D][0-9\-$:/.+]*[A-D]$` on bytes -/
theorem matchesCodabar_def (c : Bytes) : matchesCodabar c = true ↔
    ∃ a mid z, c = a :: (mid ++ [z]) ∧ isStartStopByte a = true ∧ (∀ b ∈ mid, isMiddleByte b = true) ∧
      isStartStopByte z = true := BV.Proofs.Codabar.matchesCodabar_iff c

theorem isStartStopByte_def (b : UInt8) : isStartStopByte b = (65 ≤ b.toNat && b.toNat ≤ 68) := rfl
theorem isMiddleByte_def (b : UInt8) : isMiddleByte b =
    ((48 ≤ b.toNat && b.toNat ≤ 57) || b.toNat == 45 || b.toNat == 36 || b.toNat == 58 || b.toNat == 47 ||
      b.toNat == 46 || b.toNat == 43) := rfl

theorem symW_def (rs : List Nat) : symW rs = joinSep cbW [1] rs := rfl
theorem joinSep_def {α β} (f : α → List β) (sep : List β) (a b : α) (rest : List α) :
    joinSep f sep [] = [] ∧ joinSep f sep [a] = f a ∧
    joinSep f sep (a :: b :: rest) = f a ++ sep ++ joinSep f sep (b :: rest) := ⟨rfl, rfl, rfl⟩

theorem TofAccepts_def (c : Bytes) (il : Bool) :
    Tof.Accepts c il ↔ c ≠ [] ∧ AllDigits c ∧ (il = true → c.length % 2 = 0) := Iff.rfl

theorem widthsStd_def (ds : List Nat) : widthsStd ds = [2, 1, 2, 1, 1, 1] ++ (ds.map stdW).flatten ++ [2, 1, 1, 1, 2] := rfl
theorem widthsIl_def (ds : List Nat) :
    widthsIl ds = [1, 1, 1, 1] ++ ((pairs ds).map (fun p => ilW p.1 p.2)).flatten ++ [3, 1, 1] := rfl
theorem stdW_def (d : Nat) : stdW d = (twoOfFive d).flatMap (fun b => [if b then 3 else 1, 1]) := rfl
theorem ilW_def (d1 d2 : Nat) : ilW d1 d2 =
    (List.zipWith (fun a b => [if a then 3 else 1, if b then 3 else 1]) (twoOfFive d1) (twoOfFive d2)).flatten := rfl

/-! ### table certificates (finite facts about the generated tables, by `decide`) -/

/-- certificate: the generated Codabar table is the reference table (20 characters, same order), each 7-element
    narrow/wide key drawn with narrow = 1 and wide = 2 modules -/
theorem C08_codabar_table :
    Gen.Codabar.v_encodingTable = codabarTable.map (fun p => ((p.1.toNat : Int), drawW (keyW p.2))) :=
  BV.Proofs.Codabar.table_eq

/-- certificate: every reference Codabar key has 7 elements, starts and ends with a bar (odd length), the keys and
    the characters are pairwise distinct -/
theorem C08_codabar_keys :
    (∀ p ∈ codabarTable, (keyW p.2).length = 7) ∧ (codabarTable.map (·.2)).Nodup ∧ (codabarTable.map (·.1)).Nodup := by
  decide

/-- certificate: the generated 2-of-5 table is digit ↦ the reference two-wide-of-five pattern with weights
    1-2-4-7-parity, which the reference `tofDigit` reads back -/
theorem C08_tof_table :
    Gen.Twooffive.v_encodingTable = (List.range 10).map (fun d => (((48 + d : Nat) : Int), twoOfFive d)) ∧
    (∀ d : Fin 10, tofDigit (twoOfFive d.val) = some d.val) := by decide

/-- certificate: start/stop patterns and widths of both modes (wide = 3, narrow = 1), and the all-narrow spaces of
    the standard mode -/
theorem C08_tof_modes :
    Gen.Twooffive.v_modes =
      [(false, (drawW [2, 1, 2, 1, 1, 1], drawW [2, 1, 1, 1, 2], [(true, 3), (false, 1)])),
       (true, (drawW [1, 1, 1, 1], drawW [3, 1, 1], [(true, 3), (false, 1)]))] ∧
    Gen.Twooffive.v_nonInterleavedSpace = List.replicate 5 false ∧
    Gen.Twooffive.c_patternWidth = 5 := by decide

/-! ### Codabar -/

/-- C08, Codabar acceptance.  For EVERY byte string (any bytes, including non-ASCII and invalid UTF-8): the encoder —
    which implements Go's `content == "!" || re.ReplaceAllString(content, "!") != "!"` test literally — succeeds
    exactly when the bytes match `^[A-D][0-9\-$:/.+]*[A-D]$`; everything else is rejected with an error. -/
theorem C08_codabar_accept (c : Bytes) :
    ((∃ bc, Model.Codabar.encode c = .ok bc) ↔ matchesCodabar c = true) ∧
    (¬ matchesCodabar c = true → Model.Codabar.encode c = .error .rejected) := by
  refine ⟨⟨?_, fun h => ⟨_, BV.Proofs.Codabar.encode_accepted c scheme16 h⟩⟩,
    BV.Proofs.Codabar.encode_rejected c scheme16⟩
  rintro ⟨bc, hbc⟩
  by_cases h : matchesCodabar c = true
  · exact h
  · rw [Model.Codabar.encode, BV.Proofs.Codabar.encode_rejected c scheme16 h] at hbc
    cases hbc

/-- C08, Codabar result.  Whenever the encoder returns `bc` for `c`: `Content()` is `c`, the kind is "Codabar"; the
    drawn row is exactly the standard narrow/wide element patterns of the characters separated by single narrow
    spaces; and the reference decoder reads back exactly the text (as rune values, which for accepted — ASCII —
    text are the byte values). -/
theorem C08_codabar_roundtrip (c : Bytes) (bc : Barcode) (h : Model.Codabar.encode c = .ok bc) :
    bc.content = c ∧ bc.kind = "Codabar" ∧ bc.dims = 1 ∧ bc.h = 1 ∧ bc.checksum = none ∧
    bc.row0 = drawW (symW (c.map (·.toNat))) ∧ bc.w = bc.row0.length ∧
    runeList c = c.map (·.toNat) ∧
    codabarDecode bc.row0 = .ok (runeList c) := by
  have hm : matchesCodabar c = true := (C08_codabar_accept c).1.1 ⟨bc, h⟩
  rw [Model.Codabar.encode, BV.Proofs.Codabar.encode_accepted c scheme16 hm] at h
  injection h with h
  subst h
  have hrl : runeList c = c.map (·.toNat) := by
    apply BV.Proofs.Ascii.runeList_ascii
    have := hm
    rw [← BV.Proofs.Codabar.matchesToEnd_map] at this
    intro b hb
    exact BV.Proofs.Codabar.matchesToEnd_lt _ this b.toNat (List.mem_map_of_mem hb)
  refine ⟨rfl, rfl, rfl, rfl, rfl, row0_mk1D _ _ _ _ _, ?_, hrl, ?_⟩
  · rw [row0_mk1D]; rfl
  · rw [row0_mk1D, hrl]
    exact BV.Proofs.Codabar.decode_accepted c hm

/-! ### 2 of 5 -/

/-- C08, 2-of-5 acceptance.  For EVERY byte string and both modes: the encoder succeeds exactly on non-empty ASCII
    digit strings (with an even number of digits when interleaved); everything else is rejected with an error. -/
theorem C08_tof_accept (c : Bytes) (interleaved : Bool) :
    ((∃ bc, Model.Twooffive.encode c interleaved = .ok bc) ↔ Tof.Accepts c interleaved) ∧
    (¬ Tof.Accepts c interleaved → Model.Twooffive.encode c interleaved = .error .rejected) := by
  refine ⟨⟨?_, fun h => ⟨_, BV.Proofs.Twooffive.encode_accepts c interleaved scheme16 h⟩⟩,
    BV.Proofs.Twooffive.encode_rejects c interleaved scheme16⟩
  rintro ⟨bc, hbc⟩
  by_cases h : Tof.Accepts c interleaved
  · exact h
  · rw [Model.Twooffive.encode, BV.Proofs.Twooffive.encode_rejects c interleaved scheme16 h] at hbc
    cases hbc

/-- C08, 2-of-5 result.  Whenever the encoder returns `bc` for `c`: `Content()` is `c`, the kind is "2 of 5" /
    "2 of 5 (interleaved)"; the drawn row is exactly start pattern, the digits' 2-of-5 element groups (bars with
    narrow spaces; or bars/spaces interleaved for digit pairs) and stop pattern with wide = 3 modules; and the
    reference decoder of the mode reads back exactly the digits of the text. -/
theorem C08_tof_roundtrip (c : Bytes) (interleaved : Bool) (bc : Barcode)
    (h : Model.Twooffive.encode c interleaved = .ok bc) :
    bc.content = c ∧ bc.kind = (if interleaved then "2 of 5 (interleaved)" else "2 of 5") ∧
    bc.dims = 1 ∧ bc.h = 1 ∧ bc.checksum = none ∧
    bc.row0 = drawW (if interleaved then widthsIl (digitsOf c) else widthsStd (digitsOf c)) ∧
    bc.w = bc.row0.length ∧
    runeList c = c.map (·.toNat) ∧
    (if interleaved then tofDecodeInterleaved bc.row0 else tofDecodeStandard bc.row0) = .ok (runeList c) := by
  have hacc : Tof.Accepts c interleaved := (C08_tof_accept c interleaved).1.1 ⟨bc, h⟩
  rw [Model.Twooffive.encode, BV.Proofs.Twooffive.encode_accepts c interleaved scheme16 hacc] at h
  injection h with h
  subst h
  obtain ⟨hne, hd, he⟩ := hacc
  have hrl : runeList c = c.map (·.toNat) := BV.Proofs.Ascii.runeList_ascii c hd.ascii
  refine ⟨rfl, rfl, rfl, rfl, rfl, row0_mk1D _ _ _ _ _, ?_, hrl, ?_⟩
  · rw [BV.Proofs.Twooffive.expected, row0_mk1D]; rfl
  · rw [BV.Proofs.Twooffive.expected, row0_mk1D, hrl, ← BV.Proofs.Twooffive.runeVals c hd]
    cases interleaved with
    | false => exact BV.Proofs.Twooffive.decode_std _ (digitsOf_lt hd)
    | true =>
      exact BV.Proofs.Twooffive.decode_il _ (digitsOf_lt hd) (by rw [digitsOf_length]; exact he rfl)

/-- C08, check-digit helper.  For every non-empty ASCII digit string `AddCheckSum` appends one digit `d` such that
    the 3-1 weighted sum (from the right, the new digit with weight 1) is a multiple of ten; for the empty string and
    for any string containing a non-digit byte it returns an error. -/
theorem C08_addCheckSum (c : Bytes) :
    (c ≠ [] ∧ AllDigits c → ∃ d, d < 10 ∧ Model.Twooffive.addCheckSum c = some (c ++ [digitByte d]) ∧
      tofWeightedSum (digitsOf c ++ [d]) % 10 = 0 ∧ digitsOf (c ++ [digitByte d]) = digitsOf c ++ [d]) ∧
    (c = [] ∨ ¬ AllDigits c → Model.Twooffive.addCheckSum c = none) := by
  refine ⟨fun ⟨hne, hd⟩ => ⟨checkDigit (digitsOf c), BV.Proofs.Twooffive.checkDigit_lt _,
    BV.Proofs.Twooffive.addCheckSum_digits c hne hd, BV.Proofs.Twooffive.checkDigit_spec _, ?_⟩,
    BV.Proofs.Twooffive.addCheckSum_bad c⟩
  rw [digitsOf_append]
  simp only [digitsOf, List.map_cons, List.map_nil]
  rw [digitByte_toNat _ (BV.Proofs.Twooffive.checkDigit_lt _)]
  simp

/-! ### the hypotheses are satisfiable: concrete inputs -/

/-- "A12-3$B" matches; "A12", "AxB" and a text with a two-byte UTF-8 character do not -/
example : matchesCodabar [65, 49, 50, 45, 51, 36, 66] = true ∧ matchesCodabar [65, 49, 50] = false ∧
    matchesCodabar [65, 120, 66] = false ∧ matchesCodabar [65, 0xC3, 0xA9, 66] = false := by decide

/-- "1234" is accepted in both modes, "123" only in standard mode, "12a4" and "" in neither -/
example : Tof.Accepts [49, 50, 51, 52] true ∧ Tof.Accepts [49, 50, 51, 52] false ∧
    ¬ Tof.Accepts [49, 50, 51] true ∧ Tof.Accepts [49, 50, 51] false ∧
    ¬ Tof.Accepts [49, 50, 97, 52] false ∧ ¬ Tof.Accepts [] false := by decide

/-- the check digit of "1234567" is 0 (3·7+6+3·5+4+3·3+2+3·1 = 60) -/
example : checkDigit [1, 2, 3, 4, 5, 6, 7] = 0 ∧ tofWeightedSum [1, 2, 3, 4, 5, 6, 7, 0] = 60 := by decide

/-- so the encoders return barcodes for these texts, and the round-trip theorems apply to them -/
example : (∃ bc, Model.Codabar.encode [65, 49, 50, 45, 51, 36, 66] = .ok bc) ∧
    (∃ bc, Model.Twooffive.encode [49, 50, 51, 52] true = .ok bc) ∧
    (∃ bc, Model.Twooffive.encode [49, 50, 51] false = .ok bc) :=
  ⟨(C08_codabar_accept _).1.2 (by decide), (C08_tof_accept _ _).1.2 (by decide), (C08_tof_accept _ _).1.2 (by decide)⟩

end BV.Props.C08
