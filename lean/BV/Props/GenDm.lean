/-
  GenDm — the straight-line Go functions of package `datamatrix`, machine-translated into `BV.Gen.Datamatrix.f_*` on every run
  (go/cmd/extract/funcs.go), agree with the hand-written model functions.
  A semantic edit of one of these Go functions changes the generated text and breaks the corresponding theorem here,
  whether or not the correspondence check samples an input that shows the difference.
-/
import BV.Gen.DatamatrixFns
import BV.Model.Datamatrix
set_option linter.unusedSimpArgs false
namespace BV.Props.GenDm
open BV

@[simp] theorem idpure {α : Type} (x : α) : (pure x : Id α) = x := rfl

/-! ### datamatrix -/

open Model.Datamatrix in
/-- the seven `dmCodeSize` methods -/
theorem gen_dm_codeSize (s : CodeSize) (idx : Int) :
    Gen.Datamatrix.f_dmCodeSize_RegionRows s.rows s.columns s.regionCountHorizontal s.regionCountVertical
      s.eccCount s.blockCount = s.regionRows ∧
    Gen.Datamatrix.f_dmCodeSize_RegionColumns s.rows s.columns s.regionCountHorizontal s.regionCountVertical
      s.eccCount s.blockCount = s.regionColumns ∧
    Gen.Datamatrix.f_dmCodeSize_MatrixRows s.rows s.columns s.regionCountHorizontal s.regionCountVertical
      s.eccCount s.blockCount = s.matrixRows ∧
    Gen.Datamatrix.f_dmCodeSize_MatrixColumns s.rows s.columns s.regionCountHorizontal s.regionCountVertical
      s.eccCount s.blockCount = s.matrixColumns ∧
    Gen.Datamatrix.f_dmCodeSize_DataCodewords s.rows s.columns s.regionCountHorizontal s.regionCountVertical
      s.eccCount s.blockCount = s.dataCodewords ∧
    Gen.Datamatrix.f_dmCodeSize_DataCodewordsForBlock s.rows s.columns s.regionCountHorizontal
      s.regionCountVertical s.eccCount s.blockCount idx = s.dataCodewordsForBlock idx ∧
    Gen.Datamatrix.f_dmCodeSize_ErrorCorrectionCodewordsPerBlock s.rows s.columns s.regionCountHorizontal
      s.regionCountVertical s.eccCount s.blockCount = s.errorCorrectionCodewordsPerBlock := by
  refine ⟨rfl, rfl, rfl, rfl, rfl, ?_, rfl⟩
  unfold Gen.Datamatrix.f_dmCodeSize_DataCodewordsForBlock CodeSize.dataCodewordsForBlock
  by_cases h : s.rows = 144 ∧ s.columns = 144
  · by_cases h8 : idx < 8 <;> simp [Id.run, h, h8]
  · have h' : ¬ (s.rows = 144 ∧ s.columns = 144) := h
    simp only [Id.run, pure, bind, h, if_false]
    have hd : Gen.Datamatrix.f_dmCodeSize_DataCodewords s.rows s.columns s.regionCountHorizontal
        s.regionCountVertical s.eccCount s.blockCount = s.dataCodewords := rfl
    rw [hd]
    by_cases hr : s.rows = 144
    · have hc : ¬ s.columns = 144 := fun hc => h ⟨hr, hc⟩
      simp [hr, hc]
    · simp [hr]

/-! ### the placement helpers as call scripts -/

open Model.Datamatrix in
/-- runs a generated call script: one `Set(row, col, value, bitNum)` per entry, in order, stopping at the first panic -/
def runScript (l : CodeLayout) (value : UInt8) : List (List Int) → Res CodeLayout
  | [] => .ok l
  | [[r, c, k]] => l.set r c value k.toNat
  | [r, c, k] :: rest => do
    let l ← l.set r c value k.toNat
    runScript l value rest
  | _ :: _ => .error .panic

open Model.Datamatrix in
/-- `SetSimple`, `Corner1` and `Corner2` of the model perform exactly the calls of `Set` that the Go functions contain,
    with the same arguments in the same order.  (`Corner3` and `Corner4` are never executed for the 24 square sizes of
    `codeSizes` — measured: no workload reaches them, §11.9 — so their scripts are tied in `GenDmUnused`, which is not
    among the obligations of any property: an edit of dead code must not raise an alarm.) -/
theorem gen_dm_scripts (l : CodeLayout) (row col : Int) (value : UInt8) :
    l.setSimple row col value = runScript l value (Gen.Datamatrix.s_codeLayout_SetSimple row col) ∧
    l.corner1 value = runScript l value (Gen.Datamatrix.s_codeLayout_Corner1 l.size.matrixColumns l.size.matrixRows) ∧
    l.corner2 value = runScript l value (Gen.Datamatrix.s_codeLayout_Corner2 l.size.matrixColumns l.size.matrixRows) :=
  ⟨rfl, rfl, rfl⟩

example : Gen.Datamatrix.f_dmCodeSize_DataCodewordsForBlock 144 144 6 6 620 10 9 = 155 := by decide

end BV.Props.GenDm
