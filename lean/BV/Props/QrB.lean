/-
  C01 (part B) — content round trip of the QR encoder at the bit-stream and codeword level.

  Part A (another file) covers the table certificates, the version choice and the length of the stream; this
  file states that what `Model.Qr.encodeNumeric / encodeAlphaNumeric / encodeUnicode / encodeAuto` write is read
  back by the reference parser of ISO/IEC 18004 (`Spec.Qr.parseSegments`) as byte-for-byte the content that was
  passed in, with a conformant terminator and pad codewords, and that packing into codewords, splitting into
  blocks and interleaving is undone by the reference de-interleaver `Spec.Qr.deinterleave`.
  Only property statements live here; lemmas are in BV/Proofs/{Bits,QrStream,QrAlnum,QrBlocks,QrChain}.lean.

  Vocabulary (definitions in BV/Proofs, repeated here in words)
  * `streamResult m content used cap` — the `Spec.Qr.Parsed` record with `modes = [m]`, the content,
    `terminatorBits = min 4 (cap - used)` and `padCodewords = (cap - (used + terminatorBits)) / 8`.
  * `streamShape body cap` — `body`, then `min 4 (cap - |body|)` zero bits, then zero bits up to the next multiple
    of 8, then the codewords 0xEC, 0x11, 0xEC, … (8 bits each, MSB first) up to `cap` bits.
  * `numBitCount n = 10·(n/3) + (4 if n%3 = 1, 7 if n%3 = 2)`, `alnumBitCount n = 11·(n/2) + 6·(n%2)`.
  * `alnumVal b` — offset of the byte `b` in the Go constant `charSet`; `alnumBits` — pairs `45·a+b` in 11 bits,
    a trailing single value in 6 bits.
  * `rowLens vi` — `n1` times `d1` followed by `n2` times `d2`; `isoBlocks version level` — check codewords per
    block and block lengths read from Table 9 (`Spec.Qr.blockTable`) the way `Spec.Qr.decode` does;
    `eccRow ec b` — the check part of block `b` as `interleave` reads it (`ec` codewords, zero filled).
  In every theorem the capacity is `cap = vi.totalDataBytes * 8` and the error correction level is arbitrary
  (for a level above 3 no table row matches, the encoders return `none` and the hypothesis is false).
-/
import BV.Proofs.QrChain
namespace BV.Props.QrB
open BV BV.Model.Qr BV.Spec.Qr
open BV.Proofs.Bits BV.Proofs.QrStream BV.Proofs.QrAlnum BV.Proofs.QrBlocks BV.Proofs.QrChain

/-! ### 1. numeric mode -/

/-- Numeric mode, content: whatever byte string `encodeNumeric` accepts (at any level), the reference parser,
    run on the produced stream with any fuel ≥ 2 (`decode` uses `size/4 + 2`), succeeds and returns exactly one
    segment of mode 1 whose content is the input byte for byte, a terminator of `min 4 (cap - used)` bits and
    the pad codewords that fill the remaining capacity.  (`parseTail` only succeeds if terminator and bit padding
    are zero and the pad codewords alternate 0xEC / 0x11, so success includes these checks.) -/
theorem numeric_stream_roundtrip (content : Bytes) (l : Nat) (bits : List Bool) (vi : VersionInfo)
    (h : encodeNumeric content l = some (bits, vi)) (fuel : Nat) (hf : 2 ≤ fuel) :
    parseSegments vi.version bits.toArray fuel 0 [] [] =
      .ok (streamResult 1 content (4 + countBits vi.version 1 + numBitCount content.length)
        (vi.totalDataBytes * 8)) := by
  obtain ⟨f, rfl⟩ : ∃ f, fuel = f + 2 := ⟨fuel - 2, by omega⟩
  rw [(numeric_stream content l bits vi f h).1, singleResult_eq _ _ _ _ (by omega)]

/-- Numeric mode, acceptance and shape: accepted content consists of ASCII digits only (no sign, no other byte);
    the version is a table row of the requested level; the character count fits its field; the segment fits the
    capacity; and the stream is mode indicator 0001, count, the digit groups, then terminator / bit padding /
    pad codewords exactly as `streamShape` says, `cap` bits in total. -/
theorem numeric_stream_shape (content : Bytes) (l : Nat) (bits : List Bool) (vi : VersionInfo)
    (h : encodeNumeric content l = some (bits, vi)) :
    (∀ b ∈ content, 48 ≤ b.toNat ∧ b.toNat ≤ 57) ∧
    vi ∈ versionInfos ∧ vi.level = l ∧
    content.length < 2 ^ countBits vi.version 1 ∧
    4 + countBits vi.version 1 + numBitCount content.length ≤ vi.totalDataBytes * 8 ∧
    (∃ chunks, numericChunks content.length content = some chunks ∧
      chunks.length = numBitCount content.length ∧
      bits = streamShape (msbBits 1 4 ++ (msbBits content.length (countBits vi.version 1) ++ chunks))
        (vi.totalDataBytes * 8)) ∧
    bits.length = vi.totalDataBytes * 8 := by
  obtain ⟨_, hd, chunks, hc, hl, hb⟩ := numeric_stream content l bits vi 0 h
  obtain ⟨f1, f2, f3, f4⟩ := numeric_fits content l bits vi h
  refine ⟨hd, f1, f2, f3, f4, ⟨chunks, hc, hl, ?_⟩, ?_⟩
  · rw [hb, padded_eq_shape _ _ (by omega)]
  · rw [hb, length_padded _ _ (by simp [hl]; omega) (by omega)]

/-- a digit group of 1, 2 or 3 ASCII digits has a value below 10, 100, 1000 and its decimal digits (as the
    reference parser regenerates them) are the group itself -/
theorem digit_groups (a b c : UInt8) (ha : 48 ≤ a.toNat ∧ a.toNat ≤ 57) (hb : 48 ≤ b.toNat ∧ b.toNat ≤ 57)
    (hc : 48 ≤ c.toNat ∧ c.toNat ≤ 57) :
    (decVal [a] < 10 ∧ digitsOf (decVal [a]) 1 = [a]) ∧
    (decVal [a, b] < 100 ∧ digitsOf (decVal [a, b]) 2 = [a, b]) ∧
    (decVal [a, b, c] < 1000 ∧ digitsOf (decVal [a, b, c]) 3 = [a, b, c]) :=
  ⟨digits1 a ha, digits2 a b ha hb, digits3 a b c ha hb hc⟩

/-! ### 2. alphanumeric mode -/

/-- Alphanumeric mode, content: every accepted byte string is read back unchanged as one segment of mode 2. -/
theorem alnum_stream_roundtrip (content : Bytes) (l : Nat) (bits : List Bool) (vi : VersionInfo)
    (h : encodeAlphaNumeric content l = some (bits, vi)) (fuel : Nat) (hf : 2 ≤ fuel) :
    parseSegments vi.version bits.toArray fuel 0 [] [] =
      .ok (streamResult 2 content (4 + countBits vi.version 2 + alnumBitCount content.length)
        (vi.totalDataBytes * 8)) := by
  obtain ⟨f, rfl⟩ : ∃ f, fuel = f + 2 := ⟨fuel - 2, by omega⟩
  rw [(alnum_stream content l bits vi f h).1, singleResult_eq _ _ _ _ (by omega)]

/-- Alphanumeric mode, acceptance and shape: every accepted byte is one of the 45 characters of `charSet` (so the
    content is ASCII and its byte length is its character count), its value is below 45 and the table of the
    standard has the same byte at that value; count and segment fit; the stream is 0010, count, the pairs and
    the trailing single, then the padding of `streamShape`. -/
theorem alnum_stream_shape (content : Bytes) (l : Nat) (bits : List Bool) (vi : VersionInfo)
    (h : encodeAlphaNumeric content l = some (bits, vi)) :
    (∀ b ∈ content, b ∈ Gen.Qr.c_charSet ∧ alnumVal b < 45 ∧ alnumChars.getD (alnumVal b) 0 = b) ∧
    vi ∈ versionInfos ∧ vi.level = l ∧
    content.length < 2 ^ countBits vi.version 2 ∧
    4 + countBits vi.version 2 + alnumBitCount content.length ≤ vi.totalDataBytes * 8 ∧
    bits = streamShape (msbBits 2 4 ++ (msbBits content.length (countBits vi.version 2) ++
      alnumBits (content.map alnumVal))) (vi.totalDataBytes * 8) ∧
    bits.length = vi.totalDataBytes * 8 := by
  obtain ⟨_, hm, hb⟩ := alnum_stream content l bits vi 0 h
  obtain ⟨f1, f2, f3, f4⟩ := alnum_fits content l bits vi h
  refine ⟨?_, f1, f2, f3, f4, ?_, ?_⟩
  · intro b hb'
    exact ⟨alnumVal_mem b (hm b hb'), alnumVal_spec b (hm b hb')⟩
  · rw [hb, padded_eq_shape _ _ (by omega)]
  · rw [hb, length_padded _ _ (by
      simp only [List.length_append, length_msbBits, length_alnumBits, List.length_map]
      unfold alnumBitCount at f4; omega) (by omega)]

/-! ### 3. byte mode -/

/-- Byte mode, content: every byte string that fits (all 256 byte values, valid UTF-8 or not) is read back
    unchanged as one segment of mode 4. -/
theorem byte_stream_roundtrip (content : Bytes) (l : Nat) (bits : List Bool) (vi : VersionInfo)
    (h : encodeUnicode content l = some (bits, vi)) (fuel : Nat) (hf : 2 ≤ fuel) :
    parseSegments vi.version bits.toArray fuel 0 [] [] =
      .ok (streamResult 4 content (4 + countBits vi.version 4 + 8 * content.length)
        (vi.totalDataBytes * 8)) := by
  obtain ⟨f, rfl⟩ : ∃ f, fuel = f + 2 := ⟨fuel - 2, by omega⟩
  rw [(byte_stream content l bits vi f h).1, singleResult_eq _ _ _ _ (by omega)]

/-- Byte mode, shape: count and segment fit; the stream is 0100, count, eight bits per byte, then the padding. -/
theorem byte_stream_shape (content : Bytes) (l : Nat) (bits : List Bool) (vi : VersionInfo)
    (h : encodeUnicode content l = some (bits, vi)) :
    vi ∈ versionInfos ∧ vi.level = l ∧
    content.length < 2 ^ countBits vi.version 4 ∧
    4 + countBits vi.version 4 + 8 * content.length ≤ vi.totalDataBytes * 8 ∧
    bits = streamShape (msbBits 4 4 ++ (msbBits content.length (countBits vi.version 4) ++
      content.flatMap (fun b => msbBits b.toNat 8))) (vi.totalDataBytes * 8) ∧
    bits.length = vi.totalDataBytes * 8 := by
  obtain ⟨_, hb⟩ := byte_stream content l bits vi 0 h
  obtain ⟨f1, f2, f3, f4⟩ := byte_fits content l bits vi h
  refine ⟨f1, f2, f3, f4, ?_, ?_⟩
  · rw [hb, padded_eq_shape _ _ (by omega)]
  · rw [hb, length_padded _ _ (by
      simp only [List.length_append, length_msbBits, length_flatMap_bytes]; omega) (by omega)]

/-! ### 4. automatic mode -/

/-- `encodeAuto` returns the result of the first of numeric, alphanumeric, byte encoding that accepts -/
theorem auto_cases (content : Bytes) (l : Nat) (r : List Bool × VersionInfo)
    (h : encodeAuto content l = some r) :
    encodeNumeric content l = some r ∨
    (encodeNumeric content l = none ∧ encodeAlphaNumeric content l = some r) ∨
    (encodeNumeric content l = none ∧ encodeAlphaNumeric content l = none ∧ encodeUnicode content l = some r) := by
  unfold encodeAuto at h
  split at h
  · left; rename_i r' h1; rw [h1, ← h]
  · rename_i h1
    split at h
    · right; left; rename_i r' h2; exact ⟨h1, by rw [h2, ← h]⟩
    · rename_i h2
      split at h
      · right; right; rename_i r' h3; exact ⟨h1, h2, by rw [h3, ← h]⟩
      · cases h

/-- Automatic mode, content: whatever `encodeAuto` accepts is read back unchanged, as a single segment whose mode
    is 1, 2 or 4, with conformant terminator and padding; the version is a table row of the requested level and
    the stream has exactly `cap` bits. -/
theorem auto_stream_roundtrip (content : Bytes) (l : Nat) (bits : List Bool) (vi : VersionInfo)
    (h : encodeAuto content l = some (bits, vi)) (fuel : Nat) (hf : 2 ≤ fuel) :
    vi ∈ versionInfos ∧ vi.level = l ∧ bits.length = vi.totalDataBytes * 8 ∧
    ∃ m used, (m = 1 ∨ m = 2 ∨ m = 4) ∧ used ≤ vi.totalDataBytes * 8 ∧
      parseSegments vi.version bits.toArray fuel 0 [] [] =
        .ok (streamResult m content used (vi.totalDataBytes * 8)) := by
  rcases auto_cases content l _ h with h1 | ⟨_, h2⟩ | ⟨_, _, h3⟩
  · have s := numeric_stream_shape content l bits vi h1
    exact ⟨s.2.1, s.2.2.1, s.2.2.2.2.2.2, 1, _, Or.inl rfl, s.2.2.2.2.1,
      numeric_stream_roundtrip content l bits vi h1 fuel hf⟩
  · have s := alnum_stream_shape content l bits vi h2
    exact ⟨s.2.1, s.2.2.1, s.2.2.2.2.2.2, 2, _, Or.inr (Or.inl rfl), s.2.2.2.2.1,
      alnum_stream_roundtrip content l bits vi h2 fuel hf⟩
  · have s := byte_stream_shape content l bits vi h3
    exact ⟨s.1, s.2.1, s.2.2.2.2.2, 4, _, Or.inr (Or.inr rfl), s.2.2.2.1,
      byte_stream_roundtrip content l bits vi h3 fuel hf⟩

/-! ### 5. blocks: split, interleave, de-interleave -/

/-- For every row `vi` of the generated table and every list of `vi.totalDataBytes` data codewords:
    `splitToBlocks` succeeds; the number of check codewords and the block lengths of the row are those of Table 9
    of the standard for (version, level); every block has its ISO length and its check part is `calcECC` of its
    data part with the ISO number of check codewords; the data parts in block order concatenate to the input;
    and the reference de-interleaver applied to `interleave blocks` returns, for every block, its data part
    followed by its `ec` check codewords (as `interleave` reads them: `eccRow`, zero filled to `ec`). -/
theorem blocks_roundtrip (vi : VersionInfo) (hvi : vi ∈ versionInfos) (data : List Nat)
    (hlen : data.length = vi.totalDataBytes) :
    ∃ blocks ec lens,
      splitToBlocks data vi = .ok blocks ∧
      isoBlocks vi.version vi.level = some (ec, lens) ∧
      ec = vi.errorCorrectionCodewordsPerBlock ∧
      blocks.map (·.data.length) = lens ∧
      (∀ b ∈ blocks, b.ecc = calcECC b.data ec) ∧
      blocks.flatMap (·.data) = data ∧
      deinterleave (interleave blocks vi).toArray lens ec = blocks.map (fun b => b.data ++ eccRow ec b) := by
  obtain ⟨hn, hiso⟩ := blocks_of_mem vi hvi
  obtain ⟨blocks, h1, h2, h3, h4, h5⟩ := split_interleave vi data hn hlen
  exact ⟨blocks, _, _, h1, hiso, rfl, h2, h3, h4, h5⟩

/-- The same with the two facts about `calcECC` that belong to C17 as explicit hypotheses — `hLen`: it returns
    exactly `k` codewords; `hRS`: data followed by `calcECC data k` is a Reed–Solomon codeword of the QR field with
    roots α^0 … α^(k-1).  Then the de-interleaved blocks are literally `data ++ ecc`, have the lengths `decode`
    checks, and pass its Reed–Solomon check. -/
theorem blocks_roundtrip_valid
    (hLen : ∀ (data : List Nat) (k : Nat), (calcECC data k).length = k)
    (hRS : ∀ (data : List Nat) (k : Nat), Spec.RS.qrField.valid 0 k (data ++ calcECC data k) = true)
    (vi : VersionInfo) (hvi : vi ∈ versionInfos) (data : List Nat) (hlen : data.length = vi.totalDataBytes) :
    ∃ blocks ec lens,
      splitToBlocks data vi = .ok blocks ∧
      isoBlocks vi.version vi.level = some (ec, lens) ∧
      deinterleave (interleave blocks vi).toArray lens ec = blocks.map (fun b => b.data ++ b.ecc) ∧
      ((deinterleave (interleave blocks vi).toArray lens ec).zip lens).all
        (fun (p : List Nat × Nat) => p.1.length == p.2 + ec) = true ∧
      (deinterleave (interleave blocks vi).toArray lens ec).all
        (fun b => Spec.RS.qrField.valid 0 ec b) = true := by
  obtain ⟨blocks, ec, lens, h1, h2, h3, h4, h5, h6, h7⟩ := blocks_roundtrip vi hvi data hlen
  have hecc : ∀ b ∈ blocks, eccRow ec b = b.ecc := fun b hb =>
    eccRow_eq ec b (by rw [h5 b hb]; exact hLen _ _)
  have h7' : deinterleave (interleave blocks vi).toArray lens ec = blocks.map (fun b => b.data ++ b.ecc) := by
    rw [h7]
    apply List.map_congr_left
    intro b hb
    rw [hecc b hb]
  refine ⟨blocks, ec, lens, h1, h2, h7', ?_, ?_⟩
  · rw [h7', ← h4]
    apply zip_map_all
    intro b hb
    simp only [List.length_append, beq_iff_eq]
    rw [h5 b hb, hLen]
  · rw [h7', List.all_eq_true]
    intro w hw
    obtain ⟨b, hb, rfl⟩ := List.mem_map.mp hw
    rw [h5 b hb]
    exact hRS _ _

/-! ### 6. codewords: packing and unpacking -/

/-- `iterateBytes` (= `pack8`) on a stream of `8·n` bits gives `n` codewords below 256, and writing every
    codeword as 8 bits, most significant first — what `Spec.Qr.decode` does with the data codewords — gives the
    stream back. -/
theorem pack8_roundtrip (bits : List Bool) (n : Nat) (h : bits.length = 8 * n) :
    (iterateBytes bits).length = n ∧ (∀ c ∈ iterateBytes bits, c < 256) ∧
    (iterateBytes bits).flatMap (fun c => msbBits c 8) = bits :=
  pack8_unpack n bits h

/-- conversely the bits of a codeword list pack to the codewords, and the reference reader `bitsToNatAt … (8·i) 8`
    (the way `decode` reads codeword `i` of the symbol) returns codeword `i` -/
theorem unpack_pack8 (cw : List Nat) (h : ∀ c ∈ cw, c < 256) :
    iterateBytes (cw.flatMap (fun c => msbBits c 8)) = cw ∧
    ∀ i, i < cw.length → bitsToNatAt (cw.flatMap (fun c => msbBits c 8)).toArray (8 * i) 8 = cw.getD i 0 := by
  refine ⟨pack8_flatMap_msbBits cw h, ?_⟩
  intro i hi
  have := readAt_flatMap cw [] [] i hi h
  simpa [bitsToNatAt_eq] using this

/-- `msbBits` and `bitsToNat` are inverse to each other: a value below `2^k` is read back from its `k` bits, and a
    bit list is the `msbBits` of its value -/
theorem msbBits_inverse (x k : Nat) (hx : x < 2 ^ k) (l : List Bool) :
    bitsToNat (msbBits x k) = x ∧ msbBits (bitsToNat l) l.length = l :=
  ⟨bitsToNat_msbBits_of_lt x k hx, msbBits_bitsToNat l⟩

/-! ### 7. the data path of the reference decoder, end to end -/

/-- From the accepted content to the interleaved codeword sequence and back: for whatever `encodeAuto` accepts,
    `splitToBlocks` on the packed stream succeeds with the ISO block structure, and the data bit stream that
    `Spec.Qr.decode` rebuilds from the de-interleaved blocks (first `l` codewords of every block, 8 bits each) is
    the encoder's stream, which the reference parser — with the fuel `decode` uses — reads as the content. -/
theorem data_path_roundtrip (content : Bytes) (l : Nat) (bits : List Bool) (vi : VersionInfo)
    (h : encodeAuto content l = some (bits, vi)) :
    ∃ blocks ec lens m used,
      splitToBlocks (iterateBytes bits) vi = .ok blocks ∧
      isoBlocks vi.version vi.level = some (ec, lens) ∧
      (m = 1 ∨ m = 2 ∨ m = 4) ∧
      (((deinterleave (interleave blocks vi).toArray lens ec).zip lens).flatMap
        (fun (b, l) => (b.take l).flatMap (fun c => msbBits c 8))) = bits ∧
      parseSegments vi.version bits.toArray (bits.toArray.size / 4 + 2) 0 [] [] =
        .ok (streamResult m content used (vi.totalDataBytes * 8)) := by
  obtain ⟨hvi, _, hlen, m, used, hm, _, hp⟩ :=
    auto_stream_roundtrip content l bits vi h (bits.toArray.size / 4 + 2) (by omega)
  obtain ⟨p1, _, p3⟩ := pack8_unpack vi.totalDataBytes bits (by omega)
  obtain ⟨blocks, ec, lens, h1, h2, _, h4, _, h6, h7⟩ := blocks_roundtrip vi hvi (iterateBytes bits) p1
  refine ⟨blocks, ec, lens, m, used, h1, h2, hm, ?_, hp⟩
  rw [h7, ← h4, zip_take_data, h6]
  exact p3

/-! ### examples: the hypotheses are satisfiable, and direct evaluation agrees -/

/-- non-vacuity, numeric: "0123456" at level M is accepted, so the theorem applies to it -/
example : (encodeNumeric [48, 49, 50, 51, 52, 53, 54] 1).isSome = true ∧
    ∀ bits vi, encodeNumeric [48, 49, 50, 51, 52, 53, 54] 1 = some (bits, vi) →
      parseSegments vi.version bits.toArray 2 0 [] [] =
        .ok (streamResult 1 [48, 49, 50, 51, 52, 53, 54] (4 + countBits vi.version 1 + numBitCount 7)
          (vi.totalDataBytes * 8)) :=
  ⟨by decide, fun bits vi h => numeric_stream_roundtrip _ 1 bits vi h 2 (by omega)⟩

/-- the same content evaluated directly: model and reference parser agree with the theorem -/
example : (match encodeNumeric [48, 49, 50, 51, 52, 53, 54] 1 with
    | some (bits, vi) =>
      (match parseSegments vi.version bits.toArray 2 0 [] [] with
       | .ok p => some (p.modes, p.content, p.terminatorBits, p.padCodewords, vi.version)
       | .error _ => none)
    | none => none) = some ([1], [48, 49, 50, 51, 52, 53, 54], 4, 10, 1) := by decide +kernel

/-- non-vacuity, alphanumeric: "AC-42" at level H -/
example : (encodeAlphaNumeric [65, 67, 45, 52, 50] 3).isSome = true ∧
    ∀ bits vi, encodeAlphaNumeric [65, 67, 45, 52, 50] 3 = some (bits, vi) →
      parseSegments vi.version bits.toArray 2 0 [] [] =
        .ok (streamResult 2 [65, 67, 45, 52, 50] (4 + countBits vi.version 2 + alnumBitCount 5)
          (vi.totalDataBytes * 8)) :=
  ⟨by decide, fun bits vi h => alnum_stream_roundtrip _ 3 bits vi h 2 (by omega)⟩

/-- non-vacuity, byte mode: ff 00 c3 28 (not valid UTF-8) at level L -/
example : (encodeUnicode [0xFF, 0x00, 0xC3, 0x28] 0).isSome = true ∧
    ∀ bits vi, encodeUnicode [0xFF, 0x00, 0xC3, 0x28] 0 = some (bits, vi) →
      parseSegments vi.version bits.toArray 2 0 [] [] =
        .ok (streamResult 4 [0xFF, 0x00, 0xC3, 0x28] (4 + countBits vi.version 4 + 8 * 4)
          (vi.totalDataBytes * 8)) :=
  ⟨by decide, fun bits vi h => byte_stream_roundtrip _ 0 bits vi h 2 (by omega)⟩
/-- edge case evaluated directly: 17 digits at level H use 71 of the 72 data bits of version 1, so the terminator
    is a single bit and there is no pad codeword -/
example : (match encodeNumeric [49, 50, 51, 52, 53, 54, 55, 56, 57, 48, 49, 50, 51, 52, 53, 54, 55] 3 with
    | some (bits, vi) =>
      (match parseSegments vi.version bits.toArray 2 0 [] [] with
       | .ok p => some (p.modes, p.content, p.terminatorBits, p.padCodewords, vi.version)
       | .error _ => none)
    | none => none) =
    some ([1], [49, 50, 51, 52, 53, 54, 55, 56, 57, 48, 49, 50, 51, 52, 53, 54, 55], 1, 0, 1) := by
  decide +kernel

/-- non-vacuity, automatic: "HELLO WORLD" at level Q is accepted (as alphanumeric) -/
example : (encodeAuto [72, 69, 76, 76, 79, 32, 87, 79, 82, 76, 68] 2).isSome = true ∧
    ∀ bits vi, encodeAuto [72, 69, 76, 76, 79, 32, 87, 79, 82, 76, 68] 2 = some (bits, vi) →
      ∃ m used, (m = 1 ∨ m = 2 ∨ m = 4) ∧ used ≤ vi.totalDataBytes * 8 ∧
        parseSegments vi.version bits.toArray 5 0 [] [] =
          .ok (streamResult m [72, 69, 76, 76, 79, 32, 87, 79, 82, 76, 68] used (vi.totalDataBytes * 8)) :=
  ⟨by decide, fun bits vi h => (auto_stream_roundtrip _ 2 bits vi h 5 (by omega)).2.2.2⟩

/-- non-vacuity, blocks: version 5-Q (2 blocks of 15 and 2 of 16 data codewords, 18 check codewords each) with the
    data codewords 0, 1, …, 61 -/
example : ∃ blocks ec lens,
    splitToBlocks (List.range 62) ⟨5, 2, 18, 2, 15, 2, 16⟩ = .ok blocks ∧
    isoBlocks 5 2 = some (ec, lens) ∧ ec = 18 ∧ blocks.map (·.data.length) = lens ∧
    (∀ b ∈ blocks, b.ecc = calcECC b.data ec) ∧ blocks.flatMap (·.data) = List.range 62 ∧
    deinterleave (interleave blocks ⟨5, 2, 18, 2, 15, 2, 16⟩).toArray lens ec =
      blocks.map (fun b => b.data ++ eccRow ec b) :=
  blocks_roundtrip ⟨5, 2, 18, 2, 15, 2, 16⟩ (by decide) (List.range 62) (by decide)

example : isoBlocks 5 2 = some (18, [15, 15, 16, 16]) := by decide

/-- non-vacuity, packing: 16 bits -/
example : iterateBytes [true, false, true, false, false, true, false, true,
                        false, false, false, true, false, false, false, true] = [0xA5, 0x11] ∧
    [0xA5, 0x11].flatMap (fun c => msbBits c 8) =
      [true, false, true, false, false, true, false, true,
       false, false, false, true, false, false, false, true] := by
  constructor
  · exact (congrArg iterateBytes (by decide)).trans (unpack_pack8 [0xA5, 0x11] (by decide)).1
  · decide

/-- non-vacuity, data path: the byte string ff 00 c3 28 (invalid UTF-8) at level L -/
example : (encodeAuto [0xFF, 0x00, 0xC3, 0x28] 0).isSome = true ∧
    ∀ bits vi, encodeAuto [0xFF, 0x00, 0xC3, 0x28] 0 = some (bits, vi) →
      ∃ blocks ec lens m used,
        splitToBlocks (iterateBytes bits) vi = .ok blocks ∧
        isoBlocks vi.version vi.level = some (ec, lens) ∧
        (m = 1 ∨ m = 2 ∨ m = 4) ∧
        (((deinterleave (interleave blocks vi).toArray lens ec).zip lens).flatMap
          (fun (b, l) => (b.take l).flatMap (fun c => msbBits c 8))) = bits ∧
        parseSegments vi.version bits.toArray (bits.toArray.size / 4 + 2) 0 [] [] =
          .ok (streamResult m [0xFF, 0x00, 0xC3, 0x28] used (vi.totalDataBytes * 8)) :=
  ⟨by decide, fun bits vi h => data_path_roundtrip _ 0 bits vi h⟩

end BV.Props.QrB
