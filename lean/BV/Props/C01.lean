/-
  C01 — QR Code: every symbol the encoder returns is a structurally valid ISO/IEC 18004 symbol that decodes to
  exactly the content that was passed in.

  `Spec.Qr.decode w h dark` is the reference decoder written from the standard.  It succeeds only if the picture
  is square with side 17+4v, has the three finder patterns with separators, both timing patterns, every alignment
  pattern of Annex E, the dark module, two equal BCH(15,5)-valid copies of the format information, for v ≥ 7 two
  equal BCH(18,6)-valid copies of the version information that name v, the right number of data modules, zero
  remainder bits, blocks of the lengths of Table 9 that are Reed–Solomon codewords, and a data bit stream made of
  segments, a terminator, zero padding and the alternating pad codewords.

  Only property statements live here.  The layers:
  * bit stream and codewords — BV/Props/QrA.lean, BV/Props/QrB.lean, BV/Proofs/QrMatrixRS.lean (`codeword_layer`:
    uses C17 for the Reed–Solomon blocks);
  * matrix — BV/Proofs/QrMatrix{Pix,Cells,Fn,Facts,Drawn,Walk,Data,Spec,Count,Decode,Final}.lean
    (`render_decodes`).
  "certificate" = a finite fact checked by kernel evaluation over a whole table (`decide +kernel`): here the
  alignment centres of the 40 versions (`centreGeo_cert`), the number of data modules of the 40 versions
  (`countCheck_all`), and the certificates of QrA/QrB/C17.  Everything else is proved for all inputs by induction
  over the drawing loops; no bitmap is evaluated.
-/
import BV.Proofs.QrMatrixFinal
import BV.Proofs.QrMatrixRS
namespace BV.Props.C01
open BV BV.Model BV.Model.Qr BV.Gen.Qr
open BV.Proofs.QrTables BV.Proofs.QrRender BV.Proofs.QrCoords BV.Proofs.QrBlocks BV.Proofs.QrChain
open BV.Proofs.QrMatrix

/-! ## 1. Reed–Solomon blocks (hypotheses of `QrB.blocks_roundtrip_valid` discharged from C17) -/

/-- `calcECC` on a block of bytes with 1..255 check codewords: exactly `k` check codewords, all bytes, and data
    followed by them is a Reed–Solomon codeword of the QR field with roots α^0 … α^(k-1). -/
theorem calcECC_valid (data : List Nat) (hd : ∀ c ∈ data, c < 256) (k : Nat) (hk1 : 1 ≤ k) (hk : k ≤ 255) :
    (calcECC data k).length = k ∧ (∀ c ∈ calcECC data k, c < 256) ∧
    Spec.RS.qrField.valid 0 k (data ++ calcECC data k) = true :=
  calcECC_spec data hd k hk1 hk

/-- Every row of the version table asks for 7..30 check codewords per block. -/
theorem ec_codewords_range : ∀ vi ∈ versionInfos,
    7 ≤ vi.errorCorrectionCodewordsPerBlock ∧ vi.errorCorrectionCodewordsPerBlock ≤ 30 :=
  ec_range

/-- Unconditional block layer: for a row of the table and `totalDataBytes` bytes, `splitToBlocks` succeeds with the
    ISO block structure, the reference de-interleaver applied to `interleave blocks` returns every block as
    data ++ check codewords, all blocks have the ISO lengths and are Reed–Solomon codewords, and the interleaved
    sequence has the ISO total length and consists of bytes. -/
theorem blocks_valid (vi : VersionInfo) (hvi : vi ∈ versionInfos) (data : List Nat)
    (hlen : data.length = vi.totalDataBytes) (hd : ∀ c ∈ data, c < 256) :
    ∃ blocks ec lens,
      splitToBlocks data vi = .ok blocks ∧
      isoBlocks vi.version vi.level = some (ec, lens) ∧
      blocks.map (·.data.length) = lens ∧
      blocks.flatMap (·.data) = data ∧
      Spec.Qr.deinterleave (interleave blocks vi).toArray lens ec = blocks.map (fun b => b.data ++ b.ecc) ∧
      ((Spec.Qr.deinterleave (interleave blocks vi).toArray lens ec).zip lens).all
        (fun (p : List Nat × Nat) => p.1.length == p.2 + ec) = true ∧
      (Spec.Qr.deinterleave (interleave blocks vi).toArray lens ec).all
        (fun b => Spec.RS.qrField.valid 0 ec b) = true ∧
      (interleave blocks vi).length = lens.foldl (· + ·) 0 + lens.length * ec ∧
      (∀ c ∈ interleave blocks vi, c < 256) :=
  BV.Proofs.QrMatrix.blocks_valid vi hvi data hlen hd

/-! ## 2. Function patterns -/

/-- After the function-pattern phase of `render` the state shows the picture `drawnP vi` (all nine bitmaps have
    side `modulWidth`), and `occupied` is, module by module, the reference decoder's map of function modules for
    the Annex-E alignment centres: finder + separator + format squares, timing row and column, the 5×5 squares of
    the alignment patterns that do not collide with a finder, the version areas for version ≥ 7. -/
theorem occupied_eq_functionMap (vi : VersionInfo) (hmem : vi ∈ versionInfos) (color : Scheme)
    (X Y : Nat) (hX : X < vi.modulWidth) (hY : Y < vi.modulWidth) :
    (drawn vi color).occupied.get X Y =
      (Spec.Qr.functionMap vi.modulWidth vi.version
        (Spec.Qr.alignmentPositions vi.alignmentPatternPlacements)).getD (Y * vi.modulWidth + X) true := by
  have g := geo_of_mem hmem
  rw [(drawn_rep vi hmem color).2.1 X Y hX hY, drawn_occ hmem X Y hX hY,
    functionMap_getD _ _ _ g.d21 _ X Y hX hY]
  intro q hq
  have gq := aligns_geo g q hq
  omega

/-- The colours of the function modules in each of the eight result bitmaps after the function-pattern phase
    (`resV rs i X Y` = module (X, Y) of bitmap `i`): finder patterns with separators at the three corners,
    alignment patterns at the reference decoder's centres, timing patterns, dark module. -/
theorem function_pattern_colours (vi : VersionInfo) (hmem : vi ∈ versionInfos) (color : Scheme) (i : Nat)
    (hi : i < 8) :
    (∀ ox oy : Nat, ((ox = 0 ∧ oy = 0) ∨ (ox = vi.modulWidth - 7 ∧ oy = 0) ∨ (ox = 0 ∧ oy = vi.modulWidth - 7)) →
      ∀ dx dy : Int, -1 ≤ dx → dx ≤ 7 → -1 ≤ dy → dy ≤ 7 → 0 ≤ (ox : Int) + dx → (ox : Int) + dx < vi.modulWidth →
        0 ≤ (oy : Int) + dy → (oy : Int) + dy < vi.modulWidth →
        resV (drawn vi color).results i ((ox : Int) + dx).toNat ((oy : Int) + dy).toNat =
          Spec.Qr.finderModule dx dy) ∧
    (∀ p ∈ Spec.Qr.alignmentPositions vi.alignmentPatternPlacements, ∀ a b : Int, -2 ≤ a → a ≤ 2 → -2 ≤ b → b ≤ 2 →
      resV (drawn vi color).results i ((p.1 : Int) + a).toNat ((p.2 : Int) + b).toNat =
        (a == -2 || a == 2 || b == -2 || b == 2 || (a == 0 && b == 0))) ∧
    (∀ k, 8 ≤ k → k + 8 < vi.modulWidth →
      resV (drawn vi color).results i k 6 = (k % 2 == 0) ∧ resV (drawn vi color).results i 6 k = (k % 2 == 0)) ∧
    resV (drawn vi color).results i 8 (vi.modulWidth - 8) = true := by
  have g := geo_of_mem hmem
  have hd := g.d21
  have hrep := (drawn_rep vi hmem color).2.2.2.2
  refine ⟨?_, ?_, ?_, ?_⟩
  · intro ox oy hc dx dy h1 h2 h3 h4 h5 h6 h7 h8
    rw [hrep i _ _ hi (by omega) (by omega), drawn_finder hmem i hi ox oy hc dx dy h1 h2 h3 h4 h5 h6 h7 h8,
      finderModule_eq dx dy h1 h2 h3 h4]
    rfl
  · intro p hp a b h1 h2 h3 h4
    have hAP : alignP vi ((p.1 : Int) + a).toNat ((p.2 : Int) + b).toNat := by
      have gp := aligns_geo g p hp
      exact ⟨p, hp, by omega⟩
    obtain ⟨_, _, _, _, hX, hY⟩ := align_disjoint g _ _ hAP
    rw [hrep i _ _ hi hX hY, drawn_align hmem i hi p hp a b h1 h2 h3 h4]
    rfl
  · intro k hk8 hk
    rw [hrep i _ _ hi (by omega) (by omega), hrep i _ _ hi (by omega) (by omega)]
    exact drawn_timing hmem i hi k hk8 hk
  · rw [hrep i _ _ hi (by omega) (by omega)]
    exact drawn_dark hmem i hi

/-! ## 3. Data modules -/

/-- `iterateModules occupied` is the standard zig-zag walk (`walk`, closed form: column pairs from the right,
    alternately upwards and downwards, right module first, column 6 skipped) restricted to the modules that are not
    occupied, in order; the walk visits every module outside column 6 exactly once; and the reference decoder's
    `readDataBits` reads the free modules of the same walk in the same order, releasing the mask. -/
theorem data_walk (occ : QRCode) (v : Nat) (hv : 1 ≤ v) (hd : occ.dimension = 17 + 4 * v)
    (dark : Nat → Nat → Bool) (func : Array Bool) (mask : Nat) :
    (iterateModules occ).toList = (walk (17 + 4 * v)).filter (fun p => !occ.get p.1 p.2) ∧
    (walk (17 + 4 * v)).Nodup ∧
    (∀ X Y, X < 17 + 4 * v → Y < 17 + 4 * v → X ≠ 6 → (X, Y) ∈ walk (17 + 4 * v)) ∧
    (∀ p ∈ walk (17 + 4 * v), p.1 < 17 + 4 * v ∧ p.2 < 17 + 4 * v ∧ p.1 ≠ 6) ∧
    (Spec.Qr.readDataBits (17 + 4 * v) dark func mask).toList =
      ((walk (17 + 4 * v)).filter (fun p => !func.getD (p.2 * (17 + 4 * v) + p.1) true)).map
        (fun p => dark p.1 p.2 != Spec.Qr.maskCond mask p.2 p.1) :=
  ⟨iterateModules_eq occ v hv hd, walk_nodup v hv, walk_complete v hv,
   fun p hp => ⟨(walk_range v hv p hp).1, (walk_range v hv p hp).2, walk_ne_six v hv p hp⟩,
   readDataBits_eq _ dark func mask⟩

/-- The eight conditions of `setMasked` are the mask conditions of Table 10 (the model's `x` is the column j, its
    `y` the row i). -/
theorem setMasked_is_maskCond (x y : Nat) (val : Bool) (mask : Nat) (hm : mask < 8) {σ}
    (set : Nat → Nat → Bool → σ → σ) :
    setMasked x y val mask set = set x y (val != Spec.Qr.maskCond mask y x) :=
  setMasked_eq x y val mask hm set

/-- Write / read-back with mask, for an abstract list of pairwise distinct positions: writing bit `n+k` XOR the
    mask condition at the k-th position and then reading the positions in the same order XOR the same condition
    returns the bits; modules that are not among the positions are unchanged. -/
theorem mask_write_readback (bit : Nat → Bool) (i : Nat) (ps : List (Nat × Nat)) (hnd : ps.Nodup) (n : Nat)
    (f : Nat → Nat → Bool) :
    ps.map (fun p => foldUpd (writeCells bit i ps n) f p.1 p.2 != Spec.Qr.maskCond i p.2 p.1) =
      (List.range ps.length).map (fun k => bit (n + k)) ∧
    ∀ X Y, (X, Y) ∉ ps → foldUpd (writeCells bit i ps n) f X Y = f X Y :=
  ⟨readback bit i ps hnd n f, fun X Y h => write_frame bit i ps n f X Y h⟩

/-- The bits `render` places are the codewords most significant bit first, followed by zero bits (the remainder
    bits), and there are 8·total + r data modules with r < 8 (certificate over the 40 versions). -/
theorem data_bits_and_capacity (vi : VersionInfo) (hmem : vi ∈ versionInfos) (data : List Nat) (ec : Nat)
    (lens : List Nat) (hiso : isoBlocks vi.version vi.level = some (ec, lens))
    (hlen : data.length = lens.foldl (· + ·) 0 + lens.length * ec) :
    8 * data.length ≤ (dataPos vi).length ∧ (dataPos vi).length < 8 * data.length + 8 ∧
    (List.range (dataPos vi).length).map (fun k => dataBit data (0 + k)) =
      data.flatMap (fun c => msbBits c 8) ++ List.replicate ((dataPos vi).length - 8 * data.length) false := by
  obtain ⟨h1, h2⟩ := dataPos_length vi hmem ec lens hiso
  rw [← hlen] at h1 h2
  exact ⟨h1, h2, dataBits_eq data _ h1⟩

/-! ## 4. Format and version information -/

/-- In result bitmap `i` after the function-pattern phase, bit `j` of the format word `formatInfoOf level i` is at
    both places where the reference decoder reads bit `j`, and (version ≥ 7) bit `j` of the version word is at both
    places where it reads bit `j`; all these modules are occupied, so the data loop does not touch them. -/
theorem format_version_placed (vi : VersionInfo) (hmem : vi ∈ versionInfos) (i : Nat) (hi : i < 8) :
    (∀ j, j < 15 →
      (drawnP vi).res i (Spec.Qr.formatPosA j).1 (Spec.Qr.formatPosA j).2 =
        (formatInfoOf vi.level i).getD (14 - j) false ∧
      (drawnP vi).res i (Spec.Qr.formatPosB vi.modulWidth j).1 (Spec.Qr.formatPosB vi.modulWidth j).2 =
        (formatInfoOf vi.level i).getD (14 - j) false) ∧
    (∀ bits, mapGet v_versionInfoBitsByVersion (vi.version : Int) = some bits → bits.length = 18 → ∀ j, j < 18 →
      (drawnP vi).res i (Spec.Qr.versionPosA vi.modulWidth j).1 (Spec.Qr.versionPosA vi.modulWidth j).2 =
        bits.getD (17 - j) false ∧
      (drawnP vi).res i (Spec.Qr.versionPosB vi.modulWidth j).1 (Spec.Qr.versionPosB vi.modulWidth j).2 =
        bits.getD (17 - j) false) :=
  ⟨fun j hj => drawn_format hmem i hi j hj, fun bits hb hl j hj => drawn_version hmem i hi bits hb hl j hj⟩

/-! ## 5. The matrix layer and the property -/

/-- The matrix layer: a codeword sequence with the block structure of the standard for the row `vi`, drawn by
    `render` with whichever mask it selects (some index < 8), is accepted by the reference decoder, which reports
    the version and level of the row, the selected mask and the parse of the data bit stream. -/
theorem render_is_valid_symbol (vi : VersionInfo) (hmem : vi ∈ versionInfos) (data : List Nat) (color : Scheme)
    (r : QRCode) (mask : Nat) (hr : renderWithMask data vi color = .ok (r, mask))
    (ec : Nat) (lens : List Nat) (hiso : isoBlocks vi.version vi.level = some (ec, lens))
    (hlen : data.length = lens.foldl (· + ·) 0 + lens.length * ec) (h256 : ∀ c ∈ data, c < 256)
    (hL : ((Spec.Qr.deinterleave data.toArray lens ec).zip lens).all
      (fun (p : List Nat × Nat) => p.1.length == p.2 + ec) = true)
    (hRS : (Spec.Qr.deinterleave data.toArray lens ec).all (fun b => Spec.RS.qrField.valid 0 ec b) = true)
    (p : Spec.Qr.Parsed)
    (hparse : Spec.Qr.parseSegments vi.version (decDataBits (Spec.Qr.deinterleave data.toArray lens ec) lens)
      ((decDataBits (Spec.Qr.deinterleave data.toArray lens ec) lens).size / 4 + 2) 0 [] [] = .ok p) :
    mask < 8 ∧ r.dimension = vi.modulWidth ∧
    Spec.Qr.decode vi.modulWidth vi.modulWidth (fun x y => r.get x y) = .ok
      { version := vi.version, level := vi.level, mask := mask, modes := p.modes, numBlocks := lens.length,
        ecPerBlock := ec, dataCodewords := lens.foldl (· + ·) 0, totalCodewords := data.length,
        remainderBits := (dataPos vi).length - 8 * data.length,
        terminatorBits := p.terminatorBits, padCodewords := p.padCodewords, content := p.content } :=
  render_decodes vi hmem data color r mask hr ec lens hiso hlen h256 hL hRS p hparse

/-- C01 at the level of `encodeQR`: whatever symbol the pipeline returns (any content, level, encoding, colours;
    `vi` = the chosen version row, `mask` = the selected mask) is accepted by the reference decoder, which returns
    the content byte for byte as a single segment, the requested level, the chosen version and the selected mask,
    with zero remainder bits and conformant terminator and padding (implied by acceptance). -/
theorem C01_qr_symbol (content : Bytes) (level mode : Nat) (s : Scheme) (qr : QRCode) (vi : VersionInfo) (mask : Nat)
    (h : encodeQR content level mode s = .ok (qr, vi, mask)) :
    ∃ info, Spec.Qr.decode qr.dimension qr.dimension (fun x y => qr.get x y) = .ok info ∧
      info.content = content ∧ info.level = level ∧ info.version = vi.version ∧ info.mask = mask ∧ mask < 8 ∧
      qr.dimension = 17 + 4 * vi.version ∧ (∃ m, info.modes = [m]) ∧
      info.ecPerBlock = vi.errorCorrectionCodewordsPerBlock ∧
      info.numBlocks = vi.numberOfBlocksInGroup1 + vi.numberOfBlocksInGroup2 ∧
      info.dataCodewords = vi.totalDataBytes := by
  unfold encodeQR at h
  split at h
  · cases h
  · rename_i enc hg
    split at h
    · cases h
    · rename_i bits vi' he
      obtain ⟨hmem, hlvl, blocks, ec, lens, m, used, hsplit, hiso, hlen, h256, hL, hRS, hflat, hparse⟩ :=
        codeword_layer hg he
      obtain ⟨rr, hr⟩ := renderWithMask_ok (interleave blocks vi') vi' s
      obtain ⟨res, mk⟩ := rr
      simp only [hsplit, bind, Except.bind, hr, pure, Except.pure, Except.ok.injEq, Prod.mk.injEq] at h
      obtain ⟨hq, hv, hmk⟩ := h
      subst hv; subst hmk
      have hdb : decDataBits (Spec.Qr.deinterleave (interleave blocks vi').toArray lens ec) lens = bits.toArray := by
        unfold decDataBits
        exact congrArg List.toArray hflat
      obtain ⟨hm8, hdim, hdec⟩ := render_decodes vi' hmem (interleave blocks vi') s res mk hr ec lens hiso hlen h256
        hL hRS (streamResult m content used (vi'.totalDataBytes * 8)) (by rw [hdb]; exact hparse)
      have g := geo_of_mem hmem
      obtain ⟨_, hiso'⟩ := blocks_of_mem vi' hmem
      rw [hiso] at hiso'
      simp only [Option.some.injEq, Prod.mk.injEq] at hiso'
      obtain ⟨hec, hlens⟩ := hiso'
      obtain ⟨groups, hse, hsl, hsn, hst⟩ := versionInfos_spec hmem
      have hqd : Spec.Qr.decode qr.dimension qr.dimension (fun x y => qr.get x y) =
          Spec.Qr.decode vi'.modulWidth vi'.modulWidth (fun x y => res.get x y) := by
        rw [← hq]
        show Spec.Qr.decode res.dimension res.dimension (fun x y => res.get x y) = _
        rw [hdim]
      refine ⟨_, hqd.trans hdec, rfl, hlvl, rfl, rfl, hm8, ?_, ⟨m, rfl⟩, hec, ?_, ?_⟩
      · rw [← hq]
        show res.dimension = _
        rw [hdim, g.hdim]
      · show lens.length = _
        rw [hlens]; unfold rowLens; simp
      · show lens.foldl (· + ·) 0 = _
        rw [hlens]; unfold rowLens; rw [← hsl, hst]

/-- **C01.**  Every barcode `EncodeWithColor` returns — for every content, error correction level, encoding and
    colour scheme — passes every structural check of the reference decoder (finder patterns and separators, timing
    patterns, alignment patterns, dark module, both BCH-valid and equal format copies, both version copies, module
    count, zero remainder bits, block lengths, all Reed–Solomon blocks, terminator and pad codewords) and decodes to
    exactly the content, the requested level, the chosen version (the side is 17 + 4·version) and the mask that
    `render` selected, whichever of the eight it is.  (A successful call has `level ≤ 3` and `mode ≤ 3`:
    `C01_accepts_only_defined`.) -/
theorem C01_qr (content : Bytes) (level mode : Nat) (s : Scheme) (bc : Barcode)
    (h : encodeWithColor content level mode s = .ok bc) :
    ∃ info, Spec.Qr.decode bc.w bc.h bc.dark = .ok info ∧
      info.content = content ∧ info.level = level ∧ bc.w = 17 + 4 * info.version ∧ info.mask < 8 ∧
      ∃ qr vi mask, encodeQR content level mode s = .ok (qr, vi, mask) ∧ bc = qr.toBarcode ∧
        info.version = vi.version ∧ info.mask = mask := by
  unfold encodeWithColor at h
  cases he : encodeQR content level mode s with
  | error e => rw [he] at h; cases h
  | ok r =>
    obtain ⟨qr, vi, mask⟩ := r
    rw [he] at h
    simp only [Except.map, Except.ok.injEq] at h
    obtain ⟨info, h1, h2, h3, h4, h5, h6, h7, _⟩ := C01_qr_symbol content level mode s qr vi mask he
    refine ⟨info, ?_, h2, h3, ?_, by omega, qr, vi, mask, rfl, h.symm, h4, h5⟩
    · rw [← h]; exact h1
    · rw [← h, h4]; exact h7

/-- The statement in the guarded form of the property list (level 0..3 = L, M, Q, H; encoding 0..3 = Auto, Numeric,
    AlphaNumeric, Unicode). -/
theorem C01_qr_guarded (content : Bytes) (level mode : Nat) (_hl : level ≤ 3) (_hm : mode ≤ 3) (s : Scheme)
    (bc : Barcode) (h : encodeWithColor content level mode s = .ok bc) :
    ∃ info, Spec.Qr.decode bc.w bc.h bc.dark = .ok info ∧
      info.content = content ∧ info.level = level ∧ bc.w = 17 + 4 * info.version ∧ info.mask < 8 := by
  obtain ⟨info, h1, h2, h3, h4, h5, _⟩ := C01_qr content level mode s bc h
  exact ⟨info, h1, h2, h3, h4, h5⟩

/-- A successful call has a defined level and a defined encoding. -/
theorem C01_accepts_only_defined (content : Bytes) (level mode : Nat) (s : Scheme) (bc : Barcode)
    (h : encodeWithColor content level mode s = .ok bc) : level ≤ 3 ∧ mode ≤ 3 := by
  constructor
  · obtain ⟨info, _, _, _, _, _, qr, vi, mask, he, _⟩ := C01_qr content level mode s bc h
    obtain ⟨hmem, hl, _⟩ := encodeQR_size content level mode s qr vi mask he
    rw [← hl]; exact (mem_versionInfos_range hmem).2.2
  · by_cases hm : mode ≤ 3
    · exact hm
    · rw [encodeWithColor_undefined_mode content level mode s (by omega)] at h; cases h

/-! ## examples: the hypotheses are satisfiable -/

/-- "HELLO WORLD" -/
def hello : Bytes := [72, 69, 76, 76, 79, 32, 87, 79, 82, 76, 68]

/-- non-vacuity: "HELLO WORLD", level M, automatic encoding is accepted (the mode encoder accepts, so by the
    panic-freedom of the pipeline a barcode is returned), hence C01 applies to it -/
example : ∃ bc, encodeWithColor hello 1 0 scheme16 = .ok bc ∧
    ∃ info, Spec.Qr.decode bc.w bc.h bc.dark = .ok info ∧ info.content = hello ∧ info.level = 1 ∧
      bc.w = 17 + 4 * info.version ∧ info.mask < 8 := by
  obtain ⟨enc, hg, hcase⟩ := encodeWithColor_outcome hello 1 0 scheme16 (by decide)
  have henc : enc = encodeAuto := by
    have : getEncoder 0 = some encodeAuto := rfl
    rw [this] at hg; exact (Option.some.inj hg).symm
  rcases hcase with ⟨hnone, _⟩ | ⟨_, bc, hbc⟩
  · rw [henc] at hnone
    have : (encodeAuto hello 1).isSome = true := by decide +kernel
    rw [hnone] at this; cases this
  · obtain ⟨info, h1, h2, h3, h4, h5, _⟩ := C01_qr hello 1 0 scheme16 bc hbc
    exact ⟨bc, hbc, info, h1, h2, h3, h4, h5⟩

/-- the mode encoder puts "HELLO WORLD" at level M into version 1 (21×21), as an alphanumeric segment of 16 data
    codewords (kernel evaluation of the model; evaluating the whole pipeline and the reference decoder with
    `#eval` gives side 21, version 1, level 1, mask 0, modes [2], 0 remainder bits and the content back — the
    kernel needs about nine minutes for the same computation, so it is not part of the build) -/
example : (encodeAuto hello 1).map (fun r => (r.2.version, r.1.length, r.1.take 4)) =
    some (1, 128, [false, false, true, false]) := by decide +kernel

/-- a symbol with version information and six alignment patterns is in the domain too: 150 digits at level H need
    version 7 (45×45) -/
example : (encodeNumeric (List.replicate 150 (55 : UInt8)) 3).map (fun r => r.2.version) = some 7 := by
  decide +kernel

end BV.Props.C01
