/-
  C18 — BitList behaves as an append-only bit sequence.
  Only property statements live here; lemmas are in BV/Proofs/BitList.lean.
-/
import BV.Proofs.BitList
namespace BV.Props.C18
open BV BV.Model.BitList BV.Proofs.BitList

/-- the mutating operations of `utils.BitList` -/
inductive Op
  | addBit (v : Bool)
  | addBitList (bits : List Bool)     -- variadic `AddBit(bits...)`
  | addByte (x : Nat)
  | addBits (x : Int) (k : Nat)
  | setBit (i : Nat) (v : Bool)

/-- the implementation model -/
def step (b : BL) : Op → BL
  | .addBit v => b.addBit v
  | .addBitList bits => b.addBitsList bits
  | .addByte x => b.addByte x
  | .addBits x k => b.addBits x k
  | .setBit i v => b.setBit i v

/-- the specification: a growable sequence of booleans; setting an index at or beyond the length is outside
    the contract (`none`) -/
def stepSpec (s : List Bool) : Op → Option (List Bool)
  | .addBit v => some (s ++ [v])
  | .addBitList bits => some (s ++ bits)
  | .addByte x => some (s ++ Spec.BitSeq.lowBits (x : Int) 8)
  | .addBits x k => some (s ++ Spec.BitSeq.lowBits x k)
  | .setBit i v => if i < s.length then some (s.set i v) else none

def runSpec : List Op → List Bool → Option (List Bool)
  | [], s => some s
  | op :: rest, s => (stepSpec s op).bind (runSpec rest)

/-- a new list of length n holds n zero bits -/
theorem C18_new (n : Nat) : (new n).abs = List.replicate n false ∧ (new n).len = n :=
  ⟨abs_new n, rfl⟩

/-- the zero value is the empty sequence -/
theorem C18_empty : empty.abs = [] := abs_empty

/-- one step: every operation acts on the abstraction as the sequence operation, and keeps the invariant -/
theorem C18_step (b : BL) (op : Op) (s' : List Bool) (h : Inv b) (hs : stepSpec b.abs op = some s') :
    Inv (step b op) ∧ (step b op).abs = s' := by
  cases op with
  | addBit v =>
    simp only [stepSpec, Option.some.injEq] at hs
    exact ⟨(addBit_spec b v h).2.1, hs ▸ abs_addBit b v h⟩
  | addBitList bits =>
    simp only [stepSpec, Option.some.injEq] at hs
    have := addBitsList_spec bits b h
    exact ⟨this.1, hs ▸ this.2⟩
  | addByte x =>
    simp only [stepSpec, Option.some.injEq] at hs
    have := addByte_spec b x h
    exact ⟨this.1, hs ▸ this.2⟩
  | addBits x k =>
    simp only [stepSpec, Option.some.injEq] at hs
    have := addBits_spec b x k h
    exact ⟨this.1, hs ▸ this.2⟩
  | setBit i v =>
    simp only [stepSpec] at hs
    split at hs
    · rename_i hi
      simp only [Option.some.injEq] at hs
      have hc : i < b.count := by simpa [BL.abs] using hi
      have := setBit_spec b i v h hc
      exact ⟨this.1, hs ▸ this.2⟩
    · cases hs

/-- every history: for every sequence of operations whose `SetBit` indices stay below the current length,
    the list reached stands for exactly the sequence the specification computes -/
theorem C18_history (ops : List Op) : ∀ (b : BL) (s' : List Bool), Inv b →
    runSpec ops b.abs = some s' → Inv (ops.foldl step b) ∧ (ops.foldl step b).abs = s' := by
  induction ops with
  | nil =>
    intro b s' h hs
    simp only [runSpec, Option.some.injEq] at hs
    exact ⟨h, hs⟩
  | cons op rest ih =>
    intro b s' h hs
    simp only [runSpec] at hs
    cases h1 : stepSpec b.abs op with
    | none => simp [h1] at hs
    | some s1 =>
      simp only [h1, Option.bind_some] at hs
      have := C18_step b op s1 h h1
      simp only [List.foldl_cons]
      exact ih (step b op) s' this.1 (this.2 ▸ hs)

/-- observations in every reachable state: length, every bit below the length, and both byte views -/
theorem C18_observe (b : BL) (h : Inv b) :
    b.len = b.abs.length ∧
    (∀ i, i < b.len → b.getBit i = b.abs.getD i false) ∧
    b.getBytes = Spec.BitSeq.pack b.abs ∧
    b.iterateBytes = Spec.BitSeq.pack b.abs := by
  refine ⟨by simp [BL.abs, BL.len], fun i hi => getBit_abs b i hi, getBytes_eq_pack b h, ?_⟩
  rw [iterateBytes_eq_getBytes, getBytes_eq_pack b h]

/-- the property: starting from `NewBitList(n)` or the zero value, after any history inside the contract,
    all observations are those of the bit sequence -/
theorem C18_bitlist (n : Nat) (ops : List Op) (s' : List Bool)
    (hs : runSpec ops (List.replicate n false) = some s') :
    let b := ops.foldl step (new n)
    b.len = s'.length ∧ (∀ i, i < b.len → b.getBit i = s'.getD i false) ∧
    b.getBytes = Spec.BitSeq.pack s' ∧ b.iterateBytes = Spec.BitSeq.pack s' := by
  have h := C18_history ops (new n) s' (inv_new n) (by rw [abs_new]; exact hs)
  have := C18_observe _ h.1
  rw [h.2] at this
  exact this

theorem C18_bitlist_zero (ops : List Op) (s' : List Bool) (hs : runSpec ops [] = some s') :
    let b := ops.foldl step empty
    b.len = s'.length ∧ (∀ i, i < b.len → b.getBit i = s'.getD i false) ∧
    b.getBytes = Spec.BitSeq.pack s' ∧ b.iterateBytes = Spec.BitSeq.pack s' := by
  have h := C18_history ops empty s' inv_empty (by rw [abs_empty]; exact hs)
  have := C18_observe _ h.1
  rw [h.2] at this
  exact this

/-- non-vacuity: a concrete history inside the contract, crossing a byte boundary -/
example : runSpec [.addByte 0xA5, .addBits 5 3, .setBit 1 true, .addBit false] (List.replicate 3 false) =
    some [false, true, false, true, false, true, false, false, true, false, true, true, false, true, false] := by
  decide

end BV.Props.C18
