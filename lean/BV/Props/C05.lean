/-
  C05 — Code 128: start character, data characters in code sets A/B/C with all switches, modulo-103 check character,
  stop pattern; interpreting the characters gives back exactly the content.  (Also the Code 128 part of C14.)
  Only property statements live here; lemmas are in BV/Proofs/Code128.lean (symbol level: the encoder loop against
  `Spec.OneD.c128Interpret`) and BV/Proofs/Code128Bits.lean (module level: tables, `Spec.OneD.c128Decode`).

  Vocabulary from the proof files:
  * `InAlpha r`      `r < 128 ∨ 0xF1 ≤ r ≤ 0xF4` — ASCII and the four FNC placeholders U+00F1..U+00F4
  * `setOf start`    code set of a start value: 103 ↦ A, 104 ↦ B, 105 ↦ C
  * `expand true ws` the module list of an element-width list `ws` (bar first, alternating)
-/
import BV.Proofs.Code128Bits
namespace BV.Props.C05
open BV BV.Model.Code128 BV.Spec.OneD BV.Proofs.Code128 BV.Proofs.Bars

/-- **Symbol level, all rune lists.** For every non-empty rune list over the alphabet (no upper bound on the length
    is needed here) `getCodeIndexList` never returns nil; its result is a start symbol 103/104/105 followed by data
    symbols that are all `< 103`, and the reference interpreter of ISO/IEC 15417 (code sets A, B, C, all code-set
    switches, FNC1–4), started in the code set of the start symbol, reads the data symbols as exactly the input. -/
theorem C05_symbols (rs : List Nat) (h1 : 1 ≤ rs.length) (ha : ∀ r ∈ rs, InAlpha r) :
    ∃ idxs start, getCodeIndexList rs = some idxs ∧ idxs.head? = some start ∧
      (start = 103 ∨ start = 104 ∨ start = 105) ∧ (∀ v ∈ idxs.tail, v < 103) ∧
      c128Interpret (setOf start) idxs.tail = some rs := by
  obtain ⟨start, data, h, hs, hd, hi⟩ := symbols_spec rs (by intro h; subst h; simp at h1) ha
  exact ⟨start :: data, start, h, rfl, hs, hd, hi⟩

/-- **The tables.** The 107 generated module patterns are the expansions of the reference width table
    (ISO/IEC 15417 Table 1); the 106 start/data patterns have 11 modules, the stop pattern 13. -/
theorem C05_table :
    Gen.Code128.v_encodingTable = c128Table.map (expand true) ∧
    (∀ v < 106, (pattern v).length = 11) ∧ (pattern 106).length = 13 :=
  ⟨table_expand, fun _ h => pattern_length h, cert_stop.1⟩

/-- **Module level, with check character (`Encode`); contains C14 for Code 128.** For every content of 1..80 runes
    over the alphabet the encoder succeeds; the module row is the concatenation of the reference patterns of the
    symbols from `getCodeIndexList`, the modulo-103 check character and the stop pattern (so the width is
    `11 * (n + 1) + 13`); the reference decoder accepts the row, reads exactly these symbol values, finds the check
    character correct and interprets the data as exactly the content; `CheckSum()` is the reference check value, which
    is the value of the drawn check character. -/
theorem C05_roundtrip (content : Bytes) (h1 : 1 ≤ (runeList content).length)
    (h80 : (runeList content).length ≤ 80) (ha : ∀ r ∈ runeList content, InAlpha r) :
    ∃ bc idxs info chk,
      encode content = .ok bc ∧ getCodeIndexList (runeList content) = some idxs ∧
      chk = c128CheckValue (idxs.headD 0) idxs.tail ∧
      bc.row0 = ((idxs ++ [chk]).map (fun v => expand true (c128Table.getD v []))).flatten ++
        expand true (c128Table.getD 106 []) ∧
      bc.w = 11 * (idxs.length + 1) + 13 ∧
      c128Decode true bc.row0 = .ok info ∧
      info.runes = runeList content ∧ info.symbols = idxs ++ [chk] ∧ info.check = some chk ∧
      bc.checksum = some (chk : Int) ∧ bc.content = content := by
  obtain ⟨start, data, hidx, hs, hd, hi⟩ :=
    symbols_spec (runeList content) (by intro h; rw [h] at h1; simp at h1) ha
  have hdec := decode_symbols true start data _ hs hd hi
  simp only [if_true] at hdec
  have hck := checksum_eq start data
  refine ⟨_, start :: data, { runes := runeList content, symbols := start :: data ++ [c128CheckValue start data], check := some (c128CheckValue start data) }, c128CheckValue start data, encode_eq content _ h1 h80 hidx, hidx, rfl, ?_, ?_, ?_,
    rfl, rfl, rfl, ?_, rfl⟩
  · rw [row0_mk1D, hck, symbolBits_eq_expand]
  · rw [w_mk1D, hck, symbolBits_length]
    · simp
    · intro v hv
      have hcl : c128CheckValue start data < 103 := by unfold c128CheckValue; exact Nat.mod_lt _ (by omega)
      simp only [List.cons_append, List.mem_cons, List.mem_append, List.not_mem_nil, or_false] at hv
      rcases hv with rfl | hv | rfl
      · omega
      · have := hd v hv; omega
      · omega
  · rw [row0_mk1D, hck]; exact hdec
  · rw [checksum_mk1D, hck]

/-- **Module level, no-checksum variant (`EncodeWithoutChecksum`).** As `C05_roundtrip`, but there is no check
    character in the row and `CheckSum()` is absent. -/
theorem C05_roundtrip_noChecksum (content : Bytes) (h1 : 1 ≤ (runeList content).length)
    (h80 : (runeList content).length ≤ 80) (ha : ∀ r ∈ runeList content, InAlpha r) :
    ∃ bc idxs info,
      encodeWithoutChecksum content = .ok bc ∧ getCodeIndexList (runeList content) = some idxs ∧
      bc.row0 = (idxs.map (fun v => expand true (c128Table.getD v []))).flatten ++
        expand true (c128Table.getD 106 []) ∧
      bc.w = 11 * idxs.length + 13 ∧
      c128Decode false bc.row0 = .ok info ∧
      info.runes = runeList content ∧ info.symbols = idxs ∧ info.check = none ∧
      bc.checksum = none ∧ bc.content = content := by
  obtain ⟨start, data, hidx, hs, hd, hi⟩ :=
    symbols_spec (runeList content) (by intro h; rw [h] at h1; simp at h1) ha
  have hdec := decode_symbols false start data _ hs hd hi
  simp only [Bool.false_eq_true, if_false, List.append_nil] at hdec
  refine ⟨_, start :: data, { runes := runeList content, symbols := start :: data, check := none }, encodeWithoutChecksum_eq content _ h1 h80 hidx, hidx, ?_, ?_, ?_,
    rfl, rfl, rfl, rfl, rfl⟩
  · rw [row0_mk1D, symbolBits_eq_expand]
  · rw [w_mk1D, symbolBits_length]
    intro v hv
    rcases List.mem_cons.1 hv with rfl | hv
    · omega
    · have := hd v hv; omega
  · rw [row0_mk1D]; exact hdec

/-- **C14 for Code 128.** `CheckSum()` of a Code 128 symbol made with `Encode` is the modulo-103 value that the
    standard prescribes for its start and data characters, which is the value of the check character drawn in the
    symbol and read back by the reference decoder; the no-checksum variant reports no checksum. -/
theorem C14_code128 (content : Bytes) (h1 : 1 ≤ (runeList content).length)
    (h80 : (runeList content).length ≤ 80) (ha : ∀ r ∈ runeList content, InAlpha r) :
    (∃ bc idxs info,
      encode content = .ok bc ∧ getCodeIndexList (runeList content) = some idxs ∧
      c128Decode true bc.row0 = .ok info ∧
      bc.checksum = some ((c128CheckValue (idxs.headD 0) idxs.tail : Nat) : Int) ∧
      info.check = some (c128CheckValue (idxs.headD 0) idxs.tail) ∧
      info.symbols.getLast? = some (c128CheckValue (idxs.headD 0) idxs.tail)) ∧
    (∃ bc, encodeWithoutChecksum content = .ok bc ∧ bc.checksum = none) := by
  obtain ⟨bc, idxs, info, chk, he, hi, hc, _, _, hd, _, hs, hck, hcs, _⟩ := C05_roundtrip content h1 h80 ha
  obtain ⟨bc', _, _, he', _, _, _, _, _, _, _, hn, _⟩ := C05_roundtrip_noChecksum content h1 h80 ha
  subst hc
  exact ⟨⟨bc, idxs, info, he, hi, hd, hcs, hck, by rw [hs]; simp⟩, ⟨bc', he', hn⟩⟩

/-- **Rejection.** An empty content, more than 80 runes, or a rune outside the alphabet (this includes every invalid
    UTF-8 byte, which Go reads as U+FFFD) is answered with an error by both variants. -/
theorem C05_rejects (content : Bytes)
    (h : (runeList content).length = 0 ∨ 80 < (runeList content).length ∨ ∃ r ∈ runeList content, ¬ InAlpha r) :
    encode content = .error .rejected ∧ encodeWithoutChecksum content = .error .rejected :=
  encode_reject content h

/-- **Totality.** Both variants either return a symbol or an error, never panic, on every byte string; they accept
    exactly the contents of 1..80 runes over the alphabet. -/
theorem C05_accepts_iff (content : Bytes) :
    ((∃ bc, encode content = .ok bc) ↔
      (1 ≤ (runeList content).length ∧ (runeList content).length ≤ 80 ∧ ∀ r ∈ runeList content, InAlpha r)) ∧
    ((∃ bc, encodeWithoutChecksum content = .ok bc) ↔
      (1 ≤ (runeList content).length ∧ (runeList content).length ≤ 80 ∧ ∀ r ∈ runeList content, InAlpha r)) ∧
    encode content ≠ .error .panic ∧ encodeWithoutChecksum content ≠ .error .panic := by
  by_cases hok : 1 ≤ (runeList content).length ∧ (runeList content).length ≤ 80 ∧ ∀ r ∈ runeList content, InAlpha r
  · obtain ⟨bc, _, _, _, h, _⟩ := C05_roundtrip content hok.1 hok.2.1 hok.2.2
    obtain ⟨bc', _, _, h', _⟩ := C05_roundtrip_noChecksum content hok.1 hok.2.1 hok.2.2
    refine ⟨⟨fun _ => hok, fun _ => ⟨bc, h⟩⟩, ⟨fun _ => hok, fun _ => ⟨bc', h'⟩⟩, ?_, ?_⟩
    · rw [h]; intro hh; cases hh
    · rw [h']; intro hh; cases hh
  · have hrej : (runeList content).length = 0 ∨ 80 < (runeList content).length ∨
        ∃ r ∈ runeList content, ¬ InAlpha r := by
      by_cases h0 : (runeList content).length = 0
      · exact Or.inl h0
      · by_cases h8 : 80 < (runeList content).length
        · exact Or.inr (Or.inl h8)
        · right; right
          apply Classical.byContradiction
          intro hne
          apply hok
          refine ⟨by omega, by omega, fun r hr => ?_⟩
          apply Classical.byContradiction
          intro hr'
          exact hne ⟨r, hr, hr'⟩
    obtain ⟨e1, e2⟩ := C05_rejects content hrej
    refine ⟨⟨fun ⟨bc, h⟩ => ?_, fun h => absurd h hok⟩, ⟨fun ⟨bc, h⟩ => ?_, fun h => absurd h hok⟩, ?_, ?_⟩
    · rw [e1] at h; cases h
    · rw [e2] at h; cases h
    · rw [e1]; intro hh; cases hh
    · rw [e2]; intro hh; cases hh

/-! ### the hypotheses are satisfiable: a content mixing lower case, digits (set C), a control character (set A) and
    the FNC1 / FNC4 placeholders (`"aB123456\x01ñ7ô"` in UTF-8) -/

def sample : Bytes := [97, 66, 49, 50, 51, 52, 53, 54, 1, 0xC3, 0xB1, 55, 0xC3, 0xB4]

example : 1 ≤ (runeList sample).length ∧ (runeList sample).length ≤ 80 ∧ ∀ r ∈ runeList sample, InAlpha r := by
  decide

example : ∃ bc, encode sample = .ok bc := (C05_accepts_iff sample).1.2 (by decide)

example : runeList sample = [97, 66, 49, 50, 51, 52, 53, 54, 1, 241, 55, 244] ∧
    getCodeIndexList (runeList sample) = some [104, 65, 34, 99, 12, 34, 56, 101, 65, 102, 23, 101] := by
  decide

end BV.Props.C05
