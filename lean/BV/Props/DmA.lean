/-
  DmA — DataMatrix (properties C02, C10, C12, C13): the image of every accepted content is a valid
  ISO/IEC 16022 ECC 200 square symbol that decodes to the content.
  Statements only; proofs in BV/Proofs/Dm*.lean.

  Structure of the argument
    1 `ascii_roundtrip`, `ascii_alphabet`      text stage (`encodeText`) against `Spec.decodeAscii`
    2 `padding_spec`, `padded_roundtrip`       253-state padding
    3 `size_choice`, `accepted_iff`            smallest size, rejection, no panic (C13, C10)
    4 `table_certificates`                     generated table = ISO attribute table (C12)
    5 `calcECC_blocks`                         interleaved blocks, check symbols = `rsEncode` of the block
    6 `placement_two_phase`, `placement_reference`, `placement_exactly_once`   Annex F placement (24 kernel certificates)
    7 `merge_frame`                            finder L, clock tracks, region mapping (24 kernel certificates)
    ∑ `C02_accepted`, `C02_decodes`            the reference decoder returns the content

  The only ingredient not proved here is the Reed–Solomon validity of `utils.ReedSolomonEncoder` (property C17):
  it is the explicit hypothesis `RSEncodeValid` of `C02_decodes`; everything else (`C02_accepted`) is unconditional.
-/
import BV.Proofs.DmDecode
namespace BV.Props.DmA
open BV BV.Model BV.Model.Datamatrix BV.Spec.Datamatrix
open BV.Proofs.DmAscii BV.Proofs.DmSize BV.Proofs.DmEcc BV.Proofs.DmSym BV.Proofs.DmPlaceM BV.Proofs.DmPlaceS
open BV.Proofs.DmTags BV.Proofs.DmFrame BV.Proofs.DmRead BV.Proofs.DmMergeSym BV.Proofs.DmDecode

/-! ### 1. ASCII encodation -/

/-- **Item 1.**  For every content `c`, every start position `pos` and every codeword list `tail` behind the
    encodation: if the reference decodes `tail` (standing at the position behind the encodation) to `(s, p)`,
    it decodes `encodeText c ++ tail` to `(c ++ s, p)`.  In particular (`tail = []`, or `tail` = any valid
    padding, which decodes to `([], p)`) the encodation decodes byte for byte to `c`:
    greedy digit pairs `130 + 10a + b`, upper shift `235, c - 127` for bytes ≥ 128, `c + 1` otherwise. -/
theorem ascii_roundtrip (c : Bytes) (pos : Nat) (tail : List Nat) :
    decodeAscii pos (toNats (encodeText c) ++ tail) =
      (decodeAscii (pos + (encodeText c).length) tail).map (fun (s, p) => (c ++ s, p)) :=
  dec_encodeText c pos tail

/-- item 1 with nothing behind the encodation: content `c`, zero pad codewords -/
theorem ascii_roundtrip_nopad (c : Bytes) (pos : Nat) :
    decodeAscii pos (toNats (encodeText c)) = .ok (c, 0) :=
  dec_encodeText_nopad c pos

/-- **Item 1, alphabet.**  `encodeText` never emits the pad codeword 129 nor any codeword outside
    1…128, 130…229, 235; and (`asciiAlphabet`) every 235 is followed by an operand in 1…128. -/
theorem ascii_alphabet (c : Bytes) :
    asciiAlphabet (toNats (encodeText c)) = true ∧
    ∀ v ∈ toNats (encodeText c), (1 ≤ v ∧ v ≤ 128) ∨ (130 ≤ v ∧ v ≤ 229) ∨ v = 235 :=
  ⟨alphabet_encodeText c, alphabet_mem _ (alphabet_encodeText c)⟩

example : toNats (encodeText [65, 49, 50, 51, 200, 57]) = [66, 142, 52, 235, 73, 58] := by decide
example : decodeAscii 1 [66, 142, 52, 235, 73, 58] = .ok ([65, 49, 50, 51, 200, 57], 0) :=
  ascii_roundtrip_nopad [65, 49, 50, 51, 200, 57] 1

/-! ### 2. padding -/

/-- **Item 2.**  For `data.length ≤ n`, `addPadding data n` has length `n` and is `data` followed by
    `padding |data| n`: nothing if `|data| = n`, otherwise 129 and then, for every following 1-based position
    `q`, the 253-state value `padValue q` of the standard; and the reference decoder standing at the first pad
    accepts exactly this tail, counting `n - |data|` pad codewords. -/
theorem padding_spec (data : Bytes) (n : Nat) (h : data.length ≤ n) :
    addPadding data (n : Int) = data ++ padding data.length n ∧
    (addPadding data (n : Int)).length = n ∧
    padding data.length n =
      (if data.length < n then 129 :: (List.range' 0 (n - data.length - 1)).map
        (fun i => UInt8.ofNat (padValue (data.length + 2 + i))) else []) ∧
    decodeAscii (data.length + 1) (toNats (padding data.length n)) = .ok ([], n - data.length) := by
  refine ⟨addPadding_eq data n h, ?_, ?_, dec_padding _ n h⟩
  · rw [addPadding_eq data n h, List.length_append, padding_length _ _ h]; omega
  · unfold padding padTail
    split
    · congr 2
    · rfl

/-- items 1 and 2 composed: the padded encodation decodes to the content with `n - |encodeText c|` pads -/
theorem padded_roundtrip (c : Bytes) (n : Nat) (h : (encodeText c).length ≤ n) :
    decodeAscii 1 (toNats (addPadding (encodeText c) (n : Int))) = .ok (c, n - (encodeText c).length) :=
  dec_padded c n h

example : addPadding [66, 67] 5 = [66, 67, 129, 220, 115] := by decide

/-! ### 3. size choice, acceptance (C13, C10) -/

/-- **Item 3 (C13, C10).**  With `m` the number of codewords of the ASCII encodation of `c`:
    * if `m > 1558` the encoder returns the error "to much data" (`.rejected`), it does not panic;
    * if `m ≤ 1558` it returns a barcode; the size used is the first table row `s` (rows before it, `pre`, all
      have a smaller capacity than `m`) whose capacity is at least `m`; no row of the table that holds `m`
      codewords has fewer rows or a smaller capacity; the barcode is `s.rows × s.rows`, of kind "DataMatrix",
      two-dimensional, with content `c`, the requested colour scheme and no checksum. -/
theorem size_choice (c : Bytes) (color : Scheme) :
    (1558 < (encodeText c).length → encodeWithColor c color = .error .rejected) ∧
    ((encodeText c).length ≤ 1558 → ∃ bc s pre post,
      encodeWithColor c color = .ok bc ∧ codeSizes = pre ++ s :: post ∧
      ((encodeText c).length : Int) ≤ s.dataCodewords ∧
      (∀ t ∈ pre, t.dataCodewords < ((encodeText c).length : Int)) ∧
      (∀ t ∈ codeSizes, ((encodeText c).length : Int) ≤ t.dataCodewords →
        s.rows ≤ t.rows ∧ s.dataCodewords ≤ t.dataCodewords) ∧
      (bc.w : Int) = s.columns ∧ (bc.h : Int) = s.rows ∧ s.rows = s.columns ∧
      bc.kind = "DataMatrix" ∧ bc.dims = 2 ∧ bc.content = c ∧ bc.scheme = color ∧ bc.checksum = none) := by
  refine ⟨encode_rejected c color, fun hlen => ?_⟩
  obtain ⟨bc, s, a, hok, hacc⟩ := encode_accepted c color hlen
  obtain ⟨s', pre, post, hch, htab, hfit, hpre, hmin⟩ := chooseSize_some _ hlen
  rw [hacc.chosen] at hch
  cases hch
  obtain ⟨_, _, _, _, hag⟩ := pair_certs hacc.pair
  obtain ⟨hrows, hcols, _⟩ := agrees_facts hag
  exact ⟨bc, s, pre, post, hok, htab, hfit, hpre, hmin, by rw [hacc.width, hcols], by rw [hacc.height, hrows],
    by rw [hrows, hcols], hacc.kind, hacc.dims, hacc.content, hacc.scheme, hacc.checksum⟩

/-- **C10.**  The encoder accepts a content iff its ASCII encodation has at most 1558 codewords; otherwise it
    returns the "rejected" error — it never panics. -/
theorem accepted_iff (c : Bytes) (color : Scheme) :
    ((∃ bc, encodeWithColor c color = .ok bc) ↔ (encodeText c).length ≤ 1558) ∧
    (¬ (encodeText c).length ≤ 1558 → encodeWithColor c color = .error .rejected) := by
  refine ⟨⟨fun ⟨bc, h⟩ => ?_, fun h => ?_⟩, fun h => encode_rejected c color (by omega)⟩
  · rcases Nat.lt_or_ge 1558 (encodeText c).length with h1 | h1
    · rw [encode_rejected c color h1] at h; cases h
    · exact h1
  · obtain ⟨bc, _, _, hok, _⟩ := encode_accepted c color h
    exact ⟨bc, hok⟩

example : (encodeText (List.replicate 3116 48)).length = 1558 := by decide +kernel
example : ∃ bc, encodeWithColor (List.replicate 3116 48) scheme16 = .ok bc :=
  (accepted_iff _ _).1.2 (by decide +kernel)
example : encodeWithColor (List.replicate 3117 48) scheme16 = .error .rejected :=
  (accepted_iff _ _).2 (by decide +kernel)

/-! ### 4. table certificates (C12) -/

/-- **Item 4 (C12).**  The 24 generated rows, in order, agree with the 24 rows of the standard's attribute table
    (`agrees`: symbol size, regions per side, region size, mapping matrix size = `MatrixRows`/`MatrixColumns`,
    data codewords, check codewords = `ECCCount`, blocks, check codewords per block, data codewords of every
    block — including 144×144: 8×156 + 2×155); and the Galois field is GF(256) with polynomial 301 = 0x12D,
    generator base 1.  (Certificates: kernel evaluation over the table.) -/
theorem table_certificates :
    codeSizes.length = 24 ∧ attrTable.length = 24 ∧
    (∀ i, i < 24 → agrees (codeSizes.getD i default) (attrTable.getD i default) = true) ∧
    (∃ s ∈ codeSizes, s.rows = 144 ∧ s.blockCount = 10 ∧ s.errorCorrectionCodewordsPerBlock = 62 ∧
      (List.range 10).map (fun (b : Nat) => s.dataCodewordsForBlock (b : Int)) =
        [156, 156, 156, 156, 156, 156, 156, 156, 155, 155] ∧ s.dataCodewords = 8 * 156 + 2 * 155) ∧
    Gen.Datamatrix.call_NewGaloisField = [[301, 256, 1]] ∧
    ecField = GF.newField Spec.RS.dmField.pp Spec.RS.dmField.size 1 := by
  refine ⟨codeSizes_length, attrTable_length, ?_, blocks_144, field_params, ecField_eq⟩
  intro i hi
  have hmem : (codeSizes.getD i default, attrTable.getD i default) ∈ sizePairs := by
    rw [sizePairs_index]
    exact List.mem_map.mpr ⟨i, List.mem_range.mpr hi, rfl⟩
  exact (pair_certs hmem).2.2.2.2

/-! ### 5. error correction -/

/-- **Item 5.**  For every table row `s` and every data of `s.DataCodewords()` bytes, `calcECC` does not panic and
    returns the data followed by `s.ECCCount` bytes `ecc`; de-interleaving as the standard prescribes (block `b`
    = every `BlockCount`-th codeword from `b` on) gives for every block its `DataCodewordsForBlock(b)` data
    codewords and, as its check codewords, the first `k = ErrorCorrectionCodewordsPerBlock` symbols (as bytes)
    that `ReedSolomonEncoder.Encode(block data, k)` returns.  (That these are exactly `k` symbols < 256 forming a
    valid codeword is C17.) -/
theorem calcECC_blocks (s : CodeSize) (hs : s ∈ codeSizes) (data : Bytes)
    (hlen : data.length = s.dataCodewords.toNat) :
    ∃ ecc : Bytes, calcECC data s = .ok (data ++ ecc) ∧ ecc.length = s.eccCount.toNat ∧
      ∀ b, b < s.blockCount.toNat →
        (everyNth s.blockCount.toNat b (toNats data)).length = (s.dataCodewordsForBlock (b : Int)).toNat ∧
        everyNth s.blockCount.toNat b (toNats ecc) =
          ((GF.rsEncode ecField (everyNth s.blockCount.toNat b (toNats data))
            s.errorCorrectionCodewordsPerBlock.toNat).take s.errorCorrectionCodewordsPerBlock.toNat).map (· % 256) :=
  BV.Proofs.DmEcc.calcECC_blocks s hs data hlen

example : (match calcECC [66, 142, 129] (codeSizes.getD 0 default) with
    | .ok l => l == [66, 142, 129, 170, 115, 225, 118, 63] | .error _ => false) = true := by
  decide +kernel
/-- on this instance the check symbols are what C17 promises: `data ++ ecc` is a valid RS codeword -/
example : Spec.RS.dmField.valid 1 5 ([66, 142, 129] ++ GF.rsEncode ecField [66, 142, 129] 5) = true := by
  decide +kernel

/-! ### 6. placement -/

/-- **Item 6, two-phase lemma (general, for every matrix size).**  If the symbolic run `DmSym.run` over an
    `nrow × ncol` mapping matrix for `ncw` codewords answers `some st`, then for EVERY data array of `ncw` bytes
    `SetValues` on a fresh layout does not panic (no "already occupied", no index out of range, fuel
    sufficient), and the layout it returns has as matrix the data painted through the tag map of `st`
    (`paint data (tagAt st.log i)`: tag `10·chr + bit` ↦ bit `bit` of codeword `chr`, tag 1 ↦ dark, tag 0 ↦ light):
    which module receives which codeword bit does not depend on the data values. -/
theorem placement_two_phase (size : CodeSize) (color : Scheme) (nrow ncol ncw : Nat)
    (hr : size.matrixRows = (nrow : Int)) (hc : size.matrixColumns = (ncol : Int)) (st : PS)
    (hrun : run nrow ncol ncw = some st) (data : Array UInt8) (hn : data.size = ncw) :
    ∃ l, (newCodeLayout size color).setValues data = .ok l ∧ l.size = size ∧ l.color = color ∧
      l.matrix = Array.ofFn (n := BV.Proofs.DmPlaceM.cap (nrow * ncol)) (fun i => paint data (tagAt st.log i)) ∧
      l.occupy = Array.ofFn (n := BV.Proofs.DmPlaceM.cap (nrow * ncol)) (fun i => st.occ.testBit i) := by
  obtain ⟨l, h1, h2⟩ := setValues_of_run (color := color) hr hc hrun hn
  exact ⟨l, h1, h2.hsize, h2.hcolor, (relM_arrays h2).1, (relM_arrays h2).2⟩

/-- **Item 6, reference side (general).**  If the symbolic run answers `some st`, the Annex F placement program
    of the reference succeeds on that matrix size, places `ncw` codewords, and its array is the tag map of `st`. -/
theorem placement_reference (nrow ncol ncw : Nat) (st : PS) (hrun : run nrow ncol ncw = some st) :
    placement nrow ncol = some (arrOf (nrow * ncol) st, ncw) :=
  placement_of_run hrun

/-- **Item 6, exactly once (general).**  A successful symbolic run writes no module twice and only modules inside
    the matrix; its tags are, in order, bits 1…8 of the codewords 1…`ncw` — followed, if the lower right corner
    stayed free, by the two dark modules (tag 1) of the fixed pattern; and every module of the matrix has a tag,
    except the two light modules of that fixed pattern (left of and above the corner module).  Every
    (codeword, bit) pair therefore sits on exactly one module and every module carries exactly one of them
    (or belongs to the fixed pattern). -/
theorem placement_exactly_once (nrow ncol ncw : Nat) (st : PS) (hrun : run nrow ncol ncw = some st) :
    (st.log.map Prod.fst).Nodup ∧ (∀ p ∈ st.log, p.1 < nrow * ncol) ∧
    ((st.log.length = nrow * ncol ∧ st.log.map Prod.snd = tagsRev ncw) ∨
     (st.log.length + 2 = nrow * ncol ∧ st.log.map Prod.snd = 1 :: 1 :: tagsRev ncw ∧
      tagAt st.log (nrow * ncol - 1) = 1 ∧ tagAt st.log (nrow * ncol - 1 - ncol - 1) = 1 ∧
      tagAt st.log (nrow * ncol - 1 - 1) = 0 ∧ tagAt st.log (nrow * ncol - 1 - ncol) = 0)) ∧
    (∀ i, i < nrow * ncol → tagAt st.log i ≠ 0 ∨
      (st.log.length + 2 = nrow * ncol ∧ (i = nrow * ncol - 1 - 1 ∨ i = nrow * ncol - 1 - ncol))) :=
  ⟨(run_inv hrun).1, (run_inv hrun).2.1, run_length hrun, fun i hi => run_covers hrun i hi⟩

example : tagsRev 2 = [28, 27, 26, 25, 24, 23, 22, 21, 18, 17, 16, 15, 14, 13, 12, 11] := by decide

/-- **Item 6, the 24 certificates** (kernel evaluation, `BV/Proofs/DmCert.lean`): for the mapping matrix of every
    standard size the symbolic run succeeds with `dataCW + eccCW` codewords.  Together with the three theorems
    above: for each of the 24 sizes `SetValues` never panics, its tag map is the placement array of Annex F
    (including the four corner cases and the fixed lower-right pattern), and covers every module exactly once. -/
theorem placement_certificates :
    ∀ a ∈ attrTable, ∃ st, run a.mapping a.mapping (a.dataCW + a.eccCW) = some st ∧
      placement a.mapping a.mapping = some (arrOf (a.mapping * a.mapping) st, a.dataCW + a.eccCW) := by
  intro a ha
  obtain ⟨st, hst⟩ := Option.isSome_iff_exists.mp (BV.Proofs.DmCert.run_table a ha)
  exact ⟨st, hst, placement_of_run hst⟩

example : (run 8 8 8).isSome = true := by decide +kernel
example : ∃ st, run 10 10 12 = some st ∧ placement 10 10 = some (arrOf 100 st, 12) :=
  placement_certificates ⟨12, 10, 1, 10, 5, 7, 1⟩ (by decide)

/-- read-back: what was painted through the tag map of a successful run is read back, codeword for codeword,
    by the reference through its placement array -/
theorem placement_read_back (nrow ncol ncw : Nat) (st : PS) (hrun : run nrow ncol ncw = some st)
    (data : Array UInt8) (hn : data.size = ncw) (mm : Nat → Nat → Bool)
    (hmm : ∀ i, i < nrow * ncol → mm (i / ncol) (i % ncol) = paint data (tagAt st.log i)) :
    ∃ cw, readCodewords nrow ncol (arrOf (nrow * ncol) st) ncw mm = some cw ∧
      cw.toList = data.toList.map UInt8.toNat :=
  read_back hrun data hn mm hmm

/-! ### 7. merge -/

/-- **Item 7** (24 kernel certificates, `BV/Proofs/DmMergeCert.lean`, plus the general simulation of `Merge` by its
    symbolic run).  For every table row `s` with its partner `a` of the standard and every layout of that size
    (with an allocated matrix): `Merge` does not panic, keeps size and colour, and in the image it returns every
    data region is bordered by the solid L (left, bottom) and the alternating clock track (top, right) exactly as
    `Spec.finderOk` demands, while the data regions, borders removed and butted together
    (`Spec.mappingModule`), are the mapping matrix of the layout. -/
theorem merge_frame (i : Nat) (hi : i < 24) (l : CodeLayout) (hl : l.size = codeSizes.getD i default)
    (hmat : (attrTable.getD i default).mapping * (attrTable.getD i default).mapping ≤ l.matrix.size) :
    ∃ c, l.merge = .ok c ∧ c.size = l.size ∧ c.color = l.color ∧ c.content = [] ∧
      finderOk (attrTable.getD i default) (darkOf c) = true ∧
      ∀ row col, row < (attrTable.getD i default).mapping → col < (attrTable.getD i default).mapping →
        mappingModule (attrTable.getD i default) (darkOf c) row col =
          l.matrix.getD (col + row * (attrTable.getD i default).mapping) false := by
  have hmem : (codeSizes.getD i default, attrTable.getD i default) ∈ sizePairs := by
    rw [sizePairs_index]
    exact List.mem_map.mpr ⟨i, List.mem_range.mpr hi, rfl⟩
  obtain ⟨hcert, _, _, _, hag⟩ := pair_certs hmem
  obtain ⟨c, h1, h2, h3, h4, h5, h6⟩ := BV.Proofs.DmFrame.merge_frame _ _ hag hcert l hl hmat
  exact ⟨c, h1, by rw [h2, hl], h3, h4, h5, h6⟩

/-! ### C02 assembled -/

/-- **C02 without the Reed–Solomon check (unconditional).**  For every content whose ASCII encodation has at most
    1558 codewords the encoder returns a barcode `bc` (no panic) which is, for the chosen table row `s` and its
    partner `a` in the standard's table (`Accepted`): `a.size × a.size`, kind "DataMatrix"; `finderOk a bc.dark`
    holds; the reference's placement for `a.mapping` succeeds with `dataCW + eccCW` codewords and reading
    `bc.dark` through it returns exactly the padded ASCII encodation followed by the check codewords computed by
    `calcECC`; and `decodeAscii` of the data codewords is the content, with `dataCW - |encodeText c|` pads. -/
theorem C02_accepted (c : Bytes) (color : Scheme) (hlen : (encodeText c).length ≤ 1558) :
    ∃ bc s a, encodeWithColor c color = .ok bc ∧ Accepted c color bc s a :=
  encode_accepted c color hlen

/-- the unconditional part under the name the project uses for partial results -/
theorem C02_partial (c : Bytes) (color : Scheme) (hlen : (encodeText c).length ≤ 1558) :
    ∃ bc s a, encodeWithColor c color = .ok bc ∧ Accepted c color bc s a :=
  C02_accepted c color hlen

/-- The full statement of C02 for the model: the reference decoder accepts the image and returns the content
    (and the attributes of the size). -/
def C02_statement : Prop :=
  ∀ (c : Bytes) (color : Scheme), (encodeText c).length ≤ 1558 →
    ∃ bc a, encodeWithColor c color = .ok bc ∧ a ∈ attrTable ∧
      decode bc.w bc.h bc.dark = .ok
        { rows := a.size, cols := a.size, regions := a.regionsPerSide * a.regionsPerSide,
          regionsPerSide := a.regionsPerSide, mappingSize := a.mapping, dataCodewords := a.dataCW,
          eccCodewords := a.eccCW, blocks := a.blocks, padCount := a.dataCW - (encodeText c).length,
          content := c }

/-- **C02, given C17.**  If the Reed–Solomon encoder of `utils` over GF(256)/0x12D returns, for byte data `d` and
    `1 ≤ k`, `|d| + k ≤ 255`, exactly `k` symbols that make `d ++ ecc` a codeword with roots α¹…α^k
    (`RSEncodeValid`, property C17), then C02 holds: every accepted content decodes to itself. -/
theorem C02_decodes (hrs : RSEncodeValid) : C02_statement := by
  intro c color hlen
  obtain ⟨bc, s, a, hok, hacc, hdec⟩ := encode_decodes hrs c color hlen
  exact ⟨bc, a, hok, (pair_certs hacc.pair).2.2.1, hdec⟩

/-- a concrete symbol, end to end through the real reference decoder (including its Reed–Solomon check):
    "A12" in a 10×10 symbol -/
example : (match encodeWithColor [65, 49, 50] scheme16 with
    | .ok bc => (match decode bc.w bc.h bc.dark with
      | .ok info => info.content == [65, 49, 50] && info.rows == 10 && info.padCount == 1
      | .error _ => false)
    | .error _ => false) = true := by decide +kernel

end BV.Props.DmA
