/-
  GenUtils — the straight-line Go functions of package `utils`, machine-translated into `BV.Gen.Utils.f_*` on every run
  (go/cmd/extract/funcs.go), agree with the hand-written model functions.
  A semantic edit of one of these Go functions changes the generated text and breaks the corresponding theorem here,
  whether or not the correspondence check samples an input that shows the difference.
-/
import BV.Gen.UtilsFns
import BV.Model.Util
set_option linter.unusedSimpArgs false
namespace BV.Props.GenUtils
open BV

@[simp] theorem idpure {α : Type} (x : α) : (pure x : Id α) = x := rfl

/-! ### utils -/

/-- `utils.RuneToInt` -/
theorem gen_runeToInt (r : Nat) : Gen.Utils.f_RuneToInt (r : Int) = Model.runeToInt r := by
  unfold Gen.Utils.f_RuneToInt Model.runeToInt
  simp only [Id.run, pure, bind]
  by_cases h : 48 ≤ r ∧ r ≤ 57
  · have h1 : (r : Int) ≥ 48 := by omega
    have h2 : (r : Int) ≤ 57 := by omega
    simp [h, h1, h2]
  · by_cases h1 : (r : Int) ≥ 48
    · have h2 : ¬ (r : Int) ≤ 57 := by omega
      simp [h, h1, h2]
    · simp [h, h1]

/-- `utils.IntToRune` -/
theorem gen_intToRune (i : Int) : Gen.Utils.f_IntToRune i = (Model.intToRune i : Int) := by
  unfold Gen.Utils.f_IntToRune Model.intToRune
  simp only [Id.run, pure, bind]
  by_cases h : 0 ≤ i ∧ i ≤ 9
  · have h1 : i ≥ 0 := h.1
    simp [h, h1, h.2]
    omega
  · by_cases h1 : i ≥ 0
    · have h2 : ¬ i ≤ 9 := fun hh => h ⟨h1, hh⟩
      simp [h, h1, h2]
    · simp [h, h1]

example : Gen.Utils.f_RuneToInt 55 = 7 ∧ Gen.Utils.f_RuneToInt 65 = -1 ∧ Gen.Utils.f_IntToRune 4 = 52 := by decide

end BV.Props.GenUtils
