/-
  C11 — bounds, colours, metadata.

  "Every encoded barcode has bounds starting at (0,0) with the size its symbology prescribes (1-D: module count
  × 1; QR 17+4v square; DataMatrix, Aztec and PDF417 their standard sizes), and every pixel inside is exactly the
  foreground or the background colour of the colour scheme in force: black on white for the plain Encode
  functions, the caller's scheme for the WithColor variants, which ColorModel and ColorScheme then report.  The
  module pattern does not depend on the colour scheme.  Metadata names the right symbology and dimensionality,
  and Content returns the text that was encoded."

  Bounds start at (0,0) by construction: a `Barcode` only has a width `w` and a height `h`
  (`image.Rect(0, 0, w, h)`).  Only property statements live here; the lemmas are in BV/Proofs/Render.lean
  (vocabulary, 1-D families), RenderPdf.lean, RenderDm.lean, RenderAztec.lean, RenderQr.lean.

  Statements proved elsewhere and only cited here:
  * widths of the 1-D symbols (`bc.w` = number of modules of the drawn row): `BV.Props.C06.C06_roundtrip`
    (EAN: 67 / 95), `BV.Props.C05.C05_roundtrip` / `C05_roundtrip_noChecksum` (Code 128: the row is the list of
    symbol patterns), `BV.Props.C07.C07_code39_roundtrip` / `C07_code93_roundtrip`, `BV.Props.C08.C08_codabar_roundtrip`
    / `C08_tof_roundtrip` (`bc.row0` = the reference drawing, and `row0` has `bc.w` entries by definition);
  * content of EAN (`bc.content = completed code`, the input completed by its check digit):
    `BV.Props.C06.C06_roundtrip`;
  * content of Code 39 / Code 93 in full-ASCII mode (`info.basic = runeList bc.content`: the basic-alphabet
    spelling of the text): `BV.Props.C07.C07_code39_roundtrip`, `BV.Props.C07.C07_code93_roundtrip`.

  "certificate" = a finite fact about generated constants checked by kernel evaluation (`decide`).
-/
import BV.Proofs.RenderPdf
import BV.Proofs.RenderDm
import BV.Proofs.RenderAztec
import BV.Proofs.RenderQr
import BV.Props.QrA
namespace BV.Props.C11
open BV BV.Model BV.Proofs.Render

/-! ## vocabulary -/

/-- `SameButScheme r r0 s`: the two encoder results are both the same error, or both barcodes that agree in
    kind, dimensionality, width, height, content, checksum and every module, and the first carries scheme `s`. -/
theorem SameButScheme_def (r r0 : Res Barcode) (s : Scheme) :
    SameButScheme r r0 s ↔
      match r, r0 with
      | .ok b, .ok b0 => b.scheme = s ∧ b.kind = b0.kind ∧ b.dims = b0.dims ∧ b.w = b0.w ∧ b.h = b0.h ∧
                         b.content = b0.content ∧ b.checksum = b0.checksum ∧ ∀ x y, b.dark x y = b0.dark x y
      | .error e, .error e0 => e = e0
      | _, _ => False := Iff.rfl

/-! ## two colours, and what ColorModel / ColorScheme report -/

/-- C11, colours.  Every pixel of every barcode value is the foreground or the background colour of its scheme
    (foreground exactly on the dark modules); `ColorModel()` reports the model of that scheme and
    `ColorScheme()` the scheme itself. -/
theorem C11_two_colours (b : Barcode) :
    (∀ x y, b.colourAt x y = b.scheme.fg ∨ b.colourAt x y = b.scheme.bg) ∧
    (∀ x y, b.colourAt x y = (if b.dark x y then b.scheme.fg else b.scheme.bg)) ∧
    b.view.colourAt = b.colourAt ∧ b.view.model = b.scheme.model ∧ b.view.scheme = some b.scheme := by
  refine ⟨fun x y => ?_, fun _ _ => rfl, rfl, rfl, rfl⟩
  unfold Barcode.colourAt
  cases b.dark x y
  · right; rfl
  · left; rfl

/-- C11, plain `Encode`.  Every plain encoder is its `WithColor` variant called with `ColorScheme16`
    (16-bit gray, black `0000` on white `ffff`); with the `…_scheme_independent` / `…_metadata` theorems below:
    a barcode returned by a plain encoder has scheme `scheme16`. -/
theorem C11_plain_is_scheme16 :
    (∀ a, Ean.encode a = Ean.encodeWithColor a scheme16) ∧
    (∀ a cs full, Code39.encode a cs full = Code39.encodeWithColor a cs full scheme16) ∧
    (∀ a cs full, Code93.encode a cs full = Code93.encodeWithColor a cs full scheme16) ∧
    (∀ a, Code128.encode a = Code128.encodeWithColor a scheme16) ∧
    (∀ a, Code128.encodeWithoutChecksum a = Code128.encodeWithoutChecksumWithColor a scheme16) ∧
    (∀ a, Codabar.encode a = Codabar.encodeWithColor a scheme16) ∧
    (∀ a il, Twooffive.encode a il = Twooffive.encodeWithColor a il scheme16) ∧
    (∀ a l m, Qr.encode a l m = Qr.encodeWithColor a l m scheme16) ∧
    (∀ a, Datamatrix.encode a = Datamatrix.encodeWithColor a scheme16) ∧
    (∀ a e u, Aztec.encode a e u = Aztec.encodeWithColor a e u scheme16) ∧
    (∀ a l, Pdf417.encode a l = Pdf417.encodeWithColor a l scheme16) ∧
    scheme16 = { model := "Gray16Model", bg := "Gray16:ffff", fg := "Gray16:0000" } :=
  ⟨fun _ => rfl, fun _ _ _ => rfl, fun _ _ _ => rfl, fun _ => rfl, fun _ => rfl, fun _ => rfl, fun _ _ => rfl,
   fun _ _ _ => rfl, fun _ => rfl, fun _ _ _ => rfl, fun _ _ => rfl, rfl⟩

/-! ## the module pattern, bounds, metadata, content and acceptance do not depend on the colour scheme -/

/-- C11, EAN: `EncodeWithColor` with any scheme fails exactly like `Encode`, or returns the same symbol with
    the caller's scheme. -/
theorem C11_ean_scheme_independent (code : Bytes) (s : Scheme) :
    SameButScheme (Ean.encodeWithColor code s) (Ean.encode code) s :=
  sameButScheme_of_map _ _ _ (ean_map code s)

/-- C11, Code 39: the same for every checksum / full-ASCII flag. -/
theorem C11_code39_scheme_independent (content : Bytes) (cs full : Bool) (s : Scheme) :
    SameButScheme (Code39.encodeWithColor content cs full s) (Code39.encode content cs full) s :=
  sameButScheme_of_map _ _ _ (code39_map content cs full s)

/-- C11, Code 93: the same for every checksum / full-ASCII flag. -/
theorem C11_code93_scheme_independent (content : Bytes) (cs full : Bool) (s : Scheme) :
    SameButScheme (Code93.encodeWithColor content cs full s) (Code93.encode content cs full) s :=
  sameButScheme_of_map _ _ _ (code93_map content cs full s)

/-- C11, Code 128. -/
theorem C11_code128_scheme_independent (content : Bytes) (s : Scheme) :
    SameButScheme (Code128.encodeWithColor content s) (Code128.encode content) s :=
  sameButScheme_of_map _ _ _ (code128_map content s)

/-- C11, Code 128 without the check symbol. -/
theorem C11_code128_noChecksum_scheme_independent (content : Bytes) (s : Scheme) :
    SameButScheme (Code128.encodeWithoutChecksumWithColor content s) (Code128.encodeWithoutChecksum content) s :=
  sameButScheme_of_map _ _ _ (code128nc_map content s)

/-- C11, Codabar. -/
theorem C11_codabar_scheme_independent (content : Bytes) (s : Scheme) :
    SameButScheme (Codabar.encodeWithColor content s) (Codabar.encode content) s :=
  sameButScheme_of_map _ _ _ (codabar_map content s)

/-- C11, 2 of 5 (standard and interleaved). -/
theorem C11_twooffive_scheme_independent (content : Bytes) (interleaved : Bool) (s : Scheme) :
    SameButScheme (Twooffive.encodeWithColor content interleaved s) (Twooffive.encode content interleaved) s :=
  sameButScheme_of_map _ _ _ (twooffive_map content interleaved s)

/-- C11, QR Code, for every level and encoding mode: the scheme is only stored in the `color` field of the
    nine bitmaps of `render`; drawing, the walk over the free modules, the penalties and the mask choice do not
    read it. -/
theorem C11_qr_scheme_independent (content : Bytes) (level mode : Nat) (s : Scheme) :
    SameButScheme (Qr.encodeWithColor content level mode s) (Qr.encode content level mode) s :=
  sameButScheme_of_map _ _ _ (BV.Proofs.RenderQr.qr_map content level mode s)

/-- C11, DataMatrix: the scheme is only stored in the `color` field of the code layout and of the symbol;
    `SetValues` and `Merge` (including their panic paths) do not read it. -/
theorem C11_datamatrix_scheme_independent (content : Bytes) (s : Scheme) :
    SameButScheme (Datamatrix.encodeWithColor content s) (Datamatrix.encode content) s :=
  sameButScheme_of_map _ _ _ (BV.Proofs.RenderDm.dm_map content s)

/-- C11, Aztec, for every error correction percentage and layer request. -/
theorem C11_aztec_scheme_independent (data : Bytes) (minECCPercent userSpecifiedLayers : Int) (s : Scheme) :
    SameButScheme (Aztec.encodeWithColor data minECCPercent userSpecifiedLayers s)
      (Aztec.encode data minECCPercent userSpecifiedLayers) s :=
  sameButScheme_of_map _ _ _ (BV.Proofs.RenderAztec.aztec_map data minECCPercent userSpecifiedLayers s)

/-- C11, PDF417, for every security level. -/
theorem C11_pdf417_scheme_independent (data : Bytes) (securityLevel : Nat) (s : Scheme) :
    SameButScheme (Pdf417.encodeWithColor data securityLevel s) (Pdf417.encode data securityLevel) s :=
  sameButScheme_of_map _ _ _ (BV.Proofs.RenderPdf.pdf_map data securityLevel s)

/-! ## metadata (kind, dimensionality, height of the 1-D symbols, scheme in force)

The kind strings are the generated constants `BV.Gen.Root.c_Type…` read through `kindStr`; that they are the
expected strings is a certificate (`BV.Proofs.Render.kind_…`, by `decide`). -/

/-- C11, EAN metadata: an 8-digit content is an "EAN 8", a 13-digit content an "EAN 13" (no other length is
    returned); one-dimensional, height 1, the caller's scheme. -/
theorem C11_ean_metadata (code : Bytes) (s : Scheme) (b : Barcode) (h : Ean.encodeWithColor code s = .ok b) :
    ((b.content.length = 8 ∧ b.kind = "EAN 8") ∨ (b.content.length = 13 ∧ b.kind = "EAN 13")) ∧
    b.dims = 1 ∧ b.h = 1 ∧ b.scheme = s := by
  rcases ean_ok code s b h with ⟨hl, h1⟩ | ⟨hl, h1⟩
  · exact ⟨Or.inl ⟨hl, h1.kind⟩, h1.dims, h1.h, h1.scheme⟩
  · exact ⟨Or.inr ⟨hl, h1.kind⟩, h1.dims, h1.h, h1.scheme⟩

/-- C11, Code 39 metadata. -/
theorem C11_code39_metadata (content : Bytes) (cs full : Bool) (s : Scheme) (b : Barcode)
    (h : Code39.encodeWithColor content cs full s = .ok b) :
    b.kind = "Code 39" ∧ b.dims = 1 ∧ b.h = 1 ∧ b.scheme = s :=
  have h1 := (code39_ok content cs full s b h).1
  ⟨h1.kind, h1.dims, h1.h, h1.scheme⟩

/-- C11, Code 93 metadata. -/
theorem C11_code93_metadata (content : Bytes) (cs full : Bool) (s : Scheme) (b : Barcode)
    (h : Code93.encodeWithColor content cs full s = .ok b) :
    b.kind = "Code 93" ∧ b.dims = 1 ∧ b.h = 1 ∧ b.scheme = s :=
  have h1 := (code93_ok content cs full s b h).1
  ⟨h1.kind, h1.dims, h1.h, h1.scheme⟩

/-- C11, Code 128 metadata (with and without the check symbol). -/
theorem C11_code128_metadata (content : Bytes) (s : Scheme) (b : Barcode)
    (h : Code128.encodeWithColor content s = .ok b ∨ Code128.encodeWithoutChecksumWithColor content s = .ok b) :
    b.kind = "Code 128" ∧ b.dims = 1 ∧ b.h = 1 ∧ b.scheme = s := by
  rcases h with h | h
  · have h1 := (code128_ok content s b h).1
    exact ⟨h1.kind, h1.dims, h1.h, h1.scheme⟩
  · have h1 := (code128nc_ok content s b h).1
    exact ⟨h1.kind, h1.dims, h1.h, h1.scheme⟩

/-- C11, Codabar metadata. -/
theorem C11_codabar_metadata (content : Bytes) (s : Scheme) (b : Barcode)
    (h : Codabar.encodeWithColor content s = .ok b) :
    b.kind = "Codabar" ∧ b.dims = 1 ∧ b.h = 1 ∧ b.scheme = s :=
  have h1 := (codabar_ok content s b h).1
  ⟨h1.kind, h1.dims, h1.h, h1.scheme⟩

/-- C11, 2 of 5 metadata: the kind names the variant. -/
theorem C11_twooffive_metadata (content : Bytes) (interleaved : Bool) (s : Scheme) (b : Barcode)
    (h : Twooffive.encodeWithColor content interleaved s = .ok b) :
    b.kind = (if interleaved then "2 of 5 (interleaved)" else "2 of 5") ∧ b.dims = 1 ∧ b.h = 1 ∧ b.scheme = s :=
  have h1 := (twooffive_ok content interleaved s b h).1
  ⟨h1.kind, h1.dims, h1.h, h1.scheme⟩

/-- C11, QR Code metadata. -/
theorem C11_qr_metadata (content : Bytes) (level mode : Nat) (s : Scheme) (b : Barcode)
    (h : Qr.encodeWithColor content level mode s = .ok b) :
    b.kind = "QR Code" ∧ b.dims = 2 ∧ b.checksum = none ∧ b.scheme = s := by
  unfold Qr.encodeWithColor at h
  cases hq : Qr.encodeQR content level mode s with
  | error e => rw [hq] at h; cases h
  | ok r =>
    obtain ⟨qr, vi, mask⟩ := r
    rw [hq] at h
    cases h
    exact ⟨kind_qr, rfl, rfl, (BV.Props.QrA.encodeQR_size content level mode s qr vi mask hq).2.2.2.2.2.2⟩

/-- C11, DataMatrix metadata. -/
theorem C11_datamatrix_metadata (content : Bytes) (s : Scheme) (b : Barcode)
    (h : Datamatrix.encodeWithColor content s = .ok b) :
    b.kind = "DataMatrix" ∧ b.dims = 2 ∧ b.checksum = none ∧ b.scheme = s :=
  have h1 := BV.Proofs.RenderDm.dm_ok content s b h
  ⟨h1.1, h1.2.1, h1.2.2.2.1, h1.2.2.2.2.1⟩

/-- C11, Aztec metadata. -/
theorem C11_aztec_metadata (data : Bytes) (e u : Int) (s : Scheme) (b : Barcode)
    (h : Aztec.encodeWithColor data e u s = .ok b) :
    b.kind = "Aztec" ∧ b.dims = 2 ∧ b.checksum = none ∧ b.scheme = s :=
  have h1 := BV.Proofs.RenderAztec.aztec_ok data e u s b h
  ⟨h1.1, h1.2.1, h1.2.2.2.1, h1.2.2.2.2.1⟩

/-- C11, PDF417 metadata. -/
theorem C11_pdf417_metadata (data : Bytes) (lvl : Nat) (s : Scheme) (b : Barcode)
    (h : Pdf417.encodeWithColor data lvl s = .ok b) :
    b.kind = "PDF417" ∧ b.dims = 2 ∧ b.checksum = none ∧ b.scheme = s :=
  have h1 := BV.Proofs.RenderPdf.pdf_ok data lvl s b h
  ⟨h1.1, h1.2.1, h1.2.2.2.1, h1.2.2.2.2.1⟩

/-- C11, plain `Encode`, spelled out: whatever a plain encoder returns carries `ColorScheme16`, so by
    `C11_two_colours` its pixels are `Gray16:0000` (dark modules) or `Gray16:ffff`, and `ColorModel()` is Gray16. -/
theorem C11_plain_scheme (b : Barcode) :
    (∀ a, Ean.encode a = .ok b → b.scheme = scheme16) ∧
    (∀ a cs full, Code39.encode a cs full = .ok b → b.scheme = scheme16) ∧
    (∀ a cs full, Code93.encode a cs full = .ok b → b.scheme = scheme16) ∧
    (∀ a, Code128.encode a = .ok b → b.scheme = scheme16) ∧
    (∀ a, Code128.encodeWithoutChecksum a = .ok b → b.scheme = scheme16) ∧
    (∀ a, Codabar.encode a = .ok b → b.scheme = scheme16) ∧
    (∀ a il, Twooffive.encode a il = .ok b → b.scheme = scheme16) ∧
    (∀ a l m, Qr.encode a l m = .ok b → b.scheme = scheme16) ∧
    (∀ a, Datamatrix.encode a = .ok b → b.scheme = scheme16) ∧
    (∀ a e u, Aztec.encode a e u = .ok b → b.scheme = scheme16) ∧
    (∀ a l, Pdf417.encode a l = .ok b → b.scheme = scheme16) :=
  ⟨fun a h => (C11_ean_metadata a scheme16 b h).2.2.2,
   fun a cs full h => (C11_code39_metadata a cs full scheme16 b h).2.2.2,
   fun a cs full h => (C11_code93_metadata a cs full scheme16 b h).2.2.2,
   fun a h => (C11_code128_metadata a scheme16 b (Or.inl h)).2.2.2,
   fun a h => (C11_code128_metadata a scheme16 b (Or.inr h)).2.2.2,
   fun a h => (C11_codabar_metadata a scheme16 b h).2.2.2,
   fun a il h => (C11_twooffive_metadata a il scheme16 b h).2.2.2,
   fun a l m h => (C11_qr_metadata a l m scheme16 b h).2.2.2,
   fun a h => (C11_datamatrix_metadata a scheme16 b h).2.2.2,
   fun a e u h => (C11_aztec_metadata a e u scheme16 b h).2.2.2,
   fun a l h => (C11_pdf417_metadata a l scheme16 b h).2.2.2⟩

/-! ## content

EAN (`Content()` = the input completed by its check digit) and the full-ASCII modes of Code 39 / Code 93
(`Content()` = the basic-alphabet spelling) are `C06_roundtrip`, `C07_code39_roundtrip`, `C07_code93_roundtrip`. -/

/-- C11, content of Code 39 and Code 93 in basic mode: `Content()` is the text that was passed in. -/
theorem C11_code39_code93_content (content : Bytes) (cs : Bool) (s : Scheme) (b : Barcode) :
    (Code39.encodeWithColor content cs false s = .ok b → b.content = content) ∧
    (Code93.encodeWithColor content cs false s = .ok b → b.content = content) :=
  ⟨fun h => (code39_ok content cs false s b h).2 rfl, fun h => (code93_ok content cs false s b h).2 rfl⟩

/-- C11, content of Code 128 (both variants), Codabar and 2 of 5: `Content()` is the text that was passed in. -/
theorem C11_code128_codabar_twooffive_content (content : Bytes) (il : Bool) (s : Scheme) (b : Barcode) :
    (Code128.encodeWithColor content s = .ok b → b.content = content) ∧
    (Code128.encodeWithoutChecksumWithColor content s = .ok b → b.content = content) ∧
    (Codabar.encodeWithColor content s = .ok b → b.content = content) ∧
    (Twooffive.encodeWithColor content il s = .ok b → b.content = content) :=
  ⟨fun h => (code128_ok content s b h).2, fun h => (code128nc_ok content s b h).2,
   fun h => (codabar_ok content s b h).2, fun h => (twooffive_ok content il s b h).2⟩

/-- C11, content of the 2-D symbologies: `Content()` is the text that was passed in. -/
theorem C11_2d_content (content : Bytes) (s : Scheme) (b : Barcode) :
    (∀ level mode, Qr.encodeWithColor content level mode s = .ok b → b.content = content) ∧
    (Datamatrix.encodeWithColor content s = .ok b → b.content = content) ∧
    (∀ e u, Aztec.encodeWithColor content e u s = .ok b → b.content = content) ∧
    (∀ lvl, Pdf417.encodeWithColor content lvl s = .ok b → b.content = content) := by
  refine ⟨fun level mode h => ?_, fun h => (BV.Proofs.RenderDm.dm_ok content s b h).2.2.1,
    fun e u h => (BV.Proofs.RenderAztec.aztec_ok content e u s b h).2.2.1,
    fun lvl h => (BV.Proofs.RenderPdf.pdf_ok content lvl s b h).2.2.1⟩
  unfold Qr.encodeWithColor at h
  cases hq : Qr.encodeQR content level mode s with
  | error e => rw [hq] at h; cases h
  | ok r =>
    obtain ⟨qr, vi, mask⟩ := r
    rw [hq] at h
    cases h
    exact (BV.Props.QrA.encodeQR_size content level mode s qr vi mask hq).2.2.2.2.2.1

/-! ## sizes of the 2-D symbols -/

/-- C11, QR size (lifted from `BV.Props.QrA.encodeQR_size`): the symbol is a square of side 17 + 4·v for a
    version 1 ≤ v ≤ 40 — the version of the table row that `encodeQR` chose. -/
theorem C11_qr_size (content : Bytes) (level mode : Nat) (s : Scheme) (b : Barcode)
    (h : Qr.encodeWithColor content level mode s = .ok b) :
    b.w = b.h ∧ ∃ v, 1 ≤ v ∧ v ≤ 40 ∧ b.w = 17 + 4 * v ∧
      ∃ qr vi mask, Qr.encodeQR content level mode s = .ok (qr, vi, mask) ∧ vi.version = v := by
  unfold Qr.encodeWithColor at h
  cases hq : Qr.encodeQR content level mode s with
  | error e => rw [hq] at h; cases h
  | ok r =>
    obtain ⟨qr, vi, mask⟩ := r
    rw [hq] at h
    cases h
    have hs := BV.Props.QrA.encodeQR_size content level mode s qr vi mask hq
    have hv := BV.Props.QrA.versionInfos_sorted_complete.2.2.1 vi hs.1
    exact ⟨rfl, vi.version, hv.1, hv.2.1, hs.2.2.1, qr, vi, mask, rfl, rfl⟩

/-- C11 (certificate).  The rows of the generated DataMatrix size table are exactly the 24 square ECC 200 sizes,
    in this order. -/
theorem C11_datamatrix_table :
    Datamatrix.codeSizes.map (fun s => (s.rows, s.columns)) =
      ([10, 12, 14, 16, 18, 20, 22, 24, 26, 32, 36, 40, 44, 48, 52, 64, 72, 80, 88, 96, 104, 120, 132, 144] : List Nat).map
        (fun (n : Nat) => ((n : Int), (n : Int))) :=
  BV.Proofs.RenderDm.codeSizes_sides

/-- C11, DataMatrix size: the symbol is a square whose side is one of the 24 standard sizes, namely that of
    the first table row with enough data codewords for the encoded text (`chooseSize`, the `for … break` loop
    of `EncodeWithColor`). -/
theorem C11_datamatrix_size (content : Bytes) (s : Scheme) (b : Barcode)
    (h : Datamatrix.encodeWithColor content s = .ok b) :
    b.w = b.h ∧
    b.w ∈ [10, 12, 14, 16, 18, 20, 22, 24, 26, 32, 36, 40, 44, 48, 52, 64, 72, 80, 88, 96, 104, 120, 132, 144] ∧
    ∃ sz, Datamatrix.codeSizes.find?
        (fun sz => sz.dataCodewords ≥ ((Datamatrix.encodeText content).length : Int)) = some sz ∧
      b.w = sz.columns.toNat ∧ b.h = sz.rows.toNat := by
  obtain ⟨_, _, _, _, _, sz, hc, hm, hw, hh⟩ := BV.Proofs.RenderDm.dm_ok content s b h
  obtain ⟨h1, h2⟩ := BV.Proofs.RenderDm.codeSizes_mem sz hm
  refine ⟨by rw [hw, hh, h1], ?_, sz, hc, hw, hh⟩
  rw [hw, h1]
  exact h2

/-- C11, Aztec size: for the layout that the layer selection of `EncodeWithColor` chose (`chooseLayout`:
    the explicit request, or the automatic search), the symbol is a square of side 11 + 4·L for a compact symbol
    with 1 ≤ L ≤ 4 layers, and of side 15 + 4·L + 2·⌊(2L+6)/15⌋ for a full-range symbol with 1 ≤ L ≤ 32 layers
    (14 + 4·L plus the centre line plus two reference grid lines per 15 modules of half width). -/
theorem C11_aztec_size (data : Bytes) (e u : Int) (s : Scheme) (b : Barcode)
    (h : Aztec.encodeWithColor data e u s = .ok b) :
    b.w = b.h ∧ ∃ lay, BV.Proofs.RenderAztec.chooseLayout data e u = .ok lay ∧ 1 ≤ lay.layers ∧
      (if lay.compact then lay.layers ≤ 4 ∧ b.w = 11 + 4 * lay.layers
       else lay.layers ≤ 32 ∧ b.w = 15 + 4 * lay.layers + 2 * ((2 * lay.layers + 6) / 15)) := by
  obtain ⟨_, _, _, _, _, lay, hl, hleg, hw, hh⟩ := BV.Proofs.RenderAztec.aztec_ok data e u s b h
  refine ⟨by rw [hw, hh], lay, hl, hleg.1, ?_⟩
  have h2 := hleg.2
  unfold BV.Proofs.RenderAztec.sideOf at hw
  cases hc : lay.compact
  · rw [hc] at h2 hw
    exact ⟨h2, hw⟩
  · rw [hc] at h2 hw
    exact ⟨h2, hw⟩

/-- the layer selection cited in `C11_aztec_size` is literally the first statements of `EncodeWithColor` -/
theorem C11_aztec_chooseLayout (data : Bytes) (e u : Int) :
    BV.Proofs.RenderAztec.chooseLayout data e u =
      (let bits := Aztec.highlevelEncode data
       let eccBits : Int := Int.tdiv ((bits.length : Int) * e) 100 + 11
       let totalSizeBits : Int := bits.length + eccBits
       if u != Int.ofNat Gen.Aztec.c_DEFAULT_LAYERS then Aztec.explicitLayers bits eccBits u
       else Aztec.autoLayers bits eccBits totalSizeBits (Gen.Aztec.c_max_nb_bits + 2) 0 0 []) := rfl

/-- C11, PDF417 size: with `(cols, rows)` the dimensions that `calcDimensions` chose for the data and error
    correction codewords, 2 ≤ cols ≤ 30 and 2 ≤ rows ≤ 30, the symbol is 17·(cols+4)+1 modules wide (start
    pattern, left indicator, `cols` data columns, right indicator of 17 modules each, the stop pattern of 18)
    and 2·rows pixels high (`moduleHeight = 2`): the code words fill exactly `rows` rows. -/
theorem C11_pdf417_size (data : Bytes) (lvl : Nat) (s : Scheme) (b : Barcode)
    (h : Pdf417.encodeWithColor data lvl s = .ok b) :
    ∃ dataWords, Pdf417.highlevelEncode data = .ok dataWords ∧
      ∃ cols rows, Pdf417.calcDimensions dataWords.length (Pdf417.errorCorrectionWordCount lvl) = (cols, rows) ∧
        2 ≤ cols ∧ cols ≤ 30 ∧ 2 ≤ rows ∧ rows ≤ 30 ∧ b.w = 17 * (cols + 4) + 1 ∧ b.h = rows * 2 :=
  (BV.Proofs.RenderPdf.pdf_ok data lvl s b h).2.2.2.2.2

/-! ## the hypotheses are satisfiable: concrete symbols with a scheme other than `ColorScheme16`

`check r kind dims w h s c00 c10` = "`r` is a barcode with this kind, dimensionality, width, height, scheme and
these colours at the pixels (0,0) and (1,0)"; `red` is red on yellow in the RGBA model. -/

example : red ≠ scheme16 := by decide

-- Codabar "A12B": with the caller's scheme and with the plain encoder (black on white), same 41 modules
example : check (Codabar.encodeWithColor [65, 49, 50, 66] red) "Codabar" 1 41 1 red "RGBA:ff0000ff" "RGBA:ffff00ff" = true := by
  decide +kernel
example : check (Codabar.encode [65, 49, 50, 66]) "Codabar" 1 41 1 scheme16 "Gray16:0000" "Gray16:ffff" = true := by
  decide +kernel
-- a rejected input is rejected whatever the scheme is
example : (isRejected (Codabar.encodeWithColor [33] red) && isRejected (Codabar.encode [33])) = true := by
  decide +kernel
-- EAN-8 from seven digits
example : check (Ean.encodeWithColor [49, 50, 51, 52, 53, 54, 55] red) "EAN 8" 1 67 1 red "RGBA:ff0000ff" "RGBA:ffff00ff" = true := by
  decide +kernel
-- PDF417 "A12B", security level 2: 3 columns, 4 rows
example : check (Pdf417.encodeWithColor [65, 49, 50, 66] 2 red) "PDF417" 2 120 8 red "RGBA:ff0000ff" "RGBA:ff0000ff" = true := by
  decide +kernel
-- Aztec "A12B", 33 % error correction, automatic layers: compact, one layer
example : check (Aztec.encodeWithColor [65, 49, 50, 66] 33 0 red) "Aztec" 2 15 15 red "RGBA:ffff00ff" "RGBA:ffff00ff" = true := by
  decide +kernel
-- DataMatrix "A12B": 10 × 10
example : check (Datamatrix.encodeWithColor [65, 49, 50, 66] red) "DataMatrix" 2 10 10 red "RGBA:ff0000ff" "RGBA:ffff00ff" = true := by
  decide +kernel
-- QR "AC-42", level H, alphanumeric (through the acceptance theorem of QrA; evaluating the eight masks and
-- their penalties in the kernel is too slow)
example : ∃ b, Qr.encodeWithColor [65, 67, 45, 52, 50] 3 2 red = .ok b ∧ b.kind = "QR Code" ∧ b.scheme = red ∧
    b.w = b.h ∧ ∃ v, 1 ≤ v ∧ v ≤ 40 ∧ b.w = 17 + 4 * v := by
  obtain ⟨_, enc, hg, h⟩ := BV.Props.QrA.encodeWithColor_no_panic [65, 67, 45, 52, 50] 3 2 red (by decide)
  have he : Qr.getEncoder 2 = some Qr.encodeAlphaNumeric := rfl
  rw [he] at hg
  cases hg
  have hs : (Qr.encodeAlphaNumeric [65, 67, 45, 52, 50] 3).isSome = true := by decide +kernel
  rcases h with ⟨h, _⟩ | ⟨_, b, h⟩
  · rw [h] at hs; cases hs
  · obtain ⟨h1, v, h2, h3, h4, _⟩ := C11_qr_size _ _ _ _ _ h
    exact ⟨b, h, (C11_qr_metadata _ _ _ _ _ h).1, (C11_qr_metadata _ _ _ _ _ h).2.2.2, h1, v, h2, h3, h4⟩

end BV.Props.C11
