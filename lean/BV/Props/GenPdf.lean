/-
  GenPdf — the straight-line Go functions of package `pdf417`, machine-translated into `BV.Gen.Pdf417.f_*` on every run
  (go/cmd/extract/funcs.go), agree with the hand-written model functions.
  A semantic edit of one of these Go functions changes the generated text and breaks the corresponding theorem here,
  whether or not the correspondence check samples an input that shows the difference.
-/
import BV.Gen.Pdf417Fns
import BV.Model.Pdf417
set_option linter.unusedSimpArgs false
namespace BV.Props.GenPdf
open BV

@[simp] theorem idpure {α : Type} (x : α) : (pure x : Id α) = x := rfl

theorem tm3 (a : Nat) : Int.tmod (a : Int) 3 = ((a % 3 : Nat) : Int) := by
  rw [Int.tmod_eq_emod_of_nonneg (by omega)]; omega
theorem td3 (a : Nat) : Int.tdiv (a : Int) 3 = ((a / 3 : Nat) : Int) := by
  rw [Int.tdiv_eq_ediv_of_nonneg (by omega)]; omega

/-! ### pdf417 -/

/-- `min`, `calculateNumberOfRows`, `securitylevel.ErrorCorrectionWordCount` -/
theorem gen_pdf_arith (a b m k c level : Nat) (_hc : 0 < c) :
    Gen.Pdf417.f_min (a : Int) (b : Int) = (Model.Pdf417.min a b : Int) ∧
    Gen.Pdf417.f_calculateNumberOfRows (m : Int) (k : Int) (c : Int) = (Model.Pdf417.calculateNumberOfRows m k c : Int) ∧
    Gen.Pdf417.f_securitylevel_ErrorCorrectionWordCount (level : Int)
      = (Model.Pdf417.errorCorrectionWordCount level : Int) := by
  refine ⟨?_, ?_, ?_⟩
  · unfold Gen.Pdf417.f_min Model.Pdf417.min
    by_cases h : a ≤ b
    · have h' : (a : Int) ≤ b := by omega
      simp [Id.run, h, h']
    · have h' : ¬ (a : Int) ≤ b := by omega
      simp [Id.run, h, h']
  · unfold Gen.Pdf417.f_calculateNumberOfRows Model.Pdf417.calculateNumberOfRows
    have hd : Int.tdiv ((m : Int) + 1 + k) (c : Int) = (((m + 1 + k) / c : Nat) : Int) := by
      rw [Int.tdiv_eq_ediv_of_nonneg (by omega)]; simp [Int.natCast_add]
    simp only [Id.run, pure, bind, hd]
    generalize hq : (m + 1 + k) / c = q
    have hmul : (c : Int) * ((q : Int) + 1) = ((c * (q + 1) : Nat) : Int) := by simp
    simp only [hmul]
    generalize hp : c * (q + 1) = p
    by_cases h : p ≥ m + 1 + k + c
    · have h' : (p : Int) ≥ (m : Int) + 1 + k + c := by omega
      simp [h, h']
    · have h' : ¬ (p : Int) ≥ (m : Int) + 1 + k + c := by omega
      simp [h, h']
  · unfold Gen.Pdf417.f_securitylevel_ErrorCorrectionWordCount Model.Pdf417.errorCorrectionWordCount
    have : ((level : Int) + 1).toNat = level + 1 := by omega
    simp [Id.run, this, Nat.shiftLeft_eq]

/-- `getLeftCodeWord`, `getRightCodeWord` (for the non-negative arguments `encode` passes: `rows ≥ 1`,
`columns ≥ 1`) -/
theorem gen_pdf_indicators (rowNum rows columns lvl : Nat) (hr : 1 ≤ rows) (hc : 1 ≤ columns) :
    Gen.Pdf417.f_getLeftCodeWord (rowNum : Int) (rows : Int) (columns : Int) (lvl : Int)
      = (Model.Pdf417.getLeftCodeWord rowNum rows columns lvl : Int) ∧
    Gen.Pdf417.f_getRightCodeWord (rowNum : Int) (rows : Int) (columns : Int) (lvl : Int)
      = (Model.Pdf417.getRightCodeWord rowNum rows columns lvl : Int) := by
  have t3 : Int.tmod (rowNum : Int) 3 = ((rowNum % 3 : Nat) : Int) := tm3 rowNum
  have d3 : Int.tdiv (rowNum : Int) 3 = ((rowNum / 3 : Nat) : Int) := td3 rowNum
  have r1 : (rows : Int) - 1 = ((rows - 1 : Nat) : Int) := by omega
  have c1 : (columns : Int) - 1 = ((columns - 1 : Nat) : Int) := by omega
  unfold Gen.Pdf417.f_getLeftCodeWord Gen.Pdf417.f_getRightCodeWord Model.Pdf417.getLeftCodeWord
    Model.Pdf417.getRightCodeWord
  simp only [Id.run, pure, bind, t3, d3, r1, c1, tm3, td3]
  have hcases : rowNum % 3 = 0 ∨ rowNum % 3 = 1 ∨ rowNum % 3 = 2 := by omega
  rcases hcases with h | h | h <;> rw [h] <;> simp [Int.natCast_add, Int.natCast_mul]

example : Gen.Pdf417.f_getLeftCodeWord 4 10 3 2 = 30 * 1 + 2 * 3 + 0 := by decide

end BV.Props.GenPdf
