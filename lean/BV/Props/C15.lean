/-
  C15 — encoding is a pure function: deterministic, history-free, no aliasing.

  What a proof can carry here (DESIGN §3 C15): every encoder model is a function of its arguments only; that this
  is FAITHFUL to the Go code is carried by (a) syntactic facts regenerated from /repo on every run — no
  package-level variable is written outside `init`, no struct field is assigned a slice parameter (aliasing),
  the Reed–Solomon cache is only touched inside `getPolynomial`, which holds the mutex — (b) the theorem that the
  only order-dependent construct (`range` over a map in the Code 39 / Code 93 checksum search) has a unique
  answer, and (c) the theorem that `Encode` does not depend on the cache history (C17, `BV.Props.C17`).
  Hidden state that these facts do not see is searched for by execution (histories vs. fresh processes).
-/
import BV.Proofs.Purity
import BV.Gen
import BV.Model.Code39
import BV.Model.Code93
import BV.Props.C17
namespace BV.Props.C15
open BV BV.Proofs.Purity

/-- (a1) no package writes a package-level variable after initialisation -/
theorem C15_no_global_writes :
    Gen.Root.fact_globalWrites = [] ∧ Gen.Utils.fact_globalWrites = [] ∧ Gen.Qr.fact_globalWrites = [] ∧
    Gen.Datamatrix.fact_globalWrites = [] ∧ Gen.Aztec.fact_globalWrites = [] ∧ Gen.Pdf417.fact_globalWrites = [] ∧
    Gen.Code128.fact_globalWrites = [] ∧ Gen.Code39.fact_globalWrites = [] ∧ Gen.Code93.fact_globalWrites = [] ∧
    Gen.Codabar.fact_globalWrites = [] ∧ Gen.Ean.fact_globalWrites = [] ∧ Gen.Twooffive.fact_globalWrites = [] := by
  decide

/-- (a2) no returned barcode keeps a reference to a caller-owned slice -/
theorem C15_no_alias :
    Gen.Root.fact_aliasAssign = [] ∧ Gen.Utils.fact_aliasAssign = [] ∧ Gen.Qr.fact_aliasAssign = [] ∧
    Gen.Datamatrix.fact_aliasAssign = [] ∧ Gen.Aztec.fact_aliasAssign = [] ∧ Gen.Pdf417.fact_aliasAssign = [] ∧
    Gen.Code128.fact_aliasAssign = [] ∧ Gen.Code39.fact_aliasAssign = [] ∧ Gen.Code93.fact_aliasAssign = [] ∧
    Gen.Codabar.fact_aliasAssign = [] ∧ Gen.Ean.fact_aliasAssign = [] ∧ Gen.Twooffive.fact_aliasAssign = [] := by
  decide

/-- (a3) the generator-polynomial cache is read and written only inside `getPolynomial`, whose body starts with
    `Lock(); defer Unlock()` -/
theorem C15_cache_guarded :
    Gen.Utils.fact_polynomesAccess = ["ReedSolomonEncoder_getPolynomial"] ∧
    "ReedSolomonEncoder_getPolynomial" ∈ Gen.Utils.fact_lockedFuncs := by
  decide

/-- (b) Code 39: the check-character search `for r, v := range encodeTable { if v.value == sum …` returns the same
    character for every iteration order of the map, because the values are pairwise distinct -/
theorem C15_code39_search_order_free (tbl : List (Int × (Int × List Bool))) (v : Int)
    (hp : Gen.Code39.v_encodeTable.Perm tbl) :
    tbl.find? (fun e => e.2.1 == v) = Gen.Code39.v_encodeTable.find? (fun e => e.2.1 == v) :=
  find_perm_invariant (fun e => e.2.1) v _ _ hp (by decide)

/-- (b) Code 93: the same for both check characters -/
theorem C15_code93_search_order_free (tbl : List (Int × (Int × Int))) (v : Int)
    (hp : Gen.Code93.v_encodeTable.Perm tbl) :
    tbl.find? (fun e => e.2.1 == v) = Gen.Code93.v_encodeTable.find? (fun e => e.2.1 == v) :=
  find_perm_invariant (fun e => e.2.1) v _ _ hp (by decide)

/-- map literals have distinct keys (a Go compile-time guarantee, re-checked on the generated tables), so
    lookups do not depend on the iteration order either -/
theorem C15_table_keys_distinct :
    (Gen.Code39.v_encodeTable.map (·.1)).Nodup ∧ (Gen.Code93.v_encodeTable.map (·.1)).Nodup ∧
    (Gen.Code39.v_extendedTable.map (·.1)).Nodup ∧ (Gen.Ean.v_encoderTable.map (·.1)).Nodup ∧
    (Gen.Codabar.v_encodingTable.map (·.1)).Nodup ∧ (Gen.Twooffive.v_encodingTable.map (·.1)).Nodup := by
  decide

/-- (c) history-freedom of the shared Reed–Solomon encoders: whatever was encoded before (any sequence of
    `Encode` calls, i.e. any reachable cache), every call returns what a fresh encoder returns -/
theorem C15_rs_history_free (f : Model.GF.Field) (reqs : List (List Nat × Nat)) :
    C17.runEncoder f Model.GF.newEncoder reqs = reqs.map (fun r => Model.GF.rsEncode f r.1 r.2) :=
  C17.C17_rs_history_independent f Model.GF.newEncoder reqs (C17.C17_newEncoder_inv f)

/-- non-vacuity of (b): a genuinely different order of the Code 93 table -/
example : Gen.Code93.v_encodeTable.Perm Gen.Code93.v_encodeTable.reverse := (List.reverse_perm _).symm

end BV.Props.C15
