/-
  GenQr — the straight-line Go functions of package `qr`, machine-translated into `BV.Gen.Qr.f_*` on every run
  (go/cmd/extract/funcs.go), agree with the hand-written model functions (and, for the mask conditions, directly with the Spec).
  A semantic edit of one of these Go functions changes the generated text and breaks the corresponding theorem here,
  whether or not the correspondence check samples an input that shows the difference.
-/
import BV.Gen.QrFns
import BV.Model.Qr
import BV.Spec.Qr
set_option linter.unusedSimpArgs false
namespace BV.Props.GenQr
open BV

@[simp] theorem idpure {α : Type} (x : α) : (pure x : Id α) = x := rfl

/-! ### qr -/

open Model.Qr in
/-- `versionInfo.totalDataBytes`, `modulWidth` -/
theorem gen_qr_sizes (vi : VersionInfo) (hv : 1 ≤ vi.version) :
    Gen.Qr.f_versionInfo_totalDataBytes vi.version vi.level vi.errorCorrectionCodewordsPerBlock
      vi.numberOfBlocksInGroup1 vi.dataCodeWordsPerBlockInGroup1 vi.numberOfBlocksInGroup2
      vi.dataCodeWordsPerBlockInGroup2 = (vi.totalDataBytes : Int) ∧
    Gen.Qr.f_versionInfo_modulWidth vi.version vi.level vi.errorCorrectionCodewordsPerBlock
      vi.numberOfBlocksInGroup1 vi.dataCodeWordsPerBlockInGroup1 vi.numberOfBlocksInGroup2
      vi.dataCodeWordsPerBlockInGroup2 = (vi.modulWidth : Int) := by
  unfold Gen.Qr.f_versionInfo_totalDataBytes Gen.Qr.f_versionInfo_modulWidth VersionInfo.totalDataBytes
    VersionInfo.modulWidth
  simp only [Id.run, pure, bind]
  constructor
  · simp [Int.natCast_add, Int.natCast_mul]
  · have : ((vi.version - 1 : Nat) : Int) = (vi.version : Int) - 1 := by omega
    simp [Int.natCast_add, Int.natCast_mul, this]

open Model.Qr in
/-- `versionInfo.charCountBits` for the four mode indicators the code uses -/
theorem gen_qr_charCountBits (vi : VersionInfo) (m : Nat) (hm : m = 1 ∨ m = 2 ∨ m = 4 ∨ m = 8) :
    Gen.Qr.f_versionInfo_charCountBits vi.version vi.level vi.errorCorrectionCodewordsPerBlock
      vi.numberOfBlocksInGroup1 vi.dataCodeWordsPerBlockInGroup1 vi.numberOfBlocksInGroup2
      vi.dataCodeWordsPerBlockInGroup2 m = (vi.charCountBits m : Int) := by
  unfold Gen.Qr.f_versionInfo_charCountBits VersionInfo.charCountBits
  simp only [Id.run, pure, bind]
  have c1 : Gen.Qr.c_numericMode = 1 := rfl
  have c2 : Gen.Qr.c_alphaNumericMode = 2 := rfl
  have c4 : Gen.Qr.c_byteMode = 4 := rfl
  have c8 : Gen.Qr.c_kanjiMode = 8 := rfl
  by_cases h10 : vi.version < 10
  · have h10' : (vi.version : Int) < 10 := by omega
    rcases hm with h | h | h | h <;> subst h <;> simp [c1, c2, c4, c8, h10, h10']
  · by_cases h27 : vi.version < 27
    · have h10' : ¬ (vi.version : Int) < 10 := by omega
      have h27' : (vi.version : Int) < 27 := by omega
      rcases hm with h | h | h | h <;> subst h <;> simp [c1, c2, c4, c8, h10, h27, h10', h27']
    · have h10' : ¬ (vi.version : Int) < 10 := by omega
      have h27' : ¬ (vi.version : Int) < 27 := by omega
      rcases hm with h | h | h | h <;> subst h <;> simp [c1, c2, c4, c8, h10, h27, h10', h27']

theorem beq0 (n : Nat) : (((n : Nat) : Int) == 0) = (n == 0) := by
  by_cases h : n = 0
  · subst h; rfl
  · have h' : ¬ ((n : Int) = 0) := by omega
    rw [beq_eq_false_iff_ne.mpr h', beq_eq_false_iff_ne.mpr h]

theorem tm2 (a : Nat) : Int.tmod (a : Int) 2 = ((a % 2 : Nat) : Int) := by
  rw [Int.tmod_eq_emod_of_nonneg (by omega)]; omega
theorem tm3 (a : Nat) : Int.tmod (a : Int) 3 = ((a % 3 : Nat) : Int) := by
  rw [Int.tmod_eq_emod_of_nonneg (by omega)]; omega
theorem td2 (a : Nat) : Int.tdiv (a : Int) 2 = ((a / 2 : Nat) : Int) := by
  rw [Int.tdiv_eq_ediv_of_nonneg (by omega)]; omega
theorem td3 (a : Nat) : Int.tdiv (a : Int) 3 = ((a / 3 : Nat) : Int) := by
  rw [Int.tdiv_eq_ediv_of_nonneg (by omega)]; omega

/-- `setMasked`: the value handed to `set` is `val` XOR the ISO mask condition (row = y, column = x), for each of
the eight mask numbers; any other mask number leaves `val` unchanged. -/
theorem gen_qr_setMasked (x y : Nat) (val : Bool) (mask : Nat) (hm : mask < 8) :
    Gen.Qr.f_setMasked (x : Int) (y : Int) val (mask : Int) = (val != Spec.Qr.maskCond mask y x) := by
  have hm' : mask = 0 ∨ mask = 1 ∨ mask = 2 ∨ mask = 3 ∨ mask = 4 ∨ mask = 5 ∨ mask = 6 ∨ mask = 7 := by omega
  rcases hm' with h | h | h | h | h | h | h | h <;> subst h <;>
    simp only [Gen.Qr.f_setMasked, Spec.Qr.maskCond, Id.run, pure, bind, ← Int.natCast_add, ← Int.natCast_mul,
      tm2, tm3, td2, td3, beq0] <;> rfl

-- (no statement about mask numbers outside 0..7: `render` only passes 0..7, an edit of that dead path is harmless)

/-! ### the cells of the format information as a call script -/

/-- runs the generated script of `drawFormatInfo`: one `set(x, y, formatInfo[k])` per entry, in order -/
def runFormatScript {σ} (f : Nat → Bool) (set : Nat → Nat → Bool → σ → σ) (st : σ) (script : List (List Int)) : σ :=
  script.foldl (fun st c =>
    match c with
    | [x, y, k] => set x.toNat y.toNat (f k.toNat) st
    | _ => st) st

open Model.Qr in
/-- `drawFormatInfo` of the model writes exactly the thirty cells that the Go function's calls of `set` name, with
    the same bit index each, in the same order (`dim = vi.modulWidth()`). -/
theorem gen_qr_drawFormatInfo {σ} (vi : VersionInfo) (usedMask : Int) (set : Nat → Nat → Bool → σ → σ) (st : σ) :
    drawFormatInfo vi usedMask set st =
      (let formatInfo : List Bool :=
        if usedMask == -1 then List.replicate 15 true else formatInfoOf vi.level usedMask.toNat
       if formatInfo.length == 15 then
         runFormatScript (fun i => formatInfo.getD i false) set st (Gen.Qr.s_drawFormatInfo vi.modulWidth)
       else st) := by
  unfold drawFormatInfo runFormatScript Gen.Qr.s_drawFormatInfo
  generalize vi.modulWidth = dim
  have h1 : ((dim : Int) - 1).toNat = dim - 1 := by omega
  have h2 : ((dim : Int) - 2).toNat = dim - 2 := by omega
  have h3 : ((dim : Int) - 3).toNat = dim - 3 := by omega
  have h4 : ((dim : Int) - 4).toNat = dim - 4 := by omega
  have h5 : ((dim : Int) - 5).toNat = dim - 5 := by omega
  have h6 : ((dim : Int) - 6).toNat = dim - 6 := by omega
  have h7 : ((dim : Int) - 7).toNat = dim - 7 := by omega
  have h8 : ((dim : Int) - 8).toNat = dim - 8 := by omega
  simp only [List.foldl, h1, h2, h3, h4, h5, h6, h7, h8]
  rfl

example : Gen.Qr.f_setMasked 3 4 true 5 = (true != Spec.Qr.maskCond 5 4 3) := by decide

end BV.Props.GenQr
