/-
  C17 — Galois-field arithmetic, polynomial division and the Reed–Solomon encoder.
  Only property statements live here; lemmas are in BV/Proofs/GF.lean (tables, field laws),
  BV/Proofs/GFPoly.lean (polynomials) and BV/Proofs/RS.lean (encoder).
-/
import BV.Proofs.GF
import BV.Proofs.GFPoly
import BV.Proofs.GFPolySpec
import BV.Proofs.RS
import BV.Gen.Qr
import BV.Gen.Datamatrix
import BV.Gen.Aztec
namespace BV.Props.C17
open BV BV.Model.GF BV.Proofs.GF

/-! ## M1 — the fields and the field laws -/

/-- the six `(pp, size, base)` triples -/
def fields : List (Nat × Nat × Nat) := BV.Proofs.GF.fields

theorem fields_eq : fields =
    [(19, 16, 1), (67, 64, 1), (285, 256, 0), (301, 256, 1), (1033, 1024, 1), (4201, 4096, 1)] := rfl

/-- a triple as it appears in the generated call-site tables -/
def asCall (t : Nat × Nat × Nat) : List Int := [(t.1 : Int), (t.2.1 : Int), (t.2.2 : Int)]

/-- every `NewGaloisField(pp, size, b)` call in the library (QR, Data Matrix, Aztec) uses one of the six
    triples of `fields`, and every triple of `fields` is used by some call -/
theorem fields_are_call_sites :
    (∀ c ∈ BV.Gen.Qr.call_NewGaloisField ++ BV.Gen.Datamatrix.call_NewGaloisField ++
        BV.Gen.Aztec.call_NewGaloisField, c ∈ fields.map asCall) ∧
    (∀ t ∈ fields, asCall t ∈ BV.Gen.Qr.call_NewGaloisField ++ BV.Gen.Datamatrix.call_NewGaloisField ++
        BV.Gen.Aztec.call_NewGaloisField) := by
  decide

/-- multiplication is commutative -/
theorem C17_mul_comm (pp n b : Nat) (_h : (pp, n, b) ∈ fields) (x y : Nat) (_hx : x < n) (_hy : y < n) :
    (newField pp n b).mul x y = (newField pp n b).mul y x :=
  mul_comm _ x y

/-- multiplication is associative -/
theorem C17_mul_assoc (pp n b : Nat) (h : (pp, n, b) ∈ fields) (x y z : Nat) (hx : x < n) (hy : y < n)
    (hz : z < n) :
    (newField pp n b).mul ((newField pp n b).mul x y) z = (newField pp n b).mul x ((newField pp n b).mul y z) :=
  mul_assoc (fields_ok _ h).prim b x y z hx hy hz

/-- products of field elements are field elements -/
theorem C17_mul_closed (pp n b : Nat) (h : (pp, n, b) ∈ fields) (x y : Nat) (hx : x < n) (hy : y < n) :
    (newField pp n b).mul x y < n :=
  mul_lt (fields_ok _ h).prim b x y hx hy

/-- 1 is the neutral element -/
theorem C17_mul_one (pp n b : Nat) (h : (pp, n, b) ∈ fields) (x : Nat) (hx : x < n) :
    (newField pp n b).mul x 1 = x ∧ (newField pp n b).mul 1 x = x :=
  ⟨mul_one (fields_ok _ h).prim b x hx, by rw [mul_comm]; exact mul_one (fields_ok _ h).prim b x hx⟩

/-- every non-zero element times its inverse is one; the inverse is a non-zero field element -/
theorem C17_mul_inv (pp n b : Nat) (h : (pp, n, b) ∈ fields) (x : Nat) (hx : x < n) (hx0 : 0 < x) :
    (newField pp n b).mul x ((newField pp n b).inv x) = 1 ∧ (newField pp n b).inv x < n ∧
      0 < (newField pp n b).inv x :=
  mul_inv (fields_ok _ h).prim b x hx0 hx

/-- division is defined for every non-zero divisor and undoes multiplication -/
theorem C17_div (pp n b : Nat) (h : (pp, n, b) ∈ fields) (x y : Nat) (hx : x < n) (hy : y < n) (hy0 : 0 < y) :
    ∃ q, (newField pp n b).div x y = some q ∧ q < n ∧ (newField pp n b).mul q y = x :=
  div_spec (fields_ok _ h).prim b x y hx hy0 hy

/-- division by zero is the explicit Go panic -/
theorem C17_div_zero (pp n b x : Nat) : (newField pp n b).div x 0 = none := div_zero _ x

/-- `(x·y)/y = x`: division undoes multiplication (consequence of `C17_div` and the absence of zero divisors) -/
theorem C17_div_mul (pp n b : Nat) (h : (pp, n, b) ∈ fields) (x y : Nat) (hx : x < n) (hy : y < n) (hy0 : 0 < y) :
    (newField pp n b).div ((newField pp n b).mul x y) y = some x :=
  div_mul_cancel (fields_ok _ h).prim b x y hx hy0 hy

/-- no table access of `Multiply`, `Divide`, `Invers` is out of range for in-range operands `x y < n` (the
    `LogTbl` indices are `x`, `y` themselves, `LogTbl` has `n` entries); the intermediate value of `Divide`
    (`LogTbl[x] - LogTbl[y] + (Size-1)`) and of `Invers` (`(Size-1) - LogTbl[x]`) is not negative.
    So Go cannot panic with an index error there and the `getD` default of the model is never used. -/
theorem C17_index_in_range (pp n b : Nat) (h : (pp, n, b) ∈ fields) (x y : Nat) (hx : x < n) (hy : y < n) :
    let f := newField pp n b
    f.log.size = n ∧ f.alog.size = n ∧ f.size = n ∧
    -- Multiply
    (f.log.getD x 0 + f.log.getD y 0) % (f.size - 1) < f.alog.size ∧
    -- Divide
    f.log.getD y 0 ≤ f.log.getD x 0 + (f.size - 1) ∧
    (f.log.getD x 0 + (f.size - 1) - f.log.getD y 0) % (f.size - 1) < f.alog.size ∧
    -- Invers
    f.log.getD x 0 ≤ f.size - 1 ∧ (f.size - 1) - f.log.getD x 0 < f.alog.size :=
  index_in_range (fields_ok _ h).prim b x y hx hy

/-! ## M2 — ring structure, agreement with the specification's field -/

/-- multiplication distributes over addition (= XOR) -/
theorem C17_distrib (pp n b : Nat) (h : (pp, n, b) ∈ fields) (x y z : Nat) (hx : x < n) (hy : y < n)
    (hz : z < n) :
    (newField pp n b).mul (x ^^^ z) y = (newField pp n b).mul x y ^^^ (newField pp n b).mul z y ∧
    (newField pp n b).mul y (x ^^^ z) = (newField pp n b).mul y x ^^^ (newField pp n b).mul y z ∧
    x ^^^ z < n :=
  ok_distrib (fields_ok _ h) b x y z hx hy hz

/-- the table-driven multiplication of the library is the shift-and-reduce multiplication of the
    specification field `GF(2)[x]/(pp)` -/
theorem C17_mul_eq_spec (pp n b : Nat) (h : (pp, n, b) ∈ fields) (x y : Nat) (hx : x < n) (hy : y < n) :
    (newField pp n b).mul x y = (Spec.RS.BinField.mk pp n).mul x y :=
  ok_mul_eq_spec (fields_ok _ h) b x y hx hy

/-- the antilog table holds the powers of the generator element `α = 2` as the specification computes them -/
theorem C17_alog_eq_spec_pow (pp n b : Nat) (h : (pp, n, b) ∈ fields) (i : Nat) (hi : i < n) :
    (newField pp n b).alog.getD i 0 = (Spec.RS.BinField.mk pp n).pow 2 i :=
  ok_alog_eq_spec_pow (fields_ok _ h) b i hi

/-- the hypotheses are satisfiable: concrete products in GF(256)/285 and GF(16)/19 -/
example : (285, 256, 0) ∈ fields ∧ (newField 285 256 0).mul 87 13 = 148 ∧
    (newField 285 256 0).div 148 13 = some 87 ∧ (newField 19 16 1).inv 7 = 6 := by decide +kernel

/-! ## M3 — polynomials

  Vocabulary (defined in `BV/Proofs/GFPoly.lean`):
  * `cf p d` — the coefficient of degree `d` of the coefficient list `p` (highest degree first), 0 beyond the
    list; two lists denote the same polynomial iff all `cf` agree (`C17_cf_ext`, `C17_cf_polyEq`); inside the
    list it is the model's `GetCoefficient` (`C17_cf_coeff`).
  * `conv f g h d = ⊕_{i ≤ d} g i · h (d-i)` — the coefficients of the product (Cauchy product).
  * `AllLt n p` — all coefficients are field elements; `Norm p` — the normal form `NewGFPoly` produces
    (a single coefficient, or a non-zero leading coefficient).
-/

theorem C17_cf_coeff (p : Poly) (d : Nat) (h : d < p.length) : cf p d = coeff p d := cf_eq_coeff p d h

/-- normal forms are determined by their coefficients -/
theorem C17_cf_ext (p q : Poly) (hp : Norm p) (hq : Norm q) (h : ∀ d, cf p d = cf q d) : p = q :=
  norm_ext hp hq h

/-- the specification's "equal modulo leading zeros" is equality of all coefficients -/
theorem C17_cf_polyEq (p q : Poly) : Spec.RS.polyEq p q = true ↔ ∀ d, cf p d = cf q d :=
  ⟨cf_of_polyEq p q, polyEq_of_cf p q⟩

/-- `NewGFPoly` keeps the polynomial and produces a normal form -/
theorem C17_newPoly (p : Poly) : (∀ d, cf (newPoly p) d = cf p d) ∧ (p ≠ [] → Norm (newPoly p)) :=
  ⟨cf_newPoly p, newPoly_norm p⟩

/-- `AddOrSubstract` adds coefficient-wise (XOR) -/
theorem C17_polyAdd (pp n b : Nat) (h : (pp, n, b) ∈ fields) (p q : Poly) (hp : Norm p) (hq : Norm q) :
    (∀ d, cf (polyAdd p q) d = cf p d ^^^ cf q d) ∧ Norm (polyAdd p q) ∧
      (AllLt n p → AllLt n q → AllLt n (polyAdd p q)) :=
  polyAdd_spec (laws_of_ok (fields_ok _ h) b) p q hp hq

/-- `MultByMonominal(deg, c)` shifts by `deg` and scales by `c` -/
theorem C17_mulMonomial (pp n b : Nat) (h : (pp, n, b) ∈ fields) (p : Poly) (deg c : Nat) :
    (∀ d, cf (mulMonomial (newField pp n b) p deg c) d =
      if d < deg then 0 else (newField pp n b).mul (cf p (d - deg)) c) ∧
    (p ≠ [] ∨ 0 < deg → Norm (mulMonomial (newField pp n b) p deg c)) ∧
    (AllLt n p → c < n → AllLt n (mulMonomial (newField pp n b) p deg c)) :=
  mulMonomial_spec (laws_of_ok (fields_ok _ h) b) p deg c

/-- `Multiply` computes the Cauchy product — which is also what the specification's raw product computes -/
theorem C17_polyMul (pp n b : Nat) (h : (pp, n, b) ∈ fields) (p q : Poly) (hp : Norm p) (hq : Norm q)
    (hap : AllLt n p) (haq : AllLt n q) :
    (∀ d, cf (polyMul (newField pp n b) p q) d = conv (newField pp n b) (cf p) (cf q) d) ∧
    Spec.RS.polyEq (polyMul (newField pp n b) p q) ((Spec.RS.BinField.mk pp n).polyMulRaw p q) = true ∧
    Norm (polyMul (newField pp n b) p q) ∧ AllLt n (polyMul (newField pp n b) p q) := by
  have hok : FieldOK pp n := fields_ok _ h
  obtain ⟨h1, h2, h3, _⟩ := polyMul_spec (laws_of_ok hok b) p q hp hq hap haq
  exact ⟨h1, polyEq_of_cf _ _ (fun d => by rw [h1 d, cf_polyMulRaw hok b p q hap haq]), h2, h3⟩

/-- `Divide`: for a normalised dividend and a divisor with non-zero leading coefficient,
    dividend = quotient × divisor + remainder — as coefficient identity, in the specification's raw polynomial
    arithmetic, and literally inside the model — and the remainder is `[0]` or of smaller degree than the divisor -/
theorem C17_polyDiv (pp n b : Nat) (h : (pp, n, b) ∈ fields) (p q : Poly) (hp : AllLt n p) (hq : AllLt n q)
    (hnp : Norm p) (hlead : q.headD 0 ≠ 0) :
    (∀ d, cf p d = conv (newField pp n b) (cf (polyDiv (newField pp n b) p q).1) (cf q) d ^^^
      cf (polyDiv (newField pp n b) p q).2 d) ∧
    Spec.RS.polyEq p (Spec.RS.polyAddRaw
      ((Spec.RS.BinField.mk pp n).polyMulRaw (polyDiv (newField pp n b) p q).1 q)
      (polyDiv (newField pp n b) p q).2) = true ∧
    polyAdd (polyMul (newField pp n b) (polyDiv (newField pp n b) p q).1 q) (polyDiv (newField pp n b) p q).2 = p ∧
    ((polyDiv (newField pp n b) p q).2 = [0] ∨ degree (polyDiv (newField pp n b) p q).2 < degree q) ∧
    Norm (polyDiv (newField pp n b) p q).1 ∧ Norm (polyDiv (newField pp n b) p q).2 ∧
    AllLt n (polyDiv (newField pp n b) p q).1 ∧ AllLt n (polyDiv (newField pp n b) p q).2 := by
  have hok : FieldOK pp n := fields_ok _ h
  have L := laws_of_ok hok b
  obtain ⟨r1, r2, r3, r4, r5, r6⟩ := polyDiv_spec L p q hnp hp hq hlead
  refine ⟨r6, ?_, polyDiv_recompose L p q hnp hp hq hlead, ?_, r1, r2, r3, r4⟩
  · apply polyEq_of_cf
    intro d
    rw [cf_polyAddRaw, cf_polyMulRaw hok b _ q r3 hq, r6 d]
  · rcases r5 with h5 | h5
    · exact Or.inl h5
    · right; unfold degree; omega

/-- the normal-form guard of `C17_polyDiv` is needed: a dividend with a leading zero is returned unchanged as
    "remainder" (Go's `GFPoly` values built by `NewGFPoly` never have this shape) -/
example : polyDiv (newField 19 16 1) [0, 5, 5] [1, 1] = ([0], [0, 5, 5]) := by decide +kernel

/-- the hypotheses of `C17_polyDiv` are satisfiable: (x⁴+2x²+6x+9) / (3x²+1) in GF(16) -/
example : (19, 16, 1) ∈ fields ∧ AllLt 16 [1, 0, 2, 6, 9] ∧ AllLt 16 [3, 0, 1] ∧ Norm [1, 0, 2, 6, 9] ∧
    ([3, 0, 1] : Poly).headD 0 ≠ 0 ∧
    polyDiv (newField 19 16 1) [1, 0, 2, 6, 9] [3, 0, 1] = ([14, 0, 4], [6, 13]) := by
  refine ⟨by decide, by decide, by decide, Or.inr (by decide), by decide, by decide +kernel⟩

/-! ## M4 — the Reed–Solomon encoder

  * `genPoly f d` — the generator polynomial `∏_{i<d} (x + α^(i+base))` built with the model's own `polyMul`;
  * `CacheInv f c` — the cache `c` of the encoder is non-empty and its entry `d` is `genPoly f d`
    (the state every `ReedSolomonEncoder` is in: `C17_newEncoder_inv`, `C17_rs_encode`).
-/

/-- a fresh encoder satisfies the cache invariant -/
theorem C17_newEncoder_inv (f : Field) : CacheInv f newEncoder := cacheInv_new f

/-- the generator polynomial of degree `k` is monic of degree `k` and vanishes at `α^base … α^(base+k-1)` -/
theorem C17_genPoly (pp n b : Nat) (h : (pp, n, b) ∈ fields) (k : Nat) (hk : k ≤ n - 1) :
    (genPoly (newField pp n b) k).length = k + 1 ∧ (genPoly (newField pp n b) k).headD 0 = 1 ∧
    AllLt n (genPoly (newField pp n b) k) ∧
    ∀ i, i < k → (Spec.RS.BinField.mk pp n).eval (genPoly (newField pp n b) k)
      ((Spec.RS.BinField.mk pp n).pow 2 (b + i)) = 0 :=
  have hok : FieldOK pp n := fields_ok _ h
  have hb : b ≤ 1 := fields_base _ h
  ok_genPoly hok b k (by have := hok.prim.two_le; omega)

/-- `Encode(data, k)`, from any reachable encoder state: `k` check symbols, all field elements, such that
    data followed by the check symbols evaluates to zero at `α^base, …, α^(base+k-1)` (the specification's
    `valid`); the result does not depend on the cache (it equals `Encode` on a fresh encoder), and the new cache
    satisfies the invariant again -/
theorem C17_rs_encode (pp n b : Nat) (h : (pp, n, b) ∈ fields) (data : List Nat) (hd : AllLt n data) (k : Nat)
    (hk1 : 1 ≤ k) (hkn : k ≤ n - 1) (c : Cache) (hc : CacheInv (newField pp n b) c) :
    ((encodeWith (newField pp n b) c data k).1).length = k ∧
    AllLt n (encodeWith (newField pp n b) c data k).1 ∧
    (Spec.RS.BinField.mk pp n).valid b k (data ++ (encodeWith (newField pp n b) c data k).1) = true ∧
    (encodeWith (newField pp n b) c data k).1 = rsEncode (newField pp n b) data k ∧
    CacheInv (newField pp n b) (encodeWith (newField pp n b) c data k).2 :=
  have hok : FieldOK pp n := fields_ok _ h
  have hb : b ≤ 1 := fields_base _ h
  ok_encode hok b k hk1 (by have := hok.prim.two_le; omega) c hc data hd

/-- uniqueness: the encoder's output is the ONLY sequence of `k` symbols that completes `data` to a valid word
    (a non-zero polynomial of degree `< k` cannot vanish at the `k` distinct points `α^base … α^(base+k-1)`) -/
theorem C17_rs_unique (pp n b : Nat) (h : (pp, n, b) ∈ fields) (data : List Nat) (hd : AllLt n data) (k : Nat)
    (hk1 : 1 ≤ k) (hkn : k ≤ n - 1) (e' : List Nat) (hl : e'.length = k)
    (hv : (Spec.RS.BinField.mk pp n).valid b k (data ++ e') = true) :
    e' = rsEncode (newField pp n b) data k :=
  have hok : FieldOK pp n := fields_ok _ h
  have hb : b ≤ 1 := fields_base _ h
  ok_encode_unique hok b k hk1 (by have := hok.prim.two_le; omega) hkn data hd e' hl hv

/-- a sequence of `Encode` calls on one encoder, threading the cache -/
def runEncoder (f : Field) : Cache → List (List Nat × Nat) → List (List Nat)
  | _, [] => []
  | c, (data, k) :: rest => (encodeWith f c data k).1 :: runEncoder f (encodeWith f c data k).2 rest

/-- "regardless of which degrees were requested before": whatever sequence of requests an encoder serves, every
    answer is the answer a fresh encoder gives (no guard on the requests is needed for this) -/
theorem C17_rs_history_independent (f : Field) : ∀ (c : Cache) (reqs : List (List Nat × Nat)), CacheInv f c →
    runEncoder f c reqs = reqs.map (fun r => rsEncode f r.1 r.2)
  | _, [], _ => rfl
  | c, (data, k) :: rest, hc => by
    show (encodeWith f c data k).1 :: runEncoder f (encodeWith f c data k).2 rest = _
    rw [C17_rs_history_independent f _ rest (encodeWith_snd f c hc data k), encodeWith_fst f c hc data k]
    show _ = rsEncode f data k :: _
    rw [show rsEncode f data k = checkSymbols f data k from encodeWith_fst f newEncoder (cacheInv_new f) data k]

/-- the hypotheses of `C17_rs_encode` are satisfiable, with a cache that served other degrees before:
    GF(16), 3 data symbols, 4 check symbols -/
example : (19, 16, 1) ∈ fields ∧ AllLt 16 [1, 2, 3] ∧
    (encodeWith (newField 19 16 1) (encodeWith (newField 19 16 1) newEncoder [5] 6).2 [1, 2, 3] 4).1 =
      rsEncode (newField 19 16 1) [1, 2, 3] 4 ∧
    (Spec.RS.BinField.mk 19 16).valid 1 4 ([1, 2, 3] ++ rsEncode (newField 19 16 1) [1, 2, 3] 4) = true := by
  refine ⟨by decide, by decide, by decide +kernel, by decide +kernel⟩

/-- outside the guard `1 ≤ k`: for `k = 0` the model returns one symbol (`[0]`), where Go's
    `copy(result[numZero:], …)` with `numZero = -1` panics; no caller requests 0 check symbols -/
example : rsEncode (newField 19 16 1) [1, 2, 3] 0 = [0] := by decide +kernel

end BV.Props.C17
