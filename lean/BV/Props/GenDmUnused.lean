/-
  GenDmUnused — the call scripts of `Corner3` and `Corner4` (datamatrix/codelayout.go).  Both functions are dead code
  for the 24 square symbol sizes of `codeSizes` (their guards `MatrixColumns()%8 == 4` at `row == MatrixRows()-2` and
  `MatrixColumns()%8 == 0` at `row == MatrixRows()+4, col == 2` never hold on the path `SetValues` takes; statement
  coverage of every workload shows zero executions).  The tie is kept for completeness, outside the obligations of
  the properties.
-/
import BV.Props.GenDm
namespace BV.Props.GenDmUnused
open BV BV.Props.GenDm

open Model.Datamatrix in
theorem gen_dm_scripts_unused (l : CodeLayout) (value : UInt8) :
    l.corner3 value = runScript l value (Gen.Datamatrix.s_codeLayout_Corner3 l.size.matrixColumns l.size.matrixRows) ∧
    l.corner4 value = runScript l value (Gen.Datamatrix.s_codeLayout_Corner4 l.size.matrixColumns l.size.matrixRows) :=
  ⟨rfl, rfl⟩

end BV.Props.GenDmUnused
