/-
  QrA — QR Code: tables, version choice, data bit stream, acceptance, panic freedom.
  (To be distributed over C01 / C10 / C12 / C13 / C16.)  Only property statements live here; the lemmas are in
  BV/Proofs/QrTables.lean (A), QrStreamA.lean (B, C), QrAccept.lean (D), QrRender.lean and QrCoords.lean (D, pipeline).

  "certificate" = the finite fact is checked by kernel evaluation over the whole generated table
  (`decide +kernel` in BV/Proofs/QrTables.lean) and then lifted to the quantified statement given here.
-/
import BV.Proofs.QrCoords
namespace BV.Props.QrA
open BV BV.Model BV.Model.Qr BV.Gen.Qr
open BV.Proofs.QrTables BV.Proofs.QrStreamA BV.Proofs.QrAccept BV.Proofs.QrRender BV.Proofs.QrCoords

/-! ## A — table certificates -/

/-- A1 (certificate).  The 160 generated rows of `versionInfos` are exactly Table 9 of ISO/IEC 18004 as written
    down in `Spec.Qr.blockTable`, in table order (`isoRows` = the table flattened: version, level index, ec
    codewords per block, group 1, group 2 or 0×0); Table 9 itself lists the versions 1..40 in order, each with
    the four levels in the order L, M, Q, H (= 0, 1, 2, 3) and one or two groups per entry. -/
theorem versionInfos_eq_iso :
    versionInfos = isoRows ∧
    Spec.Qr.blockTable.map (·.1) = (List.range 40).map (· + 1) ∧
    (∀ vr ∈ Spec.Qr.blockTable, vr.2.map (·.1) = ['L', 'M', 'Q', 'H']) ∧
    (∀ vr ∈ Spec.Qr.blockTable, ∀ e ∈ vr.2, e.2.2.length = 1 ∨ e.2.2.length = 2) :=
  ⟨versionInfos_eq_isoRows, blockTable_shape⟩

/-- A1 (certificate).  The table is sorted by version; its (version, level) keys are (1,0),(1,1),(1,2),(1,3),
    (2,0), …, (40,3); hence every row has 1 ≤ version ≤ 40 and level ≤ 3, and every such (version, level)
    occurs exactly once. -/
theorem versionInfos_sorted_complete :
    versionInfos.Pairwise (fun a b => a.version ≤ b.version) ∧
    versionInfos.map (fun vi => (vi.version, vi.level)) = (List.range 160).map (fun i => (i / 4 + 1, i % 4)) ∧
    (∀ vi ∈ versionInfos, 1 ≤ vi.version ∧ vi.version ≤ 40 ∧ vi.level ≤ 3) ∧
    (∀ v l, 1 ≤ v → v ≤ 40 → l ≤ 3 →
      (versionInfos.map (fun vi => (vi.version, vi.level))).count (v, l) = 1) :=
  ⟨versionInfos_sorted, versionInfos_keys, fun _ h => mem_versionInfos_range h, versionInfos_count⟩

/-- A1.  For every version 1..40 and level 0..3 there is exactly one row. -/
theorem versionInfos_exists_unique (v l : Nat) (h1 : 1 ≤ v) (h40 : v ≤ 40) (hl : l ≤ 3) :
    ∃ vi, vi ∈ versionInfos ∧ vi.version = v ∧ vi.level = l ∧
      ∀ vi', vi' ∈ versionInfos → vi'.version = v → vi'.level = l → vi' = vi :=
  exists_unique_row v l h1 h40 hl

/-- A1 / A6 (certificate).  For every generated row, the table lookup of the reference decoder
    (`specEntry` = `blockTable.lookup version` then the entry of `levelChar level`) gives the same number of ec
    codewords per block, the same block lengths in the same order (group 1 first), the same number of blocks,
    and `totalDataBytes` is the number of data codewords the decoder derives. -/
theorem versionInfos_row_spec (vi : VersionInfo) (h : vi ∈ versionInfos) :
    ∃ groups, specEntry vi.version vi.level = some (vi.errorCorrectionCodewordsPerBlock, groups) ∧
      specLens groups = List.replicate vi.numberOfBlocksInGroup1 vi.dataCodeWordsPerBlockInGroup1 ++
        List.replicate vi.numberOfBlocksInGroup2 vi.dataCodeWordsPerBlockInGroup2 ∧
      (specLens groups).length = vi.numberOfBlocksInGroup1 + vi.numberOfBlocksInGroup2 ∧
      (specLens groups).foldl (· + ·) 0 = vi.totalDataBytes :=
  versionInfos_spec h

/-- A2 (certificate over the 32 words).  For every level l ≤ 3 and mask m ≤ 7 the generated format word has 15
    bits; read most significant bit first and with the mask pattern 0x5412 removed it is a word of the
    BCH(15,5) code with generator 0x537; its five data bits are (ISO level bits of l: L=01, M=00, Q=11, H=10)
    followed by m; the reference decoder reads back level l and mask m. -/
theorem formatInfos_bch (l m : Nat) (hl : l ≤ 3) (hm : m ≤ 7) :
    (formatInfoOf l m).length = 15 ∧
    Spec.Qr.formatWordValid (bitsToNat (formatInfoOf l m) ^^^ Spec.Qr.formatMaskPattern) = true ∧
    (bitsToNat (formatInfoOf l m) ^^^ Spec.Qr.formatMaskPattern) / 2 ^ 10 = isoLevelBits l * 8 + m ∧
    Spec.Qr.levelOfFormatBits ((bitsToNat (formatInfoOf l m) ^^^ Spec.Qr.formatMaskPattern) / 2 ^ 13) = l ∧
    ((bitsToNat (formatInfoOf l m) ^^^ Spec.Qr.formatMaskPattern) / 2 ^ 10) % 8 = m :=
  BV.Proofs.QrTables.formatInfos_bch l m hl hm

/-- A2 (certificate).  The map has exactly the keys 0..3, every inner map exactly the keys 0..7 (32 entries);
    any other level or mask gives the nil slice. -/
theorem formatInfos_entries :
    v_formatInfos.map (·.1) = [0, 1, 2, 3] ∧
    (∀ e ∈ v_formatInfos, e.2.map (·.1) = [0, 1, 2, 3, 4, 5, 6, 7]) ∧
    (∀ l m, 4 ≤ l → formatInfoOf l m = []) ∧ (∀ l m, 8 ≤ m → formatInfoOf l m = []) :=
  ⟨formatInfos_keys.1, formatInfos_keys.2, formatInfoOf_level_undefined, formatInfoOf_mask_undefined⟩

/-- A2 (placement).  `drawFormatInfo` writes list index i of the word at the module where the reference decoder
    reads bit 14 - i of the first copy and of the second copy: the generated lists are most significant bit
    first, as `formatInfos_bch` reads them.  (`formatCells` is the literal cell list of `drawFormatInfo`,
    see `drawFormatInfo_eq`, which holds by `rfl`.) -/
theorem formatInfo_placement (dim : Nat) (h : 21 ≤ dim) :
    formatCells dim =
      (List.range 15).map (fun i => ((Spec.Qr.formatPosA (14 - i)).1, (Spec.Qr.formatPosA (14 - i)).2, i)) ++
      (List.range 15).map (fun i => ((Spec.Qr.formatPosB dim (14 - i)).1, (Spec.Qr.formatPosB dim (14 - i)).2, i)) :=
  formatCells_spec dim h

/-- A3 (certificate over the 34 words).  For 7 ≤ v ≤ 40 the generated version word has 18 bits, is (most
    significant bit first) a word of the BCH(18,6) code with generator 0x1F25, and its six data bits are v. -/
theorem versionInfoBits_bch (v : Nat) (h7 : 7 ≤ v) (h40 : v ≤ 40) :
    ∃ bits, mapGet v_versionInfoBitsByVersion (v : Int) = some bits ∧ bits.length = 18 ∧
      Spec.Qr.versionWordValid (bitsToNat bits) = true ∧ bitsToNat bits / 2 ^ 12 = v :=
  BV.Proofs.QrTables.versionInfoBits_bch v h7 h40

/-- A3.  There is no version word for versions below 7 (or above 40): `drawVersionInfo` draws nothing. -/
theorem versionInfoBits_none (v : Nat) (h : v < 7 ∨ 40 < v) :
    mapGet v_versionInfoBitsByVersion (v : Int) = none :=
  BV.Proofs.QrTables.versionInfoBits_none v h

/-- A3 (placement).  `drawVersionInfo` writes list element n-1-i (bit i, 0 = least significant) at the two
    places where the reference decoder reads bit i (`versionPosA`, `versionPosB`). -/
theorem versionInfo_placement {σ} (vi : VersionInfo) (set : Nat → Nat → Bool → σ → σ) (st : σ) :
    drawVersionInfo vi set st =
      match mapGet v_versionInfoBitsByVersion (vi.version : Int) with
      | none => st
      | some bits =>
        if bits.length > 0 then
          (List.range bits.length).foldl (fun st i =>
            let a := Spec.Qr.versionPosA vi.modulWidth i
            let b := Spec.Qr.versionPosB vi.modulWidth i
            let v := bits.getD (bits.length - i - 1) false
            set b.1 b.2 v (set a.1 a.2 v st)) st
        else st :=
  drawVersionInfo_eq vi set st

/-- A4 (certificate).  The generated `charSet` is the alphanumeric set of the standard in value order; its 45
    characters are pairwise distinct, all ASCII, and `strings.IndexRune(charSet, c)` of the i-th character is i. -/
theorem charSet_eq :
    c_charSet = Spec.Qr.alnumChars ∧ c_charSet.length = 45 ∧ c_charSet.Nodup ∧
    (∀ b ∈ c_charSet, b.toNat < 128) ∧
    (∀ i : Nat, i < 45 → indexRune c_charSet (c_charSet.getD i 0).toNat = (i : Int)) :=
  ⟨BV.Proofs.QrTables.charSet_eq, charSet_length, charSet_nodup, charSet_ascii, indexRune_charSet⟩

/-- A5 (certificate: the model function evaluated on the 40 versions).  For every version 1..40
    `alignmentPatternPlacements` is the row of Annex E. -/
theorem alignment_eq_annexE (vi : VersionInfo) (h1 : 1 ≤ vi.version) (h40 : vi.version ≤ 40) :
    Spec.Qr.alignmentCentres.lookup vi.version = some vi.alignmentPatternPlacements :=
  BV.Proofs.QrTables.alignment_eq_annexE vi h1 h40

/-- A6.  The width of the character count indicator is that of Table 3, for every version and every mode value
    except kanji (8), which the encoder never uses and the reference decoder does not know. -/
theorem charCountBits_eq (vi : VersionInfo) (m : Nat) (hm : m ≠ 8) :
    vi.charCountBits m = Spec.Qr.countBits vi.version m :=
  BV.Proofs.QrTables.charCountBits_eq vi m hm

/-- A6.  The side length is 17 + 4·version. -/
theorem modulWidth_eq (vi : VersionInfo) (h1 : 1 ≤ vi.version) : vi.modulWidth = 17 + 4 * vi.version :=
  BV.Proofs.QrTables.modulWidth_eq vi h1

/-- A6 (certificate over the 160 rows).  `totalDataBytes` is the number of data codewords of Table 9. -/
theorem totalDataBytes_eq (vi : VersionInfo) (h : vi ∈ versionInfos) :
    ∃ ec groups, specEntry vi.version vi.level = some (ec, groups) ∧
      vi.totalDataBytes = (specLens groups).foldl (· + ·) 0 :=
  BV.Proofs.QrTables.totalDataBytes_eq h

/-! ## B — version choice -/

/-- B1.  A row returned by `findSmallestVersionInfo` is a row of the table, has the requested level, and holds
    mode indicator + character count + payload: `dataBits + 4 + charCountBits ≤ 8 · totalDataBytes` (`Fits`). -/
theorem findSmallest_fits (ecl mode dataBits : Nat) (vi : VersionInfo)
    (h : findSmallestVersionInfo ecl mode dataBits = some vi) :
    vi ∈ versionInfos ∧ vi.level = ecl ∧ dataBits + 4 + vi.charCountBits mode ≤ 8 * vi.totalDataBytes :=
  BV.Proofs.QrStreamA.findSmallest_fits h

/-- B2.  It is the smallest: no row of the same level with a smaller version fits. -/
theorem findSmallest_minimal (ecl mode dataBits : Nat) (vi : VersionInfo)
    (h : findSmallestVersionInfo ecl mode dataBits = some vi) :
    ∀ vi', vi' ∈ versionInfos → vi'.level = ecl → vi'.version < vi.version →
      ¬ (dataBits + 4 + vi'.charCountBits mode ≤ 8 * vi'.totalDataBytes) :=
  BV.Proofs.QrStreamA.findSmallest_minimal h

/-- B3.  `none` iff no row of that level fits; in particular always `none` for an undefined level (≥ 4). -/
theorem findSmallest_none_iff (ecl mode dataBits : Nat) :
    (findSmallestVersionInfo ecl mode dataBits = none ↔
      ∀ vi, vi ∈ versionInfos → vi.level = ecl →
        ¬ (dataBits + 4 + vi.charCountBits mode ≤ 8 * vi.totalDataBytes)) ∧
    (4 ≤ ecl → findSmallestVersionInfo ecl mode dataBits = none) :=
  ⟨BV.Proofs.QrStreamA.findSmallest_none_iff ecl mode dataBits, findSmallest_none_of_level ecl mode dataBits⟩

/-- B4.  The payload sizes the three encoders ask for, with n = BYTE length of the content:
    numeric 10·(n/3) + (0, 4, 7 for n mod 3 = 0, 1, 2), alphanumeric 11·(n/2) + 6·(n mod 2), byte 8·n;
    and what they return in terms of the pieces (`header` = mode indicator ++ character count). -/
theorem payload_bit_counts (content : Bytes) (ecl : Nat) :
    (encodeNumeric content ecl =
      match findSmallestVersionInfo ecl 1 (numericBits content.length) with
      | none => none
      | some vi =>
        match numericChunks content.length content with
        | none => none
        | some chunks => some (addPaddingAndTerminator (header 1 content.length vi ++ chunks) vi, vi)) ∧
    (encodeAlphaNumeric content ecl =
      match findSmallestVersionInfo ecl 2 (alnumBits content.length) with
      | none => none
      | some vi =>
        match alphaPairs (content.length / 2) (stringToAlphaIdx content) with
        | none => none
        | some (pairs, rest) =>
          if content.length % 2 = 1 then
            if (recv rest).1 < 0 then none
            else some (addPaddingAndTerminator
              (header 2 content.length vi ++ (pairs ++ msbBits (recv rest).1.toNat 6)) vi, vi)
          else some (addPaddingAndTerminator (header 2 content.length vi ++ pairs) vi, vi)) ∧
    (encodeUnicode content ecl =
      match findSmallestVersionInfo ecl 4 (byteBits content.length) with
      | none => none
      | some vi => some (addPaddingAndTerminator
          (header 4 content.length vi ++ content.flatMap (fun b => msbBits b.toNat 8)) vi, vi)) ∧
    numericBits content.length =
      10 * (content.length / 3) + (if content.length % 3 = 1 then 4 else if content.length % 3 = 2 then 7 else 0) ∧
    alnumBits content.length = 11 * (content.length / 2) + 6 * (content.length % 2) ∧
    byteBits content.length = 8 * content.length :=
  ⟨encodeNumeric_eq content ecl, encodeAlphaNumeric_eq content ecl, encodeUnicode_eq content ecl, rfl, rfl, rfl⟩

/-! ## C — length and shape of the data bit stream -/

/-- C.  `addPaddingAndTerminator` on a stream that does not exceed the capacity: the input, then
    min(4, capacity − length) zero bits, then zero bits up to the next multiple of 8, then the pad codewords
    236, 17, 236, … (`padSeq n 0`); the total length is exactly the capacity 8·totalDataBytes. -/
theorem addPaddingAndTerminator_shape (bl : List Bool) (vi : VersionInfo)
    (h : bl.length ≤ 8 * vi.totalDataBytes) :
    let cap := 8 * vi.totalDataBytes
    let t := min 4 (cap - bl.length)
    let a := (8 - (bl.length + t) % 8) % 8
    addPaddingAndTerminator bl vi =
      bl ++ (List.replicate t false ++ (List.replicate a false ++ padSeq ((cap - (bl.length + t + a)) / 8) 0)) ∧
    (addPaddingAndTerminator bl vi).length = cap :=
  ⟨addPaddingAndTerminator_eq bl vi h, length_addPaddingAndTerminator bl vi h⟩

/-- C (numeric).  If `encodeNumeric` returns `(bits, vi)` then (`StreamSpec`): vi is the row the version search
    returns for `numericBits n` (so of level ecl and minimal), `bits.length = 8 · vi.totalDataBytes`,
    bits = mode indicator 0001 ++ count ++ payload of `numericBits n` bits ++ terminator ++ padding, the count
    field has the width of Table 3 and n < 2^width. -/
theorem encodeNumeric_stream (content : Bytes) (ecl : Nat) (bits : List Bool) (vi : VersionInfo)
    (h : encodeNumeric content ecl = some (bits, vi)) :
    StreamSpec 1 content (numericBits content.length) ecl bits vi :=
  BV.Proofs.QrStreamA.encodeNumeric_stream h

/-- C (alphanumeric).  The same for `encodeAlphaNumeric` (mode 0010, `alnumBits n` payload bits). -/
theorem encodeAlphaNumeric_stream (content : Bytes) (ecl : Nat) (bits : List Bool) (vi : VersionInfo)
    (h : encodeAlphaNumeric content ecl = some (bits, vi)) :
    StreamSpec 2 content (alnumBits content.length) ecl bits vi :=
  BV.Proofs.QrStreamA.encodeAlphaNumeric_stream h

/-- C (byte).  The same for `encodeUnicode` (mode 0100, 8·n payload bits). -/
theorem encodeUnicode_stream (content : Bytes) (ecl : Nat) (bits : List Bool) (vi : VersionInfo)
    (h : encodeUnicode content ecl = some (bits, vi)) :
    StreamSpec 4 content (byteBits content.length) ecl bits vi :=
  BV.Proofs.QrStreamA.encodeUnicode_stream h

/-- C (auto).  A result of `encodeAuto` is a numeric, an alphanumeric or a byte stream. -/
theorem encodeAuto_stream (content : Bytes) (ecl : Nat) (bits : List Bool) (vi : VersionInfo)
    (h : encodeAuto content ecl = some (bits, vi)) :
    StreamSpec 1 content (numericBits content.length) ecl bits vi ∨
    StreamSpec 2 content (alnumBits content.length) ecl bits vi ∨
    StreamSpec 4 content (byteBits content.length) ecl bits vi :=
  BV.Proofs.QrStreamA.encodeAuto_stream h

/-- C.  What `StreamSpec` gives in elementary terms: length = capacity, level, and the stream starts with the
    4-bit mode indicator followed by the character count of the Table 3 width, which reads back (most significant
    bit first) as the byte length of the content. -/
theorem stream_length_level_prefix (mode : Nat) (content : Bytes) (pb ecl : Nat) (bits : List Bool)
    (vi : VersionInfo) (h : StreamSpec mode content pb ecl bits vi) :
    bits.length = 8 * vi.totalDataBytes ∧ vi.level = ecl ∧ vi ∈ versionInfos ∧
    ∃ rest, bits = msbBits mode 4 ++ (msbBits content.length (Spec.Qr.countBits vi.version mode) ++ rest) ∧
      bitsToNat (msbBits content.length (Spec.Qr.countBits vi.version mode)) = content.length :=
  ⟨h.length, h.level, h.mem, h.prefix⟩

/-- C / C16 (pipeline condition).  For every defined encoding (0..3) a successful mode encoder returns a stream of
    exactly 8·totalDataBytes bits, so `IterateBytes` sends exactly `totalDataBytes` bytes; `splitToBlocks` performs
    exactly `totalDataBytes` receives: the data codewords of its `n1 + n2` blocks, concatenated, are the bytes
    sent (no receive on the closed channel, no byte left over), and it does not panic. -/
theorem producer_consumer_agree (mode : Nat) (enc : EncodeFn) (hg : getEncoder mode = some enc)
    (content : Bytes) (level : Nat) (bits : List Bool) (vi : VersionInfo)
    (h : enc content level = some (bits, vi)) :
    (iterateBytes bits).length = vi.totalDataBytes ∧
    ∃ blocks, splitToBlocks (iterateBytes bits) vi = .ok blocks ∧
      blocks.length = vi.numberOfBlocksInGroup1 + vi.numberOfBlocksInGroup2 ∧
      (∀ b ∈ blocks, b.ecc = calcECC b.data vi.errorCorrectionCodewordsPerBlock) ∧
      blocks.flatMap (·.data) = iterateBytes bits := by
  obtain ⟨hmem, _, hlen⟩ := encoder_result hg h
  have hl := length_iterateBytes bits vi.totalDataBytes hlen
  obtain ⟨blocks, h1, h2, h3, h4⟩ := splitToBlocks_ok (iterateBytes bits) vi hmem
  exact ⟨hl, blocks, h1, h2, h3, h4 hl⟩

/-! ## D — acceptance and panic freedom -/

/-- D (numeric), every level.  `encodeNumeric` accepts iff every byte of the content is an ASCII digit and the
    version search succeeds for `numericBits n`.  (A leading sign, which `strconv.Atoi` would accept, is rejected
    by the encoder's own check.) -/
theorem encodeNumeric_accepts_iff (content : Bytes) (ecl : Nat) :
    (encodeNumeric content ecl).isSome = true ↔
      (∀ b ∈ content, 48 ≤ b.toNat ∧ b.toNat ≤ 57) ∧
      (findSmallestVersionInfo ecl 1 (numericBits content.length)).isSome = true :=
  encodeNumeric_isSome content ecl

/-- D (alphanumeric), every level.  `encodeAlphaNumeric` accepts iff every byte is one of the 45 characters and
    the version search succeeds for `alnumBits n`.  (Content with a byte ≥ 0x80 is rejected whether or not it is
    valid UTF-8: the rune stream then contains U+FFFD or a rune ≥ 0x80, which is outside the set, and the
    consumer performs enough receives to see it.) -/
theorem encodeAlphaNumeric_accepts_iff (content : Bytes) (ecl : Nat) :
    (encodeAlphaNumeric content ecl).isSome = true ↔
      (∀ b ∈ content, b ∈ c_charSet) ∧
      (findSmallestVersionInfo ecl 2 (alnumBits content.length)).isSome = true :=
  encodeAlphaNumeric_isSome content ecl

/-- D (byte), every level.  `encodeUnicode` accepts iff the version search succeeds for 8·n. -/
theorem encodeUnicode_accepts_iff (content : Bytes) (ecl : Nat) :
    (encodeUnicode content ecl).isSome = true ↔
      (findSmallestVersionInfo ecl 4 (byteBits content.length)).isSome = true :=
  encodeUnicode_isSome content ecl

/-- D (auto).  `encodeAuto` is the first success of numeric, alphanumeric, byte, in that order. -/
theorem encodeAuto_first_success (content : Bytes) (ecl : Nat) :
    encodeAuto content ecl =
      ((encodeNumeric content ecl).orElse fun _ =>
        (encodeAlphaNumeric content ecl).orElse fun _ => encodeUnicode content ecl) ∧
    ((encodeAuto content ecl).isSome = true ↔
      (encodeNumeric content ecl).isSome = true ∨ (encodeAlphaNumeric content ecl).isSome = true ∨
      (encodeUnicode content ecl).isSome = true) :=
  ⟨encodeAuto_eq content ecl, encodeAuto_isSome content ecl⟩

/-- D.  The version search succeeds iff some row of the level fits; all encoders reject an undefined level. -/
theorem version_search_succeeds_iff (ecl mode dataBits : Nat) (content : Bytes) :
    ((findSmallestVersionInfo ecl mode dataBits).isSome = true ↔
      ∃ vi, vi ∈ versionInfos ∧ vi.level = ecl ∧ dataBits + 4 + vi.charCountBits mode ≤ 8 * vi.totalDataBytes) ∧
    (4 ≤ ecl → encodeNumeric content ecl = none ∧ encodeAlphaNumeric content ecl = none ∧
      encodeUnicode content ecl = none ∧ encodeAuto content ecl = none) :=
  ⟨findSmallest_isSome_iff ecl mode dataBits, encoders_none_of_level content ecl⟩

/-- D (panic freedom), every level, every defined encoding (0..3), every colour scheme.  `EncodeWithColor`
    returns the error of the mode encoder when that rejects, and otherwise a barcode; in particular never
    `.error .panic`.  Covers the whole pipeline: nil-encoder check, `splitToBlocks`, `interleave` (total),
    `render` (eight result bitmaps, a lowest-penalty index in 0..7). -/
theorem encodeWithColor_no_panic (content : Bytes) (level mode : Nat) (color : Scheme) (hm : mode ≤ 3) :
    encodeWithColor content level mode color ≠ .error .panic ∧
    ∃ enc, getEncoder mode = some enc ∧
      ((enc content level = none ∧ encodeWithColor content level mode color = .error .rejected) ∨
       ((enc content level).isSome = true ∧ ∃ bc, encodeWithColor content level mode color = .ok bc)) := by
  obtain ⟨enc, hg, h⟩ := encodeWithColor_outcome content level mode color hm
  refine ⟨?_, enc, hg, h⟩
  rcases h with ⟨_, h⟩ | ⟨_, bc, h⟩ <;> rw [h] <;> intro e <;> cases e

/-- D.  The only panic of `EncodeWithColor`: an undefined encoding (≥ 4) is the call of a nil function. -/
theorem encodeWithColor_undefined_mode (content : Bytes) (level mode : Nat) (color : Scheme) (hm : 4 ≤ mode) :
    encodeWithColor content level mode color = .error .panic :=
  BV.Proofs.QrRender.encodeWithColor_undefined_mode content level mode color hm

/-- D.  `render` alone never takes a panic path, for arbitrary data, row and colours. -/
theorem render_no_panic (data : List Nat) (vi : VersionInfo) (color : Scheme) :
    ∃ r, renderWithMask data vi color = .ok r :=
  renderWithMask_ok data vi color

/-- D / C12 / C13.  A symbol returned by `encodeQR` belongs to a row of the table of the requested level, its
    side is 17 + 4·version, its bitmap has side² bits, the mask index is in 0..7, content and colours are the
    arguments. -/
theorem encodeQR_size (content : Bytes) (level mode : Nat) (color : Scheme) (qr : QRCode) (vi : VersionInfo)
    (mask : Nat) (h : encodeQR content level mode color = .ok (qr, vi, mask)) :
    vi ∈ versionInfos ∧ vi.level = level ∧ qr.dimension = 17 + 4 * vi.version ∧
    qr.data.size = qr.dimension * qr.dimension ∧ mask < 8 ∧ qr.content = content ∧ qr.color = color :=
  BV.Proofs.QrCoords.encodeQR_size content level mode color qr vi mask h

/-- D (index ranges).  The model's `QRCode.set` is total on the ground that the Go code only uses coordinates
    inside the symbol.  For the writes of `render` this is proved: (1) the function-pattern phase, abstracted over
    its three closures (`drawnG`; the real phase is the instance `drawn_eq_drawnG`), preserves every property
    that IN-RANGE calls of the closures preserve — so it makes no other calls; (2) every module the data loop
    visits is inside the symbol; (3) all nine bitmaps keep side `modulWidth` and `modulWidth²` bits, so that
    (4) an in-range coordinate pair is an in-range bit index. -/
theorem render_writes_in_range (vi : VersionInfo) (hmem : vi ∈ versionInfos) (color : Scheme) :
    (∀ {σ : Type} (P : σ → Prop) (occ : σ → Nat → Nat → Bool)
        (setA setO : Nat → Nat → Bool → σ → σ) (setR : Nat → Nat → Nat → Bool → σ → σ),
        (∀ x y v st, x < vi.modulWidth → y < vi.modulWidth → P st → P (setA x y v st)) →
        (∀ x y v st, x < vi.modulWidth → y < vi.modulWidth → P st → P (setO x y v st)) →
        (∀ i x y v st, i < 8 → x < vi.modulWidth → y < vi.modulWidth → P st → P (setR i x y v st)) →
        ∀ st, P st → P (drawnG vi occ setA setO setR st)) ∧
    (∀ p ∈ iterateModules (drawn vi color).occupied, p.1 < vi.modulWidth ∧ p.2 < vi.modulWidth) ∧
    StOk color vi.modulWidth (drawn vi color) ∧
    (∀ data, ∀ q ∈ (written data (drawn vi color)).1, QROk color vi.modulWidth q) ∧
    (∀ x y d : Nat, x < d → y < d → x * d + y < d * d) :=
  ⟨fun P occ setA setO setR hA hO hR st h => drawnG_guard P vi hmem occ setA setO setR hA hO hR st h,
   written_positions_range vi color (mem_versionInfos_range hmem).1,
   drawn_ok vi color,
   fun data => written_ok vi.modulWidth data _ (drawn_ok vi color),
   index_lt⟩

/-- D (index ranges, reads).  The model's `QRCode.get` is total on the same ground.  For `render`: (1) the
    function-pattern phase reads `occupied` only inside the symbol (two read functions that agree there give the
    same run); (2) every point of the zig-zag walk, at which `iterateModules` reads `occupied`, is inside the
    symbol; (3) penalty rules 1–3 read only inside the symbol (two bitmaps of the same side that agree there get
    the same penalty; rule 4 folds over the bit array itself).  The remaining read, the data byte
    `bytes[curBitNo/8]`, is guarded in the code by `curBitNo < 8·len(bytes)`. -/
theorem render_reads_in_range (vi : VersionInfo) (hmem : vi ∈ versionInfos) :
    (∀ {σ : Type} (occ occ' : σ → Nat → Nat → Bool),
        (∀ st x y, x < vi.modulWidth → y < vi.modulWidth → occ st x y = occ' st x y) →
        ∀ (setA setO : Nat → Nat → Bool → σ → σ) (setR : Nat → Nat → Nat → Bool → σ → σ) (st : σ),
          drawnG vi occ setA setO setR st = drawnG vi occ' setA setO setR st) ∧
    (∀ p ∈ allPoints vi.modulWidth,
        0 ≤ p.1 ∧ p.1 < (vi.modulWidth : Int) ∧ 0 ≤ p.2 ∧ p.2 < (vi.modulWidth : Int)) ∧
    (∀ q q' : QRCode, AgreeInRange q q' →
        q.calcPenaltyRule1 = q'.calcPenaltyRule1 ∧ q.calcPenaltyRule2 = q'.calcPenaltyRule2 ∧
        q.calcPenaltyRule3 = q'.calcPenaltyRule3) := by
  refine ⟨fun occ occ' h setA setO setR st => drawnG_occ_congr vi hmem occ occ' h setA setO setR st, ?_,
    fun q q' h => ⟨calcPenaltyRule1_congr q q' h, calcPenaltyRule2_congr q q' h, calcPenaltyRule3_congr q q' h⟩⟩
  have h1 := (mem_versionInfos_range hmem).1
  rw [BV.Proofs.QrTables.modulWidth_eq vi h1]
  exact allPoints_range vi.version h1

/-! ## the hypotheses are satisfiable -/

-- B: 10 digits at level M go into version 1 (34 + 4 + 10 = 48 ≤ 128 bits)
example : (findSmallestVersionInfo 1 1 (numericBits 10)).map (·.version) = some 1 := by decide +kernel
-- B: 3000 bytes fit nowhere; an undefined level fits nowhere
example : findSmallestVersionInfo 0 4 (byteBits 3000) = none := by decide +kernel
-- C / D: "0123456789" is accepted as numeric, 16 data bytes at level M
example : (encodeNumeric [48, 49, 50, 51, 52, 53, 54, 55, 56, 57] 1).map (fun r => (r.1.length, r.2.version)) =
    some (128, 1) := by decide +kernel
-- D: a sign is rejected, "+12"
example : encodeNumeric [43, 49, 50] 1 = none := by decide +kernel
-- D: "AC-42" is alphanumeric; "a" is not; 0xC3 0xA9 (é) is not
example : (encodeAlphaNumeric [65, 67, 45, 52, 50] 3).isSome = true := by decide +kernel
example : encodeAlphaNumeric [97] 0 = none := by decide +kernel
example : encodeAlphaNumeric [0xC3, 0xA9] 0 = none := by decide +kernel
-- D: auto falls through to byte mode for "a"
example : (encodeAuto [97] 0).map (fun r => r.1.take 4) = some [false, true, false, false] := by decide +kernel
-- A: a format word and a version word
example : Spec.Qr.formatWordValid (bitsToNat (formatInfoOf 2 5) ^^^ Spec.Qr.formatMaskPattern) = true := by
  decide +kernel
example : (getEncoder 3).isSome = true := by decide

end BV.Props.QrA
