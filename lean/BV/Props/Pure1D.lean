/-
  Pure1D — faithfulness preconditions of the pure-function models of these packages (Root, Utils, Code128, Code39, Code93, Codabar, Ean, Twooffive), as generated
  syntactic facts of the *current* source:
  * no package-level variable is assigned, incremented or sent to outside `init`, and no method of a type that has a
    package-level instance assigns a field through its receiver (no hidden state that could make a result depend on
    earlier calls — a memo, a free list, a resume hint);
  * no struct field is assigned directly from a slice parameter (no aliasing of caller memory);
  * the only assignments to fields through a method receiver are the three known ones in `utils` (`BitList.SetBit`,
    `BitList.grow`, and the Reed–Solomon cache in `getPolynomial`, which C15–C17 treat) — an object that several calls
    share (the encoders' package-level `ec`, its `ReedSolomonEncoder`) gets no new memory;
  * no local variable or struct field is a fixed-size array beyond the known 5-element 2-of-5 patterns (the models work
    on unbounded lists; a scratch buffer of fixed capacity is a precondition they do not carry).
  Every property whose model treats an encoder as a function of its arguments depends on these facts, so they are among
  the obligations of each of those properties: a change that introduces such state fails this module in the check of every
  property of the family, whether or not an input exhibiting a wrong result is found (a memo keyed by a checksum can need
  a 2^-32 coincidence). (`utils.ReedSolomonEncoder`'s cache lives in a struct field and is handled by C15/C16/C17.)
-/
import BV.Gen.Root
import BV.Gen.Utils
import BV.Gen.Code128
import BV.Gen.Code39
import BV.Gen.Code93
import BV.Gen.Codabar
import BV.Gen.Ean
import BV.Gen.Twooffive
namespace BV.Props.Pure1D
open BV

theorem pure1D_no_hidden_state :
    Gen.Root.fact_globalWrites = [] ∧ Gen.Root.fact_aliasAssign = [] ∧ Gen.Root.fact_fixedArrays = [] ∧ Gen.Root.fact_receiverWrites = [] ∧
    Gen.Utils.fact_globalWrites = [] ∧ Gen.Utils.fact_aliasAssign = [] ∧ Gen.Utils.fact_fixedArrays = [] ∧ Gen.Utils.fact_receiverWrites = ["BitList_SetBit:data", "BitList_grow:data", "ReedSolomonEncoder_getPolynomial:polynomes"] ∧
    Gen.Code128.fact_globalWrites = [] ∧ Gen.Code128.fact_aliasAssign = [] ∧ Gen.Code128.fact_fixedArrays = [] ∧ Gen.Code128.fact_receiverWrites = [] ∧
    Gen.Code39.fact_globalWrites = [] ∧ Gen.Code39.fact_aliasAssign = [] ∧ Gen.Code39.fact_fixedArrays = [] ∧ Gen.Code39.fact_receiverWrites = [] ∧
    Gen.Code93.fact_globalWrites = [] ∧ Gen.Code93.fact_aliasAssign = [] ∧ Gen.Code93.fact_fixedArrays = [] ∧ Gen.Code93.fact_receiverWrites = [] ∧
    Gen.Codabar.fact_globalWrites = [] ∧ Gen.Codabar.fact_aliasAssign = [] ∧ Gen.Codabar.fact_fixedArrays = [] ∧ Gen.Codabar.fact_receiverWrites = [] ∧
    Gen.Ean.fact_globalWrites = [] ∧ Gen.Ean.fact_aliasAssign = [] ∧ Gen.Ean.fact_fixedArrays = [] ∧ Gen.Ean.fact_receiverWrites = [] ∧
    Gen.Twooffive.fact_globalWrites = [] ∧ Gen.Twooffive.fact_aliasAssign = [] ∧ Gen.Twooffive.fact_fixedArrays = ["local:_:twooffive.pattern", "local:a:twooffive.pattern", "local:b:twooffive.pattern"] ∧ Gen.Twooffive.fact_receiverWrites = [] := by
  decide

/-- The library routines these packages call are exactly the ones the models were written against (DESIGN §7, item 5):
    a body that starts to use another routine — `math/bits.Div` instead of `big.Int.DivMod`, `hash/crc32`,
    `bytes.TrimPrefix`, `strings.HasPrefix` — is outside what the model mirrors, whether or not an input shows it. -/
theorem pure1D_external_calls :
    Gen.Root.fact_externalCalls = ["(image.Image).At", "(image.Image).Bounds", "(image.Image).ColorModel", "errors.New", "fmt.Errorf", "image.Rect", "math.Min"] ∧
    Gen.Utils.fact_externalCalls = ["(*sync.Mutex).Lock", "(*sync.Mutex).Unlock", "image.Rect"] ∧
    Gen.Code128.fact_externalCalls = ["fmt.Errorf", "strings.ContainsRune", "strings.IndexRune", "unicode/utf8.RuneCountInString"] ∧
    Gen.Code39.fact_externalCalls = ["errors.New", "strings.ContainsRune"] ∧
    Gen.Code93.fact_externalCalls = ["errors.New", "strings.ContainsRune"] ∧
    Gen.Codabar.fact_externalCalls = ["(*regexp.Regexp).ReplaceAllString", "fmt.Errorf", "regexp.Compile"] ∧
    Gen.Ean.fact_externalCalls = ["errors.New"] ∧
    Gen.Twooffive.fact_externalCalls = ["errors.New", "fmt.Errorf"] := by
  decide

end BV.Props.Pure1D
