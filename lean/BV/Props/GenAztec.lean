/-
  GenAztec — the straight-line Go functions of package `aztec`, machine-translated into `BV.Gen.Aztec.f_*` on every run
  (go/cmd/extract/funcs.go), agree with the hand-written model functions.
  A semantic edit of one of these Go functions changes the generated text and breaks the corresponding theorem here,
  whether or not the correspondence check samples an input that shows the difference.
-/
import BV.Gen.AztecFns
import BV.Model.Aztec
set_option linter.unusedSimpArgs false
namespace BV.Props.GenAztec
open BV

@[simp] theorem idpure {α : Type} (x : α) : (pure x : Id α) = x := rfl

/-! ### aztec -/

/-- `totalBitsInLayer`, `encodingMode.BitCount` -/
theorem gen_aztec (layers em : Nat) (compact : Bool) :
    Gen.Aztec.f_totalBitsInLayer (layers : Int) compact = (Model.Aztec.totalBitsInLayer layers compact : Int) ∧
    Gen.Aztec.f_encodingMode_BitCount (em : Int) = (Model.Aztec.BitCount em : Int) := by
  constructor
  · unfold Gen.Aztec.f_totalBitsInLayer Model.Aztec.totalBitsInLayer
    cases compact <;> simp [Id.run, Int.natCast_add, Int.natCast_mul]
  · unfold Gen.Aztec.f_encodingMode_BitCount Model.Aztec.BitCount
    by_cases h : em = 2
    · subst h; rfl
    · have h' : ¬ (em : Int) = 2 := by omega
      have h2 : Gen.Aztec.c_mode_digit = 2 := rfl
      simp [Id.run, h, h', Model.Aztec.mode_digit, h2]

example : Gen.Aztec.f_totalBitsInLayer 4 true = 608 := by decide

end BV.Props.GenAztec
