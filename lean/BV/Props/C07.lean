/-
  C07 — Code 39 / Code 93: start, data, requested check characters, stop, each with its standard pattern; decoding,
  removing the check characters and resolving the full-ASCII shift pairs gives back the text.  (Also the Code 39 part
  of C14.)  Only property statements live here; lemmas are in BV/Proofs/Code39.lean, BV/Proofs/Code93.lean,
  BV/Proofs/Pairs.lean (shift pairs), BV/Proofs/Utf8.lean (UTF-8), BV/Proofs/Bars.lean.

  Vocabulary from the proof files (Code 39):
  * `Alpha43 r`   `r` is one of the 43 data characters `0-9 A-Z - . space $ / + %` (a key of the table other than `*`)
  * `drawBits rs` the 12-module table patterns of the characters `rs`, separated by one narrow space
  * `valSum rs`   the sum of the table values of the characters `rs`
  Code 93 (same names in `BV.Proofs.Code93`):
  * `Alpha47 r`   `r` is one of the 47 data characters: the 43 above and the shift characters U+00F1..U+00F4
  * `drawBits rs` the 9-module table patterns of the characters `rs` followed by the termination bar
  * `valOf r`     the table value of the character `r` (the reference maps it back with `c93Rune`)
-/
import BV.Proofs.Code39
import BV.Proofs.Code93
namespace BV.Props.C07
open BV BV.Spec.OneD BV.Proofs.Bars

section Code39
open BV.Model.Code39 BV.Proofs.Code39

/-- **Code 39, acceptance.** With or without check character: basic mode accepts exactly the texts over the 43 data
    characters, full-ASCII mode exactly the texts of runes ≤ 127 (in particular only valid UTF-8); everything else is
    rejected with an error, and the encoder never panics. -/
theorem C07_code39_accepts (text : Bytes) (cs : Bool) :
    ((∃ bc, encode text cs false = .ok bc) ↔ ∀ r ∈ runeList text, Alpha43 r) ∧
    ((∃ bc, encode text cs true = .ok bc) ↔ ∀ r ∈ runeList text, r ≤ 127) ∧
    (∀ full, (¬ ∃ bc, encode text cs full = .ok bc) → encode text cs full = .error .rejected) := by
  have hfull : (∃ bc, encode text cs true = .ok bc) ↔ ∀ r ∈ runeList text, r ≤ 127 := by
    constructor
    · rintro ⟨bc, h⟩
      apply Classical.byContradiction
      intro hn
      have := full_reject text cs scheme16 hn
      unfold encode at h; rw [this] at h; cases h
    · intro h
      unfold encode
      rw [encodeWithColor_eq]
      simp only [if_true]
      rw [prepare_ok text h]
      obtain ⟨bits, hd, _⟩ := content_roundtrip ((runeList text).flatMap pieceB) cs true
        (by rw [(prepared_facts _ h).2.1]; exact (prepared_facts _ h).2.2)
      simp only [hd]
      exact ⟨_, rfl⟩
  refine ⟨basic_accept_iff text cs scheme16, hfull, ?_⟩
  intro full hn
  cases full with
  | false => exact basic_reject text cs scheme16 (fun h => hn ((basic_accept_iff text cs scheme16).2 h))
  | true => exact full_reject text cs scheme16 (fun h => hn (hfull.2 h))

/-- **Code 39, round trip (and C14 for Code 39).** For every text, both check-character settings and both modes: if
    the encoder returns a symbol, then with `content` the (in full-ASCII mode: expanded) content stored in it,
    * the module row is `*`, the content characters, the check character if requested, `*`, each drawn with its
      table pattern, separated by narrow spaces;
    * the reference decoder (patterns derived from the 2-of-5 rule of ISO/IEC 16388) accepts the row, finds start/stop
      and the modulo-43 check character correct, returns the content characters as `basic` and — after resolving the
      shift pairs in full-ASCII mode — exactly the text that was passed in;
    * `CheckSum()` is the sum of the reference values of the content characters modulo 43, whether or not a check
      character was requested, and it is the value of the drawn check character when one was. -/
theorem C07_code39_roundtrip (text : Bytes) (cs full : Bool) (bc : Barcode) (h : encode text cs full = .ok bc) :
    ∃ info c,
      c39Decode cs full bc.row0 = .ok info ∧
      info.text = runeList text ∧
      info.basic = runeList bc.content ∧ (∀ r ∈ info.basic, Alpha43 r) ∧
      bc.row0 = drawBits (42 :: (info.basic ++ (if cs then [c] else [])) ++ [42]) ∧
      Alpha43 c ∧ c39Value (Char.ofNat c) = some (valSum info.basic % 43) ∧
      valSum info.basic = ((info.basic.map Char.ofNat).map (fun ch => (c39Value ch).getD 0)).foldl (· + ·) 0 ∧
      info.check = (if cs then some (valSum info.basic % 43) else none) ∧
      bc.checksum = some ((valSum info.basic % 43 : Nat) : Int) ∧
      (full = false → bc.content = text) := by
  -- the content that is drawn, and the fact that it consists of data characters
  have key : ∃ content, (∀ r ∈ runeList content, Alpha43 r) ∧
      (if full then prepare text else if containsRune text 42 then none else some text) = some content ∧
      finish full (runeList content) (if cs then some (valSum (runeList content) % 43) else none) =
        .ok { text := runeList text, basic := runeList content,
              check := if cs then some (valSum (runeList content) % 43) else none } ∧
      (full = false → content = text) := by
    cases full with
    | false =>
      have hA := (C07_code39_accepts text cs).1.1 ⟨bc, h⟩
      exact ⟨text, hA, by simp [not_star_of_alpha hA], rfl, fun _ => rfl⟩
    | true =>
      have h127 := (C07_code39_accepts text cs).2.1.1 ⟨bc, h⟩
      have hp := prepared_facts _ h127
      refine ⟨(runeList text).flatMap pieceB, by rw [hp.2.1]; exact hp.2.2, by simp [prepare_ok text h127], ?_,
        fun hh => absurd hh (by simp)⟩
      unfold finish
      simp only [if_true]
      rw [hp.2.1, resolve_prepared _ h127]
      rfl
  obtain ⟨content, hA, hcont, hfin, hbasic⟩ := key
  obtain ⟨bits, hd, hck, ⟨c, hcA, hcv, hbits⟩, hdec⟩ := content_roundtrip content cs full hA
  unfold encode at h
  rw [encodeWithColor_eq, hcont] at h
  simp only [hd] at h
  cases h
  refine ⟨{ text := runeList text, basic := runeList content,
            check := if cs then some (valSum (runeList content) % 43) else none }, c, ?_, rfl, rfl, hA, ?_, hcA, ?_,
    (c39_sum _ hA).symm, rfl, ?_, hbasic⟩
  · rw [row0_mk1D, hdec, hfin]
  · rw [row0_mk1D]; exact hbits
  · rw [(alpha_facts hcA).2.2.2.2.1, hcv]; rfl
  · rw [checksum_mk1D, hck]

/-- **Code 39, patterns.** Every character of the table (the 43 data characters and `*`) is drawn with the nine
    elements of the reference pattern `c39Pattern` (ISO/IEC 16388: two wide bars of five chosen by the 2-of-5 rule, one
    wide space of four; or three wide spaces for `$ / + %`), narrow = 1 module, wide = 2 modules, 12 modules in all. -/
theorem C07_code39_patterns (r : Nat) (h : InTable r) :
    (c39Pattern (Char.ofNat r)).map (fun p => expand true (p.map (fun w => if w then 2 else 1))) = some (barsOf r) ∧
    (barsOf r).length = 12 := by
  obtain ⟨v, b, hb⟩ := inTable_iff.1 h
  exact ⟨barsOf_eq_expand h, by rw [barsOf_eq hb]; exact (entry_facts hb).2.1⟩

/-- **C14 for Code 39.** `CheckSum()` of every symbol the encoder returns is the sum of the reference values of the
    characters of its content modulo 43 — whether or not a check character was requested — and when one was, it is
    the value of the check character drawn in the symbol, which the reference decoder verifies. -/
theorem C14_code39 (text : Bytes) (cs full : Bool) (bc : Barcode) (h : encode text cs full = .ok bc) :
    bc.checksum = some (((((runeList bc.content).map Char.ofNat).map
        (fun ch => (c39Value ch).getD 0)).foldl (· + ·) 0 % 43 : Nat) : Int) ∧
    (cs = true → ∃ info c,
      c39Decode true full bc.row0 = .ok info ∧
      bc.row0 = drawBits (42 :: (runeList bc.content ++ [c]) ++ [42]) ∧
      (c39Value (Char.ofNat c)).map (fun v => (v : Int)) = bc.checksum ∧
      info.check.map (fun v => (v : Int)) = bc.checksum) := by
  obtain ⟨info, c, hd, _, hb, _, hrow, _, hcv, hsum, hck, hcs, _⟩ := C07_code39_roundtrip text cs full bc h
  rw [← hb, ← hsum]
  refine ⟨hcs, ?_⟩
  intro hcs'
  subst hcs'
  simp only [if_true] at hrow hck
  exact ⟨info, c, hd, hrow, by rw [hcv, hcs]; rfl, by rw [hck, hcs]; rfl⟩

/-! the hypotheses are satisfiable: `"AB-12 $"` is accepted in basic mode, `"a\x00~B"` in full-ASCII mode -/
example : ∀ r ∈ runeList [65, 66, 45, 49, 50, 32, 36], Alpha43 r := by decide
example : ∀ r ∈ runeList [97, 0, 126, 66], r ≤ 127 := by decide
example : ∃ bc, encode [65, 66, 45, 49, 50, 32, 36] true false = .ok bc :=
  (C07_code39_accepts _ true).1.2 (by decide)
example : ∃ bc, encode [97, 0, 126, 66] true true = .ok bc :=
  (C07_code39_accepts _ true).2.1.2 (by decide)

end Code39

section Code93
open BV.Model.Code93 BV.Proofs.Code93

/-- **Code 93, acceptance.** With or without check characters: basic mode accepts exactly the texts over the 47 data
    characters (the 43 of Code 39 and the placeholders U+00F1..U+00F4 for the four shift characters), full-ASCII mode
    exactly the texts of runes ≤ 127; everything else is rejected with an error, and the encoder never panics. -/
theorem C07_code93_accepts (text : Bytes) (cs : Bool) :
    ((∃ bc, encode text cs false = .ok bc) ↔ ∀ r ∈ runeList text, Alpha47 r) ∧
    ((∃ bc, encode text cs true = .ok bc) ↔ ∀ r ∈ runeList text, r ≤ 127) ∧
    (∀ full, (¬ ∃ bc, encode text cs full = .ok bc) → encode text cs full = .error .rejected) := by
  have hfull : (∃ bc, encode text cs true = .ok bc) ↔ ∀ r ∈ runeList text, r ≤ 127 := by
    constructor
    · rintro ⟨bc, h⟩
      apply Classical.byContradiction
      intro hn
      have := full_reject text cs scheme16 hn
      unfold encode at h; rw [this] at h; cases h
    · intro h
      unfold encode
      rw [encodeWithColor_eq]
      simp only [if_true]
      rw [prepare_ok text h]
      obtain ⟨bits, hd, _⟩ := content_roundtrip ((runeList text).flatMap pieceB) cs true
        (by rw [(prepared_facts _ h).1]; exact (prepared_facts _ h).2)
      simp only [hd]
      exact ⟨_, rfl⟩
  refine ⟨basic_accept_iff text cs scheme16, hfull, ?_⟩
  intro full hn
  cases full with
  | false => exact basic_reject text cs scheme16 (fun h => hn ((basic_accept_iff text cs scheme16).2 h))
  | true => exact full_reject text cs scheme16 (fun h => hn (hfull.2 h))

/-- **Code 93, round trip.** For every text, both check-character settings and both modes: if the encoder returns a
    symbol, then with `content` the (in full-ASCII mode: expanded) content stored in it,
    * the module row is `*`, the content characters, the check characters C and K if requested, `*`, each drawn with
      its 9-module table pattern, and the termination bar;
    * C and K are data characters whose values are the reference modulo-47 sums with weights wrapping at 20 and 15
      (K computed over content and C);
    * the reference decoder (USS-93 element widths) accepts the row, finds start/stop and both check characters
      correct, returns the content characters as `basic` and — after resolving the shift pairs in full-ASCII mode —
      exactly the text that was passed in. -/
theorem C07_code93_roundtrip (text : Bytes) (cs full : Bool) (bc : Barcode) (h : encode text cs full = .ok bc) :
    ∃ info c k,
      c93Decode cs full bc.row0 = .ok info ∧
      info.text = runeList text ∧
      info.basic = runeList bc.content ∧ (∀ r ∈ info.basic, Alpha47 r) ∧
      bc.row0 = drawBits (42 :: (info.basic ++ (if cs then [c, k] else [])) ++ [42]) ∧
      Alpha47 c ∧ valOf c = c93Check (info.basic.map valOf) 20 ∧
      Alpha47 k ∧ valOf k = c93Check (info.basic.map valOf ++ [valOf c]) 15 ∧
      (∀ r ∈ info.basic, c93Rune (valOf r) = r) ∧
      (full = false → bc.content = text) := by
  have key : ∃ content, (∀ r ∈ runeList content, Alpha47 r) ∧
      (if full then prepare text else if containsRune text 42 then none else some text) = some content ∧
      finish full (runeList content) = .ok { text := runeList text, basic := runeList content } ∧
      (full = false → content = text) := by
    cases full with
    | false =>
      have hA := (C07_code93_accepts text cs).1.1 ⟨bc, h⟩
      exact ⟨text, hA, by simp [not_star_of_alpha hA], rfl, fun _ => rfl⟩
    | true =>
      have h127 := (C07_code93_accepts text cs).2.1.1 ⟨bc, h⟩
      have hp := prepared_facts _ h127
      refine ⟨(runeList text).flatMap pieceB, by rw [hp.1]; exact hp.2, by simp [prepare_ok text h127], ?_,
        fun hh => absurd hh (by simp)⟩
      unfold finish
      simp only [if_true]
      rw [hp.1, resolve_prepared _ h127]
      rfl
  obtain ⟨content, hA, hcont, hfin, hbasic⟩ := key
  obtain ⟨bits, hd, hbits, hC1, hC2, hK1, hK2, hdec⟩ := content_roundtrip content cs full hA
  unfold encode at h
  rw [encodeWithColor_eq, hcont] at h
  simp only [hd] at h
  cases h
  refine ⟨{ text := runeList text, basic := runeList content }, chkC content, chkK content, ?_, rfl, rfl, hA, ?_,
    hC1, hC2, hK1, hK2, fun r hr => (alpha_facts (hA r hr).1).2.2.1, hbasic⟩
  · rw [row0_mk1D, hdec, hfin]
  · rw [row0_mk1D]; exact hbits

/-- **Code 93, patterns.** Every character of the table (the 47 data characters and `*`) is drawn with the 9-module
    expansion of the reference element widths (USS-93) listed at its value, and the reference maps the value back to
    the character. -/
theorem C07_code93_patterns (r : Nat) (h : InTable r) :
    pat9 r = expand true (c93Widths.getD (valOf r) []) ∧ (pat9 r).length = 9 ∧ c93Rune (valOf r) = r := by
  obtain ⟨v, p, hb⟩ := inTable_iff.1 h
  exact ⟨pat9_eq_expand h, (entry_facts hb).2.2.2.2.2.1, (alpha_facts h).2.2.1⟩

/-! the hypotheses are satisfiable: `"AB-12 $"` with the shift placeholder U+00F1 (`ñ`) is accepted in basic mode,
    `"a\x00~B"` in full-ASCII mode -/
example : ∀ r ∈ runeList [65, 66, 45, 49, 50, 32, 36, 0xC3, 0xB1], Alpha47 r := by decide
example : ∀ r ∈ runeList [97, 0, 126, 66], r ≤ 127 := by decide
example : ∃ bc, encode [65, 66, 45, 49, 50, 32, 36, 0xC3, 0xB1] true false = .ok bc :=
  (C07_code93_accepts _ true).1.2 (by decide)
example : ∃ bc, encode [97, 0, 126, 66] true true = .ok bc :=
  (C07_code93_accepts _ true).2.1.2 (by decide)

end Code93

end BV.Props.C07
