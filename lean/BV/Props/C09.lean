/-
  C09 — Scale: integer, centred, distortion-free enlargement or an error.
  Statements only; proofs in BV/Proofs/Scale.lean.
-/
import BV.Proofs.Scale
namespace BV.Props.C09
open BV BV.Model.Scale BV.Proofs.Scale

/-- what `Scale`/`ScaleWithFill` must return for a source `src` and a request `w × h` on `fill` -/
structure IsEnlargement (src r : View) (w h : Nat) (fill : Colour) : Prop where
  bounds : r.w = w ∧ r.h = h
  content : r.content = src.content
  metadata : r.kind = src.kind ∧ r.dims = src.dims
  checksum : r.checksum = src.checksum
  pixels : ∃ k ox oy, 1 ≤ k ∧
    -- the largest factor that fits
    src.w * k ≤ w ∧ (src.dims = 2 → src.h * k ≤ h) ∧
    (src.w * (k + 1) > w ∨ (src.dims = 2 ∧ src.h * (k + 1) > h)) ∧
    -- centred to within one pixel
    (w - src.w * k) - 2 * ox ≤ 1 ∧ 2 * ox ≤ w - src.w * k ∧
    (src.dims = 2 → (h - src.h * k) - 2 * oy ≤ 1 ∧ 2 * oy ≤ h - src.h * k) ∧
    -- every source module is one k-by-k block (1-D: k wide over the full height), the rest is fill
    (∀ x y, x < w → y < h → r.colourAt x y =
      if src.dims = 2 then enlarged src.colourAt src.w src.h k ox oy fill x y
      else enlarged1 src.colourAt src.w k ox fill x y)

/-- the scaled dimension(s) of the request are smaller than the symbol -/
def TooSmall (src : View) (w h : Nat) : Prop :=
  if src.dims = 2 then w < src.w ∨ h < src.h else w < src.w

/-- C09 for `ScaleWithFill`: for every barcode view (from any encoder, or itself a scaled barcode), every request
    `w, h ≥ 1`: an error exactly when the request is too small, otherwise the enlargement. -/
theorem C09_scaleWithFill (src : View) (w h : Nat) (fill : Colour)
    (hd : src.dims = 1 ∨ src.dims = 2) (hw0 : 1 ≤ src.w) (hh0 : 1 ≤ src.h) :
    (TooSmall src w h → scaleWithFill src w h fill = .error .rejected) ∧
    (¬ TooSmall src w h → ∃ r, scaleWithFill src w h fill = .ok r ∧ IsEnlargement src r w h fill) := by
  rcases hd with hd | hd
  · have h2 : ¬ src.dims = 2 := by omega
    have hs := scale1D_spec src w h fill hw0
    simp only [TooSmall, h2, if_false]
    unfold scaleWithFill
    simp only [hd, beq_self_eq_true, if_true]
    refine ⟨hs.1, fun hb => ?_⟩
    obtain ⟨r, hr, hrw, hrh, hpx, hk1, hmax, hkw, hc, h5, h6, h7, h8⟩ := hs.2 hb
    refine ⟨r, hr, ⟨⟨hrw, hrh⟩, h5, ⟨h6, h7⟩, h8, ?_⟩⟩
    refine ⟨w / src.w, (w - src.w * (w / src.w)) / 2, 0, hk1, hkw, fun hh => absurd hh h2, Or.inl hmax, hc, by omega,
      fun hh => absurd hh h2, ?_⟩
    intro x y hx hy
    rw [hpx x y hx hy]
    simp [h2]
  · have hs := scale2D_spec src w h fill hw0 hh0
    have h1 : ¬ (src.dims == 1) = true := by simp [hd]
    simp only [TooSmall, hd, if_true]
    unfold scaleWithFill
    simp only [h1, if_false, hd, beq_self_eq_true, if_true]
    refine ⟨hs.1, fun hb => ?_⟩
    obtain ⟨r, hr, hrw, hrh, hpx, hk1, hmax, hkw, hkh, hcx, hcy, h5, h6, h7, h8⟩ := hs.2 hb
    refine ⟨r, hr, ⟨⟨hrw, hrh⟩, h5, ⟨h6, h7⟩, h8, ?_⟩⟩
    refine ⟨_, _, _, hk1, hkw, fun _ => hkh, ?_, hcx, by omega, fun _ => ⟨hcy, by omega⟩, ?_⟩
    · rcases hmax with hm | hm
      · exact Or.inl hm
      · exact Or.inr ⟨hd, hm⟩
    · intro x y hx hy
      rw [hpx x y hx hy]
      simp [hd]

/-- `Scale` is `ScaleWithFill` with the barcode's background, or white if it exposes no colour scheme -/
theorem C09_scale_fill (src : View) (w h : Int) :
    scale src w h = scaleWithFill src w h (match src.scheme with | some s => s.bg | none => white) := rfl

/-- a scaled barcode exposes no colour scheme, and carries content, metadata and checksum of its source -/
theorem C09_result_is_view (src r : View) (w h : Int) (fill : Colour) (hr : scaleWithFill src w h fill = .ok r) :
    r.scheme = none ∧ r.content = src.content ∧ r.kind = src.kind ∧ r.dims = src.dims ∧
    r.checksum = src.checksum ∧ r.model = src.model := by
  rcases scaleWithFill_shape src w h fill with he | ⟨wrap, W, H, hok⟩
  · rw [he] at hr; cases hr
  · rw [hok] at hr
    injection hr with hr
    subst hr
    exact ⟨rfl, rfl, rfl, rfl, rfl, rfl⟩

/-- chains of repeated scaling: whatever the sequence of accepted requests, content, metadata and checksum
    of the final image are those of the original barcode -/
theorem C09_chain (reqs : List (Int × Int × Colour)) : ∀ (src r : View),
    reqs.foldlM (fun v q => scaleWithFill v q.1 q.2.1 q.2.2) src = .ok r →
    r.content = src.content ∧ r.kind = src.kind ∧ r.dims = src.dims ∧ r.checksum = src.checksum := by
  induction reqs with
  | nil => intro src r h; simp [List.foldlM] at h; cases h; exact ⟨rfl, rfl, rfl, rfl⟩
  | cons q rest ih =>
    intro src r h
    simp only [List.foldlM] at h
    cases h1 : scaleWithFill src q.1 q.2.1 q.2.2 with
    | error e => simp [h1, bind, Except.bind] at h
    | ok v =>
      simp only [h1, bind, Except.bind] at h
      have hv := C09_result_is_view src v _ _ _ h1
      have := ih v r h
      exact ⟨this.1.trans hv.2.1, this.2.1.trans hv.2.2.1, this.2.2.1.trans hv.2.2.2.1, this.2.2.2.trans hv.2.2.2.2.1⟩

/-- non-vacuity: a 2×1 one-dimensional source scaled to width 7: factor 3, offset 0, one fill pixel at the right -/
example :
    let src : View := { kind := "k", dims := 1, w := 2, h := 1, colourAt := fun x _ => if x = 0 then "fg" else "bg",
                        content := [], checksum := none, model := "m", scheme := none }
    (match scaleWithFill src 7 2 "fill" with
     | .ok r => (List.range 7).map (fun x => r.colourAt x 1)
     | .error _ => []) = ["fg", "fg", "fg", "bg", "bg", "bg", "fill"] := by
  decide

end BV.Props.C09
