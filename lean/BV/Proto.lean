/-
  BV.Proto — the line protocol shared with the Go harness (go/cmd/harness):
  one op per line in, one canonical result line out.
-/
import BV.Base
namespace BV.Proto
open BV

def natField (s : String) : Option Nat := s.toNat?
def intField (s : String) : Option Int := s.toInt?

def parseScheme (tok : String) : Option Scheme :=
  if tok.startsWith "@" then
    match (tok.drop 1).toString.splitOn "|" with
    | [m, bg, fg] => some { model := m, bg := bg, fg := fg }
    | _ => none
  else none

/-- palette (order of first appearance, row-major) and one digit per pixel -/
def pixels (w h : Nat) (colourAt : Nat → Nat → Colour) : String × String := Id.run do
  let mut pal : Array Colour := #[]
  let mut px : String := ""
  for y in [0:h] do
    for x in [0:w] do
      let c := colourAt x y
      let idx ← match pal.findIdx? (· == c) with
        | some i => pure i
        | none => do
          pal := pal.push c
          pure (pal.size - 1)
      px := px.push (if idx < 10 then Char.ofNat (48 + idx) else '#')
  return (String.intercalate ";" pal.toList, px)

def viewLine (v : View) : String :=
  let (pal, px) := pixels v.w v.h v.colourAt
  let cs := match v.checksum with | some c => toString c | none => "-"
  let sch := match v.scheme with | some s => s.bg ++ "|" ++ s.fg | none => "-"
  s!"ok kind={toHexField (strBytes v.kind)} dims={v.dims} w={v.w} h={v.h} pal={pal} px={px} content={toHexField v.content} cs={cs} cm={v.model} scheme={sch}"

def resLine (r : Res View) : String :=
  match r with
  | .ok v => viewLine v
  | .error .rejected => "rej"
  | .error .panic => "panic"

end BV.Proto
