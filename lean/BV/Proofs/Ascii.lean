/-
  BV.Proofs.Ascii — `BV.runes` (Go's `for off, r := range s`) on ASCII byte strings, and on the first
  non-ASCII byte of an arbitrary byte string.  Shared by the 1-D symbology proofs.
-/
import BV.Base
namespace BV.Proofs.Ascii
open BV

/-- `(off, b), (off+1, b'), …` — what `range` yields on an ASCII string -/
def asciiRunes : Nat → Bytes → List (Nat × Nat)
  | _, [] => []
  | off, b :: rest => (off, b.toNat) :: asciiRunes (off + 1) rest

def AllAscii (s : Bytes) : Prop := ∀ b ∈ s, b.toNat < 128

theorem decodeRune_ascii (b : UInt8) (rest : Bytes) (h : b.toNat < 128) :
    decodeRune (b :: rest) = (b.toNat, 1) := by
  simp [decodeRune, h]

theorem runesAux_ascii (s : Bytes) : ∀ (fuel off : Nat), s.length ≤ fuel → AllAscii s →
    runesAux fuel off s = asciiRunes off s := by
  induction s with
  | nil => intro fuel off _ _; cases fuel <;> simp [runesAux, asciiRunes]
  | cons b rest ih =>
    intro fuel off hf ha
    cases fuel with
    | zero => simp at hf
    | succ fuel =>
      have hb : b.toNat < 128 := ha b (by simp)
      have hr : AllAscii rest := fun x hx => ha x (by simp [hx])
      simp only [runesAux, decodeRune_ascii b rest hb, asciiRunes, List.drop_succ_cons, List.drop_zero]
      rw [ih fuel (off + 1) (by simpa using hf) hr]

/-- Go's `range` over an ASCII string yields one rune per byte, offsets 0,1,2,… -/
theorem runes_ascii (s : Bytes) (h : AllAscii s) : runes s = asciiRunes 0 s :=
  runesAux_ascii s s.length 0 (Nat.le_refl _) h

/-- the same in closed form: the pairs (i, byte value) with offsets 0,1,2,… -/
theorem asciiRunes_eq_zipIdx (s : Bytes) (off : Nat) :
    asciiRunes off s = (s.zipIdx off).map (fun p => (p.2, p.1.toNat)) := by
  induction s generalizing off with
  | nil => rfl
  | cons b s ih => simp [asciiRunes, ih]

theorem runes_ascii_zipIdx (s : Bytes) (h : AllAscii s) : runes s = s.zipIdx.map (fun p => (p.2, p.1.toNat)) := by
  rw [runes_ascii s h, asciiRunes_eq_zipIdx]

theorem asciiRunes_append (a b : Bytes) (off : Nat) :
    asciiRunes off (a ++ b) = asciiRunes off a ++ asciiRunes (off + a.length) b := by
  induction a generalizing off with
  | nil => simp [asciiRunes]
  | cons x a ih => simp [asciiRunes, ih, Nat.add_assoc, Nat.add_comm 1]

theorem asciiRunes_length (s : Bytes) (off : Nat) : (asciiRunes off s).length = s.length := by
  induction s generalizing off with
  | nil => rfl
  | cons x a ih => simp [asciiRunes, ih]

theorem asciiRunes_map_snd (s : Bytes) (off : Nat) : (asciiRunes off s).map (·.2) = s.map (·.toNat) := by
  induction s generalizing off with
  | nil => rfl
  | cons x a ih => simp [asciiRunes, ih]

theorem runeList_ascii (s : Bytes) (h : AllAscii s) : runeList s = s.map (·.toNat) := by
  simp [runeList, runes_ascii s h, asciiRunes_map_snd]

theorem ite_pair (c : Prop) [Decidable c] (v k : Nat) (hv : c → 128 ≤ v) (hk : 1 ≤ k) :
    128 ≤ (if c then (v, k) else (65533, 1)).1 ∧ 1 ≤ (if c then (v, k) else (65533, 1)).2 := by
  by_cases h : c
  · simp only [h, if_true]; exact ⟨hv h, hk⟩
  · simp [h]

/-- every rune decoded at a non-ASCII lead byte is ≥ 128 (U+FFFD for invalid input) -/
theorem decodeRune_nonascii (b : UInt8) (rest : Bytes) (h : 128 ≤ b.toNat) :
    128 ≤ (decodeRune (b :: rest)).1 ∧ 1 ≤ (decodeRune (b :: rest)).2 := by
  have hb : b.toNat < 256 := b.toNat_lt
  unfold decodeRune
  simp only [runeError]
  have h1 : ¬ b.toNat < 128 := by omega
  simp only [h1, if_false]
  by_cases h2 : b.toNat < 0xC2
  · simp [h2]
  simp only [h2, if_false]
  by_cases h3 : b.toNat < 0xE0
  · simp only [h3, if_true]
    cases rest with
    | nil => simp
    | cons b1 _ =>
      simp only
      apply ite_pair
      · intro _; omega
      · omega
  simp only [h3, if_false]
  by_cases h4 : b.toNat < 0xF0
  · simp only [h4, if_true]
    match rest with
    | [] => simp
    | [_] => simp
    | b1 :: b2 :: _ =>
      simp only
      apply ite_pair
      · intro hc
        simp only [Bool.and_eq_true, decide_eq_true_eq] at hc
        have hb1 : b1.toNat < 256 := b1.toNat_lt
        by_cases h0 : b.toNat = 0xE0
        · simp [h0] at hc
          omega
        · omega
      · omega
  simp only [h4, if_false]
  by_cases h5 : b.toNat < 0xF5
  · simp only [h5, if_true]
    match rest with
    | [] => simp
    | [_] => simp
    | [_, _] => simp
    | b1 :: b2 :: b3 :: _ =>
      simp only
      apply ite_pair
      · intro hc
        simp only [Bool.and_eq_true, decide_eq_true_eq] at hc
        have hb1 : b1.toNat < 256 := b1.toNat_lt
        by_cases h0 : b.toNat = 0xF0
        · simp [h0] at hc
          omega
        · omega
      · omega
  · simp [h5]

theorem runesAux_append_ascii (pre : Bytes) : ∀ (fuel off : Nat) (rest : Bytes), (pre ++ rest).length ≤ fuel →
    AllAscii pre →
    runesAux fuel off (pre ++ rest) = asciiRunes off pre ++ runesAux (fuel - pre.length) (off + pre.length) rest := by
  induction pre with
  | nil => intro fuel off rest _ _; simp [asciiRunes]
  | cons b pre ih =>
    intro fuel off rest hf ha
    cases fuel with
    | zero => simp at hf
    | succ fuel =>
      have hb : b.toNat < 128 := ha b (by simp)
      have hr : AllAscii pre := fun x hx => ha x (by simp [hx])
      simp only [List.cons_append, runesAux, decodeRune_ascii b _ hb, asciiRunes, List.drop_succ_cons, List.drop_zero]
      rw [ih fuel (off + 1) rest (by simpa using hf) hr]
      simp [Nat.add_assoc, Nat.add_comm 1]

/-- `range` over `pre ++ b :: rest` with `pre` ASCII and `b` not: the ASCII runes of `pre`, then a rune ≥ 128. -/
theorem runes_first_nonascii (pre rest : Bytes) (b : UInt8) (ha : AllAscii pre) (hb : 128 ≤ b.toNat) :
    ∃ r tl, 128 ≤ r ∧ runes (pre ++ b :: rest) = asciiRunes 0 pre ++ (pre.length, r) :: tl := by
  unfold runes
  rw [runesAux_append_ascii pre _ 0 (b :: rest) (Nat.le_refl _) ha]
  have : (pre ++ b :: rest).length - pre.length = rest.length + 1 := by simp
  rw [this]
  simp only [runesAux, Nat.zero_add]
  exact ⟨_, _, (decodeRune_nonascii b rest hb).1, rfl⟩

/-- `range` over a string whose first byte outside a set `good ⊆ ASCII` is `b`: the runes of the good prefix
    followed by a rune that is either `b` itself (ASCII) or ≥ 128. -/
theorem runes_first_bad (pre rest : Bytes) (b : UInt8) (ha : AllAscii pre) :
    ∃ r tl, (r = b.toNat ∨ (128 ≤ b.toNat ∧ 128 ≤ r)) ∧
      runes (pre ++ b :: rest) = asciiRunes 0 pre ++ (pre.length, r) :: tl := by
  by_cases hb : b.toNat < 128
  · by_cases hr : AllAscii rest
    · refine ⟨b.toNat, asciiRunes (pre.length + 1) rest, Or.inl rfl, ?_⟩
      have : AllAscii (pre ++ b :: rest) := by
        intro x hx
        simp only [List.mem_append, List.mem_cons] at hx
        rcases hx with hx | hx | hx
        · exact ha x hx
        · exact hx ▸ hb
        · exact hr x hx
      rw [runes_ascii _ this, asciiRunes_append]
      simp [asciiRunes]
    · -- rest contains a non-ASCII byte; unfold one ASCII step
      unfold runes
      rw [runesAux_append_ascii pre _ 0 (b :: rest) (Nat.le_refl _) ha]
      have : (pre ++ b :: rest).length - pre.length = rest.length + 1 := by simp
      rw [this]
      simp only [runesAux, decodeRune_ascii b rest hb, Nat.zero_add]
      exact ⟨_, _, Or.inl rfl, rfl⟩
  · obtain ⟨r, tl, h1, h2⟩ := runes_first_nonascii pre rest b ha (by omega)
    exact ⟨r, tl, Or.inr ⟨by omega, h1⟩, h2⟩

/-- splitting a byte string at its first byte violating a Boolean predicate -/
theorem split_first_bad (p : UInt8 → Bool) (s : Bytes) (h : ¬ ∀ b ∈ s, p b = true) :
    ∃ pre b rest, s = pre ++ b :: rest ∧ (∀ x ∈ pre, p x = true) ∧ p b = false := by
  induction s with
  | nil => exact absurd (by simp) h
  | cons x s ih =>
    by_cases hx : p x = true
    · have : ¬ ∀ b ∈ s, p b = true := by
        intro hs; apply h; intro b hb
        simp only [List.mem_cons] at hb
        rcases hb with hb | hb
        · exact hb ▸ hx
        · exact hs b hb
      obtain ⟨pre, b, rest, h1, h2, h3⟩ := ih this
      refine ⟨x :: pre, b, rest, by simp [h1], ?_, h3⟩
      intro y hy
      simp only [List.mem_cons] at hy
      rcases hy with hy | hy
      · exact hy ▸ hx
      · exact h2 y hy
    · exact ⟨[], x, s, rfl, by simp, by simpa using hx⟩

end BV.Proofs.Ascii
