/-
  BV.Proofs.QrMatrixDecode — an introduction rule for the reference decoder `Spec.Qr.decode`: if every check of
  the decoder holds on a picture, `decode` returns the `Info` assembled from the values read on the way.
-/
import BV.Proofs.QrBlocks
namespace BV.Proofs.QrMatrix
open BV BV.Spec.Qr BV.Proofs.QrBlocks

/-- the data module stream that `decode` reads (mask released), as a function of the values read before -/
def decBits (dim v : Nat) (cs : List Nat) (dark : Nat → Nat → Bool) (mask : Nat) : Array Bool :=
  readDataBits dim dark (functionMap dim v (alignmentPositions cs)) mask

/-- the codeword sequence that `decode` cuts out of the data module stream -/
def decCw (bits : Array Bool) (total : Nat) : Array Nat :=
  ((List.range total).map (fun i => bitsToNatAt bits (8 * i) 8)).toArray

/-- the data bit stream that `decode` assembles from the data parts of the blocks -/
def decDataBits (blocks : List (List Nat)) (lens : List Nat) : Array Bool :=
  ((blocks.zip lens).flatMap (fun (b, l) => (b.take l).flatMap (fun c => msbBits c 8))).toArray

/-- a step of the decoder that succeeds hands its value to the continuation -/
theorem bind_ok {α β : Type} {x : Except String α} {a : α} (h : x = .ok a) (k : α → Except String β) :
    (x >>= k) = k a := by
  subst h; rfl

/-- a conditional whose first branch does the same as the second one -/
theorem ite_eq_else {α : Type} {c : Prop} [Decidable c] (A B : α) (h : c → A = B) :
    (if c then A else B) = B := by
  by_cases hc : c
  · rw [if_pos hc]; exact h hc
  · rw [if_neg hc]

/-- a check that holds is skipped -/
theorem check_bind {α : Type} {b : Bool} (hb : b = true) (msg : String) (k : Unit → Except String α) :
    (check b msg >>= k) = k () := by
  subst hb; rfl

/-- Introduction rule for the reference decoder.  On a square picture of side `17 + 4v` (`1 ≤ v ≤ 40`) on which
    the three finder patterns, the alignment patterns of the version, the timing patterns and the dark module
    are in place, both copies of the version information (from version 7 on) are the valid word `vw` of `v`,
    both copies of the format information are the word `fw` which is valid after unmasking and names `level`
    and `mask`, the block structure of (`v`, `level`) in Table 9 is `lens` with `ec` check codewords per block,
    the data modules are `8 * total` bits plus fewer than 8 zero remainder bits, the de-interleaved blocks
    have the right lengths and are Reed–Solomon codewords, and the data bit stream parses to `p`:
    `decode` succeeds and returns exactly the values named in the hypotheses. -/
theorem decode_ok (dim v : Nat) (dark : Nat → Nat → Bool) (cs : List Nat) (level mask ec : Nat)
    (lens : List Nat) (fw vw : Nat) (p : Parsed)
    (hdim : dim = 17 + 4 * v) (hv1 : 1 ≤ v) (hv40 : v ≤ 40)
    (hF1 : checkFinder dim dark 0 0 = true)
    (hF2 : checkFinder dim dark (dim - 7) 0 = true)
    (hF3 : checkFinder dim dark 0 (dim - 7) = true)
    (hcs : alignmentCentres.lookup v = some cs)
    (hA : (alignmentPositions cs).all (fun p => checkAlignment dark p.1 p.2) = true)
    (hT : (List.range (dim - 16)).all (fun t => let k := t + 8; dark k 6 == (k % 2 == 0) && dark 6 k == (k % 2 == 0)) = true)
    (hD : dark 8 (dim - 8) = true)
    (hV : 7 ≤ v → readWord dark (versionPosA dim) 18 = vw ∧ readWord dark (versionPosB dim) 18 = vw ∧
            versionWordValid vw = true ∧ vw / 2 ^ 12 = v)
    (hFa : readWord dark formatPosA 15 = fw) (hFb : readWord dark (formatPosB dim) 15 = fw)
    (hfw : formatWordValid (fw ^^^ formatMaskPattern) = true)
    (hlevel : levelOfFormatBits ((fw ^^^ formatMaskPattern) / 2 ^ 13) = level)
    (hmask : ((fw ^^^ formatMaskPattern) / 2 ^ 10) % 8 = mask)
    (hiso : isoBlocks v level = some (ec, lens))
    (total : Nat) (htotal : total = lens.foldl (· + ·) 0 + lens.length * ec)
    (hsize : 8 * total ≤ (decBits dim v cs dark mask).size ∧ (decBits dim v cs dark mask).size < 8 * total + 8)
    (hrem : (List.range ((decBits dim v cs dark mask).size - 8 * total)).all
              (fun i => !(decBits dim v cs dark mask).getD (8 * total + i) false) = true)
    (blocks : List (List Nat)) (hblocks : deinterleave (decCw (decBits dim v cs dark mask) total) lens ec = blocks)
    (hlen : (blocks.zip lens).all (fun (b, l) => b.length == l + ec) = true)
    (hrs : blocks.all (fun b => Spec.RS.qrField.valid 0 ec b) = true)
    (hparse : parseSegments v (decDataBits blocks lens) ((decDataBits blocks lens).size / 4 + 2) 0 [] [] = .ok p) :
    decode dim dim dark = .ok
      { version := v, level := level, mask := mask, modes := p.modes, numBlocks := lens.length, ecPerBlock := ec,
        dataCodewords := lens.foldl (· + ·) 0, totalCodewords := total,
        remainderBits := (decBits dim v cs dark mask).size - 8 * total,
        terminatorBits := p.terminatorBits, padCodewords := p.padCodewords, content := p.content } := by
  have hver : (dim - 17) / 4 = v := by omega
  unfold decode
  refine (check_bind (by simp) _ _).trans ?_
  dsimp only
  refine (check_bind (by simp; omega) _ _).trans ?_
  rw [hver]
  refine (check_bind hF1 _ _).trans ?_
  refine (check_bind hF2 _ _).trans ?_
  refine (check_bind hF3 _ _).trans ?_
  rw [hcs]
  dsimp only
  refine (bind_ok rfl _).trans ?_
  refine (check_bind hA _ _).trans ?_
  refine (check_bind hT _ _).trans ?_
  refine (check_bind hD _ _).trans ?_
  -- version information: present from version 7 on, otherwise the block is skipped
  refine (ite_eq_else _ _ ?_).trans ?_
  · intro h7
    obtain ⟨hva, hvb, hvv, hvq⟩ := hV h7
    rw [hva, hvb]
    refine (check_bind (by simp [hvv]) _ _).trans ?_
    refine (check_bind (by simp) _ _).trans ?_
    refine (check_bind (by simp [hvq]) _ _).trans ?_
    rfl
  -- format information
  rw [hFa, hFb]
  refine (check_bind (by simp [hfw]) _ _).trans ?_
  refine (check_bind (by simp) _ _).trans ?_
  rw [hlevel, hmask]
  -- block structure
  unfold isoBlocks at hiso
  cases hrow : List.lookup v blockTable with
  | none => rw [hrow] at hiso; cases hiso
  | some row =>
    rw [hrow] at hiso
    dsimp only at hiso ⊢
    cases hfind : row.find? (fun e => e.1 == levelChar level) with
    | none => rw [hfind] at hiso; cases hiso
    | some e =>
      rw [hfind] at hiso
      dsimp only at hiso ⊢
      refine (bind_ok rfl _).trans ?_
      injection hiso with hiso
      injection hiso with hec hlens
      rw [hec, hlens]
      subst htotal
      refine (check_bind ?_ _ _).trans ?_
      · simp only [Bool.and_eq_true, decide_eq_true_eq]
        exact hsize
      refine (check_bind hrem _ _).trans ?_
      subst hblocks
      refine (check_bind hlen _ _).trans ?_
      refine (check_bind hrs _ _).trans ?_
      refine (bind_ok hparse _).trans ?_
      rfl

/-- the content reported by `decode` under the hypotheses of `decode_ok` is the content of the parsed stream
    (and the version, level and mask are the ones read from the picture) -/
example (dim v : Nat) (dark : Nat → Nat → Bool) (cs : List Nat) (level mask ec : Nat)
    (lens : List Nat) (fw vw : Nat) (p : Parsed)
    (hdim : dim = 17 + 4 * v) (hv1 : 1 ≤ v) (hv40 : v ≤ 40)
    (hF1 : checkFinder dim dark 0 0 = true)
    (hF2 : checkFinder dim dark (dim - 7) 0 = true)
    (hF3 : checkFinder dim dark 0 (dim - 7) = true)
    (hcs : alignmentCentres.lookup v = some cs)
    (hA : (alignmentPositions cs).all (fun p => checkAlignment dark p.1 p.2) = true)
    (hT : (List.range (dim - 16)).all (fun t => let k := t + 8; dark k 6 == (k % 2 == 0) && dark 6 k == (k % 2 == 0)) = true)
    (hD : dark 8 (dim - 8) = true)
    (hV : 7 ≤ v → readWord dark (versionPosA dim) 18 = vw ∧ readWord dark (versionPosB dim) 18 = vw ∧
            versionWordValid vw = true ∧ vw / 2 ^ 12 = v)
    (hFa : readWord dark formatPosA 15 = fw) (hFb : readWord dark (formatPosB dim) 15 = fw)
    (hfw : formatWordValid (fw ^^^ formatMaskPattern) = true)
    (hlevel : levelOfFormatBits ((fw ^^^ formatMaskPattern) / 2 ^ 13) = level)
    (hmask : ((fw ^^^ formatMaskPattern) / 2 ^ 10) % 8 = mask)
    (hiso : isoBlocks v level = some (ec, lens))
    (total : Nat) (htotal : total = lens.foldl (· + ·) 0 + lens.length * ec)
    (hsize : 8 * total ≤ (decBits dim v cs dark mask).size ∧ (decBits dim v cs dark mask).size < 8 * total + 8)
    (hrem : (List.range ((decBits dim v cs dark mask).size - 8 * total)).all
              (fun i => !(decBits dim v cs dark mask).getD (8 * total + i) false) = true)
    (blocks : List (List Nat)) (hblocks : deinterleave (decCw (decBits dim v cs dark mask) total) lens ec = blocks)
    (hlen : (blocks.zip lens).all (fun (b, l) => b.length == l + ec) = true)
    (hrs : blocks.all (fun b => Spec.RS.qrField.valid 0 ec b) = true)
    (hparse : parseSegments v (decDataBits blocks lens) ((decDataBits blocks lens).size / 4 + 2) 0 [] [] = .ok p) :
    ∃ i, decode dim dim dark = .ok i ∧ i.content = p.content ∧ i.version = v ∧ i.level = level ∧ i.mask = mask :=
  ⟨_, decode_ok dim v dark cs level mask ec lens fw vw p hdim hv1 hv40 hF1 hF2 hF3 hcs hA hT hD hV hFa hFb hfw
    hlevel hmask hiso total htotal hsize hrem blocks hblocks hlen hrs hparse, rfl, rfl, rfl, rfl⟩

/-- the pattern lambdas in the hypotheses of `decode_ok` are the terms inside `decode` (up to unfolding the
    auxiliary matchers): the projections forms are definitionally the same -/
example (ec : Nat) : (fun (x : List Nat × Nat) => match x with | (b, l) => b.length == l + ec) =
    (fun x => x.1.length == x.2 + ec) := rfl



end BV.Proofs.QrMatrix
