/-
  BV.Proofs.AztecLayers — layer choice and size arithmetic of the Aztec encoder (properties C03, C10, C12, C13):
  the tables (`word_size`, symbol side length, Galois fields), the explicit layer request (`explicitLayers`),
  the automatic choice (`autoLayers`: first fit, minimal side length) and the check word arithmetic.
-/
import BV.Proofs.AztecBits
import BV.Props.C17
namespace BV.Proofs.AztecLayers
open BV BV.Model BV.Model.Aztec BV.Proofs.AztecBits
open BV.Gen.Aztec

/-! ### A. tables and formulas -/

/-- certificate (33 table entries, by `decide`): the Go table `word_size` is the codeword size of the standard -/
theorem word_size_table : ∀ L : Fin 33, 1 ≤ L.val → word_size L.val = Spec.Aztec.wordSizeOf L.val := by
  decide

/-- the Go table `word_size[L]` is the codeword size of ISO/IEC 24778 for `L` layers: 6 bits for 1–2 layers,
    8 for 3–8, 10 for 9–22, 12 for 23–32 -/
theorem word_size_eq : ∀ L, 1 ≤ L → L ≤ 32 → word_size L = Spec.Aztec.wordSizeOf L := by
  intro L h1 h2
  exact word_size_table ⟨L, by omega⟩ h1

/-- every shape has `L ≤ 32` -/
theorem shape_le32 {c : Bool} {L : Nat} (h : Shape c L) : 1 ≤ L ∧ L ≤ 32 := by
  obtain ⟨h1, h2⟩ := h
  cases c <;> simp at h2 <;> omega

/-- the codeword size of a shape is 6, 8, 10 or 12 -/
theorem word_size_mem {c : Bool} {L : Nat} (h : Shape c L) : word_size L ∈ [6, 8, 10, 12] := by
  obtain ⟨h1, h2⟩ := shape_le32 h
  rw [word_size_eq L h1 h2]
  unfold Spec.Aztec.wordSizeOf
  split
  · simp
  · split
    · simp
    · split <;> simp

/-- ISO closed form of the side length of a compact symbol: `11 + 4 L` -/
theorem symbolSize_compact (L : Nat) : Spec.Aztec.symbolSize true L = 11 + 4 * L := by
  simp only [Spec.Aztec.symbolSize, Spec.Aztec.halfSize, Spec.Aztec.real, Spec.Aztec.modeRing, if_true]
  omega

/-- ISO closed form of the side length of a full-range symbol (general arithmetic, any `L`):
    `15 + 4 L` plus two modules per reference grid line pair -/
theorem symbolSize_full (L : Nat) : Spec.Aztec.symbolSize false L = 15 + 4 * L + 2 * ((2 * L + 6) / 15) := by
  simp only [Spec.Aztec.symbolSize, Spec.Aztec.halfSize, Spec.Aztec.real, Spec.Aztec.modeRing,
    Bool.false_eq_true, if_false, Int.natAbs_natCast]
  have : ¬ (((7 + 2 * L : Nat) : Int) < 0) := by omega
  rw [if_neg this]
  omega

/-- the side length that `EncodeWithColor` allocates (`matrixSize`) is the side length of the standard -/
theorem matrixSize_eq {compact : Bool} {L : Nat} (_h : Shape compact L) :
    (alignmentMap compact (if compact then 11 + L * 4 else 14 + L * 4)).2 = Spec.Aztec.symbolSize compact L := by
  cases compact
  · rw [symbolSize_full]
    simp only [alignmentMap, Bool.false_eq_true, if_false]
    omega
  · rw [symbolSize_compact]
    simp only [alignmentMap, if_true]
    omega

/-- the Galois field that `getGF` builds for a word size is the field of the standard (`Spec.RS.aztecField`),
    has `2^w` elements, generator base 1, and is one of the six fields of C17 -/
theorem getGF_eq : ∀ w ∈ [4, 6, 8, 10, 12], ∃ pp n, getGF w = some (GF.newField pp n 1) ∧
    Spec.RS.aztecField w = some ⟨pp, n⟩ ∧ n = 2 ^ w ∧ (pp, n, 1) ∈ BV.Props.C17.fields := by
  intro w hw
  simp only [List.mem_cons, List.not_mem_nil, or_false] at hw
  rcases hw with rfl | rfl | rfl | rfl | rfl
  · exact ⟨19, 16, rfl, rfl, by decide, by decide⟩
  · exact ⟨67, 64, rfl, rfl, by decide, by decide⟩
  · exact ⟨301, 256, rfl, rfl, by decide, by decide⟩
  · exact ⟨1033, 1024, rfl, rfl, by decide, by decide⟩
  · exact ⟨4201, 4096, rfl, rfl, by decide, by decide⟩

/-! ### B. the explicit request -/

/-- the layout that the encoder uses for the shape `(c, L)` -/
def layoutOf (bits : List Bool) (c : Bool) (L : Nat) : Layout :=
  { compact := c, layers := L, totalBitsInLayer := totalBitsInLayer L c, wordSize := word_size L,
    stuffedBits := stuffBits bits (word_size L) }

/-- the shape `(c, L)` can hold the message: with `w = word_size L` and `T = totalBitsInLayer L c`, the stuffed
    bits plus the requested check bits fit into the `T - T % w` usable bits, and a compact symbol holds at most
    64 data words -/
def Fits (bits : List Bool) (ecc : Int) (c : Bool) (L : Nat) : Prop :=
  ((stuffBits bits (word_size L)).length : Int) + ecc ≤
      ((totalBitsInLayer L c - totalBitsInLayer L c % word_size L : Nat) : Int) ∧
    (c = true → (stuffBits bits (word_size L)).length ≤ word_size L * 64)

instance (bits : List Bool) (ecc : Int) (c : Bool) (L : Nat) : Decidable (Fits bits ecc c L) := by
  unfold Fits; exact inferInstance

/-- the layer count that `explicitLayers` computes is `|req|` -/
theorem layers_natAbs (req : Int) : (if req < 0 then (-req).toNat else req.toNat) = req.natAbs := by
  split <;> omega

/-- a request outside `-4 … 32` is rejected (C10) -/
theorem explicitLayers_reject_range (bits : List Bool) (ecc req : Int) (h : req < -4 ∨ 32 < req) :
    explicitLayers bits ecc req = .error .rejected := by
  unfold explicitLayers
  simp only [c_max_nb_bits_compact, c_max_nb_bits, layers_natAbs]
  rw [if_pos]
  by_cases hc : req < 0
  · simp [hc]; omega
  · simp [hc]; omega

/-- a request inside `-4 … 32` (including 0, which `EncodeWithColor` never passes on) is accepted with exactly
    the requested shape iff the message fits (`Fits`), and is rejected otherwise -/
theorem explicitLayers_char (bits : List Bool) (ecc req : Int) (h1 : -4 ≤ req) (h2 : req ≤ 32) :
    explicitLayers bits ecc req =
      if Fits bits ecc (decide (req < 0)) req.natAbs then .ok (layoutOf bits (decide (req < 0)) req.natAbs)
      else .error .rejected := by
  unfold explicitLayers
  simp only [c_max_nb_bits_compact, c_max_nb_bits, layers_natAbs]
  rw [if_neg]
  · by_cases hF : Fits bits ecc (decide (req < 0)) req.natAbs
    · rw [if_pos hF]
      obtain ⟨hf, hcap⟩ := hF
      rw [if_neg (by omega), if_neg]
      · rfl
      · intro h
        simp only [Bool.and_eq_true, decide_eq_true_eq] at h
        have := hcap (by simp [h.1])
        omega
    · rw [if_neg hF]
      by_cases hf : ((stuffBits bits (word_size req.natAbs)).length : Int) + ecc ≤
          ((totalBitsInLayer req.natAbs (decide (req < 0)) -
            totalBitsInLayer req.natAbs (decide (req < 0)) % word_size req.natAbs : Nat) : Int)
      · rw [if_neg (by omega), if_pos]
        simp only [Bool.and_eq_true, decide_eq_true_eq]
        by_cases hc : req < 0
        · refine ⟨hc, ?_⟩
          by_cases hcap : (stuffBits bits (word_size req.natAbs)).length ≤ word_size req.natAbs * 64
          · exact absurd ⟨hf, fun _ => hcap⟩ hF
          · omega
        · exact absurd ⟨hf, fun h => absurd h (by simp [hc])⟩ hF
      · rw [if_pos (by omega)]
  · by_cases hc : req < 0
    · simp [hc]; omega
    · simp [hc]; omega

/-- a shape that fits gives an accepted layout -/
theorem layoutOK_of_fits {bits : List Bool} {ecc : Int} {c : Bool} {L : Nat} (hs : Shape c L)
    (hf : Fits bits ecc c L) : LayoutOK bits ecc (layoutOf bits c L) :=
  { shape := hs, total := rfl, ws := rfl, stuffed := rfl, fits := hf.1, cap := hf.2 }

/-- the shape named by a non-zero request inside `-4 … 32` -/
theorem shape_of_req {req : Int} (h0 : req ≠ 0) (h1 : -4 ≤ req) (h2 : req ≤ 32) :
    Shape (decide (req < 0)) req.natAbs := by
  unfold Shape
  by_cases hc : req < 0
  · simp [hc]; omega
  · simp [hc]; omega

/-- `explicitLayers` never panics -/
theorem explicitLayers_ne_panic (bits : List Bool) (ecc req : Int) :
    explicitLayers bits ecc req ≠ .error .panic := by
  by_cases h : req < -4 ∨ 32 < req
  · rw [explicitLayers_reject_range bits ecc req h]; simp
  · rw [explicitLayers_char bits ecc req (by omega) (by omega)]
    split <;> simp

/-- C03: an accepted explicit request (non-zero) lies in `-4 … 32` and is honoured exactly: the layout is compact
    iff the request is negative, has `|req|` layers, and satisfies `LayoutOK` -/
theorem explicitLayers_ok {bits : List Bool} {ecc req : Int} {lay : Layout}
    (h : explicitLayers bits ecc req = .ok lay) (h0 : req ≠ 0) :
    (-4 ≤ req ∧ req ≤ 32) ∧ lay.compact = decide (req < 0) ∧ lay.layers = req.natAbs ∧
      LayoutOK bits ecc lay := by
  by_cases hr : req < -4 ∨ 32 < req
  · rw [explicitLayers_reject_range bits ecc req hr] at h; simp at h
  · have h1 : -4 ≤ req := by omega
    have h2 : req ≤ 32 := by omega
    rw [explicitLayers_char bits ecc req h1 h2] at h
    split at h
    · rename_i hF
      injection h with h
      subst h
      exact ⟨⟨h1, h2⟩, rfl, rfl, layoutOK_of_fits (shape_of_req h0 h1 h2) hF⟩
    · simp at h

/-- the exact acceptance condition of an explicit request inside `-4 … 32`: with `L = |req|`, `c = (req < 0)`,
    `w = word_size L`, `T = totalBitsInLayer L c`, the request is accepted iff
    `(stuffBits bits w).length + ecc ≤ T - T % w` and, for compact, `(stuffBits bits w).length ≤ 64 w`;
    otherwise it is rejected (not a panic) -/
theorem explicitLayers_ok_iff (bits : List Bool) (ecc req : Int) (h1 : -4 ≤ req) (h2 : req ≤ 32) :
    ((∃ lay, explicitLayers bits ecc req = .ok lay) ↔
      (((stuffBits bits (word_size req.natAbs)).length : Int) + ecc ≤
          ((totalBitsInLayer req.natAbs (decide (req < 0)) -
            totalBitsInLayer req.natAbs (decide (req < 0)) % word_size req.natAbs : Nat) : Int) ∧
        (req < 0 → (stuffBits bits (word_size req.natAbs)).length ≤ word_size req.natAbs * 64))) ∧
    ((¬ ∃ lay, explicitLayers bits ecc req = .ok lay) → explicitLayers bits ecc req = .error .rejected) := by
  rw [explicitLayers_char bits ecc req h1 h2]
  by_cases hF : Fits bits ecc (decide (req < 0)) req.natAbs
  · rw [if_pos hF]
    refine ⟨⟨fun _ => ⟨hF.1, fun hc => hF.2 (by simp [hc])⟩, fun _ => ⟨_, rfl⟩⟩, fun h => absurd ⟨_, rfl⟩ h⟩
  · rw [if_neg hF]
    refine ⟨⟨fun ⟨_, h⟩ => by simp at h, fun h => absurd ⟨h.1, fun hc => h.2 (by simpa using hc)⟩ hF⟩,
      fun _ => rfl⟩

/-! ### C. the automatic choice -/

/-- candidate number `i` of the automatic loop: compact with `i + 1` layers for `i ≤ 3`, full-range with `i`
    layers for `i ≥ 4` -/
def candC (i : Nat) : Bool := decide (i ≤ 3)
/-- number of layers of candidate `i` -/
def candL (i : Nat) : Nat := if i ≤ 3 then i + 1 else i
/-- the explicit request that names candidate `i` -/
def candReq (i : Nat) : Int := if i ≤ 3 then -((i : Int) + 1) else (i : Int)

/-- certificate (33 table entries): no entry of `word_size` is 0 -/
theorem word_size_ne_zero_table : ∀ L : Fin 33, word_size L.val ≠ 0 := by decide

/-- `word_size L` is not 0 for `L ≤ 32` -/
theorem word_size_ne_zero {L : Nat} (h : L ≤ 32) : word_size L ≠ 0 := word_size_ne_zero_table ⟨L, by omega⟩

/-- certificate (33 table entries): every entry of `word_size` is at least 4 -/
theorem word_size_ge_table : ∀ L : Fin 33, 4 ≤ word_size L.val := by decide

/-- `word_size L ≥ 4` for `L ≤ 32` -/
theorem word_size_ge {L : Nat} (h : L ≤ 32) : 4 ≤ word_size L := word_size_ge_table ⟨L, by omega⟩

/-- candidates up to 32 have at most 32 layers -/
theorem candL_le {i : Nat} (hi : i ≤ 32) : candL i ≤ 32 := by unfold candL; split <;> omega

/-- one iteration of the automatic loop at candidate `i ≤ 32`, when the cached pair `(ws, sb)` is either the
    initial one (`ws = 0`) or consistent (`sb = stuffBits bits ws`): skip if even the unstuffed size exceeds the
    capacity, return the candidate's layout if it fits, otherwise continue with the candidate's word size cached -/
theorem autoLayers_step (bits : List Bool) (ecc tsb : Int) (fuel i ws : Nat) (sb : List Bool)
    (hi : i ≤ 32) (inv : ws = 0 ∨ sb = stuffBits bits ws) :
    autoLayers bits ecc tsb (fuel + 1) i ws sb =
      if tsb > (totalBitsInLayer (candL i) (candC i) : Int) then autoLayers bits ecc tsb fuel (i + 1) ws sb
      else if Fits bits ecc (candC i) (candL i) then .ok (layoutOf bits (candC i) (candL i))
      else autoLayers bits ecc tsb fuel (i + 1) (word_size (candL i)) (stuffBits bits (word_size (candL i))) := by
  rw [autoLayers]
  simp only [c_max_nb_bits]
  rw [if_neg (by omega)]
  have hcL : (if i ≤ 3 then i + 1 else i) = candL i := rfl
  have hcC : decide (i ≤ 3) = candC i := rfl
  have hpair : (if (ws != word_size (candL i)) = true then
        (word_size (candL i), stuffBits bits (word_size (candL i))) else (ws, sb)) =
      (word_size (candL i), stuffBits bits (word_size (candL i))) := by
    by_cases hw : ws = word_size (candL i)
    · have hne := word_size_ne_zero (candL_le hi)
      rcases inv with h0 | hsb
      · omega
      · rw [if_neg (by simp [hw]), hsb, hw]
    · rw [if_pos (by simpa using hw)]
  simp only [hcL, hcC, hpair]
  by_cases ht : tsb > (totalBitsInLayer (candL i) (candC i) : Int)
  · rw [if_pos ht, if_pos ht]
  · rw [if_neg ht, if_neg ht]
    by_cases hF : Fits bits ecc (candC i) (candL i)
    · rw [if_pos hF]
      obtain ⟨hf, hcap⟩ := hF
      rw [if_neg, if_pos hf]
      · rfl
      · intro h
        simp only [Bool.and_eq_true, decide_eq_true_eq] at h
        have := hcap h.1
        omega
    · rw [if_neg hF]
      by_cases hcap : (candC i && decide ((stuffBits bits (word_size (candL i))).length >
          word_size (candL i) * 64)) = true
      · rw [if_pos hcap]
      · rw [if_neg hcap, if_neg]
        intro hf
        apply hF
        refine ⟨hf, fun hc => ?_⟩
        simp only [Bool.and_eq_true, decide_eq_true_eq, not_and] at hcap
        have := hcap hc
        omega

/-- past candidate 32 the loop rejects -/
theorem autoLayers_gt (bits : List Bool) (ecc tsb : Int) (fuel i ws : Nat) (sb : List Bool) (hi : 32 < i) :
    autoLayers bits ecc tsb fuel i ws sb = .error .rejected := by
  cases fuel with
  | zero => rfl
  | succ fuel =>
    rw [autoLayers]
    simp only [c_max_nb_bits]
    rw [if_pos hi]

/-- the loop invariant in full: a successful run from candidate `i` returns the layout of some candidate
    `k ≥ i` that fits, and every candidate in between was skipped (unstuffed size above the capacity) or does
    not fit -/
theorem autoLayers_spec (bits : List Bool) (ecc tsb : Int) : ∀ (fuel i ws : Nat) (sb : List Bool),
    (ws = 0 ∨ sb = stuffBits bits ws) → ∀ lay, autoLayers bits ecc tsb fuel i ws sb = .ok lay →
    ∃ k, i ≤ k ∧ k ≤ 32 ∧ lay = layoutOf bits (candC k) (candL k) ∧ Fits bits ecc (candC k) (candL k) ∧
      tsb ≤ (totalBitsInLayer (candL k) (candC k) : Int) ∧
      ∀ j, i ≤ j → j < k →
        (tsb > (totalBitsInLayer (candL j) (candC j) : Int) ∨ ¬ Fits bits ecc (candC j) (candL j)) := by
  intro fuel
  induction fuel with
  | zero => intro i ws sb _ lay h; simp [autoLayers] at h
  | succ fuel ih =>
    intro i ws sb inv lay h
    by_cases hi : 32 < i
    · rw [autoLayers_gt _ _ _ _ _ _ _ hi] at h; simp at h
    · have hi : i ≤ 32 := by omega
      rw [autoLayers_step bits ecc tsb fuel i ws sb hi inv] at h
      by_cases ht : tsb > (totalBitsInLayer (candL i) (candC i) : Int)
      · rw [if_pos ht] at h
        obtain ⟨k, hk1, hk2, hk3, hk4, hk5, hk6⟩ := ih (i + 1) ws sb inv lay h
        refine ⟨k, by omega, hk2, hk3, hk4, hk5, fun j hj1 hj2 => ?_⟩
        by_cases hji : j = i
        · subst hji; exact Or.inl ht
        · exact hk6 j (by omega) hj2
      · rw [if_neg ht] at h
        by_cases hF : Fits bits ecc (candC i) (candL i)
        · rw [if_pos hF] at h
          injection h with h
          exact ⟨i, Nat.le_refl _, hi, h.symm, hF, by omega, fun j hj1 hj2 => by omega⟩
        · rw [if_neg hF] at h
          obtain ⟨k, hk1, hk2, hk3, hk4, hk5, hk6⟩ := ih (i + 1) _ _ (Or.inr rfl) lay h
          refine ⟨k, by omega, hk2, hk3, hk4, hk5, fun j hj1 hj2 => ?_⟩
          by_cases hji : j = i
          · subst hji; exact Or.inr hF
          · exact hk6 j (by omega) hj2

/-- the automatic loop never panics -/
theorem autoLayers_ne_panic_gen (bits : List Bool) (ecc tsb : Int) : ∀ (fuel i ws : Nat) (sb : List Bool),
    (ws = 0 ∨ sb = stuffBits bits ws) → autoLayers bits ecc tsb fuel i ws sb ≠ .error .panic := by
  intro fuel
  induction fuel with
  | zero => intro i ws sb _; simp [autoLayers]
  | succ fuel ih =>
    intro i ws sb inv
    by_cases hi : 32 < i
    · rw [autoLayers_gt _ _ _ _ _ _ _ hi]; simp
    · rw [autoLayers_step bits ecc tsb fuel i ws sb (by omega) inv]
      split
      · exact ih _ _ _ inv
      · split
        · simp
        · exact ih _ _ _ (Or.inr rfl)

/-- the automatic layer choice of `EncodeWithColor` never panics -/
theorem autoLayers_ne_panic (bits : List Bool) (ecc : Int) :
    autoLayers bits ecc (bits.length + ecc) 34 0 0 [] ≠ .error .panic :=
  autoLayers_ne_panic_gen bits ecc _ 34 0 0 [] (Or.inl rfl)

/-- every candidate of the loop is one of the 36 shapes -/
theorem shape_cand {k : Nat} (hk : k ≤ 32) : Shape (candC k) (candL k) := by
  unfold Shape candC candL
  by_cases h : k ≤ 3
  · simp [h]
  · simp [h]; omega

/-- the request of candidate `k` has its number of layers as absolute value -/
theorem candReq_natAbs (k : Nat) : (candReq k).natAbs = candL k := by
  unfold candReq candL; split <;> omega

/-- the request of candidate `k` is negative iff the candidate is compact -/
theorem candReq_neg (k : Nat) : decide (candReq k < 0) = candC k := by
  unfold candReq candC
  by_cases h : k ≤ 3
  · simp [h]
  · simp [h]

/-- the request of a candidate lies in `-4 … 32` -/
theorem candReq_range {k : Nat} (hk : k ≤ 32) : -4 ≤ candReq k ∧ candReq k ≤ 32 := by
  unfold candReq; split <;> omega

/-- the explicit request naming candidate `k ≤ 32` succeeds iff the candidate fits -/
theorem explicitLayers_cand (bits : List Bool) (ecc : Int) {k : Nat} (hk : k ≤ 32) :
    explicitLayers bits ecc (candReq k) =
      if Fits bits ecc (candC k) (candL k) then .ok (layoutOf bits (candC k) (candL k)) else .error .rejected := by
  rw [explicitLayers_char bits ecc _ (candReq_range hk).1 (candReq_range hk).2, candReq_natAbs, candReq_neg]

/-- a candidate that the loop skips without stuffing does not fit, because stuffing never shortens the bits -/
theorem not_fits_of_skip {bits : List Bool} {ecc : Int} {c : Bool} {L : Nat}
    (hge : ∀ w, 2 ≤ w → bits.length ≤ (stuffBits bits w).length)
    (hL : L ≤ 32) (ht : (bits.length : Int) + ecc > (totalBitsInLayer L c : Int)) : ¬ Fits bits ecc c L := by
  intro hF
  have h1 := hF.1
  have h2 := hge (word_size L) (by have := word_size_ge hL; omega)
  omega

/-- C13 core: a successful automatic choice is candidate `k` for some `k ≤ 32`; it fits, and (as stuffing never
    shortens) no earlier candidate fits -/
theorem autoLayers_core {bits : List Bool} {ecc : Int} {lay : Layout}
    (h : autoLayers bits ecc (bits.length + ecc) 34 0 0 [] = .ok lay) :
    ∃ k, k ≤ 32 ∧ lay = layoutOf bits (candC k) (candL k) ∧ Fits bits ecc (candC k) (candL k) ∧
      ((∀ w, 2 ≤ w → bits.length ≤ (stuffBits bits w).length) → ∀ j, j < k → ¬ Fits bits ecc (candC j) (candL j)) := by
  obtain ⟨k, _, hk2, hk3, hk4, _, hk6⟩ := autoLayers_spec bits ecc _ 34 0 0 [] (Or.inl rfl) lay h
  refine ⟨k, hk2, hk3, hk4, fun hge j hj => ?_⟩
  rcases hk6 j (Nat.zero_le _) hj with ht | hnf
  · exact not_fits_of_skip hge (candL_le (by omega)) ht
  · exact hnf

/-- the automatic choice returns an accepted layout; a full-range choice has at least 4 layers (the loop tries
    compact 1–4, then full-range 4–32) -/
theorem autoLayers_ok {bits : List Bool} {ecc : Int} {lay : Layout}
    (h : autoLayers bits ecc (bits.length + ecc) 34 0 0 [] = .ok lay) :
    LayoutOK bits ecc lay ∧ (lay.compact = false → 4 ≤ lay.layers) := by
  obtain ⟨k, hk, rfl, hF, _⟩ := autoLayers_core h
  refine ⟨layoutOK_of_fits (shape_cand hk) hF, ?_⟩
  simp only [layoutOf, candC, candL, decide_eq_false_iff_not]
  intro hc
  rw [if_neg hc]; omega

/-- the automatic choice is what the explicit request for the chosen shape returns -/
theorem autoLayers_eq_explicit {bits : List Bool} {ecc : Int} {lay : Layout}
    (h : autoLayers bits ecc (bits.length + ecc) 34 0 0 [] = .ok lay) :
    explicitLayers bits ecc (if lay.compact then -(lay.layers : Int) else lay.layers) = .ok lay := by
  obtain ⟨k, hk, rfl, hF, _⟩ := autoLayers_core h
  have : (if (layoutOf bits (candC k) (candL k)).compact then -((layoutOf bits (candC k) (candL k)).layers : Int)
      else (layoutOf bits (candC k) (candL k)).layers) = candReq k := by
    simp only [layoutOf, candC, candL, candReq, decide_eq_true_eq]
    split <;> simp
  rw [this, explicitLayers_cand bits ecc hk, if_pos hF]

/-- the index of the chosen candidate in the loop order -/
def chosenIndex (lay : Layout) : Nat := if lay.compact then lay.layers - 1 else lay.layers

/-- first fit: every candidate that the loop visits before the chosen one is rejected as an explicit request -/
theorem autoLayers_first_fit {bits : List Bool} {ecc : Int} {lay : Layout}
    (hge : ∀ w, 2 ≤ w → bits.length ≤ (stuffBits bits w).length)
    (h : autoLayers bits ecc (bits.length + ecc) 34 0 0 [] = .ok lay) :
    ∀ j, j < chosenIndex lay → explicitLayers bits ecc (candReq j) = .error .rejected := by
  obtain ⟨k, hk, rfl, _, hlt⟩ := autoLayers_core h
  have hci : chosenIndex (layoutOf bits (candC k) (candL k)) = k := by
    simp only [chosenIndex, layoutOf, candC, candL, decide_eq_true_eq]
    split <;> omega
  rw [hci]
  intro j hj
  rw [explicitLayers_cand bits ecc (by omega), if_neg (hlt hge j hj)]

/-- first fit in terms of requests: every compact request with fewer layers than a compact choice, every compact
    request at all if the choice is full-range, and every full-range request with at least 4 but fewer layers
    than a full-range choice, is rejected -/
theorem autoLayers_first_fit_req {bits : List Bool} {ecc : Int} {lay : Layout}
    (hge : ∀ w, 2 ≤ w → bits.length ≤ (stuffBits bits w).length)
    (h : autoLayers bits ecc (bits.length + ecc) 34 0 0 [] = .ok lay) :
    (∀ L : Nat, 1 ≤ L → L ≤ 4 → (lay.compact = true → L < lay.layers) →
      explicitLayers bits ecc (-(L : Int)) = .error .rejected) ∧
    (∀ L : Nat, 4 ≤ L → lay.compact = false → L < lay.layers →
      explicitLayers bits ecc (L : Int) = .error .rejected) := by
  have hff := autoLayers_first_fit hge h
  have hok := (autoLayers_ok h).2
  constructor
  · intro L h1 h4 hlt
    have : candReq (L - 1) = -(L : Int) := by unfold candReq; rw [if_pos (by omega)]; omega
    rw [← this]
    apply hff
    unfold chosenIndex
    cases hc : lay.compact
    · have := hok hc; simp; omega
    · have := hlt hc; simp; omega
  · intro L h4 hc hlt
    have : candReq L = (L : Int) := by unfold candReq; rw [if_neg (by omega)]
    rw [← this]
    apply hff
    unfold chosenIndex
    rw [hc]; simpa using hlt

/-! ### C13: the automatic size is minimal -/

/-- candidates 0–3 are compact with 1–4 layers -/
theorem cand_lo {j : Nat} (h : j ≤ 3) : candC j = true ∧ candL j = j + 1 := by
  unfold candC candL; simp [h]

/-- candidates from 4 on are full-range with that many layers -/
theorem cand_hi {j : Nat} (h : 4 ≤ j) : candC j = false ∧ candL j = j := by
  have : ¬ j ≤ 3 := by omega
  unfold candC candL; simp [this]

/-- full-range 1 layer (19×19, 128 bits, 6-bit words) holds less than compact 2 layers (19×19, 240 bits, 6-bit
    words, at most 64 data words) -/
theorem not_fits_full1 {bits : List Bool} {ecc : Int} (he : 0 ≤ ecc) (h : ¬ Fits bits ecc true 2) :
    ¬ Fits bits ecc false 1 := by
  intro hF
  apply h
  have w1 : word_size 1 = 6 := by decide
  have w2 : word_size 2 = 6 := by decide
  have t1 : totalBitsInLayer 1 false = 128 := by decide
  have t2 : totalBitsInLayer 2 true = 240 := by decide
  unfold Fits at hF ⊢
  rw [w1, t1] at hF
  rw [w2, t2]
  generalize (stuffBits bits 6).length = s at hF ⊢
  refine ⟨?_, fun _ => ?_⟩ <;> omega

/-- full-range 3 layers (27×27, 480 bits, 8-bit words) holds less than compact 4 layers (27×27, 608 bits, 8-bit
    words, at most 64 data words = 512 bits) -/
theorem not_fits_full3 {bits : List Bool} {ecc : Int} (he : 0 ≤ ecc) (h : ¬ Fits bits ecc true 4) :
    ¬ Fits bits ecc false 3 := by
  intro hF
  apply h
  have w1 : word_size 3 = 8 := by decide
  have w2 : word_size 4 = 8 := by decide
  have t1 : totalBitsInLayer 3 false = 480 := by decide
  have t2 : totalBitsInLayer 4 true = 608 := by decide
  unfold Fits at hF ⊢
  rw [w1, t1] at hF
  rw [w2, t2]
  generalize (stuffBits bits 8).length = s at hF ⊢
  refine ⟨?_, fun _ => ?_⟩ <;> omega

/-- the cross-word-size case: full-range 2 layers (23×23, 288 bits, 6-bit words) holds less than compact 3 layers
    (23×23, 408 bits, 8-bit words, at most 64 data words); uses that stuffing with 6-bit words does not shorten
    the bits and that stuffing with 8-bit words yields at most `(n / 7 + 1)` words -/
theorem not_fits_full2 {bits : List Bool} {ecc : Int}
    (hge : ∀ w, 2 ≤ w → bits.length ≤ (stuffBits bits w).length)
    (hle : ∀ w, 2 ≤ w → (stuffBits bits w).length ≤ (bits.length / (w - 1) + 1) * w)
    (he : 11 ≤ ecc) (h : ¬ Fits bits ecc true 3) : ¬ Fits bits ecc false 2 := by
  intro hF
  apply h
  have w1 : word_size 2 = 6 := by decide
  have w2 : word_size 3 = 8 := by decide
  have t1 : totalBitsInLayer 2 false = 288 := by decide
  have t2 : totalBitsInLayer 3 true = 408 := by decide
  have h6 := hge 6 (by decide)
  have h8 : (stuffBits bits 8).length ≤ (bits.length / 7 + 1) * 8 := hle 8 (by decide)
  unfold Fits at hF ⊢
  rw [w1, t1] at hF
  rw [w2, t2]
  generalize (stuffBits bits 6).length = s6 at hF h6 ⊢
  generalize (stuffBits bits 8).length = s8 at h8 ⊢
  generalize bits.length = n at h6 h8
  refine ⟨?_, fun _ => ?_⟩ <;> omega

/-- C13: the automatically chosen symbol is the smallest possible: every explicit request that names a symbol
    with strictly smaller side length is rejected.  `hge` (stuffing never shortens) and `hle` (a stuffed word
    consumes at least `w - 1` bits) are properties of `stuffBits` proved elsewhere. -/
theorem autoLayers_minimal {bits : List Bool} {ecc : Int} {lay : Layout}
    (hge : ∀ w, 2 ≤ w → bits.length ≤ (stuffBits bits w).length)
    (hle : ∀ w, 2 ≤ w → (stuffBits bits w).length ≤ (bits.length / (w - 1) + 1) * w)
    (he : 11 ≤ ecc)
    (h : autoLayers bits ecc (bits.length + ecc) 34 0 0 [] = .ok lay) :
    ∀ req : Int, req ≠ 0 → -4 ≤ req → req ≤ 32 →
      Spec.Aztec.symbolSize (decide (req < 0)) req.natAbs < Spec.Aztec.symbolSize lay.compact lay.layers →
      explicitLayers bits ecc req = .error .rejected := by
  obtain ⟨k, hk, rfl, _, hlt⟩ := autoLayers_core h
  have hnf := hlt hge
  intro req h0 h1 h2 hsz
  rw [explicitLayers_char bits ecc req h1 h2, if_neg]
  change Spec.Aztec.symbolSize _ _ < Spec.Aztec.symbolSize (candC k) (candL k) at hsz
  by_cases hc : req < 0
  · -- a compact request: it is an earlier candidate
    have hd : decide (req < 0) = true := by simp [hc]
    rw [hd] at hsz ⊢
    rw [symbolSize_compact] at hsz
    have hj : req.natAbs - 1 < k := by
      by_cases hk3 : k ≤ 3
      · rw [(cand_lo hk3).1, (cand_lo hk3).2, symbolSize_compact] at hsz; omega
      · omega
    have := hnf _ hj
    rw [(cand_lo (by omega : req.natAbs - 1 ≤ 3)).1, (cand_lo (by omega : req.natAbs - 1 ≤ 3)).2] at this
    have e : req.natAbs - 1 + 1 = req.natAbs := by omega
    rw [e] at this
    exact this
  · -- a full-range request
    have hd : decide (req < 0) = false := by simp [hc]
    rw [hd] at hsz ⊢
    rw [symbolSize_full] at hsz
    have hj : req.natAbs < k := by
      by_cases hk3 : k ≤ 3
      · rw [(cand_lo hk3).1, (cand_lo hk3).2, symbolSize_compact] at hsz; omega
      · rw [(cand_hi (by omega : 4 ≤ k)).1, (cand_hi (by omega : 4 ≤ k)).2, symbolSize_full] at hsz; omega
    have hL : 1 ≤ req.natAbs := by omega
    generalize req.natAbs = L at hj hsz hL ⊢
    by_cases hL4 : 4 ≤ L
    · have := hnf L hj
      rw [(cand_hi hL4).1, (cand_hi hL4).2] at this
      exact this
    · have := hnf L hj
      rw [(cand_lo (by omega : L ≤ 3)).1, (cand_lo (by omega : L ≤ 3)).2] at this
      have hL' : L = 1 ∨ L = 2 ∨ L = 3 := by omega
      rcases hL' with rfl | rfl | rfl
      · exact not_fits_full1 (by omega) this
      · exact not_fits_full2 hge hle he this
      · exact not_fits_full3 (by omega) this

/-! ### D. C12: the check words -/

/-- certificate (32 full-range and 4 compact shapes, by `decide`): the number of codewords of every shape is
    below the size of its Galois field -/
theorem wordCount_table :
    (∀ L : Fin 33, 1 ≤ L.val → totalBitsInLayer L.val false / word_size L.val ≤ 2 ^ word_size L.val - 1) ∧
    (∀ L : Fin 5, 1 ≤ L.val → totalBitsInLayer L.val true / word_size L.val ≤ 2 ^ word_size L.val - 1) := by
  decide

/-- the total number of codewords of a shape is at most `2^w - 1`, the Reed–Solomon block length of its field -/
theorem wordCount_le {c : Bool} {L : Nat} (h : Shape c L) :
    totalBitsInLayer L c / word_size L ≤ 2 ^ word_size L - 1 := by
  obtain ⟨h1, h2⟩ := h
  cases c
  · exact wordCount_table.1 ⟨L, by simp at h2; omega⟩ h1
  · exact wordCount_table.2 ⟨L, by simp at h2; omega⟩ h1

/-- C12: for an accepted layout with `ecc = bits.length * pct / 100 + 11` requested check bits (`pct ≥ 0`) and a
    whole number of data words, the number of check words `T / w - s / w` is at least 1, carries at least `pct`
    percent of the high-level bits, and data plus check words do not exceed the block length `2^w - 1`.
    (`2 ≤ lay.wordSize` is not needed: it follows from `LayoutOK`.) -/
theorem checkWords_ok {bits : List Bool} {ecc pct : Int} {lay : Layout} (ok : LayoutOK bits ecc lay)
    (hecc : ecc = Int.tdiv ((bits.length : Int) * pct) 100 + 11) (hp : 0 ≤ pct)
    (hm : lay.stuffedBits.length % lay.wordSize = 0) :
    let checkWords := lay.totalBitsInLayer / lay.wordSize - lay.stuffedBits.length / lay.wordSize
    ((checkWords : Int) * lay.wordSize * 100 ≥ pct * bits.length) ∧ 1 ≤ checkWords ∧
      lay.stuffedBits.length / lay.wordSize + checkWords ≤ 2 ^ lay.wordSize - 1 := by
  intro checkWords
  have hw := word_size_mem ok.shape
  rw [← ok.ws] at hw
  have hcert : lay.totalBitsInLayer / lay.wordSize ≤ 2 ^ lay.wordSize - 1 := by
    rw [ok.total, ok.ws]; exact wordCount_le ok.shape
  have hfits := ok.fits
  have hx : 0 ≤ (bits.length : Int) * pct := Int.mul_nonneg (by omega) hp
  rw [Int.tdiv_eq_ediv_of_nonneg hx] at hecc
  rw [Int.mul_comm pct]
  generalize (bits.length : Int) * pct = x at hecc hx ⊢
  subst hecc
  show ((lay.totalBitsInLayer / lay.wordSize - lay.stuffedBits.length / lay.wordSize : Nat) : Int) *
      lay.wordSize * 100 ≥ x ∧
    1 ≤ lay.totalBitsInLayer / lay.wordSize - lay.stuffedBits.length / lay.wordSize ∧
    lay.stuffedBits.length / lay.wordSize +
      (lay.totalBitsInLayer / lay.wordSize - lay.stuffedBits.length / lay.wordSize) ≤ 2 ^ lay.wordSize - 1
  generalize lay.totalBitsInLayer = T at hcert hfits ⊢
  generalize lay.stuffedBits.length = s at hm hfits ⊢
  generalize lay.wordSize = w at hw hcert hfits hm ⊢
  simp only [List.mem_cons, List.not_mem_nil, or_false] at hw
  rcases hw with rfl | rfl | rfl | rfl <;> simp only [Nat.reducePow] at hcert ⊢ <;> omega

/-! ### examples: the hypotheses are satisfiable -/

/-- 20 high-level bits, 15 check bits: the automatic choice is compact with 1 layer -/
example : (autoLayers (List.replicate 20 false) 15 ((20 : Nat) + 15) 34 0 0 []).toOption.map
    (fun l => (l.compact, l.layers)) = some (true, 1) := by decide +kernel

/-- 450 high-level bits: 65 stuffed 8-bit words exceed the 64 words of compact 4, the choice is full-range 4 -/
example : (autoLayers (List.replicate 450 false) 15 ((450 : Nat) + 15) 34 0 0 []).toOption.map
    (fun l => (l.compact, l.layers)) = some (false, 4) := by decide +kernel

/-- an explicit request that is honoured, one that does not fit, one out of range -/
example : explicitLayers (List.replicate 20 false) 15 (-2) = .ok (layoutOf (List.replicate 20 false) true 2) := by
  rw [explicitLayers_char _ _ _ (by decide) (by decide)]
  exact if_pos (by decide +kernel)
example : explicitLayers (List.replicate 450 false) 15 3 = .error .rejected := by
  rw [explicitLayers_char _ _ _ (by decide) (by decide)]
  exact if_neg (by decide +kernel)
example : explicitLayers (List.replicate 20 false) 15 33 = .error .rejected :=
  explicitLayers_reject_range _ _ _ (by decide)

end BV.Proofs.AztecLayers
