/-
  BV.Proofs.AztecSearch — the search of the Aztec high-level encoder keeps, for every state in its list, the
  invariant "the tokens (plus the pending binary shift) are parsed by the reference parser to the bytes
  processed so far, ending in the state's mode"; `highlevelEncode` therefore round-trips.
-/
import BV.Proofs.AztecStream
namespace BV.Proofs.AztecSearch
open BV BV.Model.Aztec BV.Proofs.Bits BV.Proofs.AztecBits BV.Proofs.AztecStream
open BV.Spec.Aztec (Mode Act parse table codeBits takeBytes byte)

/-- the bits of a token list (most recent token first), oldest token first -/
def tokBits (text : Array UInt8) (toks : List Token) : List Bool := toks.reverse.flatMap (Token.bits text)

theorem tokBits_cons (text : Array UInt8) (t : Token) (toks : List Token) :
    tokBits text (t :: toks) = tokBits text toks ++ t.bits text := by
  simp [tokBits]

theorem tokBits_nil (text : Array UInt8) : tokBits text [] = [] := rfl

theorem bits_simple (text : Array UInt8) (v k : Nat) : Token.bits text (.simple v k) = msbBits v k := by
  simp [Token.bits, addBits_natCast]

/-- the invariant of a search state after `i` bytes (allowing a full pending run of 2078 bytes) -/
structure Inv' (ws : Nat) (data : Bytes) (i : Nat) (st : State) : Prop where
  mode_lt : st.mode < 5
  cnt_le : st.bShiftByteCount ≤ i
  i_le : i ≤ data.length
  run : Run ws (st.bShiftByteCount == 0) .upper (tokBits data.toArray st.tokens) (modeOf st.mode)
    (data.take (i - st.bShiftByteCount))
  bmode : 0 < st.bShiftByteCount → BinMode (modeOf st.mode)
  cnt_max : st.bShiftByteCount ≤ 2078
  bitCount_le : st.bitCount ≤ 23 * i

/-- the invariant of the states in the search list -/
def Inv (ws : Nat) (data : Bytes) (i : Nat) (st : State) : Prop :=
  Inv' ws data i st ∧ st.bShiftByteCount < 2078

/-- the bytes of a run are the corresponding slice of the input -/
theorem take_append_runBytes (data : Bytes) (i n : Nat) (hn : n ≤ i) (hi : i ≤ data.length) :
    data.take (i - n) ++ runBytes data.toArray (i - n) (List.range n) = data.take i := by
  have e : i = (i - n) + n := by omega
  conv => rhs; rw [e, List.take_add]
  congr 1
  apply List.ext_getElem
  · simp; omega
  · intro j h1 h2
    simp only [length_runBytes, List.length_range] at h1
    simp only [runBytes, List.getElem_map, List.getElem_range, List.getElem_take, List.getElem_drop]
    simp [Array.getD, show i - n + j < data.length by omega]

/-- `endBinaryShift` closes the pending run with a binary-shift token -/
theorem inv_endBinaryShift (ws : Nat) (hws : ws ≤ 18) (data : Bytes) (i : Nat) (st : State)
    (h : Inv' ws data i st) :
    Inv ws data i (st.endBinaryShift i) ∧ (st.endBinaryShift i).bShiftByteCount = 0 ∧
      (st.endBinaryShift i).mode = st.mode ∧ (st.endBinaryShift i).bitCount = st.bitCount := by
  unfold State.endBinaryShift
  split
  · rename_i h0
    have h0 : st.bShiftByteCount = 0 := by simpa using h0
    exact ⟨⟨h, by omega⟩, h0, rfl, rfl⟩
  · rename_i h0
    have h0 : st.bShiftByteCount ≠ 0 := by simpa using h0
    refine ⟨⟨⟨h.mode_lt, by simp, h.i_le, ?_, by simp, by simp, h.bitCount_le⟩, by simp⟩, rfl, rfl, rfl⟩
    simp only [newShiftToken, tokBits_cons, BEq.rfl, Nat.sub_zero]
    have hb := Run.binaryToken ws hws (modeOf st.mode) (h.bmode (by omega)) data.toArray
      (i - st.bShiftByteCount) st.bShiftByteCount (by omega) h.cnt_max
    have := Run.append h.run.weaken hb.1 (fun _ => hb.2)
    rw [take_append_runBytes data i _ h.cnt_le h.i_le] at this
    exact this

/-- `latchAndAppend` without the tuple pattern -/
theorem latchAndAppend_eq (s : State) (mode value : Nat) :
    s.latchAndAppend mode value =
      { mode := mode,
        tokens := Token.simple value (BitCount mode % 256) ::
          (if mode != s.mode then
            Token.simple (latchTable s.mode mode &&& 0xFFFF) ((latchTable s.mode mode >>> 16) % 256) :: s.tokens
           else s.tokens),
        bShiftByteCount := 0,
        bitCount := (if mode != s.mode then s.bitCount + (latchTable s.mode mode >>> 16) else s.bitCount) +
          BitCount mode } := by
  unfold State.latchAndAppend newSimpleToken
  by_cases h : (mode != s.mode) = true
  · simp only [h, if_true]
  · simp only [h]; rfl

theorem BitCount_mod (mode : Nat) : BitCount mode % 256 = BitCount mode := by
  unfold BitCount; split <;> rfl

theorem BitCount_le (mode : Nat) : BitCount mode ≤ 5 := by
  unfold BitCount; split <;> omega

/-- appending the latch token (if any) to a state without pending run: a weak run into the new mode -/
theorem run_latch (ws : Nat) (data : Bytes) (i : Nat) (st : State) (h : Inv ws data i st)
    (h0 : st.bShiftByteCount = 0) (mode : Nat) (hm : mode < 5) :
    Run ws false .upper
      (tokBits data.toArray (if mode != st.mode then
            Token.simple (latchTable st.mode mode &&& 0xFFFF) ((latchTable st.mode mode >>> 16) % 256) :: st.tokens
           else st.tokens)) (modeOf mode) (data.take i) ∧
    (if mode != st.mode then st.bitCount + (latchTable st.mode mode >>> 16) else st.bitCount) ≤ 23 * i + 14 := by
  have hrun := h.1.run
  rw [h0] at hrun
  simp only [Nat.sub_zero] at hrun
  have hbc := h.1.bitCount_le
  split
  · rename_i hne
    have hne : mode ≠ st.mode := by simpa using hne
    have hl := latch_run ws st.mode mode h.1.mode_lt hm (Ne.symm hne)
    have hc := (latch_cert st.mode h.1.mode_lt mode hm (Ne.symm hne)).2
    rw [tokBits_cons]
    have := Run.append hrun.weaken hl (by simp)
    simp only [List.append_nil] at this
    exact ⟨this, by omega⟩
  · rename_i heq
    have heq : mode = st.mode := by simpa using heq
    rw [heq]
    exact ⟨hrun.weaken, by omega⟩

/-- `latchAndAppend` with a code of the characters `c` that come next in the input -/
theorem inv_latchAndAppend (ws : Nat) (data : Bytes) (i : Nat) (st : State) (h : Inv ws data i st)
    (h0 : st.bShiftByteCount = 0) (mode value : Nat) (hm : mode < 5) (c : Bytes)
    (hv : value < 2 ^ codeBits (modeOf mode) - 1) (ht : table (modeOf mode) value = .chars c)
    (hc : 1 ≤ c.length) (hlen : i + c.length ≤ data.length) (hd : data.take i ++ c = data.take (i + c.length)) :
    Inv ws data (i + c.length) (st.latchAndAppend mode value) := by
  rw [latchAndAppend_eq]
  obtain ⟨hr, hb⟩ := run_latch ws data i st h h0 mode hm
  have hch := Run.char ws (modeOf mode) value c hv ht
  have hbl := BitCount_le mode
  refine ⟨⟨hm, by simp, hlen, ?_, by simp, by simp, by simp only; omega⟩, by simp⟩
  simp only [tokBits_cons, BEq.rfl, Nat.sub_zero, bits_simple, BitCount_mod]
  rw [BitCount_eq mode hm]
  have := Run.append hr hch.1 (fun _ => hch.2)
  rw [hd] at this
  exact this

/-- `shiftAndAppend` with a code of the characters `c` that come next in the input -/
theorem inv_shiftAndAppend (ws : Nat) (data : Bytes) (i : Nat) (st : State) (h : Inv ws data i st)
    (h0 : st.bShiftByteCount = 0) (mode value : Nat) (hm : mode < 5)
    (hs : (shiftTableOk st.mode mode).isSome = true) (c : Bytes)
    (hv : value < 2 ^ codeBits (modeOf mode) - 1) (ht : table (modeOf mode) value = .chars c)
    (hc : 1 ≤ c.length) (hlen : i + c.length ≤ data.length) (hd : data.take i ++ c = data.take (i + c.length)) :
    Inv ws data (i + c.length) (st.shiftAndAppend mode value) := by
  unfold State.shiftAndAppend newSimpleToken
  obtain ⟨s1, s2, s3⟩ := shift_spec st.mode mode h.1.mode_lt hm hs
  have hrun := h.1.run
  rw [h0] at hrun
  simp only [Nat.sub_zero] at hrun
  have hbc := h.1.bitCount_le
  have hbl := BitCount_le st.mode
  refine ⟨⟨h.1.mode_lt, by simp, hlen, ?_, by simp, by simp, by simp only; omega⟩, by simp⟩
  simp only [tokBits_cons, BEq.rfl, Nat.sub_zero, bits_simple, BitCount_mod, List.append_assoc]
  rw [BitCount_eq st.mode h.1.mode_lt]
  have hsc := Run.shiftChar ws (modeOf st.mode) (modeOf mode) (shiftTable st.mode mode) value c s2 s1 hv ht
  rw [s3] at hsc
  have := Run.append hrun.weaken hsc.1 (fun _ => hsc.2)
  rw [hd] at this
  exact this

/-- the state `addBinaryShiftChar` builds before it checks for a full run -/
def bsCharCore (s : State) : State :=
  { mode := if s.mode == mode_punct || s.mode == mode_digit then mode_upper else s.mode,
    tokens := if s.mode == mode_punct || s.mode == mode_digit then
        Token.simple (latchTable s.mode mode_upper &&& 0xFFFF) ((latchTable s.mode mode_upper >>> 16) % 256) :: s.tokens
      else s.tokens,
    bShiftByteCount := s.bShiftByteCount + 1,
    bitCount := (if s.mode == mode_punct || s.mode == mode_digit then
        s.bitCount + (latchTable s.mode mode_upper >>> 16) else s.bitCount) +
      (if s.bShiftByteCount == 0 || s.bShiftByteCount == 31 then 18
       else if s.bShiftByteCount == 62 then 9 else 8) }

theorem addBinaryShiftChar_eq (s : State) (index : Nat) :
    s.addBinaryShiftChar index =
      if (bsCharCore s).bShiftByteCount == 2047 + 31 then (bsCharCore s).endBinaryShift (index + 1)
      else bsCharCore s := by
  unfold State.addBinaryShiftChar bsCharCore newSimpleToken
  by_cases h : (s.mode == mode_punct || s.mode == mode_digit) = true
  · simp only [h, if_true]
  · simp only [h]; rfl

/-- certificate: the latches to Upper that precede a binary shift in Punct / Digit have 5 / 4 bits -/
theorem latch_upper_len : latchTable 4 0 >>> 16 = 5 ∧ latchTable 2 0 >>> 16 = 4 := by decide

/-- one more byte in the pending binary-shift run -/
theorem inv_bsCharCore (ws : Nat) (data : Bytes) (i : Nat) (st : State) (h : Inv ws data i st)
    (hi : i < data.length) : Inv' ws data (i + 1) (bsCharCore st) := by
  have hm := h.1.mode_lt
  have hbc := h.1.bitCount_le
  have hdelta : (if st.bShiftByteCount == 0 || st.bShiftByteCount == 31 then 18
       else if st.bShiftByteCount == 62 then 9 else 8) ≤ 18 := by
    split
    · omega
    · split <;> omega
  by_cases hpd : (st.mode == mode_punct || st.mode == mode_digit) = true
  · -- Punct or Digit: no run is pending, latch to Upper first
    have hmode : st.mode = 4 ∨ st.mode = 2 := by
      simpa [mode_punct, mode_digit, BV.Gen.Aztec.c_mode_punct, BV.Gen.Aztec.c_mode_digit] using hpd
    have h0 : st.bShiftByteCount = 0 := by
      by_cases h0 : st.bShiftByteCount = 0
      · exact h0
      · have := h.1.bmode (by omega)
        rcases hmode with e | e <;> rw [e] at this <;> rcases this with h | h | h <;> cases h
    have hne : ((0 : Nat) != st.mode) = true := by rcases hmode with e | e <;> rw [e] <;> rfl
    have hr := (run_latch ws data i st h h0 0 (by omega)).1
    rw [if_pos hne] at hr
    have hlat : latchTable st.mode 0 >>> 16 ≤ 5 := by
      rcases hmode with e | e <;> rw [e]
      · rw [latch_upper_len.1]; omega
      · rw [latch_upper_len.2]; omega
    unfold bsCharCore
    simp only [hpd, if_true]
    refine ⟨by simp only [mode_upper, BV.Gen.Aztec.c_mode_upper]; omega, by simp only; omega, by omega, ?_,
      fun _ => Or.inl rfl, by simp only; omega, ?_⟩
    · have e : (st.bShiftByteCount + 1 == 0) = false := by simp
      rw [e]
      have e2 : i + 1 - (st.bShiftByteCount + 1) = i := by omega
      rw [e2]
      exact hr
    · simp only [mode_upper, BV.Gen.Aztec.c_mode_upper]; omega
  · have hmode : st.mode = 0 ∨ st.mode = 1 ∨ st.mode = 3 := by
      have : ¬ (st.mode = 4 ∨ st.mode = 2) := by
        simpa [mode_punct, mode_digit, BV.Gen.Aztec.c_mode_punct, BV.Gen.Aztec.c_mode_digit] using hpd
      omega
    unfold bsCharCore
    simp only [hpd, Bool.false_eq_true, if_false]
    refine ⟨hm, by simp only; have := h.1.cnt_le; omega, by omega, ?_, ?_, by simp only; have := h.2; omega,
      by simp only; omega⟩
    · have e : (st.bShiftByteCount + 1 == 0) = false := by simp
      rw [e]
      have e2 : i + 1 - (st.bShiftByteCount + 1) = i - st.bShiftByteCount := by omega
      rw [e2]
      exact h.1.run.weaken
    · intro _
      rcases hmode with e | e | e <;> rw [e]
      · exact Or.inl rfl
      · exact Or.inr (Or.inl rfl)
      · exact Or.inr (Or.inr rfl)

/-- `addBinaryShiftChar` keeps the invariant (a run of 2078 bytes is closed at once) -/
theorem inv_addBinaryShiftChar (ws : Nat) (hws : ws ≤ 18) (data : Bytes) (i : Nat) (st : State)
    (h : Inv ws data i st) (hi : i < data.length) : Inv ws data (i + 1) (st.addBinaryShiftChar i) := by
  rw [addBinaryShiftChar_eq]
  have hc := inv_bsCharCore ws data i st h hi
  split
  · exact (inv_endBinaryShift ws hws data (i + 1) _ hc).1
  · rename_i hne
    have hne : (bsCharCore st).bShiftByteCount ≠ 2047 + 31 := by simpa using hne
    exact ⟨hc, by have := hc.cnt_max; omega⟩

/-! ### the state lists -/

theorem foldl_forall {α β} (P : β → Prop) (f : List β → α → List β) (l : List α) :
    ∀ (init : List β), (∀ s ∈ init, P s) →
    (∀ acc x, x ∈ l → (∀ s ∈ acc, P s) → ∀ s ∈ f acc x, P s) → ∀ s ∈ l.foldl f init, P s := by
  induction l with
  | nil => intro init h _; exact h
  | cons x l ih =>
    intro init h hf
    rw [List.foldl_cons]
    exact ih _ (hf init x (List.mem_cons_self ..) h) (fun acc y hy => hf acc y (List.mem_cons_of_mem _ hy))

theorem foldl_ne_nil {α β} (f : List β → α → List β) (l : List α) (x0 : α) (hx : x0 ∈ l)
    (h0 : ∀ acc, f acc x0 ≠ []) (hmono : ∀ acc x, acc ≠ [] → f acc x ≠ []) :
    ∀ init, l.foldl f init ≠ [] := by
  have mono : ∀ (l : List α) init, init ≠ [] → l.foldl f init ≠ [] := by
    intro l
    induction l with
    | nil => intro init h; exact h
    | cons x l ih => intro init h; rw [List.foldl_cons]; exact ih _ (hmono init x h)
  induction l with
  | nil => cases hx
  | cons x l ih =>
    intro init
    rw [List.foldl_cons]
    rcases List.mem_cons.mp hx with rfl | hx
    · exact mono l _ (h0 init)
    · exact ih hx _

theorem getD_toArray (data : Bytes) (i : Nat) (hi : i < data.length) : data.toArray.getD i 0 = data[i] := by
  simp [Array.getD, hi]

/-- the loop over the five modes in `updateStateForChar` -/
def charStep (s stateNoBinary : State) (ch : UInt8) (result : List State) (k : Nat) : List State :=
  let mode := mode_upper + k
  let charInMode := charMapAt mode ch
  if charInMode > 0 then
    let result :=
      if !(charMapAt s.mode ch > 0) || mode == s.mode || mode == mode_digit then
        result ++ [stateNoBinary.latchAndAppend mode charInMode]
      else result
    let result :=
      if !(charMapAt s.mode ch > 0) && (shiftTableOk s.mode mode).isSome then
        result ++ [stateNoBinary.shiftAndAppend mode charInMode]
      else result
    result
  else result

theorem updateStateForChar_eq (s : State) (data : Array UInt8) (index : Nat) :
    updateStateForChar s data index =
      (if s.bShiftByteCount > 0 || charMapAt s.mode (data.getD index 0) == 0 then
        (List.range 5).foldl (charStep s (s.endBinaryShift index) (data.getD index 0)) [] ++
          [s.addBinaryShiftChar index]
      else (List.range 5).foldl (charStep s (s.endBinaryShift index) (data.getD index 0)) []) := by
  rfl

/-- every successor state for one character satisfies the invariant, and there is at least one -/
theorem inv_updateStateForChar (ws : Nat) (hws : ws ≤ 18) (data : Bytes) (i : Nat) (st : State)
    (h : Inv ws data i st) (hi : i < data.length) :
    (∀ s' ∈ updateStateForChar st data.toArray i, Inv ws data (i + 1) s') ∧
      updateStateForChar st data.toArray i ≠ [] := by
  rw [updateStateForChar_eq, getD_toArray data i hi]
  obtain ⟨hnb, hnb0, hnbm, _⟩ := inv_endBinaryShift ws hws data i st h.1
  have htake : data.take i ++ [data[i]] = data.take (i + 1) := by
    rw [List.take_succ_eq_append_getElem hi]
  have hfold : ∀ s' ∈ (List.range 5).foldl (charStep st (st.endBinaryShift i) data[i]) [],
      Inv ws data (i + 1) s' := by
    apply foldl_forall (Inv ws data (i + 1))
    · intro s hs; cases hs
    · intro acc k hk hacc s' hs'
      have hk : k < 5 := List.mem_range.mp hk
      unfold charStep at hs'
      simp only [mode_upper, BV.Gen.Aztec.c_mode_upper, Nat.zero_add] at hs'
      split at hs'
      · rename_i hpos
        have hcm := charMap_spec k hk data[i] hpos
        have hA : Inv ws data (i + 1) ((st.endBinaryShift i).latchAndAppend k (charMapAt k data[i])) :=
          inv_latchAndAppend ws data i _ hnb hnb0 k _ hk [data[i]] hcm.1 hcm.2 (by simp) (by simp; omega) htake
        split at hs'
        · rename_i hc2
          have hB : Inv ws data (i + 1) ((st.endBinaryShift i).shiftAndAppend k (charMapAt k data[i])) := by
            have hsome : (shiftTableOk (st.endBinaryShift i).mode k).isSome = true := by
              rw [hnbm]; simp only [Bool.and_eq_true] at hc2; exact hc2.2
            exact inv_shiftAndAppend ws data i _ hnb hnb0 k _ hk hsome [data[i]] hcm.1 hcm.2 (by simp)
              (by simp; omega) htake
          rcases List.mem_append.mp hs' with hs' | hs'
          · split at hs'
            · rcases List.mem_append.mp hs' with hs' | hs'
              · exact hacc _ hs'
              · rw [List.mem_singleton.mp hs']; exact hA
            · exact hacc _ hs'
          · rw [List.mem_singleton.mp hs']; exact hB
        · split at hs'
          · rcases List.mem_append.mp hs' with hs' | hs'
            · exact hacc _ hs'
            · rw [List.mem_singleton.mp hs']; exact hA
          · exact hacc _ hs'
      · exact hacc _ hs'
  split
  · refine ⟨?_, by simp⟩
    intro s' hs'
    rcases List.mem_append.mp hs' with hs' | hs'
    · exact hfold _ hs'
    · rw [List.mem_singleton.mp hs']; exact inv_addBinaryShiftChar ws hws data i st h hi
  · rename_i hcond
    refine ⟨hfold, ?_⟩
    simp only [Bool.or_eq_true, decide_eq_true_eq, beq_iff_eq, not_or] at hcond
    have hpos : 0 < charMapAt st.mode data[i] := by omega
    apply foldl_ne_nil _ _ st.mode (List.mem_range.mpr h.1.mode_lt)
    · intro acc
      unfold charStep
      simp only [mode_upper, BV.Gen.Aztec.c_mode_upper, Nat.zero_add, hpos, if_true,
        decide_true, Bool.not_true, Bool.false_or, BEq.rfl, Bool.true_or, Bool.false_and]
      simp
    · intro acc x hacc
      unfold charStep
      simp only []
      split
      · split
        · simp
        · split
          · simp
          · exact hacc
      · exact hacc

theorem latchAndAppend_cnt (s : State) (mode value : Nat) : (s.latchAndAppend mode value).bShiftByteCount = 0 := by
  rw [latchAndAppend_eq]

/-- successor states for a two-character code, for any code `p` whose table entries are the next two bytes -/
theorem inv_updateStateForPair_aux (ws : Nat) (hws : ws ≤ 18) (data : Bytes) (i : Nat) (st : State)
    (h : Inv ws data i st) (hi : i + 1 < data.length) (p : Nat) (hp : p < 31)
    (ht : table .punct p = .chars [data[i], data[i + 1]])
    (hdig : (p == 3 || p == 4) = true → 16 - p < 15 ∧ table .digit (16 - p) = .chars [data[i]] ∧
      table .digit 1 = .chars [data[i + 1]]) :
    (∀ s' ∈ updateStateForPair st data.toArray i p, Inv ws data (i + 2) s') ∧
      updateStateForPair st data.toArray i p ≠ [] := by
  obtain ⟨hnb, hnb0, hnbm, _⟩ := inv_endBinaryShift ws hws data i st h.1
  have htake1 : data.take i ++ [data[i]] = data.take (i + 1) := by
    rw [List.take_succ_eq_append_getElem (by omega)]
  have htake2 : data.take (i + 1) ++ [data[i + 1]] = data.take (i + 1 + 1) :=
    (List.take_succ_eq_append_getElem (by omega)).symm
  have htake : data.take i ++ [data[i], data[i + 1]] = data.take (i + 2) := by
    show _ = data.take (i + 1 + 1)
    rw [← htake2, ← htake1, List.append_assoc]; rfl
  have hA : Inv ws data (i + 2) ((st.endBinaryShift i).latchAndAppend mode_punct p) :=
    inv_latchAndAppend ws data i _ hnb hnb0 4 p (by omega) [data[i], data[i + 1]] hp ht (by simp)
      (by simp; omega) htake
  unfold updateStateForPair
  refine ⟨?_, ?_⟩
  · intro s' hs'
    simp only [] at hs'
    have hD : (p == 3 || p == 4) = true → Inv ws data (i + 2)
        (((st.endBinaryShift i).latchAndAppend mode_digit (16 - p)).latchAndAppend mode_digit 1) := by
      intro hc
      obtain ⟨d1, d2, d3⟩ := hdig hc
      have h1 : Inv ws data (i + 1) ((st.endBinaryShift i).latchAndAppend mode_digit (16 - p)) :=
        inv_latchAndAppend ws data i _ hnb hnb0 2 (16 - p) (by omega) [data[i]] d1 d2 (by simp)
          (by simp; omega) htake1
      exact inv_latchAndAppend ws data (i + 1) _ h1 (latchAndAppend_cnt _ _ _) 2 1 (by omega) [data[i + 1]]
        (by decide) d3 (by simp) (by simp; omega) htake2
    have hB : (st.mode != mode_punct) = true →
        Inv ws data (i + 2) ((st.endBinaryShift i).shiftAndAppend mode_punct p) := by
      intro hne
      have hne : st.mode ≠ 4 := by simpa [mode_punct, BV.Gen.Aztec.c_mode_punct] using hne
      have hsome : (shiftTableOk (st.endBinaryShift i).mode 4).isSome = true := by
        rw [hnbm]; exact shift_punct_cert st.mode (by have := h.1.mode_lt; omega)
      exact inv_shiftAndAppend ws data i _ hnb hnb0 4 p (by omega) hsome [data[i], data[i + 1]] hp ht (by simp)
        (by simp; omega) htake
    have hC : Inv ws data (i + 2) ((st.addBinaryShiftChar i).addBinaryShiftChar (i + 1)) :=
      inv_addBinaryShiftChar ws hws data (i + 1) _ (inv_addBinaryShiftChar ws hws data i st h (by omega)) hi
    -- membership in the (up to) four alternatives
    have hmem : s' = (st.endBinaryShift i).latchAndAppend mode_punct p ∨
        ((st.mode != mode_punct) = true ∧ s' = (st.endBinaryShift i).shiftAndAppend mode_punct p) ∨
        ((p == 3 || p == 4) = true ∧
          s' = ((st.endBinaryShift i).latchAndAppend mode_digit (16 - p)).latchAndAppend mode_digit 1) ∨
        s' = (st.addBinaryShiftChar i).addBinaryShiftChar (i + 1) := by
      by_cases c1 : (st.mode != mode_punct) = true <;> by_cases c2 : (p == 3 || p == 4) = true <;>
        by_cases c3 : st.bShiftByteCount > 0 <;>
        simp only [c1, c2, c3, if_true, if_false, Bool.false_eq_true, List.mem_append,
          List.mem_cons, List.not_mem_nil, or_false] at hs' <;>
        simp only [c1, c2, true_and, false_and, false_or, Bool.false_eq_true] <;> grind
    rcases hmem with e | ⟨c, e⟩ | ⟨c, e⟩ | e
    · rw [e]; exact hA
    · rw [e]; exact hB c
    · rw [e]; exact hD c
    · rw [e]; exact hC
  · simp only []
    split <;> split <;> split <;> simp

/-! ### `simplifyStates` only removes states, and never all of them -/

/-- the body of the inner loop of `simplifyStates` -/
def simpG (newState : State) (st : Bool × List State) (oldState : State) : Bool × List State :=
  let add := if st.1 && oldState.isBetterThanOrEqualTo newState then false else st.1
  let acc := if !(add && newState.isBetterThanOrEqualTo oldState) then oldState :: st.2 else st.2
  (add, acc)

theorem simplifyStep_eq (ns : State) (result : List State) :
    simplifyStep ns result = ((result.foldl (simpG ns) (true, [])).1, (result.foldl (simpG ns) (true, [])).2.reverse) :=
  rfl

theorem simpG_subset (ns : State) : ∀ (l : List State) (st : Bool × List State),
    ∀ s ∈ (l.foldl (simpG ns) st).2, s ∈ st.2 ∨ s ∈ l := by
  intro l
  induction l with
  | nil => intro st s hs; exact Or.inl hs
  | cons x l ih =>
    intro st s hs
    rw [List.foldl_cons] at hs
    rcases ih _ s hs with h | h
    · unfold simpG at h
      simp only [] at h
      generalize (if (st.1 && x.isBetterThanOrEqualTo ns) = true then false else st.1) = a at h
      split at h
      · rcases List.mem_cons.mp h with rfl | h
        · exact Or.inr (List.mem_cons_self ..)
        · exact Or.inl h
      · exact Or.inl h
    · exact Or.inr (List.mem_cons_of_mem _ h)

theorem simpG_nonempty (ns : State) : ∀ (l : List State) (st : Bool × List State),
    (st.1 = false → st.2 ≠ []) → (l.foldl (simpG ns) st).1 = false → (l.foldl (simpG ns) st).2 ≠ [] := by
  intro l
  induction l with
  | nil => intro st h; exact h
  | cons x l ih =>
    intro st h
    rw [List.foldl_cons]
    apply ih
    unfold simpG
    simp only []
    intro hadd
    rw [hadd]
    simp

theorem simplifyStep_subset (ns : State) (result : List State) :
    ∀ s ∈ (simplifyStep ns result).2, s ∈ result := by
  intro s hs
  rw [simplifyStep_eq] at hs
  simp only [List.mem_reverse] at hs
  rcases simpG_subset ns result _ s hs with h | h
  · cases h
  · exact h

theorem simplifyStep_nonempty (ns : State) (result : List State) (h : (simplifyStep ns result).1 = false) :
    (simplifyStep ns result).2 ≠ [] := by
  rw [simplifyStep_eq] at h ⊢
  simp only [ne_eq, List.reverse_eq_nil_iff]
  exact simpG_nonempty ns result _ (by simp) h

/-- the body of the outer loop of `simplifyStates` -/
def simpF (result : List State) (newState : State) : List State :=
  if (simplifyStep newState result).1 then (simplifyStep newState result).2 ++ [newState]
  else (simplifyStep newState result).2

theorem simplifyStates_eq (states : List State) : simplifyStates states = states.foldl simpF [] := rfl

theorem simpF_subset : ∀ (l init : List State), ∀ s ∈ l.foldl simpF init, s ∈ init ∨ s ∈ l := by
  intro l
  induction l with
  | nil => intro init s hs; exact Or.inl hs
  | cons x l ih =>
    intro init s hs
    rw [List.foldl_cons] at hs
    rcases ih _ s hs with h | h
    · unfold simpF at h
      split at h
      · rcases List.mem_append.mp h with h | h
        · exact Or.inl (simplifyStep_subset _ _ _ h)
        · rw [List.mem_singleton.mp h]; exact Or.inr (List.mem_cons_self ..)
      · exact Or.inl (simplifyStep_subset _ _ _ h)
    · exact Or.inr (List.mem_cons_of_mem _ h)

theorem simpF_ne_nil (result : List State) (ns : State) : simpF result ns ≠ [] := by
  unfold simpF
  split
  · simp
  · rename_i h
    exact simplifyStep_nonempty ns result (by simpa using h)

/-- `simplifyStates` returns a sub-list -/
theorem simplifyStates_subset (l : List State) : ∀ s ∈ simplifyStates l, s ∈ l := by
  intro s hs
  rw [simplifyStates_eq] at hs
  rcases simpF_subset l [] s hs with h | h
  · cases h
  · exact h

/-- `simplifyStates` keeps at least one state -/
theorem simplifyStates_ne_nil (l : List State) (h : l ≠ []) : simplifyStates l ≠ [] := by
  rw [simplifyStates_eq]
  have : ∀ (l init : List State), (l ≠ [] ∨ init ≠ []) → l.foldl simpF init ≠ [] := by
    intro l
    induction l with
    | nil => intro init h; rcases h with h | h; exact absurd rfl h; exact h
    | cons x l ih => intro init _; rw [List.foldl_cons]; exact ih _ (Or.inr (simpF_ne_nil init x))
  exact this l [] (Or.inl h)

/-! ### `minState` picks a member -/

def minF (acc : Nat × Option State) (s : State) : Nat × Option State :=
  if s.bitCount < acc.1 then (s.bitCount, some s) else acc

theorem minState_eq (states : List State) : minState states = (states.foldl minF (2 ^ 63 - 1, none)).2 := rfl

theorem minF_mem : ∀ (l : List State) (acc : Nat × Option State) (s : State),
    (l.foldl minF acc).2 = some s → acc.2 = some s ∨ s ∈ l := by
  intro l
  induction l with
  | nil => intro acc s h; exact Or.inl h
  | cons x l ih =>
    intro acc s h
    rw [List.foldl_cons] at h
    rcases ih _ s h with h | h
    · unfold minF at h
      split at h
      · simp only [Option.some.injEq] at h; rw [← h]; exact Or.inr (List.mem_cons_self ..)
      · exact Or.inl h
    · exact Or.inr (List.mem_cons_of_mem _ h)

theorem minF_some : ∀ (l : List State) (acc : Nat × Option State),
    acc.2.isSome = true → (l.foldl minF acc).2.isSome = true := by
  intro l
  induction l with
  | nil => intro acc h; exact h
  | cons x l ih =>
    intro acc h
    rw [List.foldl_cons]
    apply ih
    unfold minF
    split
    · rfl
    · exact h

theorem minF_found (M : Nat) : ∀ (l : List State) (acc : Nat × Option State),
    (acc.2.isSome = true ∨ acc.1 = M) → (∃ s ∈ l, s.bitCount < M) → (l.foldl minF acc).2.isSome = true := by
  intro l
  induction l with
  | nil => intro acc _ ⟨s, hs, _⟩; cases hs
  | cons x l ih =>
    intro acc hacc ⟨s, hs, hlt⟩
    rw [List.foldl_cons]
    rcases List.mem_cons.mp hs with rfl | hs
    · apply minF_some
      unfold minF
      split
      · rfl
      · rename_i hn
        rcases hacc with h | h
        · exact h
        · omega
    · apply ih _ _ ⟨s, hs, hlt⟩
      unfold minF
      split
      · exact Or.inl rfl
      · exact hacc

/-- `minState` returns a state of the list, and it returns one when some state has fewer than `2^63 - 1` bits -/
theorem minState_spec (states : List State) :
    (∀ s, minState states = some s → s ∈ states) ∧
    ((∃ s ∈ states, s.bitCount < 2 ^ 63 - 1) → (minState states).isSome = true) := by
  rw [minState_eq]
  refine ⟨?_, ?_⟩
  · intro s h
    rcases minF_mem states _ s h with h | h
    · cases h
    · exact h
  · intro h
    exact minF_found (2 ^ 63 - 1) states _ (Or.inr rfl) h

/-! ### the main loop -/

theorem flatMap_forall {α β} (P : β → Prop) (l : List α) (f : α → List β)
    (h : ∀ x ∈ l, ∀ y ∈ f x, P y) : ∀ y ∈ l.flatMap f, P y := by
  intro y hy
  obtain ⟨x, hx, hy⟩ := List.mem_flatMap.mp hy
  exact h x hx y hy

theorem flatMap_ne_nil {α β} (l : List α) (f : α → List β) (hl : l ≠ []) (h : ∀ x ∈ l, f x ≠ []) :
    l.flatMap f ≠ [] := by
  cases l with
  | nil => exact absurd rfl hl
  | cons x l =>
    rw [List.flatMap_cons]
    intro hnil
    exact h x (List.mem_cons_self ..) (List.append_eq_nil_iff.mp hnil).1

/-- the state list stays non-empty and every state keeps the invariant until all bytes are processed -/
theorem loop_inv (ws : Nat) (hws : ws ≤ 18) (data : Bytes) : ∀ (fuel index : Nat) (states : List State),
    index ≤ data.length → data.length ≤ index + fuel → states ≠ [] →
    (∀ s ∈ states, Inv ws data index s) →
    highlevelLoop data.toArray fuel index states ≠ [] ∧
      ∀ s ∈ highlevelLoop data.toArray fuel index states, Inv ws data data.length s := by
  intro fuel
  induction fuel with
  | zero =>
    intro index states h1 h2 hne hinv
    have : index = data.length := by omega
    subst this
    exact ⟨hne, hinv⟩
  | succ fuel ih =>
    intro index states h1 h2 hne hinv
    rw [highlevelLoop]
    have hsize : data.toArray.size = data.length := by simp
    rw [hsize]
    by_cases hlt : index < data.length
    · rw [if_pos hlt, getD_toArray data index hlt]
      simp only []
      have hchar : highlevelLoop data.toArray fuel (index + 1) (updateStateListForChar states data.toArray index) ≠ [] ∧
          ∀ s ∈ highlevelLoop data.toArray fuel (index + 1) (updateStateListForChar states data.toArray index),
            Inv ws data data.length s := by
        apply ih (index + 1) _ (by omega) (by omega)
        · unfold updateStateListForChar
          apply simplifyStates_ne_nil
          exact flatMap_ne_nil _ _ hne (fun st hst => (inv_updateStateForChar ws hws data index st (hinv st hst) hlt).2)
        · intro s hs
          unfold updateStateListForChar at hs
          have hs := simplifyStates_subset _ s hs
          exact flatMap_forall (Inv ws data (index + 1)) states _
            (fun st hst => (inv_updateStateForChar ws hws data index st (hinv st hst) hlt).1) s hs
      by_cases hnext : index + 1 < data.length
      · simp only [hnext, if_true]
        rw [getD_toArray data (index + 1) hnext]
        by_cases hpos : pairCodeOf data[index] data[index + 1] > 0
        · rw [if_pos hpos]
          have haux : ∀ st, Inv ws data index st →
              (∀ s' ∈ updateStateForPair st data.toArray index (pairCodeOf data[index] data[index + 1]),
                Inv ws data (index + 2) s') ∧
              updateStateForPair st data.toArray index (pairCodeOf data[index] data[index + 1]) ≠ [] := by
            intro st hst
            have hpt := pair_table
            rcases pairCodeOf_spec _ _ hpos with ⟨e, e1, e2⟩ | ⟨e, e1, e2⟩ | ⟨e, e1, e2⟩ | ⟨e, e1, e2⟩ <;>
              rw [e] <;>
              apply inv_updateStateForPair_aux ws hws data index st hst hnext _ (by omega)
            · rw [e1, e2]; exact hpt.1
            · intro hc; cases hc
            · rw [e1, e2]; exact hpt.2.1
            · intro _; rw [e1, e2]; exact ⟨by omega, hpt.2.2.2.2.1, hpt.2.2.2.2.2.2⟩
            · rw [e1, e2]; exact hpt.2.2.1
            · intro _; rw [e1, e2]; exact ⟨by omega, hpt.2.2.2.2.2.1, hpt.2.2.2.2.2.2⟩
            · rw [e1, e2]; exact hpt.2.2.2.1
            · intro hc; cases hc
          apply ih (index + 2) _ (by omega) (by omega)
          · unfold updateStateListForPair
            apply simplifyStates_ne_nil
            exact flatMap_ne_nil _ _ hne (fun st hst => (haux st (hinv st hst)).2)
          · intro s hs
            unfold updateStateListForPair at hs
            have hs := simplifyStates_subset _ s hs
            exact flatMap_forall (Inv ws data (index + 2)) states _ (fun st hst => (haux st (hinv st hst)).1) s hs
        · rw [if_neg hpos]; exact hchar
      · simp only [hnext, if_false]
        have h0 : ¬ pairCodeOf data[index] 0 > 0 := by
          intro hpos
          rcases pairCodeOf_spec _ _ hpos with ⟨_, _, h⟩ | ⟨_, _, h⟩ | ⟨_, _, h⟩ | ⟨_, _, h⟩ <;> cases h
        rw [if_neg h0]; exact hchar
    · rw [if_neg hlt]
      have : index = data.length := by omega
      subst this
      exact ⟨hne, hinv⟩

theorem inv_initial (ws : Nat) (data : Bytes) : Inv ws data 0 initialState := by
  refine ⟨⟨by decide, Nat.le_refl _, Nat.zero_le _, ?_, fun h => absurd h (by decide), by decide, Nat.le_refl _⟩,
    by decide⟩
  exact Run.nil ws true .upper

/-- **High-level stream round trip.**  For every payload (shorter than 2^58 bytes, so that the bit counts of the
    search stay below Go's `MaxInt`), the bit stream `highlevelEncode data`, followed by any padding of fewer than
    `ws` one-bits (`ws ≤ 18`; the word sizes are 6, 8, 10, 12), is parsed by the reference parser of ISO/IEC 24778
    (Upper/Lower/Mixed/Punct/Digit codes, latches, shifts, binary shift) to exactly `data`. -/
theorem highlevel_roundtrip (ws : Nat) (hws : ws ≤ 18) (data : Bytes) (hlen : data.length < 2 ^ 58)
    (pad : List Bool) (hp1 : pad.length < ws) (hp2 : pad.all id = true) :
    parse ws ((highlevelEncode data ++ pad).length + 1) .upper none (highlevelEncode data ++ pad).length
      (highlevelEncode data ++ pad) [] = .ok data := by
  have hsize : data.toArray.size = data.length := by simp
  obtain ⟨hne, hall⟩ := loop_inv ws hws data data.length 0 [initialState] (Nat.zero_le _) (by omega) (by simp)
    (fun s hs => by rw [List.mem_singleton.mp hs]; exact inv_initial ws data)
  obtain ⟨hmem, hsome⟩ := minState_spec (highlevelLoop data.toArray data.length 0 [initialState])
  have hex : ∃ s ∈ highlevelLoop data.toArray data.length 0 [initialState], s.bitCount < 2 ^ 63 - 1 := by
    cases hl : highlevelLoop data.toArray data.length 0 [initialState] with
    | nil => exact absurd hl hne
    | cons s l =>
      refine ⟨s, List.mem_cons_self .., ?_⟩
      have := (hall s (by rw [hl]; exact List.mem_cons_self ..)).1.bitCount_le
      omega
  have hs := hsome hex
  unfold highlevelEncode
  simp only [hsize]
  cases hmin : minState (highlevelLoop data.toArray data.length 0 [initialState]) with
  | none => rw [hmin] at hs; cases hs
  | some st =>
    simp only []
    have hst := hall st (hmem st hmin)
    obtain ⟨hfin, hfin0, _, _⟩ := inv_endBinaryShift ws hws data data.length st hst.1
    have hrun := hfin.1.run
    rw [hfin0] at hrun
    simp only [BEq.rfl, Nat.sub_zero, List.take_length] at hrun
    have hbits : st.toBitList data.toArray = tokBits data.toArray (st.endBinaryShift data.length).tokens := by
      unfold State.toBitList tokBits
      simp only [hsize]
    rw [hbits]
    obtain ⟨f', hf', e⟩ := hrun pad (Or.inl rfl) (pad.length + 1) []
    have a1 : (tokBits data.toArray (st.endBinaryShift data.length).tokens ++ pad).length + 1 =
        pad.length + 1 + (tokBits data.toArray (st.endBinaryShift data.length).tokens).length := by
      simp; omega
    rw [a1, List.length_append, e]
    obtain ⟨f, rfl⟩ : ∃ f, f' = f + 1 := ⟨f' - 1, by omega⟩
    rw [parse, if_pos ⟨hp1, hp2⟩]
    simp

end BV.Proofs.AztecSearch
