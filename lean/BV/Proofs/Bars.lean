/-
  BV.Proofs.Bars — shared lemmas for the linear symbologies: module row of `mk1D`, `splitEvery` on a concatenation of
  equally long groups, `mapM` in `Except` when every element succeeds.
-/
import BV.Base
import BV.Spec.OneD
namespace BV.Proofs.Bars
open BV BV.Spec.OneD

/-- alternating bar/space expansion of an element-width list, starting with colour `b` -/
def expand : Bool → List Nat → List Bool
  | _, [] => []
  | b, w :: ws => List.replicate w b ++ expand (!b) ws

/-! ### `mk1D` -/

theorem range_map_getD {α} (l : List α) (d : α) :
    (List.range l.length).map (fun x => l.toArray.getD x d) = l := by
  apply List.ext_getElem
  · simp
  · intro i h1 h2
    simp only [List.length_map, List.length_range] at h1
    simp [Array.getD, h1]

@[simp] theorem row0_mk1D (kind : String) (content : Bytes) (bits : List Bool) (cs : Option Int) (s : Scheme) :
    (mk1D kind content bits cs s).row0 = bits := by
  unfold Barcode.row0 mk1D
  exact range_map_getD bits false

@[simp] theorem w_mk1D (kind : String) (content : Bytes) (bits : List Bool) (cs : Option Int) (s : Scheme) :
    (mk1D kind content bits cs s).w = bits.length := rfl

@[simp] theorem checksum_mk1D (kind : String) (content : Bytes) (bits : List Bool) (cs : Option Int) (s : Scheme) :
    (mk1D kind content bits cs s).checksum = cs := rfl

@[simp] theorem content_mk1D (kind : String) (content : Bytes) (bits : List Bool) (cs : Option Int) (s : Scheme) :
    (mk1D kind content bits cs s).content = content := rfl

/-! ### `splitEvery` -/

theorem splitEvery_go_flatten {α} (n : Nat) (hn : 0 < n) :
    ∀ (L : List (List α)) (fuel : Nat), (∀ g ∈ L, g.length = n) → L.flatten.length < fuel →
      splitEvery.go n fuel L.flatten = L := by
  intro L
  induction L with
  | nil =>
    intro fuel _ hf
    cases fuel with
    | zero => simp at hf
    | succ f => simp [splitEvery.go]
  | cons g L ih =>
    intro fuel hg hf
    have hgl : g.length = n := hg g (by simp)
    cases fuel with
    | zero => simp at hf
    | succ f =>
      have hne : (g ++ L.flatten).isEmpty = false := by
        cases g with
        | nil => simp at hgl; omega
        | cons a t => rfl
      rw [List.flatten_cons, splitEvery.go, hne]
      simp only [Bool.false_eq_true, if_false]
      rw [List.take_left' hgl, List.drop_left' hgl, ih f (fun x hx => hg x (by simp [hx]))]
      simp only [List.flatten_cons, List.length_append] at hf
      omega

/-- a concatenation of groups of `n` modules is split back into the groups -/
theorem splitEvery_flatten {α} (n : Nat) (hn : 0 < n) (L : List (List α)) (h : ∀ g ∈ L, g.length = n) :
    splitEvery n L.flatten = L := by
  unfold splitEvery
  rw [if_neg (by omega)]
  exact splitEvery_go_flatten n hn L _ h (by omega)

theorem length_flatten_const {α} (n : Nat) (L : List (List α)) (h : ∀ g ∈ L, g.length = n) :
    L.flatten.length = n * L.length := by
  induction L with
  | nil => simp
  | cons g L ih =>
    rw [List.flatten_cons, List.length_append, ih (fun x hx => h x (by simp [hx])), h g (by simp), List.length_cons]
    rw [Nat.mul_succ]; omega

/-! ### `mapM` in `Except` -/

theorem mapM_ok {ε α β} (f : α → Except ε β) (g : α → β) (l : List α) (h : ∀ x ∈ l, f x = .ok (g x)) :
    l.mapM f = .ok (l.map g) := by
  induction l with
  | nil => rfl
  | cons a t ih =>
    rw [List.mapM_cons, h a (by simp), ih (fun x hx => h x (by simp [hx]))]
    rfl

/-- decoding the images of `l` under `p` element by element gives back `l` -/
theorem mapM_map_ok {ε α β} (f : β → Except ε α) (p : α → β) (l : List α) (h : ∀ x ∈ l, f (p x) = .ok x) :
    (l.map p).mapM f = .ok l := by
  induction l with
  | nil => rfl
  | cons a t ih =>
    rw [List.map_cons, List.mapM_cons, h a (by simp), ih (fun x hx => h x (by simp [hx]))]
    rfl

theorem mapM_map_ok' {ε α β γ} (f : β → Except ε γ) (p : α → β) (g : α → γ) (l : List α)
    (h : ∀ x ∈ l, f (p x) = .ok (g x)) : (l.map p).mapM f = .ok (l.map g) := by
  induction l with
  | nil => rfl
  | cons a t ih =>
    rw [List.map_cons, List.mapM_cons, h a (by simp), ih (fun x hx => h x (by simp [hx]))]
    rfl

end BV.Proofs.Bars
