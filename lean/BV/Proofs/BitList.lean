/-
  Proofs for C18: the BitList model refines an append-only bit sequence.
-/
import BV.Model.BitList
import BV.Spec.BitSeq
namespace BV.Proofs.BitList
open BV BV.Model.BitList

/-! ### word level -/

theorem getWordBit_eq (w : BitVec 32) (s : Nat) (hs : s < 32) :
    (((w.sshiftRight s) &&& 1#32) == 1#32) = w.getLsbD s := by
  have : ((w.sshiftRight s) &&& 1#32) = (BitVec.ofBool (w.getLsbD s)).setWidth 32 := by
    apply BitVec.eq_of_getLsbD_eq
    intro i hi
    simp [BitVec.getLsbD_sshiftRight]
    by_cases h0 : i = 0
    · subst h0; simp [hs]
    · simp [h0]
  rw [this]
  cases w.getLsbD s <;> decide

def setWordBit (w : BitVec 32) (s : Nat) (v : Bool) : BitVec 32 :=
  if v then w ||| (1#32 <<< s) else w &&& ~~~(1#32 <<< s)

theorem getLsbD_setWordBit (w : BitVec 32) (s k : Nat) (v : Bool) (hs : s < 32) (hk : k < 32) :
    (setWordBit w s v).getLsbD k = if k = s then v else w.getLsbD k := by
  unfold setWordBit
  by_cases hv : v <;> simp [hv, BitVec.getLsbD_shiftLeft, BitVec.getLsbD_one, hk]
  · by_cases h : k = s
    · subst h; simp
    · simp [h]; omega
  · by_cases h : k = s
    · subst h; simp
    · simp [h]; omega

/-! ### bits of a list -/

/-- bit `i` of the word array, in Go's layout: word `i/32`, bit `31 - i%32` -/
def bit (b : BL) (i : Nat) : Bool := (b.data.getD (i / 32) 0#32).getLsbD (31 - i % 32)

theorem getBit_eq (b : BL) (i : Nat) : b.getBit i = bit b i := by
  unfold BL.getBit bit
  exact getWordBit_eq _ _ (by omega)

theorem abs_eq (b : BL) : b.abs = (List.range b.count).map (bit b) := by
  unfold BL.abs
  apply List.map_congr_left
  intro i _
  exact getBit_eq b i

/-- the representation invariant: the words cover `count` bits and every bit at or beyond `count` is zero -/
def Inv (b : BL) : Prop := b.count ≤ 32 * b.data.size ∧ ∀ i, b.count ≤ i → bit b i = false

theorem getD_setIfInBounds (a : Array (BitVec 32)) (i j : Nat) (x : BitVec 32) (hi : i < a.size) :
    (a.setIfInBounds i x).getD j 0#32 = if j = i then x else a.getD j 0#32 := by
  simp only [Array.getD_eq_getD_getElem?, Array.getElem?_setIfInBounds]
  by_cases h : i = j
  · subst h; simp [hi]
  · have : ¬ j = i := fun e => h e.symm
    simp [h, this]

theorem bit_setBit (b : BL) (i j : Nat) (v : Bool) (hi : i / 32 < b.data.size) :
    bit (b.setBit i v) j = if j = i then v else bit b j := by
  unfold bit BL.setBit
  simp only
  rw [getD_setIfInBounds _ _ _ _ hi]
  by_cases hw : j / 32 = i / 32
  · simp only [hw, if_true]
    have : (if v = true then b.data.getD (i / 32) 0#32 ||| 1#32 <<< (31 - i % 32)
          else b.data.getD (i / 32) 0#32 &&& ~~~(1#32 <<< (31 - i % 32)))
        = setWordBit (b.data.getD (i / 32) 0#32) (31 - i % 32) v := rfl
    rw [this, getLsbD_setWordBit _ _ _ _ (by omega) (by omega)]
    have e : (31 - j % 32 = 31 - i % 32) ↔ j = i := by omega
    by_cases hji : j = i
    · simp [hji]
    · have : ¬ (31 - j % 32 = 31 - i % 32) := fun h => hji (e.mp h)
      simp [this, hji]
  · have hji : j ≠ i := fun h => hw (by rw [h])
    simp [hw, hji]

theorem getD_append_replicate (a : Array (BitVec 32)) (n j : Nat) :
    (a ++ Array.replicate n 0#32).getD j 0#32 = a.getD j 0#32 := by
  simp only [Array.getD_eq_getD_getElem?, Array.getElem?_append, Array.getElem?_replicate]
  by_cases h : j < a.size
  · simp [h]
  · simp only [h, if_false]
    rw [Array.getElem?_eq_none (by omega)]
    split <;> simp

theorem bit_grow (b : BL) (j : Nat) : bit b.grow j = bit b j := by
  unfold bit BL.grow
  simp only [getD_append_replicate]

theorem count_grow (b : BL) : b.grow.count = b.count := rfl

theorem size_grow (b : BL) : b.grow.data.size ≥ b.data.size + 128 := by
  unfold BL.grow
  simp only [Array.size_append, Array.size_replicate]
  split
  · omega
  · split <;> omega

theorem ensure_spec (b : BL) (h : b.count ≤ 32 * b.data.size) :
    b.ensure.count = b.count ∧ (∀ j, bit b.ensure j = bit b j) ∧ b.count / 32 < b.ensure.data.size := by
  unfold BL.ensure
  by_cases h1 : b.count / 32 ≥ b.data.size
  · have hs := size_grow b
    have : ¬ (b.grow.count / 32 ≥ b.grow.data.size) := by
      rw [count_grow]; omega
    simp only [h1, if_true, this, if_false]
    exact ⟨count_grow b, bit_grow b, by omega⟩
  · simp only [h1, if_false]
    refine ⟨trivial, fun _ => trivial, by omega⟩

theorem count_setBit (b : BL) (i : Nat) (v : Bool) : (b.setBit i v).count = b.count := rfl
theorem size_setBit (b : BL) (i : Nat) (v : Bool) : (b.setBit i v).data.size = b.data.size := by
  simp [BL.setBit]

theorem addBit_spec (b : BL) (v : Bool) (h : Inv b) :
    (b.addBit v).count = b.count + 1 ∧ Inv (b.addBit v) ∧
    (∀ j, bit (b.addBit v) j = if j = b.count then v else bit b j) := by
  obtain ⟨hc, hb, hs⟩ := ensure_spec b h.1
  have hbit : ∀ j, bit (b.addBit v) j = if j = b.count then v else bit b j := by
    intro j
    unfold BL.addBit
    simp only
    show bit (b.ensure.setBit b.ensure.count v) j = _
    rw [bit_setBit _ _ _ _ (by rw [hc]; exact hs), hc, hb]
  have hcount : (b.addBit v).count = b.count + 1 := by
    unfold BL.addBit; simp only [count_setBit, hc]
  refine ⟨hcount, ⟨?_, ?_⟩, hbit⟩
  · rw [hcount]
    unfold BL.addBit
    simp only [size_setBit]
    omega
  · intro i hi
    rw [hcount] at hi
    rw [hbit]
    have : i ≠ b.count := by omega
    simp only [this, if_false]
    exact h.2 i (by omega)

/-- appending one bit -/
theorem abs_addBit (b : BL) (v : Bool) (h : Inv b) : (b.addBit v).abs = b.abs ++ [v] := by
  obtain ⟨hc, _, hb⟩ := addBit_spec b v h
  rw [abs_eq, abs_eq, hc, List.range_succ, List.map_append]
  congr 1
  · apply List.map_congr_left
    intro i hi
    have : i ≠ b.count := by
      have := List.mem_range.mp hi; omega
    rw [hb]; simp [this]
  · simp [hb]

theorem addBitsList_spec (bits : List Bool) : ∀ (b : BL), Inv b →
    Inv (b.addBitsList bits) ∧ (b.addBitsList bits).abs = b.abs ++ bits := by
  induction bits with
  | nil => intro b h; exact ⟨h, by simp [BL.addBitsList]⟩
  | cons v rest ih =>
    intro b h
    have h1 := (addBit_spec b v h).2.1
    have := ih (b.addBit v) h1
    unfold BL.addBitsList at this ⊢
    simp only [List.foldl_cons]
    refine ⟨this.1, ?_⟩
    rw [this.2, abs_addBit b v h]
    simp

/-- a fold of `addBit` over computed bits appends them in order -/
theorem foldl_addBit_spec {α} (f : α → Bool) (l : List α) : ∀ (b : BL), Inv b →
    Inv (l.foldl (fun acc i => acc.addBit (f i)) b) ∧
    (l.foldl (fun acc i => acc.addBit (f i)) b).abs = b.abs ++ l.map f := by
  induction l with
  | nil => intro b h; exact ⟨h, by simp⟩
  | cons x rest ih =>
    intro b h
    have h1 := (addBit_spec b (f x) h).2.1
    have := ih (b.addBit (f x)) h1
    simp only [List.foldl_cons, List.map_cons]
    refine ⟨this.1, ?_⟩
    rw [this.2, abs_addBit b (f x) h]
    simp

theorem getD_replicate_zero (k j : Nat) : (Array.replicate k 0#32).getD j 0#32 = 0#32 := by
  simp only [Array.getD_eq_getD_getElem?, Array.getElem?_replicate]
  split <;> rfl

theorem inv_new (n : Nat) : Inv (new n) := by
  constructor
  · unfold new; simp only [Array.size_replicate]
    split
    · omega
    · rename_i h; simp at h; omega
  · intro i _
    unfold bit new
    simp only [getD_replicate_zero]
    simp

theorem abs_new (n : Nat) : (new n).abs = List.replicate n false := by
  rw [abs_eq]
  apply List.ext_getElem
  · simp [new]
  · intro i h1 h2
    simp only [List.getElem_map, List.getElem_range, List.getElem_replicate]
    unfold bit new
    simp only [getD_replicate_zero]
    simp

theorem inv_empty : Inv empty := by
  constructor
  · simp [empty]
  · intro i _; simp [bit, empty]

theorem abs_empty : empty.abs = [] := by simp [BL.abs, empty]

theorem setBit_spec (b : BL) (i : Nat) (v : Bool) (h : Inv b) (hi : i < b.count) :
    Inv (b.setBit i v) ∧ (b.setBit i v).abs = b.abs.set i v := by
  have hr : i / 32 < b.data.size := by have := h.1; omega
  constructor
  · constructor
    · rw [count_setBit, size_setBit]; exact h.1
    · intro j hj
      rw [count_setBit] at hj
      rw [bit_setBit _ _ _ _ hr]
      have : j ≠ i := by omega
      simp only [this, if_false]
      exact h.2 j hj
  · rw [abs_eq, abs_eq, count_setBit]
    apply List.ext_getElem
    · simp
    · intro k h1 h2
      simp only [List.getElem_map, List.getElem_range, List.getElem_set]
      rw [bit_setBit _ _ _ _ hr]
      by_cases hk : i = k
      · simp [hk]
      · have : k ≠ i := fun e => hk e.symm
        simp [hk, this]

theorem getBit_abs (b : BL) (i : Nat) (hi : i < b.count) : b.getBit i = b.abs.getD i false := by
  rw [abs_eq, getBit_eq]
  simp [List.getD, hi]


/-! ### byte views -/

theorem ff_bit (k : Nat) (hk : k < 8) : (0xFF#32).getLsbD k = true := by
  have : k = 0 ∨ k = 1 ∨ k = 2 ∨ k = 3 ∨ k = 4 ∨ k = 5 ∨ k = 6 ∨ k = 7 := by omega
  rcases this with h | h | h | h | h | h | h | h <;> subst h <;> decide

theorem byte_testBit (w : BitVec 32) (s k : Nat) (hs : s + 8 ≤ 32) (hk : k < 8) :
    (((w.sshiftRight s) &&& 0xFF#32).toNat).testBit k = w.getLsbD (s + k) := by
  rw [BitVec.testBit_toNat, BitVec.getLsbD_and, BitVec.getLsbD_sshiftRight, ff_bit k hk]
  have h1 : ¬ (32 ≤ k) := by omega
  have h2 : s + k < 32 := by omega
  simp [h1, h2]

theorem byte_lt (w : BitVec 32) (s : Nat) : ((w.sshiftRight s) &&& 0xFF#32).toNat < 256 := by
  rw [BitVec.toNat_and]
  have : (0xFF#32).toNat = 2 ^ 8 - 1 := by decide
  rw [this, Nat.and_two_pow_sub_one_eq_mod]
  omega

theorem ind (b : Bool) (v k : Nat) (h : v.testBit k = b) : v / 2 ^ k % 2 = (if b then 1 else 0) := by
  rw [Nat.testBit_eq_decide_div_mod_eq] at h
  cases b <;> simp at h <;> simp <;> omega

theorem byte_val (w : BitVec 32) (s : Nat) (hs : s + 8 ≤ 32) :
    ((w.sshiftRight s) &&& 0xFF#32).toNat =
      (List.range 8).foldl (fun acc j => 2 * acc + (if w.getLsbD (s + 7 - j) then 1 else 0)) 0 := by
  have hv := byte_lt w s
  have t0 := ind _ _ 0 (byte_testBit w s 0 hs (by omega))
  have t1 := ind _ _ 1 (byte_testBit w s 1 hs (by omega))
  have t2 := ind _ _ 2 (byte_testBit w s 2 hs (by omega))
  have t3 := ind _ _ 3 (byte_testBit w s 3 hs (by omega))
  have t4 := ind _ _ 4 (byte_testBit w s 4 hs (by omega))
  have t5 := ind _ _ 5 (byte_testBit w s 5 hs (by omega))
  have t6 := ind _ _ 6 (byte_testBit w s 6 hs (by omega))
  have t7 := ind _ _ 7 (byte_testBit w s 7 hs (by omega))
  simp only [List.range, List.range.loop, List.foldl]
  have e7 : s + 7 - 0 = s + 7 := by omega
  have e6 : s + 7 - 1 = s + 6 := by omega
  have e5 : s + 7 - 2 = s + 5 := by omega
  have e4 : s + 7 - 3 = s + 4 := by omega
  have e3 : s + 7 - 4 = s + 3 := by omega
  have e2 : s + 7 - 5 = s + 2 := by omega
  have e1 : s + 7 - 6 = s + 1 := by omega
  have e0 : s + 7 - 7 = s + 0 := by omega
  rw [e7, e6, e5, e4, e3, e2, e1, e0]
  generalize (if w.getLsbD (s + 0) = true then 1 else 0) = a0 at *
  generalize (if w.getLsbD (s + 1) = true then 1 else 0) = a1 at *
  generalize (if w.getLsbD (s + 2) = true then 1 else 0) = a2 at *
  generalize (if w.getLsbD (s + 3) = true then 1 else 0) = a3 at *
  generalize (if w.getLsbD (s + 4) = true then 1 else 0) = a4 at *
  generalize (if w.getLsbD (s + 5) = true then 1 else 0) = a5 at *
  generalize (if w.getLsbD (s + 6) = true then 1 else 0) = a6 at *
  generalize (if w.getLsbD (s + 7) = true then 1 else 0) = a7 at *
  generalize ((w.sshiftRight s) &&& 0xFF#32).toNat = v at *
  simp at t0 t1 t2 t3 t4 t5 t6 t7
  omega


theorem foldl_congr_mem {α β} (f g : β → α → β) (l : List α) (init : β)
    (h : ∀ acc x, x ∈ l → f acc x = g acc x) : l.foldl f init = l.foldl g init := by
  induction l generalizing init with
  | nil => rfl
  | cons x rest ih =>
    simp only [List.foldl_cons]
    rw [h init x (by simp)]
    exact ih _ (fun acc y hy => h acc y (by simp [hy]))

/-- bit `k` of the abstraction, also beyond the end (zero there by the invariant) -/
theorem abs_getD (b : BL) (h : Inv b) (k : Nat) : b.abs.getD k false = bit b k := by
  rw [abs_eq]
  by_cases hk : k < b.count
  · simp [List.getD, hk]
  · simp [List.getD, hk]
    exact (h.2 k (by omega))

theorem getBytes_eq_pack (b : BL) (h : Inv b) : b.getBytes = Spec.BitSeq.pack b.abs := by
  unfold BL.getBytes Spec.BitSeq.pack
  have hlen : b.count / 8 + (if b.count % 8 != 0 then 1 else 0) = (b.abs.length + 7) / 8 := by
    have : b.abs.length = b.count := by simp [BL.abs]
    rw [this]
    split
    · rename_i h1; simp at h1; omega
    · rename_i h1; simp at h1; omega
  rw [hlen]
  apply List.map_congr_left
  intro i _
  have hs : (3 - i % 4) * 8 + 8 ≤ 32 := by omega
  rw [byte_val _ _ hs]
  apply foldl_congr_mem
  intro acc j hj
  have hj8 : j < 8 := List.mem_range.mp hj
  rw [abs_getD b h]
  unfold bit
  have e1 : (8 * i + j) / 32 = i / 4 := by omega
  have e2 : 31 - (8 * i + j) % 32 = (3 - i % 4) * 8 + 7 - j := by omega
  rw [e1, e2]

/-- the loop of `IterateBytes`, started after `k` bytes, yields the remaining bytes -/
theorem iterate_go (b : BL) (n : Nat) : ∀ (fuel k : Nat), k ≤ n → n - k ≤ fuel →
    (8 * (n - 1) < b.count ∨ n = 0) → b.count ≤ 8 * n →
    BL.iterateBytes.go b fuel ((b.count : Int) - 8 * k) (24 - 8 * (k % 4)) (k / 4) =
      ((List.range (n - k)).map (fun i =>
        (((b.data.getD ((k + i) / 4) 0#32).sshiftRight ((3 - (k + i) % 4) * 8)) &&& 0xFF#32).toNat)) := by
  intro fuel
  induction fuel with
  | zero =>
    intro k hk hf _ _
    have : n - k = 0 := by omega
    simp [BL.iterateBytes.go, this]
  | succ fuel ih =>
    intro k hk hf hn1 hn2
    unfold BL.iterateBytes.go
    by_cases hc : (b.count : Int) - 8 * k > 0
    · have hkn : k < n := by omega
      simp only [hc, if_true]
      have hstep := ih (k + 1) (by omega) (by omega) hn1 hn2
      have hrange : n - k = (n - (k + 1)) + 1 := by omega
      rw [hrange, List.range_succ_eq_map, List.map_cons, List.map_map]
      have hsh : 24 - 8 * (k % 4) = (3 - k % 4) * 8 := by omega
      by_cases h3 : k % 4 = 3
      · have : 24 - 8 * (k % 4) < 8 := by omega
        simp only [this, if_true]
        have e1 : (k + 1) / 4 = k / 4 + 1 := by omega
        have e2 : 24 - 8 * ((k + 1) % 4) = 24 := by omega
        have e3 : ((b.count : Int) - 8 * ((k + 1 : Nat) : Int)) = (b.count : Int) - 8 * k - 8 := by omega
        rw [e1, e2, e3] at hstep
        rw [hstep]
        simp only [Nat.add_zero, hsh, List.cons.injEq, true_and]
        apply List.map_congr_left
        intro i _
        simp only [Function.comp]
        have : k + (i + 1) = k + 1 + i := by omega
        rw [this]
      · have : ¬ 24 - 8 * (k % 4) < 8 := by omega
        simp only [this, if_false]
        have e1 : (k + 1) / 4 = k / 4 := by omega
        have e2 : 24 - 8 * ((k + 1) % 4) = 24 - 8 * (k % 4) - 8 := by omega
        have e3 : ((b.count : Int) - 8 * ((k + 1 : Nat) : Int)) = (b.count : Int) - 8 * k - 8 := by omega
        rw [e1, e2, e3] at hstep
        rw [hstep]
        simp only [Nat.add_zero, hsh, List.cons.injEq, true_and]
        apply List.map_congr_left
        intro i _
        simp only [Function.comp]
        have : k + (i + 1) = k + 1 + i := by omega
        rw [this]
    · have : n - k = 0 := by omega
      simp only [hc, if_false, this, List.range_zero, List.map_nil]

theorem iterateBytes_eq_getBytes (b : BL) : b.iterateBytes = b.getBytes := by
  unfold BL.iterateBytes BL.getBytes
  let n := b.count / 8 + (if b.count % 8 != 0 then 1 else 0)
  have hn : n = b.count / 8 + (if b.count % 8 != 0 then 1 else 0) := rfl
  have hn1 : 8 * (n - 1) < b.count ∨ n = 0 := by
    rw [hn]; split
    · rename_i h; simp at h; omega
    · rename_i h; simp at h; omega
  have hn2 : b.count ≤ 8 * n := by
    rw [hn]; split
    · rename_i h; simp at h; omega
    · rename_i h; simp at h; omega
  have hf : n - 0 ≤ b.count / 8 + 1 := by
    rw [hn]; split <;> omega
  have := iterate_go b n (b.count / 8 + 1) 0 (by omega) hf hn1 hn2
  simp only [Nat.zero_mod, Nat.mul_zero, Nat.sub_zero, Nat.zero_div, Nat.zero_add, Int.natCast_zero,
    Int.mul_zero, Int.sub_zero] at this
  rw [this]

/-! ### AddByte / AddBits append the low bits, most significant first -/

theorem addByte_spec (b : BL) (x : Nat) (h : Inv b) :
    Inv (b.addByte x) ∧ (b.addByte x).abs = b.abs ++ Spec.BitSeq.lowBits (x : Int) 8 := by
  unfold BL.addByte
  have := foldl_addBit_spec (fun i => (x >>> (7 - i)) % 2 == 1) (List.range 8) b h
  refine ⟨this.1, ?_⟩
  rw [this.2]
  congr 1
  unfold Spec.BitSeq.lowBits
  apply List.map_congr_left
  intro i _
  rw [Nat.shiftRight_eq_div_pow]
  have : ((x : Int) / (2 : Int) ^ (8 - 1 - i)) % 2 = ((x / 2 ^ (7 - i) % 2 : Nat) : Int) := by
    have e : 8 - 1 - i = 7 - i := by omega
    rw [e]
    norm_cast
  rw [this]
  cases hq : (x / 2 ^ (7 - i) % 2) with
  | zero => simp
  | succ m => cases m with
    | zero => simp
    | succ m => omega

theorem addBits_spec (b : BL) (x : Int) (k : Nat) (h : Inv b) :
    Inv (b.addBits x k) ∧ (b.addBits x k).abs = b.abs ++ Spec.BitSeq.lowBits x k := by
  unfold BL.addBits
  have := foldl_addBit_spec (fun i => (x >>> (k - 1 - i)) % 2 == 1) (List.range k) b h
  refine ⟨this.1, ?_⟩
  rw [this.2]
  congr 1
  unfold Spec.BitSeq.lowBits
  apply List.map_congr_left
  intro i _
  rw [Int.shiftRight_eq_div_pow]
  norm_cast

end BV.Proofs.BitList
