/-
  BV.Proofs.PdfRSPoly — the division identity of PdfRS read in the polynomial ring (ZMod 929)[X]:
  the register of `Compute` is the remainder `data(X)·X^n %ₘ g(X)` (Mathlib's `Polynomial.modByMonic`).
-/
import BV.Proofs.PdfRS
import Mathlib.Algebra.Polynomial.Div
namespace BV.Proofs.PdfRS
open Polynomial BV.Model.Pdf417

instance : Fact (1 < 929) := ⟨by decide⟩

/-- a coefficient list (highest degree first) as a polynomial over GF(929) -/
noncomputable def toPoly (w : List Nat) : F[X] := evalZ w (X : F[X])

/-- the monic polynomial whose low coefficients are the factor table of `level` -/
noncomputable def gPoly (level : Nat) : F[X] := gEval (factorsOf level) (X : F[X])

theorem degree_toPoly_lt (w : List Nat) : (toPoly w).degree < (w.length : WithBot ℕ) := by
  induction w with
  | nil => simp [toPoly, evalZ_nil]
  | cons c cs ih =>
    unfold toPoly at ih ⊢
    rw [evalZ_cons]
    have h1 : ((c : F[X]) * X ^ cs.length).degree ≤ (cs.length : WithBot ℕ) := by
      calc ((c : F[X]) * X ^ cs.length).degree ≤ (c : F[X]).degree + (X ^ cs.length : F[X]).degree :=
            degree_mul_le _ _
        _ ≤ 0 + (cs.length : WithBot ℕ) := add_le_add (degree_natCast_le c) (degree_X_pow_le _)
        _ = (cs.length : WithBot ℕ) := zero_add _
    have hlt : (cs.length : WithBot ℕ) < ((c :: cs).length : WithBot ℕ) := by
      rw [List.length_cons]; exact_mod_cast Nat.lt_succ_self _
    exact lt_of_le_of_lt (degree_add_le _ _) (max_lt (lt_of_le_of_lt h1 hlt) (lt_trans ih hlt))

theorem gPoly_eq (level : Nat) :
    gPoly level = X ^ (factorsOf level).length + toPoly (factorsOf level).reverse := by
  rw [gPoly, gEval, toPoly, evalLowZ_reverse]

theorem gPoly_monic (level : Nat) : (gPoly level).Monic := by
  rw [gPoly_eq]
  apply monic_X_pow_add
  have := degree_toPoly_lt (factorsOf level).reverse
  rwa [List.length_reverse] at this

theorem gPoly_degree (level : Nat) (h : level ≤ 8) : (gPoly level).degree = ((2 ^ (level + 1) : ℕ) : WithBot ℕ) := by
  have := degree_toPoly_lt (factorsOf level).reverse
  rw [List.length_reverse] at this
  rw [gPoly_eq, degree_add_eq_left_of_degree_lt (by rwa [degree_X_pow]), degree_X_pow,
    factorsOf_length level h]

/-- (1b) in Mathlib's terms: the check words are the negated coefficients of the remainder of
    data(X)·X^n modulo the monic g_level(X), n = 2^(level+1) -/
theorem compute_modByMonic (level : Nat) (h : level ≤ 8) (data : List Nat) :
    ∃ T : List Nat, T.length = 2 ^ (level + 1) ∧ (∀ x ∈ T, x < 929) ∧
      compute level data = .ok (T.map (fun word => if word > 0 then 929 - word else word)) ∧
      toPoly T = (toPoly data * X ^ (2 ^ (level + 1))) %ₘ gPoly level := by
  obtain ⟨q, T, hT, hlt, hck, hdiv, _⟩ := compute_division (R := F[X]) level h data X
  refine ⟨T, hT, hlt, by rw [compute_eq level h, hck], ?_⟩
  have := div_modByMonic_unique (f := toPoly data * X ^ (2 ^ (level + 1))) (toPoly q) (toPoly T)
    (gPoly_monic level)
    ⟨by unfold toPoly gPoly; rw [hdiv]; ring, by
      rw [gPoly_degree level h, ← hT]; exact degree_toPoly_lt T⟩
  exact this.2.symm

end BV.Proofs.PdfRS
