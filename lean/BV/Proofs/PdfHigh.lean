/-
  BV.Proofs.PdfHigh — the segmentation loop of `highlevelEncode` (highlevel.go) against the compaction-mode
  automaton `Spec.Pdf417.decodeData` (ISO/IEC 15438), for ALL byte strings.

  Route:
  1. Runes of a byte string (`runeList_cons`, `runeList_ascii`, `decodeRune_high`): an ASCII byte is its own
     rune, any other byte starts a rune ≥ 0x80.  `ascii_prefix`: as long as the first `k` runes are ASCII,
     slicing the BYTE string with the RUNE count `k` (what the Go code does) is slicing the rune string.
  2. The look-ahead counters in recursive form (`digitCount_cons`, `textCount_cons`) and their meaning
     (`digitCount_spec`, `textCount_spec`): the counted prefix consists of digits / Text characters, and the
     text counter stops at a `textStop` position, in front of which the next round can only take the numeric
     branch (≥ 13 digits) or the binary branch (`textStop_elim`): two Text segments are never adjacent.
  3. The decoder on whole segments: `step_latch` (900/901/902/924 from any closable mode), `fold_byte`,
     `fold_numeric`; the segment round trips come from `PdfByte`, `PdfNumeric`, `PdfText`.
  4. `Inv`: the loop invariant; `inv_numeric`, `inv_byte`, `inv_shift`, `inv_text_cont`, `inv_text_latch`: one
     lemma per way a round extends the result; `loop_numeric`, `loop_text`, `loop_binary`: the rounds of
     `highlevelLoop`; `loop_inv`: induction on the fuel (every round consumes at least one byte, so the fuel
     `len + 1` never runs out).
  5. `highlevelEncode_roundtrip`, `highlevel_last_ne_900`, `highlevelEncode_ok`.
-/
import BV.Model.Pdf417
import BV.Spec.Pdf417
import BV.Proofs.PdfByte
import BV.Proofs.PdfNumeric
import BV.Proofs.PdfText
namespace BV.Proofs.PdfHigh
open BV BV.Model BV.Model.Pdf417 BV.Spec.Pdf417 BV.Gen.Pdf417
open BV.Proofs.PdfText (subOf)

/-! ### runes of a byte string -/

/-- without bytes there are no runes, whatever the fuel -/
theorem runesAux_nil (fuel off : Nat) : runesAux fuel off [] = [] := by
  cases fuel <;> rfl

/-- a rune decoded from a non-empty string is at least one byte wide -/
theorem decodeRune_width (b : UInt8) (rest : Bytes) : 1 ≤ (decodeRune (b :: rest)).2 := by
  unfold decodeRune
  simp only
  repeat' split
  all_goals simp

/-- the rune values do not depend on the fuel (as long as it is at least the length) nor on the offset -/
theorem runesAux_indep (n : Nat) : ∀ (f1 f2 o1 o2 : Nat) (s : Bytes), s.length ≤ n → s.length ≤ f1 →
    s.length ≤ f2 → (runesAux f1 o1 s).map (·.2) = (runesAux f2 o2 s).map (·.2) := by
  induction n with
  | zero =>
    intro f1 f2 o1 o2 s hn _ _
    have : s = [] := List.length_eq_zero_iff.mp (by omega)
    subst this; simp [runesAux_nil]
  | succ n ih =>
    intro f1 f2 o1 o2 s hn h1 h2
    match s, f1, f2, h1, h2 with
    | [], _, _, _, _ => simp [runesAux_nil]
    | b :: rest, f1 + 1, f2 + 1, h1, h2 =>
      have hw := decodeRune_width b rest
      simp only [List.length_cons] at hn h1 h2
      simp only [runesAux, List.map_cons]
      congr 1
      have hl : ((b :: rest).drop (decodeRune (b :: rest)).2).length ≤ rest.length := by
        simp only [List.length_drop, List.length_cons]; omega
      exact ih _ _ _ _ _ (by omega) (by omega) (by omega)

/-- `[]rune(s)` by recursion on the string: first rune, then the runes of what follows it -/
theorem runeList_cons (b : UInt8) (rest : Bytes) :
    runeList (b :: rest) =
      (decodeRune (b :: rest)).1 :: runeList ((b :: rest).drop (decodeRune (b :: rest)).2) := by
  have hw := decodeRune_width b rest
  unfold runeList runes
  simp only [List.length_cons, runesAux, List.map_cons]
  congr 1
  have hl : ((b :: rest).drop (decodeRune (b :: rest)).2).length ≤ rest.length := by
    simp only [List.length_drop, List.length_cons]; omega
  exact runesAux_indep rest.length _ _ _ _ _ hl hl (Nat.le_refl _)

/-- the empty string has no runes -/
theorem runeList_nil : runeList [] = [] := rfl

/-- an ASCII byte is its own rune -/
theorem runeList_ascii (b : UInt8) (rest : Bytes) (h : b.toNat < 0x80) :
    runeList (b :: rest) = b.toNat :: runeList rest := by
  rw [runeList_cons]
  have : decodeRune (b :: rest) = (b.toNat, 1) := by simp [decodeRune, h]
  rw [this]; rfl

/-- a non-ASCII byte starts a rune ≥ 0x80 (a decoded multi-byte value or U+FFFD) -/
theorem decodeRune_high (b : UInt8) (rest : Bytes) (h : 0x80 ≤ b.toNat) :
    0x80 ≤ (decodeRune (b :: rest)).1 := by
  have hb := b.toNat_lt
  unfold decodeRune
  simp only [runeError]
  repeat' split
  all_goals simp only [Bool.and_eq_true, decide_eq_true_eq] at *
  all_goals omega

/-- the head rune of a non-empty string is < 0x80 only for an ASCII byte -/
theorem runeList_head_lt (b : UInt8) (rest : Bytes) (r : Nat) (rs : List Nat)
    (h : runeList (b :: rest) = r :: rs) (hr : r < 0x80) : b.toNat < 0x80 ∧ r = b.toNat ∧ rs = runeList rest := by
  by_cases hb : b.toNat < 0x80
  · rw [runeList_ascii b rest hb] at h
    simp only [List.cons.injEq] at h
    exact ⟨hb, h.1.symm, h.2.symm⟩
  · rw [runeList_cons] at h
    simp only [List.cons.injEq] at h
    have := decodeRune_high b rest (by omega)
    omega

/-- If the first `k` runes are ASCII then they are the first `k` bytes, and slicing the byte string with
    the rune count `k` (as the Go code does) is slicing the rune string. -/
theorem ascii_prefix (k : Nat) : ∀ (data : Bytes), k ≤ (runeList data).length →
    (∀ r ∈ (runeList data).take k, r < 0x80) →
    k ≤ data.length ∧ runeList (data.take k) = (runeList data).take k ∧
      (data.take k).map (·.toNat) = (runeList data).take k ∧ runeList (data.drop k) = (runeList data).drop k := by
  induction k with
  | zero => intro data _ _; simp [runeList_nil]
  | succ k ih =>
    intro data hk h
    match data with
    | [] => simp [runeList_nil] at hk
    | b :: rest =>
      match hrl : runeList (b :: rest) with
      | [] => rw [hrl] at hk; simp at hk
      | r :: rs =>
        rw [hrl] at hk h
        have hr : r < 0x80 := h r (by simp)
        obtain ⟨hb, rfl, rfl⟩ := runeList_head_lt b rest r rs hrl hr
        simp only [List.length_cons, Nat.add_le_add_iff_right] at hk
        obtain ⟨h1, h2, h3, h4⟩ := ih rest hk (fun x hx => h x (by simp [hx]))
        refine ⟨by simp only [List.length_cons]; omega, ?_, ?_, ?_⟩
        · simp only [List.take_succ_cons]; rw [runeList_ascii _ _ hb, h2]
        · simp only [List.take_succ_cons, List.map_cons, h3]
        · simpa using h4

/-! ### the three look-ahead counters -/

/-- the counter of the digit loop is an accumulator -/
theorem digitGo_acc (l : List Nat) : ∀ cnt, determineConsecutiveDigitCount.go l cnt
    = cnt + determineConsecutiveDigitCount.go l 0 := by
  induction l with
  | nil => intro cnt; simp [determineConsecutiveDigitCount.go]
  | cons r rest ih =>
    intro cnt
    simp only [determineConsecutiveDigitCount.go]
    split
    · rfl
    · rw [ih (cnt + 1), ih (0 + 1)]; omega

/-- no runes, no digits -/
theorem digitCount_nil : determineConsecutiveDigitCount [] = 0 := rfl

/-- `determineConsecutiveDigitCount` by recursion on the list -/
theorem digitCount_cons (r : Nat) (rest : List Nat) : determineConsecutiveDigitCount (r :: rest)
    = if 48 ≤ r ∧ r ≤ 57 then determineConsecutiveDigitCount rest + 1 else 0 := by
  unfold determineConsecutiveDigitCount
  simp only [determineConsecutiveDigitCount.go, runeToInt]
  by_cases h : 48 ≤ r ∧ r ≤ 57
  · have : ¬ ((r : Int) - 48 = -1) := by omega
    simp only [h, and_self, if_true, beq_iff_eq, this, if_false]
    rw [digitGo_acc]; omega
  · simp [h]

/-- the digit count is a prefix length, and the prefix consists of ASCII digits -/
theorem digitCount_spec (rs : List Nat) : determineConsecutiveDigitCount rs ≤ rs.length ∧
    ∀ r ∈ rs.take (determineConsecutiveDigitCount rs), 48 ≤ r ∧ r ≤ 57 := by
  induction rs with
  | nil => simp [digitCount_nil]
  | cons r rest ih =>
    rw [digitCount_cons]
    split
    · rename_i h
      refine ⟨by simp only [List.length_cons]; omega, ?_⟩
      intro x hx
      simp only [List.take_succ_cons, List.mem_cons] at hx
      rcases hx with rfl | hx
      · exact h
      · exact ih.2 x hx
    · simp

/-- the counter of the text loop is an accumulator -/
theorem textGo_acc (l : List Nat) : ∀ cnt, determineConsecutiveTextCount.go l cnt
    = cnt + determineConsecutiveTextCount.go l 0 := by
  induction l with
  | nil => intro cnt; simp [determineConsecutiveTextCount.go]
  | cons r rest ih =>
    intro cnt
    simp only [determineConsecutiveTextCount.go]
    split
    · rfl
    · rw [ih (cnt + 1), ih (0 + 1)]; omega

/-- no runes, no Text characters -/
theorem textCount_nil : determineConsecutiveTextCount [] = 0 := rfl

/-- the condition under which `determineConsecutiveTextCount` stops in front of `rs`: at least 13 digits
    follow, or the next rune is neither a digit nor a Text character -/
def textStop (rs : List Nat) : Bool :=
  match rs with
  | [] => true
  | ch :: _ => determineConsecutiveDigitCount rs ≥ c_min_numeric_count ||
      (determineConsecutiveDigitCount rs == 0 && !isText ch)

/-- `determineConsecutiveTextCount` by recursion on the list -/
theorem textCount_cons (ch : Nat) (rest : List Nat) : determineConsecutiveTextCount (ch :: rest)
    = if textStop (ch :: rest) then 0 else determineConsecutiveTextCount rest + 1 := by
  unfold determineConsecutiveTextCount textStop
  simp only [determineConsecutiveTextCount.go]
  split
  · rfl
  · rw [textGo_acc]; omega

/-- in front of a stop position the text count is 0 and the digit count is 0 or at least 13 -/
theorem textStop_elim (rs : List Nat) (h : textStop rs = true) : determineConsecutiveTextCount rs = 0 ∧
    (determineConsecutiveDigitCount rs ≥ c_min_numeric_count ∨ determineConsecutiveDigitCount rs = 0) := by
  match rs with
  | [] => simp [textCount_nil, digitCount_nil]
  | ch :: rest =>
    refine ⟨by rw [textCount_cons, if_pos h], ?_⟩
    simp only [textStop, Bool.or_eq_true, decide_eq_true_eq, Bool.and_eq_true, beq_iff_eq] at h
    rcases h with h | h
    · exact Or.inl h
    · exact Or.inr h.1

/-- a rune at which the text count does not stop is a Text character -/
theorem isText_of_not_stop (ch : Nat) (rest : List Nat) (h : textStop (ch :: rest) = false) :
    isText ch = true := by
  simp only [textStop, Bool.or_eq_false_iff, decide_eq_false_iff_not, Bool.and_eq_false_imp, beq_iff_eq,
    Bool.not_eq_false'] at h
  by_cases h0 : determineConsecutiveDigitCount (ch :: rest) = 0
  · simpa using h.2 h0
  · rw [digitCount_cons] at h0
    split at h0
    · rename_i hd; simp [isText]; omega
    · exact absurd rfl h0

/-- the text count is a prefix length, the prefix consists of Text characters, and what follows it is a
    stop position: the next round of the segmentation loop cannot produce another Text segment -/
theorem textCount_spec (rs : List Nat) : determineConsecutiveTextCount rs ≤ rs.length ∧
    (∀ r ∈ rs.take (determineConsecutiveTextCount rs), isText r = true) ∧
    textStop (rs.drop (determineConsecutiveTextCount rs)) = true := by
  induction rs with
  | nil => simp [textCount_nil, textStop]
  | cons ch rest ih =>
    rw [textCount_cons]
    cases hs : textStop (ch :: rest)
    · simp only [Bool.false_eq_true, if_false, List.length_cons, List.take_succ_cons, List.drop_succ_cons]
      refine ⟨by omega, ?_, ih.2.2⟩
      intro x hx
      simp only [List.mem_cons] at hx
      rcases hx with rfl | hx
      · exact isText_of_not_stop _ _ hs
      · exact ih.2.1 x hx
    · simp [hs]

/-- a Text character is ASCII -/
theorem isText_ascii (r : Nat) (h : isText r = true) : r < 0x80 := by
  have := PdfText.isText_lt r h; omega

/-- the binary loop counts at most the bytes it walks over -/
theorem binaryGo_le (l : Bytes) : ∀ cnt, determineConsecutiveBinaryCount.go l cnt ≤ cnt + l.length := by
  induction l with
  | nil => intro cnt; simp [determineConsecutiveBinaryCount.go]
  | cons b rest ih =>
    intro cnt
    simp only [determineConsecutiveBinaryCount.go, List.length_cons]
    split
    · omega
    · split
      · omega
      · have := ih (cnt + 1); omega

/-- the binary count is at most the number of bytes -/
theorem binaryCount_le (data : Bytes) : determineConsecutiveBinaryCount data ≤ data.length := by
  have := binaryGo_le data 0
  unfold determineConsecutiveBinaryCount; omega

/-! ### byte prefixes selected by the counters -/

/-- converting ASCII runes back to bytes -/
theorem map_ofNat_toNat (l : Bytes) : (l.map (·.toNat)).map UInt8.ofNat = l := by
  rw [List.map_map]
  have : (UInt8.ofNat ∘ fun (b : UInt8) => b.toNat) = id := by
    funext b; simp only [Function.comp, id]; exact UInt8.ofNat_toNat
  rw [this, List.map_id]

/-- The numeric branch: the first `numericCount` BYTES are ASCII digits and they are their own runes. -/
theorem numeric_prefix (data : Bytes) :
    let n := determineConsecutiveDigitCount (runeList data)
    n ≤ data.length ∧ (∀ d ∈ runeList (data.take n), 48 ≤ d ∧ d ≤ 57) ∧
      (runeList (data.take n)).map UInt8.ofNat = data.take n := by
  intro n
  obtain ⟨h1, h2⟩ := digitCount_spec (runeList data)
  obtain ⟨a1, a2, a3, _⟩ := ascii_prefix n data h1 (fun r hr => by have := h2 r hr; omega)
  refine ⟨a1, ?_, ?_⟩
  · rw [a2]; exact h2
  · rw [a2, ← a3, map_ofNat_toNat]

/-- The text branch: the first `textCount` BYTES are ASCII Text characters and their own runes; the rest of
    the string starts at a stop position. -/
theorem text_prefix (data : Bytes) :
    let k := determineConsecutiveTextCount (runeList data)
    k ≤ data.length ∧ (∀ ch ∈ runeList (data.take k), isText ch = true) ∧
      (runeList (data.take k)).map UInt8.ofNat = data.take k ∧ textStop (runeList (data.drop k)) = true := by
  intro k
  obtain ⟨h1, h2, h3⟩ := textCount_spec (runeList data)
  obtain ⟨a1, a2, a3, a4⟩ := ascii_prefix k data h1 (fun r hr => isText_ascii r (h2 r hr))
  refine ⟨a1, ?_, ?_, ?_⟩
  · rw [a2]; exact h2
  · rw [a2, ← a3, map_ofNat_toNat]
  · rw [a4]; exact h3

/-! ### the decoder on whole segments -/

/-- the mode entered by one of the four latches -/
def latchTo (c : Nat) : Mode :=
  if c == 900 then .text .alpha .none else if c == 901 then .byte false []
  else if c == 924 then .byte true [] else .numeric []

/-- A latch 900 / 901 / 902 / 924 is accepted in every mode whose running segment can be closed: the
    segment is flushed and the new mode entered (in Text mode a pending shift is dropped). -/
theorem step_latch (m : Mode) (out o : Array UInt8) (c : Nat) (hf : flush m out = .ok o)
    (hc : c = 900 ∨ c = 901 ∨ c = 902 ∨ c = 924) : step (m, out) c = .ok (latchTo c, o) := by
  cases m with
  | text sub sh =>
    simp only [flush, pure, Except.pure, Except.ok.injEq] at hf
    subst hf
    rcases hc with rfl | rfl | rfl | rfl <;> rfl
  | byteShift sub => simp [flush, throw, throwThe, MonadExceptOf.throw] at hf
  | byte exact rev =>
    rcases hc with rfl | rfl | rfl | rfl <;>
    · simp only [step, latch]
      rw [hf]; rfl
  | numeric rev =>
    rcases hc with rfl | rfl | rfl | rfl <;>
    · simp only [step, latch]
      rw [hf]; rfl

/-- in Byte mode codewords below 900 are collected -/
theorem fold_byte (body : List Nat) : ∀ (e : Bool) (rev : List Nat) (out : Array UInt8), (∀ c ∈ body, c < 900) →
    body.foldlM step (Mode.byte e rev, out) = .ok (Mode.byte e (body.reverse ++ rev), out) := by
  induction body with
  | nil => intro e rev out _; rfl
  | cons c body ih =>
    intro e rev out h
    have hc := h c (by simp)
    have h1 : ¬ c ≥ 929 := by omega
    rw [List.foldlM_cons]
    simp only [step, h1, if_false, hc, if_true]
    show List.foldlM step (Mode.byte e (c :: rev), out) body = _
    rw [ih _ _ _ (fun x hx => h x (by simp [hx]))]
    simp

/-- in Numeric mode codewords below 900 are collected -/
theorem fold_numeric (body : List Nat) : ∀ (rev : List Nat) (out : Array UInt8), (∀ c ∈ body, c < 900) →
    body.foldlM step (Mode.numeric rev, out) = .ok (Mode.numeric (body.reverse ++ rev), out) := by
  induction body with
  | nil => intro rev out _; rfl
  | cons c body ih =>
    intro rev out h
    have hc := h c (by simp)
    have h1 : ¬ c ≥ 929 := by omega
    rw [List.foldlM_cons]
    simp only [step, h1, if_false, hc, if_true]
    show List.foldlM step (Mode.numeric (c :: rev), out) body = _
    rw [ih _ _ (fun x hx => h x (by simp [hx]))]
    simp

/-! ### the loop invariant -/

/-- the decoder's initial state -/
abbrev init : Mode × Array UInt8 := (Mode.text .alpha .none, #[])

/-- Invariant of the segmentation loop: `pre` are the bytes consumed so far, `data` the remaining ones.
    The decoder accepts `result`; closing its running segment yields exactly `pre`; all codewords are valid
    and the last one is not 900.  When the encoder is in Text mode the decoder is in the encoder's sub-mode,
    and a pending shift (the pad 29 of an odd Text run) can only be present if the remaining data starts at
    a stop position of the text counter, so that the next segment starts with a latch or the 913 shift. -/
def Inv (pre data : Bytes) (emode tsm : Nat) (result : List Nat) : Prop :=
  ∃ m out, result.foldlM step init = .ok (m, out) ∧ flush m out = .ok pre.toArray ∧
    (∀ c ∈ result, c < 929) ∧ result.getLast? ≠ some 900 ∧ (3 ≤ tsm ∧ tsm ≤ 6) ∧
    (emode = c_encText → ∃ sh, m = .text (subOf tsm) sh ∧ (sh = .none ∨ textStop (runeList data) = true))

/-- the invariant holds initially -/
theorem inv_init (data : Bytes) : Inv [] data c_encText c_subUpper [] :=
  ⟨.text .alpha .none, #[], rfl, rfl, by simp, by simp, by decide, fun _ => ⟨.none, rfl, Or.inl rfl⟩⟩

/-- a list ending in a non-empty run of codewords below 900 does not end in 900 -/
theorem getLast_append_ne (l body : List Nat) (hb : body ≠ []) (h : ∀ c ∈ body, c < 900) :
    (l ++ body).getLast? ≠ some 900 := by
  rw [List.getLast?_append, List.getLast?_eq_some_getLast hb]
  intro hh
  have := h _ (List.getLast_mem hb)
  simp only [Option.some_or, Option.some.injEq] at hh
  omega

/-- running the decoder over `result ++ seg` -/
theorem fold_append (result seg : List Nat) (st st' : Mode × Array UInt8)
    (h1 : result.foldlM step init = .ok st) (h2 : seg.foldlM step st = .ok st') :
    (result ++ seg).foldlM step init = .ok st' := by
  rw [List.foldlM_append, h1]; exact h2

/-- Numeric segment: latch 902 and the codewords of `encodeNumeric` -/
theorem inv_numeric (pre data data' seg : Bytes) (e t : Nat) (result numData : List Nat)
    (hseg : seg ≠ []) (hlt : ∀ c ∈ numData, c < 900) (hfl : flushNumeric numData.length numData = .ok seg)
    (h : Inv pre data e t result) :
    Inv (pre ++ seg) data' c_encNumeric c_subUpper (result ++ [c_latch_to_numeric] ++ numData) := by
  obtain ⟨m, out, hfold, hflush, hres, _, _, _⟩ := h
  have hne : numData ≠ [] := by
    rintro rfl
    simp only [List.length_nil, flushNumeric, pure, Except.pure, Except.ok.injEq] at hfl
    exact hseg hfl.symm
  refine ⟨.numeric numData.reverse, pre.toArray, ?_, ?_, ?_, ?_, by decide, ?_⟩
  · rw [List.append_assoc]
    apply fold_append _ _ _ _ hfold
    rw [List.foldlM_append]
    simp only [List.foldlM_cons, List.foldlM_nil, c_latch_to_numeric]
    rw [step_latch m out _ 902 hflush (by simp)]
    show List.foldlM step (Mode.numeric [], pre.toArray) numData = _
    rw [fold_numeric _ _ _ hlt]; simp
  · simp only [flush, List.length_reverse, List.reverse_reverse, hfl]
    simp [pure, Except.pure, bind, Except.bind]
  · intro c hc
    simp only [List.mem_append, List.mem_singleton, c_latch_to_numeric] at hc
    rcases hc with (hc | rfl) | hc
    · exact hres c hc
    · decide
    · have := hlt c hc; omega
  · exact getLast_append_ne _ _ hne hlt
  · intro hh; exact absurd hh (by decide)

/-- Byte segment: latch 901 / 924 and the codewords of `encodeBinary` -/
theorem inv_byte (pre data data' seg : Bytes) (e t : Nat) (result : List Nat) (hseg : seg ≠ [])
    (h : Inv pre data e t result) :
    Inv (pre ++ seg) data' c_encBinary c_subUpper (result ++ encodeBinary seg c_encBinary) := by
  obtain ⟨m, out, hfold, hflush, hres, _, _, _⟩ := h
  obtain ⟨body, hb, hlt, hfl⟩ := PdfByte.encodeBinary_latch seg c_encBinary (by simp [c_encBinary, c_encText])
  have hne : body ≠ [] := by
    rintro rfl
    cases hx : (seg.length % 6 == 0) <;> rw [hx] at hfl <;>
      simp [flushByte, byteGroups, pure, Except.pure] at hfl <;> exact hseg hfl
  rw [hb]
  refine ⟨.byte (seg.length % 6 == 0) body.reverse, pre.toArray, ?_, ?_, ?_, ?_, by decide, ?_⟩
  · apply fold_append _ _ _ _ hfold
    rw [List.foldlM_cons]
    have hl : latchTo (if seg.length % 6 = 0 then 924 else 901) = .byte (seg.length % 6 == 0) [] := by
      split <;> rename_i hx <;> simp [latchTo, hx]
    rw [step_latch m out _ _ hflush (by split <;> simp), hl]
    show List.foldlM step (Mode.byte _ [], pre.toArray) body = _
    rw [fold_byte _ _ _ _ hlt]; simp
  · simp only [flush, List.reverse_reverse, hfl]
    simp [pure, Except.pure, bind, Except.bind]
  · intro c hc
    simp only [List.mem_append, List.mem_cons] at hc
    rcases hc with hc | hc | hc
    · exact hres c hc
    · subst hc; split <;> decide
    · have := hlt c hc; omega
  · rw [show result ++ (if seg.length % 6 = 0 then 924 else 901) :: body
        = (result ++ [if seg.length % 6 = 0 then 924 else 901]) ++ body by simp]
    exact getLast_append_ne _ _ hne hlt
  · intro hh; exact absurd hh (by decide)

/-- a single byte in Text mode: 913 and the byte; the decoder returns to the same sub-mode, a pending
    shift is dropped -/
theorem inv_shift (pre data data' : Bytes) (b : UInt8) (t : Nat) (result : List Nat)
    (h : Inv pre data c_encText t result) :
    Inv (pre ++ [b]) data' c_encText t (result ++ encodeBinary [b] c_encText) := by
  obtain ⟨m, out, hfold, hflush, hres, _, ht, hm⟩ := h
  obtain ⟨sh, rfl, _⟩ := hm rfl
  have hb := b.toNat_lt
  simp only [flush, pure, Except.pure, Except.ok.injEq] at hflush
  subst hflush
  rw [PdfByte.encodeBinary_shift]
  refine ⟨.text (subOf t) .none, (pre ++ [b]).toArray, ?_, rfl, ?_, ?_, ht, fun _ => ⟨.none, rfl, Or.inl rfl⟩⟩
  · apply fold_append _ _ _ _ hfold
    simp only [List.foldlM_cons, List.foldlM_nil]
    have h1 : step (Mode.text (subOf t) sh, pre.toArray) 913 = .ok (Mode.byteShift (subOf t), pre.toArray) := rfl
    rw [h1]
    show (step (Mode.byteShift (subOf t), pre.toArray) b.toNat >>= pure) = _
    have h2 : ¬ b.toNat ≥ 929 := by omega
    simp only [step, h2, if_false, hb, if_true, UInt8.ofNat_toNat]
    simp [pure, Except.pure, bind, Except.bind]
  · intro c hc
    simp only [List.mem_append, List.mem_cons, List.not_mem_nil, or_false] at hc
    rcases hc with hc | rfl | rfl
    · exact hres c hc
    · decide
    · omega
  · rw [show result ++ [913, b.toNat] = (result ++ [913]) ++ [b.toNat] by simp]
    exact getLast_append_ne _ _ (by simp) (by intro c hc; simp at hc; omega)

/-- Text segment, decoder in the encoder's sub-mode without pending shift -/
theorem inv_text_core (pre data' seg : Bytes) (s : Nat) (text result : List Nat) (hs : 3 ≤ s ∧ s ≤ 6)
    (ht : ∀ ch ∈ text, isText ch = true) (hmap : text.map UInt8.ofNat = seg) (hne : seg ≠ [])
    (hstop : textStop (runeList data') = true)
    (hfold : result.foldlM step init = .ok (Mode.text (subOf s) .none, pre.toArray))
    (hres : ∀ c ∈ result, c < 929) :
    Inv (pre ++ seg) data' c_encText (encodeText text s).1 (result ++ (encodeText text s).2) := by
  obtain ⟨sh, hrt⟩ := PdfText.encodeText_roundtrip text s hs ht pre.toArray
  have hlt := PdfText.encodeText_lt text s
  have hcw : (encodeText text s).2 ≠ [] := by
    intro h0
    rw [h0] at hrt
    simp only [List.foldlM_nil, pure, Except.pure, Except.ok.injEq, Prod.mk.injEq, hmap] at hrt
    have := congrArg Array.size hrt.2
    simp only [List.size_toArray, Array.size_append] at this
    exact hne (List.length_eq_zero_iff.mp (by omega))
  refine ⟨_, _, fold_append _ _ _ _ hfold hrt, ?_, ?_, getLast_append_ne _ _ hcw hlt,
    PdfText.encodeText_sub text s hs, fun _ => ⟨sh, rfl, Or.inr hstop⟩⟩
  · rw [hmap]; simp [flush, pure, Except.pure]
  · intro c hc
    simp only [List.mem_append] at hc
    rcases hc with hc | hc
    · exact hres c hc
    · have := hlt c hc; omega

/-- Text segment while the encoder is in Text mode (no latch): possible only if the data does not start at
    a stop position, so that no shift is pending -/
theorem inv_text_cont (pre data data' seg : Bytes) (t : Nat) (text result : List Nat)
    (ht : ∀ ch ∈ text, isText ch = true) (hmap : text.map UInt8.ofNat = seg) (hne : seg ≠ [])
    (hstop : textStop (runeList data') = true) (hns : textStop (runeList data) = false)
    (h : Inv pre data c_encText t result) :
    Inv (pre ++ seg) data' c_encText (encodeText text t).1 (result ++ (encodeText text t).2) := by
  obtain ⟨m, out, hfold, hflush, hres, _, hs, hm⟩ := h
  obtain ⟨sh, rfl, hsh⟩ := hm rfl
  rcases hsh with rfl | hsh
  · simp only [flush, pure, Except.pure, Except.ok.injEq] at hflush
    subst hflush
    exact inv_text_core pre data' seg t text result hs ht hmap hne hstop hfold hres
  · rw [hns] at hsh; exact absurd hsh (by decide)

/-- Text segment from Byte or Numeric mode: latch 900, Alpha sub-mode -/
theorem inv_text_latch (pre data data' seg : Bytes) (e t : Nat) (text result : List Nat)
    (ht : ∀ ch ∈ text, isText ch = true) (hmap : text.map UInt8.ofNat = seg) (hne : seg ≠ [])
    (hstop : textStop (runeList data') = true) (h : Inv pre data e t result) :
    Inv (pre ++ seg) data' c_encText (encodeText text c_subUpper).1
      (result ++ [c_latch_to_text] ++ (encodeText text c_subUpper).2) := by
  obtain ⟨m, out, hfold, hflush, hres, _, _, _⟩ := h
  refine inv_text_core pre data' seg c_subUpper text _ (by decide) ht hmap hne hstop ?_ ?_
  · apply fold_append _ _ _ _ hfold
    simp only [List.foldlM_cons, List.foldlM_nil, c_latch_to_text]
    rw [step_latch m out _ 900 hflush (by simp)]; rfl
  · intro c hc
    simp only [List.mem_append, List.mem_singleton, c_latch_to_text] at hc
    rcases hc with hc | rfl
    · exact hres c hc
    · decide

/-! ### the branches of one loop round -/

/-- no data left: the loop returns the result, whatever the fuel -/
theorem loop_end (fuel : Nat) (e t : Nat) (result : List Nat) :
    highlevelLoop fuel [] e t result = .ok result := by
  cases fuel <;> simp [highlevelLoop]

/-- the numeric branch -/
theorem loop_numeric (fuel : Nat) (data : Bytes) (e t : Nat) (result numData : List Nat)
    (hpos : data.length > 0)
    (hc : determineConsecutiveDigitCount (runeList data) ≥ c_min_numeric_count ∨
      determineConsecutiveDigitCount (runeList data) = data.length)
    (hen : encodeNumeric (runeList (data.take (determineConsecutiveDigitCount (runeList data)))) = .ok numData) :
    highlevelLoop (fuel + 1) data e t result =
      highlevelLoop fuel (data.drop (determineConsecutiveDigitCount (runeList data))) c_encNumeric c_subUpper
        (result ++ [c_latch_to_numeric] ++ numData) := by
  have hc' : (decide (determineConsecutiveDigitCount (runeList data) ≥ c_min_numeric_count) ||
      determineConsecutiveDigitCount (runeList data) == data.length) = true := by simpa using hc
  rw [highlevelLoop]
  simp only [hpos, if_true, hc', hen]

/-- the text branch -/
theorem loop_text (fuel : Nat) (data : Bytes) (e t : Nat) (result : List Nat)
    (hpos : data.length > 0)
    (hc : ¬ (determineConsecutiveDigitCount (runeList data) ≥ c_min_numeric_count ∨
      determineConsecutiveDigitCount (runeList data) = data.length))
    (hc2 : determineConsecutiveTextCount (runeList data) ≥ 5 ∨
      determineConsecutiveTextCount (runeList data) = data.length) :
    highlevelLoop (fuel + 1) data e t result =
      if e = c_encText then
        highlevelLoop fuel (data.drop (determineConsecutiveTextCount (runeList data))) c_encText
          (encodeText (runeList (data.take (determineConsecutiveTextCount (runeList data)))) t).1
          (result ++ (encodeText (runeList (data.take (determineConsecutiveTextCount (runeList data)))) t).2)
      else
        highlevelLoop fuel (data.drop (determineConsecutiveTextCount (runeList data))) c_encText
          (encodeText (runeList (data.take (determineConsecutiveTextCount (runeList data)))) c_subUpper).1
          (result ++ [c_latch_to_text] ++
            (encodeText (runeList (data.take (determineConsecutiveTextCount (runeList data)))) c_subUpper).2) := by
  have hc' : (decide (determineConsecutiveDigitCount (runeList data) ≥ c_min_numeric_count) ||
      determineConsecutiveDigitCount (runeList data) == data.length) = false := by simpa using hc
  have hc2' : (decide (determineConsecutiveTextCount (runeList data) ≥ 5) ||
      determineConsecutiveTextCount (runeList data) == data.length) = true := by simpa using hc2
  rw [highlevelLoop]
  simp only [hpos, if_true, hc', hc2', Bool.false_eq_true, if_false]
  by_cases he : e = c_encText
  · simp [he]
  · simp [he]

/-- the byte count used by the binary branch -/
def binCount (data : Bytes) : Nat :=
  if determineConsecutiveBinaryCount data == 0 then 1 else determineConsecutiveBinaryCount data

/-- the binary branch -/
theorem loop_binary (fuel : Nat) (data : Bytes) (e t : Nat) (result : List Nat)
    (hpos : data.length > 0)
    (hc : ¬ (determineConsecutiveDigitCount (runeList data) ≥ c_min_numeric_count ∨
      determineConsecutiveDigitCount (runeList data) = data.length))
    (hc2 : ¬ (determineConsecutiveTextCount (runeList data) ≥ 5 ∨
      determineConsecutiveTextCount (runeList data) = data.length)) :
    highlevelLoop (fuel + 1) data e t result =
      if (data.take (binCount data)).length = 1 ∧ e = c_encText then
        highlevelLoop fuel (data.drop (binCount data)) c_encText t
          (result ++ encodeBinary (data.take (binCount data)) c_encText)
      else
        highlevelLoop fuel (data.drop (binCount data)) c_encBinary c_subUpper
          (result ++ encodeBinary (data.take (binCount data)) c_encBinary) := by
  have hc' : (decide (determineConsecutiveDigitCount (runeList data) ≥ c_min_numeric_count) ||
      determineConsecutiveDigitCount (runeList data) == data.length) = false := by simpa using hc
  have hc2' : (decide (determineConsecutiveTextCount (runeList data) ≥ 5) ||
      determineConsecutiveTextCount (runeList data) == data.length) = false := by simpa using hc2
  rw [highlevelLoop]
  simp only [hpos, if_true, hc', hc2', Bool.false_eq_true, if_false]
  unfold binCount
  by_cases h : (data.take (if determineConsecutiveBinaryCount data == 0 then 1
      else determineConsecutiveBinaryCount data)).length = 1 ∧ e = c_encText
  · rw [if_pos h]
    obtain ⟨h1, rfl⟩ := h
    have : ((data.take (if determineConsecutiveBinaryCount data == 0 then 1
      else determineConsecutiveBinaryCount data)).length != 1 || c_encText != c_encText) = false := by
      simp only [Bool.or_eq_false_iff, bne_eq_false_iff_eq, h1, and_self]
    simp only [this, Bool.false_eq_true, if_false]
  · rw [if_neg h]
    have : ((data.take (if determineConsecutiveBinaryCount data == 0 then 1
      else determineConsecutiveBinaryCount data)).length != 1 || e != c_encText) = true := by
      simp only [Bool.or_eq_true, bne_iff_ne, ne_eq]
      by_cases h1 : (data.take (if determineConsecutiveBinaryCount data == 0 then 1
        else determineConsecutiveBinaryCount data)).length = 1
      · exact Or.inr (fun he => h ⟨h1, he⟩)
      · exact Or.inl h1
    simp only [this, if_true]

/-! ### the loop -/

/-- `take n` of a non-empty list with `n ≥ 1` is non-empty -/
theorem take_ne_nil (data : Bytes) (n : Nat) (hn : 1 ≤ n) (hd : data.length > 0) : data.take n ≠ [] := by
  intro h
  have := congrArg List.length h
  simp only [List.length_take, List.length_nil] at this
  omega

/-- With fuel above the number of remaining bytes the loop consumes all of them (every round removes at
    least one), never fails, and re-establishes the invariant with `pre ++ data` consumed. -/
theorem loop_inv (fuel : Nat) : ∀ (pre data : Bytes) (e t : Nat) (result : List Nat), data.length < fuel →
    Inv pre data e t result →
    ∃ cws e' t', highlevelLoop fuel data e t result = .ok cws ∧ Inv (pre ++ data) [] e' t' cws := by
  induction fuel with
  | zero => intro pre data e t result h; omega
  | succ fuel ih =>
    intro pre data e t result hlen hinv
    by_cases hpos : data.length > 0
    case neg =>
      have : data = [] := List.length_eq_zero_iff.mp (by omega)
      subst this
      exact ⟨result, e, t, loop_end _ _ _ _, by simpa using hinv⟩
    -- the IH in the form used by every branch: `n ≥ 1` bytes are consumed
    have next : ∀ (n : Nat) (e' t' : Nat) (res' : List Nat), 1 ≤ n →
        Inv (pre ++ data.take n) (data.drop n) e' t' res' →
        ∃ cws e'' t'', highlevelLoop fuel (data.drop n) e' t' res' = .ok cws ∧ Inv (pre ++ data) [] e'' t'' cws := by
      intro n e' t' res' hn hi
      have := ih (pre ++ data.take n) (data.drop n) e' t' res' (by simp only [List.length_drop]; omega) hi
      simpa only [List.append_assoc, List.take_append_drop] using this
    by_cases hc : determineConsecutiveDigitCount (runeList data) ≥ c_min_numeric_count ∨
        determineConsecutiveDigitCount (runeList data) = data.length
    · -- numeric
      obtain ⟨_, p2, p3⟩ := numeric_prefix data
      obtain ⟨numData, hen, hlt, hfl⟩ := PdfNumeric.encodeNumeric_roundtrip _ p2
      rw [p3] at hfl
      have hn : 1 ≤ determineConsecutiveDigitCount (runeList data) := by
        simp only [c_min_numeric_count] at hc; omega
      rw [loop_numeric fuel data e t result _ hpos hc hen]
      exact next _ _ _ _ hn (inv_numeric pre data _ _ e t result numData (take_ne_nil data _ hn hpos) hlt hfl hinv)
    · by_cases hc2 : determineConsecutiveTextCount (runeList data) ≥ 5 ∨
          determineConsecutiveTextCount (runeList data) = data.length
      · -- text
        obtain ⟨_, q2, q3, q4⟩ := text_prefix data
        have hk : 1 ≤ determineConsecutiveTextCount (runeList data) := by omega
        have hne := take_ne_nil data _ hk hpos
        rw [loop_text fuel data e t result hpos hc hc2]
        by_cases he : e = c_encText
        · subst he
          rw [if_pos rfl]
          have hns : textStop (runeList data) = false := by
            cases hs : textStop (runeList data)
            · rfl
            · have := (textStop_elim _ hs).1; omega
          exact next _ _ _ _ hk (inv_text_cont pre data _ _ t _ result q2 q3 hne q4 hns hinv)
        · rw [if_neg he]
          exact next _ _ _ _ hk (inv_text_latch pre data _ _ e t _ result q2 q3 hne q4 hinv)
      · -- binary
        have hb : 1 ≤ binCount data := by
          unfold binCount; split
          · omega
          · rename_i h; simp only [beq_iff_eq] at h; omega
        have hne := take_ne_nil data _ hb hpos
        rw [loop_binary fuel data e t result hpos hc hc2]
        split
        · rename_i h
          obtain ⟨h1, rfl⟩ := h
          obtain ⟨b, hb1⟩ := List.length_eq_one_iff.mp h1
          rw [hb1]
          exact next _ _ _ _ hb (by rw [hb1]; exact inv_shift pre data _ b t result hinv)
        · exact next _ _ _ _ hb (inv_byte pre data _ _ e t result hne hinv)

/-! ### the theorems -/

/-- Everything at once: `highlevelEncode` never fails, emits only codewords < 929, the Spec compaction
    decoder maps them back to the data byte for byte, and the last codeword is not 900 (the pad codeword). -/
theorem highlevelEncode_spec (data : Bytes) :
    ∃ cws, highlevelEncode data = .ok cws ∧ (∀ c ∈ cws, c < 929) ∧
      Spec.Pdf417.decodeData cws = .ok data ∧ cws.getLast? ≠ some 900 := by
  obtain ⟨cws, e', t', hcw, m, out, hfold, hflush, hlt, hlast, _, _⟩ :=
    loop_inv (data.length + 1) [] data c_encText c_subUpper [] (by omega) (inv_init data)
  refine ⟨cws, hcw, hlt, ?_, hlast⟩
  unfold decodeData
  change List.foldlM step init cws = _ at hfold
  rw [hfold]
  simp only [List.nil_append] at hflush
  show (flush m out >>= fun x => pure x.toList) = _
  rw [hflush]; rfl

/-- `highlevelEncode` never fails, emits only codewords < 929, and the Spec compaction decoder maps them back
    to the data byte for byte -/
theorem highlevelEncode_roundtrip (data : Bytes) :
    ∃ cws, highlevelEncode data = .ok cws ∧ (∀ c ∈ cws, c < 929) ∧ Spec.Pdf417.decodeData cws = .ok data := by
  obtain ⟨cws, h1, h2, h3, _⟩ := highlevelEncode_spec data
  exact ⟨cws, h1, h2, h3⟩

/-- the data codewords never end in 900, so stripping trailing pad codewords (900) removes padding only -/
theorem highlevel_last_ne_900 (data : Bytes) (cws : List Nat) (h : highlevelEncode data = .ok cws) :
    cws.getLast? ≠ some 900 := by
  obtain ⟨cws', h1, _, _, h4⟩ := highlevelEncode_spec data
  rw [h] at h1
  simp only [Except.ok.injEq] at h1
  subst h1; exact h4

/-- `highlevelEncode` never fails -/
theorem highlevelEncode_ok (data : Bytes) : ∃ cws, highlevelEncode data = .ok cws := by
  obtain ⟨cws, h1, _⟩ := highlevelEncode_spec data
  exact ⟨cws, h1⟩

/-- A concrete mixed input: "abcdef" (Text, Lower, odd run: pad 29 = pending `ps`), the byte 0x80 (913 shift
    with the shift pending), "xyz;;;" (Text continues in Lower without latch, again a pad), thirteen digits
    (902), the bytes FF FE (901), "Hello!" (900 latch).  Encoder output and decoder result by kernel
    evaluation. -/
def sample : Bytes :=
  [97, 98, 99, 100, 101, 102, 0x80, 120, 121, 122, 59, 59, 59, 49, 50, 51, 52, 53, 54, 55, 56, 57, 48, 49, 50, 51,
   0xff, 0xfe, 72, 101, 108, 108, 111, 33]

example : highlevelEncode sample = .ok [810, 32, 94, 179, 913, 128, 714, 779, 29, 29, 29, 902, 17, 110, 836, 811,
    223, 901, 255, 254, 900, 237, 131, 344, 880] := by rfl

example : decodeData [810, 32, 94, 179, 913, 128, 714, 779, 29, 29, 29, 902, 17, 110, 836, 811,
    223, 901, 255, 254, 900, 237, 131, 344, 880] = .ok sample := by rfl
