/-
  BV.Proofs.AztecGeomCertB — kernel certificates (`decide +kernel`, part B): `cert compact L` of `BV.Proofs.AztecGeom`
  evaluates to `true`; each certificate concerns the outermost data layer and the fixed patterns of its shape only.
-/
import BV.Proofs.AztecGeom
namespace BV.Proofs.AztecGeom
open BV.Proofs.AztecBits

set_option maxRecDepth 100000

/-- certificate: full-range symbol with 19 layer(s) -/
theorem cert_full_19 : cert false 19 = true := by decide +kernel

/-- certificate: full-range symbol with 20 layer(s) -/
theorem cert_full_20 : cert false 20 = true := by decide +kernel

/-- certificate: full-range symbol with 21 layer(s) -/
theorem cert_full_21 : cert false 21 = true := by decide +kernel

/-- certificate: full-range symbol with 22 layer(s) -/
theorem cert_full_22 : cert false 22 = true := by decide +kernel

/-- certificate: full-range symbol with 23 layer(s) -/
theorem cert_full_23 : cert false 23 = true := by decide +kernel

/-- certificate: full-range symbol with 24 layer(s) -/
theorem cert_full_24 : cert false 24 = true := by decide +kernel

/-- certificate: full-range symbol with 25 layer(s) -/
theorem cert_full_25 : cert false 25 = true := by decide +kernel

/-- certificate: full-range symbol with 26 layer(s) -/
theorem cert_full_26 : cert false 26 = true := by decide +kernel

end BV.Proofs.AztecGeom
