/-
  BV.Proofs.Bits — shared lemmas on the big-endian bit helpers of `BV.Base`:
  `msbBits` (value → bits), `bitsToNat` (bits → value), `pack8` (bits → codewords), and the array reader
  `bitsToNatAt` that the reference decoders use (stated for any function of that shape, instantiated for
  `Spec.Qr.bitsToNatAt` in `BV.Proofs.QrStream`).
-/
import BV.Base
namespace BV.Proofs.Bits
open BV

/-! ### `msbBits` -/

@[simp] theorem length_msbBits (x k : Nat) : (msbBits x k).length = k := by
  simp [msbBits]

/-- no bits -/
theorem msbBits_zero (x : Nat) : msbBits x 0 = [] := rfl

/-- the first of `k+1` bits is bit `k`, the others are the low `k` bits -/
theorem msbBits_succ (x k : Nat) : msbBits x (k + 1) = x.testBit k :: msbBits x k := by
  simp only [msbBits, List.range_succ_eq_map, List.map_cons, List.map_map]
  congr 1
  apply List.map_congr_left
  intro i _
  simp only [Function.comp]
  congr 1
  omega

/-- the bits of zero are zero -/
theorem msbBits_zero_val (k : Nat) : msbBits 0 k = List.replicate k false := by
  induction k with
  | zero => rfl
  | succ k ih => rw [msbBits_succ, ih]; simp [List.replicate_succ]

/-! ### `bitsToNat` -/

/-- the accumulating fold of `bitsToNat` started at `a`: `a` shifted left plus the value of the bits -/
theorem foldl_bits (l : List Bool) (a : Nat) :
    l.foldl (fun a b => 2 * a + (if b then 1 else 0)) a = a * 2 ^ l.length + bitsToNat l := by
  induction l generalizing a with
  | nil => simp [bitsToNat]
  | cons b l ih =>
    simp only [List.foldl_cons, bitsToNat, List.length_cons]
    rw [ih, ih (2 * 0 + _)]
    rw [Nat.pow_succ]
    generalize bitsToNat l = r
    generalize 2 ^ l.length = p
    have e : 2 * a * p = a * (p * 2) := by rw [Nat.mul_comm 2 a, Nat.mul_assoc, Nat.mul_comm 2 p]
    cases b <;> simp [Nat.add_mul] <;> omega

@[simp] theorem bitsToNat_nil : bitsToNat [] = 0 := rfl

/-- the first bit has weight `2^(number of remaining bits)` -/
theorem bitsToNat_cons (b : Bool) (l : List Bool) :
    bitsToNat (b :: l) = (if b then 1 else 0) * 2 ^ l.length + bitsToNat l := by
  simp only [bitsToNat, List.foldl_cons]
  rw [foldl_bits]
  simp [bitsToNat]

/-- value of a concatenation: the left part shifted by the length of the right part -/
theorem bitsToNat_append (l m : List Bool) :
    bitsToNat (l ++ m) = bitsToNat l * 2 ^ m.length + bitsToNat m := by
  simp only [bitsToNat, List.foldl_append]
  rw [foldl_bits]
  simp [bitsToNat]

/-- a list of `n` bits has a value below `2^n` -/
theorem bitsToNat_lt (l : List Bool) : bitsToNat l < 2 ^ l.length := by
  induction l with
  | nil => simp
  | cons b l ih =>
    rw [bitsToNat_cons, List.length_cons, Nat.pow_succ]
    cases b <;> simp <;> omega

/-- zero bits have value zero -/
theorem bitsToNat_replicate_false (k : Nat) : bitsToNat (List.replicate k false) = 0 := by
  induction k with
  | zero => rfl
  | succ k ih => rw [List.replicate_succ, bitsToNat_cons, ih]; simp

/-- reading back the `k` low bits gives the value modulo `2^k` -/
theorem bitsToNat_msbBits (x k : Nat) : bitsToNat (msbBits x k) = x % 2 ^ k := by
  induction k with
  | zero => simp [msbBits_zero, Nat.mod_one]
  | succ k ih =>
    rw [msbBits_succ, bitsToNat_cons, ih, length_msbBits, Nat.mod_pow_succ,
      Nat.testBit_eq_decide_div_mod_eq]
    have : x / 2 ^ k % 2 < 2 := Nat.mod_lt _ (by omega)
    generalize x / 2 ^ k % 2 = t at *
    generalize 2 ^ k = p
    generalize x % p = r
    have ht : t = 0 ∨ t = 1 := by omega
    rcases ht with rfl | rfl <;> simp <;> omega

/-- … hence the value itself when it fits in `k` bits -/
theorem bitsToNat_msbBits_of_lt (x k : Nat) (h : x < 2 ^ k) : bitsToNat (msbBits x k) = x := by
  rw [bitsToNat_msbBits, Nat.mod_eq_of_lt h]

/-- writing the value of a bit list with as many bits gives the list back -/
theorem msbBits_bitsToNat (l : List Bool) : msbBits (bitsToNat l) l.length = l := by
  induction l with
  | nil => rfl
  | cons b l ih =>
    rw [List.length_cons, msbBits_succ]
    have hlt := bitsToNat_lt l
    have e1 : (bitsToNat (b :: l)).testBit l.length = b := by
      rw [Nat.testBit_eq_decide_div_mod_eq, bitsToNat_cons]
      cases b
      · simp; rw [Nat.div_eq_of_lt hlt]
      · simp
        rw [Nat.add_comm, Nat.add_div_right _ (Nat.two_pow_pos _), Nat.div_eq_of_lt hlt]
    have e2 : msbBits (bitsToNat (b :: l)) l.length = msbBits (bitsToNat l) l.length := by
      simp only [msbBits]
      apply List.map_congr_left
      intro i hi
      have hi : i < l.length := List.mem_range.mp hi
      rw [bitsToNat_cons]
      cases b
      · simp
      · simp only [if_true, Nat.one_mul]
        rw [Nat.testBit_two_pow_add_gt (by omega)]
    rw [e1, e2, ih]

/-- `msbBits` is injective on values that fit -/
theorem msbBits_inj (x y k : Nat) (hx : x < 2 ^ k) (hy : y < 2 ^ k) (h : msbBits x k = msbBits y k) :
    x = y := by
  rw [← bitsToNat_msbBits_of_lt x k hx, ← bitsToNat_msbBits_of_lt y k hy, h]

/-! ### the array reader of the reference decoders -/

/-- the shape of `Spec.*.bitsToNatAt` -/
def readAt (bits : Array Bool) (p n : Nat) : Nat :=
  (List.range n).foldl (fun acc i => 2 * acc + (if bits.getD (p + i) false then 1 else 0)) 0

/-- the array reader is `bitsToNat` of the cells it visits (cells beyond the end read as 0) -/
theorem readAt_eq_map (l : List Bool) (p n : Nat) :
    readAt l.toArray p n = bitsToNat ((List.range n).map (fun i => l.getD (p + i) false)) := by
  simp only [readAt, bitsToNat, List.foldl_map]
  congr 1
  funext a i
  simp

/-- the `n` cells from position `p` on are the slice `(l.drop p).take n` when it lies inside the list -/
theorem map_getD_eq_take_drop (l : List Bool) (p n : Nat) (h : p + n ≤ l.length) :
    (List.range n).map (fun i => l.getD (p + i) false) = (l.drop p).take n := by
  apply List.ext_getElem
  · simp; omega
  · intro i h1 h2
    simp only [List.length_map, List.length_range] at h1
    simp [List.getD, List.getElem?_eq_getElem (show p + i < l.length by omega)]

/-- a read inside the array is `bitsToNat` of the slice -/
theorem readAt_eq_take_drop (l : List Bool) (p n : Nat) (h : p + n ≤ l.length) :
    readAt l.toArray p n = bitsToNat ((l.drop p).take n) := by
  rw [readAt_eq_map, map_getD_eq_take_drop l p n h]

/-- reading a field that sits between a prefix and a suffix -/
theorem readAt_mid (pre mid post : List Bool) :
    readAt (pre ++ (mid ++ post)).toArray pre.length mid.length = bitsToNat mid := by
  rw [readAt_eq_take_drop _ _ _ (by simp)]
  simp

/-- … written by `msbBits` -/
theorem readAt_msbBits (pre post : List Bool) (x k : Nat) (h : x < 2 ^ k) :
    readAt (pre ++ (msbBits x k ++ post)).toArray pre.length k = x := by
  have := readAt_mid pre (msbBits x k) post
  rw [length_msbBits] at this
  rw [this, bitsToNat_msbBits_of_lt x k h]

/-! ### `pack8` -/

/-- equation lemma of `pack8` (defined by well-founded recursion): empty stream -/
theorem pack8_nil : pack8 [] = [] := by rw [pack8]

/-- equation lemma of `pack8`: one codeword from up to eight bits, zero padded, then the rest -/
theorem pack8_cons (b : Bool) (l : List Bool) :
    pack8 (b :: l) =
      bitsToNat ((b :: l).take 8 ++ List.replicate (8 - ((b :: l).take 8).length) false) ::
        pack8 ((b :: l).drop 8) := by
  rw [pack8]

/-- a full group of eight bits is one codeword -/
theorem pack8_append8 (c rest : List Bool) (hc : c.length = 8) :
    pack8 (c ++ rest) = bitsToNat c :: pack8 rest := by
  match c, hc with
  | [b0, b1, b2, b3, b4, b5, b6, b7], _ =>
    simp only [List.cons_append, List.nil_append]
    rw [pack8_cons]
    simp

/-- the codewords of `8·n` bits: each below 256, and writing them out as bits gives the stream back -/
theorem pack8_unpack : ∀ (n : Nat) (bits : List Bool), bits.length = 8 * n →
    (pack8 bits).length = n ∧ (∀ c ∈ pack8 bits, c < 256) ∧
    (pack8 bits).flatMap (fun c => msbBits c 8) = bits := by
  intro n
  induction n with
  | zero =>
    intro bits h
    have : bits = [] := List.eq_nil_of_length_eq_zero (by omega)
    subst this
    simp [pack8_nil]
  | succ n ih =>
    intro bits h
    have hsplit : bits = bits.take 8 ++ bits.drop 8 := (List.take_append_drop 8 bits).symm
    have h8 : (bits.take 8).length = 8 := by simp; omega
    have hr : (bits.drop 8).length = 8 * n := by simp; omega
    have := ih (bits.drop 8) hr
    rw [hsplit, pack8_append8 _ _ h8]
    refine ⟨by simp [this.1], ?_, ?_⟩
    · intro c hc
      rcases List.mem_cons.mp hc with rfl | hc
      · have := bitsToNat_lt (bits.take 8); rw [h8] at this; exact this
      · exact this.2.1 c hc
    · rw [List.flatMap_cons, this.2.2]
      have := msbBits_bitsToNat (bits.take 8)
      rw [h8] at this
      rw [this]

/-- the other direction: the bits of a codeword list pack to the codewords -/
theorem pack8_flatMap_msbBits (cw : List Nat) (h : ∀ c ∈ cw, c < 256) :
    pack8 (cw.flatMap (fun c => msbBits c 8)) = cw := by
  induction cw with
  | nil => simp [pack8_nil]
  | cons c cw ih =>
    rw [List.flatMap_cons, pack8_append8 _ _ (length_msbBits c 8),
      bitsToNat_msbBits_of_lt c 8 (h c (List.mem_cons_self ..)),
      ih (fun c hc => h c (List.mem_cons_of_mem _ hc))]

end BV.Proofs.Bits
