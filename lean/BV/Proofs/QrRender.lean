/-
  QR: the render pipeline never takes a panic path of the model (`splitToBlocks`, `renderWithMask`,
  `encodeQR`, `encodeWithColor`), and the producer/consumer byte counts of `IterateBytes` / `splitToBlocks` agree.
-/
import BV.Proofs.QrAccept
namespace BV.Proofs.QrRender
open BV BV.Model BV.Model.Qr BV.Gen.Qr BV.Proofs.QrTables BV.Proofs.QrStreamA

/-- the state of `render` before the data modules are written: all function patterns drawn -/
def drawn (vi : VersionInfo) (color : Scheme) : RenderState :=
  let dim := vi.modulWidth
  let st : RenderState :=
    { occupied := newBarCodeWithColor dim color,
      results := (List.range 8).foldl (fun a _ => a.push (newBarCodeWithColor dim color)) #[] }
  let st := drawFinderPatterns vi setAll st
  let st := drawAlignmentPatterns (fun st x y => st.occupied.get x y) vi setAll st
  let st := (List.range dim).foldl (fun (st : RenderState) i =>
    let st := if !st.occupied.get i 6 then setAll i 6 (i % 2 == 0) st else st
    let st := if !st.occupied.get 6 i then setAll 6 i (i % 2 == 0) st else st
    st) st
  let st := setAll 8 (dim - 8) true st
  let st := drawVersionInfo vi setAll st
  let st := drawFormatInfo vi (-1) setOccupied st
  (List.range 8).foldl (fun st (i : Nat) => drawFormatInfo vi (i : Int) (setResult i) st) st

/-- the data-writing loop of `render` -/
def written (data : List Nat) (st : RenderState) : Array QRCode × Nat :=
  let bytes := data.toArray
  let nbits := bytes.size * 8
  (iterateModules st.occupied).foldl
    (fun (acc : Array QRCode × Nat) (pos : Nat × Nat) =>
      let (results, curBitNo) := acc
      let curBit :=
        if curBitNo < nbits then ((bytes.getD (curBitNo / 8) 0) >>> (7 - (curBitNo % 8))) % 2 == 1
        else false
      let results := (List.range 8).foldl (fun (rs : Array QRCode) i =>
        rs.modify i (setMasked pos.1 pos.2 curBit i QRCode.set)) results
      (results, curBitNo + 1))
    (st.results, 0)

/-- one iteration of the `lowestPenalty` loop of `render` -/
def penStep (color : Scheme) (results : Array QRCode) (acc : Option Nat × Option Nat) (i : Nat) :
    Option Nat × Option Nat :=
  let p := (results.getD i (newBarCodeWithColor 0 color)).calcPenalty
  match acc.1 with
  | none => (some p, some i)
  | some lowest => if p < lowest then (some p, some i) else acc

/-- the mask selection of `render` -/
def selectMask (color : Scheme) (acc : Array QRCode × Nat) : Res (QRCode × Nat) :=
  let (results, _) := acc
  let (_, lowestPenaltyIdx) := (List.range 8).foldl (penStep color results) (none, none)
  match lowestPenaltyIdx with
  | none => .error .panic
  | some i =>
    match results[i]? with
    | some r => .ok (r, i)
    | none => .error .panic

theorem renderWithMask_eq (data : List Nat) (vi : VersionInfo) (color : Scheme) :
    renderWithMask data vi color = selectMask color (written data (drawn vi color)) := by
  unfold renderWithMask selectMask written drawn
  rfl

/-! ### invariants of folds -/

theorem foldl_inv {α β} (P : α → Prop) (f : α → β → α) (l : List β) (init : α)
    (h0 : P init) (hstep : ∀ a b, b ∈ l → P a → P (f a b)) : P (l.foldl f init) := by
  induction l generalizing init with
  | nil => exact h0
  | cons x xs ih =>
    rw [List.foldl_cons]
    exact ih _ (hstep _ _ List.mem_cons_self h0) (fun a b hb => hstep a b (List.mem_cons_of_mem _ hb))

theorem array_foldl_inv {α β} (P : α → Prop) (f : α → β → α) (l : Array β) (init : α)
    (h0 : P init) (hstep : ∀ a b, P a → P (f a b)) : P (l.foldl f init) := by
  rw [← Array.foldl_toList]
  exact foldl_inv P f _ _ h0 (fun a b _ => hstep a b)

/-- the eight result bitmaps stay eight -/
def Eight (st : RenderState) : Prop := st.results.size = 8

theorem modifyAll_size (rs : Array QRCode) (f : Nat → QRCode → QRCode) :
    ((List.range 8).foldl (fun (rs : Array QRCode) i => rs.modify i (f i)) rs).size = rs.size := by
  apply foldl_inv (fun (a : Array QRCode) => a.size = rs.size)
  · rfl
  · intro a b _ h; rw [Array.size_modify]; exact h

theorem setAll_eight (x y : Nat) (v : Bool) (st : RenderState) (h : Eight st) : Eight (setAll x y v st) := by
  unfold Eight setAll
  simp only
  rw [modifyAll_size st.results (fun _ => QRCode.set x y v)]
  exact h

theorem setResult_eight (i x y : Nat) (v : Bool) (st : RenderState) (h : Eight st) :
    Eight (setResult i x y v st) := by
  unfold Eight setResult
  simp only [Array.size_modify]
  exact h

theorem setOccupied_eight (x y : Nat) (v : Bool) (st : RenderState) (h : Eight st) :
    Eight (setOccupied x y v st) := h

/-! ### the drawing procedures call `set` and nothing else -/

section
variable {σ : Type} (P : σ → Prop) (set : Nat → Nat → Bool → σ → σ)
  (hset : ∀ x y v st, P st → P (set x y v st))
include hset

theorem drawFinderPatterns_inv (vi : VersionInfo) (st : σ) (h : P st) :
    P (drawFinderPatterns vi set st) := by
  unfold drawFinderPatterns
  simp only
  have hdp : ∀ (xoff yoff : Int) (st : σ), P st → P ((intRange (-1) 9).foldl (fun st x =>
      (intRange (-1) 9).foldl (fun st y =>
        let val := (x == 0 || x == 6 || y == 0 || y == 6 || (x > 1 && x < 5 && y > 1 && y < 5)) &&
          (x ≤ 6 && y ≤ 6 && x ≥ 0 && y ≥ 0)
        if x + xoff ≥ 0 && x + xoff < (vi.modulWidth : Int) && y + yoff ≥ 0 && y + yoff < (vi.modulWidth : Int) then
          set (x + xoff).toNat (y + yoff).toNat val st
        else st) st) st) := by
    intro xoff yoff st h
    apply foldl_inv P _ _ _ h
    intro a x _ ha
    apply foldl_inv P _ _ _ ha
    intro a y _ ha
    simp only
    split
    · exact hset _ _ _ _ ha
    · exact ha
  exact hdp _ _ _ (hdp _ _ _ (hdp _ _ _ h))

theorem drawAlignmentPatterns_inv (occ : σ → Nat → Nat → Bool) (vi : VersionInfo) (st : σ) (h : P st) :
    P (drawAlignmentPatterns occ vi set st) := by
  unfold drawAlignmentPatterns
  simp only
  apply foldl_inv P _ _ _ h
  intro a x _ ha
  apply foldl_inv P _ _ _ ha
  intro a y _ ha
  split
  · exact ha
  · apply foldl_inv P _ _ _ ha
    intro a x' _ ha
    apply foldl_inv P _ _ _ ha
    intro a y' _ ha
    exact hset _ _ _ _ ha

theorem drawFormatInfo_inv (vi : VersionInfo) (usedMask : Int) (st : σ) (h : P st) :
    P (drawFormatInfo vi usedMask set st) := by
  unfold drawFormatInfo
  simp only
  repeat' split
  all_goals first
    | exact h
    | (apply foldl_inv P _ _ _ h; intro a c _ ha; exact hset _ _ _ _ ha)

theorem drawVersionInfo_inv (vi : VersionInfo) (st : σ) (h : P st) :
    P (drawVersionInfo vi set st) := by
  unfold drawVersionInfo
  split
  · exact h
  · split
    · apply foldl_inv P _ _ _ h
      intro a i _ ha
      exact hset _ _ _ _ (hset _ _ _ _ ha)
    · exact h

end

theorem pushN_size {α} (x : α) (n : Nat) :
    ((List.range n).foldl (fun (a : Array α) _ => a.push x) #[]).size = n := by
  induction n with
  | zero => rfl
  | succ n ih => rw [List.range_succ, List.foldl_append, List.foldl_cons, List.foldl_nil, Array.size_push, ih]

theorem ite_inv {α} (P : α → Prop) (c : Prop) [Decidable c] (x y : α) (hx : P x) (hy : P y) :
    P (if c then x else y) := by
  split
  · exact hx
  · exact hy

theorem drawn_eight (vi : VersionInfo) (color : Scheme) : Eight (drawn vi color) := by
  unfold drawn
  simp only
  apply foldl_inv Eight
  · apply drawFormatInfo_inv Eight _ setOccupied_eight
    apply drawVersionInfo_inv Eight _ setAll_eight
    apply setAll_eight
    apply foldl_inv Eight
    · apply drawAlignmentPatterns_inv Eight _ setAll_eight
      apply drawFinderPatterns_inv Eight _ setAll_eight
      exact pushN_size _ 8
    · intro a i _ ha
      have h1 : Eight (if (!a.occupied.get i 6) = true then setAll i 6 (i % 2 == 0) a else a) :=
        ite_inv Eight _ _ _ (setAll_eight _ _ _ _ ha) ha
      exact ite_inv Eight _ _ _ (setAll_eight _ _ _ _ h1) h1
  · intro a i _ ha
    exact drawFormatInfo_inv Eight _ (setResult_eight i) _ _ _ ha

theorem written_size (data : List Nat) (st : RenderState) (h : Eight st) :
    (written data st).1.size = 8 := by
  unfold written
  simp only
  apply array_foldl_inv (fun (acc : Array QRCode × Nat) => acc.1.size = 8)
  · exact h
  · intro acc pos hacc
    obtain ⟨results, n⟩ := acc
    simp only
    rw [modifyAll_size]
    exact hacc

/-- the `lowestPenalty` loop ends with an index in 0..7 -/
theorem lowest_idx (f : Option Nat × Option Nat → Nat → Option Nat × Option Nat)
    (hf : ∀ acc i, (f acc i = acc ∧ acc.1.isSome = true) ∨ ∃ p, f acc i = (some p, some i)) :
    ∃ p i, i < 8 ∧ (List.range 8).foldl f (none, none) = (some p, some i) := by
  have hstep : ∀ (l : List Nat) (acc : Option Nat × Option Nat), (∀ i ∈ l, i < 8) →
      (∃ p i, i < 8 ∧ acc = (some p, some i)) →
      ∃ p i, i < 8 ∧ l.foldl f acc = (some p, some i) := by
    intro l
    induction l with
    | nil => intro acc _ h; exact h
    | cons x xs ih =>
      intro acc hl h
      rw [List.foldl_cons]
      apply ih _ (fun i hi => hl i (List.mem_cons_of_mem _ hi))
      obtain ⟨p, i, hi, e⟩ := h
      rcases hf acc x with ⟨h1, _⟩ | ⟨q, h2⟩
      · rw [h1]; exact ⟨p, i, hi, e⟩
      · exact ⟨q, x, hl x List.mem_cons_self, h2⟩
  have e : List.range 8 = 0 :: [1, 2, 3, 4, 5, 6, 7] := by decide
  rw [e, List.foldl_cons]
  apply hstep
  · decide
  · rcases hf (none, none) 0 with ⟨_, h1⟩ | ⟨q, h2⟩
    · cases h1
    · exact ⟨q, 0, by decide, h2⟩

theorem selectMask_ok (color : Scheme) (acc : Array QRCode × Nat) (h : acc.1.size = 8) :
    ∃ r, selectMask color acc = .ok r := by
  obtain ⟨results, n⟩ := acc
  unfold selectMask
  simp only
  obtain ⟨p, i, hi, e⟩ := lowest_idx (penStep color results) (by
    intro acc i
    unfold penStep
    simp only
    split
    · exact Or.inr ⟨_, rfl⟩
    · rename_i lowest hl
      split
      · exact Or.inr ⟨_, rfl⟩
      · exact Or.inl ⟨rfl, by rw [hl]; rfl⟩)
  rw [e]
  simp only
  have : i < results.size := by simp only at h; omega
  rw [Array.getElem?_eq_getElem this]
  exact ⟨_, rfl⟩

/-- `render` never takes a panic path, whatever the data, version row and colours -/
theorem renderWithMask_ok (data : List Nat) (vi : VersionInfo) (color : Scheme) :
    ∃ r, renderWithMask data vi color = .ok r := by
  rw [renderWithMask_eq]
  exact selectMask_ok _ _ (written_size _ _ (drawn_eight vi color))


/-! ### `IterateBytes` produces what `splitToBlocks` consumes -/

theorem length_pack8 (n : Nat) : ∀ bits : List Bool, bits.length = n → (pack8 bits).length = (n + 7) / 8 := by
  induction n using Nat.strongRecOn with
  | _ n ih =>
    intro bits hl
    cases bits with
    | nil => subst hl; rw [pack8]; rfl
    | cons b rest =>
      rw [pack8]
      simp only [List.length_cons]
      have hd : ((b :: rest).drop 8).length = n - 8 := by rw [List.length_drop, hl]
      have := ih (n - 8) (by simp only [List.length_cons] at hl; omega) _ hd
      rw [this]
      simp only [List.length_cons] at hl
      omega

/-- a stream of `8·T` bits is sent as exactly `T` bytes -/
theorem length_iterateBytes (bits : List Bool) (T : Nat) (h : bits.length = 8 * T) :
    (iterateBytes bits).length = T := by
  unfold iterateBytes
  rw [length_pack8 _ bits h]; omega

/-- data codewords of the blocks of one group -/
theorem readBlocks_data (bytes : Array Nat) (ecc len n pos : Nat) :
    (readBlocks bytes ecc len n pos).flatMap (·.data) =
      (List.range (n * len)).map (fun k => bytes.getD (pos + k) 0) := by
  induction n generalizing pos with
  | zero => simp [readBlocks]
  | succ n ih =>
    unfold readBlocks
    simp only [List.flatMap_cons]
    rw [ih, Nat.succ_mul, Nat.add_comm (n * len) len, List.range_add, List.map_append, List.map_map]
    congr 1
    apply List.map_congr_left
    intro k _
    simp only [Function.comp]
    rw [Nat.add_assoc]

theorem readBlocks_length (bytes : Array Nat) (ecc len n pos : Nat) :
    (readBlocks bytes ecc len n pos).length = n := by
  induction n generalizing pos with
  | zero => rfl
  | succ n ih => unfold readBlocks; simp only [List.length_cons]; rw [ih]

/-- shape of every block: `len` data codewords and the `calcECC` of them -/
theorem readBlocks_mem (bytes : Array Nat) (ecc len n pos : Nat) :
    ∀ b ∈ readBlocks bytes ecc len n pos, b.data.length = len ∧ b.ecc = calcECC b.data ecc := by
  induction n generalizing pos with
  | zero => intro b hb; cases hb
  | succ n ih =>
    unfold readBlocks
    intro b hb
    rcases List.mem_cons.mp hb with rfl | hb'
    · simp
    · exact ih _ b hb'

theorem map_getD_range (data : List Nat) :
    (List.range data.length).map (fun k => data.toArray.getD k 0) = data := by
  apply List.ext_getElem
  · simp
  · intro i h1 h2
    simp only [List.getElem_map, List.getElem_range]
    simp only [Array.getD_eq_getD_getElem?, List.getElem?_toArray, List.getElem?_eq_getElem h2, Option.getD_some]

/-- `splitToBlocks` does not panic for a row of the table; it returns `n1 + n2` blocks, group 1 first, every
    block with its `calcECC`; and if the producer sends exactly `totalDataBytes` bytes then the data codewords
    of the blocks, concatenated, are exactly the bytes sent: no receive on the closed channel (no invented
    zero byte) and no byte left unreceived. -/
theorem splitToBlocks_ok (data : List Nat) (vi : VersionInfo) (hmem : vi ∈ versionInfos) :
    ∃ blocks, splitToBlocks data vi = .ok blocks ∧
      blocks.length = vi.numberOfBlocksInGroup1 + vi.numberOfBlocksInGroup2 ∧
      (∀ b ∈ blocks, b.ecc = calcECC b.data vi.errorCorrectionCodewordsPerBlock) ∧
      (data.length = vi.totalDataBytes → blocks.flatMap (·.data) = data) := by
  have hside := (rowSide_of_mem hmem).1
  unfold splitToBlocks
  simp only
  rw [if_neg (by omega)]
  refine ⟨_, rfl, ?_, ?_, ?_⟩
  · rw [List.length_append, readBlocks_length, readBlocks_length]
  · intro b hb
    rcases List.mem_append.mp hb with h | h
    · exact (readBlocks_mem _ _ _ _ _ b h).2
    · exact (readBlocks_mem _ _ _ _ _ b h).2
  · intro hlen
    rw [List.flatMap_append, readBlocks_data, readBlocks_data]
    have e : (List.range (vi.numberOfBlocksInGroup1 * vi.dataCodeWordsPerBlockInGroup1)).map
        (fun k => data.toArray.getD (0 + k) 0) =
        (List.range (vi.numberOfBlocksInGroup1 * vi.dataCodeWordsPerBlockInGroup1)).map
        (fun k => data.toArray.getD k 0) := by
      apply List.map_congr_left; intro k _; rw [Nat.zero_add]
    rw [e]
    have e2 : (List.range (vi.numberOfBlocksInGroup2 * vi.dataCodeWordsPerBlockInGroup2)).map
        (fun k => data.toArray.getD (vi.numberOfBlocksInGroup1 * vi.dataCodeWordsPerBlockInGroup1 + k) 0) =
        ((List.range (vi.numberOfBlocksInGroup2 * vi.dataCodeWordsPerBlockInGroup2)).map
          (vi.numberOfBlocksInGroup1 * vi.dataCodeWordsPerBlockInGroup1 + ·)).map
        (fun k => data.toArray.getD k 0) := by
      rw [List.map_map]; rfl
    rw [e2, ← List.map_append, ← List.range_add]
    have : vi.numberOfBlocksInGroup1 * vi.dataCodeWordsPerBlockInGroup1 +
        vi.numberOfBlocksInGroup2 * vi.dataCodeWordsPerBlockInGroup2 = data.length := by
      rw [hlen]; rfl
    rw [this]
    exact map_getD_range data

/-! ### the whole pipeline -/

/-- what the four encoders have in common -/
theorem encoder_result {mode : Nat} {enc : EncodeFn} (hg : getEncoder mode = some enc)
    {content : Bytes} {level : Nat} {bits : List Bool} {vi : VersionInfo}
    (h : enc content level = some (bits, vi)) :
    vi ∈ versionInfos ∧ vi.level = level ∧ bits.length = 8 * vi.totalDataBytes := by
  unfold getEncoder c_Auto c_Numeric c_AlphaNumeric c_Unicode at hg
  split at hg
  · simp only [Option.some.injEq] at hg; subst hg
    rcases encodeAuto_stream h with s | s | s <;> exact ⟨s.mem, s.level, s.length⟩
  · split at hg
    · simp only [Option.some.injEq] at hg; subst hg
      have s := encodeNumeric_stream h; exact ⟨s.mem, s.level, s.length⟩
    · split at hg
      · simp only [Option.some.injEq] at hg; subst hg
        have s := encodeAlphaNumeric_stream h; exact ⟨s.mem, s.level, s.length⟩
      · split at hg
        · simp only [Option.some.injEq] at hg; subst hg
          have s := encodeUnicode_stream h; exact ⟨s.mem, s.level, s.length⟩
        · cases hg

theorem getEncoder_isSome (mode : Nat) : (getEncoder mode).isSome = true ↔ mode ≤ 3 := by
  unfold getEncoder c_Auto c_Numeric c_AlphaNumeric c_Unicode
  by_cases h0 : mode = 0
  · subst h0; simp
  · by_cases h1 : mode = 1
    · subst h1; simp
    · by_cases h2 : mode = 2
      · subst h2; simp
      · by_cases h3 : mode = 3
        · subst h3; simp
        · simp [h0, h1, h2, h3]; omega

/-- outcome of `encodeQR` for a defined encoding: rejected iff the mode encoder rejects, otherwise a symbol -/
theorem encodeQR_outcome (content : Bytes) (level mode : Nat) (color : Scheme) {enc : EncodeFn}
    (hg : getEncoder mode = some enc) :
    (enc content level = none ∧ encodeQR content level mode color = .error .rejected) ∨
    (∃ bits vi qr mask, enc content level = some (bits, vi) ∧
      encodeQR content level mode color = .ok (qr, vi, mask)) := by
  unfold encodeQR
  rw [hg]
  simp only
  cases he : enc content level with
  | none => exact Or.inl ⟨rfl, rfl⟩
  | some r =>
    obtain ⟨bits, vi⟩ := r
    right
    obtain ⟨hmem, _, _⟩ := encoder_result hg he
    obtain ⟨blocks, hb, _⟩ := splitToBlocks_ok (iterateBytes bits) vi hmem
    obtain ⟨r, hr⟩ := renderWithMask_ok (interleave blocks vi) vi color
    obtain ⟨res, mask⟩ := r
    refine ⟨bits, vi, { res with content := content }, mask, rfl, ?_⟩
    simp only [hb, bind, Except.bind, hr]
    rfl

/-- `EncodeWithColor` with a defined encoding (0..3) never panics: it returns the error of the mode encoder or
    a barcode -/
theorem encodeWithColor_outcome (content : Bytes) (level mode : Nat) (color : Scheme) (hm : mode ≤ 3) :
    ∃ enc, getEncoder mode = some enc ∧
      ((enc content level = none ∧ encodeWithColor content level mode color = .error .rejected) ∨
       ((enc content level).isSome = true ∧ ∃ bc, encodeWithColor content level mode color = .ok bc)) := by
  have := (getEncoder_isSome mode).mpr hm
  obtain ⟨enc, hg⟩ := Option.isSome_iff_exists.mp this
  refine ⟨enc, hg, ?_⟩
  unfold encodeWithColor
  rcases encodeQR_outcome content level mode color hg with ⟨h1, h2⟩ | ⟨bits, vi, qr, mask, h1, h2⟩
  · left; rw [h2]; exact ⟨h1, rfl⟩
  · right; rw [h2, h1]; exact ⟨rfl, _, rfl⟩

/-- an undefined encoding is the call of a nil function: the only panic of `EncodeWithColor` -/
theorem encodeWithColor_undefined_mode (content : Bytes) (level mode : Nat) (color : Scheme) (hm : 4 ≤ mode) :
    encodeWithColor content level mode color = .error .panic := by
  have h : getEncoder mode = none := by
    cases hg : getEncoder mode with
    | none => rfl
    | some e =>
      have := (getEncoder_isSome mode).mp (by rw [hg]; rfl)
      omega
  unfold encodeWithColor encodeQR
  rw [h]
  rfl


end BV.Proofs.QrRender
