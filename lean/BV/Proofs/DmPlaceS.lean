/-
  C02 item 6, reference side: whenever the symbolic run `DmSym.run` answers `some st`, the Annex F placement
  program of the reference (`Spec.Datamatrix.placement`) succeeds and its array is the tag map of `st`.
-/
import BV.Spec.Datamatrix
import BV.Proofs.DmTags
namespace BV.Proofs.DmPlaceS
open BV BV.Spec.Datamatrix BV.Proofs.DmSym BV.Proofs.DmTags

/-! ### the relation between a grid of the reference and a symbolic state -/

structure RelS (nrow ncol : Nat) (g : Grid) (st : PS) : Prop where
  hr : g.nrow = nrow
  hc : g.ncol = ncol
  harr : ∀ i, g.arr[i]? = if i < nrow * ncol then some (tagAt st.log i) else none

theorem module_eq (g : Grid) (row col : Int) (chr bit : Nat) :
    g.module row col chr bit =
      { g with arr := (g.arr.setIfInBounds
          ((wrap g.nrow g.ncol row col).1 * (g.ncol : Int) + (wrap g.nrow g.ncol row col).2).toNat
          (10 * chr + bit)) } := by
  unfold Grid.module wrap
  by_cases h1 : row < 0
  · simp only [h1, if_true]
  · simp only [h1, if_false]

section sim
variable {nrow ncol ncw : Nat}

/-- one `module` call against one symbolic `set` -/
theorem module_sim {g : Grid} {st st' : PS} (h : RelS nrow ncol g st) (hi : LogInv (nrow * ncol) st)
    (row col : Int) (chr bit : Nat) (hb : 1 ≤ bit) (hchr : 1 ≤ chr)
    (hs : st.set nrow ncol row col (10 * chr + bit) = some st') :
    RelS nrow ncol (g.module row col chr bit) st' ∧ LogInv (nrow * ncol) st' := by
  obtain ⟨i, hidx, hlt, hfree, rfl⟩ := PS.set_some hs
  refine ⟨⟨h.hr, h.hc, ?_⟩, logInv_set hi i _ hlt (by omega) hfree⟩
  intro j
  rw [module_eq]
  simp only [h.hr, h.hc]
  have e : ((wrap nrow ncol row col).1 * (ncol : Int) + (wrap nrow ncol row col).2).toNat = i := by
    rw [Int.add_comm, hidx, Int.toNat_natCast]
  rw [e, Array.getElem?_setIfInBounds, tagAt]
  have hsz : i < g.arr.size := by
    have := h.harr i
    rw [if_pos hlt] at this
    rcases Nat.lt_or_ge i g.arr.size with h1 | h1
    · exact h1
    · rw [Array.getElem?_eq_none h1] at this; cases this
  by_cases hij : i = j
  · subst hij; simp [hsz, hlt]
  · simp [hij, h.harr j]

/-- the fold of the reference's `shape`, with the pattern match of its lambda spelled as projections -/
theorem shape_eq (g : Grid) (ps : List (Int × Int)) (chr : Nat) :
    g.shape ps chr = (ps.zipIdx).foldl (fun g x => g.module x.1.1 x.1.2 chr (x.2 + 1)) g := rfl

theorem shape_sim (chr : Nat) (hchr : 1 ≤ chr) : ∀ (ps : List ((Int × Int) × Nat)) (g : Grid) (st st' : PS),
    RelS nrow ncol g st → LogInv (nrow * ncol) st → st.shape nrow ncol ps chr = some st' →
    RelS nrow ncol (ps.foldl (fun g x => g.module x.1.1 x.1.2 chr (x.2 + 1)) g) st' ∧
      LogInv (nrow * ncol) st' := by
  intro ps
  induction ps with
  | nil =>
    intro g st st' h hi hs
    simp only [PS.shape, List.foldlM_nil, pure, Option.some.injEq] at hs
    subst hs
    exact ⟨h, hi⟩
  | cons p ps ih =>
    intro g st st' h hi hs
    simp only [PS.shape, List.foldlM_cons, bind, Option.bind_eq_some_iff] at hs
    obtain ⟨st1, h1, h2⟩ := hs
    obtain ⟨r1, i1⟩ := module_sim h hi p.1.1 p.1.2 chr (p.2 + 1) (by omega) hchr h1
    exact ih _ st1 st' r1 i1 h2

theorem utah_eq (g : Grid) (row col : Int) (chr : Nat) : g.utah row col chr = g.shape (utahPos row col) chr := rfl
theorem corner1_eq (g : Grid) (chr : Nat) : g.corner1 chr = g.shape (corner1Pos g.nrow g.ncol) chr := rfl
theorem corner2_eq (g : Grid) (chr : Nat) : g.corner2 chr = g.shape (corner2Pos g.nrow g.ncol) chr := rfl
theorem corner3_eq (g : Grid) (chr : Nat) : g.corner3 chr = g.shape (corner3Pos g.nrow g.ncol) chr := rfl
theorem corner4_eq (g : Grid) (chr : Nat) : g.corner4 chr = g.shape (corner4Pos g.nrow g.ncol) chr := rfl

/-- the relation between a walking state of the reference and one of the symbolic run -/
structure RelW (nrow ncol : Nat) (w : Walk) (s : WS) : Prop where
  rel : RelS nrow ncol w.g s.1
  inv : LogInv (nrow * ncol) s.1
  chr : w.chr = s.2.1 + 1
  row : w.row = s.2.2.1
  col : w.col = s.2.2.2

/-- `if guard { shape(ps, chr++) }` of the reference against the symbolic `stepIf` -/
theorem stepIf_sim (guard : Bool) (w : Walk) (st st' : PS) (idx idx' : Nat) (row col : Int)
    (ps : List (Int × Int)) (h : RelW nrow ncol w (st, idx, row, col))
    (hs : DmSym.stepIf nrow ncol ncw guard (st, idx) ps = some (st', idx')) :
    RelW nrow ncol (if guard then { w with g := w.g.shape ps w.chr, chr := w.chr + 1 } else w)
      (st', idx', row, col) := by
  unfold DmSym.stepIf at hs
  cases guard with
  | false =>
    simp only [Bool.false_eq_true, if_false, Option.some.injEq, Prod.mk.injEq] at hs ⊢
    obtain ⟨rfl, rfl⟩ := hs
    exact h
  | true =>
    simp only [if_true] at hs ⊢
    split at hs
    · simp only [Option.map_eq_some_iff, Prod.mk.injEq] at hs
      obtain ⟨s1, h1, rfl, rfl⟩ := hs
      have hchr : w.chr = idx + 1 := h.chr
      obtain ⟨r1, i1⟩ := shape_sim (idx + 1) (by omega) ps.zipIdx w.g st s1 h.rel h.inv h1
      refine ⟨?_, i1, ?_, h.row, h.col⟩
      · show RelS nrow ncol (w.g.shape ps w.chr) s1
        rw [shape_eq, hchr]; exact r1
      · show w.chr + 1 = idx + 1 + 1
        rw [hchr]
    · cases hs

/-- the guarded `utah` of a sweep against the symbolic `place` -/
theorem place_sim (c : Prop) [Decidable c] (w : Walk) (st st' : PS) (idx idx' : Nat) (row col : Int)
    (h : RelW nrow ncol w (st, idx, row, col))
    (hs : DmSym.place nrow ncol ncw (decide c) st idx row col = some (st', idx')) :
    RelW nrow ncol (if c ∧ w.g.free w.row w.col = true
      then { w with g := w.g.utah w.row w.col w.chr, chr := w.chr + 1 } else w) (st', idx', row, col) := by
  unfold DmSym.place at hs
  by_cases hc : c
  · simp only [hc, decide_true, if_true, true_and] at hs ⊢
    have hrow : w.row = row := h.row
    have hcol : w.col = col := h.col
    split at hs
    · rename_i i hi
      split at hs
      · rename_i hlt
        have hfree : w.g.free w.row w.col = !st.occ.testBit i := by
          unfold Grid.free
          rw [hrow, hcol, h.rel.hc, Int.add_comm, hi]
          show (w.g.arr.getD i 1 == 0) = _
          have := h.rel.harr i
          rw [if_pos hlt] at this
          rw [Array.getD_eq_getD_getElem?, this, Option.getD_some, h.inv.occ i]
          cases hz : tagAt st.log i == 0 <;> simp_all
        split at hs
        · rename_i hb
          simp only [Option.some.injEq, Prod.mk.injEq] at hs
          obtain ⟨rfl, rfl⟩ := hs
          simp only [hfree, hb, Bool.not_true, Bool.false_eq_true, if_false]
          exact h
        · rename_i hb
          have := stepIf_sim true w st st' idx idx' row col (utahPos row col) h hs
          simp only [if_true] at this
          simp only [hfree, hb, Bool.not_false, if_true]
          have e : w.g.utah w.row w.col w.chr = w.g.shape (utahPos row col) w.chr := by
            rw [utah_eq, hrow, hcol]
          rw [e]
          exact this
      · cases hs
    · cases hs
  · simp only [hc, decide_false, Bool.false_eq_true, if_false, false_and, Option.some.injEq, Prod.mk.injEq] at hs ⊢
    obtain ⟨rfl, rfl⟩ := hs
    exact h

theorem sweepUp_sim : ∀ (f1 f2 : Nat) (w : Walk) (st : PS) (idx : Nat) (row col : Int) (r : WS),
    f1 ≤ f2 → RelW nrow ncol w (st, idx, row, col) →
    DmSym.sweepUp nrow ncol ncw f1 (st, idx, row, col) = some r →
    RelW nrow ncol (Spec.Datamatrix.sweepUp f2 w) r := by
  intro f1
  induction f1 with
  | zero => intro f2 w st idx row col r _ _ hs; simp [DmSym.sweepUp] at hs
  | succ f1 ih =>
    intro f2 w st idx row col r hf h hs
    obtain ⟨f2, rfl⟩ : ∃ k, f2 = k + 1 := ⟨f2 - 1, by omega⟩
    rw [DmSym.sweepUp] at hs
    split at hs
    · cases hs
    · rename_i st1 idx1 hp
      have hrow : w.row = row := h.row
      have hcol : w.col = col := h.col
      have hnr : w.g.nrow = nrow := h.rel.hr
      have hp' : DmSym.place nrow ncol ncw (decide (w.row < (w.g.nrow : Int) ∧ w.col ≥ 0)) st idx row col =
          some (st1, idx1) := by rw [hrow, hcol, hnr]; exact hp
      have h1 := place_sim _ w st st1 idx idx1 row col h hp'
      rw [Spec.Datamatrix.sweepUp]
      simp only [and_assoc] at h1
      generalize hw1 : (if w.row < (w.g.nrow : Int) ∧ w.col ≥ 0 ∧ w.g.free w.row w.col = true
        then ({ w with g := w.g.utah w.row w.col w.chr, chr := w.chr + 1 } : Walk) else w) = w1 at h1
      simp only
      have hrow1 : w1.row = row := h1.row
      have hcol1 : w1.col = col := h1.col
      have hnc1 : w1.g.ncol = ncol := h1.rel.hc
      simp only at hs
      split at hs
      · rename_i hcond
        cases hs
        have : ¬ (w1.row - 2 ≥ 0 ∧ w1.col + 2 < (w1.g.ncol : Int)) := by
          rw [hrow1, hcol1, hnc1]; omega
        simp only [this, if_false]
        exact ⟨h1.rel, h1.inv, h1.chr, by simp [hrow1], by simp [hcol1]⟩
      · rename_i hcond
        have : (w1.row - 2 ≥ 0 ∧ w1.col + 2 < (w1.g.ncol : Int)) := by
          rw [hrow1, hcol1, hnc1]; omega
        simp only [this, and_self, if_true]
        apply ih f2 _ st1 idx1 (row - 2) (col + 2) r (by omega) _ hs
        exact ⟨h1.rel, h1.inv, h1.chr, by simp [hrow1], by simp [hcol1]⟩

theorem sweepDown_sim : ∀ (f1 f2 : Nat) (w : Walk) (st : PS) (idx : Nat) (row col : Int) (r : WS),
    f1 ≤ f2 → RelW nrow ncol w (st, idx, row, col) →
    DmSym.sweepDown nrow ncol ncw f1 (st, idx, row, col) = some r →
    RelW nrow ncol (Spec.Datamatrix.sweepDown f2 w) r := by
  intro f1
  induction f1 with
  | zero => intro f2 w st idx row col r _ _ hs; simp [DmSym.sweepDown] at hs
  | succ f1 ih =>
    intro f2 w st idx row col r hf h hs
    obtain ⟨f2, rfl⟩ : ∃ k, f2 = k + 1 := ⟨f2 - 1, by omega⟩
    rw [DmSym.sweepDown] at hs
    split at hs
    · cases hs
    · rename_i st1 idx1 hp
      have hrow : w.row = row := h.row
      have hcol : w.col = col := h.col
      have hnc : w.g.ncol = ncol := h.rel.hc
      have hp' : DmSym.place nrow ncol ncw (decide (w.row ≥ 0 ∧ w.col < (w.g.ncol : Int))) st idx row col =
          some (st1, idx1) := by rw [hrow, hcol, hnc]; exact hp
      have h1 := place_sim _ w st st1 idx idx1 row col h hp'
      rw [Spec.Datamatrix.sweepDown]
      simp only [and_assoc] at h1
      generalize hw1 : (if w.row ≥ 0 ∧ w.col < (w.g.ncol : Int) ∧ w.g.free w.row w.col = true
        then ({ w with g := w.g.utah w.row w.col w.chr, chr := w.chr + 1 } : Walk) else w) = w1 at h1
      simp only
      have hrow1 : w1.row = row := h1.row
      have hcol1 : w1.col = col := h1.col
      have hnr1 : w1.g.nrow = nrow := h1.rel.hr
      simp only at hs
      split at hs
      · rename_i hcond
        cases hs
        have : ¬ (w1.row + 2 < (w1.g.nrow : Int) ∧ w1.col - 2 ≥ 0) := by
          rw [hrow1, hcol1, hnr1]; omega
        simp only [this, if_false]
        exact ⟨h1.rel, h1.inv, h1.chr, by simp [hrow1], by simp [hcol1]⟩
      · rename_i hcond
        have : (w1.row + 2 < (w1.g.nrow : Int) ∧ w1.col - 2 ≥ 0) := by
          rw [hrow1, hcol1, hnr1]; omega
        simp only [this, and_self, if_true]
        apply ih f2 _ st1 idx1 (row + 2) (col - 2) r (by omega) _ hs
        exact ⟨h1.rel, h1.inv, h1.chr, by simp [hrow1], by simp [hcol1]⟩

/-- `if guard { shape(ps, chr++) }` of the reference -/
def sCorner (guard : Bool) (ps : List (Int × Int)) (w : Walk) : Walk :=
  if guard then { w with g := w.g.shape ps w.chr, chr := w.chr + 1 } else w

/-- one round of the reference's outer loop, up to (excluding) the loop test -/
def sRound (w : Walk) : Walk :=
  let n : Int := w.g.nrow
  let w := sCorner (decide (w.row = n ∧ w.col = 0)) (corner1Pos w.g.nrow w.g.ncol) w
  let w := sCorner (decide (w.row = n - 2 ∧ w.col = 0 ∧ w.g.ncol % 4 ≠ 0)) (corner2Pos w.g.nrow w.g.ncol) w
  let w := sCorner (decide (w.row = n - 2 ∧ w.col = 0 ∧ w.g.ncol % 8 = 4)) (corner3Pos w.g.nrow w.g.ncol) w
  let w := sCorner (decide (w.row = n + 4 ∧ w.col = 2 ∧ w.g.ncol % 8 = 0)) (corner4Pos w.g.nrow w.g.ncol) w
  let w := Spec.Datamatrix.sweepUp (w.g.nrow + w.g.ncol) w
  let w := { w with row := w.row + 1, col := w.col + 3 }
  let w := Spec.Datamatrix.sweepDown (w.g.nrow + w.g.ncol) w
  { w with row := w.row + 3, col := w.col + 1 }

theorem mainLoop_succ (fuel : Nat) (w : Walk) :
    Spec.Datamatrix.mainLoop (fuel + 1) w =
      if (sRound w).row < (w.g.nrow : Int) ∨ (sRound w).col < (w.g.ncol : Int)
      then Spec.Datamatrix.mainLoop fuel (sRound w) else sRound w := by
  rw [Spec.Datamatrix.mainLoop]
  rfl

theorem sCorner_sim (P Q : Prop) [Decidable P] [Decidable Q] (hPQ : P ↔ Q) (w : Walk) (st st' : PS)
    (idx idx' : Nat) (row col : Int) (ps ps' : List (Int × Int)) (hps : ps = ps')
    (h : RelW nrow ncol w (st, idx, row, col))
    (hs : DmSym.stepIf nrow ncol ncw (decide Q) (st, idx) ps' = some (st', idx')) :
    RelW nrow ncol (sCorner (decide P) ps w) (st', idx', row, col) := by
  have : decide P = decide Q := decide_eq_decide.mpr hPQ
  rw [this, hps]
  exact stepIf_sim _ w st st' idx idx' row col ps' h hs

theorem round_sim (w : Walk) (s s' : WS) (h : RelW nrow ncol w s)
    (hs : DmSym.round nrow ncol ncw s = some s') : RelW nrow ncol (sRound w) s' := by
  obtain ⟨st, idx, row, col⟩ := s
  unfold DmSym.round at hs
  simp only at hs
  split at hs
  · cases hs
  · rename_i s1 hs1
    split at hs
    · cases hs
    · rename_i s2 hs2
      split at hs
      · cases hs
      · rename_i s3 hs3
        split at hs
        · cases hs
        · rename_i s4 hs4
          split at hs
          · cases hs
          · rename_i hfu
            split at hs
            · cases hs
            · rename_i st5 idx5 row5 col5 hs5
              split at hs
              · cases hs
              · rename_i hfd
                split at hs
                · cases hs
                · rename_i st6 idx6 row6 col6 hs6
                  simp only [Option.some.injEq] at hs
                  subst hs
                  unfold sRound
                  simp only
                  have c1 := sCorner_sim (w.row = (w.g.nrow : Int) ∧ w.col = 0) (row = (nrow : Int) ∧ col = 0)
                    (by rw [show w.row = row from h.row, show w.col = col from h.col, h.rel.hr])
                    w st s1.1 idx s1.2 row col (corner1Pos w.g.nrow w.g.ncol) (corner1Pos nrow ncol)
                    (by rw [h.rel.hr, h.rel.hc]) h hs1
                  generalize sCorner (decide (w.row = (w.g.nrow : Int) ∧ w.col = 0))
                    (corner1Pos w.g.nrow w.g.ncol) w = w1 at c1 ⊢
                  have hn : w.g.nrow = nrow := h.rel.hr
                  rw [hn]
                  have c2 := sCorner_sim (w1.row = (nrow : Int) - 2 ∧ w1.col = 0 ∧ w1.g.ncol % 4 ≠ 0)
                    (row = (nrow : Int) - 2 ∧ col = 0 ∧ ncol % 4 ≠ 0)
                    (by rw [show w1.row = row from c1.row, show w1.col = col from c1.col, c1.rel.hc])
                    w1 s1.1 s2.1 s1.2 s2.2 row col (corner2Pos w1.g.nrow w1.g.ncol) (corner2Pos nrow ncol)
                    (by rw [c1.rel.hr, c1.rel.hc]) c1 hs2
                  generalize sCorner (decide (w1.row = (nrow : Int) - 2 ∧ w1.col = 0 ∧ w1.g.ncol % 4 ≠ 0))
                    (corner2Pos w1.g.nrow w1.g.ncol) w1 = w2 at c2 ⊢
                  have c3 := sCorner_sim (w2.row = (nrow : Int) - 2 ∧ w2.col = 0 ∧ w2.g.ncol % 8 = 4)
                    (row = (nrow : Int) - 2 ∧ col = 0 ∧ ncol % 8 = 4)
                    (by rw [show w2.row = row from c2.row, show w2.col = col from c2.col, c2.rel.hc])
                    w2 s2.1 s3.1 s2.2 s3.2 row col (corner3Pos w2.g.nrow w2.g.ncol) (corner3Pos nrow ncol)
                    (by rw [c2.rel.hr, c2.rel.hc]) c2 hs3
                  generalize sCorner (decide (w2.row = (nrow : Int) - 2 ∧ w2.col = 0 ∧ w2.g.ncol % 8 = 4))
                    (corner3Pos w2.g.nrow w2.g.ncol) w2 = w3 at c3 ⊢
                  have c4 := sCorner_sim (w3.row = (nrow : Int) + 4 ∧ w3.col = 2 ∧ w3.g.ncol % 8 = 0)
                    (row = (nrow : Int) + 4 ∧ col = 2 ∧ ncol % 8 = 0)
                    (by rw [show w3.row = row from c3.row, show w3.col = col from c3.col, c3.rel.hc])
                    w3 s3.1 s4.1 s3.2 s4.2 row col (corner4Pos w3.g.nrow w3.g.ncol) (corner4Pos nrow ncol)
                    (by rw [c3.rel.hr, c3.rel.hc]) c3 hs4
                  generalize sCorner (decide (w3.row = (nrow : Int) + 4 ∧ w3.col = 2 ∧ w3.g.ncol % 8 = 0))
                    (corner4Pos w3.g.nrow w3.g.ncol) w3 = w4 at c4 ⊢
                  have c5 := sweepUp_sim (row.toNat / 2 + 2) (w4.g.nrow + w4.g.ncol) w4 s4.1 s4.2 row col _
                    (by rw [c4.rel.hr, c4.rel.hc]; omega) c4 hs5
                  generalize Spec.Datamatrix.sweepUp (w4.g.nrow + w4.g.ncol) w4 = w5 at c5 ⊢
                  have c5' : RelW nrow ncol { w5 with row := w5.row + 1, col := w5.col + 3 }
                      (st5, idx5, row5 + 1, col5 + 3) :=
                    ⟨c5.rel, c5.inv, c5.chr, by simp [show w5.row = row5 from c5.row],
                      by simp [show w5.col = col5 from c5.col]⟩
                  have c6 := sweepDown_sim ((col5 + 3).toNat / 2 + 2) (w5.g.nrow + w5.g.ncol) _ st5 idx5
                    (row5 + 1) (col5 + 3) _ (by rw [c5.rel.hr, c5.rel.hc]; omega) c5' hs6
                  generalize Spec.Datamatrix.sweepDown (w5.g.nrow + w5.g.ncol)
                    { w5 with row := w5.row + 1, col := w5.col + 3 } = w6 at c6 ⊢
                  exact ⟨c6.rel, c6.inv, c6.chr, by simp [show w6.row = row6 from c6.row],
                    by simp [show w6.col = col6 from c6.col]⟩

/-- the outer loop: the reference's `do … while` against the symbolic `while`, entered with the test true -/
theorem mainLoop_sim : ∀ (f1 f2 : Nat) (w : Walk) (s : WS) (r : PS × Nat),
    f1 ≤ f2 → RelW nrow ncol w s → (s.2.2.1 < (nrow : Int) ∨ s.2.2.2 < (ncol : Int)) →
    DmSym.mainLoop nrow ncol ncw f1 s = some r →
    RelS nrow ncol (Spec.Datamatrix.mainLoop f2 w).g r.1 ∧ LogInv (nrow * ncol) r.1 ∧
      (Spec.Datamatrix.mainLoop f2 w).chr = r.2 + 1 := by
  intro f1
  induction f1 with
  | zero => intro f2 w s r _ _ _ hs; simp [DmSym.mainLoop] at hs
  | succ f1 ih =>
    intro f2 w s r hf h hcond hs
    obtain ⟨f2, rfl⟩ : ∃ k, f2 = k + 1 := ⟨f2 - 1, by omega⟩
    rw [DmSym.mainLoop] at hs
    rw [if_pos hcond] at hs
    split at hs
    · cases hs
    · rename_i s1 hround
      have h1 := round_sim w s s1 h hround
      rw [mainLoop_succ, h.rel.hr, h.rel.hc, show (sRound w).row = s1.2.2.1 from h1.row,
        show (sRound w).col = s1.2.2.2 from h1.col]
      by_cases hc1 : s1.2.2.1 < (nrow : Int) ∨ s1.2.2.2 < (ncol : Int)
      · rw [if_pos hc1]
        exact ih f2 _ s1 r (by omega) h1 hc1 hs
      · rw [if_neg hc1]
        cases f1 with
        | zero => simp [DmSym.mainLoop] at hs
        | succ f1 =>
          rw [DmSym.mainLoop, if_neg hc1] at hs
          cases hs
          exact ⟨h1.rel, h1.inv, h1.chr⟩

/-! ### counting the placed modules -/

theorem countP_update (p q : Nat → Bool) (c : Nat) (hq : q c = false) (hp : p c = true)
    (hpq : ∀ i, i ≠ c → p i = q i) : ∀ N, c < N →
    (List.range N).countP p = (List.range N).countP q + 1 := by
  intro N
  induction N with
  | zero => intro h; omega
  | succ N ih =>
    intro hc
    rw [List.range_succ, List.countP_append, List.countP_append]
    by_cases hcN : c = N
    · subst hcN
      have : (List.range c).countP p = (List.range c).countP q := by
        apply List.countP_congr
        intro i hi
        have : i ≠ c := by have := List.mem_range.mp hi; omega
        rw [hpq i this]
      rw [this]
      simp [hp, hq]
    · rw [ih (by omega)]
      have : p N = q N := hpq N (by omega)
      simp [List.countP_cons, this]
      omega

theorem count_tags (N : Nat) : ∀ (log : List (Nat × Nat)), (∀ p ∈ log, p.1 < N ∧ 10 ≤ p.2) →
    (log.map Prod.fst).Nodup → (List.range N).countP (fun i => decide (tagAt log i ≥ 10)) = log.length := by
  intro log
  induction log with
  | nil =>
    intro _ _
    simp [tagAt]
  | cons e rest ih =>
    intro ht hn
    obtain ⟨c, t⟩ := e
    simp only [List.map_cons, List.nodup_cons] at hn
    have hc := ht (c, t) List.mem_cons_self
    rw [countP_update (fun i => decide (tagAt ((c, t) :: rest) i ≥ 10)) (fun i => decide (tagAt rest i ≥ 10)) c
      (by simp [tagAt_of_not_mem rest c hn.1]) (by simp [tagAt]; exact hc.2)
      (fun i hi => by simp [tagAt, Ne.symm hi]) N hc.1,
      ih (fun p hp => ht p (List.mem_cons_of_mem _ hp)) hn.2]
    rfl

theorem foldl_count (l : List Nat) : ∀ acc,
    l.foldl (fun n v => if v ≥ 10 then n + 1 else n) acc = acc + l.countP (fun v => decide (v ≥ 10)) := by
  induction l with
  | nil => intro acc; rfl
  | cons v l ih =>
    intro acc
    rw [List.foldl_cons, ih, List.countP_cons]
    by_cases h : v ≥ 10
    · simp [h]; omega
    · simp [h]

theorem arr_toList {g : Grid} {st : PS} (h : RelS nrow ncol g st) :
    g.arr.toList = (List.range (nrow * ncol)).map (tagAt st.log) := by
  apply List.ext_getElem?
  intro i
  rw [Array.getElem?_toList, h.harr i]
  by_cases hi : i < nrow * ncol
  · simp [hi]
  · simp [hi]

/-- the number of modules the reference counts as placed is the length of the log -/
theorem placed_eq {g : Grid} {st : PS} (h : RelS nrow ncol g st) (hi : LogInv (nrow * ncol) st) :
    g.arr.foldl (fun n v => if v ≥ 10 then n + 1 else n) 0 = st.log.length := by
  rw [← Array.foldl_toList, foldl_count, arr_toList h, List.countP_map, Nat.zero_add]
  exact count_tags (nrow * ncol) st.log hi.tags hi.nodup

/-! ### the reference's `placement` -/

theorem relS_init : RelS nrow ncol { nrow := nrow, ncol := ncol, arr := Array.replicate (nrow * ncol) 0 }
    { occ := 0, log := [] } :=
  ⟨rfl, rfl, fun i => by simp [Array.getElem?_replicate, tagAt]⟩

/-- the start state of the reference's walk -/
def walk0 (nrow ncol : Nat) : Walk :=
  ⟨⟨nrow, ncol, Array.replicate (nrow * ncol) 0⟩, 1, 4, 0⟩

/-- the reference's array for a symbolic state -/
def arrOf (n : Nat) (st : PS) : Array Nat := Array.ofFn (n := n) (fun i => tagAt st.log i)

theorem arr_eq_arrOf {g : Grid} {st : PS} (h : RelS nrow ncol g st) : g.arr = arrOf (nrow * ncol) st := by
  apply Array.ext_getElem?
  intro i
  rw [h.harr i]
  by_cases hi : i < nrow * ncol
  · simp [hi, arrOf]
  · simp [hi, arrOf]

theorem getD_of_rel {g : Grid} {st : PS} (h : RelS nrow ncol g st) (hi : LogInv (nrow * ncol) st) (i d : Nat)
    (hlt : i < nrow * ncol) : (g.arr.getD i d == 0) = !st.occ.testBit i := by
  have := h.harr i
  rw [if_pos hlt] at this
  rw [Array.getD_eq_getD_getElem?, this, Option.getD_some, hi.occ i]
  cases hz : tagAt st.log i == 0 <;> simp_all

/-- **Reference side of the placement certificate.**  If the symbolic run answers `some st`, the Annex F
    program accepts the matrix size, places exactly `ncw` codewords, and its array is the tag map of `st`. -/
theorem placement_of_run {st : PS} (hrun : run nrow ncol ncw = some st) :
    placement nrow ncol = some (arrOf (nrow * ncol) st, ncw) := by
  obtain ⟨h2r, h2c, st0, hml, hlen, hfin⟩ := run_some hrun
  have hw0 : RelW nrow ncol (walk0 nrow ncol) ({ occ := 0, log := [] }, 0, 4, 0) :=
    ⟨relS_init, logInv_init _, rfl, rfl, rfl⟩
  obtain ⟨hrel, hinv, hchr⟩ := mainLoop_sim (nrow + ncol) (nrow + ncol) _ _ _ (Nat.le_refl _) hw0
    (Or.inr (by show (0 : Int) < (ncol : Int); omega)) hml
  obtain ⟨e1, e2, hN⟩ := last_index h2r h2c
  unfold placement
  generalize hW : Spec.Datamatrix.mainLoop (nrow + ncol) (walk0 nrow ncol) = W at hrel hinv hchr
  simp only [walk0] at hW
  simp only [hW]
  rw [placed_eq hrel hinv, hchr, hlen]
  have hc0 : ¬ (nrow < 2 ∨ ncol < 2 ∨ 8 * ncw ≠ 8 * (ncw + 1 - 1)) := by omega
  rw [if_neg hc0, getD_of_rel hrel hinv _ _ (by omega)]
  rcases hfin with ⟨hb, hl, rfl⟩ | ⟨hb, hl, hb1, hb2, hb3, st1, hs1, hs2⟩
  · simp only [hb, Bool.not_true, Bool.false_eq_true, if_false]
    rw [if_pos (by omega), arr_eq_arrOf hrel]
    simp
  · simp only [hb, Bool.not_false, if_true]
    rw [getD_of_rel hrel hinv _ _ (by omega), getD_of_rel hrel hinv _ _ (by omega),
      getD_of_rel hrel hinv _ _ (by omega), hb1, hb2, hb3]
    rw [if_pos ⟨by omega, rfl, rfl, rfl⟩]
    obtain ⟨i1, hi1, hlt1, _, rfl⟩ := PS.set_some hs1
    obtain ⟨i2, hi2, hlt2, _, rfl⟩ := PS.set_some hs2
    rw [wrap_nonneg _ _ _ _ (by omega) (by omega)] at hi1 hi2
    simp only at hi1 hi2
    have ei1 : i1 = nrow * ncol - 1 := by rw [e1] at hi1; omega
    have ei2 : i2 = nrow * ncol - 1 - ncol - 1 := by rw [e2] at hi2; omega
    subst ei1 ei2
    congr 2
    · apply Array.ext_getElem?
      intro j
      simp only [Array.getElem?_setIfInBounds, arrOf, Array.getElem?_ofFn, tagAt, Array.size_setIfInBounds]
      have hsz : W.g.arr.size = nrow * ncol := by rw [arr_eq_arrOf hrel]; simp [arrOf]
      rw [hsz, hrel.harr j]
      by_cases hj2 : nrow * ncol - 1 - ncol - 1 = j
      · simp [hj2]
      · by_cases hj1 : nrow * ncol - 1 = j
        · simp [hj1]; omega
        · simp [hj2, hj1]
