/-
  BV.Proofs.Code93 — Code 93: table certificates, drawing, check characters C and K, full-ASCII pairs, round trip
  through `Spec.OneD.c93Decode`.
-/
import BV.Model.Code93
import BV.Spec.OneD
import BV.Proofs.Utf8
import BV.Proofs.Bars
import BV.Proofs.Pairs
import BV.Proofs.SplitOn
import Mathlib.Tactic.SplitIfs
namespace BV.Proofs.Code93
open BV BV.Model BV.Model.Code93 BV.Spec.OneD BV.Proofs.Utf8 BV.Proofs.Bars BV.Proofs.Pairs BV.Proofs.SplitOn
set_option maxRecDepth 100000

/-! ### the reference width table in evaluable form (see the remark in Code128Bits.lean) -/

def c93Chars : List Char :=
  ['1', '3', '1', '1', '1', '2', ' ', '1', '1', '1', '2', '1', '3', ' ', '1', '1', '1', '3', '1', '2', ' ', '1', 
   '1', '1', '4', '1', '1', ' ', '1', '2', '1', '1', '1', '3', ' ', '1', '2', '1', '2', '1', '2', ' ', '1', '2', 
   '1', '3', '1', '1', ' ', '1', '1', '1', '1', '1', '4', ' ', '1', '3', '1', '2', '1', '1', ' ', '1', '4', '1', 
   '1', '1', '1', ' ', '2', '1', '1', '1', '1', '3', ' ', '2', '1', '1', '2', '1', '2', ' ', '2', '1', '1', '3', 
   '1', '1', ' ', '2', '2', '1', '1', '1', '2', ' ', '2', '2', '1', '2', '1', '1', ' ', '2', '3', '1', '1', '1', 
   '1', ' ', '1', '1', '2', '1', '1', '3', ' ', '1', '1', '2', '2', '1', '2', ' ', '1', '1', '2', '3', '1', '1', 
   ' ', '1', '2', '2', '1', '1', '2', ' ', '1', '3', '2', '1', '1', '1', ' ', '1', '1', '1', '1', '2', '3', ' ', 
   '1', '1', '1', '2', '2', '2', ' ', '1', '1', '1', '3', '2', '1', ' ', '1', '2', '1', '1', '2', '2', ' ', '1', 
   '3', '1', '1', '2', '1', ' ', '2', '1', '2', '1', '1', '2', ' ', '2', '1', '2', '2', '1', '1', ' ', '2', '1', 
   '1', '1', '2', '2', ' ', '2', '1', '1', '2', '2', '1', ' ', '2', '2', '1', '1', '2', '1', ' ', '2', '2', '2', 
   '1', '1', '1', ' ', '1', '1', '2', '1', '2', '2', ' ', '1', '1', '2', '2', '2', '1', ' ', '1', '2', '2', '1', 
   '2', '1', ' ', '1', '2', '3', '1', '1', '1', ' ', '1', '2', '1', '1', '3', '1', ' ', '3', '1', '1', '1', '1', 
   '2', ' ', '3', '1', '1', '2', '1', '1', ' ', '3', '2', '1', '1', '1', '1', ' ', '1', '1', '2', '1', '3', '1', 
   ' ', '1', '1', '3', '1', '2', '1', ' ', '2', '1', '1', '1', '3', '1', ' ', '1', '2', '1', '2', '2', '1', ' ', 
   '3', '1', '2', '1', '1', '1', ' ', '3', '1', '1', '1', '2', '1', ' ', '1', '2', '2', '2', '1', '1', ' ', '1', 
   '1', '1', '1', '4', '1']

/-- AIM USS-93 element widths as an explicit list (equal to `Spec.OneD.c93Widths`, see `c93Widths_eq`) -/
def c93T : List (List Nat) :=
  [[1, 3, 1, 1, 1, 2],
   [1, 1, 1, 2, 1, 3],
   [1, 1, 1, 3, 1, 2],
   [1, 1, 1, 4, 1, 1],
   [1, 2, 1, 1, 1, 3],
   [1, 2, 1, 2, 1, 2],
   [1, 2, 1, 3, 1, 1],
   [1, 1, 1, 1, 1, 4],
   [1, 3, 1, 2, 1, 1],
   [1, 4, 1, 1, 1, 1],
   [2, 1, 1, 1, 1, 3],
   [2, 1, 1, 2, 1, 2],
   [2, 1, 1, 3, 1, 1],
   [2, 2, 1, 1, 1, 2],
   [2, 2, 1, 2, 1, 1],
   [2, 3, 1, 1, 1, 1],
   [1, 1, 2, 1, 1, 3],
   [1, 1, 2, 2, 1, 2],
   [1, 1, 2, 3, 1, 1],
   [1, 2, 2, 1, 1, 2],
   [1, 3, 2, 1, 1, 1],
   [1, 1, 1, 1, 2, 3],
   [1, 1, 1, 2, 2, 2],
   [1, 1, 1, 3, 2, 1],
   [1, 2, 1, 1, 2, 2],
   [1, 3, 1, 1, 2, 1],
   [2, 1, 2, 1, 1, 2],
   [2, 1, 2, 2, 1, 1],
   [2, 1, 1, 1, 2, 2],
   [2, 1, 1, 2, 2, 1],
   [2, 2, 1, 1, 2, 1],
   [2, 2, 2, 1, 1, 1],
   [1, 1, 2, 1, 2, 2],
   [1, 1, 2, 2, 2, 1],
   [1, 2, 2, 1, 2, 1],
   [1, 2, 3, 1, 1, 1],
   [1, 2, 1, 1, 3, 1],
   [3, 1, 1, 1, 1, 2],
   [3, 1, 1, 2, 1, 1],
   [3, 2, 1, 1, 1, 1],
   [1, 1, 2, 1, 3, 1],
   [1, 1, 3, 1, 2, 1],
   [2, 1, 1, 1, 3, 1],
   [1, 2, 1, 2, 2, 1],
   [3, 1, 2, 1, 1, 1],
   [3, 1, 1, 1, 2, 1],
   [1, 2, 2, 2, 1, 1],
   [1, 1, 1, 1, 4, 1]]

/-- certificate: the string form of the table evaluates to the explicit list -/
theorem c93Widths_eq : c93Widths = c93T := by
  unfold c93Widths digitsOfString
  rw [show " " = String.singleton ' ' from rfl, splitOn_singleton]
  have : "131112 111213 111312 111411 121113 121212 121311 111114 131211 141111 211113 211212 211311 221112 221211 231111 112113 112212 112311 122112 132111 111123 111222 111321 121122 131121 212112 212211 211122 211221 221121 222111 112122 112221 122121 123111 121131 311112 311211 321111 112131 113121 211131 121221 312111 311121 122211 111141" = String.ofList c93Chars := by
    unfold c93Chars; exact rfl
  rw [this, String.toList_ofList, List.map_map]
  have : ((fun s : String => s.toList.map (fun c => c.toNat - 48)) ∘ String.ofList) =
      fun cs : List Char => cs.map (fun c => c.toNat - 48) := by
    funext cs; simp
  rw [this]
  decide +kernel


/-! ### table certificates -/

theorem mem_of_lookup {α β} [BEq α] [LawfulBEq α] (k : α) (v : β) :
    ∀ (l : List (α × β)), l.lookup k = some v → (k, v) ∈ l := by
  intro l
  induction l with
  | nil => intro h; simp at h
  | cons p t ih =>
    intro h
    obtain ⟨k', v'⟩ := p
    rw [List.lookup_cons] at h
    by_cases hk : (k == k') = true
    · rw [hk] at h
      have := eq_of_beq hk
      simp only [Option.some.injEq] at h
      subst this; subst h; simp
    · have hk' : (k == k') = false := by simpa using hk
      rw [hk'] at h
      exact List.mem_cons_of_mem _ (ih h)

/-- decoding of one 9-module group, as in `c93Decode` -/
def c93Group (grp : List Bool) : Except String Nat :=
  match widthsFromBar (runLengths grp) with
  | some ws =>
    match c93Widths.findIdx? (· == ws) with
    | some v => pure v
    | none => throw "unknown character pattern"
  | none => throw "character does not start with a bar"

def entryOK (e : Int × Int × Int) : Bool :=
  decide (0 ≤ e.1) && decide (e.1 < 256) && mapGet table e.1 == some e.2 &&
  decide (0 ≤ e.2.1) && decide (e.2.1 < 48) && decide (0 ≤ e.2.2) &&
  (msbBits e.2.2.toNat 9).length == 9 &&
  (match widthsFromBar (runLengths (msbBits e.2.2.toNat 9)) with
   | some ws => c93T.findIdx? (· == ws) == some e.2.1.toNat
   | none => false) &&
  c93Rune e.2.1.toNat == e.1.toNat && (e.2.1 == 47) == (e.1 == 42) &&
  (decide (e.1 < 128) || (decide (241 ≤ e.1) && decide (e.1 ≤ 244)))

/-- certificate (48 entries): every table entry is ASCII or one of U+00F1..U+00F4, keys are unique, the 9-module
    pattern has the run lengths that the reference table lists at the entry's value (so the patterns are pairwise
    distinct), and the reference maps the value back to the character; only `*` has value 47 -/
theorem cert_table : ∀ e ∈ table, entryOK e = true := by decide +kernel

def InTable (r : Nat) : Prop := (mapGet table (r : Int)).isSome = true
def valOf (r : Nat) : Nat := match mapGet table (r : Int) with | some (v, _) => v.toNat | none => 0
def pat9 (r : Nat) : List Bool := match mapGet table (r : Int) with | some (_, p) => msbBits p.toNat 9 | none => []
/-- the 47 data characters: 43 as in Code 39 and the four shift characters U+00F1..U+00F4 -/
def Alpha47 (r : Nat) : Prop := InTable r ∧ r ≠ 42

instance (r : Nat) : Decidable (InTable r) := by unfold InTable; infer_instance
instance (r : Nat) : Decidable (Alpha47 r) := by unfold Alpha47; infer_instance

theorem inTable_iff {r : Nat} : InTable r ↔ ∃ v p, mapGet table (r : Int) = some (v, p) := by
  unfold InTable
  cases h : mapGet table (r : Int) with
  | none => simp
  | some q => obtain ⟨v, p⟩ := q; simp

theorem entry_facts {r : Nat} {v p : Int} (h : mapGet table (r : Int) = some (v, p)) :
    (r < 128 ∨ (241 ≤ r ∧ r ≤ 244)) ∧ 0 ≤ v ∧ v < 48 ∧ valOf r = v.toNat ∧ pat9 r = msbBits p.toNat 9 ∧
    (pat9 r).length = 9 ∧ c93Group (pat9 r) = .ok (valOf r) ∧ c93Rune (valOf r) = r ∧ (valOf r = 47 ↔ r = 42) := by
  have hm := mem_of_lookup _ _ _ h
  have := cert_table _ hm
  unfold entryOK at this
  simp only [Bool.and_eq_true, Bool.or_eq_true, decide_eq_true_eq, beq_iff_eq, Int.toNat_natCast] at this
  obtain ⟨⟨⟨⟨⟨⟨⟨⟨⟨⟨_, _⟩, _⟩, h4⟩, h5⟩, h6⟩, h7⟩, h8⟩, h9⟩, h10⟩, h11⟩ := this
  have hv : valOf r = v.toNat := by unfold valOf; rw [h]
  have hp : pat9 r = msbBits p.toNat 9 := by unfold pat9; rw [h]
  refine ⟨by omega, h4, h5, hv, hp, by rw [hp]; exact h7, ?_, by rw [hv]; exact h9, ?_⟩
  · unfold c93Group
    rw [c93Widths_eq, hp, hv]
    split at h8
    · rename_i ws hws
      simp only [beq_iff_eq] at h8
      simp only [h8]
      rfl
    · exact absurd h8 (by simp)
  · rw [hv]
    have h10' : v = 47 ↔ (r : Int) = 42 := by
      constructor
      · intro hh
        have : (v == 47) = true := by simp [hh]
        rw [h10] at this; simpa using this
      · intro hh
        have : ((r : Int) == 42) = true := by simp [hh]
        rw [← h10] at this; simpa using this
    constructor
    · intro hh
      have : v = 47 := by omega
      have := h10'.mp this
      omega
    · intro hh
      have : (r : Int) = 42 := by omega
      have := h10'.mpr this
      omega


/-! ### drawing -/

theorem draw_go_nil (acc : List Bool) : drawData.go [] acc = some (acc ++ [true]) := by rw [drawData.go]

theorem draw_go_cons (i r : Nat) (rest : List (Nat × Nat)) (acc : List Bool) :
    drawData.go ((i, r) :: rest) acc =
      match mapGet table (r : Int) with
      | none => none
      | some (_, pat) => drawData.go rest (acc ++ msbBits pat.toNat 9) := by
  rw [drawData.go]; rfl

theorem draw_go_ok : ∀ (ps : List (Nat × Nat)) (acc : List Bool), (∀ p ∈ ps, InTable p.2) →
    drawData.go ps acc = some (acc ++ (ps.map (·.2)).flatMap pat9 ++ [true]) := by
  intro ps
  induction ps with
  | nil => intro acc _; simp [draw_go_nil]
  | cons p t ih =>
    intro acc ht
    obtain ⟨i, r⟩ := p
    obtain ⟨v, pp, hb⟩ := inTable_iff.1 (ht (i, r) (by simp))
    rw [draw_go_cons, hb]
    simp only
    rw [ih _ (fun q hq => ht q (by simp [hq])), List.map_cons, List.flatMap_cons, (entry_facts hb).2.2.2.2.1]
    simp

theorem draw_go_fail : ∀ (ps : List (Nat × Nat)) (acc : List Bool), (∃ p ∈ ps, ¬ InTable p.2) →
    drawData.go ps acc = none := by
  intro ps
  induction ps with
  | nil => intro acc h; obtain ⟨p, hp, _⟩ := h; simp at hp
  | cons p t ih =>
    intro acc h
    obtain ⟨i, r⟩ := p
    rw [draw_go_cons]
    cases hb : mapGet table (r : Int) with
    | none => rfl
    | some q =>
      obtain ⟨v, b⟩ := q
      simp only
      apply ih
      obtain ⟨x, hx, hxn⟩ := h
      rcases List.mem_cons.1 hx with rfl | hx
      · exact absurd (inTable_iff.2 ⟨v, b, hb⟩) hxn
      · exact ⟨x, hx, hxn⟩

/-- the module row of a character sequence: 9-module patterns and the termination bar -/
def drawBits (rs : List Nat) : List Bool := rs.flatMap pat9 ++ [true]

theorem drawData_ok (data : Bytes) (h : ∀ r ∈ runeList data, InTable r) :
    drawData data = some (drawBits (runeList data)) := by
  unfold drawData
  rw [draw_go_ok _ _ (fun p hp => h p.2 (List.mem_map.2 ⟨p, hp, rfl⟩))]
  rfl

theorem drawData_fail (data : Bytes) (h : ∃ r ∈ runeList data, ¬ InTable r) : drawData data = none := by
  unfold drawData
  apply draw_go_fail
  obtain ⟨r, hr, hn⟩ := h
  unfold runeList at hr
  obtain ⟨p, hp, rfl⟩ := List.mem_map.1 hr
  exact ⟨p, hp, hn⟩

/-! ### the reference decoder, split into its module-level and its value-level part -/

/-- the value-level part of `c93Decode` -/
def c93Tail (withCheck fullASCII : Bool) (vals : List Nat) : Except String C93Info := do
  if vals.length < 2 ∨ vals.head? ≠ some 47 ∨ vals.getLast? ≠ some 47 then throw "start/stop"
  let inner := (vals.drop 1).dropLast
  if inner.any (· == 47) then throw "start/stop character inside the data"
  let data ←
    if withCheck then
      if inner.length < 2 then throw "no check characters"
      else
        let d := inner.take (inner.length - 2)
        let c := inner.getD (inner.length - 2) 0
        let k := inner.getD (inner.length - 1) 0
        if c ≠ c93Check d 20 then throw "wrong check character C"
        if k ≠ c93Check (d ++ [c]) 15 then throw "wrong check character K"
        pure d
    else pure inner
  let basic := data.map c93Rune
  if fullASCII then
    match resolvePairs 0xF1 0xF2 0xF3 0xF4 (basic.length + 1) basic with
    | some t => pure { text := t, basic := basic }
    | none => throw "invalid full-ASCII pair"
  else pure { text := basic, basic := basic }

theorem c93Decode_eq (withCheck fullASCII : Bool) (bits : List Bool) :
    c93Decode withCheck fullASCII bits =
      if bits.length < 19 ∨ (bits.length - 1) % 9 ≠ 0 then throw "length is not 9n+1"
      else if bits.getLastD false ≠ true then throw "termination bar"
      else (splitEvery 9 bits.dropLast).mapM c93Group >>= c93Tail withCheck fullASCII := by
  rfl

/-- module level: a row of at least two table characters and the termination bar is read back value by value -/
theorem decode_drawBits (cs full : Bool) (rs : List Nat) (h2 : 2 ≤ rs.length) (h : ∀ r ∈ rs, InTable r) :
    c93Decode cs full (drawBits rs) = c93Tail cs full (rs.map valOf) := by
  have hgl : ∀ g ∈ rs.map pat9, g.length = 9 := by
    intro g hg
    obtain ⟨r, hr, rfl⟩ := List.mem_map.1 hg
    obtain ⟨v, p, hb⟩ := inTable_iff.1 (h r hr)
    exact (entry_facts hb).2.2.2.2.2.1
  have hfl : rs.flatMap pat9 = (rs.map pat9).flatten := List.flatMap_def
  have hlen : (drawBits rs).length = 9 * rs.length + 1 := by
    unfold drawBits
    rw [List.length_append, hfl, length_flatten_const 9 _ hgl, List.length_map]; rfl
  have hdl : (drawBits rs).dropLast = (rs.map pat9).flatten := by
    unfold drawBits; rw [List.dropLast_concat, hfl]
  have hlast : (drawBits rs).getLastD false = true := by
    unfold drawBits; simp
  rw [c93Decode_eq, if_neg (by rw [hlen]; simp; omega), if_neg (by rw [hlast]; simp), hdl,
    splitEvery_flatten 9 (by omega) _ hgl,
    mapM_map_ok' c93Group pat9 valOf rs (by
      intro r hr
      obtain ⟨v, p, hb⟩ := inTable_iff.1 (h r hr)
      exact (entry_facts hb).2.2.2.2.2.2.1)]
  rfl


/-! ### check characters C and K -/

theorem alpha_facts {r : Nat} (h : InTable r) :
    (r < 128 ∨ (241 ≤ r ∧ r ≤ 244)) ∧ valOf r < 48 ∧ c93Rune (valOf r) = r ∧ (valOf r = 47 ↔ r = 42) := by
  obtain ⟨v, p, hb⟩ := inTable_iff.1 h
  have := entry_facts hb
  refine ⟨this.1, ?_, this.2.2.2.2.2.2.2.1, this.2.2.2.2.2.2.2.2⟩
  rw [this.2.2.2.1]; omega

/-- the model's weighted sum is the reference weighted sum of the character values -/
theorem checksum_go_eq (mw : Nat) : ∀ (l : List Nat) (w total : Nat), (∀ r ∈ l, InTable r) →
    getChecksum.go (mw : Int) l (w : Int) (total : Int) = some ((c93Check.go mw (l.map valOf) w total : Nat) : Int) := by
  intro l
  induction l with
  | nil => intro w total _; rw [getChecksum.go]; rfl
  | cons r t ih =>
    intro w total h
    obtain ⟨v, p, hb⟩ := inTable_iff.1 (h r (by simp))
    have hf := entry_facts hb
    rw [getChecksum.go]
    simp only [hb]
    rw [List.map_cons, c93Check.go]
    have hw : (if (w : Int) + 1 > (mw : Int) then (1 : Int) else (w : Int) + 1) =
        ((if w + 1 > mw then 1 else w + 1 : Nat) : Int) := by
      split_ifs <;> omega
    have ht : (total : Int) + v * (w : Int) = ((total + valOf r * w : Nat) : Int) := by
      rw [hf.2.2.2.1]
      have : ((v.toNat : Nat) : Int) = v := Int.toNat_of_nonneg hf.2.1
      rw [Int.natCast_add, Int.natCast_mul, this]
    rw [hw, ht]
    exact ih _ _ (fun x hx => h x (by simp [hx]))

/-- certificate (47 values): the check value is mapped back to the data character of that value -/
theorem cert_check : ∀ v < 47, (match runeWithValue ((v : Nat) : Int) with
    | some r => decide (Alpha47 r) && valOf r == v
    | none => false) = true := by decide +kernel

/-- `getChecksum` on table characters: the data character whose value is the reference check value -/
theorem getChecksum_ok (content : Bytes) (mw : Nat) (h : ∀ r ∈ runeList content, InTable r) :
    Alpha47 (getChecksum content (mw : Int)) ∧
    valOf (getChecksum content (mw : Int)) = c93Check ((runeList content).map valOf) mw := by
  unfold getChecksum
  have := checksum_go_eq mw (runeList content).reverse 1 0 (fun r hr => h r (List.mem_reverse.1 hr))
  have e1 : ((1 : Nat) : Int) = 1 := rfl
  have e0 : ((0 : Nat) : Int) = 0 := rfl
  rw [e1, e0] at this
  rw [this]
  simp only
  have h47 : (47 : Int) = ((47 : Nat) : Int) := rfl
  rw [h47, ← Int.ofNat_tmod, List.map_reverse]
  have hc := cert_check (c93Check.go mw ((runeList content).map valOf).reverse 1 0 % 47) (Nat.mod_lt _ (by omega))
  split at hc
  · rename_i r hr
    simp only [Bool.and_eq_true, decide_eq_true_eq, beq_iff_eq] at hc
    rw [hr]
    exact ⟨hc.1, hc.2⟩
  · exact absurd hc (by simp)


/-! ### value level -/

theorem rune_val_map (rs : List Nat) (hA : ∀ r ∈ rs, InTable r) : (rs.map valOf).map c93Rune = rs := by
  rw [List.map_map]
  conv => rhs; rw [← List.map_id rs]
  apply List.map_congr_left
  intro r hr
  exact (alpha_facts (hA r hr)).2.2.1

theorem no_stop (rs : List Nat) (hA : ∀ r ∈ rs, Alpha47 r) : (rs.map valOf).any (· == 47) = false := by
  rw [List.any_eq_false]
  intro v hv
  obtain ⟨r, hr, rfl⟩ := List.mem_map.1 hv
  have := (alpha_facts (hA r hr).1).2.2.2
  have hne := (hA r hr).2
  simp only [beq_iff_eq]
  intro h; exact hne (this.1 h)

/-- the last step of `c93Decode`: in full-ASCII mode resolve the shift pairs -/
def finish (full : Bool) (basic : List Nat) : Except String C93Info :=
  if full then
    match resolvePairs 0xF1 0xF2 0xF3 0xF4 (basic.length + 1) basic with
    | some t => pure { text := t, basic := basic }
    | none => throw "invalid full-ASCII pair"
  else pure { text := basic, basic := basic }

theorem take_two {α} (l : List α) (a b : α) (d : α) :
    (l ++ [a, b]).take ((l ++ [a, b]).length - 2) = l ∧
    (l ++ [a, b]).getD ((l ++ [a, b]).length - 2) d = a ∧
    (l ++ [a, b]).getD ((l ++ [a, b]).length - 1) d = b := by
  have hl : (l ++ [a, b]).length = l.length + 2 := by simp
  refine ⟨?_, ?_, ?_⟩
  · rw [hl]; exact List.take_left' (by omega)
  · rw [hl, List.getD_eq_getElem?_getD, List.getElem?_append_right (by omega)]
    simp
  · rw [hl, List.getD_eq_getElem?_getD, List.getElem?_append_right (by omega)]
    have : l.length + 2 - 1 - l.length = 1 := by omega
    rw [this]; rfl

/-- value level: start, data, the two check characters with the right values (if requested), stop are accepted -/
theorem tail_eval (cs full : Bool) (rs : List Nat) (hA : ∀ r ∈ rs, Alpha47 r) (c k : Nat)
    (hc : Alpha47 c) (hcv : valOf c = c93Check (rs.map valOf) 20)
    (hk : Alpha47 k) (hkv : valOf k = c93Check ((rs ++ [c]).map valOf) 15) :
    c93Tail cs full ((42 :: (rs ++ (if cs then [c, k] else [])) ++ [42]).map valOf) = finish full rs := by
  have hstar : valOf 42 = 47 := by decide
  have hbody : ∀ r ∈ rs ++ (if cs then [c, k] else []), Alpha47 r := by
    intro r hr
    rcases List.mem_append.1 hr with hr | hr
    · exact hA r hr
    · split at hr
      · simp only [List.mem_cons, List.not_mem_nil, or_false] at hr
        rcases hr with rfl | rfl
        · exact hc
        · exact hk
      · simp at hr
  generalize hbd : rs ++ (if cs then [c, k] else []) = body at hbody
  unfold c93Tail
  simp only [List.map_cons, List.map_append, List.map_nil, hstar, List.cons_append]
  have hinner : (List.drop 1 (47 :: (body.map valOf ++ [47]))).dropLast = body.map valOf := by
    simp
  have hlast : (47 :: (body.map valOf ++ [47])).getLast? = some 47 := by
    rw [← List.cons_append, List.getLast?_append]; rfl
  simp only [bind, Except.bind, pure, Except.pure, throw, throwThe, MonadExceptOf.throw]
  rw [if_neg (by simp [hlast]), hinner, no_stop body hbody]
  simp only [Bool.false_eq_true, if_false]
  cases cs with
  | false =>
    simp only [Bool.false_eq_true, if_false, List.append_nil] at hbd ⊢
    subst hbd
    rw [rune_val_map rs (fun r hr => (hA r hr).1)]
    rfl
  | true =>
    simp only [if_true] at hbd ⊢
    subst hbd
    rw [List.map_append, List.map_cons, List.map_cons, List.map_nil]
    obtain ⟨t1, t2, t3⟩ := take_two (rs.map valOf) (valOf c) (valOf k) 0
    rw [if_neg (by simp), t1, t2, t3, if_neg (by rw [hcv]; simp), if_neg (by
      rw [hkv, List.map_append]; simp)]
    rw [rune_val_map rs (fun r hr => (hA r hr).1)]
    rfl


/-! ### the encoder -/

/-- certificate: table keys are below 256 -/
theorem cert_keys : ∀ e ∈ table, e.1.toNat < 256 := by decide +kernel

theorem runeWithValue_lt {v : Int} {r : Nat} (h : runeWithValue v = some r) : r < 256 := by
  unfold runeWithValue at h
  split at h
  · rename_i e he
    simp only [Option.some.injEq] at h
    subst h
    exact cert_keys e (List.mem_of_find?_eq_some he)
  · exact absurd h (by simp)

/-- whatever the content, `getChecksum` returns a rune below 256 -/
theorem getChecksum_lt (content : Bytes) (mw : Int) : getChecksum content mw < 256 := by
  unfold getChecksum
  split
  · omega
  · split
    · rename_i r hr; exact runeWithValue_lt hr
    · omega

/-- the check character C and the content extended by it -/
def chkC (content : Bytes) : Nat := getChecksum content 20
def withC (content : Bytes) : Bytes := content ++ encodeRune (chkC content)
def chkK (content : Bytes) : Nat := getChecksum (withC content) 15

/-- the character string that is drawn: start, content, optional check characters, stop -/
def dataOf (content : Bytes) (cs : Bool) : Bytes :=
  [42] ++ (if cs then withC content ++ encodeRune (chkK content) else content) ++ [42]

theorem encodeWithColor_eq (text : Bytes) (cs full : Bool) (s : Scheme) :
    encodeWithColor text cs full s =
      match (if full then prepare text else if containsRune text 42 then none else some text) with
      | none => .error .rejected
      | some content =>
        match drawData (dataOf content cs) with
        | none => .error .rejected
        | some bits => .ok (mk1D (kindStr Gen.Root.c_TypeCode93) content bits none s) := by
  rfl

theorem runeList_withC (content : Bytes) : runeList (withC content) = runeList content ++ [chkC content] := by
  have hc : chkC content < 0x800 := by have := getChecksum_lt content 20; unfold chkC; omega
  unfold withC
  have := runeList_encodeRune_append hc []
  rw [List.append_nil] at this
  rw [runeList_append _ _ (by have := cleanStart_encodeRune hc []; rwa [List.append_nil] at this), this]
  rfl

/-- the runes of the drawn string, for any content -/
theorem runeList_dataOf (content : Bytes) (cs : Bool) :
    runeList (dataOf content cs) =
      42 :: (runeList content ++ (if cs then [chkC content, chkK content] else [])) ++ [42] := by
  have hc : chkC content < 0x800 := by have := getChecksum_lt content 20; unfold chkC; omega
  have hk : chkK content < 0x800 := by have := getChecksum_lt (withC content) 15; unfold chkK; omega
  have h42 : ((42 : UInt8)).toNat < 128 := by decide
  unfold dataOf
  rw [List.append_assoc, List.cons_append, List.nil_append, runeList_cons_ascii 42 _ h42]
  cases cs with
  | false =>
    simp only [Bool.false_eq_true, if_false, List.append_nil]
    rw [runeList_append _ _ (cleanStart_ascii h42), runeList_cons_ascii 42 _ h42]
    rfl
  | true =>
    simp only [if_true]
    unfold withC
    rw [List.append_assoc, List.append_assoc, runeList_append _ _ (cleanStart_encodeRune hc _),
      runeList_encodeRune_append hc, runeList_encodeRune_append hk, runeList_cons_ascii 42 _ h42]
    simp
    rfl

theorem inTable_42 : InTable 42 := by decide

/-- positive direction: a content of data characters is drawn as start, content, check characters C and K, stop -/
theorem draw_content (content : Bytes) (cs : Bool) (hA : ∀ r ∈ runeList content, Alpha47 r) :
    Alpha47 (chkC content) ∧ valOf (chkC content) = c93Check ((runeList content).map valOf) 20 ∧
    Alpha47 (chkK content) ∧
    valOf (chkK content) = c93Check ((runeList content ++ [chkC content]).map valOf) 15 ∧
    drawData (dataOf content cs) =
      some (drawBits (42 :: (runeList content ++ (if cs then [chkC content, chkK content] else [])) ++ [42])) := by
  have hC := getChecksum_ok content 20 (fun r hr => (hA r hr).1)
  have hC1 : Alpha47 (chkC content) := hC.1
  have hC2 : valOf (chkC content) = c93Check ((runeList content).map valOf) 20 := hC.2
  have hK := getChecksum_ok (withC content) 15 (by
    intro r hr
    rw [runeList_withC] at hr
    rcases List.mem_append.1 hr with hr | hr
    · exact (hA r hr).1
    · simp only [List.mem_cons, List.not_mem_nil, or_false] at hr; subst hr; exact hC1.1)
  rw [runeList_withC] at hK
  have hK1 : Alpha47 (chkK content) := hK.1
  have hK2 : valOf (chkK content) = c93Check ((runeList content ++ [chkC content]).map valOf) 15 := hK.2
  refine ⟨hC1, hC2, hK1, hK2, ?_⟩
  rw [drawData_ok, runeList_dataOf]
  intro r hr
  rw [runeList_dataOf] at hr
  simp only [List.cons_append, List.mem_cons, List.mem_append, List.not_mem_nil, or_false] at hr
  rcases hr with rfl | (hr | hr) | rfl
  · exact inTable_42
  · exact (hA r hr).1
  · split at hr
    · simp only [List.mem_cons, List.not_mem_nil, or_false] at hr
      rcases hr with rfl | rfl
      · exact hC1.1
      · exact hK1.1
    · simp at hr
  · exact inTable_42

/-- negative direction: if the string can be drawn, every rune of the content is a table character -/
theorem drawable_inv (content : Bytes) (cs : Bool) (h : drawData (dataOf content cs) ≠ none) :
    ∀ r ∈ runeList content, InTable r := by
  intro r hr
  apply Classical.byContradiction
  intro hn
  apply h
  apply drawData_fail
  exact ⟨r, by rw [runeList_dataOf]; simp [hr], hn⟩


/-! ### full-ASCII expansion (`prepare`) -/

/-- the bytes `prepare` emits for one rune -/
def pieceB (r : Nat) : Bytes := extTable.getD r []

def piece (r : Nat) : List Nat := runeList (pieceB r)

theorem prepare_go_cons (i r : Nat) (rest : List (Nat × Nat)) (acc : Bytes) :
    prepare.go ((i, r) :: rest) acc = if r > 127 then none else prepare.go rest (acc ++ pieceB r) := by
  rw [prepare.go]; rfl

theorem prepare_go_ok : ∀ (ps : List (Nat × Nat)) (acc : Bytes), (∀ p ∈ ps, p.2 ≤ 127) →
    prepare.go ps acc = some (acc ++ (ps.map (·.2)).flatMap pieceB) := by
  intro ps
  induction ps with
  | nil => intro acc _; rw [prepare.go]; simp
  | cons p t ih =>
    intro acc h
    obtain ⟨i, r⟩ := p
    have := h (i, r) (by simp)
    rw [prepare_go_cons, if_neg (by simp only at this; omega), ih _ (fun q hq => h q (by simp [hq]))]
    simp

theorem prepare_go_fail : ∀ (ps : List (Nat × Nat)) (acc : Bytes), (∃ p ∈ ps, p.2 > 127) →
    prepare.go ps acc = none := by
  intro ps
  induction ps with
  | nil => intro acc h; obtain ⟨p, hp, _⟩ := h; simp at hp
  | cons p t ih =>
    intro acc h
    obtain ⟨i, r⟩ := p
    rw [prepare_go_cons]
    split_ifs with hr
    · rfl
    · apply ih
      obtain ⟨x, hx, hxn⟩ := h
      rcases List.mem_cons.1 hx with rfl | hx
      · exact absurd hxn hr
      · exact ⟨x, hx, hxn⟩

theorem prepare_ok (text : Bytes) (h : ∀ r ∈ runeList text, r ≤ 127) :
    prepare text = some ((runeList text).flatMap pieceB) := by
  unfold prepare
  rw [prepare_go_ok _ _ (fun p hp => h p.2 (List.mem_map.2 ⟨p, hp, rfl⟩))]
  rfl

theorem prepare_fail (text : Bytes) (h : ∃ r ∈ runeList text, r > 127) : prepare text = none := by
  unfold prepare
  apply prepare_go_fail
  obtain ⟨r, hr, hn⟩ := h
  obtain ⟨p, hp, rfl⟩ := List.mem_map.1 hr
  exact ⟨p, hp, hn⟩

def pieceOK (r : Nat) : Bool :=
  (match pieceB r with | [] => true | c :: _ => !isCont c) &&
  (piece r).all (fun x => decide (Alpha47 x)) && goodPiece 0xF1 0xF2 0xF3 0xF4 r (piece r)

/-- certificate (128 entries): the expansion of every ASCII character is valid UTF-8 for one or two of the 47 data
    characters, and the reference pair rules of USS-93 resolve it to the character -/
theorem cert_pieces : ∀ r < 128, pieceOK r = true := by decide +kernel

theorem piece_facts {r : Nat} (h : r ≤ 127) :
    CleanStart (pieceB r) ∧ (∀ x ∈ piece r, Alpha47 x) ∧ goodPiece 0xF1 0xF2 0xF3 0xF4 r (piece r) = true := by
  have := cert_pieces r (by omega)
  unfold pieceOK at this
  simp only [Bool.and_eq_true, List.all_eq_true, decide_eq_true_eq] at this
  refine ⟨?_, this.1.2, this.2⟩
  have h1 := this.1.1
  split at h1
  · rename_i he; rw [he]; exact cleanStart_nil
  · rename_i c t he; rw [he]; exact cleanStart_cons (by simpa using h1)

theorem cleanStart_flatMap (rs : List Nat) (h : ∀ r ∈ rs, r ≤ 127) : CleanStart (rs.flatMap pieceB) := by
  induction rs with
  | nil => exact cleanStart_nil
  | cons r t ih =>
    rw [List.flatMap_cons]
    exact cleanStart_append (piece_facts (h r (by simp))).1 (ih (fun x hx => h x (by simp [hx])))

/-- the characters of the prepared content are the concatenated expansions -/
theorem prepared_facts (rs : List Nat) (h : ∀ r ∈ rs, r ≤ 127) :
    runeList (rs.flatMap pieceB) = rs.flatMap piece ∧ (∀ x ∈ rs.flatMap piece, Alpha47 x) := by
  constructor
  · induction rs with
    | nil => rfl
    | cons r t ih =>
      rw [List.flatMap_cons, List.flatMap_cons,
        runeList_append _ _ (cleanStart_flatMap t (fun x hx => h x (by simp [hx]))),
        ih (fun x hx => h x (by simp [hx]))]
      rfl
  · intro x hx
    obtain ⟨r, hr, hxr⟩ := List.mem_flatMap.1 hx
    exact (piece_facts (h r hr)).2.1 x hxr

/-- resolving the pairs of the prepared content gives back the text -/
theorem resolve_prepared (rs : List Nat) (h : ∀ r ∈ rs, r ≤ 127) :
    resolvePairs 0xF1 0xF2 0xF3 0xF4 ((rs.flatMap piece).length + 1) (rs.flatMap piece) = some rs := by
  have hg : ∀ r ∈ rs, goodPiece 0xF1 0xF2 0xF3 0xF4 r (piece r) = true := fun r hr => (piece_facts (h r hr)).2.2
  apply resolve_flat 0xF1 0xF2 0xF3 0xF4 piece rs _ hg
  have := flat_length 0xF1 0xF2 0xF3 0xF4 piece rs hg
  omega

/-! ### assembled results -/

/-- what the encoder draws for a (prepared) content of data characters, and how the reference decoder reads it -/
theorem content_roundtrip (content : Bytes) (cs full : Bool) (hA : ∀ r ∈ runeList content, Alpha47 r) :
    ∃ bits, drawData (dataOf content cs) = some bits ∧
      bits = drawBits (42 :: (runeList content ++ (if cs then [chkC content, chkK content] else [])) ++ [42]) ∧
      Alpha47 (chkC content) ∧ valOf (chkC content) = c93Check ((runeList content).map valOf) 20 ∧
      Alpha47 (chkK content) ∧
      valOf (chkK content) = c93Check ((runeList content).map valOf ++ [valOf (chkC content)]) 15 ∧
      c93Decode cs full bits = finish full (runeList content) := by
  obtain ⟨hC1, hC2, hK1, hK2, hdraw⟩ := draw_content content cs hA
  refine ⟨_, hdraw, rfl, hC1, hC2, hK1, by rw [hK2, List.map_append]; rfl, ?_⟩
  rw [decode_drawBits cs full _ (by simp; omega)]
  · exact tail_eval cs full (runeList content) hA _ _ hC1 hC2 hK1 hK2
  · intro r hr
    simp only [List.cons_append, List.mem_cons, List.mem_append, List.not_mem_nil, or_false] at hr
    rcases hr with rfl | (hr | hr) | rfl
    · exact inTable_42
    · exact (hA r hr).1
    · split at hr
      · simp only [List.mem_cons, List.not_mem_nil, or_false] at hr
        rcases hr with rfl | rfl
        · exact hC1.1
        · exact hK1.1
      · simp at hr
    · exact inTable_42

theorem not_star_of_alpha {text : Bytes} (hA : ∀ r ∈ runeList text, Alpha47 r) : containsRune text 42 = false := by
  cases h : containsRune text 42 with
  | false => rfl
  | true => exact absurd rfl ((hA 42 ((containsRune_iff text 42).1 h)).2)

/-- basic mode: the accepted texts are exactly those over the 47 data characters -/
theorem basic_accept_iff (text : Bytes) (cs : Bool) (s : Scheme) :
    (∃ bc, encodeWithColor text cs false s = .ok bc) ↔ ∀ r ∈ runeList text, Alpha47 r := by
  rw [encodeWithColor_eq]
  simp only [Bool.false_eq_true, if_false]
  constructor
  · rintro ⟨bc, h⟩
    cases hc : containsRune text 42 with
    | true => rw [hc] at h; simp at h
    | false =>
      rw [hc] at h
      simp only [Bool.false_eq_true, if_false] at h
      have hd : drawData (dataOf text cs) ≠ none := by
        intro hn; rw [hn] at h; simp at h
      intro r hr
      refine ⟨drawable_inv text cs hd r hr, ?_⟩
      rintro rfl
      have := (containsRune_iff text 42).2 hr
      rw [hc] at this; exact absurd this (by simp)
  · intro hA
    rw [not_star_of_alpha hA]
    simp only [Bool.false_eq_true, if_false]
    obtain ⟨bits, hd, _⟩ := content_roundtrip text cs false hA
    rw [hd]
    exact ⟨_, rfl⟩

theorem basic_reject (text : Bytes) (cs : Bool) (s : Scheme) (h : ¬ ∀ r ∈ runeList text, Alpha47 r) :
    encodeWithColor text cs false s = .error .rejected := by
  have hn : ¬ ∃ bc, encodeWithColor text cs false s = .ok bc := fun hh => h ((basic_accept_iff text cs s).1 hh)
  rw [encodeWithColor_eq] at hn ⊢
  simp only [Bool.false_eq_true, if_false] at hn ⊢
  cases hc : containsRune text 42 with
  | true => rfl
  | false =>
    rw [hc] at hn
    simp only [Bool.false_eq_true, if_false] at hn ⊢
    cases hd : drawData (dataOf text cs) with
    | none => rfl
    | some bits => rw [hd] at hn; exact absurd ⟨_, rfl⟩ hn

theorem full_reject (text : Bytes) (cs : Bool) (s : Scheme) (h : ¬ ∀ r ∈ runeList text, r ≤ 127) :
    encodeWithColor text cs true s = .error .rejected := by
  rw [encodeWithColor_eq]
  simp only [if_true]
  rw [prepare_fail]
  apply Classical.byContradiction
  intro hn
  apply h
  intro r hr
  apply Classical.byContradiction
  intro hr'
  exact hn ⟨r, hr, by omega⟩


/-! ### the patterns are the standard ones -/

/-- certificate (48 entries): the 9 modules of every table character are the expansion of the reference element
    widths listed at the character's value -/
theorem cert_patterns : ∀ e ∈ table, msbBits e.2.2.toNat 9 = expand true (c93T.getD e.2.1.toNat []) := by
  decide +kernel

theorem pat9_eq_expand {r : Nat} (h : InTable r) : pat9 r = expand true (c93Widths.getD (valOf r) []) := by
  obtain ⟨v, p, hb⟩ := inTable_iff.1 h
  have := cert_patterns _ (mem_of_lookup _ _ _ hb)
  have hf := entry_facts hb
  rw [c93Widths_eq, hf.2.2.2.1, hf.2.2.2.2.1]; exact this

end BV.Proofs.Code93
