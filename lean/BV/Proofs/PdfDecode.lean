/-
  BV.Proofs.PdfDecode — the ISO/IEC 15438 reference decoder `Spec.Pdf417.decode` run on an accepted symbol:
  given what the row reader returns for every pixel line (PdfRender), the decoder accepts and reports the
  true rows / columns / level, the Reed–Solomon check passes and the content is the input data.
-/
import BV.Proofs.PdfAccept
namespace BV.Proofs.PdfDecode
open BV BV.Model.Pdf417 BV.Gen.Pdf417 BV.Spec.Pdf417
open BV.Proofs.PdfDims BV.Proofs.PdfFrame BV.Proofs.PdfRS BV.Proofs.PdfHigh BV.Proofs.PdfAccept

/-! ### small monadic and list helpers -/

theorem mapM_ok {α : Type} (f : Nat → Except String α) (g : Nat → α) (l : List Nat)
    (h : ∀ r ∈ l, f r = .ok (g r)) : l.mapM f = .ok (l.map g) := by
  induction l with
  | nil => rfl
  | cons a rest ih =>
    rw [List.mapM_cons, h a List.mem_cons_self, ih (fun r hr => h r (List.mem_cons_of_mem _ hr))]
    rfl

theorem forM_ok {α : Type} (f : α → Except String PUnit) (l : List α)
    (h : ∀ x ∈ l, f x = .ok ⟨⟩) : forM l f = .ok ⟨⟩ := by
  induction l with
  | nil => rfl
  | cons a rest ih =>
    rw [List.forM_cons, h a List.mem_cons_self]
    exact ih (fun r hr => h r (List.mem_cons_of_mem _ hr))

theorem getD_map_range {α : Type} (g : Nat → α) (n i : Nat) (h : i < n) (d : α) :
    ((List.range n).map g).getD i d = g i := by
  rw [List.getD_eq_getElem?_getD, List.getElem?_map, List.getElem?_range h]; rfl

theorem ok_bind {α β : Type} (a : α) (f : α → Except String β) : (Except.ok a >>= f) = f a := rfl

theorem getLastD_frame (a b d : Nat) (l : List Nat) : (a :: (l ++ [b])).getLastD d = b := by
  rw [List.getLastD_eq_getLast?, ← List.cons_append, List.getLast?_append]
  rfl

theorem zip_map_self {α : Type} (g : Nat → α) (l : List Nat) : l.zip (l.map g) = l.map (fun r => (r, g r)) := by
  induction l with
  | nil => rfl
  | cons a rest ih => simp [ih]

theorem map_getD_range {α : Type} (l : List α) (d : α) : (List.range l.length).map (fun r => l.getD r d) = l := by
  apply List.ext_getElem
  · simp
  · intro i h1 h2
    simp only [List.getElem_map, List.getElem_range]
    rw [List.getD_eq_getElem?_getD, List.getElem?_eq_getElem h2]; rfl

/-- stripping the indicators of every row gives the grid back -/
theorem strip_rows (L R : Nat → Nat) (grid : List (List Nat)) :
    ((List.range grid.length).map (fun r => L r :: (grid.getD r [] ++ [R r]))).flatMap
      (fun row => (row.drop 1).dropLast) = grid.flatten := by
  rw [List.flatMap_def, List.map_map]
  have : ((fun row => (List.drop 1 row).dropLast) ∘ fun r => L r :: (grid.getD r [] ++ [R r])) =
      fun r => grid.getD r [] := by
    funext r
    simp
  rw [this, map_getD_range]

/-- the Spec counts exactly the pad codewords when the data does not end in 900 -/
theorem trailingPads_append (cws : List Nat) (p : Nat) (h : cws.getLast? ≠ some 900) :
    trailingPads (cws ++ List.replicate p 900) = p := by
  unfold trailingPads
  rw [List.reverse_append, List.reverse_replicate]
  have h2 : ∀ (q : Nat) (l : List Nat), l.head? ≠ some 900 →
      ((List.replicate q 900 ++ l).takeWhile (· == 900)).length = q := by
    intro q l hl
    induction q with
    | zero =>
      cases l with
      | nil => rfl
      | cons a rest =>
        have : a ≠ 900 := by intro e; apply hl; simp [e]
        simp [this]
    | succ q ih =>
      rw [List.replicate_succ, List.cons_append, List.takeWhile_cons]
      simp only [beq_self_eq_true, if_true, List.length_cons, ih]
  apply h2
  rw [List.head?_reverse]
  exact h

/-! ### the decoder on an accepted symbol -/

/-- what the decoder reports for an accepted symbol -/
def infoOf (data : Bytes) (cws : List Nat) (cols rows lvl : Nat) : Info :=
  { rows := rows, cols := cols, level := lvl,
    dataCodewords := cws.length + (getPadding cws.length (2 ^ (lvl + 1)) cols).length + 1,
    padCount := (getPadding cws.length (2 ^ (lvl + 1)) cols).length,
    ecCount := 2 ^ (lvl + 1), content := data }

/-- If the row reader returns, for both pixel lines of every row `r`, the ISO indicators and the `r`-th
    row of the grid of `symbolCodewords`, then `Spec.Pdf417.decode` accepts the picture: declared rows, columns
    and level are the true ones, every indicator is right, the length descriptor is rows·cols − 2^(lvl+1), the
    Reed–Solomon check passes, exactly the pad codewords are stripped and the content is `data`. -/
theorem decode_of_rows (dark : Nat → Nat → Bool) (data : Bytes) (cws : List Nat) (cols rows lvl : Nat)
    (grid : List (List Nat))
    (hc : 2 ≤ cols ∧ cols ≤ 30) (hr : 2 ≤ rows ∧ rows ≤ 30) (hl : lvl ≤ 8)
    (hrows : rows = calculateNumberOfRows cws.length (2 ^ (lvl + 1)) cols)
    (hsmall : cws.length + 1 + 2 ^ (lvl + 1) ≤ 900)
    (hlt : ∀ c ∈ cws, c < 929) (hdec : decodeData cws = .ok data) (hlast : cws.getLast? ≠ some 900)
    (hg1 : grid.length = rows) (hg3 : grid.flatten = symbolCodewords cws cols lvl)
    (hrowdec : ∀ r, r < rows → ∀ y, (y = 2 * r ∨ y = 2 * r + 1) →
      decodeRow cols r ((List.range (17 * (cols + 4) + 1)).map (fun x => dark x y)) =
        .ok (getLeftCodeWord r rows cols lvl :: (grid.getD r [] ++ [getRightCodeWord r rows cols lvl])))
    (hsame : ∀ r, r < rows → (List.range (17 * (cols + 4) + 1)).map (fun x => dark x (2 * r)) =
      (List.range (17 * (cols + 4) + 1)).map (fun x => dark x (2 * r + 1))) :
    decode (17 * (cols + 4) + 1) (2 * rows) dark = .ok (infoOf data cws cols rows lvl) := by
  have c1 : ((2 * rows) % 2 != 0) = false := by simp
  have c2 : (decide (17 * (cols + 4) + 1 < 17 * 5 + 1) || (17 * (cols + 4) + 1 - 1) % 17 != 0) = false := by
    simp; omega
  have e1 : (17 * (cols + 4) + 1 - 1) / 17 - 4 = cols := by omega
  have e2 : 2 * rows / 2 = rows := by omega
  have c3 : ¬ (cols > 30) := by omega
  have c4 : (decide (rows < 2) || decide (rows > 90)) = false := by simp; omega
  unfold decode
  simp only [c1, c2, e1, e2, c3, c4, Bool.false_eq_true, if_false]
  rw [mapM_ok _ (fun r => getLeftCodeWord r rows cols lvl :: (grid.getD r [] ++ [getRightCodeWord r rows cols lvl]))
    _ (by
      intro r hr'
      rw [List.mem_range] at hr'
      rw [hsame r hr', bne_self_eq_false]
      simp only [Bool.false_eq_true, if_false]
      rw [← hsame r hr']
      exact hrowdec r hr' _ (Or.inl rfl))]
  rw [ok_bind]
  have v0 := getD_map_range (fun r => getLeftCodeWord r rows cols lvl ::
    (grid.getD r [] ++ [getRightCodeWord r rows cols lvl])) rows 0 (by omega) []
  have v1 := getD_map_range (fun r => getLeftCodeWord r rows cols lvl ::
    (grid.getD r [] ++ [getRightCodeWord r rows cols lvl])) rows 1 (by omega) []
  obtain ⟨d1, d2, d3⟩ := indicators_declare rows cols lvl (by omega) (by omega) hl
  have c5 : ¬ (lvl > 8) := by omega
  simp only [v0, v1, List.headD_cons, getLastD_frame, d1, d2, d3, c5, bne_self_eq_false, Bool.false_eq_true,
    if_false]
  -- every indicator of every row
  rw [List.forM_eq_forM, forM_ok _ _ (by
    intro x hx
    rw [zip_map_self, List.mem_map] at hx
    obtain ⟨r, _, rfl⟩ := hx
    simp only [List.headD_cons, getLastD_frame, left_eq, right_eq, bne_self_eq_false, Bool.false_eq_true,
      if_false]
    rfl)]
  rw [ok_bind]
  -- the codeword sequence
  have hstrip := strip_rows (fun r => getLeftCodeWord r rows cols lvl) (fun r => getRightCodeWord r rows cols lvl) grid
  rw [hg1] at hstrip
  simp only [hstrip, hg3]
  obtain ⟨hp1, hp2, hp3⟩ := padding_spec cws.length (2 ^ (lvl + 1)) cols (by omega)
  rw [← hrows] at hp2
  have hpad : getPadding cws.length (2 ^ (lvl + 1)) cols =
      List.replicate (getPadding cws.length (2 ^ (lvl + 1)) cols).length 900 :=
    List.eq_replicate_iff.mpr ⟨rfl, hp3⟩
  have hck := checkWords_length lvl hl (dataRegion cws cols lvl)
  have hdl := dataRegion_length cws cols lvl
  have f1 : (symbolCodewords cws cols lvl).length =
      cws.length + (getPadding cws.length (2 ^ (lvl + 1)) cols).length + 1 + 2 ^ (lvl + 1) := by
    rw [symbolCodewords, List.length_append, hck, hdl]
  have f2 : (symbolCodewords cws cols lvl).headD 0 =
      cws.length + (getPadding cws.length (2 ^ (lvl + 1)) cols).length + 1 := rfl
  have hkpos : 0 < 2 ^ (lvl + 1) := Nat.pow_pos (by omega)
  have c6 : ¬ ((symbolCodewords cws cols lvl).length ≤ 2 ^ (lvl + 1)) := by omega
  have f3 : (symbolCodewords cws cols lvl).length - 2 ^ (lvl + 1) =
      cws.length + (getPadding cws.length (2 ^ (lvl + 1)) cols).length + 1 := by omega
  have hdlt : ∀ d ∈ dataRegion cws cols lvl, d < 929 := by
    intro d hd
    exact symbolCodewords_lt cws cols lvl (by omega) hlt (by omega) d (List.mem_append_left _ hd)
  obtain ⟨ec, hec1, _, _, hvalid⟩ := compute_valid lvl hl (dataRegion cws cols lvl) hdlt
  rw [compute_eq lvl hl] at hec1
  injection hec1 with hec1
  subst hec1
  have f4 : Spec.RS.valid929 (2 ^ (lvl + 1)) (symbolCodewords cws cols lvl) = true := hvalid
  have f5 : List.drop 1 (List.take (cws.length + (getPadding cws.length (2 ^ (lvl + 1)) cols).length + 1)
      (symbolCodewords cws cols lvl)) = cws ++ getPadding cws.length (2 ^ (lvl + 1)) cols := by
    rw [symbolCodewords, List.take_left' hdl]
    rfl
  have f6 : trailingPads (cws ++ getPadding cws.length (2 ^ (lvl + 1)) cols) =
      (getPadding cws.length (2 ^ (lvl + 1)) cols).length := by
    rw [hpad, trailingPads_append cws _ hlast, List.length_replicate]
  have f7 : List.take ((cws ++ getPadding cws.length (2 ^ (lvl + 1)) cols).length -
      (getPadding cws.length (2 ^ (lvl + 1)) cols).length)
      (cws ++ getPadding cws.length (2 ^ (lvl + 1)) cols) = cws := by
    rw [List.length_append, Nat.add_sub_cancel, List.take_left' rfl]
  simp only [c6, f2, f3, f4, f5, f6, f7, hdec, if_false, bne_self_eq_false, Bool.false_eq_true, Bool.not_true]
  rfl

end BV.Proofs.PdfDecode
