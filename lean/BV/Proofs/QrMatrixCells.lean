/-
  QR matrix layer, part 2: the drawing procedures as lists of cells.
  Every drawing procedure of `render` is `applyCells set cells`: a fold of `set x y v` over an explicit list of
  cells (x, y, v).  On pictures the effect of such a fold on one module (X, Y) is determined by the cells at
  (X, Y): none — unchanged (`foldUpd_miss`); some, all of the same colour V — V (`foldUpd_hit`).
  The guarded procedures (alignment patterns: skipped when the centre is occupied; timing: skipped where occupied)
  are folds over the cells that are free in the picture they start from (`guarded_eq`).
-/
import BV.Proofs.QrMatrixPix
namespace BV.Proofs.QrMatrix
open BV BV.Model BV.Model.Qr BV.Gen.Qr BV.Proofs.QrTables BV.Proofs.QrRender BV.Proofs.QrCoords

/-- a module to write: column, row, colour -/
abbrev Cell := Nat × Nat × Bool

/-- `set` applied to a list of cells in order -/
def applyCells {σ} (set : Nat → Nat → Bool → σ → σ) (cells : List Cell) (st : σ) : σ :=
  cells.foldl (fun st c => set c.1 c.2.1 c.2.2 st) st

/-- cells of a concatenation are applied one list after the other -/
theorem applyCells_append {σ} (set : Nat → Nat → Bool → σ → σ) (a b : List Cell) (st : σ) :
    applyCells set (a ++ b) st = applyCells set b (applyCells set a st) := by
  unfold applyCells; rw [List.foldl_append]

/-- no cells: nothing changes -/
theorem applyCells_nil {σ} (set : Nat → Nat → Bool → σ → σ) (st : σ) : applyCells set [] st = st := rfl

/-- successive single-module updates of one picture -/
def foldUpd (cells : List Cell) (f : Nat → Nat → Bool) : Nat → Nat → Bool :=
  cells.foldl (fun f c => upd f c.1 c.2.1 c.2.2) f

/-- some cell of the list is at (X, Y) -/
def hasCell (cells : List Cell) (X Y : Nat) : Prop := ∃ c ∈ cells, c.1 = X ∧ c.2.1 = Y

/-- a concatenation has a cell at (X, Y) iff one of the parts has -/
theorem hasCell_append (a b : List Cell) (X Y : Nat) : hasCell (a ++ b) X Y ↔ hasCell a X Y ∨ hasCell b X Y := by
  unfold hasCell
  constructor
  · rintro ⟨c, hc, h⟩
    rcases List.mem_append.mp hc with h' | h'
    · exact Or.inl ⟨c, h', h⟩
    · exact Or.inr ⟨c, h', h⟩
  · rintro (⟨c, hc, h⟩ | ⟨c, hc, h⟩)
    · exact ⟨c, List.mem_append_left _ hc, h⟩
    · exact ⟨c, List.mem_append_right _ hc, h⟩

/-- the empty list has no cell -/
theorem hasCell_nil (X Y : Nat) : ¬ hasCell [] X Y := by
  rintro ⟨c, hc, _⟩; cases hc

/-- updates of a concatenation: first list, then second list -/
theorem foldUpd_append (a b : List Cell) (f : Nat → Nat → Bool) :
    foldUpd (a ++ b) f = foldUpd b (foldUpd a f) := by
  unfold foldUpd; rw [List.foldl_append]

/-- no cell at (X, Y): the module keeps its colour -/
theorem foldUpd_miss (cells : List Cell) (f : Nat → Nat → Bool) (X Y : Nat) (h : ¬ hasCell cells X Y) :
    foldUpd cells f X Y = f X Y := by
  induction cells generalizing f with
  | nil => rfl
  | cons c cs ih =>
    unfold foldUpd
    rw [List.foldl_cons]
    have h1 : ¬ hasCell cs X Y := fun ⟨c', hc', e⟩ => h ⟨c', List.mem_cons_of_mem _ hc', e⟩
    have := ih (upd f c.1 c.2.1 c.2.2) h1
    unfold foldUpd at this
    rw [this]
    unfold upd
    rw [if_neg]
    rintro ⟨rfl, rfl⟩
    exact h ⟨c, List.mem_cons_self, rfl, rfl⟩

/-- some cell at (X, Y) and all cells at (X, Y) have colour V: the module gets colour V -/
theorem foldUpd_hit (cells : List Cell) (f : Nat → Nat → Bool) (X Y : Nat) (V : Bool) (h : hasCell cells X Y)
    (hv : ∀ c ∈ cells, c.1 = X → c.2.1 = Y → c.2.2 = V) : foldUpd cells f X Y = V := by
  induction cells generalizing f with
  | nil => exact absurd h (hasCell_nil X Y)
  | cons c cs ih =>
    have e : foldUpd (c :: cs) f = foldUpd cs (upd f c.1 c.2.1 c.2.2) := rfl
    rw [e]
    by_cases h1 : hasCell cs X Y
    · exact ih _ h1 (fun c' hc' => hv c' (List.mem_cons_of_mem _ hc'))
    · rw [foldUpd_miss cs _ X Y h1]
      obtain ⟨c', hc', e1, e2⟩ := h
      rcases List.mem_cons.mp hc' with rfl | hc''
      · unfold upd
        rw [if_pos ⟨e1.symm, e2.symm⟩]
        exact hv c' List.mem_cons_self e1 e2
      · exact absurd ⟨c', hc'', e1, e2⟩ h1

/-- value on a concatenation: the later list decides where it has a cell -/
theorem foldUpd_append_miss (a b : List Cell) (f : Nat → Nat → Bool) (X Y : Nat) (h : ¬ hasCell b X Y) :
    foldUpd (a ++ b) f X Y = foldUpd a f X Y := by
  rw [foldUpd_append, foldUpd_miss b _ X Y h]

/-- value on a concatenation when the later list has cells of one colour at (X, Y) -/
theorem foldUpd_append_hit (a b : List Cell) (f : Nat → Nat → Bool) (X Y : Nat) (V : Bool) (h : hasCell b X Y)
    (hv : ∀ c ∈ b, c.1 = X → c.2.1 = Y → c.2.2 = V) : foldUpd (a ++ b) f X Y = V := by
  rw [foldUpd_append, foldUpd_hit b _ X Y V h hv]

/-! ### cells on pictures -/

theorem applyAll_res (cells : List Cell) (P : Pix) (i : Nat) :
    (applyCells Pix.setAll cells P).res i = foldUpd cells (P.res i) := by
  induction cells generalizing P with
  | nil => rfl
  | cons c cs ih =>
    show (applyCells Pix.setAll cs (P.setAll c.1 c.2.1 c.2.2)).res i = _
    rw [ih]; rfl

/-- `setAll` over a cell list, occupancy: every cell is updated to `true` -/
theorem applyAll_occ (cells : List Cell) (P : Pix) :
    (applyCells Pix.setAll cells P).occ = foldUpd (cells.map (fun c => (c.1, c.2.1, true))) P.occ := by
  induction cells generalizing P with
  | nil => rfl
  | cons c cs ih =>
    show (applyCells Pix.setAll cs (P.setAll c.1 c.2.1 c.2.2)).occ = _
    rw [ih]; rfl

/-- forgetting the colours does not change where the cells are -/
theorem hasCell_map_true (cells : List Cell) (X Y : Nat) :
    hasCell (cells.map (fun c => (c.1, c.2.1, true))) X Y ↔ hasCell cells X Y := by
  unfold hasCell
  constructor
  · rintro ⟨c, hc, h⟩
    obtain ⟨c', hc', rfl⟩ := List.mem_map.mp hc
    exact ⟨c', hc', h⟩
  · rintro ⟨c, hc, h⟩
    exact ⟨_, List.mem_map.mpr ⟨c, hc, rfl⟩, h⟩

/-- `setAll` over a list of cells marks exactly the cells of the list as occupied -/
theorem applyAll_occ_hit (cells : List Cell) (P : Pix) (X Y : Nat) (h : hasCell cells X Y) :
    (applyCells Pix.setAll cells P).occ X Y = true := by
  rw [applyAll_occ]
  apply foldUpd_hit _ _ _ _ _ ((hasCell_map_true cells X Y).mpr h)
  intro c hc _ _
  obtain ⟨c', _, rfl⟩ := List.mem_map.mp hc
  rfl

/-- `setAll` over a cell list leaves the occupancy of the other modules unchanged -/
theorem applyAll_occ_miss (cells : List Cell) (P : Pix) (X Y : Nat) (h : ¬ hasCell cells X Y) :
    (applyCells Pix.setAll cells P).occ X Y = P.occ X Y := by
  rw [applyAll_occ]
  exact foldUpd_miss _ _ _ _ (fun h' => h ((hasCell_map_true cells X Y).mp h'))

/-- occupied after `setAll` over a cell list: occupied before or one of the cells -/
theorem applyAll_occ_eq (cells : List Cell) (P : Pix) (X Y : Nat) :
    (applyCells Pix.setAll cells P).occ X Y = true ↔ P.occ X Y = true ∨ hasCell cells X Y := by
  by_cases h : hasCell cells X Y
  · rw [applyAll_occ_hit cells P X Y h]; simp [h]
  · rw [applyAll_occ_miss cells P X Y h]; simp [h]

/-- `occupied.Set` over a cell list updates the occupancy and leaves the results alone -/
theorem applyOcc_occ (cells : List Cell) (P : Pix) :
    (applyCells Pix.setOcc cells P).occ = foldUpd cells P.occ ∧ (applyCells Pix.setOcc cells P).res = P.res := by
  induction cells generalizing P with
  | nil => exact ⟨rfl, rfl⟩
  | cons c cs ih =>
    show (applyCells Pix.setOcc cs (P.setOcc c.1 c.2.1 c.2.2)).occ = _ ∧
      (applyCells Pix.setOcc cs (P.setOcc c.1 c.2.1 c.2.2)).res = _
    rw [(ih _).1, (ih _).2]; exact ⟨rfl, rfl⟩

/-- `results[i].Set` over a cell list updates result `i` only -/
theorem applyRes_res (i : Nat) (cells : List Cell) (P : Pix) :
    (applyCells (Pix.setRes i) cells P).occ = P.occ ∧
    (applyCells (Pix.setRes i) cells P).res i = foldUpd cells (P.res i) ∧
    ∀ j, j ≠ i → (applyCells (Pix.setRes i) cells P).res j = P.res j := by
  induction cells generalizing P with
  | nil => exact ⟨rfl, rfl, fun _ _ => rfl⟩
  | cons c cs ih =>
    have e : applyCells (Pix.setRes i) (c :: cs) P = applyCells (Pix.setRes i) cs (P.setRes i c.1 c.2.1 c.2.2) := rfl
    rw [e, (ih _).1, (ih _).2.1]
    refine ⟨rfl, ?_, ?_⟩
    · show foldUpd cs (if i = i then upd (P.res i) c.1 c.2.1 c.2.2 else P.res i) = _
      rw [if_pos rfl]; rfl
    · intro j hj
      rw [(ih _).2.2 j hj]
      show (if j = i then upd (P.res j) c.1 c.2.1 c.2.2 else P.res j) = _
      rw [if_neg hj]

/-! ### flattening nested loops -/

theorem foldl_filterMap_ite {α β γ} (l : List α) (c : α → Bool) (f : α → β) (g : γ → β → γ) (init : γ) :
    (l.filterMap (fun y => if c y then some (f y) else none)).foldl g init =
      l.foldl (fun st y => if c y then g st (f y) else st) init := by
  rw [List.foldl_filterMap]
  apply foldl_congr_mem
  intro a b _
  split <;> rename_i h
  · split at h
    · rename_i hc; simp only [Option.some.injEq] at h; rw [if_pos hc, h]
    · cases h
  · split at h
    · cases h
    · rename_i hc; rw [if_neg hc]

/-- membership in `intRange lo n` -/
theorem mem_intRange_iff {lo : Int} {n : Nat} {x : Int} : x ∈ intRange lo n ↔ lo ≤ x ∧ x < lo + n := by
  constructor
  · exact mem_intRange
  · intro ⟨h1, h2⟩
    unfold intRange
    exact List.mem_map.mpr ⟨(x - lo).toNat, List.mem_range.mpr (by omega), by omega⟩

/-! ### finder patterns -/

/-- colour of the module at offset (x, y) ∈ [-1, 7]² of a finder pattern with separator (the `val` of
    `drawFinderPatterns`) -/
def finderVal (x y : Int) : Bool :=
  (x == 0 || x == 6 || y == 0 || y == 6 || (x > 1 && x < 5 && y > 1 && y < 5)) &&
    (x ≤ 6 && y ≤ 6 && x ≥ 0 && y ≥ 0)

/-- the cells of one `drawPattern xoff yoff` of `drawFinderPatterns` -/
def patCells (dim xoff yoff : Int) : List Cell :=
  (intRange (-1) 9).flatMap (fun x => (intRange (-1) 9).filterMap (fun y =>
    if x + xoff ≥ 0 && x + xoff < dim && y + yoff ≥ 0 && y + yoff < dim then
      some ((x + xoff).toNat, (y + yoff).toNat, finderVal x y)
    else none))

/-- all cells of `drawFinderPatterns` -/
def finderCells (dim : Nat) : List Cell :=
  patCells dim 0 0 ++ (patCells dim 0 ((dim : Int) - 7) ++ patCells dim ((dim : Int) - 7) 0)

/-- `drawFinderPatterns` is `set` applied to the list `finderCells` -/
theorem drawFinderPatterns_eq {σ} (vi : VersionInfo) (set : Nat → Nat → Bool → σ → σ) (st : σ) :
    drawFinderPatterns vi set st = applyCells set (finderCells vi.modulWidth) st := by
  unfold drawFinderPatterns finderCells
  simp only
  rw [applyCells_append, applyCells_append]
  have hdp : ∀ (xoff yoff : Int) (st : σ),
      ((intRange (-1) 9).foldl (fun st x =>
        (intRange (-1) 9).foldl (fun st y =>
          let val := (x == 0 || x == 6 || y == 0 || y == 6 || (x > 1 && x < 5 && y > 1 && y < 5)) &&
            (x ≤ 6 && y ≤ 6 && x ≥ 0 && y ≥ 0)
          if x + xoff ≥ 0 && x + xoff < (vi.modulWidth : Int) && y + yoff ≥ 0 && y + yoff < (vi.modulWidth : Int) then
            set (x + xoff).toNat (y + yoff).toNat val st
          else st) st) st) = applyCells set (patCells vi.modulWidth xoff yoff) st := by
    intro xoff yoff st
    unfold applyCells patCells
    rw [List.foldl_flatMap]
    apply foldl_congr_mem
    intro a x _
    rw [foldl_filterMap_ite]
    rfl
  rw [hdp, hdp, hdp]

/-- the cells of one finder pattern: offsets in [-1, 7]² that fall inside the symbol -/
theorem mem_patCells (dim xoff yoff : Int) (c : Cell) :
    c ∈ patCells dim xoff yoff ↔ ∃ x y : Int, -1 ≤ x ∧ x ≤ 7 ∧ -1 ≤ y ∧ y ≤ 7 ∧
      0 ≤ x + xoff ∧ x + xoff < dim ∧ 0 ≤ y + yoff ∧ y + yoff < dim ∧
      c = ((x + xoff).toNat, (y + yoff).toNat, finderVal x y) := by
  unfold patCells
  rw [List.mem_flatMap]
  constructor
  · rintro ⟨x, hx, hc⟩
    rw [List.mem_filterMap] at hc
    obtain ⟨y, hy, e⟩ := hc
    rw [mem_intRange_iff] at hx hy
    split at e
    · rename_i hcnd
      simp only [Bool.and_eq_true, decide_eq_true_eq] at hcnd
      simp only [Option.some.injEq] at e
      exact ⟨x, y, by omega, by omega, by omega, by omega, by omega, by omega, by omega, by omega, e.symm⟩
    · cases e
  · rintro ⟨x, y, h1, h2, h3, h4, h5, h6, h7, h8, e⟩
    refine ⟨x, mem_intRange_iff.mpr (by omega), ?_⟩
    rw [List.mem_filterMap]
    refine ⟨y, mem_intRange_iff.mpr (by omega), ?_⟩
    rw [if_pos (by simp only [Bool.and_eq_true, decide_eq_true_eq]; omega), e]

/-! ### alignment patterns -/

/-- colour of the module at offset (x, y) ∈ [-2, 2]² of an alignment pattern (the `val` of
    `drawAlignmentPatterns`) -/
def alignVal (x y : Int) : Bool := x == -2 || x == 2 || y == -2 || y == 2 || (x == 0 && y == 0)

/-- the 25 cells of the alignment pattern centred at `p` -/
def sqCells (p : Nat × Nat) : List Cell :=
  (intRange (-2) 5).flatMap (fun x => (intRange (-2) 5).map (fun y =>
    ((x + (p.1 : Int)).toNat, (y + (p.2 : Int)).toNat, alignVal x y)))

/-- all pairs of centres in the order of the double loop -/
def centrePairs (cs : List Nat) : List (Nat × Nat) := cs.flatMap (fun x => cs.map (fun y => (x, y)))

/-- `drawAlignmentPatterns` is a guarded loop over the pairs of centres drawing the 25 cells of `sqCells` -/
theorem drawAlignmentPatterns_eq {σ} (occ : σ → Nat → Nat → Bool) (vi : VersionInfo)
    (set : Nat → Nat → Bool → σ → σ) (st : σ) :
    drawAlignmentPatterns occ vi set st =
      (centrePairs vi.alignmentPatternPlacements).foldl (fun st p =>
        if occ st p.1 p.2 then st else applyCells set (sqCells p) st) st := by
  unfold drawAlignmentPatterns centrePairs
  simp only
  rw [List.foldl_flatMap]
  apply foldl_congr_mem
  intro a x _
  rw [List.foldl_map]
  apply foldl_congr_mem
  intro a y _
  congr 1

/-- the cells of one alignment pattern: offsets in [-2, 2]² -/
theorem mem_sqCells (p : Nat × Nat) (c : Cell) :
    c ∈ sqCells p ↔ ∃ x y : Int, -2 ≤ x ∧ x ≤ 2 ∧ -2 ≤ y ∧ y ≤ 2 ∧
      c = ((x + (p.1 : Int)).toNat, (y + (p.2 : Int)).toNat, alignVal x y) := by
  unfold sqCells
  rw [List.mem_flatMap]
  constructor
  · rintro ⟨x, hx, hc⟩
    rw [List.mem_map] at hc
    obtain ⟨y, hy, e⟩ := hc
    rw [mem_intRange_iff] at hx hy
    exact ⟨x, y, by omega, by omega, by omega, by omega, e.symm⟩
  · rintro ⟨x, y, h1, h2, h3, h4, e⟩
    refine ⟨x, mem_intRange_iff.mpr (by omega), ?_⟩
    rw [List.mem_map]
    exact ⟨y, mem_intRange_iff.mpr (by omega), e.symm⟩

/-! ### guarded procedures on pictures -/

/-- A loop that, for every item, draws the item's block unless the item's key module is occupied, started in the
    picture `P`: if no block covers the key of a later item that is free in `P`, the loop draws exactly the blocks
    of the items whose key is free in `P`. -/
theorem guarded_eq {β} (key : β → Nat × Nat) (blk : β → List Cell) (step : Pix → β → Pix)
    (hstep : ∀ P b, step P b = if P.occ (key b).1 (key b).2 then P else applyCells Pix.setAll (blk b) P)
    (items : List β) (P : Pix)
    (hpw : items.Pairwise (fun p q => hasCell (blk p) (key q).1 (key q).2 → P.occ (key q).1 (key q).2 = true)) :
    items.foldl step P =
      applyCells Pix.setAll ((items.filter (fun b => !P.occ (key b).1 (key b).2)).flatMap blk) P := by
  induction items generalizing P with
  | nil => rfl
  | cons b bs ih =>
    rw [List.foldl_cons, hstep]
    rw [List.pairwise_cons] at hpw
    obtain ⟨hb, hbs⟩ := hpw
    by_cases ho : P.occ (key b).1 (key b).2 = true
    · rw [if_pos ho, ih P hbs, List.filter_cons_of_neg (by simp [ho])]
    · rw [if_neg ho]
      have hocc : ∀ q ∈ bs, (applyCells Pix.setAll (blk b) P).occ (key q).1 (key q).2 = P.occ (key q).1 (key q).2 := by
        intro q hq
        by_cases hc : hasCell (blk b) (key q).1 (key q).2
        · rw [applyAll_occ_hit _ _ _ _ hc, hb q hq hc]
        · rw [applyAll_occ_miss _ _ _ _ hc]
      rw [ih (applyCells Pix.setAll (blk b) P)]
      · rw [List.filter_cons_of_pos (by simp [ho]), List.flatMap_cons, applyCells_append]
        congr 2
        apply List.filter_congr
        intro q hq
        rw [hocc q hq]
      · apply List.Pairwise.imp_of_mem _ hbs
        intro p q _ hq hR hc
        rw [hocc q hq]
        exact hR hc

end BV.Proofs.QrMatrix
