/-
  BV.Proofs.PdfRS — Reed–Solomon over GF(929) for PDF417 (C04 / C12).

  (a) certificate: the generated coefficient tables `v_correctionFactors[k]` are, lowest degree first and
      without the leading 1, the coefficients of g_k(x) = ∏_{i=1}^{2^(k+1)} (x − 3^i) mod 929;
  (b) the LFSR `Compute` keeps in its register the remainder of data(x)·x^n modulo g_k (as a congruence with an
      explicit quotient), returns its negation, and therefore data ++ check words evaluates to zero at
      3^1 … 3^n: `Spec.RS.valid929`.
  Arithmetic mod 929 is done in `ZMod 929` (only the commutative-ring structure is used).
-/
import BV.Model.Pdf417
import BV.Spec.RS
import Mathlib.Data.ZMod.Basic
import Mathlib.Tactic.Ring
namespace BV.Proofs.PdfRS
open BV BV.Model.Pdf417 BV.Gen.Pdf417 BV.Spec.RS

abbrev F := ZMod 929

/-! ### evaluation of coefficient lists

Evaluation is defined in an arbitrary commutative ring `R` of characteristic 929: `R = ZMod 929` gives the
Spec's `evalMod 929`, and `R = (ZMod 929)[X]`, `y = X` turns every identity below into an identity of
polynomials (not just of polynomial functions). -/

section generic
variable {R : Type} [CommRing R]

/-- Horner evaluation, highest-degree coefficient first (the order of codeword sequences) -/
def evalZ (w : List Nat) (y : R) : R := w.foldl (fun (acc : R) (c : Nat) => acc * y + (c : R)) 0

theorem foldl_evalZ (w : List Nat) (y a : R) :
    w.foldl (fun (acc : R) (c : Nat) => acc * y + (c : R)) a = a * y ^ w.length + evalZ w y := by
  induction w generalizing a with
  | nil => simp [evalZ]
  | cons c cs ih =>
    simp only [List.foldl_cons, List.length_cons, evalZ]
    rw [ih, ih (0 * y + (c : R))]
    ring

theorem evalZ_nil (y : R) : evalZ [] y = 0 := rfl

theorem evalZ_cons (c : Nat) (cs : List Nat) (y : R) :
    evalZ (c :: cs) y = (c : R) * y ^ cs.length + evalZ cs y := by
  simp only [evalZ, List.foldl_cons]
  rw [foldl_evalZ]
  simp [evalZ]

theorem evalZ_append (a b : List Nat) (y : R) :
    evalZ (a ++ b) y = evalZ a y * y ^ b.length + evalZ b y := by
  simp only [evalZ, List.foldl_append]
  rw [foldl_evalZ]
  simp [evalZ]

/-- evaluation, lowest-degree coefficient first -/
def evalLowZ (p : List Nat) (y : R) : R := p.foldr (fun (c : Nat) (acc : R) => (c : R) + y * acc) 0

theorem evalLowZ_reverse (p : List Nat) (y : R) : evalZ p.reverse y = evalLowZ p y := by
  simp only [evalZ, evalLowZ, List.foldl_reverse]
  induction p with
  | nil => rfl
  | cons c cs ih => simp only [List.foldr_cons]; rw [ih]; ring

variable [CharP R 929]

theorem c929 : (929 : R) = 0 := by exact_mod_cast CharP.cast_eq_zero R 929

theorem cast_mod929 (a : Nat) : ((a % 929 : Nat) : R) = (a : R) := by
  have h := Nat.mod_add_div a 929
  have e : (a : R) = ((a % 929 + 929 * (a / 929) : Nat) : R) := by rw [h]
  rw [e]
  push_cast
  rw [c929]
  ring

theorem cast_sub_mod (a b : Nat) : (((a + 929 - b % 929) % 929 : Nat) : R) = (a : R) - (b : R) := by
  rw [cast_mod929, Nat.cast_sub (by have := Nat.mod_lt b (show 929 > 0 by omega); omega)]
  push_cast
  rw [cast_mod929, c929]
  ring

end generic

/-- the Spec's `evalMod 929` is evaluation in `ZMod 929` -/
theorem evalMod_cast (w : List Nat) (x : Nat) : ((evalMod 929 w x : Nat) : F) = evalZ w (x : F) := by
  have h : ∀ (a : Nat), ((w.foldl (fun acc c => (acc * x + c) % 929) a : Nat) : F) =
      w.foldl (fun (acc : F) (c : Nat) => acc * (x : F) + (c : F)) (a : F) := by
    induction w with
    | nil => intro a; rfl
    | cons c cs ih =>
      intro a
      simp only [List.foldl_cons]
      rw [ih]
      congr 1
      rw [ZMod.natCast_mod]
      push_cast
      ring
  simpa [evalMod, evalZ] using h 0

theorem evalMod_lt (w : List Nat) (x : Nat) : evalMod 929 w x < 929 := by
  have h : ∀ (a : Nat), a < 929 → w.foldl (fun acc c => (acc * x + c) % 929) a < 929 := by
    induction w with
    | nil => intro a ha; exact ha
    | cons c cs ih => intro a _; exact ih _ (Nat.mod_lt _ (by omega))
  exact h 0 (by omega)

theorem evalMod_eq_zero_iff (w : List Nat) (x : Nat) : evalMod 929 w x = 0 ↔ evalZ w (x : F) = 0 := by
  rw [← evalMod_cast, ZMod.natCast_eq_zero_iff]
  have := evalMod_lt w x
  constructor
  · intro h; rw [h]; exact Nat.dvd_zero _
  · intro h; exact Nat.eq_zero_of_dvd_of_lt h this

theorem powMod_cast (a n : Nat) : ((powMod a n 929 : Nat) : F) = (a : F) ^ n := by
  induction n with
  | zero => simp [powMod]
  | succ n ih =>
    simp only [powMod]
    rw [ZMod.natCast_mod]
    push_cast
    rw [ih]
    ring

/-! ### (a) the generator polynomials -/

/-- `p(x)·(x − r)` for `p` given lowest degree first; `prev` is the coefficient of `p` one position below -/
def mulLinAux (r : Nat) : Nat → List Nat → List Nat
  | prev, [] => [prev]
  | prev, b :: rest => (prev + 929 - (r * b) % 929) % 929 :: mulLinAux r b rest

/-- `p(x)·(x − r)` mod 929, coefficients lowest degree first -/
def mulLin (p : List Nat) (r : Nat) : List Nat := mulLinAux r 0 p

/-- `p · (x − r)(x − 3r)(x − 9r)…` with `n` factors -/
def genAux : Nat → Nat → List Nat → List Nat
  | 0, _, p => p
  | n + 1, r, p => genAux n (r * 3 % 929) (mulLin p r)

/-- g(x) = ∏_{i=1}^{n} (x − 3^i) mod 929, coefficients lowest degree first (the last one is 1) -/
def genPoly (n : Nat) : List Nat := genAux n 3 [1]

/-- the factor table of a level as naturals (lowest degree first, without the leading 1) -/
def factorsOf (level : Nat) : List Nat := (v_correctionFactors.getD level []).map Int.toNat

/-- CERTIFICATE (1a): for every level 0..8 the table `correctionFactors[level]` is g_level without its
    leading coefficient 1, lowest degree first (which is the order in which `Compute` indexes it) -/
theorem factors_eq_genPoly_cert :
    (List.range 9).all (fun k => (factorsOf k ++ [1] == genPoly (2 ^ (k + 1)))) = true := by
  decide +kernel

/-- (1a) for every level 0..8: factors ++ [1] = ∏_{i=1}^{2^(level+1)} (x − 3^i) -/
theorem factors_eq_genPoly (level : Nat) (h : level ≤ 8) :
    factorsOf level ++ [1] = genPoly (2 ^ (level + 1)) := by
  have := List.all_eq_true.mp factors_eq_genPoly_cert level (List.mem_range.mpr (by omega))
  simpa using this

section generic
variable {R : Type} [CommRing R] [CharP R 929]

theorem evalLowZ_mulLinAux (r prev : Nat) (p : List Nat) (y : R) :
    evalLowZ (mulLinAux r prev p) y = (prev : R) + (y - (r : R)) * evalLowZ p y := by
  induction p generalizing prev with
  | nil => simp [mulLinAux, evalLowZ]
  | cons b rest ih =>
    simp only [mulLinAux, evalLowZ, List.foldr_cons] at ih ⊢
    rw [ih, cast_sub_mod]
    push_cast
    ring

/-- multiplication by a linear factor, as evaluation -/
theorem evalLowZ_mulLin (p : List Nat) (r : Nat) (y : R) :
    evalLowZ (mulLin p r) y = evalLowZ p y * (y - (r : R)) := by
  rw [mulLin, evalLowZ_mulLinAux]
  push_cast
  ring

theorem genAux_zero (n r : Nat) (p : List Nat) (y : R) (h : evalLowZ p y = 0) :
    evalLowZ (genAux n r p) y = 0 := by
  induction n generalizing r p with
  | zero => exact h
  | succ n ih => exact ih _ _ (by rw [evalLowZ_mulLin, h]; ring)

theorem genAux_root (n r : Nat) (p : List Nat) (j : Nat) (hj : j < n) :
    evalLowZ (genAux n r p) ((r : R) * 3 ^ j) = 0 := by
  induction n generalizing r p j with
  | zero => omega
  | succ n ih =>
    simp only [genAux]
    rcases j with _ | j
    · apply genAux_zero
      rw [evalLowZ_mulLin]
      ring
    · have := ih (r * 3 % 929) (mulLin p r) j (by omega)
      rw [cast_mod929] at this
      push_cast at this
      rw [show (r : R) * 3 ^ (j + 1) = (r : R) * 3 * 3 ^ j by ring]
      exact this

/-- by its product form, g_n vanishes at 3^1 … 3^n -/
theorem genPoly_root (n i : Nat) (hi : i < n) : evalLowZ (genPoly n) ((3 : R) ^ (i + 1)) = 0 := by
  have := genAux_root (R := R) n 3 [1] i hi
  rw [show ((3 : Nat) : R) * 3 ^ i = (3 : R) ^ (i + 1) by push_cast; ring] at this
  exact this

end generic

/-! ### (b) the LFSR -/

/-- one round of `Compute` never panics (the factor table is long enough) and updates the register
    pointwise: position `j` receives `old[j+1] − temp·factors[count−1−j]` (with `old[count] = 0`) -/
theorem go_spec (factors : Array Nat) (count temp : Nat) (hf : count ≤ factors.size) :
    ∀ (i : Nat) (ec : Array Nat), i ≤ count → ec.size = count →
    ∃ ec', computeStep.go factors count temp i ec = .ok ec' ∧ ec'.size = count ∧
      (∀ j, j < count - i → ec'[j]? = ec[j]?) ∧
      (∀ j, count - i ≤ j → j < count →
        ec'[j]? = some ((ec.getD (j + 1) 0 + 929 - (temp * factors.getD (count - 1 - j) 0) % 929) % 929)) := by
  intro i
  induction i with
  | zero =>
    intro ec _ hs
    exact ⟨ec, rfl, hs, fun _ _ => rfl, fun j h1 h2 => by omega⟩
  | succ i ih =>
    intro ec hi hs
    have hfi : factors[i]? = some (factors.getD i 0) := by
      rw [Array.getD_eq_getD_getElem?, Array.getElem?_eq_getElem (by omega)]; rfl
    unfold computeStep.go
    simp only [hfi]
    obtain ⟨ec', h1, h2, h3, h4⟩ := ih
      (ec.setIfInBounds (count - 1 - i)
        (((if i > 0 then ec.getD (count - i) 0 else 0) + 929 - temp * factors.getD i 0 % 929) % 929))
      (by omega) (by simp [hs])
    refine ⟨ec', h1, h2, ?_, ?_⟩
    · intro j hj
      rw [h3 j (by omega), Array.getElem?_setIfInBounds, if_neg (by omega)]
    · intro j hj1 hj2
      rcases Nat.eq_or_lt_of_le hj1 with heq | hlt
      · have hj : j = count - 1 - i := by omega
        rw [h3 j (by omega), Array.getElem?_setIfInBounds, if_pos hj.symm, if_pos (by omega)]
        have e1 : count - 1 - j = i := by omega
        have e2 : (if i > 0 then ec.getD (count - i) 0 else 0) = ec.getD (j + 1) 0 := by
          split
          · congr 1; omega
          · have : j + 1 = count := by omega
            rw [this, Array.getD_eq_getD_getElem?, Array.getElem?_eq_none (by omega)]; rfl
        rw [e1, e2]
      · rw [h4 j (by omega) hj2]
        congr 3
        rw [Array.getD_eq_getD_getElem?, Array.getD_eq_getD_getElem?, Array.getElem?_setIfInBounds,
          if_neg (by omega)]
        try rw [Array.getD_eq_getD_getElem?]

/-- the register update of `Compute` on lists: shift up by one position, subtract `temp` times the factors
    (the factor list is indexed from the low end, the register from the high end) -/
def lfsrStep (f reg : List Nat) (v : Nat) : List Nat :=
  List.zipWith (fun a fj => (a + 929 - (((v + reg.headD 0) % 929) * fj) % 929) % 929) (reg.tail ++ [0]) f.reverse

theorem lfsrStep_length (f reg : List Nat) (v : Nat) (h : f.length = reg.length) (hpos : 0 < reg.length) :
    (lfsrStep f reg v).length = reg.length := by
  simp [lfsrStep, h]; omega

/-- `computeStep` on arrays is `lfsrStep` on lists -/
theorem computeStep_eq (f reg : List Nat) (v : Nat) (h : f.length = reg.length) (hpos : 0 < reg.length) :
    computeStep f.toArray reg.length reg.toArray v = .ok (lfsrStep f reg v).toArray := by
  obtain ⟨ec', h1, h2, _, h4⟩ := go_spec f.toArray reg.length ((v + reg.toArray.getD 0 0) % 929)
    (by simp [h]) reg.length reg.toArray (Nat.le_refl _) (by simp)
  unfold computeStep
  simp only []
  rw [h1]
  congr 1
  apply Array.ext
  · simp [h2, lfsrStep_length f reg v h hpos]
  · intro j hj1 hj2
    have hj : j < reg.length := by omega
    have := h4 j (by omega) hj
    rw [Array.getElem?_eq_getElem hj1] at this
    injection this with this
    rw [this]
    simp only [List.getElem_toArray, lfsrStep, List.getElem_zipWith]
    have e1 : (reg.tail ++ [0])[j]'(by simp; omega) = reg.toArray.getD (j + 1) 0 := by
      rw [Array.getD_eq_getD_getElem?]
      simp only [List.getElem?_toArray]
      have e : (reg.tail ++ [0])[j]? = some (reg[j + 1]?.getD 0) := by
        rw [List.getElem?_append]
        simp only [List.length_tail]
        by_cases hlt : j < reg.length - 1
        · rw [if_pos hlt, List.getElem?_tail, List.getElem?_eq_getElem (by omega)]; rfl
        · rw [if_neg hlt]
          have e0 : j - (reg.length - 1) = 0 := by omega
          rw [e0, List.getElem?_eq_none (by omega : reg.length ≤ j + 1)]; rfl
      obtain ⟨_, e'⟩ := List.getElem?_eq_some_iff.mp e
      exact e'
    have e2 : f.reverse[j]'(by simp; omega) = f.toArray.getD (reg.length - 1 - j) 0 := by
      rw [Array.getD_eq_getD_getElem?]
      simp only [List.getElem?_toArray, List.getElem_reverse]
      rw [List.getElem?_eq_getElem (by omega)]
      simp [h]
    have e3 : reg.headD 0 = reg.toArray.getD 0 0 := by
      cases reg <;> simp
    rw [e1, e2, e3]

section generic
variable {R : Type} [CommRing R] [CharP R 929]

theorem evalZ_zipWith_sub (t : Nat) (y : R) : ∀ (A B : List Nat), A.length = B.length →
    evalZ (List.zipWith (fun a b => (a + 929 - (t * b) % 929) % 929) A B) y =
      evalZ A y - (t : R) * evalZ B y
  | [], [], _ => by simp [evalZ_nil]
  | a :: A, b :: B, h => by
    have hl : A.length = B.length := by simpa using h
    simp only [List.zipWith_cons_cons, evalZ_cons, List.length_zipWith]
    rw [evalZ_zipWith_sub t y A B hl, cast_sub_mod]
    simp only [hl, Nat.min_self]
    push_cast
    ring
  | [], _ :: _, h => by simp at h
  | _ :: _, [], h => by simp at h

/-- the value at `y` of the monic polynomial g(x) = x^n + Σ f_i x^i -/
def gEval (f : List Nat) (y : R) : R := y ^ f.length + evalLowZ f y

/-- one LFSR round as polynomial arithmetic: T' = T·x + v·x^n − temp·g, temp = v + leading coefficient of T -/
theorem lfsrStep_eval (f reg : List Nat) (v : Nat) (y : R) (h : f.length = reg.length) (hpos : 0 < reg.length) :
    evalZ (lfsrStep f reg v) y =
      evalZ reg y * y + (v : R) * y ^ f.length - (((v + reg.headD 0) % 929 : Nat) : R) * gEval f y := by
  obtain ⟨r0, tail, rfl⟩ : ∃ r0 tail, reg = r0 :: tail := by
    cases reg with
    | nil => simp at hpos
    | cons a b => exact ⟨a, b, rfl⟩
  have hl : (tail ++ [0]).length = f.reverse.length := by simp [h]
  unfold lfsrStep
  simp only [List.tail_cons, List.headD_cons]
  rw [evalZ_zipWith_sub _ y _ _ hl, evalZ_append, evalLowZ_reverse, evalZ_cons, gEval, cast_mod929]
  have hf : f.length = tail.length + 1 := by simpa using h
  simp only [List.length_singleton, evalZ_cons, evalZ_nil, List.length_nil, hf]
  push_cast
  ring

end generic

theorem zipWith_mod_lt (g : Nat → Nat → Nat) : ∀ (A B : List Nat),
    ∀ x ∈ List.zipWith (fun a b => g a b % 929) A B, x < 929
  | [], _, x, hx => by simp at hx
  | _ :: _, [], x, hx => by simp at hx
  | a :: A, b :: B, x, hx => by
    rw [List.zipWith_cons_cons, List.mem_cons] at hx
    rcases hx with rfl | hx
    · exact Nat.mod_lt _ (by omega)
    · exact zipWith_mod_lt g A B x hx

theorem lfsrStep_lt (f reg : List Nat) (v : Nat) : ∀ x ∈ lfsrStep f reg v, x < 929 :=
  zipWith_mod_lt (fun a fj => a + 929 - (((v + reg.headD 0) % 929) * fj) % 929) _ _

/-- the state of the division: register (remainder) and the quotient digits produced so far -/
def lfsrQ (f : List Nat) (st : List Nat × List Nat) (v : Nat) : List Nat × List Nat :=
  (lfsrStep f st.1 v, st.2 ++ [(v + st.1.headD 0) % 929])

theorem lfsrQ_fst (f : List Nat) (data : List Nat) : ∀ (st : List Nat × List Nat),
    (data.foldl (lfsrQ f) st).1 = data.foldl (lfsrStep f) st.1 := by
  induction data with
  | nil => intro st; rfl
  | cons v rest ih => intro st; simp only [List.foldl_cons]; rw [ih]; rfl

theorem run_length (f : List Nat) (data : List Nat) : ∀ (reg : List Nat), f.length = reg.length →
    0 < reg.length → (data.foldl (lfsrStep f) reg).length = reg.length := by
  induction data with
  | nil => intro reg _ _; rfl
  | cons v rest ih =>
    intro reg h hpos
    simp only [List.foldl_cons]
    have hl := lfsrStep_length f reg v h hpos
    rw [ih _ (by omega) (by omega), hl]

theorem run_lt (f : List Nat) (data : List Nat) : ∀ (reg : List Nat), (∀ x ∈ reg, x < 929) →
    ∀ x ∈ data.foldl (lfsrStep f) reg, x < 929 := by
  induction data with
  | nil => intro reg h; exact h
  | cons v rest ih => intro reg _; exact ih _ (lfsrStep_lt f reg v)

section generic
variable {R : Type} [CommRing R] [CharP R 929]

/-- THE LFSR INVARIANT (1b): dividing `pre ++ data` continues the division of `pre`: if
    pre(x)·x^n = q(x)·g(x) + reg(x) then (pre ++ data)(x)·x^n = q'(x)·g(x) + reg'(x) for the new state. Holds in
    every commutative ring of characteristic 929, in particular as an identity of polynomials. -/
theorem run_inv (f : List Nat) (y : R) (data : List Nat) : ∀ (pre : List Nat) (st : List Nat × List Nat),
    f.length = st.1.length → 0 < st.1.length →
    evalZ pre y * y ^ f.length = evalZ st.2 y * gEval f y + evalZ st.1 y →
    evalZ (pre ++ data) y * y ^ f.length =
      evalZ (data.foldl (lfsrQ f) st).2 y * gEval f y + evalZ (data.foldl (lfsrQ f) st).1 y := by
  induction data with
  | nil => intro pre st _ _ h; simpa using h
  | cons v rest ih =>
    intro pre st hlen hpos h
    simp only [List.foldl_cons]
    have := ih (pre ++ [v]) (lfsrQ f st v)
      (by simp only [lfsrQ]; rw [lfsrStep_length f st.1 v hlen hpos]; exact hlen)
      (by simp only [lfsrQ]; rw [lfsrStep_length f st.1 v hlen hpos]; exact hpos)
      (by
        simp only [lfsrQ]
        rw [lfsrStep_eval f st.1 v y hlen hpos, evalZ_append, evalZ_append]
        simp only [List.length_singleton, evalZ_cons, evalZ_nil, List.length_nil]
        have h' : evalZ pre y * y ^ f.length = evalZ st.2 y * gEval f y + evalZ st.1 y := h
        calc (evalZ pre y * y ^ 1 + ((v : R) * y ^ 0 + 0)) * y ^ f.length
            = (evalZ pre y * y ^ f.length) * y + (v : R) * y ^ f.length := by ring
          _ = _ := by rw [h']; ring)
    simpa using this

end generic

/-! ### `Compute` -/

/-- certificate: there are nine levels and level k has 2^(k+1) factors -/
theorem factors_length_cert :
    v_correctionFactors.length = 9 ∧ (List.range 9).all (fun k => (factorsOf k).length == 2 ^ (k + 1)) = true := by
  decide +kernel

theorem factorsOf_length (level : Nat) (h : level ≤ 8) : (factorsOf level).length = 2 ^ (level + 1) := by
  have := List.all_eq_true.mp factors_length_cert.2 level (List.mem_range.mpr (by omega))
  simpa using this

theorem eccCount_eq (level : Nat) : errorCorrectionWordCount level = 2 ^ (level + 1) := by
  simp [errorCorrectionWordCount, Nat.shiftLeft_eq]

/-- the outer loop of `Compute` is a fold of `lfsrStep` and never panics -/
theorem compute_go_eq (f : List Nat) (n : Nat) (hf : f.length = n) (hn : 0 < n) :
    ∀ (data reg : List Nat), reg.length = n →
    compute.go f.toArray n data reg.toArray = .ok (data.foldl (lfsrStep f) reg).toArray := by
  intro data
  induction data with
  | nil => intro reg _; rfl
  | cons v rest ih =>
    intro reg hr
    unfold compute.go
    have := computeStep_eq f reg v (by omega) (by omega)
    rw [hr] at this
    rw [this]
    simp only [List.foldl_cons]
    exact ih _ (by rw [lfsrStep_length f reg v (by omega) (by omega)]; exact hr)

/-- the check words `Compute` returns: the negated final register -/
def checkWords (level : Nat) (data : List Nat) : List Nat :=
  (data.foldl (lfsrStep (factorsOf level)) (List.replicate (2 ^ (level + 1)) 0)).map
    (fun word => if word > 0 then 929 - word else word)

/-- `Compute` for the levels 0..8 never fails and returns `checkWords` -/
theorem compute_eq (level : Nat) (h : level ≤ 8) (data : List Nat) :
    compute level data = .ok (checkWords level data) := by
  have hlen := factors_length_cert.1
  have hget : v_correctionFactors[level]? = some (v_correctionFactors.getD level []) := by
    rw [List.getD_eq_getElem?_getD, List.getElem?_eq_getElem (by omega)]; rfl
  have hpos : 0 < 2 ^ (level + 1) := Nat.pow_pos (by omega)
  unfold compute
  simp only [hget, eccCount_eq]
  have e : Array.replicate (2 ^ (level + 1)) 0 = (List.replicate (2 ^ (level + 1)) 0).toArray := by simp
  have := compute_go_eq (factorsOf level) (2 ^ (level + 1)) (factorsOf_length level h) hpos data
    (List.replicate (2 ^ (level + 1)) 0) (by simp)
  unfold factorsOf at this
  rw [e, this]
  rfl

theorem checkWords_length (level : Nat) (h : level ≤ 8) (data : List Nat) :
    (checkWords level data).length = 2 ^ (level + 1) := by
  have hpos : 0 < 2 ^ (level + 1) := Nat.pow_pos (by omega)
  unfold checkWords
  rw [List.length_map, run_length _ _ _ (by simp [factorsOf_length level h]) (by simp)]
  simp

theorem checkWords_lt (level : Nat) (data : List Nat) : ∀ c ∈ checkWords level data, c < 929 := by
  intro c hc
  unfold checkWords at hc
  obtain ⟨w, _, rfl⟩ := List.mem_map.mp hc
  split <;> omega

section generic
variable {R : Type} [CommRing R] [CharP R 929]

omit [CharP R 929] in
theorem evalZ_replicate_zero (n : Nat) (y : R) : evalZ (List.replicate n 0) y = 0 := by
  induction n with
  | zero => rfl
  | succ n ih => rw [List.replicate_succ, evalZ_cons, ih]; simp

theorem evalZ_neg (reg : List Nat) (y : R) (h : ∀ x ∈ reg, x < 929) :
    evalZ (reg.map (fun word => if word > 0 then 929 - word else word)) y = - evalZ reg y := by
  induction reg with
  | nil => simp [evalZ_nil]
  | cons a rest ih =>
    rw [List.map_cons, evalZ_cons, evalZ_cons, ih (fun x hx => h x (List.mem_cons_of_mem _ hx)), List.length_map]
    have ha := h a List.mem_cons_self
    have : (((if a > 0 then 929 - a else a : Nat)) : R) = - (a : R) := by
      split
      · rw [Nat.cast_sub (by omega)]; push_cast; rw [c929]; ring
      · have : a = 0 := by omega
        subst this; simp
    rw [this]; ring

omit [CharP R 929] in
theorem evalLowZ_append_one (f : List Nat) (y : R) : evalLowZ (f ++ [1]) y = gEval f y := by
  unfold gEval
  induction f with
  | nil => simp [evalLowZ]
  | cons a rest ih =>
    simp only [evalLowZ, List.cons_append, List.foldr_cons, List.length_cons] at ih ⊢
    rw [ih]; ring

/-- (1b) THE DIVISION IDENTITY: with q the quotient digits and T the final register of the LFSR,
    data(y)·y^n = q(y)·g(y) + T(y) in every commutative ring of characteristic 929 (for `R = (ZMod 929)[X]`,
    `y = X` this says: T is the remainder of data(x)·x^n modulo the monic g, since T has n coefficients), and
    the check words are −T -/
theorem compute_division (level : Nat) (h : level ≤ 8) (data : List Nat) (y : R) :
    ∃ q T : List Nat, T.length = 2 ^ (level + 1) ∧ (∀ x ∈ T, x < 929) ∧
      checkWords level data = T.map (fun word => if word > 0 then 929 - word else word) ∧
      evalZ data y * y ^ (2 ^ (level + 1)) = evalZ q y * gEval (factorsOf level) y + evalZ T y ∧
      evalZ (checkWords level data) y = - evalZ T y := by
  have hpos : 0 < 2 ^ (level + 1) := Nat.pow_pos (by omega)
  have hfl := factorsOf_length level h
  have hinv := run_inv (factorsOf level) y data [] (List.replicate (2 ^ (level + 1)) 0, [])
    (by simp [hfl]) (by simp) (by simp [evalZ_nil, evalZ_replicate_zero])
  rw [lfsrQ_fst, List.nil_append, hfl] at hinv
  have hlt := run_lt (factorsOf level) data (List.replicate (2 ^ (level + 1)) 0)
    (by intro x hx; rw [(List.mem_replicate.mp hx).2]; omega)
  refine ⟨_, _, ?_, hlt, rfl, hinv, evalZ_neg _ y hlt⟩
  rw [run_length _ _ _ (by simp [hfl]) (by simp)]
  simp

/-- data followed by its check words vanishes wherever g does -/
theorem codeword_root (level : Nat) (h : level ≤ 8) (data : List Nat) (y : R)
    (hy : gEval (factorsOf level) y = 0) : evalZ (data ++ checkWords level data) y = 0 := by
  obtain ⟨q, T, _, _, _, hdiv, hneg⟩ := compute_division level h data y
  rw [evalZ_append, checkWords_length level h, hdiv, hneg, hy]
  ring

/-- g_level vanishes at 3^1 … 3^(2^(level+1)) (product form + certificate (1a)) -/
theorem gEval_root (level : Nat) (h : level ≤ 8) (i : Nat) (hi : i < 2 ^ (level + 1)) :
    gEval (factorsOf level) ((3 : R) ^ (i + 1)) = 0 := by
  rw [← evalLowZ_append_one, factors_eq_genPoly level h]
  exact genPoly_root _ i hi

end generic

/-- (C04 / C12) for every level 0..8 and every data sequence of codewords < 929, `Compute` returns
    2^(level+1) check words < 929 and data ++ check words is a Reed–Solomon codeword in the sense of
    ISO/IEC 15438 (`Spec.RS.valid929`: zero at 3^1 … 3^k) -/
theorem compute_valid (level : Nat) (h : level ≤ 8) (data : List Nat) (hd : ∀ d ∈ data, d < 929) :
    ∃ ec, compute level data = .ok ec ∧ ec.length = 2 ^ (level + 1) ∧ (∀ c ∈ ec, c < 929) ∧
      valid929 (2 ^ (level + 1)) (data ++ ec) = true := by
  refine ⟨_, compute_eq level h data, checkWords_length level h data, checkWords_lt level data, ?_⟩
  unfold valid929
  rw [Bool.and_eq_true, List.all_eq_true, List.all_eq_true]
  constructor
  · intro i hi
    rw [List.mem_range] at hi
    rw [beq_iff_eq, evalMod_eq_zero_iff, powMod_cast]
    have := codeword_root (R := F) level h data ((3 : F) ^ (i + 1)) (gEval_root level h i hi)
    exact_mod_cast this
  · intro x hx
    rcases List.mem_append.mp hx with hx | hx
    · simpa using hd x hx
    · simpa using checkWords_lt level data x hx

end BV.Proofs.PdfRS
