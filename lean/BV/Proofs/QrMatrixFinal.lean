/-
  QR matrix layer, part 7: what `render` returns passes the reference decoder.
  `render_decodes`: for a row `vi` of the version table and a codeword sequence `data` with the block structure of
  the standard (right length, codewords < 256, every de-interleaved block a Reed–Solomon codeword), the bitmap
  `render` returns — whichever mask the penalty rule selects — is accepted by `Spec.Qr.decode` with version
  `vi.version`, level `vi.level`, the selected mask, and the parse of the data bit stream of `data`.
-/
import BV.Proofs.QrMatrixData
import BV.Proofs.QrMatrixDecode
import BV.Proofs.QrMatrixCount
namespace BV.Proofs.QrMatrix
open BV BV.Model BV.Model.Qr BV.Gen.Qr BV.Proofs.QrTables BV.Proofs.QrRender BV.Proofs.QrCoords
open BV.Proofs.QrBlocks

/-- the free modules of the walk after the function patterns -/
def dataPos (vi : VersionInfo) : List (Nat × Nat) :=
  (walk vi.modulWidth).filter (fun p => !(drawnP vi).occ p.1 p.2)

/-- the picture of result `mask` after the data loop -/
def finalPic (vi : VersionInfo) (data : List Nat) (mask : Nat) : Nat → Nat → Bool :=
  foldUpd (writeCells (dataBit data) mask (dataPos vi) 0) ((drawnP vi).res mask)

/-- the bitmap `render` returns shows `finalPic` for the selected mask, which is one of 0..7 -/
theorem render_pic (vi : VersionInfo) (hmem : vi ∈ versionInfos) (data : List Nat) (color : Scheme) (r : QRCode)
    (mask : Nat) (hr : renderWithMask data vi color = .ok (r, mask)) :
    mask < 8 ∧ r.dimension = vi.modulWidth ∧
    ∀ X Y, X < vi.modulWidth → Y < vi.modulWidth → r.get X Y = finalPic vi data mask X Y := by
  have g := geo_of_mem hmem
  obtain ⟨s1, _, _, s4⟩ := renderWithMask_size data vi color r mask hr
  refine ⟨s4, s1, ?_⟩
  rw [renderWithMask_eq] at hr
  have hm := selectMask_mem _ _ _ _ hr
  have hrep := drawn_rep vi hmem color
  rw [g.hdim] at hrep
  have hw := written_rep color vi.version g.h1 data _ _ hrep
  rw [← g.hdim] at hw
  intro X Y hX hY
  have := hw.2.2 mask X Y s4 hX hY
  unfold resV at this
  rw [hm] at this
  exact this

section
variable (vi : VersionInfo) (hmem : vi ∈ versionInfos) (data : List Nat) (mask : Nat)

/-- occupied modules are not data positions -/
theorem not_mem_dataPos (X Y : Nat) (h : (drawnP vi).occ X Y = true) : (X, Y) ∉ dataPos vi := by
  unfold dataPos
  intro hm
  have := (List.mem_filter.mp hm).2
  simp only [h, Bool.not_true] at this
  cases this

/-- function modules are not touched by the data loop -/
theorem finalPic_fn (X Y : Nat) (h : (drawnP vi).occ X Y = true) :
    finalPic vi data mask X Y = (drawnP vi).res mask X Y :=
  write_frame _ _ _ _ _ X Y (not_mem_dataPos vi X Y h)

include hmem

/-- which modules are occupied after the function patterns, in elementary terms -/
theorem occ_true (X Y : Nat) (hX : X < vi.modulWidth) (hY : Y < vi.modulWidth)
    (h : (X ≤ 8 ∧ Y ≤ 8) ∨ (vi.modulWidth - 8 ≤ X ∧ Y ≤ 8) ∨ (X ≤ 8 ∧ vi.modulWidth - 8 ≤ Y) ∨ X = 6 ∨ Y = 6 ∨
      alignP vi X Y ∨
      (vi.version ≥ 7 ∧ ((vi.modulWidth - 11 ≤ X ∧ X ≤ vi.modulWidth - 9 ∧ Y ≤ 5) ∨
        (X ≤ 5 ∧ vi.modulWidth - 11 ≤ Y ∧ Y ≤ vi.modulWidth - 9)))) :
    (drawnP vi).occ X Y = true := by
  rw [drawn_occ hmem X Y hX hY, isFn_iff, alignAt_iff]
  exact h

/-- the data positions are pairwise distinct -/
theorem dataPos_nodup : (dataPos vi).Nodup := by
  have g := geo_of_mem hmem
  unfold dataPos
  rw [g.hdim]
  exact List.Pairwise.sublist List.filter_sublist (walk_nodup vi.version g.h1)

/-- the data positions lie inside the symbol -/
theorem dataPos_range : ∀ p ∈ dataPos vi, p.1 < vi.modulWidth ∧ p.2 < vi.modulWidth := by
  have g := geo_of_mem hmem
  intro p hp
  unfold dataPos at hp
  have := (List.mem_filter.mp hp).1
  rw [g.hdim] at this ⊢
  exact walk_range vi.version g.h1 p this

/-- the data positions are the reference decoder's data modules: the walk without the function map -/
theorem dataPos_eq_spec :
    (walk vi.modulWidth).filter (fun p =>
      !(Spec.Qr.functionMap vi.modulWidth vi.version
          (Spec.Qr.alignmentPositions vi.alignmentPatternPlacements)).getD (p.2 * vi.modulWidth + p.1) true) =
    dataPos vi := by
  have g := geo_of_mem hmem
  unfold dataPos
  apply List.filter_congr
  intro p hp
  have hr : p.1 < vi.modulWidth ∧ p.2 < vi.modulWidth := by
    rw [g.hdim] at hp ⊢
    exact walk_range vi.version g.h1 p hp
  rw [functionMap_getD _ _ _ g.d21 _ _ _ hr.1 hr.2, drawn_occ hmem _ _ hr.1 hr.2]
  intro q hq
  have gq := aligns_geo g q hq
  omega

/-- number of data modules: `8·total` plus fewer than 8 remainder bits -/
theorem dataPos_length (ec : Nat) (lens : List Nat) (hiso : isoBlocks vi.version vi.level = some (ec, lens)) :
    8 * (lens.foldl (· + ·) 0 + lens.length * ec) ≤ (dataPos vi).length ∧
    (dataPos vi).length < 8 * (lens.foldl (· + ·) 0 + lens.length * ec) + 8 := by
  have g := geo_of_mem hmem
  have := dataModuleCount vi.version vi.level g.h1 g.h40 g.lvl _ g.hcs ec lens hiso
  simp only at this
  rw [← g.hdim] at this
  have e : (walk vi.modulWidth).filter (fun p => !isFn vi.modulWidth vi.version
        (Spec.Qr.alignmentPositions vi.alignmentPatternPlacements) p.1 p.2) = dataPos vi := by
    unfold dataPos
    apply List.filter_congr
    intro p hp
    have hr : p.1 < vi.modulWidth ∧ p.2 < vi.modulWidth := by
      rw [g.hdim] at hp ⊢
      exact walk_range vi.version g.h1 p hp
    rw [drawn_occ hmem _ _ hr.1 hr.2]
  rw [e] at this
  exact this

/-- the bit stream the reference decoder reads from a picture that agrees with `finalPic` inside the symbol:
    the codewords, most significant bit first, then zero remainder bits -/
theorem decBits_eq (dark : Nat → Nat → Bool)
    (hdark : ∀ X Y, X < vi.modulWidth → Y < vi.modulWidth → dark X Y = finalPic vi data mask X Y)
    (hN : 8 * data.length ≤ (dataPos vi).length) :
    decBits vi.modulWidth vi.version vi.alignmentPatternPlacements dark mask =
      (data.flatMap (fun c => msbBits c 8) ++
        List.replicate ((dataPos vi).length - 8 * data.length) false).toArray := by
  rw [← Array.toList_inj]
  unfold decBits
  rw [readDataBits_eq, dataPos_eq_spec vi hmem]
  have e : (dataPos vi).map (fun p => dark p.1 p.2 != Spec.Qr.maskCond mask p.2 p.1) =
      (dataPos vi).map (fun p => foldUpd (writeCells (dataBit data) mask (dataPos vi) 0) ((drawnP vi).res mask)
        p.1 p.2 != Spec.Qr.maskCond mask p.2 p.1) := by
    apply List.map_congr_left
    intro p hp
    have := dataPos_range vi hmem p hp
    rw [hdark p.1 p.2 this.1 this.2]
    rfl
  rw [e, readback _ _ _ (dataPos_nodup vi hmem), dataBits_eq data _ hN]

end

/-- reading the codewords back from the bit stream -/
theorem decCw_eq (data : List Nat) (h256 : ∀ c ∈ data, c < 256) (post : List Bool) :
    decCw (data.flatMap (fun c => msbBits c 8) ++ post).toArray data.length = data.toArray := by
  unfold decCw
  congr 1
  apply List.ext_getElem
  · simp
  · intro i h1 h2
    simp only [List.length_map, List.length_range] at h1
    simp only [List.getElem_map, List.getElem_range]
    have := BV.Proofs.QrStream.readAt_flatMap data [] post i h1 h256
    simp only [List.nil_append, List.length_nil, Nat.zero_add] at this
    rw [BV.Proofs.QrStream.bitsToNatAt_eq, this, List.getD_eq_getElem?_getD, List.getElem?_eq_getElem h1,
      Option.getD_some]

/-- **The matrix layer.**  A codeword sequence with the block structure of the standard for the row `vi`, drawn by
    `render` with whichever mask it selects, is accepted by the reference decoder: all function patterns, both
    format and version words, the module count, zero remainder bits, the block lengths and Reed–Solomon checks
    pass, and the result reports the version, the level, the selected mask and the parse of the data bits. -/
theorem render_decodes (vi : VersionInfo) (hmem : vi ∈ versionInfos) (data : List Nat) (color : Scheme)
    (r : QRCode) (mask : Nat) (hr : renderWithMask data vi color = .ok (r, mask))
    (ec : Nat) (lens : List Nat) (hiso : isoBlocks vi.version vi.level = some (ec, lens))
    (hlen : data.length = lens.foldl (· + ·) 0 + lens.length * ec) (h256 : ∀ c ∈ data, c < 256)
    (hL : ((Spec.Qr.deinterleave data.toArray lens ec).zip lens).all
      (fun (p : List Nat × Nat) => p.1.length == p.2 + ec) = true)
    (hRS : (Spec.Qr.deinterleave data.toArray lens ec).all (fun b => Spec.RS.qrField.valid 0 ec b) = true)
    (p : Spec.Qr.Parsed)
    (hparse : Spec.Qr.parseSegments vi.version (decDataBits (Spec.Qr.deinterleave data.toArray lens ec) lens)
      ((decDataBits (Spec.Qr.deinterleave data.toArray lens ec) lens).size / 4 + 2) 0 [] [] = .ok p) :
    mask < 8 ∧ r.dimension = vi.modulWidth ∧
    Spec.Qr.decode vi.modulWidth vi.modulWidth (fun x y => r.get x y) = .ok
      { version := vi.version, level := vi.level, mask := mask, modes := p.modes, numBlocks := lens.length,
        ecPerBlock := ec, dataCodewords := lens.foldl (· + ·) 0, totalCodewords := data.length,
        remainderBits := (dataPos vi).length - 8 * data.length,
        terminatorBits := p.terminatorBits, padCodewords := p.padCodewords, content := p.content } := by
  have g := geo_of_mem hmem
  have hd := g.d21
  obtain ⟨hm8, hdimr, hpic⟩ := render_pic vi hmem data color r mask hr
  refine ⟨hm8, hdimr, ?_⟩
  -- colours of the function modules
  have hfn : ∀ X Y, X < vi.modulWidth → Y < vi.modulWidth → (drawnP vi).occ X Y = true →
      r.get X Y = (drawnP vi).res mask X Y := by
    intro X Y hX hY ho
    rw [hpic X Y hX hY, finalPic_fn vi data mask X Y ho]
  obtain ⟨hN1, hN2⟩ := dataPos_length vi hmem ec lens hiso
  rw [← hlen] at hN1 hN2
  have hbits := decBits_eq vi hmem data mask (fun x y => r.get x y) hpic hN1
  obtain ⟨fl, fv, _, flev, fmask⟩ := formatInfos_bch vi.level mask g.lvl (by omega)
  have hsz : (decBits vi.modulWidth vi.version vi.alignmentPatternPlacements (fun x y => r.get x y) mask).size =
      (dataPos vi).length := by
    rw [hbits]
    simp only [List.size_toArray, List.length_append, List.length_replicate,
      BV.Proofs.QrStream.length_flatMap_msbBits8]
    omega
  have hfinal := decode_ok vi.modulWidth vi.version (fun x y => r.get x y) vi.alignmentPatternPlacements vi.level mask
    ec lens (bitsToNat (formatInfoOf vi.level mask))
    (match mapGet v_versionInfoBitsByVersion (vi.version : Int) with | some bits => bitsToNat bits | none => 0) p
    g.hdim g.h1 g.h40 ?hF1 ?hF2 ?hF3 g.hcs ?hA ?hT ?hD ?hV ?hFa ?hFb fv flev fmask hiso data.length hlen ?hsize ?hrem
    (Spec.Qr.deinterleave data.toArray lens ec) ?hblocks hL hRS hparse
  · rw [hfinal, hsz]
  case hF1 =>
    apply checkFinder_intro
    intro dx dy h1 h2 h3 h4 h5 h6 h7 h8
    rw [hfn _ _ (by omega) (by omega) (occ_true vi hmem _ _ (by omega) (by omega) (by omega)),
      drawn_finder hmem mask hm8 0 0 (Or.inl ⟨rfl, rfl⟩) dx dy h1 h2 h3 h4 h5 h6 h7 h8,
      finderModule_eq dx dy h1 h2 h3 h4]
    rfl
  case hF2 =>
    apply checkFinder_intro
    intro dx dy h1 h2 h3 h4 h5 h6 h7 h8
    rw [hfn _ _ (by omega) (by omega) (occ_true vi hmem _ _ (by omega) (by omega) (by omega)),
      drawn_finder hmem mask hm8 (vi.modulWidth - 7) 0 (Or.inr (Or.inl ⟨rfl, rfl⟩)) dx dy h1 h2 h3 h4 h5 h6 h7 h8,
      finderModule_eq dx dy h1 h2 h3 h4]
    rfl
  case hF3 =>
    apply checkFinder_intro
    intro dx dy h1 h2 h3 h4 h5 h6 h7 h8
    rw [hfn _ _ (by omega) (by omega) (occ_true vi hmem _ _ (by omega) (by omega) (by omega)),
      drawn_finder hmem mask hm8 0 (vi.modulWidth - 7) (Or.inr (Or.inr ⟨rfl, rfl⟩)) dx dy h1 h2 h3 h4 h5 h6 h7 h8,
      finderModule_eq dx dy h1 h2 h3 h4]
    rfl
  case hA =>
    rw [List.all_eq_true]
    intro q hq
    have gq := aligns_geo g q hq
    apply checkAlignment_intro _ _ _ (by omega) (by omega)
    intro a b h1 h2 h3 h4
    have hAP : alignP vi ((q.1 : Int) + a).toNat ((q.2 : Int) + b).toNat := ⟨q, hq, by omega⟩
    obtain ⟨_, _, _, _, hX, hY⟩ := align_disjoint g _ _ hAP
    rw [hfn _ _ hX hY (occ_true vi hmem _ _ hX hY (Or.inr (Or.inr (Or.inr (Or.inr (Or.inr (Or.inl hAP))))))),
      drawn_align hmem mask hm8 q hq a b h1 h2 h3 h4]
    rfl
  case hT =>
    apply timing_intro
    intro k hk8 hk
    rw [hfn _ _ (by omega) (by omega) (occ_true vi hmem _ _ (by omega) (by omega) (by omega)),
      hfn _ _ (by omega) (by omega) (occ_true vi hmem _ _ (by omega) (by omega) (by omega))]
    exact drawn_timing hmem mask hm8 k hk8 hk
  case hD =>
    rw [hfn _ _ (by omega) (by omega) (occ_true vi hmem _ _ (by omega) (by omega) (by omega))]
    exact drawn_dark hmem mask hm8
  case hV =>
    intro h7
    obtain ⟨bits, hb, hl, hvalid, hver⟩ := versionInfoBits_bch vi.version h7 g.h40
    rw [hb]
    simp only
    refine ⟨?_, ?_, hvalid, hver⟩
    · rw [← hl]
      apply readWord_eq_bitsToNat
      intro j hj
      rw [hl] at hj
      obtain ⟨_, a2⟩ := verIdx_posA vi.modulWidth j hd hj
      unfold verRegionP at a2
      rw [hfn _ _ (by omega) (by omega) (occ_true vi hmem _ _ (by omega) (by omega) (by omega)),
        (drawn_version hmem mask hm8 bits hb hl j hj).1, hl]
    · rw [← hl]
      apply readWord_eq_bitsToNat
      intro j hj
      rw [hl] at hj
      obtain ⟨_, a2⟩ := verIdx_posB vi.modulWidth j hd hj
      unfold verRegionP at a2
      rw [hfn _ _ (by omega) (by omega) (occ_true vi hmem _ _ (by omega) (by omega) (by omega)),
        (drawn_version hmem mask hm8 bits hb hl j hj).2, hl]
  case hFa =>
    rw [← fl]
    apply readWord_eq_bitsToNat
    intro j hj
    rw [fl] at hj
    obtain ⟨_, a2, a3, a4⟩ := fmtIdx_posA vi.modulWidth j hd hj
    unfold fmtRegionP at a2
    rw [hfn _ _ a3 a4 (occ_true vi hmem _ _ a3 a4 (by omega)), (drawn_format hmem mask hm8 j hj).1, fl]
  case hFb =>
    rw [← fl]
    apply readWord_eq_bitsToNat
    intro j hj
    rw [fl] at hj
    obtain ⟨_, a2, a3, a4⟩ := fmtIdx_posB vi.modulWidth j hd hj
    unfold fmtRegionP at a2
    rw [hfn _ _ a3 a4 (occ_true vi hmem _ _ a3 a4 (by omega)), (drawn_format hmem mask hm8 j hj).2, fl]
  case hsize =>
    rw [hsz]; exact ⟨hN1, hN2⟩
  case hrem =>
    rw [List.all_eq_true]
    intro i hi
    rw [List.mem_range, hsz] at hi
    rw [hbits]
    simp only [Array.getD_eq_getD_getElem?, List.getElem?_toArray]
    rw [List.getElem?_append_right (by rw [BV.Proofs.QrStream.length_flatMap_msbBits8]; omega),
      List.getElem?_replicate]
    split <;> rfl
  case hblocks =>
    rw [hbits, decCw_eq data h256]

end BV.Proofs.QrMatrix
