/-
  Unfolding lemmas for the symbolic placement run (`BV.Proofs.DmSym`), shared by the two simulation proofs.
-/
import BV.Proofs.DmSym
namespace BV.Proofs.DmSym

/-! ### unfolding lemmas shared by the two simulation proofs -/

theorem testBit_set (m i j : Nat) : (m ||| (1 <<< i)).testBit j = (m.testBit j || decide (i = j)) := by
  rw [Nat.testBit_or, Nat.one_shiftLeft, Nat.testBit_two_pow]

/-- unfolding of the symbolic `set` -/
theorem PS.set_some {nrow ncol : Nat} {st st' : PS} {row col : Int} {tag : Nat}
    (h : st.set nrow ncol row col tag = some st') :
    ∃ i : Nat, (wrap nrow ncol row col).2 + (wrap nrow ncol row col).1 * (ncol : Int) = (i : Int) ∧
      i < nrow * ncol ∧ st.occ.testBit i = false ∧
      st' = { occ := st.occ ||| (1 <<< i), log := (i, tag) :: st.log } := by
  unfold PS.set at h
  simp only at h
  split at h
  · rename_i i hi
    split at h
    · rename_i hlt
      split at h
      · cases h
      · rename_i hb
        refine ⟨i, by rw [hi]; rfl, hlt, by simpa using hb, ?_⟩
        cases h; rfl
    · cases h
  · cases h

/-- non-negative coordinates are not wrapped -/
theorem wrap_nonneg (nrow ncol : Nat) (row col : Int) (hr : 0 ≤ row) (hc : 0 ≤ col) :
    wrap nrow ncol row col = (row, col) := by
  unfold wrap
  have h1 : ¬ row < 0 := by omega
  have h2 : ¬ col < 0 := by omega
  simp only [h1, if_false, h2]

section
variable {nrow ncol ncw : Nat}

theorem last_index (hr : 2 ≤ nrow) (hc : 2 ≤ ncol) :
    ((ncol : Int) - 1) + ((nrow : Int) - 1) * (ncol : Int) = ((nrow * ncol - 1 : Nat) : Int) ∧
    ((ncol : Int) - 2) + ((nrow : Int) - 2) * (ncol : Int) = ((nrow * ncol - 1 - ncol - 1 : Nat) : Int) ∧
    ncol + 2 ≤ nrow * ncol := by
  have h1 : 2 * ncol ≤ nrow * ncol := Nat.mul_le_mul_right ncol hr
  have e : ((nrow * ncol : Nat) : Int) = (nrow : Int) * (ncol : Int) := Int.natCast_mul _ _
  rw [Int.sub_mul, Int.sub_mul]
  generalize hp : (nrow : Int) * (ncol : Int) = p at *
  generalize hq : nrow * ncol = q at *
  refine ⟨by omega, by omega, by omega⟩

/-- what `run` has checked when it answers `some` -/
theorem run_some {st : PS} (h : run nrow ncol ncw = some st) :
    2 ≤ nrow ∧ 2 ≤ ncol ∧ ∃ st0 : PS,
      DmSym.mainLoop nrow ncol ncw (nrow + ncol) ({ occ := 0, log := [] }, 0, 4, 0) = some (st0, ncw) ∧
      st0.log.length = 8 * ncw ∧
      ((st0.occ.testBit (nrow * ncol - 1) = true ∧ st0.log.length = nrow * ncol ∧ st = st0) ∨
       (st0.occ.testBit (nrow * ncol - 1) = false ∧ st0.log.length + 4 = nrow * ncol ∧
        st0.occ.testBit (nrow * ncol - 1 - 1) = false ∧ st0.occ.testBit (nrow * ncol - 1 - ncol) = false ∧
        st0.occ.testBit (nrow * ncol - 1 - ncol - 1) = false ∧
        ∃ st1, st0.set nrow ncol ((nrow : Int) - 1) ((ncol : Int) - 1) 1 = some st1 ∧
          st1.set nrow ncol ((nrow : Int) - 2) ((ncol : Int) - 2) 1 = some st)) := by
  unfold run at h
  split at h
  · cases h
  · rename_i hsz
    split at h
    · cases h
    · rename_i st0 idx hml
      simp only at h
      split at h
      · cases h
      · rename_i hchk
        have hidx : idx = ncw := by omega
        subst hidx
        refine ⟨by omega, by omega, st0, hml, by omega, ?_⟩
        split at h
        · rename_i hb
          split at h
          · rename_i hlen
            cases h
            exact Or.inl ⟨hb, hlen, rfl⟩
          · cases h
        · rename_i hb
          split at h
          · rename_i hc
            simp only [Bool.not_eq_true'] at hc
            split at h
            · cases h
            · rename_i st1 hs1
              exact Or.inr ⟨by simpa using hb, hc.1, hc.2.1, hc.2.2.1, hc.2.2.2, st1, hs1, h⟩
          · cases h

end

end BV.Proofs.DmSym
