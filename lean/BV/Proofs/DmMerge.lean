/-
  C02 item 7: `CodeLayout.merge` against its symbolic run (`DmMergeSym.mergeSym`): whenever the symbolic merge
  answers `some log`, `Merge` does not panic and every bit of the image is the source the log records for it
  (the constant `true`, a cell of the mapping matrix, or — never written — `false`).
-/
import BV.Proofs.DmMergeSym
namespace BV.Proofs.DmMerge
open BV BV.Model BV.Model.Datamatrix BV.Proofs.DmMergeSym

/-- newest-first lookup of the source recorded for a bit (0 = never written) -/
def srcAt : MLog → Nat → Nat
  | [], _ => 0
  | (j, t) :: rest, i => if j = i then t else srcAt rest i

/-- the value a source stands for -/
def evalSrc (mat : Array Bool) (src : Nat) : Bool :=
  if src = 0 then false else if src = 1 then true else mat.getD (src - 2) false

def cap (n : Nat) : Nat := 32 * ((n + 31) / 32)
theorem le_cap (n : Nat) : n ≤ cap n := by unfold cap; omega

/-- the image under construction against the log -/
structure RelB (s : CodeSize) (color : Scheme) (mat : Array Bool) (n : Nat) (c : DatamatrixCode) (log : MLog) : Prop where
  hsize : c.size = s
  hcolor : c.color = color
  hcontent : c.content = []
  hbits : ∀ i, c.bits[i]? = if i < cap n then some (evalSrc mat (srcAt log i)) else none

/-- generic simulation of a `foldlM` in `Res` by a `foldlM` in `Option` -/
theorem foldlM_sim {α β γ : Type} (R : α → β → Prop) (f : α → γ → Res α) (g : β → γ → Option β)
    (hfg : ∀ a b x b', R a b → g b x = some b' → ∃ a', f a x = .ok a' ∧ R a' b') :
    ∀ (xs : List γ) (a : α) (b b' : β), R a b → xs.foldlM g b = some b' →
      ∃ a', xs.foldlM f a = .ok a' ∧ R a' b' := by
  intro xs
  induction xs with
  | nil =>
    intro a b b' h hs
    simp only [List.foldlM_nil, pure, Option.some.injEq] at hs
    subst hs
    exact ⟨a, rfl, h⟩
  | cons x xs ih =>
    intro a b b' h hs
    simp only [List.foldlM_cons, bind, Option.bind_eq_some_iff] at hs
    obtain ⟨b1, h1, h2⟩ := hs
    obtain ⟨a1, m1, r1⟩ := hfg a b x b1 h h1
    obtain ⟨a', m2, r2⟩ := ih a1 b1 b' r1 h2
    refine ⟨a', ?_, r2⟩
    simp only [List.foldlM_cons, m1, bind, Except.bind]
    exact m2

section sim
variable {s : CodeSize} {color : Scheme} {mat : Array Bool} {n : Nat}

theorem set_sim (c : DatamatrixCode) (log log' : MLog) (x y : Int) (src : Nat) (v : Bool)
    (hv : evalSrc mat src = v) (h : RelB s color mat n c log)
    (hs : symSet n s.rows log x y src = some log') :
    ∃ c', c.set x y v = .ok c' ∧ RelB s color mat n c' log' := by
  unfold symSet at hs
  split at hs
  · rename_i i hi
    split at hs
    · rename_i hlt
      cases hs
      have hcap : i < cap n := Nat.lt_of_lt_of_le hlt (le_cap n)
      have hb := h.hbits i
      rw [if_pos hcap] at hb
      have hsz : i < c.bits.size := by
        rcases Nat.lt_or_ge i c.bits.size with h1 | h1
        · exact h1
        · rw [Array.getElem?_eq_none h1] at hb; cases hb
      refine ⟨{ c with bits := c.bits.setIfInBounds i v }, ?_, ⟨h.hsize, h.hcolor, h.hcontent, ?_⟩⟩
      · unfold DatamatrixCode.set setBit
        rw [h.hsize, hi]
        have h0 : (0 : Int) ≤ Int.ofNat i := Int.natCast_nonneg i
        have e : (Int.ofNat i).toNat = i := rfl
        simp only [h0, if_true, e, hsz, bind, Except.bind, pure, Except.pure,
          Array.set!_eq_setIfInBounds]
      · intro j
        simp only [Array.getElem?_setIfInBounds, srcAt]
        by_cases hij : i = j
        · subst hij; simp [hsz, hcap, hv]
        · simp [hij, h.hbits j]
    · cases hs
  · cases hs

theorem evalSrc_one : evalSrc mat 1 = true := by simp [evalSrc]

theorem lines_sim (swap : Bool) (outer inner : List Int) (c : DatamatrixCode) (log log' : MLog)
    (h : RelB s color mat n c log) (hs : symLines n s.rows log swap outer inner = some log') :
    ∃ c', c.setLines swap outer inner = .ok c' ∧ RelB s color mat n c' log' := by
  unfold symLines at hs
  unfold DatamatrixCode.setLines
  refine foldlM_sim (RelB s color mat n) _ _ ?_ outer c log log' h hs
  intro a b o b' hab ho
  refine foldlM_sim (RelB s color mat n) _ _ ?_ inner a b b' hab ho
  intro a b i b' hab hi
  cases swap with
  | true =>
    simp only [if_true] at hi ⊢
    exact set_sim a b b' o i 1 true evalSrc_one hab hi
  | false =>
    simp only [Bool.false_eq_true, if_false] at hi ⊢
    exact set_sim a b b' i o 1 true evalSrc_one hab hi

theorem symGet_sim (nm : Nat) (idx : Int) (src : Nat) (hmat : ∀ j, j < nm → j < mat.size)
    (hs : symGet nm idx = some src) :
    ∃ v, getBit mat idx = .ok v ∧ evalSrc mat src = v := by
  unfold symGet at hs
  split at hs
  · rename_i j
    split at hs
    · rename_i hlt
      cases hs
      have hsz := hmat j hlt
      refine ⟨mat[j], ?_, ?_⟩
      · unfold getBit
        have h0 : (0 : Int) ≤ Int.ofNat j := Int.natCast_nonneg j
        have e : (Int.ofNat j).toNat = j := rfl
        simp only [h0, if_true, e, hsz, dite_true]
      · unfold evalSrc
        have h1 : ¬ j + 2 = 0 := by omega
        have h2 : ¬ j + 2 = 1 := by omega
        simp [h2, Array.getD_eq_getD_getElem?, Array.getElem?_eq_getElem hsz]
    · cases hs
  · cases hs

/-- **`Merge` against the symbolic merge.** -/
theorem merge_of_sym (l : CodeLayout) (log : MLog)
    (hmat : ∀ j, j < (l.size.matrixColumns * l.size.matrixRows).toNat → j < l.matrix.size)
    (hs : mergeSym l.size = some log) :
    ∃ c, l.merge = .ok c ∧ RelB l.size l.color l.matrix (l.size.rows * l.size.columns).toNat c log := by
  unfold mergeSym at hs
  simp only at hs
  have h0 : RelB l.size l.color l.matrix (l.size.rows * l.size.columns).toNat
      (newDataMatrixCodeWithColor l.size l.color) [] := by
    refine ⟨rfl, rfl, rfl, ?_⟩
    intro i
    simp only [newDataMatrixCodeWithColor, newBitList, Array.getElem?_replicate, cap, srcAt, evalSrc, if_true]
  split at hs
  · cases hs
  · rename_i log1 hs1
    split at hs
    · cases hs
    · rename_i log2 hs2
      split at hs
      · cases hs
      · rename_i log3 hs3
        split at hs
        · cases hs
        · rename_i log4 hs4
          obtain ⟨c1, m1, r1⟩ := lines_sim _ _ _ _ _ _ h0 hs1
          obtain ⟨c2, m2, r2⟩ := lines_sim _ _ _ _ _ _ r1 hs2
          obtain ⟨c3, m3, r3⟩ := lines_sim _ _ _ _ _ _ r2 hs3
          obtain ⟨c4, m4, r4⟩ := lines_sim _ _ _ _ _ _ r3 hs4
          unfold CodeLayout.merge
          simp only [m1, m2, m3, m4, bind, Except.bind]
          refine foldlM_sim (RelB l.size l.color l.matrix _) _ _ ?_ _ c4 log4 log r4 hs
          intro a b hRegion b' hab hh
          refine foldlM_sim (RelB l.size l.color l.matrix _) _ _ ?_ _ a b b' hab hh
          intro a b vRegion b' hab hv
          refine foldlM_sim (RelB l.size l.color l.matrix _) _ _ ?_ _ a b b' hab hv
          intro a b x b' hab hx
          refine foldlM_sim (RelB l.size l.color l.matrix _) _ _ ?_ _ a b b' hab hx
          intro a b y b' hab hy
          split at hy
          · cases hy
          · rename_i src hsrc
            obtain ⟨v, hv1, hv2⟩ := symGet_sim _ _ src hmat hsrc
            obtain ⟨c', mc, rc⟩ := set_sim a b b' _ _ src v hv2 hab hy
            refine ⟨c', ?_, rc⟩
            simp only [hv1]
            exact mc

end sim

/-! ### from the certificate to the conditions of the reference -/

theorem testBit_set (m i j : Nat) : (m ||| (1 <<< i)).testBit j = (m.testBit j || decide (i = j)) := by
  rw [Nat.testBit_or, Nat.one_shiftLeft, Nat.testBit_two_pow]

/-- a log all of whose writes agree with `V`: every bit either shows `V` or was never written -/
theorem srcAt_spec (V : Nat → Nat) : ∀ (log : MLog) (m : Nat), (∀ p ∈ log, p.2 = V p.1) → ∀ i,
    srcAt log i = V i ∨ (srcAt log i = 0 ∧ (maskOf log m).testBit i = m.testBit i) := by
  intro log
  induction log with
  | nil => intro m _ i; exact Or.inr ⟨rfl, rfl⟩
  | cons e rest ih =>
    intro m h i
    obtain ⟨j, t⟩ := e
    simp only [srcAt, maskOf]
    by_cases hj : j = i
    · left
      rw [if_pos hj, ← hj]
      exact h (j, t) List.mem_cons_self
    · rw [if_neg hj]
      rcases ih (m ||| (1 <<< j)) (fun p hp => h p (List.mem_cons_of_mem _ hp)) i with h1 | ⟨h1, h2⟩
      · exact Or.inl h1
      · right
        refine ⟨h1, ?_⟩
        rw [h2, testBit_set]
        simp [hj]

structure CertFacts (s : CodeSize) (a : Spec.Datamatrix.Attr) (log : MLog) : Prop where
  hsym : mergeSym s = some log
  hsrc : ∀ i, i < a.size * a.size → srcAt log i = specSrc a i
  hframe : frameCert a = true
  hmap : mapCert a = true

theorem certFacts (s : CodeSize) (a : Spec.Datamatrix.Attr) (h : certOk s a = true) : ∃ log, CertFacts s a log := by
  unfold certOk at h
  split at h
  · cases h
  · rename_i log hlog
    simp only [Bool.and_eq_true, List.all_eq_true, beq_iff_eq, List.mem_range, Bool.or_eq_true] at h
    obtain ⟨⟨⟨h1, h2⟩, h3⟩, h4⟩ := h
    refine ⟨log, hlog, ?_, h3, h4⟩
    intro i hi
    rcases srcAt_spec (specSrc a) log 0 h1 i with e | ⟨e1, e2⟩
    · exact e
    · rcases h2 i hi with h5 | h5
      · rw [e2] at h5; simp at h5
      · rw [e1, h5]

end BV.Proofs.DmMerge
