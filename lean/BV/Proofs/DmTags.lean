/-
  Invariants of the symbolic placement run (C02 item 6): no cell is written twice, every written cell lies in
  the matrix, and the tags are written in codeword order, eight bits each — so a successful run assigns every
  (codeword, bit) pair to exactly one module.
-/
import BV.Proofs.DmSymL
namespace BV.Proofs.DmTags
open BV BV.Proofs.DmSym

/-! ### invariants of a symbolic state -/

/-- the occupancy mask marks exactly the logged cells; before the fixed pattern every logged cell is inside the
    matrix and carries a codeword tag; no cell is logged twice -/
structure LogInv (n : Nat) (st : PS) : Prop where
  occ : ∀ i, st.occ.testBit i = (tagAt st.log i != 0)
  tags : ∀ p ∈ st.log, p.1 < n ∧ 10 ≤ p.2
  nodup : (st.log.map Prod.fst).Nodup

theorem tagAt_of_not_mem (log : List (Nat × Nat)) (i : Nat) (h : i ∉ log.map Prod.fst) : tagAt log i = 0 := by
  induction log with
  | nil => rfl
  | cons p rest ih =>
    obtain ⟨j, t⟩ := p
    simp only [List.map_cons, List.mem_cons, not_or] at h
    simp only [tagAt, if_neg (Ne.symm h.1)]
    exact ih h.2

theorem tagAt_mem (log : List (Nat × Nat)) (i : Nat) (h : tagAt log i ≠ 0) : (i, tagAt log i) ∈ log := by
  induction log with
  | nil => exact absurd rfl h
  | cons p rest ih =>
    obtain ⟨j, t⟩ := p
    simp only [tagAt] at h ⊢
    by_cases hj : j = i
    · subst hj; simp
    · simp only [if_neg hj] at h ⊢
      exact List.mem_cons_of_mem _ (ih h)

theorem logInv_init (n : Nat) : LogInv n { occ := 0, log := [] } :=
  ⟨fun i => (by simp [tagAt]), fun p hp => (by cases hp), List.nodup_nil⟩

/-- a logged cell has a non-zero tag -/
theorem tagAt_ne_zero {n : Nat} {st : PS} (h : LogInv n st) (p : Nat × Nat) (hp : p ∈ st.log) :
    tagAt st.log p.1 ≠ 0 := by
  have hall := h.tags
  generalize st.log = log at hp hall
  induction log with
  | nil => cases hp
  | cons q rest ih =>
    obtain ⟨j, t⟩ := q
    simp only [tagAt]
    by_cases hj : j = p.1
    · have := (hall (j, t) List.mem_cons_self).2
      simp only [if_pos hj]; simp at this; omega
    · simp only [if_neg hj]
      rcases List.mem_cons.mp hp with e | e
      · exact absurd (by rw [e]) hj
      · exact ih e (fun q hq => hall q (List.mem_cons_of_mem _ hq))

theorem logInv_set {n : Nat} {st : PS} (h : LogInv n st) (i tag : Nat) (hi : i < n) (ht : 10 ≤ tag)
    (hfree : st.occ.testBit i = false) :
    LogInv n { occ := st.occ ||| (1 <<< i), log := (i, tag) :: st.log } := by
  refine ⟨?_, ?_, ?_⟩
  · intro j
    simp only [testBit_set, tagAt]
    by_cases hij : i = j
    · subst hij
      have : tag ≠ 0 := by omega
      simp [this]
    · simp [hij, h.occ j]
  · intro p hp
    rcases List.mem_cons.mp hp with rfl | hp
    · exact ⟨hi, ht⟩
    · exact h.tags p hp
  · simp only [List.map_cons, List.nodup_cons]
    refine ⟨?_, h.nodup⟩
    intro hmem
    obtain ⟨p, hp, rfl⟩ := List.mem_map.mp hmem
    have h1 := h.occ p.1
    rw [hfree] at h1
    -- the first entry for cell p.1 has a tag ≥ 10
    have : tagAt st.log p.1 ≠ 0 := by
      clear h1
      have hall := h.tags
      generalize st.log = log at hp hall
      induction log with
      | nil => cases hp
      | cons q rest ih =>
        obtain ⟨j, t⟩ := q
        simp only [tagAt]
        by_cases hj : j = p.1
        · have := (hall (j, t) List.mem_cons_self).2
          simp only [if_pos hj]; simp at this; omega
        · simp only [if_neg hj]
          rcases List.mem_cons.mp hp with e | e
          · exact absurd (by rw [e]) hj
          · exact ih e (fun q hq => hall q (List.mem_cons_of_mem _ hq))
    simp [this] at h1


/-! ### a generic invariant principle for the walk -/

section inv
variable {nrow ncol ncw : Nat}

/-- a property of (state, codeword counter) kept by every eight-module codeword step -/
def StepInv (nrow ncol ncw : Nat) (P : PS × Nat → Prop) : Prop :=
  ∀ (guard : Bool) (st : PS) (idx : Nat) (ps : List (Int × Int)) (r : PS × Nat), ps.length = 8 →
    P (st, idx) → DmSym.stepIf nrow ncol ncw guard (st, idx) ps = some r → P r

theorem place_inv {P : PS × Nat → Prop} (hP : StepInv nrow ncol ncw P) (inRange : Bool) (st : PS) (idx : Nat)
    (row col : Int) (r : PS × Nat) (h : P (st, idx))
    (hs : DmSym.place nrow ncol ncw inRange st idx row col = some r) : P r := by
  unfold DmSym.place at hs
  split at hs
  · split at hs
    · split at hs
      · split at hs
        · cases hs; exact h
        · exact hP true st idx (utahPos row col) r rfl h hs
      · cases hs
    · cases hs
  · cases hs; exact h

theorem sweepUp_inv {P : PS × Nat → Prop} (hP : StepInv nrow ncol ncw P) : ∀ (fuel : Nat) (w r : WS),
    P (w.1, w.2.1) → DmSym.sweepUp nrow ncol ncw fuel w = some r → P (r.1, r.2.1) := by
  intro fuel
  induction fuel with
  | zero => intro w r _ hs; simp [DmSym.sweepUp] at hs
  | succ fuel ih =>
    intro w r h hs
    obtain ⟨st, idx, row, col⟩ := w
    rw [DmSym.sweepUp] at hs
    split at hs
    · cases hs
    · rename_i st1 idx1 hp
      have h1 := place_inv hP _ st idx row col (st1, idx1) h hp
      simp only at hs
      split at hs
      · cases hs; exact h1
      · exact ih _ r h1 hs

theorem sweepDown_inv {P : PS × Nat → Prop} (hP : StepInv nrow ncol ncw P) : ∀ (fuel : Nat) (w r : WS),
    P (w.1, w.2.1) → DmSym.sweepDown nrow ncol ncw fuel w = some r → P (r.1, r.2.1) := by
  intro fuel
  induction fuel with
  | zero => intro w r _ hs; simp [DmSym.sweepDown] at hs
  | succ fuel ih =>
    intro w r h hs
    obtain ⟨st, idx, row, col⟩ := w
    rw [DmSym.sweepDown] at hs
    split at hs
    · cases hs
    · rename_i st1 idx1 hp
      have h1 := place_inv hP _ st idx row col (st1, idx1) h hp
      simp only at hs
      split at hs
      · cases hs; exact h1
      · exact ih _ r h1 hs

theorem round_inv {P : PS × Nat → Prop} (hP : StepInv nrow ncol ncw P) (w r : WS)
    (h : P (w.1, w.2.1)) (hs : DmSym.round nrow ncol ncw w = some r) : P (r.1, r.2.1) := by
  obtain ⟨st, idx, row, col⟩ := w
  unfold DmSym.round at hs
  simp only at hs
  split at hs
  · cases hs
  · rename_i s1 hs1
    split at hs
    · cases hs
    · rename_i s2 hs2
      split at hs
      · cases hs
      · rename_i s3 hs3
        split at hs
        · cases hs
        · rename_i s4 hs4
          split at hs
          · cases hs
          · split at hs
            · cases hs
            · rename_i st5 idx5 row5 col5 hs5
              split at hs
              · cases hs
              · split at hs
                · cases hs
                · rename_i st6 idx6 row6 col6 hs6
                  cases hs
                  have p1 := hP _ st idx _ s1 rfl h hs1
                  have p2 := hP _ s1.1 s1.2 _ s2 rfl p1 hs2
                  have p3 := hP _ s2.1 s2.2 _ s3 rfl p2 hs3
                  have p4 := hP _ s3.1 s3.2 _ s4 rfl p3 hs4
                  have p5 := sweepUp_inv hP _ (s4.1, s4.2, row, col) _ p4 hs5
                  exact sweepDown_inv hP _ (st5, idx5, row5 + 1, col5 + 3) (st6, idx6, row6, col6) p5 hs6

theorem mainLoop_inv {P : PS × Nat → Prop} (hP : StepInv nrow ncol ncw P) : ∀ (fuel : Nat) (w : WS) (r : PS × Nat),
    P (w.1, w.2.1) → DmSym.mainLoop nrow ncol ncw fuel w = some r → P r := by
  intro fuel
  induction fuel with
  | zero => intro w r _ hs; simp [DmSym.mainLoop] at hs
  | succ fuel ih =>
    intro w r h hs
    rw [DmSym.mainLoop] at hs
    split at hs
    · split at hs
      · cases hs
      · rename_i w' hround
        exact ih w' r (round_inv hP w w' h hround) hs
    · cases hs; exact h

end inv

/-! ### the tags are written in codeword order -/

/-- the tags of the log (newest first) after `idx` codewords: for every codeword its bits 1…8, in order -/
def tagsRev : Nat → List Nat
  | 0 => []
  | idx + 1 => ((List.range 8).map (fun b => 10 * (idx + 1) + (b + 1))).reverse ++ tagsRev idx

/-- the invariant of the walk: `LogInv` and the tag sequence -/
def WalkInv (n : Nat) (p : PS × Nat) : Prop := LogInv n p.1 ∧ p.1.log.map Prod.snd = tagsRev p.2

section tags
variable {nrow ncol ncw : Nat}

theorem shape_log (chr : Nat) (hchr : 1 ≤ chr) : ∀ (L : List ((Int × Int) × Nat)) (st st' : PS),
    LogInv (nrow * ncol) st → st.shape nrow ncol L chr = some st' →
    LogInv (nrow * ncol) st' ∧
      st'.log.map Prod.snd = (L.map (fun p => 10 * chr + (p.2 + 1))).reverse ++ st.log.map Prod.snd := by
  intro L
  induction L with
  | nil =>
    intro st st' hi hs
    simp only [PS.shape, List.foldlM_nil, pure, Option.some.injEq] at hs
    subst hs
    exact ⟨hi, by simp⟩
  | cons p L ih =>
    intro st st' hi hs
    simp only [PS.shape, List.foldlM_cons, bind, Option.bind_eq_some_iff] at hs
    obtain ⟨st1, h1, h2⟩ := hs
    obtain ⟨i, _, hlt, hfree, rfl⟩ := PS.set_some h1
    have hi1 := logInv_set hi i (10 * chr + (p.2 + 1)) hlt (by omega) hfree
    obtain ⟨hi', ht'⟩ := ih _ st' hi1 h2
    refine ⟨hi', ?_⟩
    rw [ht']
    simp

theorem walkInv_step : StepInv nrow ncol ncw (WalkInv (nrow * ncol)) := by
  intro guard st idx ps r hlen h hs
  unfold DmSym.stepIf at hs
  split at hs
  · split at hs
    · simp only [Option.map_eq_some_iff] at hs
      obtain ⟨s1, h1, rfl⟩ := hs
      obtain ⟨hi, ht⟩ := shape_log (idx + 1) (by omega) ps.zipIdx st s1 h.1 h1
      refine ⟨hi, ?_⟩
      show s1.log.map Prod.snd = tagsRev (idx + 1)
      rw [ht, h.2, tagsRev]
      congr 2
      have : ps.zipIdx.map (fun p => 10 * (idx + 1) + (p.2 + 1)) =
          (ps.zipIdx.map Prod.snd).map (fun b => 10 * (idx + 1) + (b + 1)) := by
        rw [List.map_map]; rfl
      rw [this, List.zipIdx_map_snd, hlen, List.range_eq_range']
    · cases hs
  · cases hs; exact h

/-- what a successful run guarantees about its log: cells pairwise distinct and inside the matrix, and the tags
    are exactly bits 1…8 of the codewords 1…`ncw` in order, followed (if the lower right corner stayed free) by
    the two dark modules of the fixed pattern -/
theorem run_inv {st : PS} (hrun : run nrow ncol ncw = some st) :
    (st.log.map Prod.fst).Nodup ∧ (∀ p ∈ st.log, p.1 < nrow * ncol) ∧
    (st.log.map Prod.snd = tagsRev ncw ∨ st.log.map Prod.snd = 1 :: 1 :: tagsRev ncw) := by
  obtain ⟨_, _, st0, hml, _, hfin⟩ := run_some hrun
  have h0 : WalkInv (nrow * ncol) (({ occ := 0, log := [] } : PS), 0) := ⟨logInv_init _, rfl⟩
  obtain ⟨hi, ht⟩ := mainLoop_inv walkInv_step _ (_, 0, 4, 0) _ h0 hml
  simp only at hi ht
  rcases hfin with ⟨_, _, rfl⟩ | ⟨_, _, _, _, _, st1, hs1, hs2⟩
  · exact ⟨hi.nodup, fun p hp => (hi.tags p hp).1, Or.inl ht⟩
  · obtain ⟨i1, _, hlt1, hfree1, rfl⟩ := PS.set_some hs1
    obtain ⟨i2, _, hlt2, hfree2, rfl⟩ := PS.set_some hs2
    simp only at hfree2
    have hne : i1 ≠ i2 := by
      intro e
      rw [testBit_set, e] at hfree2
      simp at hfree2
    have hfree2' : st0.occ.testBit i2 = false := by
      rw [testBit_set] at hfree2
      cases hb : st0.occ.testBit i2
      · rfl
      · rw [hb] at hfree2; simp at hfree2
    have hn1 : i1 ∉ st0.log.map Prod.fst := by
      intro hm
      obtain ⟨p, hp, rfl⟩ := List.mem_map.mp hm
      have h1 := hi.occ p.1
      rw [hfree1] at h1
      have : tagAt st0.log p.1 ≠ 0 := tagAt_ne_zero hi p hp
      simp [this] at h1
    have hn2 : i2 ∉ st0.log.map Prod.fst := by
      intro hm
      obtain ⟨p, hp, rfl⟩ := List.mem_map.mp hm
      have h1 := hi.occ p.1
      rw [hfree2'] at h1
      have : tagAt st0.log p.1 ≠ 0 := tagAt_ne_zero hi p hp
      simp [this] at h1
    refine ⟨?_, ?_, Or.inr (by simp [ht])⟩
    · simp only [List.map_cons, List.nodup_cons, List.mem_cons, not_or]
      exact ⟨⟨Ne.symm hne, hn2⟩, hn1, hi.nodup⟩
    · intro p hp
      rcases List.mem_cons.mp hp with rfl | hp
      · exact hlt2
      · rcases List.mem_cons.mp hp with rfl | hp
        · exact hlt1
        · exact (hi.tags p hp).1

/-- every module is accounted for: either all `nrow·ncol` modules carry a codeword bit, or all but the four of
    the lower right 2×2 block do, of which two are the logged dark modules of the fixed pattern and the other
    two (left of and above the corner) stay unwritten, i.e. light -/
theorem run_length {st : PS} (hrun : run nrow ncol ncw = some st) :
    (st.log.length = nrow * ncol ∧ st.log.map Prod.snd = tagsRev ncw) ∨
    (st.log.length + 2 = nrow * ncol ∧ st.log.map Prod.snd = 1 :: 1 :: tagsRev ncw ∧
      tagAt st.log (nrow * ncol - 1) = 1 ∧ tagAt st.log (nrow * ncol - 1 - ncol - 1) = 1 ∧
      tagAt st.log (nrow * ncol - 1 - 1) = 0 ∧ tagAt st.log (nrow * ncol - 1 - ncol) = 0) := by
  obtain ⟨h2r, h2c, st0, hml, _, hfin⟩ := run_some hrun
  have h0 : WalkInv (nrow * ncol) (({ occ := 0, log := [] } : PS), 0) := ⟨logInv_init _, rfl⟩
  obtain ⟨hi, ht⟩ := mainLoop_inv walkInv_step _ (_, 0, 4, 0) _ h0 hml
  simp only at hi ht
  obtain ⟨e1, e2, hN⟩ := last_index h2r h2c
  rcases hfin with ⟨_, hl, rfl⟩ | ⟨_, hl, hb1, hb2, _, st1, hs1, hs2⟩
  · exact Or.inl ⟨hl, ht⟩
  · right
    obtain ⟨i1, hi1, _, _, rfl⟩ := PS.set_some hs1
    obtain ⟨i2, hi2, _, _, rfl⟩ := PS.set_some hs2
    rw [wrap_nonneg _ _ _ _ (by omega) (by omega)] at hi1 hi2
    simp only at hi1 hi2
    have ei1 : i1 = nrow * ncol - 1 := by rw [e1] at hi1; omega
    have ei2 : i2 = nrow * ncol - 1 - ncol - 1 := by rw [e2] at hi2; omega
    subst ei1 ei2
    have z1 : tagAt st0.log (nrow * ncol - 1 - 1) = 0 := by
      have := hi.occ (nrow * ncol - 1 - 1); rw [hb1] at this; simpa using this.symm
    have z2 : tagAt st0.log (nrow * ncol - 1 - ncol) = 0 := by
      have := hi.occ (nrow * ncol - 1 - ncol); rw [hb2] at this; simpa using this.symm
    refine ⟨by simp only [List.length_cons]; omega, by simp [ht], ?_, ?_, ?_, ?_⟩
    · have : ¬ nrow * ncol - 1 - ncol - 1 = nrow * ncol - 1 := by omega
      simp [tagAt, this]
    · simp [tagAt]
    · have a1 : ¬ nrow * ncol - 1 - ncol - 1 = nrow * ncol - 1 - 1 := by omega
      have a2 : ¬ nrow * ncol - 1 = nrow * ncol - 1 - 1 := by omega
      simp [tagAt, a1, a2, z1]
    · have a1 : ¬ nrow * ncol - 1 - ncol - 1 = nrow * ncol - 1 - ncol := by omega
      have a2 : ¬ nrow * ncol - 1 = nrow * ncol - 1 - ncol := by omega
      simp [tagAt, a1, a2, z2]

end tags

/-! ### pigeonhole: the log covers the matrix -/

theorem nodup_length_le : ∀ (N : Nat) (l : List Nat), l.Nodup → (∀ x ∈ l, x < N) → l.length ≤ N := by
  intro N
  induction N with
  | zero =>
    intro l _ h
    cases l with
    | nil => simp
    | cons a l => exact absurd (h a List.mem_cons_self) (by omega)
  | succ N ih =>
    intro l hn h
    have h1 : (l.erase N).length ≤ N := by
      apply ih _ (hn.erase N)
      intro x hx
      have hx' := (List.Nodup.mem_erase_iff hn).mp hx
      have := h x hx'.2
      omega
    have := List.length_erase_of_mem (a := N) (l := l)
    by_cases hm : N ∈ l
    · rw [List.length_erase_of_mem hm] at h1; omega
    · rw [List.erase_of_not_mem hm] at h1; omega

theorem nodup_covers : ∀ (N : Nat) (l : List Nat), l.Nodup → (∀ x ∈ l, x < N) → l.length = N →
    ∀ i, i < N → i ∈ l := by
  intro N
  induction N with
  | zero => intro l _ _ _ i hi; omega
  | succ N ih =>
    intro l hn h hl i hi
    by_cases hm : N ∈ l
    · by_cases hiN : i = N
      · rw [hiN]; exact hm
      · have hlt : ∀ x ∈ l.erase N, x < N := by
          intro x hx
          have hx' := (List.Nodup.mem_erase_iff hn).mp hx
          have := h x hx'.2
          omega
        have := ih (l.erase N) (hn.erase N) hlt (by rw [List.length_erase_of_mem hm]; omega) i (by omega)
        exact List.mem_of_mem_erase this
    · have : l.length ≤ N := nodup_length_le N l hn (fun x hx => by
        have := h x hx
        have : x ≠ N := fun e => hm (e ▸ hx)
        omega)
      omega

/-- **Every module exactly once.**  After a successful run every module of the matrix has a tag, except — when
    the fixed pattern was drawn — its two light modules; and no module has two (`run_inv`: the cells of the log
    are pairwise distinct). -/
theorem run_covers {nrow ncol ncw : Nat} {st : PS} (hrun : run nrow ncol ncw = some st) (i : Nat)
    (hi : i < nrow * ncol) :
    tagAt st.log i ≠ 0 ∨
      (st.log.length + 2 = nrow * ncol ∧ (i = nrow * ncol - 1 - 1 ∨ i = nrow * ncol - 1 - ncol)) := by
  obtain ⟨h2r, h2c, st0, hml, _, hfin⟩ := run_some hrun
  have h0 : WalkInv (nrow * ncol) (({ occ := 0, log := [] } : PS), 0) := ⟨logInv_init _, rfl⟩
  obtain ⟨hinv, _⟩ := mainLoop_inv walkInv_step _ (_, 0, 4, 0) _ h0 hml
  simp only at hinv
  obtain ⟨hnodup, hcells, _⟩ := run_inv hrun
  have hmemtag : ∀ (log : List (Nat × Nat)), (∀ p ∈ log, p.2 ≠ 0) → i ∈ log.map Prod.fst → tagAt log i ≠ 0 := by
    intro log
    induction log with
    | nil => intro _ h; cases h
    | cons e rest ih =>
      intro hall hm
      obtain ⟨c, t⟩ := e
      simp only [tagAt]
      by_cases hc : c = i
      · rw [if_pos hc]; exact hall (c, t) List.mem_cons_self
      · rw [if_neg hc]
        simp only [List.map_cons, List.mem_cons] at hm
        rcases hm with e | e
        · exact absurd e.symm hc
        · exact ih (fun p hp => hall p (List.mem_cons_of_mem _ hp)) e
  rcases hfin with ⟨_, hl, rfl⟩ | ⟨_, hl, hb1, hb2, _, st1, hs1, hs2⟩
  · left
    apply hmemtag st.log (fun p hp => by have := (hinv.tags p hp).2; omega)
    exact nodup_covers _ _ hnodup (by
      intro x hx
      obtain ⟨p, hp, rfl⟩ := List.mem_map.mp hx
      exact hcells p hp) (by simpa using hl) i hi
  · obtain ⟨e1, e2, hN⟩ := last_index h2r h2c
    obtain ⟨i1, hi1, _, _, rfl⟩ := PS.set_some hs1
    obtain ⟨i2, hi2, _, _, rfl⟩ := PS.set_some hs2
    rw [wrap_nonneg _ _ _ _ (by omega) (by omega)] at hi1 hi2
    simp only at hi1 hi2
    have ei1 : i1 = nrow * ncol - 1 := by rw [e1] at hi1; omega
    have ei2 : i2 = nrow * ncol - 1 - ncol - 1 := by rw [e2] at hi2; omega
    subst ei1 ei2
    by_cases hx : i = nrow * ncol - 1 - 1 ∨ i = nrow * ncol - 1 - ncol
    · right
      exact ⟨by simp only [List.length_cons]; omega, hx⟩
    · left
      have z : ∀ j, st0.occ.testBit j = false → j ∉ st0.log.map Prod.fst := by
        intro j hz hm
        obtain ⟨p, hp, rfl⟩ := List.mem_map.mp hm
        have h1 := hinv.occ p.1
        rw [hz] at h1
        have := tagAt_ne_zero hinv p hp
        simp [this] at h1
      simp only [List.map_cons, List.nodup_cons, List.mem_cons, not_or] at hnodup
      -- add the two light modules to the cell list and use the pigeonhole
      have hcov := nodup_covers (nrow * ncol)
        ((nrow * ncol - 1 - 1) :: (nrow * ncol - 1 - ncol) :: (nrow * ncol - 1 - ncol - 1) :: (nrow * ncol - 1) ::
          st0.log.map Prod.fst)
        (by
          simp only [List.nodup_cons, List.mem_cons, not_or]
          exact ⟨⟨by omega, by omega, by omega, z _ hb1⟩, ⟨by omega, by omega, z _ hb2⟩, hnodup.1, hnodup.2⟩)
        (by
          intro x hx
          simp only [List.mem_cons] at hx
          rcases hx with rfl | rfl | rfl | rfl | hx
          · omega
          · omega
          · omega
          · omega
          · obtain ⟨p, hp, rfl⟩ := List.mem_map.mp hx
            exact (hinv.tags p hp).1)
        (by simp only [List.length_cons, List.length_map]; omega) i hi
      apply hmemtag _ (fun p hp => by
        simp only [List.mem_cons] at hp
        rcases hp with rfl | rfl | hp
        · simp
        · simp
        · have := (hinv.tags p hp).2; omega)
      simp only [List.mem_cons] at hcov
      simp only [List.map_cons, List.mem_cons]
      rcases hcov with h | h | h | h | h
      · exact absurd (Or.inl h) hx
      · exact absurd (Or.inr h) hx
      · exact Or.inl h
      · exact Or.inr (Or.inl h)
      · exact Or.inr (Or.inr h)

end BV.Proofs.DmTags
