/-
  Proofs for C17, part 1: the tables built by `NewGaloisField` and the field laws of `Multiply`, `Divide`,
  `Invers`.

  Structure
  * `step`/`iter`/`pw`: the doubling-and-reducing map of the first loop, its iterates, and `pw i = step^[i] 1`.
  * `alogList` is the list of iterates; the log table (a `foldl` of `setIfInBounds`) holds, for every value,
    the LAST index at which that value occurs (Go's last-write-wins), else 0.
  * `Cert`: an O(n) kernel-checkable certificate (walk n-1 steps from 1, bitmask of visited values) with a
    soundness proof (`Prim`): the walk is injective on [0,n-1), onto [1,n), and returns to 1.
  * From `Prim`: `mul (pw i) (pw j) = pw (i+j)`, every non-zero element is a `pw i`, and the field laws.
-/
import BV.Model.GF
import BV.Spec.RS
namespace BV.Proofs.GF
open BV BV.Model.GF

/-! ### the doubling map and its iterates -/

/-- one round of the first loop of `NewGaloisField` -/
def step (pp n x : Nat) : Nat :=
  if x * 2 ≥ n then ((x * 2) ^^^ pp) &&& (n - 1) else x * 2

/-- `step^[k] x` -/
def iter (pp n : Nat) : Nat → Nat → Nat
  | 0, x => x
  | k + 1, x => iter pp n k (step pp n x)

/-- `α^i` -/
def pw (pp n i : Nat) : Nat := iter pp n i 1

theorem iter_add (pp n : Nat) : ∀ (i j x : Nat), iter pp n (i + j) x = iter pp n i (iter pp n j x)
  | i, 0, x => rfl
  | i, j + 1, x => by
    show iter pp n (i + j) (step pp n x) = iter pp n i (iter pp n j (step pp n x))
    exact iter_add pp n i j _

theorem iter_succ (pp n k x : Nat) : iter pp n (k + 1) x = step pp n (iter pp n k x) := by
  have := iter_add pp n 1 k x
  rw [Nat.add_comm] at this
  exact this

theorem pw_succ (pp n k : Nat) : pw pp n (k + 1) = step pp n (pw pp n k) := iter_succ pp n k 1

theorem iter_pw (pp n i j : Nat) : iter pp n i (pw pp n j) = pw pp n (i + j) := (iter_add pp n i j 1).symm

theorem step_zero (pp n : Nat) (hn : 0 < n) : step pp n 0 = 0 := by
  unfold step
  rw [if_neg (by omega)]

theorem iter_zero (pp n : Nat) (hn : 0 < n) : ∀ k, iter pp n k 0 = 0
  | 0 => rfl
  | k + 1 => by
    show iter pp n k (step pp n 0) = 0
    rw [step_zero pp n hn]; exact iter_zero pp n hn k

/-! ### the antilog list -/

theorem alogList_succ (pp n k x : Nat) : alogList pp n (k + 1) x = x :: alogList pp n k (step pp n x) := rfl

theorem alogList_length (pp n : Nat) : ∀ k x, (alogList pp n k x).length = k
  | 0, _ => rfl
  | k + 1, x => by rw [alogList_succ, List.length_cons, alogList_length pp n k]

theorem alogList_getElem? (pp n : Nat) : ∀ k x i, i < k → (alogList pp n k x)[i]? = some (iter pp n i x)
  | 0, _, _, h => by omega
  | k + 1, x, 0, _ => by rw [alogList_succ]; rfl
  | k + 1, x, i + 1, h => by
    rw [alogList_succ, List.getElem?_cons_succ, alogList_getElem? pp n k _ i (by omega)]
    rfl

theorem alogList_getD (pp n k x i : Nat) (h : i < k) : (alogList pp n k x).getD i 0 = iter pp n i x := by
  rw [List.getD_eq_getElem?_getD, alogList_getElem? pp n k x i h]; rfl

/-! ### the log table: last write wins -/

/-- the second loop of `NewGaloisField`, run for the first `k` indices -/
def logTbl (g : Nat → Nat) (size k : Nat) : Array Nat :=
  (List.range k).foldl (fun (t : Array Nat) i => t.setIfInBounds (g i) i) (Array.replicate size 0)

theorem logTbl_succ (g : Nat → Nat) (size k : Nat) :
    logTbl g size (k + 1) = (logTbl g size k).setIfInBounds (g k) k := by
  unfold logTbl
  rw [List.range_succ, List.foldl_append]
  rfl

theorem logTbl_size (g : Nat → Nat) (size : Nat) : ∀ k, (logTbl g size k).size = size
  | 0 => by simp [logTbl]
  | k + 1 => by rw [logTbl_succ, Array.size_setIfInBounds, logTbl_size g size k]

/-- no write to `a`: the entry keeps its initial 0 -/
theorem logTbl_none (g : Nat → Nat) (size a : Nat) :
    ∀ k, (∀ j, j < k → g j ≠ a) → (logTbl g size k).getD a 0 = 0
  | 0, _ => by
    simp only [logTbl, List.range_zero, List.foldl_nil, Array.getD_eq_getD_getElem?, Array.getElem?_replicate]
    split <;> rfl
  | k + 1, h => by
    rw [logTbl_succ, Array.getD_eq_getD_getElem?, Array.getElem?_setIfInBounds, if_neg (h k (by omega)),
      ← Array.getD_eq_getD_getElem?]
    exact logTbl_none g size a k (fun j hj => h j (by omega))

/-- the entry for `a` is the last index `i < k` with `g i = a` -/
theorem logTbl_last (g : Nat → Nat) (size a i : Nat) (ha : a < size) (hg : g i = a) :
    ∀ k, i < k → (∀ j, i < j → j < k → g j ≠ a) → (logTbl g size k).getD a 0 = i
  | 0, h, _ => by omega
  | k + 1, hik, h => by
    rw [logTbl_succ, Array.getD_eq_getD_getElem?, Array.getElem?_setIfInBounds]
    by_cases hki : i = k
    · subst hki
      rw [if_pos hg, if_pos (by rw [logTbl_size]; exact hg ▸ ha)]; rfl
    · rw [if_neg (h k (by omega) (by omega)), ← Array.getD_eq_getD_getElem?]
      exact logTbl_last g size a i ha hg k (by omega) (fun j h1 h2 => h j h1 (by omega))

/-! ### the tables of `newField` -/

theorem newField_size (pp n b : Nat) : (newField pp n b).size = n := rfl
theorem newField_base (pp n b : Nat) : (newField pp n b).base = b := rfl

theorem newField_alog_size (pp n b : Nat) : (newField pp n b).alog.size = n := by
  show (alogList pp n n 1).toArray.size = n
  rw [List.size_toArray, alogList_length]

theorem newField_alog (pp n b i : Nat) (h : i < n) : (newField pp n b).alog.getD i 0 = pw pp n i := by
  show (alogList pp n n 1).toArray.getD i 0 = _
  rw [Array.getD_eq_getD_getElem?, List.getElem?_toArray, alogList_getElem? pp n n 1 i h]; rfl

theorem foldl_congr_mem {α β : Type} {f g : β → α → β} :
    ∀ (l : List α) (b : β), (∀ b a, a ∈ l → f b a = g b a) → l.foldl f b = l.foldl g b
  | [], _, _ => rfl
  | a :: l, b, h => by
    rw [List.foldl_cons, List.foldl_cons, h b a (List.mem_cons_self ..)]
    exact foldl_congr_mem l _ (fun b x hx => h b x (List.mem_cons_of_mem _ hx))

theorem newField_log_eq (pp n b : Nat) : (newField pp n b).log = logTbl (pw pp n) n n := by
  show (List.range n).foldl _ _ = (List.range n).foldl _ _
  apply foldl_congr_mem
  intro t i hi
  rw [List.mem_range] at hi
  rw [alogList_getD pp n n 1 i hi]; rfl

theorem newField_log_size (pp n b : Nat) : (newField pp n b).log.size = n := by
  rw [newField_log_eq, logTbl_size]

/-! ### primitivity certificate -/

/-- walk `k` steps from `x`, recording the visited values in a bitmask; fail on zero / out of range / repeat -/
def walk (pp n : Nat) : Nat → Nat → Nat → Option (Nat × Nat)
  | 0, x, seen => some (x, seen)
  | k + 1, x, seen =>
    if x = 0 ∨ x ≥ n ∨ seen.testBit x = true then none
    else walk pp n k (step pp n x) (seen ||| (1 <<< x))

/-- the certificate: `n - 1` steps from 1 run through distinct non-zero values `< n`, end in 1 again, and the
    set of visited values is exactly `{1, …, n-1}` (mask `2^n - 2`) -/
def cert (pp n : Nat) : Bool :=
  match walk pp n (n - 1) 1 0 with
  | some (x, seen) => x == 1 && seen == (2 ^ (n - 1) - 1) <<< 1 && decide (2 ≤ n)
  | none => false

theorem testBit_one_shiftLeft (x v : Nat) : (1 <<< x).testBit v = decide (x = v) := by
  rw [Nat.one_shiftLeft, Nat.testBit_two_pow]

theorem walk_sound (pp n : Nat) : ∀ (k x seen y seen' : Nat), walk pp n k x seen = some (y, seen') →
    y = iter pp n k x ∧
    (∀ i, i < k → iter pp n i x ≠ 0 ∧ iter pp n i x < n ∧ seen.testBit (iter pp n i x) = false) ∧
    (∀ i j, i < j → j < k → iter pp n i x ≠ iter pp n j x) ∧
    (∀ v, seen'.testBit v = true ↔ (seen.testBit v = true ∨ ∃ i, i < k ∧ iter pp n i x = v))
  | 0, x, seen, y, seen', h => by
    simp only [walk, Option.some.injEq, Prod.mk.injEq] at h
    obtain ⟨rfl, rfl⟩ := h
    refine ⟨rfl, fun i hi => by omega, fun i j _ hj => by omega, fun v => ⟨fun h => Or.inl h, ?_⟩⟩
    rintro (h | ⟨i, hi, _⟩)
    · exact h
    · omega
  | k + 1, x, seen, y, seen', h => by
    unfold walk at h
    by_cases hc : x = 0 ∨ x ≥ n ∨ seen.testBit x = true
    · rw [if_pos hc] at h; cases h
    · rw [if_neg hc] at h
      have hx0 : x ≠ 0 := fun h => hc (Or.inl h)
      have hxn : x < n := by
        rcases Nat.lt_or_ge x n with h | h
        · exact h
        · exact absurd (Or.inr (Or.inl h)) hc
      have hxs : seen.testBit x = false := by
        cases hb : seen.testBit x with
        | false => rfl
        | true => exact absurd (Or.inr (Or.inr hb)) hc
      obtain ⟨hy, hr, hd, hm⟩ := walk_sound pp n k (step pp n x) (seen ||| (1 <<< x)) y seen' h
      have hmask : ∀ v, (seen ||| (1 <<< x)).testBit v = (seen.testBit v || decide (x = v)) := by
        intro v; rw [Nat.testBit_or, testBit_one_shiftLeft]
      refine ⟨hy, ?_, ?_, ?_⟩
      · intro i hi
        cases i with
        | zero => exact ⟨hx0, hxn, hxs⟩
        | succ i =>
          obtain ⟨h1, h2, h3⟩ := hr i (by omega)
          refine ⟨h1, h2, ?_⟩
          rw [hmask] at h3
          show seen.testBit (iter pp n i (step pp n x)) = false
          cases hb : seen.testBit (iter pp n i (step pp n x)) with
          | false => rfl
          | true => rw [hb] at h3; simp at h3
      · intro i j hij hj
        cases j with
        | zero => omega
        | succ j =>
          cases i with
          | zero =>
            obtain ⟨_, _, h3⟩ := hr j (by omega)
            rw [hmask] at h3
            show x ≠ iter pp n j (step pp n x)
            intro he
            rw [← he] at h3
            simp at h3
          | succ i => exact hd i j (by omega) (by omega)
      · intro v
        rw [hm v, hmask]
        constructor
        · rintro (h | ⟨i, hi, he⟩)
          · cases hb : seen.testBit v with
            | true => exact Or.inl rfl
            | false =>
              rw [hb] at h
              simp only [Bool.false_or, decide_eq_true_eq] at h
              exact Or.inr ⟨0, by omega, h⟩
          · exact Or.inr ⟨i + 1, by omega, he⟩
        · rintro (h | ⟨i, hi, he⟩)
          · left; rw [h]; rfl
          · cases i with
            | zero =>
              left
              have : x = v := he
              simp [this]
            | succ i => exact Or.inr ⟨i, by omega, he⟩

/-- `α` is primitive: its powers `α^0 … α^(n-2)` are exactly the non-zero elements, and `α^(n-1) = 1` -/
structure Prim (pp n : Nat) : Prop where
  two_le : 2 ≤ n
  inj : ∀ i j, i < n - 1 → j < n - 1 → pw pp n i = pw pp n j → i = j
  range : ∀ i, i < n - 1 → 0 < pw pp n i ∧ pw pp n i < n
  surj : ∀ a, 0 < a → a < n → ∃ i, i < n - 1 ∧ pw pp n i = a
  cyc : pw pp n (n - 1) = 1

/-- soundness of the certificate -/
theorem cert_sound (pp n : Nat) (h : cert pp n = true) : Prim pp n := by
  unfold cert at h
  split at h
  · rename_i x seen hw
    simp only [Bool.and_eq_true, beq_iff_eq, decide_eq_true_eq] at h
    obtain ⟨⟨rfl, rfl⟩, h2⟩ := h
    obtain ⟨hy, hr, hd, hm⟩ := walk_sound pp n (n - 1) 1 0 _ _ hw
    refine ⟨h2, ?_, ?_, ?_, hy.symm⟩
    · intro i j hi hj he
      rcases Nat.lt_trichotomy i j with hlt | heq | hgt
      · exact absurd he (hd i j hlt hj)
      · exact heq
      · exact absurd he.symm (hd j i hgt hi)
    · intro i hi
      obtain ⟨h1, h2, _⟩ := hr i hi
      exact ⟨Nat.pos_of_ne_zero h1, h2⟩
    · intro a ha han
      have := (hm a).mp (by
        rw [Nat.testBit_shiftLeft, Nat.testBit_two_pow_sub_one]
        simp only [Bool.and_eq_true, decide_eq_true_eq]
        omega)
      rcases this with h | h
      · simp at h
      · exact h
  · cases h

/-! ### consequences of primitivity: exponent arithmetic -/

theorem pw_zero (pp n : Nat) : pw pp n 0 = 1 := rfl

theorem mul_zero_left (f : Field) (y : Nat) : f.mul 0 y = 0 := by
  unfold Field.mul; rw [if_pos (Or.inl rfl)]

theorem mul_zero_right (f : Field) (x : Nat) : f.mul x 0 = 0 := by
  unfold Field.mul; rw [if_pos (Or.inr rfl)]

theorem mul_comm (f : Field) (x y : Nat) : f.mul x y = f.mul y x := by
  unfold Field.mul
  by_cases hx : x = 0 <;> by_cases hy : y = 0 <;> simp [hx, hy, Nat.add_comm]

theorem div_zero (f : Field) (x : Nat) : f.div x 0 = none := by
  unfold Field.div; rw [if_pos rfl]

section prim
variable {pp n : Nat} (P : Prim pp n)
include P

theorem pw_add_period (i : Nat) : pw pp n (i + (n - 1)) = pw pp n i := by
  rw [← iter_pw, P.cyc]; rfl

theorem pw_add_mul_period (i : Nat) : ∀ k, pw pp n (i + (n - 1) * k) = pw pp n i
  | 0 => rfl
  | k + 1 => by
    rw [Nat.mul_succ, ← Nat.add_assoc, pw_add_period P, pw_add_mul_period i k]

theorem pw_mod (i : Nat) : pw pp n (i % (n - 1)) = pw pp n i := by
  have h := pw_add_mul_period P (i % (n - 1)) (i / (n - 1))
  rw [Nat.mod_add_div] at h
  exact h.symm

theorem period_pos : 0 < n - 1 := by have := P.two_le; omega

theorem pw_pos (i : Nat) : 0 < pw pp n i := by
  rw [← pw_mod P]; exact (P.range _ (Nat.mod_lt _ (period_pos P))).1

theorem pw_lt (i : Nat) : pw pp n i < n := by
  rw [← pw_mod P]; exact (P.range _ (Nat.mod_lt _ (period_pos P))).2

theorem pw_inj_mod (i j : Nat) (h : pw pp n i = pw pp n j) : i % (n - 1) = j % (n - 1) := by
  rw [← pw_mod P i, ← pw_mod P j] at h
  exact P.inj _ _ (Nat.mod_lt _ (period_pos P)) (Nat.mod_lt _ (period_pos P)) h

theorem pw_congr (i j : Nat) (h : i % (n - 1) = j % (n - 1)) : pw pp n i = pw pp n j := by
  rw [← pw_mod P i, ← pw_mod P j, h]

theorem exists_pw (a : Nat) (h0 : 0 < a) (hn : a < n) : ∃ i, i < n - 1 ∧ pw pp n i = a := P.surj a h0 hn

/-- the log table: for non-zero `a`, `1 ≤ log a ≤ n-1` and `α^(log a) = a` (note `log 1 = n-1`, last write wins) -/
theorem log_spec (b a : Nat) (h0 : 0 < a) (hn : a < n) :
    1 ≤ (newField pp n b).log.getD a 0 ∧ (newField pp n b).log.getD a 0 ≤ n - 1 ∧
      pw pp n ((newField pp n b).log.getD a 0) = a := by
  rw [newField_log_eq]
  have hp := period_pos P
  by_cases ha : a = 1
  · subst ha
    have : (logTbl (pw pp n) n n).getD 1 0 = n - 1 :=
      logTbl_last (pw pp n) n 1 (n - 1) hn P.cyc n (by omega) (fun j h1 h2 => by omega)
    rw [this]; exact ⟨hp, Nat.le_refl _, P.cyc⟩
  · obtain ⟨i, hi, he⟩ := P.surj a h0 hn
    have hi0 : i ≠ 0 := by
      intro h; subst h; exact ha he.symm
    have : (logTbl (pw pp n) n n).getD a 0 = i := by
      apply logTbl_last (pw pp n) n a i hn he n (by omega)
      intro j h1 h2 hj
      by_cases hjn : j < n - 1
      · have := P.inj i j hi hjn (he.trans hj.symm); omega
      · have hj' : j = n - 1 := by omega
        subst hj'
        rw [P.cyc] at hj; exact ha hj.symm
    rw [this]; exact ⟨by omega, by omega, he⟩

theorem log_zero (b : Nat) : (newField pp n b).log.getD 0 0 = 0 := by
  rw [newField_log_eq]
  apply logTbl_none
  intro j _ h
  have := pw_pos P j
  omega

theorem log_pw_mod (b i : Nat) : ((newField pp n b).log.getD (pw pp n i) 0) % (n - 1) = i % (n - 1) :=
  pw_inj_mod P _ _ (log_spec P b _ (pw_pos P i) (pw_lt P i)).2.2

/-! ### `Multiply`, `Invers`, `Divide` in terms of exponents -/

theorem alog_mod (b e : Nat) : (newField pp n b).alog.getD (e % (n - 1)) 0 = pw pp n e := by
  have := Nat.mod_lt e (period_pos P)
  rw [newField_alog _ _ _ _ (by omega), pw_mod P]

theorem mul_pw (b i j : Nat) : (newField pp n b).mul (pw pp n i) (pw pp n j) = pw pp n (i + j) := by
  have hi := pw_pos P i
  have hj := pw_pos P j
  unfold Field.mul
  rw [if_neg (by omega), newField_size, alog_mod P]
  apply pw_congr P
  rw [Nat.add_mod, log_pw_mod P, log_pw_mod P, ← Nat.add_mod]

theorem inv_pw (b a : Nat) (h0 : 0 < a) (hn : a < n) :
    (newField pp n b).inv a = pw pp n (n - 1 - (newField pp n b).log.getD a 0) := by
  unfold Field.inv
  rw [newField_size, newField_alog _ _ _ _ (by have := period_pos P; omega)]

theorem div_pw (b x y : Nat) (hx : 0 < x) (hy : 0 < y) :
    (newField pp n b).div x y =
      some (pw pp n ((newField pp n b).log.getD x 0 + (n - 1) - (newField pp n b).log.getD y 0)) := by
  unfold Field.div
  rw [if_neg (by omega), if_neg (by omega), newField_size, alog_mod P]

/-! ### the field laws -/

theorem mul_lt (b x y : Nat) (hx : x < n) (hy : y < n) : (newField pp n b).mul x y < n := by
  rcases Nat.eq_zero_or_pos x with rfl | hx0
  · rw [mul_zero_left]; omega
  rcases Nat.eq_zero_or_pos y with rfl | hy0
  · rw [mul_zero_right]; omega
  obtain ⟨i, _, rfl⟩ := exists_pw P x hx0 hx
  obtain ⟨j, _, rfl⟩ := exists_pw P y hy0 hy
  rw [mul_pw P]; exact pw_lt P _

theorem mul_pos (b x y : Nat) (hx0 : 0 < x) (hx : x < n) (hy0 : 0 < y) (hy : y < n) :
    0 < (newField pp n b).mul x y := by
  obtain ⟨i, _, rfl⟩ := exists_pw P x hx0 hx
  obtain ⟨j, _, rfl⟩ := exists_pw P y hy0 hy
  rw [mul_pw P]; exact pw_pos P _

theorem mul_assoc (b x y z : Nat) (hx : x < n) (hy : y < n) (hz : z < n) :
    (newField pp n b).mul ((newField pp n b).mul x y) z = (newField pp n b).mul x ((newField pp n b).mul y z) := by
  rcases Nat.eq_zero_or_pos x with rfl | hx0
  · rw [mul_zero_left, mul_zero_left, mul_zero_left]
  rcases Nat.eq_zero_or_pos y with rfl | hy0
  · rw [mul_zero_right, mul_zero_left, mul_zero_right]
  rcases Nat.eq_zero_or_pos z with rfl | hz0
  · rw [mul_zero_right, mul_zero_right, mul_zero_right]
  obtain ⟨i, _, rfl⟩ := exists_pw P x hx0 hx
  obtain ⟨j, _, rfl⟩ := exists_pw P y hy0 hy
  obtain ⟨k, _, rfl⟩ := exists_pw P z hz0 hz
  rw [mul_pw P, mul_pw P, mul_pw P, mul_pw P, Nat.add_assoc]

theorem mul_one (b x : Nat) (hx : x < n) : (newField pp n b).mul x 1 = x := by
  rcases Nat.eq_zero_or_pos x with rfl | hx0
  · rw [mul_zero_left]
  obtain ⟨i, _, rfl⟩ := exists_pw P x hx0 hx
  have := mul_pw P b i 0
  exact this

theorem mul_inv (b x : Nat) (hx0 : 0 < x) (hx : x < n) :
    (newField pp n b).mul x ((newField pp n b).inv x) = 1 ∧ (newField pp n b).inv x < n ∧
      0 < (newField pp n b).inv x := by
  obtain ⟨h1, h2, h3⟩ := log_spec P b x hx0 hx
  rw [inv_pw P b x hx0 hx]
  refine ⟨?_, pw_lt P _, pw_pos P _⟩
  conv => lhs; arg 2; rw [← h3]
  rw [mul_pw P]
  have : (newField pp n b).log.getD x 0 + (n - 1 - (newField pp n b).log.getD x 0) = n - 1 := by omega
  rw [this]; exact P.cyc

theorem mul_right_cancel (b x z y : Nat) (hx : x < n) (hz : z < n) (hy0 : 0 < y) (hy : y < n)
    (h : (newField pp n b).mul x y = (newField pp n b).mul z y) : x = z := by
  obtain ⟨h1, h2, _⟩ := mul_inv P b y hy0 hy
  have := congrArg (fun t => (newField pp n b).mul t ((newField pp n b).inv y)) h
  rw [mul_assoc P b x y _ hx hy h2, mul_assoc P b z y _ hz hy h2, h1, mul_one P b x hx, mul_one P b z hz] at this
  exact this

theorem index_in_range (b x y : Nat) (hx : x < n) (hy : y < n) :
    let f := newField pp n b
    f.log.size = n ∧ f.alog.size = n ∧ f.size = n ∧
    (f.log.getD x 0 + f.log.getD y 0) % (f.size - 1) < f.alog.size ∧
    f.log.getD y 0 ≤ f.log.getD x 0 + (f.size - 1) ∧
    (f.log.getD x 0 + (f.size - 1) - f.log.getD y 0) % (f.size - 1) < f.alog.size ∧
    f.log.getD x 0 ≤ f.size - 1 ∧ (f.size - 1) - f.log.getD x 0 < f.alog.size := by
  intro f
  have hp := period_pos P
  have hlog : ∀ a, a < n → f.log.getD a 0 ≤ n - 1 := by
    intro a ha
    rcases Nat.eq_zero_or_pos a with rfl | h0
    · rw [log_zero P]; omega
    · exact (log_spec P b a h0 ha).2.1
  have hm : ∀ e, e % (n - 1) < n := fun e => by have := Nat.mod_lt e hp; omega
  refine ⟨newField_log_size _ _ _, newField_alog_size _ _ _, rfl, ?_, ?_, ?_, ?_, ?_⟩
  · rw [newField_alog_size]; exact hm _
  · have := hlog y hy; show _ ≤ _ + (n - 1); omega
  · rw [newField_alog_size]; exact hm _
  · exact hlog x hx
  · rw [newField_alog_size]; show n - 1 - _ < n; omega

theorem div_spec (b x y : Nat) (hx : x < n) (hy0 : 0 < y) (hy : y < n) :
    ∃ q, (newField pp n b).div x y = some q ∧ q < n ∧ (newField pp n b).mul q y = x := by
  rcases Nat.eq_zero_or_pos x with rfl | hx0
  · refine ⟨0, ?_, by omega, mul_zero_left _ _⟩
    unfold Field.div
    rw [if_neg (by omega), if_pos rfl]
  obtain ⟨a1, a2, a3⟩ := log_spec P b x hx0 hx
  obtain ⟨b1, b2, b3⟩ := log_spec P b y hy0 hy
  refine ⟨_, div_pw P b x y hx0 hy0, pw_lt P _, ?_⟩
  conv => lhs; arg 3; rw [← b3]
  rw [mul_pw P]
  conv => rhs; rw [← a3, ← pw_add_period P]
  congr 1
  omega

theorem div_mul_cancel (b x y : Nat) (hx : x < n) (hy0 : 0 < y) (hy : y < n) :
    (newField pp n b).div ((newField pp n b).mul x y) y = some x := by
  obtain ⟨q, h1, h2, h3⟩ := div_spec P b _ y (mul_lt P b x y hx hy) hy0 hy
  rw [h1, mul_right_cancel P b q x y h2 hx hy0 hy h3]

end prim

/-! ### XOR-linearity of `step` for `n = 2^m` (ring structure) -/

theorem step_lt (pp n x : Nat) (hn : 0 < n) (_hx : x < n) : step pp n x < n := by
  unfold step
  split
  · have : (x * 2 ^^^ pp) &&& (n - 1) ≤ n - 1 := Nat.and_le_right
    omega
  · omega

theorem iter_lt (pp n : Nat) (hn : 0 < n) : ∀ k x, x < n → iter pp n k x < n
  | 0, _, h => h
  | k + 1, x, h => iter_lt pp n hn k _ (step_lt pp n x hn h)

theorem mul_two_ge_iff (m a : Nat) (hm : 0 < m) (ha : a < 2 ^ m) :
    a * 2 ≥ 2 ^ m ↔ a.testBit (m - 1) = true := by
  obtain ⟨k, rfl⟩ : ∃ k, m = k + 1 := ⟨m - 1, by omega⟩
  simp only [Nat.add_sub_cancel]
  have h2 : 2 ^ (k + 1) = 2 * 2 ^ k := by rw [Nat.pow_succ]; omega
  constructor
  · intro h
    exact Nat.testBit_of_two_pow_le_and_two_pow_add_one_gt (by omega) ha
  · intro h
    have := Nat.ge_two_pow_of_testBit h
    omega

theorem testBit_mul_two (a i : Nat) : (a * 2).testBit i = (decide (0 < i) && a.testBit (i - 1)) := by
  have : a * 2 = a <<< 1 := by rw [Nat.shiftLeft_eq]
  rw [this, Nat.testBit_shiftLeft]
  cases i <;> simp

/-- bitwise description of `step` on `[0, 2^m)` -/
theorem testBit_step (pp m a i : Nat) (hm : 0 < m) (ha : a < 2 ^ m) :
    (step pp (2 ^ m) a).testBit i =
      (decide (i < m) && ((decide (0 < i) && a.testBit (i - 1)) ^^ (a.testBit (m - 1) && pp.testBit i))) := by
  unfold step
  by_cases h : a * 2 ≥ 2 ^ m
  · have ht := (mul_two_ge_iff m a hm ha).mp h
    rw [if_pos h, Nat.testBit_and, Nat.testBit_xor, Nat.testBit_two_pow_sub_one, ht, testBit_mul_two]
    simp [Bool.and_comm]
  · have ht : a.testBit (m - 1) = false := by
      cases hb : a.testBit (m - 1) with
      | false => rfl
      | true => exact absurd ((mul_two_ge_iff m a hm ha).mpr hb) h
    rw [if_neg h, ht, testBit_mul_two]
    have hlt : a * 2 < 2 ^ m := by omega
    by_cases him : i < m
    · simp [him]
    · have : (a * 2).testBit i = false :=
        Nat.testBit_lt_two_pow (Nat.lt_of_lt_of_le hlt (Nat.pow_le_pow_right (by omega) (by omega)))
      rw [testBit_mul_two] at this
      simp [him, this]

theorem step_xor (pp m a c : Nat) (hm : 0 < m) (ha : a < 2 ^ m) (hc : c < 2 ^ m) :
    step pp (2 ^ m) (a ^^^ c) = step pp (2 ^ m) a ^^^ step pp (2 ^ m) c := by
  apply Nat.eq_of_testBit_eq
  intro i
  rw [Nat.testBit_xor, testBit_step pp m _ i hm (Nat.xor_lt_two_pow ha hc), testBit_step pp m a i hm ha,
    testBit_step pp m c i hm hc]
  simp only [Nat.testBit_xor]
  cases decide (i < m) <;> cases decide (0 < i) <;> cases a.testBit (i-1) <;> cases c.testBit (i-1) <;>
    cases a.testBit (m-1) <;> cases c.testBit (m-1) <;> cases pp.testBit i <;> rfl

theorem iter_xor (pp m : Nat) (hm : 0 < m) : ∀ k a c, a < 2 ^ m → c < 2 ^ m →
    iter pp (2 ^ m) k (a ^^^ c) = iter pp (2 ^ m) k a ^^^ iter pp (2 ^ m) k c
  | 0, _, _, _, _ => rfl
  | k + 1, a, c, ha, hc => by
    have hp : 0 < 2 ^ m := Nat.two_pow_pos m
    show iter pp (2 ^ m) k (step pp (2 ^ m) (a ^^^ c)) = _
    rw [step_xor pp m a c hm ha hc]
    exact iter_xor pp m hm k _ _ (step_lt _ _ _ hp ha) (step_lt _ _ _ hp hc)

/-- when `pp` has its top bit at position `m` the mask in `step` is redundant: `step` is the specification's
    multiplication by x -/
theorem step_eq_spec (pp m a : Nat) (ha : a < 2 ^ m) (hpp : 2 ^ m ≤ pp) (hpp2 : pp < 2 * 2 ^ m) :
    step pp (2 ^ m) a = if a * 2 ≥ 2 ^ m then (a * 2) ^^^ pp else a * 2 := by
  unfold step
  split
  · rename_i h
    rw [Nat.and_two_pow_sub_one_eq_mod]
    apply Nat.mod_eq_of_lt
    apply Nat.lt_pow_two_of_testBit
    intro i hi
    rw [Nat.testBit_xor]
    have h2 : 2 ^ (m + 1) = 2 * 2 ^ m := by rw [Nat.pow_succ]; omega
    by_cases him : i = m
    · subst him
      rw [Nat.testBit_of_two_pow_le_and_two_pow_add_one_gt h (by omega),
        Nat.testBit_of_two_pow_le_and_two_pow_add_one_gt hpp (by omega)]
      rfl
    · have hle : 2 ^ (m + 1) ≤ 2 ^ i := Nat.pow_le_pow_right (by omega) (by omega)
      rw [Nat.testBit_lt_two_pow (x := a * 2) (by omega), Nat.testBit_lt_two_pow (x := pp) (by omega)]
      rfl
  · rfl

theorem pw_eq_two_pow (pp m : Nat) : ∀ k, k < m → pw pp (2 ^ m) k = 2 ^ k
  | 0, _ => rfl
  | k + 1, h => by
    rw [pw_succ, pw_eq_two_pow pp m k (by omega)]
    unfold step
    have : 2 ^ k * 2 < 2 ^ m := by
      rw [← Nat.pow_succ]; exact Nat.pow_lt_pow_right (by omega) h
    rw [if_neg (by omega), Nat.pow_succ]

section ring
variable {pp m : Nat} (hm : 0 < m) (P : Prim pp (2 ^ m))
include hm P

omit hm in
/-- multiplication by `α^k` is `step^[k]`, also for the operand 0 -/
theorem mul_pw_right (b x k : Nat) (hx : x < 2 ^ m) :
    (newField pp (2 ^ m) b).mul x (pw pp (2 ^ m) k) = iter pp (2 ^ m) k x := by
  rcases Nat.eq_zero_or_pos x with rfl | hx0
  · rw [mul_zero_left, iter_zero _ _ (by omega)]
  · obtain ⟨i, _, rfl⟩ := exists_pw P x hx0 hx
    rw [mul_pw P, iter_pw, Nat.add_comm]

theorem mul_xor_left (b x z y : Nat) (hx : x < 2 ^ m) (hz : z < 2 ^ m) (hy : y < 2 ^ m) :
    (newField pp (2 ^ m) b).mul (x ^^^ z) y =
      (newField pp (2 ^ m) b).mul x y ^^^ (newField pp (2 ^ m) b).mul z y := by
  rcases Nat.eq_zero_or_pos y with rfl | hy0
  · rw [mul_zero_right, mul_zero_right, mul_zero_right]; rfl
  · obtain ⟨k, _, rfl⟩ := exists_pw P y hy0 hy
    rw [mul_pw_right P b _ k (Nat.xor_lt_two_pow hx hz), mul_pw_right P b _ k hx,
      mul_pw_right P b _ k hz, iter_xor pp m hm k x z hx hz]

theorem mul_xor_right (b x y z : Nat) (hx : x < 2 ^ m) (hy : y < 2 ^ m) (hz : z < 2 ^ m) :
    (newField pp (2 ^ m) b).mul x (y ^^^ z) =
      (newField pp (2 ^ m) b).mul x y ^^^ (newField pp (2 ^ m) b).mul x z := by
  rw [mul_comm, mul_xor_left hm P b y z x hy hz hx, mul_comm _ y, mul_comm _ z]

end ring

/-! ### agreement with the specification's shift-and-reduce multiplication -/

theorem mod_two_pow_succ (b k : Nat) :
    b % 2 ^ (k + 1) = if b.testBit k = true then (b % 2 ^ k) ^^^ 2 ^ k else b % 2 ^ k := by
  apply Nat.eq_of_testBit_eq
  intro i
  split
  · rename_i h
    rw [Nat.testBit_xor, Nat.testBit_mod_two_pow, Nat.testBit_mod_two_pow, Nat.testBit_two_pow]
    by_cases hik : i = k
    · subst hik; simp [h]
    · by_cases hlt : i < k
      · have : i < k + 1 := by omega
        simp [hlt, this, Ne.symm hik]
      · have : ¬ i < k + 1 := by omega
        simp [hlt, this, Ne.symm hik]
  · rename_i h
    rw [Nat.testBit_mod_two_pow, Nat.testBit_mod_two_pow]
    by_cases hik : i = k
    · subst hik; simp [h]
    · by_cases hlt : i < k
      · have : i < k + 1 := by omega
        simp [hlt, this]
      · have : ¬ i < k + 1 := by omega
        simp [hlt, this]

/-- what the construction needs to know about a field: size `2^m`, reduction polynomial of degree `m`,
    `α = x` primitive -/
structure FieldOK (pp n : Nat) : Prop where
  pow2 : ∃ m, 1 < m ∧ n = 2 ^ m
  pp_ge : n ≤ pp
  pp_lt : pp < 2 * n
  prim : Prim pp n

section spec
variable {pp m : Nat} (hm : 0 < m) (P : Prim pp (2 ^ m)) (hpp : 2 ^ m ≤ pp) (hpp2 : pp < 2 * 2 ^ m)
include hm P hpp hpp2

omit hm P in
theorem spec_mulx (a : Nat) (ha : a < 2 ^ m) :
    (Spec.RS.BinField.mk pp (2 ^ m)).mulx a = step pp (2 ^ m) a := by
  rw [step_eq_spec pp m a ha hpp hpp2]; rfl

theorem spec_mulAux (b a y : Nat) (ha : a < 2 ^ m) : ∀ k acc, k ≤ m → acc < 2 ^ m →
    (Spec.RS.BinField.mk pp (2 ^ m)).mulAux a y k acc =
      iter pp (2 ^ m) k acc ^^^ (newField pp (2 ^ m) b).mul a (y % 2 ^ k)
  | 0, acc, _, _ => by
    show acc = acc ^^^ (newField pp (2 ^ m) b).mul a (y % 2 ^ 0)
    rw [Nat.pow_zero, Nat.mod_one, mul_zero_right, Nat.xor_zero]
  | k + 1, acc, hk, hacc => by
    have hp : 0 < 2 ^ m := Nat.two_pow_pos m
    have hs : step pp (2 ^ m) acc < 2 ^ m := step_lt _ _ _ hp hacc
    have hyk : y % 2 ^ k < 2 ^ m :=
      Nat.lt_of_lt_of_le (Nat.mod_lt _ (Nat.two_pow_pos k)) (Nat.pow_le_pow_right (by omega) (by omega))
    have h2k : 2 ^ k < 2 ^ m := Nat.pow_lt_pow_right (by omega) (by omega)
    show (Spec.RS.BinField.mk pp (2 ^ m)).mulAux a y k
        (if y.testBit k = true then (Spec.RS.BinField.mk pp (2 ^ m)).mulx acc ^^^ a
          else (Spec.RS.BinField.mk pp (2 ^ m)).mulx acc) = _
    rw [spec_mulx hpp hpp2 acc hacc, mod_two_pow_succ]
    by_cases hb : y.testBit k = true
    · rw [if_pos hb, if_pos hb, spec_mulAux b a y ha k _ (by omega) (Nat.xor_lt_two_pow hs ha),
        iter_xor pp m hm k _ _ hs ha, mul_xor_right hm P b a _ _ ha hyk h2k,
        ← pw_eq_two_pow pp m k (by omega), mul_pw_right P b a k ha]
      show iter pp (2 ^ m) k (step pp (2 ^ m) acc) ^^^ iter pp (2 ^ m) k a ^^^ _ =
        iter pp (2 ^ m) k (step pp (2 ^ m) acc) ^^^ _
      rw [Nat.xor_assoc, Nat.xor_comm (iter pp (2 ^ m) k a)]
    · rw [if_neg hb, if_neg hb, spec_mulAux b a y ha k _ (by omega) hs]
      rfl

/-- the model's table-driven multiplication is the specification's shift-and-reduce multiplication -/
theorem mul_eq_spec (b x y : Nat) (hx : x < 2 ^ m) (hy : y < 2 ^ m) :
    (newField pp (2 ^ m) b).mul x y = (Spec.RS.BinField.mk pp (2 ^ m)).mul x y := by
  show _ = (Spec.RS.BinField.mk pp (2 ^ m)).mulAux x y (Nat.log2 (2 ^ m)) 0
  rw [Nat.log2_two_pow, spec_mulAux hm P hpp hpp2 b x y hx m 0 (Nat.le_refl _) (Nat.two_pow_pos m),
    iter_zero _ _ (Nat.two_pow_pos m), Nat.zero_xor, Nat.mod_eq_of_lt hy]

end spec

/-! ### the same, packaged for a field given by `FieldOK` -/

theorem ok_distrib {pp n : Nat} (h : FieldOK pp n) (b x y z : Nat) (hx : x < n) (hy : y < n) (hz : z < n) :
    (newField pp n b).mul (x ^^^ z) y = (newField pp n b).mul x y ^^^ (newField pp n b).mul z y ∧
    (newField pp n b).mul y (x ^^^ z) = (newField pp n b).mul y x ^^^ (newField pp n b).mul y z ∧
    x ^^^ z < n := by
  obtain ⟨⟨m, hm, rfl⟩, _, _, P⟩ := h
  exact ⟨mul_xor_left (by omega) P b x z y hx hz hy, mul_xor_right (by omega) P b y x z hy hx hz,
    Nat.xor_lt_two_pow hx hz⟩

theorem ok_mul_eq_spec {pp n : Nat} (h : FieldOK pp n) (b x y : Nat) (hx : x < n) (hy : y < n) :
    (newField pp n b).mul x y = (Spec.RS.BinField.mk pp n).mul x y := by
  obtain ⟨⟨m, hm, rfl⟩, h1, h2, P⟩ := h
  exact mul_eq_spec (by omega) P h1 h2 b x y hx hy

theorem ok_two {pp n : Nat} (h : FieldOK pp n) : pw pp n 1 = 2 ∧ 2 < n := by
  obtain ⟨⟨m, hm, rfl⟩, _, _, _⟩ := h
  refine ⟨pw_eq_two_pow pp m 1 hm, ?_⟩
  have : 2 ^ 1 < 2 ^ m := Nat.pow_lt_pow_right (by omega) hm
  omega

/-- `α^i` as the specification computes it -/
theorem ok_spec_pow {pp n : Nat} (h : FieldOK pp n) : ∀ i, (Spec.RS.BinField.mk pp n).pow 2 i = pw pp n i
  | 0 => rfl
  | i + 1 => by
    show (Spec.RS.BinField.mk pp n).mul ((Spec.RS.BinField.mk pp n).pow 2 i) 2 = _
    rw [ok_spec_pow h i, ← ok_mul_eq_spec h 0 _ _ (pw_lt h.prim i) (ok_two h).2]
    conv => lhs; arg 3; rw [← (ok_two h).1]
    rw [mul_pw h.prim]

theorem ok_alog_eq_spec_pow {pp n : Nat} (h : FieldOK pp n) (b i : Nat) (hi : i < n) :
    (newField pp n b).alog.getD i 0 = (Spec.RS.BinField.mk pp n).pow 2 i := by
  rw [newField_alog _ _ _ _ hi, ok_spec_pow h]

/-! ### the six fields of the library -/

/-- `(pp, size, base)` of every `NewGaloisField` call in the library -/
def fields : List (Nat × Nat × Nat) :=
  [(19, 16, 1), (67, 64, 1), (285, 256, 0), (301, 256, 1), (1033, 1024, 1), (4201, 4096, 1)]

/-- certificate: the walk of `cert` is evaluated by the kernel for each of the six fields (O(n) steps each) -/
theorem fields_ok : ∀ t ∈ fields, FieldOK t.1 t.2.1 := by
  intro t ht
  simp only [fields, List.mem_cons, List.not_mem_nil, or_false] at ht
  rcases ht with rfl | rfl | rfl | rfl | rfl | rfl
  · exact ⟨⟨4, by decide, by decide⟩, by decide, by decide, cert_sound _ _ (by decide +kernel)⟩
  · exact ⟨⟨6, by decide, by decide⟩, by decide, by decide, cert_sound _ _ (by decide +kernel)⟩
  · exact ⟨⟨8, by decide, by decide⟩, by decide, by decide, cert_sound _ _ (by decide +kernel)⟩
  · exact ⟨⟨8, by decide, by decide⟩, by decide, by decide, cert_sound _ _ (by decide +kernel)⟩
  · exact ⟨⟨10, by decide, by decide⟩, by decide, by decide, cert_sound _ _ (by decide +kernel)⟩
  · exact ⟨⟨12, by decide, by decide⟩, by decide, by decide, cert_sound _ _ (by decide +kernel)⟩

end BV.Proofs.GF
