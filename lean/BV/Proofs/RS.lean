/-
  Proofs for C17, part 3: evaluation of polynomials and the Reed–Solomon encoder (`reedsolomon.go`).

  * `fpow`, `EV` (evaluation as a XOR-sum over coefficient functions), `ev` (Horner evaluation of a list);
    `EV` is additive and turns the Cauchy product `conv` into the product of the values.
  * `genPoly f d`: the generator polynomial `∏_{i<d} (x + α^(i+base))`; `CacheInv`: the cache of the encoder holds
    `genPoly f 0 … genPoly f (len-1)`.
  * `encodeWith_spec`: the check symbols make the codeword vanish at the roots of the generator polynomial, whatever
    the cache held before.
-/
import BV.Proofs.GFPoly
namespace BV.Proofs.GF
open BV BV.Model.GF

/-! ### powers and evaluation -/

/-- `x^k` in the field -/
def fpow (f : Field) (x : Nat) : Nat → Nat
  | 0 => 1
  | k + 1 => f.mul (fpow f x k) x

/-- evaluation of the polynomial with coefficient function `g` (degrees `< N`) at `x` -/
def EV (f : Field) (g : Nat → Nat) (N x : Nat) : Nat := xs N (fun d => f.mul (g d) (fpow f x d))

/-- Horner evaluation of a coefficient list (highest degree first), the shape of the specification's `eval` -/
def ev (f : Field) (p : Poly) (x : Nat) : Nat := p.foldl (fun acc c => f.mul acc x ^^^ c) 0

section laws
variable {f : Field} {n : Nat} (L : Laws f n)
include L

theorem fpow_lt (x : Nat) (hx : x < n) : ∀ k, fpow f x k < n
  | 0 => L.one_lt
  | k + 1 => L.mul_lt _ _ (fpow_lt x hx k) hx

theorem fpow_add (x : Nat) (hx : x < n) (a : Nat) : ∀ b, fpow f x (a + b) = f.mul (fpow f x a) (fpow f x b)
  | 0 => (L.mul_one _ (fpow_lt L x hx a)).symm
  | b + 1 => by
    show f.mul (fpow f x (a + b)) x = f.mul (fpow f x a) (f.mul (fpow f x b) x)
    rw [fpow_add x hx a b, L.mul_assoc _ _ _ (fpow_lt L x hx a) (fpow_lt L x hx b) hx]

theorem mul_mul_mul_comm (a b c d : Nat) (ha : a < n) (hb : b < n) (hc : c < n) (hd : d < n) :
    f.mul (f.mul a b) (f.mul c d) = f.mul (f.mul a c) (f.mul b d) := by
  rw [L.mul_assoc a b _ ha hb (L.mul_lt _ _ hc hd), L.mul_left_comm b c d hb hc hd,
    ← L.mul_assoc a c _ ha hc (L.mul_lt _ _ hb hd)]

theorem EV_lt (g : Nat → Nat) (hg : ∀ d, g d < n) (N x : Nat) (hx : x < n) : EV f g N x < n :=
  xs_lt L N (fun d _ => L.mul_lt _ _ (hg d) (fpow_lt L x hx d))

theorem EV_xor (g h : Nat → Nat) (hg : ∀ d, g d < n) (hh : ∀ d, h d < n) (N x : Nat) (hx : x < n) :
    EV f (fun d => g d ^^^ h d) N x = EV f g N x ^^^ EV f h N x := by
  unfold EV
  rw [← xs_xor]
  exact xs_congr N (fun d _ => L.mul_xor_left _ _ _ (hg d) (hh d) (fpow_lt L x hx d))

omit L in
theorem EV_congr (g h : Nat → Nat) (N x : Nat) (H : ∀ d, d < N → g d = h d) : EV f g N x = EV f h N x :=
  xs_congr N (fun d hd => by show f.mul (g d) _ = f.mul (h d) _; rw [H d hd])

omit L in
theorem EV_extend (g : Nat → Nat) (N N' x : Nat) (hN : N ≤ N') (H : ∀ d, N ≤ d → g d = 0) :
    EV f g N' x = EV f g N x :=
  xs_extend' N N' hN (fun d hd _ => by show f.mul (g d) _ = 0; rw [H d hd, mul_zero_left])

omit L in
theorem EV_zero (g : Nat → Nat) (N x : Nat) (H : ∀ d, d < N → g d = 0) : EV f g N x = 0 :=
  xs_zero N (fun d hd => by show f.mul (g d) _ = 0; rw [H d hd, mul_zero_left])

/-- evaluation is multiplicative: the value of the Cauchy product is the product of the values -/
theorem EV_conv (h : Nat → Nat) (M x : Nat) (hx : x < n) (hh : ∀ d, h d < n) (hhs : ∀ d, M ≤ d → h d = 0) :
    ∀ (N : Nat) (g : Nat → Nat), (∀ d, g d < n) → (∀ d, N ≤ d → g d = 0) →
      EV f (conv f g h) (N + M) x = f.mul (EV f g N x) (EV f h M x)
  | 0, g, _, hgs => by
    rw [EV_zero (conv f g h) _ x (fun d _ => conv_zero_left f g h (fun i => hgs i (by omega)) d)]
    show 0 = f.mul 0 _
    rw [mul_zero_left]
  | N + 1, g, hg, hgs => by
    have hxp := fpow_lt L x hx
    -- split `g` into its part below degree `N` and the monomial of degree `N`
    have hsplit : g = fun i => (if i < N then g i else 0) ^^^ (if i = N then g N else 0) := by
      funext i
      by_cases h1 : i < N
      · rw [if_pos h1, if_neg (by omega), Nat.xor_zero]
      · by_cases h2 : i = N
        · rw [if_neg h1, if_pos h2, h2, Nat.zero_xor]
        · rw [if_neg h1, if_neg h2, hgs i (by omega)]; rfl
    have hg' : ∀ i, (if i < N then g i else 0) < n := fun i => by split; exact hg i; exact L.pos
    have hδ : ∀ i, (if i = N then g N else 0) < n := fun i => by split; exact hg N; exact L.pos
    have hconv : conv f g h = fun d => conv f (fun i => if i < N then g i else 0) h d ^^^
        conv f (fun i => if i = N then g N else 0) h d := by
      funext d
      conv => lhs; rw [hsplit]
      exact conv_xor_left L _ _ _ hg' hδ hh d
    rw [hconv, EV_xor L _ _ (conv_lt L _ _ hg' hh) (conv_lt L _ _ hδ hh) _ x hx]
    -- the low part: induction hypothesis
    have hlow : EV f (conv f (fun i => if i < N then g i else 0) h) (N + 1 + M) x =
        f.mul (EV f g N x) (EV f h M x) := by
      rw [EV_extend _ (N + M) (N + 1 + M) x (by omega), EV_conv h M x hx hh hhs N _ hg'
        (fun d hd => by rw [if_neg (by omega)])]
      · rw [EV_congr _ g N x (fun d hd => by rw [if_pos hd])]
      · intro d hd
        apply xs_zero
        intro i _
        show f.mul (if i < N then g i else 0) (h (d - i)) = 0
        split
        · rw [hhs _ (by omega), mul_zero_right]
        · rw [mul_zero_left]
    -- the monomial: shift and scale
    have hhigh : EV f (conv f (fun i => if i = N then g N else 0) h) (N + 1 + M) x =
        f.mul (f.mul (g N) (fpow f x N)) (EV f h M x) := by
      have e : N + 1 + M = N + (M + 1) := by omega
      unfold EV
      rw [e, xs_add, xs_zero N (fun d hd => by rw [conv_delta, if_pos hd, mul_zero_left]), Nat.zero_xor]
      have : ∀ j, j < M + 1 →
          f.mul (conv f (fun i => if i = N then g N else 0) h (N + j)) (fpow f x (N + j)) =
            f.mul (f.mul (g N) (fpow f x N)) (f.mul (h j) (fpow f x j)) := by
        intro j _
        rw [conv_delta, if_neg (by omega), Nat.add_sub_cancel_left, fpow_add L x hx,
          mul_mul_mul_comm L _ _ _ _ (hg N) (hh j) (hxp N) (hxp j)]
      rw [xs_congr (M + 1) this, ← xs_mul L _ (L.mul_lt _ _ (hg N) (hxp N)) (M + 1)
        (fun i _ => L.mul_lt _ _ (hh i) (hxp i))]
      congr 1
      exact EV_extend h M (M + 1) x (by omega) hhs
    rw [hlow, hhigh]
    show _ = f.mul (EV f g N x ^^^ f.mul (g N) (fpow f x N)) _
    rw [L.mul_xor_left _ _ _ (EV_lt L g hg N x hx) (L.mul_lt _ _ (hg N) (hxp N)) (EV_lt L h hh M x hx)]

/-- Horner evaluation with a start value -/
theorem foldl_ev (x : Nat) (hx : x < n) : ∀ (p : Poly) (acc : Nat), acc < n → AllLt n p →
    p.foldl (fun acc c => f.mul acc x ^^^ c) acc =
      f.mul acc (fpow f x p.length) ^^^ EV f (cf p) p.length x
  | [], acc, ha, _ => by
    show acc = f.mul acc 1 ^^^ 0
    rw [L.mul_one acc ha, Nat.xor_zero]
  | c :: p, acc, ha, hp => by
    have hc : c < n := hp c (List.mem_cons_self ..)
    have hp' : AllLt n p := fun y hy => hp y (List.mem_cons_of_mem _ hy)
    have hxp := fpow_lt L x hx
    rw [List.foldl_cons, foldl_ev x hx p _ (L.xor_lt _ _ (L.mul_lt _ _ ha hx) hc) hp',
      L.mul_xor_left _ _ _ (L.mul_lt _ _ ha hx) hc (hxp _), List.length_cons]
    show _ = f.mul acc (f.mul (fpow f x p.length) x) ^^^
      (xs p.length (fun d => f.mul (cf (c :: p) d) (fpow f x d)) ^^^ f.mul (cf (c :: p) p.length) (fpow f x p.length))
    rw [xs_congr p.length (g := fun d => f.mul (cf (c :: p) d) (fpow f x d))
        (h := fun d => f.mul (cf p d) (fpow f x d))
        (fun d hd => by show f.mul (cf (c :: p) d) _ = _; rw [cf_cons, if_neg (by omega)]),
      cf_cons, if_pos rfl, L.mul_assoc _ _ _ ha hx (hxp _), mul_comm f x]
    show _ ^^^ _ ^^^ EV f (cf p) p.length x = _ ^^^ (EV f (cf p) p.length x ^^^ _)
    rw [Nat.xor_assoc, Nat.xor_comm (f.mul c _)]

/-- Horner evaluation is the XOR-sum of `coefficient · x^degree` -/
theorem ev_eq_EV (p : Poly) (hp : AllLt n p) (x : Nat) (hx : x < n) : ev f p x = EV f (cf p) p.length x := by
  unfold ev
  rw [foldl_ev L x hx p 0 L.pos hp, mul_zero_left, Nat.zero_xor]

theorem ev_eq_EV' (p : Poly) (hp : AllLt n p) (x : Nat) (hx : x < n) (N : Nat) (hN : p.length ≤ N) :
    ev f p x = EV f (cf p) N x := by
  rw [ev_eq_EV L p hp x hx, EV_extend (cf p) p.length N x hN (fun d hd => cf_ge p d hd)]

end laws

/-! ### evaluation of products -/

theorem ev_polyMul {f : Field} {n : Nat} (L : Laws f n) (p q : Poly) (hp : Norm p) (hq : Norm q)
    (hap : AllLt n p) (haq : AllLt n q) (x : Nat) (hx : x < n) :
    ev f (polyMul f p q) x = f.mul (ev f p x) (ev f q x) := by
  obtain ⟨h1, _, h3, _⟩ := polyMul_spec L p q hp hq hap haq
  rw [ev_eq_EV' L _ h3 x hx ((polyMul f p q).length + (p.length + q.length)) (by omega),
    EV_congr _ (conv f (cf p) (cf q)) _ x (fun d _ => h1 d),
    EV_extend _ (p.length + q.length) _ x (by omega) (fun d hd => conv_ge f p q d (by omega)),
    EV_conv L (cf q) q.length x hx (fun d => cf_lt L.pos q d haq) (fun d hd => cf_ge q d hd) p.length (cf p)
      (fun d => cf_lt L.pos p d hap) (fun d hd => cf_ge p d hd),
    ← ev_eq_EV L p hap x hx, ← ev_eq_EV L q haq x hx]

/-! ### the generator polynomials and the cache -/

/-- the linear factor `x + α^j` as the encoder builds it -/
def linFactor (f : Field) (j : Nat) : Poly := newPoly [1, f.alog.getD j 0]

/-- `∏_{i<d} (x + α^(i+base))`, computed as `getPolynomial` does -/
def genPoly (f : Field) : Nat → Poly
  | 0 => newPoly [1]
  | d + 1 => polyMul f (genPoly f d) (linFactor f (d + f.base))

/-- the cache holds the generator polynomials of degree `0 … len-1` -/
def CacheInv (f : Field) (c : Cache) : Prop := c ≠ [] ∧ ∀ d, d < c.length → c[d]? = some (genPoly f d)

theorem linFactor_eq (f : Field) (j : Nat) : linFactor f j = [1, f.alog.getD j 0] := by
  unfold linFactor
  rw [newPoly_cons_cons, if_neg (by decide)]

theorem ev_lin {f : Field} {n : Nat} (L : Laws f n) (a x : Nat) (hx : x < n) : ev f [1, a] x = x ^^^ a := by
  show f.mul (f.mul 0 x ^^^ 1) x ^^^ a = _
  rw [mul_zero_left, Nat.zero_xor, L.one_mul x hx]

/-- the generator polynomial of degree `d` is monic of degree `d` and vanishes at `α^base … α^(base+d-1)` -/
theorem genPoly_spec {f : Field} {n : Nat} (L : Laws f n) : ∀ d, (∀ i, i < d → f.alog.getD (i + f.base) 0 < n) →
    Norm (genPoly f d) ∧ AllLt n (genPoly f d) ∧ (genPoly f d).length = d + 1 ∧ (genPoly f d).headD 0 = 1 ∧
    ∀ i, i < d → ev f (genPoly f d) (f.alog.getD (i + f.base) 0) = 0
  | 0, _ => by
    refine ⟨Or.inl rfl, ?_, rfl, rfl, fun i hi => by omega⟩
    intro x hx
    have : x = 1 := by simpa [genPoly, newPoly] using hx
    rw [this]; exact L.one_lt
  | d + 1, hal => by
    obtain ⟨g1, g2, g3, g4, g5⟩ := genPoly_spec L d (fun i hi => hal i (by omega))
    have ha := hal d (by omega)
    have hlin : AllLt n [1, f.alog.getD (d + f.base) 0] := by
      intro x hx
      simp only [List.mem_cons, List.not_mem_nil, or_false] at hx
      rcases hx with rfl | rfl
      · exact L.one_lt
      · exact ha
    have hnl : Norm [1, f.alog.getD (d + f.base) 0] := Or.inr (by show (1 : Nat) ≠ 0; decide)
    have hgen : genPoly f (d + 1) = polyMul f (genPoly f d) [1, f.alog.getD (d + f.base) 0] := by
      show polyMul f (genPoly f d) (linFactor f (d + f.base)) = _
      rw [linFactor_eq]
    rw [hgen]
    obtain ⟨m1, m2, m3, m4⟩ := polyMul_spec L _ _ g1 hnl g2 hlin
    have hz1 : isZero (genPoly f d) = false := by unfold isZero; rw [g4]; rfl
    obtain ⟨m5, m6⟩ := m4 hz1 rfl
    refine ⟨m2, m3, ?_, ?_, fun i hi => ?_⟩
    · rw [m5, g3]; rfl
    · rw [m6, g4]; exact L.mul_one 1 L.one_lt
    · have hx := hal i hi
      rw [ev_polyMul L _ _ g1 hnl g2 hlin _ hx]
      by_cases hid : i < d
      · rw [g5 i hid, mul_zero_left]
      · have : i = d := by omega
        rw [this, ev_lin L _ _ ha, Nat.xor_self, mul_zero_right]

theorem cacheInv_new (f : Field) : CacheInv f newEncoder := by
  refine ⟨by simp [newEncoder], fun d hd => ?_⟩
  have : d = 0 := by simp [newEncoder] at hd; omega
  subst this; rfl

theorem extend_succ (f : Field) (k d : Nat) (last : Poly) (cache : Cache) :
    getPolynomial.extend f (k + 1) d last cache =
      getPolynomial.extend f k (d + 1) (polyMul f last (newPoly [1, f.alog.getD (d - 1 + f.base) 0]))
        (cache ++ [polyMul f last (newPoly [1, f.alog.getD (d - 1 + f.base) 0])]) := rfl

theorem extend_spec (f : Field) : ∀ (k d : Nat) (last : Poly) (cache : Cache), CacheInv f cache →
    cache.length = d → last = genPoly f (d - 1) →
    CacheInv f (getPolynomial.extend f k d last cache) ∧ (getPolynomial.extend f k d last cache).length = d + k
  | 0, d, _, cache, hc, hl, _ => ⟨hc, hl⟩
  | k + 1, d, last, cache, hc, hl, hlast => by
    have hd : 0 < d := by rw [← hl]; exact List.length_pos_iff.mpr hc.1
    have hnext : polyMul f last (newPoly [1, f.alog.getD (d - 1 + f.base) 0]) = genPoly f d := by
      obtain ⟨e, rfl⟩ : ∃ e, d = e + 1 := ⟨d - 1, by omega⟩
      rw [hlast]; rfl
    rw [extend_succ, hnext]
    have hc' : CacheInv f (cache ++ [genPoly f d]) := by
      refine ⟨by simp, fun i hi => ?_⟩
      rw [List.length_append, List.length_singleton] at hi
      by_cases hid : i < cache.length
      · rw [List.getElem?_append_left hid]; exact hc.2 i hid
      · have : i = cache.length := by omega
        rw [this, List.getElem?_concat_length, hl]
    obtain ⟨r1, r2⟩ := extend_spec f k (d + 1) (genPoly f d) (cache ++ [genPoly f d]) hc'
      (by rw [List.length_append, List.length_singleton, hl]) rfl
    exact ⟨r1, by rw [r2]; omega⟩

/-- `getPolynomial` returns the generator polynomial of the requested degree whatever the cache holds, and keeps
    the cache invariant -/
theorem getPolynomial_spec (f : Field) (c : Cache) (hc : CacheInv f c) (k : Nat) :
    (getPolynomial f c k).1 = genPoly f k ∧ CacheInv f (getPolynomial f c k).2 := by
  unfold getPolynomial
  by_cases h : k ≥ c.length
  · simp only [if_pos h]
    have hl := List.length_pos_iff.mpr hc.1
    have hlast : c.getLastD [] = genPoly f (c.length - 1) := by
      rw [List.getLastD_eq_getLast?, List.getLast?_eq_getElem?, hc.2 _ (by omega)]; rfl
    obtain ⟨r1, r2⟩ := extend_spec f (k + 1 - c.length) c.length _ c hc rfl hlast
    refine ⟨?_, r1⟩
    rw [List.getD_eq_getElem?_getD, r1.2 k (by rw [r2]; omega)]; rfl
  · simp only [if_neg h]
    refine ⟨?_, hc⟩
    rw [List.getD_eq_getElem?_getD, hc.2 k (by omega)]; rfl

/-! ### `Encode` -/

theorem encodeWith_eq (f : Field) (c : Cache) (data : List Nat) (k : Nat) :
    encodeWith f c data k =
      (List.replicate (k - (polyDiv f (mulMonomial f (newPoly data) k 1) (getPolynomial f c k).1).2.length) 0 ++
        (polyDiv f (mulMonomial f (newPoly data) k 1) (getPolynomial f c k).1).2, (getPolynomial f c k).2) := rfl

/-- the check symbols for `data`, computed from the generator polynomial directly (no cache) -/
def checkSymbols (f : Field) (data : List Nat) (k : Nat) : List Nat :=
  List.replicate (k - (polyDiv f (mulMonomial f (newPoly data) k 1) (genPoly f k)).2.length) 0 ++
    (polyDiv f (mulMonomial f (newPoly data) k 1) (genPoly f k)).2

theorem encodeWith_fst (f : Field) (c : Cache) (hc : CacheInv f c) (data : List Nat) (k : Nat) :
    (encodeWith f c data k).1 = checkSymbols f data k := by
  rw [encodeWith_eq, (getPolynomial_spec f c hc k).1]; rfl

theorem encodeWith_snd (f : Field) (c : Cache) (hc : CacheInv f c) (data : List Nat) (k : Nat) :
    CacheInv f (encodeWith f c data k).2 := by
  rw [encodeWith_eq]; exact (getPolynomial_spec f c hc k).2

theorem checkSymbols_spec {f : Field} {n : Nat} (L : Laws f n) (k : Nat) (hk : 1 ≤ k)
    (hal : ∀ i, i < k → f.alog.getD (i + f.base) 0 < n) (data : List Nat) (hd : AllLt n data) :
    (checkSymbols f data k).length = k ∧ AllLt n (checkSymbols f data k) ∧
    ∀ i, i < k → ev f (data ++ checkSymbols f data k) (f.alog.getD (i + f.base) 0) = 0 := by
  obtain ⟨g1, g2, g3, g4, g5⟩ := genPoly_spec L k hal
  obtain ⟨i1, i2, i3⟩ := mulMonomial_spec L (newPoly data) k 1
  have i2 := i2 (Or.inr (by omega))
  have i3 := i3 (newPoly_allLt _ hd) L.one_lt
  have hinfo : ∀ d, cf (mulMonomial f (newPoly data) k 1) d = if d < k then 0 else cf data (d - k) := by
    intro d
    rw [i1 d, cf_newPoly]
    split
    · rfl
    · exact L.mul_one _ (cf_lt L.pos _ _ hd)
  obtain ⟨q1, q2, q3, q4, q5, q6⟩ := polyDiv_spec L _ (genPoly f k) i2 i3 g2 (by rw [g4]; decide)
  unfold checkSymbols
  generalize (polyDiv f (mulMonomial f (newPoly data) k 1) (genPoly f k)).2 = rem at q2 q4 q5 q6
  generalize (polyDiv f (mulMonomial f (newPoly data) k 1) (genPoly f k)).1 = quo at q1 q3 q6
  have hrl : rem.length ≤ k := by
    rcases q5 with h | h
    · rw [h]; exact hk
    · rw [g3] at h; omega
  have hlen : (List.replicate (k - rem.length) 0 ++ rem).length = k := by
    rw [List.length_append, List.length_replicate]; omega
  have hall : AllLt n (List.replicate (k - rem.length) 0 ++ rem) := by
    intro x hx
    rw [List.mem_append, List.mem_replicate] at hx
    rcases hx with ⟨_, rfl⟩ | hx
    · exact L.pos
    · exact q4 x hx
  refine ⟨hlen, hall, fun i hi => ?_⟩
  have hx := hal i hi
  have hroot := g5 i hi
  generalize f.alog.getD (i + f.base) 0 = x at hx hroot
  -- the codeword is the product quotient × generator
  have hword : ∀ d, cf (data ++ (List.replicate (k - rem.length) 0 ++ rem)) d =
      conv f (cf quo) (cf (genPoly f k)) d := by
    intro d
    have h6 := q6 d
    rw [hinfo d] at h6
    rw [cf_append, hlen]
    by_cases hdk : d < k
    · rw [if_pos hdk] at h6 ⊢
      rw [cf_append]
      have hc : conv f (cf quo) (cf (genPoly f k)) d = cf rem d := by
        have := congrArg (· ^^^ cf rem d) h6
        simp only [Nat.xor_assoc, Nat.xor_self, Nat.xor_zero, Nat.zero_xor] at this
        exact this.symm
      rw [hc]
      split
      · rfl
      · rw [cf_replicate_zero, cf_ge rem d (by omega)]
    · rw [if_neg hdk] at h6 ⊢
      rw [cf_ge rem d (by omega), Nat.xor_zero] at h6
      exact h6
  have hwall : AllLt n (data ++ (List.replicate (k - rem.length) 0 ++ rem)) := by
    intro y hy
    rw [List.mem_append] at hy
    rcases hy with hy | hy
    · exact hd y hy
    · exact hall y hy
  rw [ev_eq_EV' L _ hwall x hx
      ((data ++ (List.replicate (k - rem.length) 0 ++ rem)).length + (quo.length + (genPoly f k).length))
      (by omega),
    EV_congr _ (conv f (cf quo) (cf (genPoly f k))) _ x (fun d _ => hword d),
    EV_extend _ (quo.length + (genPoly f k).length) _ x (by omega)
      (fun d hd => conv_ge f quo (genPoly f k) d (by omega)),
    EV_conv L (cf (genPoly f k)) (genPoly f k).length x hx (fun d => cf_lt L.pos _ d g2)
      (fun d hd => cf_ge _ d hd) quo.length (cf quo) (fun d => cf_lt L.pos _ d q3) (fun d hd => cf_ge _ d hd),
    ← ev_eq_EV L _ g2 x hx, hroot, mul_zero_right]

/-! ### the specification's validity predicate -/

theorem spec_foldl_eq {pp n : Nat} (h : FieldOK pp n) (b x : Nat) (hx : x < n) :
    ∀ (word : List Nat) (acc : Nat), acc < n → AllLt n word →
      word.foldl (fun acc c => (Spec.RS.BinField.mk pp n).mul acc x ^^^ c) acc =
        word.foldl (fun acc c => (newField pp n b).mul acc x ^^^ c) acc
  | [], _, _, _ => rfl
  | c :: w, acc, ha, hw => by
    have L := laws_of_ok h b
    rw [List.foldl_cons, List.foldl_cons, ← ok_mul_eq_spec h b acc x ha hx]
    exact spec_foldl_eq h b x hx w _
      (L.xor_lt _ _ (L.mul_lt _ _ ha hx) (hw c (List.mem_cons_self ..)))
      (fun y hy => hw y (List.mem_cons_of_mem _ hy))

theorem spec_eval_eq {pp n : Nat} (h : FieldOK pp n) (b : Nat) (word : List Nat) (hw : AllLt n word) (x : Nat)
    (hx : x < n) : (Spec.RS.BinField.mk pp n).eval word x = ev (newField pp n b) word x :=
  spec_foldl_eq h b x hx word 0 (laws_of_ok h b).pos hw

/-- M4 for a field given by `FieldOK`: length, range, validity, independence of the cache, cache invariant -/
theorem ok_encode {pp n : Nat} (h : FieldOK pp n) (b k : Nat) (hk : 1 ≤ k) (hkb : k + b ≤ n) (c : Cache)
    (hc : CacheInv (newField pp n b) c) (data : List Nat) (hd : AllLt n data) :
    ((encodeWith (newField pp n b) c data k).1).length = k ∧
    AllLt n (encodeWith (newField pp n b) c data k).1 ∧
    (Spec.RS.BinField.mk pp n).valid b k (data ++ (encodeWith (newField pp n b) c data k).1) = true ∧
    (encodeWith (newField pp n b) c data k).1 = rsEncode (newField pp n b) data k ∧
    CacheInv (newField pp n b) (encodeWith (newField pp n b) c data k).2 := by
  have L := laws_of_ok h b
  have hal : ∀ i, i < k → (newField pp n b).alog.getD (i + (newField pp n b).base) 0 = pw pp n (b + i) := by
    intro i hi
    rw [newField_base, newField_alog _ _ _ _ (by omega), Nat.add_comm]
  obtain ⟨s1, s2, s3⟩ := checkSymbols_spec L k hk (fun i hi => by rw [hal i hi]; exact pw_lt h.prim _) data hd
  have e1 := encodeWith_fst _ c hc data k
  have e2 : rsEncode (newField pp n b) data k = checkSymbols (newField pp n b) data k :=
    encodeWith_fst _ newEncoder (cacheInv_new _) data k
  rw [e1]
  refine ⟨s1, s2, ?_, e2.symm, encodeWith_snd _ c hc data k⟩
  have hwall : AllLt n (data ++ checkSymbols (newField pp n b) data k) := by
    intro y hy
    rw [List.mem_append] at hy
    rcases hy with hy | hy
    · exact hd y hy
    · exact s2 y hy
  unfold Spec.RS.BinField.valid
  rw [Bool.and_eq_true, List.all_eq_true, List.all_eq_true]
  refine ⟨fun i hi => ?_, fun y hy => by simpa using hwall y hy⟩
  rw [List.mem_range] at hi
  rw [beq_iff_eq, ok_spec_pow h, spec_eval_eq h b _ hwall _ (pw_lt h.prim _), ← hal i hi]
  exact s3 i hi

theorem fields_base : ∀ t ∈ fields, t.2.2 ≤ 1 := by decide

/-! ### uniqueness of the check symbols (root counting) -/

theorem eq_of_xor_eq_zero (a b : Nat) (h : a ^^^ b = 0) : a = b := by
  have : a ^^^ (a ^^^ b) = b := by rw [← Nat.xor_assoc, Nat.xor_self, Nat.zero_xor]
  rw [h, Nat.xor_zero] at this
  exact this

section unique
variable {f : Field} {n : Nat} (L : Laws f n)
include L

theorem ev_lt (p : Poly) (hp : AllLt n p) (x : Nat) (hx : x < n) : ev f p x < n := by
  rw [ev_eq_EV L p hp x hx]; exact EV_lt L _ (fun d => cf_lt L.pos p d hp) _ x hx

theorem ev_of_cf (p q : Poly) (hp : AllLt n p) (hq : AllLt n q) (h : ∀ d, cf p d = cf q d) (x : Nat) (hx : x < n) :
    ev f p x = ev f q x := by
  rw [ev_eq_EV' L p hp x hx (p.length + q.length) (by omega),
    ev_eq_EV' L q hq x hx (p.length + q.length) (by omega)]
  exact EV_congr _ _ _ x (fun d _ => h d)

theorem ev_xor_of_cf (p q r : Poly) (hp : AllLt n p) (hq : AllLt n q) (hr : AllLt n r)
    (h : ∀ d, cf r d = cf p d ^^^ cf q d) (x : Nat) (hx : x < n) : ev f r x = ev f p x ^^^ ev f q x := by
  rw [ev_eq_EV' L p hp x hx (p.length + q.length + r.length) (by omega),
    ev_eq_EV' L q hq x hx (p.length + q.length + r.length) (by omega),
    ev_eq_EV' L r hr x hx (p.length + q.length + r.length) (by omega),
    ← EV_xor L _ _ (fun d => cf_lt L.pos p d hp) (fun d => cf_lt L.pos q d hq) _ x hx]
  exact EV_congr _ _ _ x (fun d _ => h d)

theorem ev_polyAdd (p q : Poly) (hp : Norm p) (hq : Norm q) (hap : AllLt n p) (haq : AllLt n q) (x : Nat)
    (hx : x < n) : ev f (polyAdd p q) x = ev f p x ^^^ ev f q x := by
  obtain ⟨h1, _, h3⟩ := polyAdd_spec L p q hp hq
  exact ev_xor_of_cf L p q _ hap haq (h3 hap haq) h1 x hx

omit L in
theorem ev_singleton (c x : Nat) : ev f [c] x = c := by
  show f.mul 0 x ^^^ c = c
  rw [mul_zero_left, Nat.zero_xor]

theorem mul_eq_zero (a b : Nat) (ha : a < n) (hb : b < n) (h : f.mul a b = 0) : a = 0 ∨ b = 0 := by
  rcases Nat.eq_zero_or_pos a with h0 | h0
  · exact Or.inl h0
  rcases Nat.eq_zero_or_pos b with h1 | h1
  · exact Or.inr h1
  have := L.mul_pos a b h0 ha h1 hb
  omega

/-- a polynomial with at most `k` coefficients (degree `< k`) and `k` distinct roots is zero -/
theorem roots_zero : ∀ (k : Nat) (x : Nat → Nat) (p : Poly), Norm p → AllLt n p → p.length ≤ k →
    (∀ i, i < k → x i < n) → (∀ i j, i < j → j < k → x i ≠ x j) → (∀ i, i < k → ev f p (x i) = 0) → p = [0]
  | 0, _, p, hp, _, hl, _, _, _ => by have := hp.length_pos; omega
  | k + 1, x, p, hp, hap, hl, hx, hdist, hroot => by
    have hr := hx k (by omega)
    have hlinA : AllLt n [1, x k] := by
      intro y hy
      simp only [List.mem_cons, List.not_mem_nil, or_false] at hy
      rcases hy with rfl | rfl
      · exact L.one_lt
      · exact hr
    have hlinN : Norm [1, x k] := Or.inr (by show (1 : Nat) ≠ 0; decide)
    have hlead : ([1, x k] : Poly).headD 0 ≠ 0 := by show (1 : Nat) ≠ 0; decide
    obtain ⟨r1, r2, r3, r4, r5, _⟩ := polyDiv_spec L p [1, x k] hp hap hlinA hlead
    have hrec := polyDiv_recompose L p [1, x k] hp hap hlinA hlead
    generalize (polyDiv f p [1, x k]).1 = quo at r1 r3 hrec
    generalize (polyDiv f p [1, x k]).2 = rem at r2 r4 r5 hrec
    obtain ⟨m1, m2, m3, m4⟩ := polyMul_spec L quo [1, x k] r1 hlinN r3 hlinA
    -- the remainder is a constant, and it is the value at the root
    have hrem : rem = [0] := by
      rcases r5 with h | h
      · exact h
      · have hl1 : rem.length = 1 := by have := r2.length_pos; simp only [List.length_cons, List.length_nil] at h; omega
        match rem, hl1 with
        | [c], _ =>
          have h0 := hroot k (by omega)
          rw [← hrec, ev_polyAdd L _ _ m2 r2 m3 r4 _ hr, ev_polyMul L _ _ r1 hlinN r3 hlinA _ hr,
            ev_lin L _ _ hr, Nat.xor_self, mul_zero_right, Nat.zero_xor, ev_singleton] at h0
          rw [h0]
    -- so the dividend is the product
    have hp_eq : p = polyMul f quo [1, x k] := by
      rw [← hrec, hrem]
      unfold polyAdd
      by_cases hz : isZero (polyMul f quo [1, x k]) = true
      · rw [if_pos hz, (isZero_iff m2).mp hz]
      · rw [if_neg hz, if_pos (show isZero [0] = true from rfl)]
    by_cases hzq : isZero quo = true
    · rw [hp_eq]
      unfold polyMul
      rw [if_pos (Or.inl hzq)]; rfl
    · have hzq' : isZero quo = false := by simpa using hzq
      obtain ⟨m5, _⟩ := m4 hzq' rfl
      have hql : quo.length ≤ k := by
        rw [hp_eq, m5] at hl
        simp only [List.length_cons, List.length_nil] at hl
        omega
      have hquo : quo = [0] := by
        apply roots_zero k x quo r1 r3 hql (fun i hi => hx i (by omega))
          (fun i j hij hj => hdist i j hij (by omega))
        intro i hi
        have h0 := hroot i (by omega)
        have hxi := hx i (by omega)
        rw [hp_eq, ev_polyMul L _ _ r1 hlinN r3 hlinA _ hxi, ev_lin L _ _ hxi] at h0
        rcases mul_eq_zero L _ _ (ev_lt L quo r3 _ hxi) (L.xor_lt _ _ hxi hr) h0 with h | h
        · exact h
        · exact absurd (eq_of_xor_eq_zero _ _ h) (hdist i k hi (by omega))
      rw [hquo] at hzq
      exact absurd rfl hzq

/-- two words with the same data part and `k` check symbols each that vanish at the same `k` distinct points
    have the same check symbols -/
theorem check_unique (k : Nat) (x : Nat → Nat) (hx : ∀ i, i < k → x i < n)
    (hdist : ∀ i j, i < j → j < k → x i ≠ x j) (data e e' : List Nat) (hd : AllLt n data) (he : AllLt n e)
    (he' : AllLt n e') (hl : e.length = k) (hl' : e'.length = k)
    (h0 : ∀ i, i < k → ev f (data ++ e) (x i) = 0) (h0' : ∀ i, i < k → ev f (data ++ e') (x i) = 0) :
    e = e' := by
  rcases Nat.eq_zero_or_pos k with hk | hk
  · subst hk
    rw [List.length_eq_zero_iff.mp hl, List.length_eq_zero_iff.mp hl']
  have happ : ∀ t, AllLt n t → AllLt n (data ++ t) := by
    intro t ht y hy
    rw [List.mem_append] at hy
    rcases hy with hy | hy
    · exact hd y hy
    · exact ht y hy
  have hδa : AllLt n (List.zipWith (· ^^^ ·) e e') := allLt_zipWith_xor L e e' he he'
  have hδl : (List.zipWith (· ^^^ ·) e e').length = k := by rw [List.length_zipWith, hl, hl', Nat.min_self]
  have hδne : List.zipWith (· ^^^ ·) e e' ≠ [] := by
    intro h; rw [h] at hδl; simp at hδl; omega
  have hcf : ∀ d, cf (List.zipWith (· ^^^ ·) e e') d = cf (data ++ e) d ^^^ cf (data ++ e') d := by
    intro d
    rw [cf_append, cf_append, hl, hl']
    split
    · exact cf_zipWith_xor e e' d (by rw [hl, hl'])
    · rw [Nat.xor_self, cf_ge _ d (by omega)]
  have hz : newPoly (List.zipWith (· ^^^ ·) e e') = [0] := by
    apply roots_zero L k x _ (newPoly_norm _ hδne) (newPoly_allLt _ hδa)
      (by have := newPoly_length_le (List.zipWith (· ^^^ ·) e e'); omega) hx hdist
    intro i hi
    rw [ev_of_cf L _ _ (newPoly_allLt _ hδa) hδa (cf_newPoly _) _ (hx i hi),
      ev_xor_of_cf L _ _ _ (happ e he) (happ e' he') hδa hcf _ (hx i hi), h0 i hi, h0' i hi]; rfl
  apply eq_of_cf_of_length e e' (by rw [hl, hl'])
  intro d
  apply eq_of_xor_eq_zero
  by_cases hdk : d < k
  · have := cf_newPoly (List.zipWith (· ^^^ ·) e e') d
    rw [hz, cf_zipWith_xor e e' d (by rw [hl, hl'])] at this
    rw [← this, cf_cons]; split <;> rfl
  · rw [cf_ge e d (by omega), cf_ge e' d (by omega)]; rfl

end unique

/-- the generator polynomial in the specification's terms -/
theorem ok_genPoly {pp n : Nat} (h : FieldOK pp n) (b k : Nat) (hkb : k + b ≤ n) :
    (genPoly (newField pp n b) k).length = k + 1 ∧ (genPoly (newField pp n b) k).headD 0 = 1 ∧
    AllLt n (genPoly (newField pp n b) k) ∧
    ∀ i, i < k → (Spec.RS.BinField.mk pp n).eval (genPoly (newField pp n b) k)
      ((Spec.RS.BinField.mk pp n).pow 2 (b + i)) = 0 := by
  have L := laws_of_ok h b
  have hal : ∀ i, i < k → (newField pp n b).alog.getD (i + (newField pp n b).base) 0 = pw pp n (b + i) := by
    intro i hi
    rw [newField_base, newField_alog _ _ _ _ (by omega), Nat.add_comm]
  obtain ⟨_, g2, g3, g4, g5⟩ := genPoly_spec L k (fun i hi => by rw [hal i hi]; exact pw_lt h.prim _)
  refine ⟨g3, g4, g2, fun i hi => ?_⟩
  rw [ok_spec_pow h, spec_eval_eq h b _ g2 _ (pw_lt h.prim _), ← hal i hi]
  exact g5 i hi

/-- the specification's validity predicate in terms of `ev` -/
theorem valid_iff {pp n : Nat} (h : FieldOK pp n) (b k : Nat) (w : List Nat) :
    (Spec.RS.BinField.mk pp n).valid b k w = true ↔
      AllLt n w ∧ ∀ i, i < k → ev (newField pp n b) w (pw pp n (b + i)) = 0 := by
  unfold Spec.RS.BinField.valid
  rw [Bool.and_eq_true, List.all_eq_true, List.all_eq_true]
  constructor
  · rintro ⟨h1, h2⟩
    have hw : AllLt n w := fun y hy => by simpa using h2 y hy
    refine ⟨hw, fun i hi => ?_⟩
    have := h1 i (List.mem_range.mpr hi)
    rw [beq_iff_eq, ok_spec_pow h, spec_eval_eq h b _ hw _ (pw_lt h.prim _)] at this
    exact this
  · rintro ⟨hw, h1⟩
    refine ⟨fun i hi => ?_, fun y hy => by simpa using hw y hy⟩
    rw [List.mem_range] at hi
    rw [beq_iff_eq, ok_spec_pow h, spec_eval_eq h b _ hw _ (pw_lt h.prim _)]
    exact h1 i hi

/-- the roots `α^b, …, α^(b+k-1)` are distinct for `k ≤ n-1` -/
theorem roots_distinct {pp n : Nat} (h : FieldOK pp n) (b k : Nat) (hkn : k ≤ n - 1) (i j : Nat) (hij : i < j)
    (hj : j < k) : pw pp n (b + i) ≠ pw pp n (b + j) := by
  intro he
  have hm := pw_inj_mod h.prim _ _ he
  have := Nat.sub_mod_eq_zero_of_mod_eq hm.symm
  have e : b + j - (b + i) = j - i := by omega
  rw [e, Nat.mod_eq_of_lt (by omega)] at this
  omega

/-- uniqueness: the encoder's output is the only sequence of `k` symbols that completes `data` to a valid word -/
theorem ok_encode_unique {pp n : Nat} (h : FieldOK pp n) (b k : Nat) (hk : 1 ≤ k) (hkb : k + b ≤ n)
    (hkn : k ≤ n - 1) (data : List Nat) (hd : AllLt n data) (e' : List Nat) (hl' : e'.length = k)
    (hv : (Spec.RS.BinField.mk pp n).valid b k (data ++ e') = true) :
    e' = rsEncode (newField pp n b) data k := by
  have L := laws_of_ok h b
  obtain ⟨s1, s2, s3, s4, _⟩ := ok_encode h b k hk hkb newEncoder (cacheInv_new _) data hd
  rw [← s4]
  obtain ⟨hw', hr'⟩ := (valid_iff h b k _).mp hv
  obtain ⟨_, hr⟩ := (valid_iff h b k _).mp s3
  have he' : AllLt n e' := fun y hy => hw' y (List.mem_append_right _ hy)
  exact (check_unique L k (fun i => pw pp n (b + i)) (fun i _ => pw_lt h.prim _)
    (fun i j hij hj => roots_distinct h b k hkn i j hij hj) data _ e' hd s2 he' s1 hl' hr hr').symm

end BV.Proofs.GF
