/-
  BV.Proofs.AztecBits — shared vocabulary of the Aztec proofs: the model's `addBits` on non-negative values is
  `msbBits`, the reference decoder's `toNat` is `bitsToNat`, regrouping a bit list into words (`Spec.Aztec.groups`)
  and back, and `render`, the drawing tail of `encodeWithColor` as a function of its four inputs.
-/
import BV.Model.Aztec
import BV.Spec.Aztec
import BV.Proofs.Bits
namespace BV.Proofs.AztecBits
open BV BV.Model.Aztec BV.Proofs.Bits

/-! ### `addBits`, `toNat` -/

/-- bit `i` of a non-negative Go `int` -/
theorem intBit_natCast (n i : Nat) : intBit (n : Int) i = n.testBit i := by
  unfold intBit
  have e : ((n : Int) >>> i) = ((n >>> i : Nat) : Int) := rfl
  rw [e, Nat.testBit_eq_decide_div_mod_eq, Nat.shiftRight_eq_div_pow]
  have h : (((n / 2 ^ i : Nat) : Int) % 2) = ((n / 2 ^ i % 2 : Nat) : Int) := by simp
  rw [h]
  generalize n / 2 ^ i % 2 = t
  by_cases ht : t = 1
  · subst ht; simp
  · have : ((t : Int) == 1) = false := by
      simp only [beq_eq_false_iff_ne, ne_eq]; omega
    rw [this]; simp [ht]

/-- `AddBits(n, k)` for `n ≥ 0` writes the `k` low bits of `n`, most significant first -/
theorem addBits_natCast (n k : Nat) : addBits (n : Int) k = msbBits n k := by
  unfold addBits msbBits
  apply List.map_congr_left
  intro i _
  exact intBit_natCast n _

@[simp] theorem length_addBits (b : Int) (k : Nat) : (addBits b k).length = k := by simp [addBits]

/-- the reference decoder's big-endian value is `bitsToNat` -/
theorem toNat_eq (bs : List Bool) : Spec.Aztec.toNat bs = bitsToNat bs := by
  unfold Spec.Aztec.toNat bitsToNat
  congr 1
  funext a b
  cases b <;> rfl

/-- reading back a `k`-bit field -/
theorem toNat_msbBits (x k : Nat) (h : x < 2 ^ k) : Spec.Aztec.toNat (msbBits x k) = x := by
  rw [toNat_eq, bitsToNat_msbBits_of_lt x k h]

/-- reading a `k`-bit field in front of other bits -/
theorem toNat_take_msbBits (x k : Nat) (h : x < 2 ^ k) (rest : List Bool) :
    Spec.Aztec.toNat ((msbBits x k ++ rest).take k) = x := by
  have : (msbBits x k ++ rest).take k = msbBits x k := by
    rw [List.take_left' (length_msbBits x k)]
  rw [this, toNat_msbBits x k h]

theorem drop_msbBits (x k : Nat) (rest : List Bool) : (msbBits x k ++ rest).drop k = rest := by
  rw [List.drop_left' (length_msbBits x k)]

/-! ### words -/

/-- `n` words written with `w` bits each, followed by anything, regroup to the words -/
theorem groups_flatMap (w : Nat) (ws : List Nat) (h : ∀ x ∈ ws, x < 2 ^ w) (rest : List Bool) :
    Spec.Aztec.groups w ws.length (ws.flatMap (fun x => msbBits x w) ++ rest) = ws := by
  induction ws with
  | nil => rfl
  | cons x ws ih =>
    simp only [List.length_cons, Spec.Aztec.groups, List.flatMap_cons, List.append_assoc]
    rw [toNat_take_msbBits x w (h x (List.mem_cons_self ..)), drop_msbBits,
      ih (fun y hy => h y (List.mem_cons_of_mem _ hy))]

/-- the words of a bit list of `n·w` bits are below `2^w` and spell the list -/
theorem groups_spec (w : Nat) : ∀ (n : Nat) (bs : List Bool), bs.length = n * w →
    (Spec.Aztec.groups w n bs).length = n ∧ (∀ x ∈ Spec.Aztec.groups w n bs, x < 2 ^ w) ∧
    (Spec.Aztec.groups w n bs).flatMap (fun x => msbBits x w) = bs := by
  intro n
  induction n with
  | zero =>
    intro bs h
    have : bs = [] := List.eq_nil_of_length_eq_zero (by omega)
    subst this
    simp [Spec.Aztec.groups]
  | succ n ih =>
    intro bs h
    have hlen : bs.length = w + n * w := by rw [h, Nat.succ_mul]; omega
    have h1 : (bs.take w).length = w := by simp; omega
    have h2 : (bs.drop w).length = n * w := by simp; omega
    obtain ⟨a, b, c⟩ := ih (bs.drop w) h2
    simp only [Spec.Aztec.groups]
    refine ⟨by simp [a], ?_, ?_⟩
    · intro x hx
      rcases List.mem_cons.mp hx with rfl | hx
      · rw [toNat_eq]; have := bitsToNat_lt (bs.take w); rw [h1] at this; exact this
      · exact b x hx
    · rw [List.flatMap_cons, c, toNat_eq]
      have := msbBits_bitsToNat (bs.take w)
      rw [h1] at this
      rw [this, List.take_append_drop]

theorem length_groups (w n : Nat) (bs : List Bool) : (Spec.Aztec.groups w n bs).length = n := by
  induction n generalizing bs with
  | zero => rfl
  | succ n ih => simp [Spec.Aztec.groups, ih]

/-! ### the drawing part of `EncodeWithColor` -/

/-- the symbol that `EncodeWithColor` draws from the layer choice, the message bits (data and check words)
    and the mode message -/
def render (compact : Bool) (layers : Nat) (messageBits modeMessage : List Bool) (data : Bytes)
    (color : Scheme) : AztecCode :=
  let baseMatrixSize := if compact then 11 + layers * 4 else 14 + layers * 4
  let am := (alignmentMap compact baseMatrixSize).1
  let matrixSize := (alignmentMap compact baseMatrixSize).2
  let code := newAztecCode matrixSize color
  let code := { code with content := data }
  let code := drawDataBits code compact layers baseMatrixSize am messageBits.toArray
  let code := drawModeMessage code compact matrixSize modeMessage.toArray
  if compact then drawBullsEye code (matrixSize / 2) 5
  else drawReferenceGrid (drawBullsEye code (matrixSize / 2) 7) baseMatrixSize matrixSize

/-- `EncodeWithColor` is: high-level encoding, layer choice, check words, mode message, `render` -/
theorem encodeWithColor_eq (data : Bytes) (pct req : Int) (color : Scheme) :
    encodeWithColor data pct req color =
      (let bits := highlevelEncode data
       let eccBits : Int := Int.tdiv ((bits.length : Int) * pct) 100 + 11
       let totalSizeBits : Int := bits.length + eccBits
       (if req != Int.ofNat BV.Gen.Aztec.c_DEFAULT_LAYERS then explicitLayers bits eccBits req
        else autoLayers bits eccBits totalSizeBits (BV.Gen.Aztec.c_max_nb_bits + 2) 0 0 []) >>= fun lay =>
       generateCheckWords lay.stuffedBits lay.totalBitsInLayer lay.wordSize >>= fun messageBits =>
       generateModeMessage lay.compact lay.layers (lay.stuffedBits.length / lay.wordSize) >>= fun modeMessage =>
       pure (render lay.compact lay.layers messageBits modeMessage data color).toBarcode) := by
  unfold encodeWithColor render
  simp only []
  split <;> rfl

/-! ### shapes and accepted layouts -/

/-- the 36 symbol shapes: compact with 1–4 layers, full-range with 1–32 layers -/
def Shape (compact : Bool) (layers : Nat) : Prop :=
  1 ≤ layers ∧ layers ≤ (if compact then 4 else 32)

instance (compact : Bool) (layers : Nat) : Decidable (Shape compact layers) := by
  unfold Shape; exact inferInstance

/-- what the layer selection guarantees about the `Layout` it returns for the high-level bits `bits` and the
    requested number `ecc` of check bits -/
structure LayoutOK (bits : List Bool) (ecc : Int) (lay : Layout) : Prop where
  shape : Shape lay.compact lay.layers
  total : lay.totalBitsInLayer = totalBitsInLayer lay.layers lay.compact
  ws : lay.wordSize = word_size lay.layers
  stuffed : lay.stuffedBits = stuffBits bits lay.wordSize
  fits : (lay.stuffedBits.length : Int) + ecc ≤
    ((lay.totalBitsInLayer - lay.totalBitsInLayer % lay.wordSize : Nat) : Int)
  cap : lay.compact = true → lay.stuffedBits.length ≤ lay.wordSize * 64

/-- the module at offset `p` from the centre, as `Spec.Aztec.decode` reads it from the barcode -/
def modAt (code : AztecCode) (p : Int × Int) : Bool :=
  code.toBarcode.dark (((code.size / 2 : Nat) : Int) + p.1).toNat (((code.size / 2 : Nat) : Int) + p.2).toNat

end BV.Proofs.AztecBits
