/-
  BV.Proofs.PdfAccept — `EncodeWithColor` as a whole (C10 / C04 / C12 / C13): which inputs are accepted, that no
  table lookup is ever out of range (no panic), and the closed form of the accepted symbol: its codeword
  sequence, its grid of rows and the module words of every row.
-/
import BV.Proofs.PdfDims
import BV.Proofs.PdfFrame
import BV.Proofs.PdfRS
import BV.Proofs.PdfHigh
namespace BV.Proofs.PdfAccept
open BV BV.Model.Pdf417 BV.Gen.Pdf417 BV.Spec.Pdf417
open BV.Proofs.PdfDims BV.Proofs.PdfFrame BV.Proofs.PdfRS BV.Proofs.PdfHigh

/-! ### the codeword sequence -/

/-- length descriptor, data, padding: the data region of the symbol -/
def dataRegion (cws : List Nat) (cols lvl : Nat) : List Nat :=
  (cws.length + (getPadding cws.length (2 ^ (lvl + 1)) cols).length + 1) ::
    (cws ++ getPadding cws.length (2 ^ (lvl + 1)) cols)

/-- the full codeword sequence: data region followed by its check words -/
def symbolCodewords (cws : List Nat) (cols lvl : Nat) : List Nat :=
  dataRegion cws cols lvl ++ checkWords lvl (dataRegion cws cols lvl)

/-- `encodeData` never fails for the levels 0..8 -/
theorem encodeData_eq (cws : List Nat) (cols lvl : Nat) (h : lvl ≤ 8) :
    encodeData cws cols lvl = .ok (symbolCodewords cws cols lvl) := by
  unfold encodeData
  simp only [eccCount_eq, List.length_append]
  rw [compute_eq lvl h]
  rfl

theorem dataRegion_length (cws : List Nat) (cols lvl : Nat) :
    (dataRegion cws cols lvl).length = cws.length + (getPadding cws.length (2 ^ (lvl + 1)) cols).length + 1 := by
  simp [dataRegion]

/-- the sequence fills the rows × cols grid exactly -/
theorem symbolCodewords_length (cws : List Nat) (cols lvl : Nat) (h : lvl ≤ 8) (hc : 0 < cols) :
    (symbolCodewords cws cols lvl).length = calculateNumberOfRows cws.length (2 ^ (lvl + 1)) cols * cols := by
  rw [symbolCodewords, List.length_append, checkWords_length lvl h, dataRegion_length,
    (padding_spec cws.length (2 ^ (lvl + 1)) cols hc).2.1]
  omega

/-- all codewords of the symbol are < 929, provided the data codewords are and the symbol has at most 928
    codewords in its data region -/
theorem symbolCodewords_lt (cws : List Nat) (cols lvl : Nat) (hc : 0 < cols) (hd : ∀ c ∈ cws, c < 929)
    (hsmall : cws.length + (getPadding cws.length (2 ^ (lvl + 1)) cols).length + 1 < 929) :
    ∀ c ∈ symbolCodewords cws cols lvl, c < 929 := by
  intro c hcmem
  rcases List.mem_append.mp hcmem with h1 | h1
  · rcases List.mem_cons.mp h1 with rfl | h2
    · exact hsmall
    · rcases List.mem_append.mp h2 with h3 | h3
      · exact hd c h3
      · rw [(padding_spec cws.length (2 ^ (lvl + 1)) cols hc).2.2 c h3]; omega
  · exact checkWords_lt _ _ c h1

/-! ### the grid -/

/-- `gridRows` cuts a sequence of `k·cols` codewords into `k` rows of `cols` codewords -/
theorem gridRows_spec (cols : Nat) (hc : 0 < cols) : ∀ (k fuel : Nat) (cw : List Nat), cw.length = k * cols →
    cw.length < fuel →
    (gridRows fuel cw cols).length = k ∧ (∀ row ∈ gridRows fuel cw cols, row.length = cols) ∧
    (gridRows fuel cw cols).flatten = cw := by
  intro k
  induction k with
  | zero =>
    intro fuel cw hlen hf
    have : cw = [] := List.eq_nil_of_length_eq_zero (by simpa using hlen)
    subst this
    cases fuel with
    | zero => simp at hf
    | succ fuel => simp [gridRows]
  | succ k ih =>
    intro fuel cw hlen hf
    have hge : cols ≤ cw.length := by
      rw [hlen, Nat.succ_mul]; omega
    cases fuel with
    | zero => simp at hf
    | succ fuel =>
      have hpos : cw.length > 0 := by omega
      have hmin : BV.Model.Pdf417.min cols cw.length = cols := by
        unfold BV.Model.Pdf417.min; rw [if_pos hge]
      have hdrop : (cw.drop cols).length = k * cols := by
        rw [List.length_drop, hlen, Nat.succ_mul]; omega
      obtain ⟨h1, h2, h3⟩ := ih fuel (cw.drop cols) hdrop (by rw [List.length_drop]; omega)
      unfold gridRows
      rw [if_pos hpos, hmin]
      refine ⟨by simp [h1], ?_, ?_⟩
      · intro row hrow
        rcases List.mem_cons.mp hrow with rfl | hrow
        · rw [List.length_take]; omega
        · exact h2 row hrow
      · rw [List.flatten_cons, h3, List.take_append_drop]

/-! ### the rows -/

/-- the 17-module word of codeword `w` in cluster index `ci` (snapshot entry as module value) -/
def pat (ci w : Nat) : Nat := entryModules ((clusterList ci).getD w 0)

theorem getCodeword_pat (ci w : Nat) (hci : ci < 3) (hw : w < 929) : getCodeword ci w = .ok (pat ci w) := by
  obtain ⟨hlt, h⟩ := getCodeword_ok ci w hci hw
  rw [h, pat, List.getD_eq_getElem?_getD, List.getElem?_eq_getElem hlt]
  rfl

/-- the Spec reads the word of every codeword back (restating `symbolValue_getCodeword` for `pat`) -/
theorem symbolValue_pat (ci w : Nat) (hci : ci < 3) (hw : w < 929) :
    pat ci w < 2 ^ 17 ∧ symbolValue ci (msbBits (pat ci w) 17) = .ok w := by
  obtain ⟨v, h1, h2, h3⟩ := symbolValue_getCodeword ci w hci hw
  rw [getCodeword_pat ci w hci hw] at h1
  injection h1 with h1
  subst h1
  exact ⟨h2, h3⟩

theorem mapM_getCodeword (ci : Nat) (hci : ci < 3) : ∀ (row : List Nat), (∀ w ∈ row, w < 929) →
    row.mapM (getCodeword ci) = .ok (row.map (pat ci)) := by
  intro row
  induction row with
  | nil => intro _; rfl
  | cons w rest ih =>
    intro h
    rw [List.mapM_cons, getCodeword_pat ci w hci (h w List.mem_cons_self),
      ih (fun x hx => h x (List.mem_cons_of_mem _ hx))]
    rfl

/-- the module words of row `r`: start, left indicator, data, right indicator, stop -/
def rowCodeList (rows cols lvl r : Nat) (row : List Nat) : List Nat :=
  [c_start_word, pat (r % 3) (getLeftCodeWord r rows cols lvl)] ++ row.map (pat (r % 3)) ++
    [pat (r % 3) (getRightCodeWord r rows cols lvl), c_stop_word]

/-- `rowCodes` never panics within the limits -/
theorem rowCodes_eq (rows cols lvl r : Nat) (row : List Nat) (hr : r < rows) (hrows : rows ≤ 30)
    (hcols : 1 ≤ cols ∧ cols ≤ 30) (hl : lvl ≤ 8) (hrow : ∀ w ∈ row, w < 929) :
    rowCodes r row rows cols lvl = .ok (rowCodeList rows cols lvl r row) := by
  have hci : r % 3 < 3 := Nat.mod_lt _ (by omega)
  obtain ⟨h1, h2⟩ := indicators_lt r rows cols lvl hr hrows hcols hl
  unfold rowCodes
  simp only []
  rw [getCodeword_pat _ _ hci h1, mapM_getCodeword _ hci row hrow, getCodeword_pat _ _ hci h2]
  rfl

/-- the rows from row number `r` on -/
def codesFrom (rows cols lvl : Nat) : Nat → List (List Nat) → List (List Nat)
  | _, [] => []
  | r, row :: rest => rowCodeList rows cols lvl r row :: codesFrom rows cols lvl (r + 1) rest

theorem go_eq (rows cols lvl : Nat) (hrows : rows ≤ 30) (hcols : 1 ≤ cols ∧ cols ≤ 30) (hl : lvl ≤ 8) :
    ∀ (grid : List (List Nat)) (r : Nat) (codes : List (List Nat)), r + grid.length ≤ rows →
    (∀ row ∈ grid, ∀ w ∈ row, w < 929) →
    encodeWithColor.go lvl cols rows grid r codes = .ok (codes ++ codesFrom rows cols lvl r grid) := by
  intro grid
  induction grid with
  | nil => intro r codes _ _; simp [encodeWithColor.go, codesFrom]
  | cons row rest ih =>
    intro r codes hlen hlt
    unfold encodeWithColor.go
    rw [rowCodes_eq rows cols lvl r row (by simp at hlen; omega) hrows hcols hl
      (hlt row List.mem_cons_self)]
    simp only [codesFrom]
    have := ih (r + 1) (codes ++ [rowCodeList rows cols lvl r row]) (by simp at hlen ⊢; omega)
      (fun row' h' => hlt row' (List.mem_cons_of_mem _ h'))
    simp only [List.append_assoc, List.singleton_append] at this
    exact this

/-! ### the whole encoder -/

/-- the picture of an accepted symbol: every module word of every row, rendered -/
def symbolOf (data : Bytes) (cws : List Nat) (cols rows lvl : Nat) (s : Scheme) : Barcode :=
  let cw := symbolCodewords cws cols lvl
  mkBarcode data ((cols + 4) * 17 + 1)
    (renderBarcode (codesFrom rows cols lvl 0 (gridRows (cw.length + 1) cw cols))) s

/-- C10 (first half): a security level above 8 is rejected with an error -/
theorem reject_level (data : Bytes) (lvl : Nat) (s : Scheme) (h : 9 ≤ lvl) :
    encodeWithColor data lvl s = .error .rejected := by
  unfold encodeWithColor
  rw [if_pos h]

/-- the complete case analysis of `EncodeWithColor` for the levels 0..8: with `cws` the data codewords
    (`highlevelEncode` never fails), the input is rejected iff `cws.length + 1 + 2^(lvl+1) > 900`; otherwise
    the result is the symbol with the dimensions `calcDimensions` chose, and these satisfy the limits -/
theorem encodeWithColor_cases (data : Bytes) (lvl : Nat) (s : Scheme) (h : lvl ≤ 8) :
    ∃ cws, highlevelEncode data = .ok cws ∧ (∀ c ∈ cws, c < 929) ∧
      Spec.Pdf417.decodeData cws = .ok data ∧ cws.getLast? ≠ some 900 ∧
      ((900 < cws.length + 1 + 2 ^ (lvl + 1) ∧ encodeWithColor data lvl s = .error .rejected) ∨
       (cws.length + 1 + 2 ^ (lvl + 1) ≤ 900 ∧
        ∃ cols rows, calcDimensions cws.length (2 ^ (lvl + 1)) = (cols, rows) ∧
          2 ≤ cols ∧ cols ≤ 30 ∧ 2 ≤ rows ∧ rows ≤ 30 ∧
          rows = calculateNumberOfRows cws.length (2 ^ (lvl + 1)) cols ∧
          encodeWithColor data lvl s = .ok (symbolOf data cws cols rows lvl s))) := by
  obtain ⟨cws, hcws, hlt, hdec, hlast⟩ := highlevelEncode_spec data
  refine ⟨cws, hcws, hlt, hdec, hlast, ?_⟩
  have hk : 2 ≤ 2 ^ (lvl + 1) := by
    have : 2 ^ 1 ≤ 2 ^ (lvl + 1) := Nat.pow_le_pow_right (by omega) (by omega)
    simpa using this
  have hacc := calcDimensions_accept_iff cws.length (2 ^ (lvl + 1)) hk
  have hcases := calcDimensions_cases cws.length (2 ^ (lvl + 1))
  unfold encodeWithColor
  rw [if_neg (by omega), hcws]
  simp only [eccCount_eq, bind, Except.bind]
  generalize hdim : calcDimensions cws.length (2 ^ (lvl + 1)) = dims at *
  obtain ⟨cols, rows⟩ := dims
  simp only [] at hacc hcases ⊢
  by_cases hsmall : cws.length + 1 + 2 ^ (lvl + 1) ≤ 900
  · right
    obtain ⟨hc1, hc2, hr1, hr2⟩ := hacc.mpr hsmall
    have hrows : rows = calculateNumberOfRows cws.length (2 ^ (lvl + 1)) cols := by
      rcases hcases with hz | ⟨_, hz⟩ | hz
      · simp only [Prod.mk.injEq] at hz; omega
      · omega
      · exact hz.2.2.1
    refine ⟨hsmall, cols, rows, rfl, hc1, hc2, hr1, hr2, hrows, ?_⟩
    have hlim : ¬ ((decide (cols < c_minCols) || decide (cols > c_maxCols) || decide (rows < c_minRows) ||
        decide (rows > c_maxRows)) = true) := by
      simp [c_minCols, c_maxCols, c_minRows, c_maxRows]; omega
    rw [if_neg hlim, encodeData_eq cws cols lvl h]
    simp only []
    have hlen := symbolCodewords_length cws cols lvl h (by omega)
    obtain ⟨hp1, hp2, _⟩ := padding_spec cws.length (2 ^ (lvl + 1)) cols (by omega)
    have hcwlt := symbolCodewords_lt cws cols lvl (by omega) hlt (by omega)
    rw [← hrows] at hlen
    obtain ⟨g1, g2, g3⟩ := gridRows_spec cols (by omega) rows ((symbolCodewords cws cols lvl).length + 1)
      (symbolCodewords cws cols lvl) hlen (by omega)
    rw [go_eq rows cols lvl hr2 ⟨by omega, hc2⟩ h _ 0 [] (by omega)
      (by
        intro row hrow w hw
        apply hcwlt
        rw [← g3]
        exact List.mem_flatten.mpr ⟨row, hrow, hw⟩)]
    rfl
  · left
    refine ⟨by omega, ?_⟩
    have hnot := mt hacc.mp hsmall
    have hlim : (decide (cols < c_minCols) || decide (cols > c_maxCols) || decide (rows < c_minRows) ||
        decide (rows > c_maxRows)) = true := by
      simp [c_minCols, c_maxCols, c_minRows, c_maxRows]; omega
    rw [if_pos hlim]

/-- C10: `EncodeWithColor` never panics, for any data, any security level and any colour scheme -/
theorem never_panics (data : Bytes) (lvl : Nat) (s : Scheme) : encodeWithColor data lvl s ≠ .error .panic := by
  by_cases h : lvl ≤ 8
  · obtain ⟨cws, _, _, _, _, hc⟩ := encodeWithColor_cases data lvl s h
    rcases hc with ⟨_, hc⟩ | ⟨_, cols, rows, _, _, _, _, _, _, hc⟩ <;> rw [hc] <;> simp
  · rw [reject_level data lvl s (by omega)]; simp

end BV.Proofs.PdfAccept
