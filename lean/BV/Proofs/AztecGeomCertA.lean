/-
  BV.Proofs.AztecGeomCertA — kernel certificates (`decide +kernel`, part A): `cert compact L` of `BV.Proofs.AztecGeom`
  evaluates to `true`; each certificate concerns the outermost data layer and the fixed patterns of its shape only.
-/
import BV.Proofs.AztecGeom
namespace BV.Proofs.AztecGeom
open BV.Proofs.AztecBits

set_option maxRecDepth 100000

/-- certificate: compact symbol with 1 layer(s) -/
theorem cert_compact_1 : cert true 1 = true := by decide +kernel

/-- certificate: compact symbol with 2 layer(s) -/
theorem cert_compact_2 : cert true 2 = true := by decide +kernel

/-- certificate: compact symbol with 3 layer(s) -/
theorem cert_compact_3 : cert true 3 = true := by decide +kernel

/-- certificate: compact symbol with 4 layer(s) -/
theorem cert_compact_4 : cert true 4 = true := by decide +kernel

/-- certificate: full-range symbol with 1 layer(s) -/
theorem cert_full_1 : cert false 1 = true := by decide +kernel

/-- certificate: full-range symbol with 2 layer(s) -/
theorem cert_full_2 : cert false 2 = true := by decide +kernel

/-- certificate: full-range symbol with 3 layer(s) -/
theorem cert_full_3 : cert false 3 = true := by decide +kernel

/-- certificate: full-range symbol with 4 layer(s) -/
theorem cert_full_4 : cert false 4 = true := by decide +kernel

/-- certificate: full-range symbol with 5 layer(s) -/
theorem cert_full_5 : cert false 5 = true := by decide +kernel

/-- certificate: full-range symbol with 6 layer(s) -/
theorem cert_full_6 : cert false 6 = true := by decide +kernel

/-- certificate: full-range symbol with 7 layer(s) -/
theorem cert_full_7 : cert false 7 = true := by decide +kernel

/-- certificate: full-range symbol with 8 layer(s) -/
theorem cert_full_8 : cert false 8 = true := by decide +kernel

/-- certificate: full-range symbol with 9 layer(s) -/
theorem cert_full_9 : cert false 9 = true := by decide +kernel

/-- certificate: full-range symbol with 10 layer(s) -/
theorem cert_full_10 : cert false 10 = true := by decide +kernel

/-- certificate: full-range symbol with 11 layer(s) -/
theorem cert_full_11 : cert false 11 = true := by decide +kernel

/-- certificate: full-range symbol with 12 layer(s) -/
theorem cert_full_12 : cert false 12 = true := by decide +kernel

/-- certificate: full-range symbol with 13 layer(s) -/
theorem cert_full_13 : cert false 13 = true := by decide +kernel

/-- certificate: full-range symbol with 14 layer(s) -/
theorem cert_full_14 : cert false 14 = true := by decide +kernel

/-- certificate: full-range symbol with 15 layer(s) -/
theorem cert_full_15 : cert false 15 = true := by decide +kernel

/-- certificate: full-range symbol with 16 layer(s) -/
theorem cert_full_16 : cert false 16 = true := by decide +kernel

/-- certificate: full-range symbol with 17 layer(s) -/
theorem cert_full_17 : cert false 17 = true := by decide +kernel

/-- certificate: full-range symbol with 18 layer(s) -/
theorem cert_full_18 : cert false 18 = true := by decide +kernel

end BV.Proofs.AztecGeom
