/-
  BV.Proofs.Code39 — Code 39: table certificates, drawing, check character, full-ASCII pairs, round trip through
  `Spec.OneD.c39Decode`.
-/
import BV.Model.Code39
import BV.Spec.OneD
import BV.Proofs.Utf8
import BV.Proofs.Bars
import BV.Proofs.Pairs
import Mathlib.Tactic.SplitIfs
namespace BV.Proofs.Code39
open BV BV.Model BV.Model.Code39 BV.Spec.OneD BV.Proofs.Utf8 BV.Proofs.Bars BV.Proofs.Pairs
set_option maxRecDepth 100000

/-! ### table certificates -/

theorem mem_of_lookup {α β} [BEq α] [LawfulBEq α] (k : α) (v : β) :
    ∀ (l : List (α × β)), l.lookup k = some v → (k, v) ∈ l := by
  intro l
  induction l with
  | nil => intro h; simp at h
  | cons p t ih =>
    intro h
    obtain ⟨k', v'⟩ := p
    rw [List.lookup_cons] at h
    by_cases hk : (k == k') = true
    · rw [hk] at h
      have := eq_of_beq hk
      simp only [Option.some.injEq] at h
      subst this; subst h; simp
    · have hk' : (k == k') = false := by simpa using hk
      rw [hk'] at h
      exact List.mem_cons_of_mem _ (ih h)

/-- decoding of one 13-module group (12-module character + gap), as in `c39Decode` -/
def c39Group (grp : List Bool) : Except String Char := do
  if grp.getLastD true then throw "inter-character gap is not a narrow space"
  let ws ← match widthsFromBar (runLengths grp.dropLast) with
    | some ws => pure ws
    | none => throw "character does not start with a bar"
  if ws.length ≠ 9 ∨ ws.any (fun w => w ≠ 1 ∧ w ≠ 2) then throw "character is not 9 narrow/wide elements"
  match c39Lookup (ws.map (· == 2)) with
  | some c => pure c
  | none => throw "unknown character pattern"

def groupOK (g : List Bool) (c : Char) : Bool := match c39Group g with | .ok c' => c' == c | _ => false

def entryOK (e : Int × Int × List Bool) : Bool :=
  let k := e.1.toNat
  decide (0 ≤ e.1) && decide (e.1 < 128) && e.2.2.length == 12 && mapGet table e.1 == some e.2 &&
  groupOK (e.2.2 ++ [false]) (Char.ofNat k) && (Char.ofNat k).toNat == k &&
  (if e.2.1 ≥ 0 then c39Value (Char.ofNat k) == some e.2.1.toNat && Char.ofNat k != '*' && e.1 != 42 &&
      decide (e.2.1 < 43)
   else e.1 == 42 && Char.ofNat k == '*')

/-- certificate (44 entries): every table entry is an ASCII character with a 12-module pattern that, followed by a
    narrow gap, the reference decoder reads as this character (via `c39Pattern`, the 2-of-5 bar rule); keys are
    unique; its value is the reference value `c39Value`; only `*` has no value -/
theorem cert_table : ∀ e ∈ table, entryOK e = true := by decide +kernel

def barsOf (r : Nat) : List Bool := match mapGet table (r : Int) with | some (_, b) => b | none => []
def valOf (r : Nat) : Int := match mapGet table (r : Int) with | some (v, _) => v | none => -1
def InTable (r : Nat) : Prop := (mapGet table (r : Int)).isSome = true
/-- the 43 data characters -/
def Alpha43 (r : Nat) : Prop := InTable r ∧ r ≠ 42

instance (r : Nat) : Decidable (InTable r) := by unfold InTable; infer_instance
instance (r : Nat) : Decidable (Alpha43 r) := by unfold Alpha43; infer_instance

theorem entry_facts {r : Nat} {v : Int} {b : List Bool} (h : mapGet table (r : Int) = some (v, b)) :
    r < 128 ∧ b.length = 12 ∧ c39Group (b ++ [false]) = .ok (Char.ofNat r) ∧ (Char.ofNat r).toNat = r ∧
    (r ≠ 42 → 0 ≤ v ∧ v < 43 ∧ c39Value (Char.ofNat r) = some v.toNat ∧ Char.ofNat r ≠ '*') ∧
    (r = 42 → v = -1 ∧ Char.ofNat r = '*') := by
  have hm := mem_of_lookup _ _ _ h
  have := cert_table _ hm
  unfold entryOK at this
  simp only [Bool.and_eq_true, decide_eq_true_eq, beq_iff_eq, Int.toNat_natCast] at this
  obtain ⟨⟨⟨⟨⟨⟨_, h2⟩, h3⟩, _⟩, h5⟩, h6⟩, h7⟩ := this
  refine ⟨by omega, h3, ?_, h6, ?_, ?_⟩
  · unfold groupOK at h5
    split at h5
    · rename_i c' hc; rw [hc]; simp only [beq_iff_eq] at h5; rw [h5]
    · exact absurd h5 (by simp)
  · intro hne
    split_ifs at h7 with hv
    · simp only [Bool.and_eq_true, beq_iff_eq, bne_iff_ne, ne_eq, decide_eq_true_eq] at h7
      exact ⟨hv, h7.2, h7.1.1.1, h7.1.1.2⟩
    · simp only [Bool.and_eq_true, beq_iff_eq] at h7; omega
  · intro he
    split_ifs at h7 with hv
    · simp only [Bool.and_eq_true, beq_iff_eq, bne_iff_ne, ne_eq, decide_eq_true_eq] at h7
      omega
    · simp only [Bool.and_eq_true, beq_iff_eq] at h7
      have : v = -1 := by
        have := h; rw [he] at this
        have h42 : (mapGet table ((42 : Nat) : Int)).map (·.1) = some (-1) := by decide
        rw [this] at h42; simp only [Option.map_some, Option.some.injEq] at h42; exact h42
      exact ⟨this, h7.2⟩


theorem inTable_iff {r : Nat} : InTable r ↔ ∃ v b, mapGet table (r : Int) = some (v, b) := by
  unfold InTable
  cases h : mapGet table (r : Int) with
  | none => simp
  | some p => obtain ⟨v, b⟩ := p; simp

theorem barsOf_eq {r : Nat} {v : Int} {b : List Bool} (h : mapGet table (r : Int) = some (v, b)) : barsOf r = b := by
  unfold barsOf; rw [h]

theorem valOf_eq {r : Nat} {v : Int} {b : List Bool} (h : mapGet table (r : Int) = some (v, b)) : valOf r = v := by
  unfold valOf; rw [h]

/-! ### drawing -/

theorem draw_go_nil (acc : List Bool) : drawData.go [] acc = some acc := by rw [drawData.go]

theorem draw_go_cons (i r : Nat) (rest : List (Nat × Nat)) (acc : List Bool) :
    drawData.go ((i, r) :: rest) acc =
      match mapGet table (r : Int) with
      | none => none
      | some (_, bars) => drawData.go rest ((if (i != 0) = true then acc ++ [false] else acc) ++ bars) := by
  rw [drawData.go]; rfl

theorem draw_go_tail : ∀ (ps : List (Nat × Nat)) (acc : List Bool), (∀ p ∈ ps, p.1 ≠ 0) → (∀ p ∈ ps, InTable p.2) →
    drawData.go ps acc = some (acc ++ ps.flatMap (fun p => false :: barsOf p.2)) := by
  intro ps
  induction ps with
  | nil => intro acc _ _; simp [draw_go_nil]
  | cons p t ih =>
    intro acc h0 ht
    obtain ⟨i, r⟩ := p
    obtain ⟨v, b, hb⟩ := inTable_iff.1 (ht (i, r) (by simp))
    have hi : (i != 0) = true := by simpa using h0 (i, r) (by simp)
    rw [draw_go_cons, hb]
    simp only [hi, if_true]
    rw [ih _ (fun q hq => h0 q (by simp [hq])) (fun q hq => ht q (by simp [hq])), List.flatMap_cons, barsOf_eq hb]
    simp

theorem draw_go_fail : ∀ (ps : List (Nat × Nat)) (acc : List Bool), (∃ p ∈ ps, ¬ InTable p.2) →
    drawData.go ps acc = none := by
  intro ps
  induction ps with
  | nil => intro acc h; obtain ⟨p, hp, _⟩ := h; simp at hp
  | cons p t ih =>
    intro acc h
    obtain ⟨i, r⟩ := p
    rw [draw_go_cons]
    cases hb : mapGet table (r : Int) with
    | none => rfl
    | some q =>
      obtain ⟨v, b⟩ := q
      simp only
      apply ih
      obtain ⟨x, hx, hxn⟩ := h
      rcases List.mem_cons.1 hx with rfl | hx
      · exact absurd (inTable_iff.2 ⟨v, b, hb⟩) hxn
      · exact ⟨x, hx, hxn⟩

/-- the module row of a character sequence: 12-module patterns separated by one narrow space -/
def drawBits : List Nat → List Bool
  | [] => []
  | r :: tl => barsOf r ++ tl.flatMap (fun r => false :: barsOf r)

theorem drawData_ok (data : Bytes) (h : ∀ r ∈ runeList data, InTable r) :
    drawData data = some (drawBits (runeList data)) := by
  unfold drawData
  cases data with
  | nil => rfl
  | cons b rest =>
    obtain ⟨r, tl, hr, h0⟩ := runes_cons_offsets b rest
    have hl : runeList (b :: rest) = r :: tl.map (·.2) := by unfold runeList; rw [hr]; rfl
    rw [hl] at h ⊢
    rw [hr]
    obtain ⟨v, bb, hb⟩ := inTable_iff.1 (h r (by simp))
    rw [draw_go_cons, hb]
    simp only [bne_self_eq_false, Bool.false_eq_true, if_false, List.nil_append]
    rw [draw_go_tail tl _ h0 (fun p hp => h p.2 (List.mem_cons_of_mem _ (List.mem_map.2 ⟨p, hp, rfl⟩)))]
    show some _ = some (barsOf r ++ (tl.map (·.2)).flatMap (fun r => false :: barsOf r))
    rw [barsOf_eq hb, List.flatMap_map]

theorem drawData_fail (data : Bytes) (h : ∃ r ∈ runeList data, ¬ InTable r) : drawData data = none := by
  unfold drawData
  apply draw_go_fail
  obtain ⟨r, hr, hn⟩ := h
  unfold runeList at hr
  obtain ⟨p, hp, rfl⟩ := List.mem_map.1 hr
  exact ⟨p, hp, hn⟩

theorem drawBits_gap (r : Nat) (tl : List Nat) :
    drawBits (r :: tl) ++ [false] = (r :: tl).flatMap (fun r => barsOf r ++ [false]) := by
  unfold drawBits
  induction tl generalizing r with
  | nil => simp
  | cons r2 tl ih =>
    have := ih r2
    simp only [List.flatMap_cons, List.append_assoc] at this ⊢
    rw [← this]
    simp


/-! ### the reference decoder, split into its module-level and its character-level part -/

/-- the character-level part of `c39Decode` -/
def c39Tail (withCheck fullASCII : Bool) (chars : List Char) : Except String C39Info := do
  if chars.length < 2 ∨ chars.head? ≠ some '*' ∨ chars.getLast? ≠ some '*' then throw "start/stop"
  let inner := (chars.drop 1).dropLast
  if inner.any (· == '*') then throw "start/stop character inside the data"
  let (data, check) ←
    if withCheck then
      match inner.getLast? with
      | none => throw "no check character"
      | some c =>
        let d := inner.dropLast
        let sum := (d.map (fun ch => (c39Value ch).getD 0)).foldl (· + ·) 0
        if c39Value c ≠ some (sum % 43) then throw "wrong modulo-43 check character"
        pure (d, some (sum % 43))
    else pure (inner, none)
  let basic := data.map Char.toNat
  if fullASCII then
    match resolvePairs 36 37 47 43 (basic.length + 1) basic with
    | some t => pure { text := t, basic := basic, check := check }
    | none => throw "invalid full-ASCII pair"
  else pure { text := basic, basic := basic, check := check }

theorem c39Decode_eq (withCheck fullASCII : Bool) (bits : List Bool) :
    c39Decode withCheck fullASCII bits =
      if (bits.length + 1) % 13 ≠ 0 then throw "length is not 13n-1"
      else (splitEvery 13 (bits ++ [false])).mapM c39Group >>= c39Tail withCheck fullASCII := by
  rfl


/-- module level: a row of table characters with narrow gaps is read back character by character -/
theorem decode_drawBits (cs full : Bool) (rs : List Nat) (hne : rs ≠ []) (h : ∀ r ∈ rs, InTable r) :
    c39Decode cs full (drawBits rs) = c39Tail cs full (rs.map Char.ofNat) := by
  obtain ⟨r0, tl, rfl⟩ := List.exists_cons_of_ne_nil hne
  have hgl : ∀ g ∈ (r0 :: tl).map (fun r => barsOf r ++ [false]), g.length = 13 := by
    intro g hg
    obtain ⟨r, hr, rfl⟩ := List.mem_map.1 hg
    obtain ⟨v, b, hb⟩ := inTable_iff.1 (h r hr)
    rw [barsOf_eq hb, List.length_append, (entry_facts hb).2.1]; rfl
  have hgap : drawBits (r0 :: tl) ++ [false] = ((r0 :: tl).map (fun r => barsOf r ++ [false])).flatten := by
    rw [drawBits_gap, List.flatMap_def]
  have hlen : (drawBits (r0 :: tl)).length + 1 = 13 * (r0 :: tl).length := by
    have := congrArg List.length hgap
    rw [List.length_append, length_flatten_const 13 _ hgl, List.length_map] at this
    exact this
  rw [c39Decode_eq, if_neg (by rw [hlen]; simp), hgap, splitEvery_flatten 13 (by omega) _ hgl,
    mapM_map_ok' c39Group _ Char.ofNat (r0 :: tl) (by
      intro r hr
      obtain ⟨v, b, hb⟩ := inTable_iff.1 (h r hr)
      rw [barsOf_eq hb]; exact (entry_facts hb).2.2.1)]
  rfl


/-! ### character level -/

theorem alpha_facts {r : Nat} (h : Alpha43 r) :
    r < 128 ∧ (Char.ofNat r).toNat = r ∧ 0 ≤ valOf r ∧ valOf r < 43 ∧
    c39Value (Char.ofNat r) = some (valOf r).toNat ∧ Char.ofNat r ≠ '*' := by
  obtain ⟨v, b, hb⟩ := inTable_iff.1 h.1
  have := entry_facts hb
  obtain ⟨h1, h2, h3, h4⟩ := this.2.2.2.2.1 h.2
  rw [valOf_eq hb]
  exact ⟨this.1, this.2.2.2.1, h1, h2, h3, h4⟩

/-- sum of the character values -/
def valSum : List Nat → Nat
  | [] => 0
  | r :: t => (valOf r).toNat + valSum t

theorem foldl_add_valSum (l : List Nat) : ∀ a : Nat,
    (l.map (fun r => (valOf r).toNat)).foldl (· + ·) a = a + valSum l := by
  induction l with
  | nil => intro a; rfl
  | cons r t ih => intro a; rw [List.map_cons, List.foldl_cons, ih, valSum]; omega

theorem c39_sum (rs : List Nat) (hA : ∀ r ∈ rs, Alpha43 r) :
    ((rs.map Char.ofNat).map (fun ch => (c39Value ch).getD 0)).foldl (· + ·) 0 = valSum rs := by
  rw [List.map_map]
  have : rs.map ((fun ch => (c39Value ch).getD 0) ∘ Char.ofNat) = rs.map (fun r => (valOf r).toNat) := by
    apply List.map_congr_left
    intro r hr
    simp only [Function.comp, (alpha_facts (hA r hr)).2.2.2.2.1, Option.getD_some]
  rw [this, foldl_add_valSum]; omega

theorem toNat_ofNat_map (rs : List Nat) (hA : ∀ r ∈ rs, Alpha43 r) : (rs.map Char.ofNat).map Char.toNat = rs := by
  rw [List.map_map]
  conv => rhs; rw [← List.map_id rs]
  apply List.map_congr_left
  intro r hr
  exact (alpha_facts (hA r hr)).2.1

theorem no_star (rs : List Nat) (hA : ∀ r ∈ rs, Alpha43 r) : (rs.map Char.ofNat).any (· == '*') = false := by
  rw [List.any_eq_false]
  intro ch hch
  obtain ⟨r, hr, rfl⟩ := List.mem_map.1 hch
  simpa using (alpha_facts (hA r hr)).2.2.2.2.2

/-- the last step of `c39Decode`: in full-ASCII mode resolve the shift pairs -/
def finish (full : Bool) (basic : List Nat) (check : Option Nat) : Except String C39Info :=
  if full then
    match resolvePairs 36 37 47 43 (basic.length + 1) basic with
    | some t => pure { text := t, basic := basic, check := check }
    | none => throw "invalid full-ASCII pair"
  else pure { text := basic, basic := basic, check := check }

/-- character level: start, data, optional check character with the right value, stop are accepted -/
theorem tail_eval (cs full : Bool) (rs : List Nat) (hA : ∀ r ∈ rs, Alpha43 r) (c : Nat) (hc : Alpha43 c)
    (hcv : valOf c = ((valSum rs % 43 : Nat) : Int)) :
    c39Tail cs full ((42 :: (rs ++ (if cs then [c] else [])) ++ [42]).map Char.ofNat) =
      finish full rs (if cs then some (valSum rs % 43) else none) := by
  have hstar : Char.ofNat 42 = '*' := by decide
  have hbody : ∀ r ∈ rs ++ (if cs then [c] else []), Alpha43 r := by
    intro r hr
    rcases List.mem_append.1 hr with hr | hr
    · exact hA r hr
    · split at hr
      · simp only [List.mem_cons, List.not_mem_nil, or_false] at hr; subst hr; exact hc
      · simp at hr
  generalize hbd : rs ++ (if cs then [c] else []) = body at hbody
  unfold c39Tail
  simp only [List.map_cons, List.map_append, List.map_nil, hstar, List.cons_append]
  have hinner : (List.drop 1 ('*' :: (body.map Char.ofNat ++ ['*']))).dropLast = body.map Char.ofNat := by
    simp
  simp only [bind, Except.bind, pure, Except.pure, throw, throwThe, MonadExceptOf.throw]
  have hlast : ('*' :: (body.map Char.ofNat ++ ['*'])).getLast? = some '*' := by
    rw [← List.cons_append, List.getLast?_append]; rfl
  rw [if_neg (by simp [hlast]), hinner, no_star body hbody]
  simp only [Bool.false_eq_true, if_false]
  cases cs with
  | false =>
    simp only [Bool.false_eq_true, if_false, List.append_nil] at hbd ⊢
    subst hbd
    rw [toNat_ofNat_map rs hA]
    rfl
  | true =>
    simp only [if_true] at hbd ⊢
    subst hbd
    have hsum := c39_sum rs hA
    have hcval : c39Value (Char.ofNat c) = some (valSum rs % 43) := by
      rw [(alpha_facts hc).2.2.2.2.1, hcv]; rfl
    simp only [List.map_append, List.map_cons, List.map_nil, List.getLast?_append, List.getLast?_singleton,
      Option.some_or, List.dropLast_concat, hsum, hcval, ne_eq, not_true_eq_false, if_false]
    rw [toNat_ofNat_map rs hA]
    rfl


/-! ### the model's check character -/

theorem getChecksum_go_ok : ∀ (ps : List (Nat × Nat)) (sum : Int), (∀ p ∈ ps, Alpha43 p.2) →
    getChecksum.go ps sum = some (sum + (valSum (ps.map (·.2)) : Nat)) := by
  intro ps
  induction ps with
  | nil => intro sum _; rw [getChecksum.go]; simp [valSum]
  | cons p t ih =>
    intro sum h
    obtain ⟨i, r⟩ := p
    have hr := h (i, r) (by simp)
    obtain ⟨v, b, hb⟩ := inTable_iff.1 hr.1
    have hf := alpha_facts hr
    rw [valOf_eq hb] at hf
    rw [getChecksum.go]
    simp only [hb]
    rw [if_neg (by omega), ih _ (fun q hq => h q (by simp [hq]))]
    simp only [List.map_cons, valSum, valOf_eq hb]
    congr 1
    omega

/-- certificate (43 values): the check value is mapped back to the data character of that value -/
theorem cert_check : ∀ v < 43, (match runeWithValue ((v : Nat) : Int) with
    | some r => decide (Alpha43 r) && valOf r == ((v : Nat) : Int)
    | none => false) = true := by decide +kernel

/-- `getChecksum` on data characters: the character whose value is the sum modulo 43 -/
theorem getChecksum_ok (content : Bytes) (hA : ∀ r ∈ runeList content, Alpha43 r) :
    ∃ c, getChecksum content = [UInt8.ofNat c] ∧ c < 128 ∧ Alpha43 c ∧
      valOf c = ((valSum (runeList content) % 43 : Nat) : Int) := by
  unfold getChecksum
  rw [getChecksum_go_ok (runes content) 0 (fun p hp => hA p.2 (List.mem_map.2 ⟨p, hp, rfl⟩))]
  simp only [Int.zero_add]
  have hmod : ((valSum ((runes content).map (·.2)) : Nat) : Int).tmod 43 =
      ((valSum (runeList content) % 43 : Nat) : Int) := by
    rw [show ((runes content).map (·.2)) = runeList content from rfl]
    exact (Int.ofNat_tmod _ 43).symm
  rw [hmod]
  have := cert_check (valSum (runeList content) % 43) (Nat.mod_lt _ (by omega))
  split at this
  · rename_i r hr
    simp only [Bool.and_eq_true, decide_eq_true_eq, beq_iff_eq] at this
    rw [hr]
    have hlt := (alpha_facts this.1).1
    exact ⟨r, encodeRune_ascii hlt, hlt, this.1, this.2⟩
  · exact absurd this (by simp)


/-- certificate: table keys are ASCII -/
theorem cert_keys : ∀ e ∈ table, e.1.toNat < 128 := by decide +kernel

theorem runeWithValue_lt {v : Int} {r : Nat} (h : runeWithValue v = some r) : r < 128 := by
  unfold runeWithValue at h
  split at h
  · rename_i e he
    simp only [Option.some.injEq] at h
    subst h
    exact cert_keys e (List.mem_of_find?_eq_some he)
  · exact absurd h (by simp)

/-- whatever the content, `getChecksum` returns one ASCII character -/
theorem getChecksum_ascii (content : Bytes) : ∃ c, getChecksum content = [UInt8.ofNat c] ∧ c < 128 := by
  unfold getChecksum
  split
  · exact ⟨35, rfl, by omega⟩
  · split
    · rename_i r hr
      have := runeWithValue_lt hr
      exact ⟨r, encodeRune_ascii this, this⟩
    · exact ⟨35, rfl, by omega⟩

/-! ### full-ASCII expansion (`prepare`) -/

/-- the bytes `prepare` emits for one rune -/
def pieceB (r : Nat) : Bytes :=
  match mapGet extTable (r : Int) with
  | some v => v
  | none => encodeRune r

def piece (r : Nat) : List Nat := (pieceB r).map (·.toNat)

theorem prepare_go_cons (i r : Nat) (rest : List (Nat × Nat)) (acc : Bytes) :
    prepare.go ((i, r) :: rest) acc = if r > 127 then none else prepare.go rest (acc ++ pieceB r) := by
  rw [prepare.go]
  unfold pieceB
  split_ifs
  · rfl
  · cases mapGet extTable (r : Int) <;> rfl

theorem prepare_go_ok : ∀ (ps : List (Nat × Nat)) (acc : Bytes), (∀ p ∈ ps, p.2 ≤ 127) →
    prepare.go ps acc = some (acc ++ (ps.map (·.2)).flatMap pieceB) := by
  intro ps
  induction ps with
  | nil => intro acc _; rw [prepare.go]; simp
  | cons p t ih =>
    intro acc h
    obtain ⟨i, r⟩ := p
    have := h (i, r) (by simp)
    rw [prepare_go_cons, if_neg (by simp only at this; omega), ih _ (fun q hq => h q (by simp [hq]))]
    simp

theorem prepare_go_fail : ∀ (ps : List (Nat × Nat)) (acc : Bytes), (∃ p ∈ ps, p.2 > 127) →
    prepare.go ps acc = none := by
  intro ps
  induction ps with
  | nil => intro acc h; obtain ⟨p, hp, _⟩ := h; simp at hp
  | cons p t ih =>
    intro acc h
    obtain ⟨i, r⟩ := p
    rw [prepare_go_cons]
    split_ifs with hr
    · rfl
    · apply ih
      obtain ⟨x, hx, hxn⟩ := h
      rcases List.mem_cons.1 hx with rfl | hx
      · exact absurd hxn hr
      · exact ⟨x, hx, hxn⟩

theorem prepare_ok (text : Bytes) (h : ∀ r ∈ runeList text, r ≤ 127) :
    prepare text = some ((runeList text).flatMap pieceB) := by
  unfold prepare
  rw [prepare_go_ok _ _ (fun p hp => h p.2 (List.mem_map.2 ⟨p, hp, rfl⟩))]
  rfl

theorem prepare_fail (text : Bytes) (h : ∃ r ∈ runeList text, r > 127) : prepare text = none := by
  unfold prepare
  apply prepare_go_fail
  obtain ⟨r, hr, hn⟩ := h
  obtain ⟨p, hp, rfl⟩ := List.mem_map.1 hr
  exact ⟨p, hp, hn⟩

def pieceOK (r : Nat) : Bool :=
  (pieceB r).all (fun b => decide (b.toNat < 128)) && (piece r).all (fun x => decide (Alpha43 x)) &&
  goodPiece 36 37 47 43 r (piece r)

/-- certificate (128 entries): the expansion of every ASCII character consists of one or two of the 43 data
    characters, ASCII encoded, and the reference pair rules of ISO/IEC 16388 resolve it to the character -/
theorem cert_pieces : ∀ r < 128, pieceOK r = true := by decide +kernel

theorem piece_facts {r : Nat} (h : r ≤ 127) :
    IsAscii (pieceB r) ∧ (∀ x ∈ piece r, Alpha43 x) ∧ goodPiece 36 37 47 43 r (piece r) = true := by
  have := cert_pieces r (by omega)
  unfold pieceOK at this
  simp only [Bool.and_eq_true, List.all_eq_true, decide_eq_true_eq] at this
  exact ⟨this.1.1, this.1.2, this.2⟩

/-- the prepared content is ASCII and its characters are the concatenated expansions -/
theorem prepared_facts (rs : List Nat) (h : ∀ r ∈ rs, r ≤ 127) :
    IsAscii (rs.flatMap pieceB) ∧ runeList (rs.flatMap pieceB) = rs.flatMap piece ∧
    (∀ x ∈ rs.flatMap piece, Alpha43 x) := by
  have ha : IsAscii (rs.flatMap pieceB) := by
    intro b hb
    obtain ⟨r, hr, hbr⟩ := List.mem_flatMap.1 hb
    exact (piece_facts (h r hr)).1 b hbr
  refine ⟨ha, ?_, ?_⟩
  · rw [runeList_ascii _ ha, List.map_flatMap]; rfl
  · intro x hx
    obtain ⟨r, hr, hxr⟩ := List.mem_flatMap.1 hx
    exact (piece_facts (h r hr)).2.1 x hxr

/-- resolving the pairs of the prepared content gives back the text -/
theorem resolve_prepared (rs : List Nat) (h : ∀ r ∈ rs, r ≤ 127) :
    resolvePairs 36 37 47 43 ((rs.flatMap piece).length + 1) (rs.flatMap piece) = some rs := by
  have hg : ∀ r ∈ rs, goodPiece 36 37 47 43 r (piece r) = true := fun r hr => (piece_facts (h r hr)).2.2
  apply resolve_flat 36 37 47 43 piece rs _ hg
  have := flat_length 36 37 47 43 piece rs hg
  omega


/-! ### the encoder -/

/-- the character string that is drawn: start, content, optional check character, stop -/
def dataOf (content : Bytes) (cs : Bool) : Bytes :=
  (if cs then [42] ++ content ++ getChecksum content else [42] ++ content) ++ [42]

theorem encodeWithColor_eq (text : Bytes) (cs full : Bool) (s : Scheme) :
    encodeWithColor text cs full s =
      match (if full then prepare text else if containsRune text 42 then none else some text) with
      | none => .error .rejected
      | some content =>
        match drawData (dataOf content cs) with
        | none => .error .rejected
        | some bits => .ok (mk1D (kindStr Gen.Root.c_TypeCode39) content bits (some (checkValue content)) s) := by
  rfl

/-- the runes of the drawn string, for any content -/
theorem runeList_dataOf (content : Bytes) (cs : Bool) :
    ∃ cc : List Nat, runeList (dataOf content cs) = 42 :: (runeList content ++ cc) ++ [42] ∧
      (cs = false → cc = []) ∧
      (cs = true → ∃ c, getChecksum content = [UInt8.ofNat c] ∧ c < 128 ∧ cc = [c]) := by
  obtain ⟨c, hc, hc128⟩ := getChecksum_ascii content
  have h42 : ((42 : UInt8)).toNat < 128 := by decide
  have hcn : (UInt8.ofNat c).toNat = c := toNat_ofNat_lt (by omega)
  cases cs with
  | false =>
    refine ⟨[], ?_, fun _ => rfl, fun h => absurd h (by simp)⟩
    unfold dataOf
    simp only [Bool.false_eq_true, if_false, List.append_nil, List.cons_append, List.nil_append]
    rw [runeList_cons_ascii 42 _ h42, runeList_append _ _ (cleanStart_ascii h42), runeList_cons_ascii 42 _ h42]
    rfl
  | true =>
    refine ⟨[c], ?_, fun h => absurd h (by simp), fun _ => ⟨c, hc, hc128, rfl⟩⟩
    unfold dataOf
    simp only [if_true, List.cons_append, List.nil_append, List.append_assoc]
    rw [runeList_cons_ascii 42 _ h42, hc, List.cons_append, List.nil_append,
      runeList_append _ _ (cleanStart_ascii (by rw [hcn]; exact hc128)),
      runeList_cons_ascii _ _ (by rw [hcn]; exact hc128), runeList_cons_ascii 42 _ h42, hcn]
    rfl

theorem inTable_42 : InTable 42 := by decide

/-- positive direction: a content of data characters is drawn as start, content, check character, stop -/
theorem draw_content (content : Bytes) (cs : Bool) (hA : ∀ r ∈ runeList content, Alpha43 r) :
    ∃ c, Alpha43 c ∧ valOf c = ((valSum (runeList content) % 43 : Nat) : Int) ∧
      drawData (dataOf content cs) =
        some (drawBits ((42 :: (runeList content ++ (if cs then [c] else [])) ++ [42]))) ∧
      checkValue content = ((valSum (runeList content) % 43 : Nat) : Int) := by
  obtain ⟨c, hc, hc128, hcA, hcv⟩ := getChecksum_ok content hA
  obtain ⟨cc, hrl, hf, ht⟩ := runeList_dataOf content cs
  have hcc : cc = if cs then [c] else [] := by
    cases cs with
    | false => exact hf rfl
    | true =>
      obtain ⟨c', hc', _, hcc⟩ := ht rfl
      rw [hc] at hc'
      simp only [List.cons.injEq, and_true] at hc'
      have : c = c' := by
        have h1 := congrArg UInt8.toNat hc'
        rw [toNat_ofNat_lt (by omega), toNat_ofNat_lt (by omega)] at h1; exact h1
      rw [hcc, this]; rfl
  refine ⟨c, hcA, hcv, ?_, ?_⟩
  · rw [drawData_ok, hrl, hcc]
    intro r hr
    rw [hrl, hcc] at hr
    simp only [List.cons_append, List.mem_cons, List.mem_append, List.not_mem_nil, or_false] at hr
    rcases hr with rfl | (hr | hr) | rfl
    · exact inTable_42
    · exact (hA r hr).1
    · split at hr
      · simp only [List.mem_cons, List.not_mem_nil, or_false] at hr; subst hr; exact hcA.1
      · simp at hr
    · exact inTable_42
  · unfold checkValue
    rw [hc, runes_eq, runesFrom_cons_ascii 0 _ _ (by rw [toNat_ofNat_lt (by omega)]; exact hc128)]
    simp only [runesFrom_nil, List.foldl_cons, List.foldl_nil, toNat_ofNat_lt (show c < 256 by omega)]
    obtain ⟨v, b, hb⟩ := inTable_iff.1 hcA.1
    have hv := alpha_facts hcA
    rw [valOf_eq hb] at hv hcv
    simp only [hb]
    rw [← hcv]
    split_ifs <;> omega

/-- negative direction: if the string can be drawn, every rune of the content is a table character -/
theorem drawable_inv (content : Bytes) (cs : Bool) (h : drawData (dataOf content cs) ≠ none) :
    ∀ r ∈ runeList content, InTable r := by
  intro r hr
  apply Classical.byContradiction
  intro hn
  apply h
  apply drawData_fail
  obtain ⟨cc, hrl, _⟩ := runeList_dataOf content cs
  exact ⟨r, by rw [hrl]; simp [hr], hn⟩


/-! ### assembled results -/

/-- what the encoder returns for a (prepared) content of data characters, and how the reference decoder reads it -/
theorem content_roundtrip (content : Bytes) (cs full : Bool)
    (hA : ∀ r ∈ runeList content, Alpha43 r) :
    ∃ bits, drawData (dataOf content cs) = some bits ∧
      checkValue content = ((valSum (runeList content) % 43 : Nat) : Int) ∧
      (∃ c, Alpha43 c ∧ valOf c = ((valSum (runeList content) % 43 : Nat) : Int) ∧
        bits = drawBits (42 :: (runeList content ++ (if cs then [c] else [])) ++ [42])) ∧
      c39Decode cs full bits =
        finish full (runeList content) (if cs then some (valSum (runeList content) % 43) else none) := by
  obtain ⟨c, hcA, hcv, hdraw, hck⟩ := draw_content content cs hA
  refine ⟨_, hdraw, hck, ⟨c, hcA, hcv, rfl⟩, ?_⟩
  rw [decode_drawBits cs full _ (by simp)]
  · exact tail_eval cs full (runeList content) hA c hcA hcv
  · intro r hr
    simp only [List.cons_append, List.mem_cons, List.mem_append, List.not_mem_nil, or_false] at hr
    rcases hr with rfl | (hr | hr) | rfl
    · exact inTable_42
    · exact (hA r hr).1
    · split at hr
      · simp only [List.mem_cons, List.not_mem_nil, or_false] at hr; subst hr; exact hcA.1
      · simp at hr
    · exact inTable_42

theorem not_star_of_alpha {text : Bytes} (hA : ∀ r ∈ runeList text, Alpha43 r) : containsRune text 42 = false := by
  cases h : containsRune text 42 with
  | false => rfl
  | true => exact absurd rfl ((hA 42 ((containsRune_iff text 42).1 h)).2)

/-- basic mode: the accepted texts are exactly those over the 43 data characters -/
theorem basic_accept_iff (text : Bytes) (cs : Bool) (s : Scheme) :
    (∃ bc, encodeWithColor text cs false s = .ok bc) ↔ ∀ r ∈ runeList text, Alpha43 r := by
  rw [encodeWithColor_eq]
  simp only [Bool.false_eq_true, if_false]
  constructor
  · rintro ⟨bc, h⟩
    cases hc : containsRune text 42 with
    | true => rw [hc] at h; simp at h
    | false =>
      rw [hc] at h
      simp only [Bool.false_eq_true, if_false] at h
      have hd : drawData (dataOf text cs) ≠ none := by
        intro hn; rw [hn] at h; simp at h
      intro r hr
      refine ⟨drawable_inv text cs hd r hr, ?_⟩
      rintro rfl
      have := (containsRune_iff text 42).2 hr
      rw [hc] at this; exact absurd this (by simp)
  · intro hA
    rw [not_star_of_alpha hA]
    simp only [Bool.false_eq_true, if_false]
    obtain ⟨bits, hd, _⟩ := content_roundtrip text cs false hA
    rw [hd]
    exact ⟨_, rfl⟩

theorem basic_reject (text : Bytes) (cs : Bool) (s : Scheme) (h : ¬ ∀ r ∈ runeList text, Alpha43 r) :
    encodeWithColor text cs false s = .error .rejected := by
  have hn : ¬ ∃ bc, encodeWithColor text cs false s = .ok bc := fun hh => h ((basic_accept_iff text cs s).1 hh)
  rw [encodeWithColor_eq] at hn ⊢
  simp only [Bool.false_eq_true, if_false] at hn ⊢
  cases hc : containsRune text 42 with
  | true => rfl
  | false =>
    rw [hc] at hn
    simp only [Bool.false_eq_true, if_false] at hn ⊢
    cases hd : drawData (dataOf text cs) with
    | none => rfl
    | some bits => rw [hd] at hn; exact absurd ⟨_, rfl⟩ hn

theorem full_reject (text : Bytes) (cs : Bool) (s : Scheme) (h : ¬ ∀ r ∈ runeList text, r ≤ 127) :
    encodeWithColor text cs true s = .error .rejected := by
  rw [encodeWithColor_eq]
  simp only [if_true]
  rw [prepare_fail]
  apply Classical.byContradiction
  intro hn
  apply h
  intro r hr
  apply Classical.byContradiction
  intro hr'
  exact hn ⟨r, hr, by omega⟩


/-! ### the patterns are the standard ones -/

/-- certificate (44 entries): the 12 modules of every table character are the nine elements of the reference
    pattern `c39Pattern` (bar first; narrow = 1 module, wide = 2 modules) -/
theorem cert_patterns : ∀ e ∈ table,
    (c39Pattern (Char.ofNat e.1.toNat)).map (fun p => expand true (p.map (fun w => if w then 2 else 1))) =
      some e.2.2 := by decide +kernel

theorem barsOf_eq_expand {r : Nat} (h : InTable r) :
    (c39Pattern (Char.ofNat r)).map (fun p => expand true (p.map (fun w => if w then 2 else 1))) =
      some (barsOf r) := by
  obtain ⟨v, b, hb⟩ := inTable_iff.1 h
  have := cert_patterns _ (mem_of_lookup _ _ _ hb)
  simp only [Int.toNat_natCast] at this
  rw [barsOf_eq hb]; exact this

end BV.Proofs.Code39
