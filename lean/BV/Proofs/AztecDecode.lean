/-
  BV.Proofs.AztecDecode — the reference decoder `Spec.Aztec.decode` cut into stages (equal to it by `rfl`),
  and for each stage the facts about the symbol that make it succeed.
-/
import BV.Proofs.AztecBits
import BV.Proofs.AztecCheck
namespace BV.Proofs.AztecDecode
open BV BV.Spec.Aztec BV.Proofs.AztecBits

/-- the data part of `decode`: codewords, Reed–Solomon check, un-stuffing, character stream -/
def stageData (w : Nat) (m : Int × Int → Bool) (compact : Bool) (layers dataWords : Nat) : Except String Info := do
  let ws := wordSizeOf layers
  let bits := (dataModules compact layers).map m
  let pad := bits.length % ws
  check ((bits.take pad).all (fun b => !b)) "leading pad bits not zero"
  let words := groups ws (bits.length / ws) (bits.drop pad)
  check (dataWords ≤ words.length) "mode message claims more data words than the symbol holds"
  let checkWords := words.length - dataWords
  let f ← match BV.Spec.RS.aztecField ws with
    | some f => pure f
    | none => .error "no field"
  check (f.valid 1 checkWords words) "data is not a Reed-Solomon codeword"
  let dw := words.take dataWords
  check (dw.all (fun x => x != 0 && x != 2 ^ ws - 1)) "all-zero or all-one data word"
  let stream := dw.flatMap (unstuffWord ws)
  let content ← parse ws (stream.length + 1) .upper none stream.length stream []
  pure { compact := compact, layers := layers, size := w, wordSize := ws, dataWords := dataWords,
         checkWords := checkWords, streamBits := stream.length, content := content }

/-- the mode message and reference grid part of `decode` -/
def stageMode (w : Nat) (m : Int × Int → Bool) (compact : Bool) : Except String Info := do
  let modeBits := (modeModules compact).map m
  let modeWords := groups 4 (modeBits.length / 4) modeBits
  let modeData := if compact then 2 else 4
  let f16 ← match BV.Spec.RS.aztecField 4 with
    | some f => pure f
    | none => .error "no field"
  check (f16.valid 1 (modeWords.length - modeData) modeWords) "mode message is not a Reed-Solomon codeword"
  let v := (modeWords.take modeData).foldl (fun a x => 16 * a + x) 0
  let layers := (if compact then v / 64 else v / 2048) + 1
  let dataWords := (if compact then v % 64 else v % 2048) + 1
  check (symbolSize compact layers = w) "mode message disagrees with the symbol size"
  let hs : Int := halfSize compact layers
  if !compact then
    check ((square hs.toNat).all (fun p =>
        if p.1 % 16 == 0 then m p == (p.2 % 2 == 0)
        else if p.2 % 16 == 0 then m p == (p.1 % 2 == 0)
        else true))
      "reference grid incomplete"
  stageData w m compact layers dataWords

/-- the finder part of `decode` -/
def stageFinder (w : Nat) (m : Int × Int → Bool) : Except String Info := do
  let compact := !(ringWalk 5).all (fun p => !m p)
  let r := modeRing compact
  check ((square (r - 1)).all (fun p => m p == (cheb p % 2 == 0))) "bullseye damaged"
  check (((ringWalk r).filter (isOrientation r)).all (fun p => m p == (orientationDark r).contains p))
    "orientation marks wrong"
  stageMode w m compact

theorem decode_eq (w h : Nat) (dark : Nat → Nat → Bool) :
    decode w h dark = (do
      check (w = h) "symbol is not square"
      let candidates : List (Bool × Nat) :=
        ((List.range 4).map (fun l => (true, l + 1)) ++ (List.range 32).map (fun l => (false, l + 1))).filter
          (fun p => symbolSize p.1 p.2 = w)
      check (!candidates.isEmpty) "size is not an Aztec size"
      stageFinder w (fun p => dark (((w / 2 : Nat) : Int) + p.1).toNat (((w / 2 : Nat) : Int) + p.2).toNat)) := by
  rfl

theorem check_true (msg : String) : check true msg = .ok () := rfl

/-- the data stage succeeds on message bits of the form the encoder produces -/
theorem stageData_ok (w : Nat) (m : Int × Int → Bool) (compact : Bool) (layers : Nat) (ws : Nat)
    (hws : wordSizeOf layers = ws) (p : Nat) (dw ecc : List Nat) (hp : p < ws)
    (hdw : ∀ x ∈ dw, x < 2 ^ ws) (hecc : ∀ x ∈ ecc, x < 2 ^ ws)
    (hbits : (dataModules compact layers).map m =
      List.replicate p false ++ (dw ++ ecc).flatMap (fun x => msbBits x ws))
    (f : BV.Spec.RS.BinField) (hf : BV.Spec.RS.aztecField ws = some f)
    (hvalid : f.valid 1 ecc.length (dw ++ ecc) = true)
    (hnz : ∀ x ∈ dw, x ≠ 0 ∧ x ≠ 2 ^ ws - 1) (data : Bytes)
    (hparse : parse ws ((dw.flatMap (unstuffWord ws)).length + 1) .upper none (dw.flatMap (unstuffWord ws)).length
      (dw.flatMap (unstuffWord ws)) [] = .ok data) :
    stageData w m compact layers dw.length =
      .ok { compact := compact, layers := layers, size := w, wordSize := ws, dataWords := dw.length,
            checkWords := ecc.length, streamBits := (dw.flatMap (unstuffWord ws)).length, content := data } := by
  have hall : ∀ x ∈ dw ++ ecc, x < 2 ^ ws := by
    intro x hx
    rcases List.mem_append.mp hx with h | h
    · exact hdw x h
    · exact hecc x h
  obtain ⟨r1, r2, r3, r4⟩ := BV.Proofs.AztecCheck.read_back p ws (dw ++ ecc) hp hall
  unfold stageData
  simp only [hws, hbits]
  rw [r4, r1, r3, check_true]
  have h1 : decide (dw.length ≤ (dw ++ ecc).length) = true := by simp
  have h2 : (dw ++ ecc).length - dw.length = ecc.length := by simp
  have h3 : (dw ++ ecc).take dw.length = dw := by simp
  have h4 : (dw.all fun x => x != 0 && x != 2 ^ ws - 1) = true := by
    rw [List.all_eq_true]
    intro x hx
    have := hnz x hx
    simp [this.1, this.2]
  simp only [h1, h2, h3, h4, hf, check_true, hparse, pure_bind, hvalid]
  rfl

/-- the mode stage reads `(layers, dataWords) = (L, W)` from a mode message of the form the encoder produces and,
    given a complete reference grid, hands over to the data stage -/
theorem stageMode_ok (w : Nat) (m : Int × Int → Bool) (compact : Bool) (L W : Nat) (hL : 1 ≤ L)
    (hW : 1 ≤ W ∧ W ≤ (if compact then 64 else 2048)) (mm : List Bool)
    (hmm : (modeModules compact).map m = mm)
    (hvalid : (BV.Spec.RS.BinField.mk 0x13 16).valid 1
      ((groups 4 (mm.length / 4) mm).length - (if compact then 2 else 4)) (groups 4 (mm.length / 4) mm) = true)
    (hv : ((groups 4 (mm.length / 4) mm).take (if compact then 2 else 4)).foldl (fun a x => 16 * a + x) 0 =
      (L - 1) * (if compact then 64 else 2048) + (W - 1))
    (hsize : symbolSize compact L = w)
    (hgrid : compact = false → (square (halfSize compact L)).all (fun p =>
        if p.1 % 16 == 0 then m p == (p.2 % 2 == 0)
        else if p.2 % 16 == 0 then m p == (p.1 % 2 == 0) else true) = true) :
    stageMode w m compact = stageData w m compact L W := by
  obtain ⟨e1, e2⟩ := BV.Proofs.AztecCheck.mode_read_back compact L W hL hW
  unfold stageMode
  simp only [hmm, hv, e1, e2]
  have hf : BV.Spec.RS.aztecField 4 = some ⟨0x13, 16⟩ := rfl
  simp only [hf, pure_bind, hvalid, check_true, hsize, decide_true, Int.toNat_natCast]
  cases compact with
  | true => rfl
  | false =>
    have := hgrid rfl
    simp only [Bool.not_false, if_true, this, check_true]
    rfl

/-- the finder stage recognises the symbol kind and accepts bullseye and orientation marks -/
theorem stageFinder_ok (w : Nat) (m : Int × Int → Bool) (compact : Bool)
    (h5 : (ringWalk 5).all (fun p => !m p) = !compact)
    (hbull : (square (modeRing compact - 1)).all (fun p => m p == (cheb p % 2 == 0)) = true)
    (horient : ((ringWalk (modeRing compact)).filter (isOrientation (modeRing compact))).all
        (fun p => m p == (orientationDark (modeRing compact)).contains p) = true) :
    stageFinder w m = stageMode w m compact := by
  unfold stageFinder
  simp only [h5, Bool.not_not, hbull, horient, check_true]
  rfl

/-- the size checks of `decode` pass for the 36 shapes -/
theorem decode_ok (w : Nat) (dark : Nat → Nat → Bool) (compact : Bool) (L : Nat) (hs : Shape compact L)
    (hsize : symbolSize compact L = w) :
    decode w w dark =
      stageFinder w (fun p => dark (((w / 2 : Nat) : Int) + p.1).toNat (((w / 2 : Nat) : Int) + p.2).toNat) := by
  rw [decode_eq]
  have hmem : (compact, L) ∈ ((List.range 4).map (fun l => (true, l + 1)) ++
      (List.range 32).map (fun l => (false, l + 1))).filter (fun p : Bool × Nat => symbolSize p.1 p.2 = w) := by
    rw [List.mem_filter]
    refine ⟨?_, by simpa using hsize⟩
    rw [List.mem_append]
    unfold Shape at hs
    cases compact with
    | true =>
      left
      rw [List.mem_map]
      exact ⟨L - 1, List.mem_range.mpr (by simp at hs; omega), by simp at hs ⊢; omega⟩
    | false =>
      right
      rw [List.mem_map]
      exact ⟨L - 1, List.mem_range.mpr (by simp at hs; omega), by simp at hs ⊢; omega⟩
  have hne : (!(((List.range 4).map (fun l => (true, l + 1)) ++
      (List.range 32).map (fun l => (false, l + 1))).filter (fun p : Bool × Nat => symbolSize p.1 p.2 = w)).isEmpty) = true := by
    cases hl : ((List.range 4).map (fun l => (true, l + 1)) ++
      (List.range 32).map (fun l => (false, l + 1))).filter (fun p : Bool × Nat => symbolSize p.1 p.2 = w) with
    | nil => rw [hl] at hmem; cases hmem
    | cons a l => rfl
  simp only [hne, decide_true, check_true]
  rfl

end BV.Proofs.AztecDecode
