/-
  BV.Proofs.SplitOn — `String.splitOn` with a one-character separator, computed on character lists.
  (`String.splitOn` is defined by well-founded recursion, so `decide` cannot evaluate the Spec tables
  `c128Widths`/`c93Widths` directly; this equation lemma rewrites them into structural recursion.)
-/
import Batteries.Data.String.Lemmas
set_option linter.deprecated false
namespace BV.Proofs.SplitOn
open String

/-- list-level split on a single character -/
def splitChars (sep : Char) : List Char → List Char → List (List Char)
  | acc, [] => [acc.reverse]
  | acc, c :: rest => if c = sep then acc.reverse :: splitChars sep [] rest else splitChars sep (c :: acc) rest

theorem singleton_eq (c : Char) : String.singleton c = ofList [c] := by
  apply String.ext_iff.2 ; simp

theorem sep_get (sep : Char) : Pos.Raw.get (String.singleton sep) 0 = sep := by
  rw [singleton_eq]; simpa using get_of_valid [] [sep]
theorem sep_next (sep : Char) : Pos.Raw.next (String.singleton sep) 0 = ⟨sep.utf8Size⟩ := by
  rw [singleton_eq]; simpa using next_of_valid [] sep []
theorem sep_end (sep : Char) : (String.singleton sep).rawEndPos = ⟨sep.utf8Size⟩ := by
  rw [singleton_eq, rawEndPos_ofList]; simp

theorem splitOnAux_of_valid (sep : Char) (l m r : List Char) (acc : List String) :
    String.splitOnAux (ofList (l ++ m ++ r)) (String.singleton sep) ⟨utf8Len l⟩ ⟨utf8Len l + utf8Len m⟩ 0 acc =
      acc.reverse ++ (splitChars sep m.reverse r).map ofList := by
  induction r generalizing l m acc with
  | nil =>
    rw [String.splitOnAux]
    have := extract_of_valid l m []
    simp only [List.append_nil] at this
    simp [-ofList_append, splitChars, this]
  | cons c r ih =>
    rw [String.splitOnAux]
    have h1 := get_of_valid (l ++ m) (c :: r)
    have h2 := next_of_valid (l ++ m) c r
    have h3 := extract_of_valid l m (c :: r)
    simp [-ofList_append] at h1 h2 h3
    simp only [sep_get, sep_next]
    simp [-ofList_append, h1, h2, h3, splitChars]
    have hpos := Char.utf8Size_pos c
    rw [if_neg (by omega)]
    split
    · rename_i hc
      subst hc
      have := ih (l ++ m ++ [c]) [] (ofList m :: acc)
      simp [-ofList_append] at this
      simp [-ofList_append, Pos.Raw.unoffsetBy, h3]
      rw [sep_end, if_pos (by simp)]
      simpa [-ofList_append, Nat.add_assoc] using this
    · have := ih l (m ++ [c]) acc
      simp [-ofList_append] at this
      simpa [-ofList_append, Nat.add_assoc] using this

theorem splitOn_singleton (s : String) (sep : Char) :
    s.splitOn (String.singleton sep) = (splitChars sep [] s.toList).map ofList := by
  have h := splitOnAux_of_valid sep [] [] s.toList []
  have hne : (String.singleton sep == "") = false := by
    rw [singleton_eq]; simp
  simpa [String.splitOn, hne] using h

example : "ab cd".splitOn " " = ["ab", "cd"] := by
  rw [show " " = String.singleton ' ' from rfl, splitOn_singleton]; decide

