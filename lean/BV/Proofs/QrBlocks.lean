/-
  BV.Proofs.QrBlocks — codeword level of property C01: `splitToBlocks` cuts the data codewords into the blocks of
  the symbol version, `interleave` writes them column by column, and the reference de-interleaver
  `Spec.Qr.deinterleave` (a double loop over arrays) gives the blocks back.
-/
import BV.Model.Qr
import BV.Spec.Qr
import BV.Proofs.Bits
namespace BV.Proofs.QrBlocks
open BV BV.Model.Qr BV.Spec.Qr

/-! ### one round of the de-interleaver -/

/-- one pass over the blocks: every selected block receives the next codeword -/
def roundStep (cw : Array Nat) (c : Nat → Bool) (st : Array (Array Nat) × Nat) (b : Nat) :
    Array (Array Nat) × Nat :=
  if c b then (st.1.modify b (·.push (cw.getD st.2 0)), st.2 + 1) else st

/-- number of selected blocks before block `j` -/
def cnt (c : Nat → Bool) (j : Nat) : Nat := ((List.range j).filter c).length

/-- counting one block further -/
theorem cnt_succ (c : Nat → Bool) (j : Nat) : cnt c (j + 1) = cnt c j + (if c j then 1 else 0) := by
  simp only [cnt, List.range_succ, List.filter_append, List.length_append]
  cases h : c j <;> simp [h]

/-- one pass over the first `j` blocks: selected block `b` gets codeword number `k + cnt c b` appended, the read position advances by the number of selected blocks -/
theorem round_spec (cw : Array Nat) (c : Nat → Bool) (A : Array (Array Nat)) (k : Nat) :
    ∀ j, j ≤ A.size → (List.range j).foldl (roundStep cw c) (A, k) =
      (A.mapIdx (fun b a => if b < j ∧ c b then a.push (cw.getD (k + cnt c b) 0) else a), k + cnt c j) := by
  intro j
  induction j with
  | zero =>
    intro _
    simp only [List.range_zero, List.foldl_nil, cnt, List.filter_nil, List.length_nil, Nat.add_zero]
    congr 1
    apply Array.ext
    · simp
    · intro i h1 h2; simp
  | succ j ih =>
    intro hj
    rw [List.range_succ, List.foldl_append, ih (by omega)]
    simp only [List.foldl_cons, List.foldl_nil, roundStep]
    rw [cnt_succ]
    cases hc : c j
    · simp only [Bool.false_eq_true, if_false, Nat.add_zero]
      congr 1
      apply Array.ext
      · simp
      · intro i h1 h2
        simp only [Array.getElem_mapIdx]
        by_cases hij : i = j
        · subst hij; simp [hc]
        · have : (i < j + 1) = (i < j) := by apply propext; omega
          simp only [this]
    · simp only [if_true]
      congr 1
      apply Array.ext
      · simp
      · intro i h1 h2
        simp only [Array.getElem_modify, Array.getElem_mapIdx]
        by_cases hij : j = i
        · subst hij
          simp [hc]
        · rw [if_neg hij]
          have : (i < j + 1) = (i < j) := by apply propext; omega
          simp only [this]

/-- `cnt` only looks at the blocks below `j` -/
theorem cnt_congr (c c' : Nat → Bool) (j : Nat) (h : ∀ b, b < j → c b = c' b) : cnt c j = cnt c' j := by
  induction j with
  | zero => rfl
  | succ j ih =>
    rw [cnt_succ, cnt_succ, ih (fun b hb => h b (by omega)), h j (by omega)]

/-! ### columns of a ragged matrix -/

/-- column `m` of the rows that are long enough -/
def col (rows : List (List Nat)) (m : Nat) : List Nat :=
  rows.filterMap (fun r => if r.length > m then some (r.getD m 0) else none)

/-- the first `M` columns one after the other: the interleaved sequence -/
def cols (rows : List (List Nat)) (M : Nat) : List Nat := (List.range M).flatMap (col rows)

/-- one more column -/
theorem cols_succ (rows : List (List Nat)) (M : Nat) : cols rows (M + 1) = cols rows M ++ col rows M := by
  simp [cols, List.range_succ, List.flatMap_append]

/-- a column of two stacked row lists -/
theorem col_append (r1 r2 : List (List Nat)) (m : Nat) : col (r1 ++ r2) m = col r1 m ++ col r2 m := by
  simp [col, List.filterMap_append]

/-- the selector of round `m` -/
def sel (rows : List (List Nat)) (m : Nat) (b : Nat) : Bool := decide (m < (rows.getD b []).length)

/-- column `m` of the first `j` rows has one entry per selected block below `j` -/
theorem length_col_take (rows : List (List Nat)) (m : Nat) : ∀ j, j ≤ rows.length →
    (col (rows.take j) m).length = cnt (sel rows m) j := by
  intro j
  induction j with
  | zero => intro _; simp [col, cnt]
  | succ j ih =>
    intro hj
    have hlt : j < rows.length := by omega
    rw [List.take_succ_eq_append_getElem hlt, col_append, List.length_append, ih (by omega), cnt_succ]
    congr 1
    have hg : rows.getD j [] = rows[j] := by simp [List.getD, hlt]
    have hs : sel rows m j = decide (m < rows[j].length) := by simp only [sel, hg]
    rw [hs]
    simp only [col, List.filterMap_cons, List.filterMap_nil]
    by_cases h : m < rows[j].length
    · simp [h]
    · simp [h]

/-- length of a column -/
theorem length_col (rows : List (List Nat)) (m : Nat) : (col rows m).length = cnt (sel rows m) rows.length := by
  have := length_col_take rows m rows.length (Nat.le_refl _)
  rwa [List.take_length] at this

/-- the codeword that block `b` receives in round `m` -/
theorem col_getD (rows : List (List Nat)) (m b : Nat) (hb : b < rows.length) (hm : m < (rows.getD b []).length) :
    (col rows m).getD (cnt (sel rows m) b) 0 = (rows.getD b []).getD m 0 := by
  have hsplit : rows = rows.take b ++ (rows[b] :: rows.drop (b + 1)) := by
    rw [List.getElem_cons_drop hb, List.take_append_drop]
  have hg : rows.getD b [] = rows[b] := by simp [List.getD, hb]
  rw [hg] at hm ⊢
  have hl := length_col_take rows m b (by omega)
  conv => lhs; arg 1; rw [hsplit]
  rw [col_append, ← hl]
  simp only [List.getD]
  rw [List.getElem?_append_right (Nat.le_refl _), Nat.sub_self]
  simp only [col, List.filterMap_cons]
  simp [hm]

/-- the first `M` columns start with the first `m` columns followed by column `m` -/
theorem cols_split (rows : List (List Nat)) (m : Nat) : ∀ M, m < M →
    ∃ rest, cols rows M = cols rows m ++ (col rows m ++ rest) := by
  intro M
  induction M with
  | zero => intro h; omega
  | succ M ih =>
    intro h
    rw [cols_succ]
    by_cases hm : m = M
    · subst hm; exact ⟨[], by simp⟩
    · obtain ⟨rest, hr⟩ := ih (by omega)
      exact ⟨rest ++ col rows M, by rw [hr]; simp⟩

/-- position of column `m` inside the interleaved sequence -/
theorem cols_getD (rows : List (List Nat)) (m M j : Nat) (hm : m < M) (hj : j < (col rows m).length) :
    (cols rows M).getD ((cols rows m).length + j) 0 = (col rows m).getD j 0 := by
  obtain ⟨rest, hr⟩ := cols_split rows m M hm
  rw [hr]
  simp only [List.getD]
  rw [List.getElem?_append_right (by omega)]
  rw [show (cols rows m).length + j - (cols rows m).length = j by omega]
  rw [List.getElem?_append_left hj]

/-- columns beyond the longest row are empty -/
theorem col_empty (rows : List (List Nat)) (m : Nat) (h : ∀ r ∈ rows, r.length ≤ m) : col rows m = [] := by
  simp only [col, List.filterMap_eq_nil_iff]
  intro r hr
  have := h r hr
  simp; omega

/-- reading more columns than the longest row has adds nothing -/
theorem cols_extend (rows : List (List Nat)) (M : Nat) (h : ∀ r ∈ rows, r.length ≤ M) :
    ∀ M', M ≤ M' → cols rows M' = cols rows M := by
  intro M'
  induction M' with
  | zero => intro h'; have : M = 0 := by omega
            subst this; rfl
  | succ M' ih =>
    intro h'
    by_cases he : M = M' + 1
    · subst he; rfl
    · rw [cols_succ, ih (by omega), col_empty rows M' (fun r hr => by have := h r hr; omega)]
      simp
/-! ### a phase of the de-interleaver: `M` rounds -/

/-- one more element of a prefix -/
theorem take_succ_getD (r : List Nat) (m : Nat) (h : m < r.length) :
    r.take (m + 1) = r.take m ++ [r.getD m 0] := by
  rw [List.take_succ_eq_append_getElem h]
  simp [List.getD, h]

/-- `cnt` is monotone -/
theorem cnt_mono (c : Nat → Bool) (j j' : Nat) (h : j ≤ j') : cnt c j ≤ cnt c j' := by
  induction j' with
  | zero => have : j = 0 := by omega
            subst this; exact Nat.le_refl _
  | succ j' ih =>
    by_cases he : j = j' + 1
    · subst he; exact Nat.le_refl _
    · have := ih (by omega)
      rw [cnt_succ]; omega

/-- `m` rounds of the de-interleaver over a sequence that starts (at `k0`) with the columns of `rows`: every block has received the first `m` entries of its row -/
theorem phase_spec (cw : Array Nat) (rows : List (List Nat)) (c : Nat → Nat → Bool)
    (A : Array (Array Nat)) (k0 M : Nat) (hA : A.size = rows.length)
    (hc : ∀ i b, i < M → b < rows.length → c i b = sel rows i b)
    (hcw : ∀ j, j < (cols rows M).length → cw.getD (k0 + j) 0 = (cols rows M).getD j 0) :
    ∀ m, m ≤ M →
      (List.range m).foldl (fun st i => (List.range rows.length).foldl (roundStep cw (c i)) st) (A, k0) =
        (A.mapIdx (fun b a => a ++ ((rows.getD b []).take m).toArray), k0 + (cols rows m).length) := by
  intro m
  induction m with
  | zero =>
    intro _
    simp only [List.range_zero, List.foldl_nil, cols, List.flatMap_nil, List.length_nil, Nat.add_zero]
    congr 1
    apply Array.ext
    · simp
    · intro i h1 h2; simp
  | succ m ih =>
    intro hm
    rw [List.range_succ, List.foldl_append, ih (by omega)]
    simp only [List.foldl_cons, List.foldl_nil]
    rw [round_spec cw (c m) _ _ rows.length (by simp [hA])]
    have hcnt : ∀ j, j ≤ rows.length → cnt (c m) j = cnt (sel rows m) j :=
      fun j hj => cnt_congr _ _ j (fun b hb => hc m b (by omega) (by omega))
    rw [cols_succ, List.length_append, length_col, hcnt _ (Nat.le_refl _), Nat.add_assoc]
    congr 1
    apply Array.ext
    · simp
    · intro b h1 h2
      have hb : b < rows.length := by simpa [hA] using h2
      simp only [Array.getElem_mapIdx]
      rw [hc m b (by omega) hb, hcnt b (by omega)]
      by_cases hs : m < (rows.getD b []).length
      · have hsel : sel rows m b = true := by unfold sel; exact decide_eq_true hs
        simp only [hb, hsel, and_self, if_true]
        have hj : cnt (sel rows m) b < (col rows m).length := by
          rw [length_col]
          -- strictly fewer selected blocks before `b` than in total, as `b` itself is selected
          have := cnt_mono (sel rows m) (b + 1) rows.length (by omega)
          rw [cnt_succ, hsel] at this
          simp at this; omega
        have h1 := hcw ((cols rows m).length + cnt (sel rows m) b) (by
          obtain ⟨rest, hr⟩ := cols_split rows m M (by omega)
          rw [hr]; simp only [List.length_append]; omega)
        rw [← Nat.add_assoc] at h1
        rw [h1, cols_getD rows m M _ (by omega) hj, col_getD rows m b hb hs, take_succ_getD _ _ hs]
        apply Array.toList_inj.mp
        simp
      · have hsel : sel rows m b = false := by unfold sel; exact decide_eq_false hs
        simp only [hsel, Bool.false_eq_true, and_false, if_false]
        rw [List.take_of_length_le (by omega), List.take_of_length_le (by omega)]

/-! ### the reference de-interleaver on an interleaved sequence -/

/-- the running maximum dominates its start value and every element -/
theorem le_foldl_max (l : List Nat) : ∀ (a : Nat), a ≤ l.foldl max a ∧ ∀ x ∈ l, x ≤ l.foldl max a := by
  induction l with
  | nil => intro a; simp
  | cons y l ih =>
    intro a
    simp only [List.foldl_cons]
    have := ih (max a y)
    refine ⟨by omega, ?_⟩
    intro x hx
    rcases List.mem_cons.mp hx with rfl | hx
    · omega
    · exact this.2 x hx

/-- de-interleaving `cols dataRows ++ cols eccRows` gives every block its data row followed by its check row -/
theorem deinterleave_cols (dataRows eccRows : List (List Nat)) (ec : Nat)
    (hlen : eccRows.length = dataRows.length) (hecc : ∀ r ∈ eccRows, r.length = ec) :
    deinterleave (cols dataRows ((dataRows.map List.length).foldl max 0) ++ cols eccRows ec).toArray
      (dataRows.map List.length) ec =
      (List.range dataRows.length).map (fun b => dataRows.getD b [] ++ eccRows.getD b []) := by
  generalize hM : (dataRows.map List.length).foldl max 0 = M
  have hMax : ∀ r ∈ dataRows, r.length ≤ M := by
    intro r hr
    rw [← hM]
    exact (le_foldl_max _ 0).2 _ (List.mem_map_of_mem hr)
  unfold deinterleave
  simp only [List.length_map, hM]
  -- data phase
  have e1 : ∀ (cw : Array Nat), (fun (st : Array (Array Nat) × Nat) i =>
      (List.range dataRows.length).foldl (fun (st : Array (Array Nat) × Nat) b =>
        if i < (dataRows.map List.length).toArray.getD b 0 then
          (st.1.modify b (·.push (cw.getD st.2 0)), st.2 + 1) else st) st) =
      (fun st i => (List.range dataRows.length).foldl (roundStep cw
        (fun b => decide (i < (dataRows.map List.length).toArray.getD b 0))) st) := by
    intro cw; funext st i
    congr 1
    funext st b
    simp [roundStep]
  have e2 : ∀ (cw : Array Nat), (fun (st : Array (Array Nat) × Nat) (_ : Nat) =>
      (List.range dataRows.length).foldl (fun (st : Array (Array Nat) × Nat) b =>
          (st.1.modify b (·.push (cw.getD st.2 0)), st.2 + 1)) st) =
      (fun st i => (List.range dataRows.length).foldl (roundStep cw (fun _ => true)) st) := by
    intro cw; funext st i
    congr 1
  rw [e1, e2]
  generalize hcw : (cols dataRows M ++ cols eccRows ec).toArray = cw
  have p1 := phase_spec cw dataRows (fun i b => decide (i < (dataRows.map List.length).toArray.getD b 0))
    (Array.replicate dataRows.length #[]) 0 M (by simp)
    (by
      intro i b _ hb
      simp only [sel]
      congr 1
      simp [List.getD, hb])
    (by
      intro j hj
      rw [← hcw]
      simp [List.getD, List.getElem?_append_left hj])
    M (Nat.le_refl _)
  rw [p1]
  simp only []
  have p2 := phase_spec cw eccRows (fun _ _ => true)
    ((Array.replicate dataRows.length #[]).mapIdx (fun b a => a ++ ((dataRows.getD b []).take M).toArray))
    (0 + (cols dataRows M).length) ec (by simp [hlen])
    (by
      intro i b hi hb
      simp only [sel]
      have : (eccRows.getD b []).length = ec := hecc _ (by simp [List.getD, hb])
      rw [this]; simp [hi])
    (by
      intro j hj
      rw [← hcw]
      simp only [Nat.zero_add, List.getD, Array.getD_eq_getD_getElem?, List.getElem?_toArray]
      rw [List.getElem?_append_right (by omega)]
      rw [show (cols dataRows M).length + j - (cols dataRows M).length = j by omega])
    ec (Nat.le_refl _)
  rw [hlen] at p2
  rw [p2]
  simp only []
  apply List.ext_getElem
  · simp
  · intro b h1 h2
    have hb : b < dataRows.length := by simpa using h2
    simp only [List.getElem_map, Array.getElem_toList, Array.getElem_mapIdx, Array.getElem_replicate,
      List.getElem_range]
    have hd : (dataRows.getD b []).length ≤ M := hMax _ (by simp [List.getD, hb])
    have he : (eccRows.getD b []).length = ec := hecc _ (by simp [List.getD, hb, hlen])
    rw [List.take_of_length_le hd, List.take_of_length_le (by omega)]
    simp

/-! ### `interleave` writes the columns -/

/-- the check part of a block as `interleave` reads it: exactly `ec` codewords (zero filled / cut) -/
def eccRow (ec : Nat) (b : Block) : List Nat := (List.range ec).map (fun i => b.ecc.getD i 0)

/-- a check part of exactly `ec` codewords is read as it is -/
theorem eccRow_eq (ec : Nat) (b : Block) (h : b.ecc.length = ec) : eccRow ec b = b.ecc := by
  apply List.ext_getElem
  · simp [eccRow, h]
  · intro i h1 h2
    simp [eccRow, List.getD, h2]

/-- `flatMap` congruence on the members -/
theorem flatMap_congr_mem {α β} (l : List α) (f g : α → List β) (h : ∀ x ∈ l, f x = g x) :
    l.flatMap f = l.flatMap g := by
  induction l with
  | nil => rfl
  | cons a l ih =>
    rw [List.flatMap_cons, List.flatMap_cons, h a (List.mem_cons_self ..),
      ih (fun x hx => h x (List.mem_cons_of_mem _ hx))]

/-- `interleave` = the columns of the data parts followed by the columns of the check parts -/
theorem interleave_eq (bl : List Block) (vi : VersionInfo) :
    interleave bl vi =
      cols (bl.map (·.data)) (max vi.dataCodeWordsPerBlockInGroup1 vi.dataCodeWordsPerBlockInGroup2) ++
      cols (bl.map (eccRow vi.errorCorrectionCodewordsPerBlock)) vi.errorCorrectionCodewordsPerBlock := by
  unfold interleave
  simp only []
  have hmax : (if vi.dataCodeWordsPerBlockInGroup1 > vi.dataCodeWordsPerBlockInGroup2
      then vi.dataCodeWordsPerBlockInGroup1 else vi.dataCodeWordsPerBlockInGroup2) =
      max vi.dataCodeWordsPerBlockInGroup1 vi.dataCodeWordsPerBlockInGroup2 := by
    split <;> omega
  rw [hmax]
  congr 1
  · unfold cols
    congr 1
    funext i
    simp only [col, List.filterMap_map]
    congr 1
    funext b
    simp [Function.comp, List.getD]
  · unfold cols
    apply flatMap_congr_mem
    intro i hi
    have hi : i < vi.errorCorrectionCodewordsPerBlock := List.mem_range.mp hi
    simp only [col, List.filterMap_map, List.map_map]
    rw [← List.filterMap_eq_map]
    congr 1
    funext b
    simp [eccRow, hi, List.getD]

/-! ### `splitToBlocks` -/

/-- one group loop of `splitToBlocks`: `n` blocks of `len` data codewords with their `calcECC`, consecutive slices of the input -/
theorem readBlocks_spec (bytes : Array Nat) (ecc len : Nat) : ∀ (n pos : Nat),
    (readBlocks bytes ecc len n pos).map (·.data.length) = List.replicate n len ∧
    (∀ b ∈ readBlocks bytes ecc len n pos, b.ecc = calcECC b.data ecc) ∧
    (readBlocks bytes ecc len n pos).flatMap (·.data) =
      (List.range (n * len)).map (fun i => bytes.getD (pos + i) 0) := by
  intro n
  induction n with
  | zero => intro pos; simp [readBlocks]
  | succ n ih =>
    intro pos
    obtain ⟨h1, h2, h3⟩ := ih (pos + len)
    simp only [readBlocks, List.map_cons, List.flatMap_cons, List.mem_cons]
    refine ⟨by simp [h1, List.replicate_succ], ?_, ?_⟩
    · intro b hb
      rcases hb with rfl | hb
      · rfl
      · exact h2 b hb
    · rw [h3, show (n + 1) * len = len + n * len by rw [Nat.add_mul]; omega, List.range_add,
        List.map_append, List.map_map]
      congr 1
      apply List.map_congr_left
      intro i _
      simp only [Function.comp]
      rw [Nat.add_assoc]

/-- a bound on all elements bounds the running maximum -/
theorem foldl_max_le (l : List Nat) (B : Nat) : ∀ a, a ≤ B → (∀ x ∈ l, x ≤ B) → l.foldl max a ≤ B := by
  induction l with
  | nil => intro a h _; simpa using h
  | cons y l ih =>
    intro a h hl
    simp only [List.foldl_cons]
    apply ih
    · have := hl y (List.mem_cons_self ..); omega
    · intro x hx; exact hl x (List.mem_cons_of_mem _ hx)

/-- the block lengths of a table row: group 1 first -/
def rowLens (vi : VersionInfo) : List Nat :=
  List.replicate vi.numberOfBlocksInGroup1 vi.dataCodeWordsPerBlockInGroup1 ++
    List.replicate vi.numberOfBlocksInGroup2 vi.dataCodeWordsPerBlockInGroup2

/-- `splitToBlocks`, `interleave` and the reference de-interleaver for an arbitrary block structure -/
theorem split_interleave (vi : VersionInfo) (data : List Nat)
    (hn : vi.numberOfBlocksInGroup1 + vi.numberOfBlocksInGroup2 < 256)
    (hlen : data.length = vi.totalDataBytes) :
    ∃ blocks, splitToBlocks data vi = .ok blocks ∧
      blocks.map (·.data.length) = rowLens vi ∧
      (∀ b ∈ blocks, b.ecc = calcECC b.data vi.errorCorrectionCodewordsPerBlock) ∧
      blocks.flatMap (·.data) = data ∧
      deinterleave (interleave blocks vi).toArray (rowLens vi) vi.errorCorrectionCodewordsPerBlock =
        blocks.map (fun b => b.data ++ eccRow vi.errorCorrectionCodewordsPerBlock b) := by
  unfold splitToBlocks
  simp only []
  rw [if_neg (by omega)]
  obtain ⟨a1, a2, a3⟩ := readBlocks_spec data.toArray vi.errorCorrectionCodewordsPerBlock
    vi.dataCodeWordsPerBlockInGroup1 vi.numberOfBlocksInGroup1 0
  obtain ⟨b1, b2, b3⟩ := readBlocks_spec data.toArray vi.errorCorrectionCodewordsPerBlock
    vi.dataCodeWordsPerBlockInGroup2 vi.numberOfBlocksInGroup2
    (vi.numberOfBlocksInGroup1 * vi.dataCodeWordsPerBlockInGroup1)
  generalize readBlocks data.toArray vi.errorCorrectionCodewordsPerBlock
    vi.dataCodeWordsPerBlockInGroup1 vi.numberOfBlocksInGroup1 0 = g1 at *
  generalize readBlocks data.toArray vi.errorCorrectionCodewordsPerBlock
    vi.dataCodeWordsPerBlockInGroup2 vi.numberOfBlocksInGroup2
    (vi.numberOfBlocksInGroup1 * vi.dataCodeWordsPerBlockInGroup1) = g2 at *
  have hlens : (g1 ++ g2).map (·.data.length) = rowLens vi := by
    rw [List.map_append, a1, b1]; rfl
  refine ⟨g1 ++ g2, rfl, hlens, ?_, ?_, ?_⟩
  · intro b hb
    rcases List.mem_append.mp hb with hb | hb
    · exact a2 b hb
    · exact b2 b hb
  · rw [List.flatMap_append, a3, b3]
    unfold VersionInfo.totalDataBytes at hlen
    simp only [] at hlen
    apply List.ext_getElem
    · simp [hlen]
    · intro i h1 h2
      simp only [List.getElem_append, List.length_map, List.length_range, List.getElem_map,
        List.getElem_range]
      split
      · simp [h2]
      · rename_i hge
        rw [show vi.numberOfBlocksInGroup1 * vi.dataCodeWordsPerBlockInGroup1 +
          (i - vi.numberOfBlocksInGroup1 * vi.dataCodeWordsPerBlockInGroup1) = i by omega]
        simp [h2]
  · rw [interleave_eq]
    have hall : ∀ r ∈ (g1 ++ g2).map (·.data), r.length ≤
        max vi.dataCodeWordsPerBlockInGroup1 vi.dataCodeWordsPerBlockInGroup2 := by
      intro r hr
      obtain ⟨b, hb, rfl⟩ := List.mem_map.mp hr
      have : b.data.length ∈ rowLens vi := by rw [← hlens]; exact List.mem_map_of_mem hb
      unfold rowLens at this
      rcases List.mem_append.mp this with h | h
      · have := (List.mem_replicate.mp h).2; omega
      · have := (List.mem_replicate.mp h).2; omega
    have hmm : (((g1 ++ g2).map (·.data)).map List.length).foldl max 0 ≤
        max vi.dataCodeWordsPerBlockInGroup1 vi.dataCodeWordsPerBlockInGroup2 := by
      apply foldl_max_le _ _ 0 (by omega)
      intro x hx
      obtain ⟨r, hr, rfl⟩ := List.mem_map.mp hx
      exact hall r hr
    have hmax' : ∀ r ∈ (g1 ++ g2).map (·.data), r.length ≤
        (((g1 ++ g2).map (·.data)).map List.length).foldl max 0 := by
      intro r hr
      exact (le_foldl_max _ 0).2 _ (List.mem_map_of_mem hr)
    rw [cols_extend _ _ hmax' _ hmm]
    have hl2 : rowLens vi = ((g1 ++ g2).map (·.data)).map List.length := by
      rw [← hlens, List.map_map]; rfl
    rw [hl2, deinterleave_cols _ _ vi.errorCorrectionCodewordsPerBlock (by simp)
      (by
        intro r hr
        obtain ⟨b, _, rfl⟩ := List.mem_map.mp hr
        simp [eccRow])]
    apply List.ext_getElem
    · simp
    · intro i h1 h2
      have hi : i < (g1 ++ g2).length := by simpa using h2
      generalize g1 ++ g2 = g at *
      simp [List.getD, hi]

/-! ### the block structure of the standard -/

/-- number of check codewords per block and the data lengths of the blocks for a (version, level), read from
    Table 9 of the standard exactly as `Spec.Qr.decode` does -/
def isoBlocks (version level : Nat) : Option (Nat × List Nat) :=
  match blockTable.lookup version with
  | none => none
  | some row =>
    match row.find? (fun e => e.1 == levelChar level) with
    | some e => some (e.2.1, e.2.2.flatMap (fun g => List.replicate g.1 g.2))
    | none => none

/-- certificate over the 160 rows of the generated table: the row has fewer than 256 blocks and its block
    structure is the one of the standard for its (version, level) -/
theorem blocks_certificate : versionInfos.all (fun vi =>
    decide (vi.numberOfBlocksInGroup1 + vi.numberOfBlocksInGroup2 < 256) &&
    (isoBlocks vi.version vi.level == some (vi.errorCorrectionCodewordsPerBlock, rowLens vi))) = true := by
  decide +kernel

/-- the certificate for one row -/
theorem blocks_of_mem (vi : VersionInfo) (h : vi ∈ versionInfos) :
    vi.numberOfBlocksInGroup1 + vi.numberOfBlocksInGroup2 < 256 ∧
    isoBlocks vi.version vi.level = some (vi.errorCorrectionCodewordsPerBlock, rowLens vi) := by
  have := List.all_eq_true.mp blocks_certificate vi h
  simp only [Bool.and_eq_true, decide_eq_true_eq, beq_iff_eq] at this
  exact this

end BV.Proofs.QrBlocks
