/-
  BV.Proofs.AztecGeomCert — the certificates of all 36 Aztec shapes (compact 1–4 layers, full-range 1–32 layers) hold;
  the kernel evaluations are in `AztecGeomCertA/B/C`.
-/
import BV.Proofs.AztecGeomCertA
import BV.Proofs.AztecGeomCertB
import BV.Proofs.AztecGeomCertC
namespace BV.Proofs.AztecGeom
open BV.Proofs.AztecBits

set_option maxRecDepth 100000

/-- the certificates of all 36 shapes hold -/
theorem cert_all (compact : Bool) (L : Nat) (h : Shape compact L) : cert compact L = true := by
  obtain ⟨h1, h2⟩ := h
  cases compact
  · simp only [Bool.false_eq_true, if_false] at h2
    match L, h1, h2 with
    | 1, _, _ => exact cert_full_1
    | 2, _, _ => exact cert_full_2
    | 3, _, _ => exact cert_full_3
    | 4, _, _ => exact cert_full_4
    | 5, _, _ => exact cert_full_5
    | 6, _, _ => exact cert_full_6
    | 7, _, _ => exact cert_full_7
    | 8, _, _ => exact cert_full_8
    | 9, _, _ => exact cert_full_9
    | 10, _, _ => exact cert_full_10
    | 11, _, _ => exact cert_full_11
    | 12, _, _ => exact cert_full_12
    | 13, _, _ => exact cert_full_13
    | 14, _, _ => exact cert_full_14
    | 15, _, _ => exact cert_full_15
    | 16, _, _ => exact cert_full_16
    | 17, _, _ => exact cert_full_17
    | 18, _, _ => exact cert_full_18
    | 19, _, _ => exact cert_full_19
    | 20, _, _ => exact cert_full_20
    | 21, _, _ => exact cert_full_21
    | 22, _, _ => exact cert_full_22
    | 23, _, _ => exact cert_full_23
    | 24, _, _ => exact cert_full_24
    | 25, _, _ => exact cert_full_25
    | 26, _, _ => exact cert_full_26
    | 27, _, _ => exact cert_full_27
    | 28, _, _ => exact cert_full_28
    | 29, _, _ => exact cert_full_29
    | 30, _, _ => exact cert_full_30
    | 31, _, _ => exact cert_full_31
    | 32, _, _ => exact cert_full_32
    | n + 33, _, h => omega
  · simp only [if_true] at h2
    match L, h1, h2 with
    | 1, _, _ => exact cert_compact_1
    | 2, _, _ => exact cert_compact_2
    | 3, _, _ => exact cert_compact_3
    | 4, _, _ => exact cert_compact_4
    | n + 5, _, h => omega

end BV.Proofs.AztecGeom
