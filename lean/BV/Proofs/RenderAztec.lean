/-
  RenderAztec — C11 for Aztec: the colour scheme only ever sits in the `color` field of the symbol
  (every drawing step commutes with recolouring), drawing keeps side and content, and the side is the
  one the chosen layout prescribes.
-/
import BV.Proofs.Render
import BV.Model.Aztec
namespace BV.Proofs.RenderAztec
open BV BV.Model BV.Model.Aztec BV.Gen.Aztec BV.Proofs.Render

/-! ### recolouring commutes with drawing -/

/-- the same symbol with another colour scheme -/
def recolor (s : Scheme) (c : AztecCode) : AztecCode := { c with color := s }

theorem set_recolor (s : Scheme) (c : AztecCode) (x y : Nat) : (recolor s c).set x y = recolor s (c.set x y) := rfl

theorem setIf_recolor (s : Scheme) (c : AztecCode) (b : Bool) (x y : Nat) :
    (recolor s c).setIf b x y = recolor s (c.setIf b x y) := by
  cases b <;> rfl

theorem drawModeMessage_recolor (s : Scheme) (c : AztecCode) (compact : Bool) (n : Nat) (mm : Array Bool) :
    drawModeMessage (recolor s c) compact n mm = recolor s (drawModeMessage c compact n mm) := by
  unfold drawModeMessage
  simp only []
  split
  · apply foldl_comm; intro a x; simp only [setIf_recolor]
  · apply foldl_comm; intro a x; simp only [setIf_recolor]

theorem drawBullsEye_recolor (s : Scheme) (c : AztecCode) (center size : Nat) :
    drawBullsEye (recolor s c) center size = recolor s (drawBullsEye c center size) := by
  unfold drawBullsEye
  simp only []
  rw [foldl_comm (recolor s)]
  · simp only [set_recolor]
  · intro a x
    apply foldl_comm; intro a x; simp only [set_recolor]

theorem drawReferenceGrid_recolor (s : Scheme) (c : AztecCode) (b m : Nat) :
    drawReferenceGrid (recolor s c) b m = recolor s (drawReferenceGrid c b m) := by
  unfold drawReferenceGrid
  simp only []
  apply foldl_comm; intro a x
  apply foldl_comm; intro a x; simp only [set_recolor]

theorem drawDataBits_recolor (s : Scheme) (c : AztecCode) (compact : Bool) (layers b : Nat)
    (am : Array Nat) (mb : Array Bool) :
    drawDataBits (recolor s c) compact layers b am mb = recolor s (drawDataBits c compact layers b am mb) := by
  unfold drawDataBits
  simp only []
  rw [show ((recolor s c, 0) : AztecCode × Nat) = (fun st : AztecCode × Nat => (recolor s st.1, st.2)) (c, 0) from rfl]
  rw [foldl_comm (σ := AztecCode × Nat) (fun st => (recolor s st.1, st.2))]
  intro a x
  simp only []
  congr 1
  apply foldl_comm; intro a x
  apply foldl_comm; intro a x; simp only [setIf_recolor]

/-! ### `encodeWithColor` in stages -/

/-- the layer selection of `EncodeWithColor` (first lines of the function, verbatim) -/
def chooseLayout (data : Bytes) (minECCPercent userSpecifiedLayers : Int) : Res Layout :=
  let bits := highlevelEncode data
  let eccBits : Int := Int.tdiv ((bits.length : Int) * minECCPercent) 100 + 11
  let totalSizeBits : Int := bits.length + eccBits
  if userSpecifiedLayers != Int.ofNat c_DEFAULT_LAYERS then explicitLayers bits eccBits userSpecifiedLayers
  else autoLayers bits eccBits totalSizeBits (c_max_nb_bits + 2) 0 0 []

/-- the drawing steps of `EncodeWithColor` (verbatim) -/
def drawAll (code : AztecCode) (compact : Bool) (layers baseMatrixSize matrixSize : Nat) (am : Array Nat)
    (mb mm : Array Bool) : AztecCode :=
  let code := drawDataBits code compact layers baseMatrixSize am mb
  let code := drawModeMessage code compact matrixSize mm
  if compact then drawBullsEye code (matrixSize / 2) 5
  else drawReferenceGrid (drawBullsEye code (matrixSize / 2) 7) baseMatrixSize matrixSize

/-- side of the symbol before the reference grid is inserted -/
def baseSize (lay : Layout) : Nat := if lay.compact then 11 + lay.layers * 4 else 14 + lay.layers * 4

/-- the freshly allocated symbol with its content set -/
def initCode (n : Nat) (color : Scheme) (data : Bytes) : AztecCode := { newAztecCode n color with content := data }

theorem initCode_recolor (n : Nat) (s s0 : Scheme) (d : Bytes) : initCode n s d = recolor s (initCode n s0 d) := rfl

theorem toBarcode_recolor (s : Scheme) (c : AztecCode) :
    (recolor s c).toBarcode = Barcode.recolor s c.toBarcode := rfl

theorem encodeWithColor_eq (data : Bytes) (e u : Int) (color : Scheme) :
    encodeWithColor data e u color = (do
      let lay ← chooseLayout data e u
      let messageBits ← generateCheckWords lay.stuffedBits lay.totalBitsInLayer lay.wordSize
      let modeMessage ← generateModeMessage lay.compact lay.layers (lay.stuffedBits.length / lay.wordSize)
      let am := alignmentMap lay.compact (baseSize lay)
      pure (drawAll (initCode am.2 color data) lay.compact lay.layers (baseSize lay)
        am.2 am.1 messageBits.toArray modeMessage.toArray).toBarcode) := by
  unfold encodeWithColor chooseLayout
  simp only []
  split <;> rfl

theorem drawAll_recolor (s : Scheme) (c : AztecCode) (compact : Bool) (l b m : Nat) (am : Array Nat)
    (mb mm : Array Bool) :
    drawAll (recolor s c) compact l b m am mb mm = recolor s (drawAll c compact l b m am mb mm) := by
  unfold drawAll
  simp only [drawDataBits_recolor, drawModeMessage_recolor, drawBullsEye_recolor, drawReferenceGrid_recolor]
  split <;> rfl

theorem aztec_map (data : Bytes) (e u : Int) (s : Scheme) :
    encodeWithColor data e u s = (encode data e u).map (Barcode.recolor s) := by
  unfold encode
  rw [encodeWithColor_eq, encodeWithColor_eq]
  cases chooseLayout data e u with
  | error err => rfl
  | ok lay =>
    simp only [bind, Except.bind]
    cases generateCheckWords lay.stuffedBits lay.totalBitsInLayer lay.wordSize with
    | error err => rfl
    | ok mb =>
      simp only []
      cases generateModeMessage lay.compact lay.layers (lay.stuffedBits.length / lay.wordSize) with
      | error err => rfl
      | ok mm =>
        simp only [pure, Except.pure, Except.map]
        rw [initCode_recolor _ s scheme16, drawAll_recolor, toBarcode_recolor]

/-! ### drawing keeps side, content and colour -/

def Keeps (n : Nat) (d : Bytes) (s : Scheme) (c : AztecCode) : Prop := c.size = n ∧ c.content = d ∧ c.color = s

theorem keeps_set {n d s c} (x y : Nat) (h : Keeps n d s c) : Keeps n d s (c.set x y) := h

theorem keeps_setIf {n d s c} (b : Bool) (x y : Nat) (h : Keeps n d s c) : Keeps n d s (c.setIf b x y) := by
  cases b <;> exact h

theorem drawAll_keeps {n d s} (c : AztecCode) (compact : Bool) (l b m : Nat) (am : Array Nat)
    (mb mm : Array Bool) (h : Keeps n d s c) : Keeps n d s (drawAll c compact l b m am mb mm) := by
  have h1 : Keeps n d s (drawDataBits c compact l b am mb) := by
    unfold drawDataBits
    simp only []
    refine foldl_inv (fun st : AztecCode × Nat => Keeps n d s st.1) _ ?_ _ _ h
    intro a x ha
    refine foldl_inv (Keeps n d s) _ ?_ _ _ ha
    intro a x ha
    refine foldl_inv (Keeps n d s) _ ?_ _ _ ha
    intro a x ha
    exact keeps_setIf _ _ _ (keeps_setIf _ _ _ (keeps_setIf _ _ _ (keeps_setIf _ _ _ ha)))
  have h2 : Keeps n d s (drawModeMessage (drawDataBits c compact l b am mb) compact m mm) := by
    unfold drawModeMessage
    simp only []
    split
    · refine foldl_inv (Keeps n d s) _ ?_ _ _ h1
      intro a x ha
      exact keeps_setIf _ _ _ (keeps_setIf _ _ _ (keeps_setIf _ _ _ (keeps_setIf _ _ _ ha)))
    · refine foldl_inv (Keeps n d s) _ ?_ _ _ h1
      intro a x ha
      exact keeps_setIf _ _ _ (keeps_setIf _ _ _ (keeps_setIf _ _ _ (keeps_setIf _ _ _ ha)))
  have h3 : ∀ c center size, Keeps n d s c → Keeps n d s (drawBullsEye c center size) := by
    intro c center size hc
    unfold drawBullsEye
    simp only []
    refine keeps_set _ _ (keeps_set _ _ (keeps_set _ _ (keeps_set _ _ (keeps_set _ _ (keeps_set _ _ ?_)))))
    refine foldl_inv (Keeps n d s) _ ?_ _ _ hc
    intro a x ha
    refine foldl_inv (Keeps n d s) _ ?_ _ _ ha
    intro a x ha
    exact keeps_set _ _ (keeps_set _ _ (keeps_set _ _ (keeps_set _ _ ha)))
  unfold drawAll
  simp only []
  split
  · exact h3 _ _ _ h2
  · unfold drawReferenceGrid
    simp only []
    refine foldl_inv (Keeps n d s) _ ?_ _ _ (h3 _ _ _ h2)
    intro a x ha
    refine foldl_inv (Keeps n d s) _ ?_ _ _ ha
    intro a x ha
    exact keeps_set _ _ (keeps_set _ _ (keeps_set _ _ (keeps_set _ _ ha)))

/-! ### the layer selection yields a legal layer count -/

def LegalLayout (lay : Layout) : Prop :=
  1 ≤ lay.layers ∧ (if lay.compact then lay.layers ≤ 4 else lay.layers ≤ 32)

theorem explicitLayers_legal (bits : List Bool) (ecc u : Int) (lay : Layout) (hu : u ≠ 0)
    (h : explicitLayers bits ecc u = .ok lay) : LegalLayout lay := by
  unfold explicitLayers at h
  unfold LegalLayout
  by_cases hc : u < 0
  · simp only [hc, decide_true, if_true, Bool.true_and, Bool.not_true, Bool.false_and, Bool.or_false,
      c_max_nb_bits_compact] at h
    split at h
    · cases h
    · rename_i hr
      split at h
      · cases h
      · split at h
        · cases h
        · cases h
          simp only [decide_eq_true_eq, Nat.not_lt, gt_iff_lt] at hr
          simp only [if_true]
          omega
  · simp only [hc, decide_false, Bool.false_eq_true, if_false, Bool.false_and, Bool.not_false, Bool.true_and,
      Bool.false_or, c_max_nb_bits] at h
    split at h
    · cases h
    · rename_i hr
      split at h
      · cases h
      · cases h
        simp only [decide_eq_true_eq, Nat.not_lt, gt_iff_lt] at hr
        simp only [Bool.false_eq_true, if_false]
        omega

theorem autoLayers_legal (bits : List Bool) (ecc tot : Int) : ∀ (fuel i ws : Nat) (sb : List Bool) (lay : Layout),
    autoLayers bits ecc tot fuel i ws sb = .ok lay → LegalLayout lay := by
  intro fuel
  induction fuel with
  | zero => intro i ws sb lay h; unfold autoLayers at h; cases h
  | succ fuel ih =>
    intro i ws sb lay h
    unfold autoLayers at h
    by_cases hi : i > c_max_nb_bits
    · rw [if_pos hi] at h; cases h
    · rw [if_neg hi] at h
      simp only [c_max_nb_bits] at hi
      by_cases hc : i ≤ 3
      · simp only [hc, decide_true, if_true] at h
        generalize (if (ws != word_size (i + 1)) = true then (word_size (i + 1), stuffBits bits (word_size (i + 1)))
          else (ws, sb)) = p at h
        split at h
        · exact ih _ _ _ _ h
        · split at h
          · exact ih _ _ _ _ h
          · split at h
            · cases h
              unfold LegalLayout
              simp only [if_true]
              omega
            · exact ih _ _ _ _ h
      · simp only [hc, decide_false, Bool.false_eq_true, if_false, Bool.false_and] at h
        generalize (if (ws != word_size i) = true then (word_size i, stuffBits bits (word_size i))
          else (ws, sb)) = p at h
        split at h
        · exact ih _ _ _ _ h
        · split at h
          · cases h
            unfold LegalLayout
            simp only [Bool.false_eq_true, if_false]
            omega
          · exact ih _ _ _ _ h

theorem chooseLayout_legal (data : Bytes) (e u : Int) (lay : Layout) (h : chooseLayout data e u = .ok lay) :
    LegalLayout lay := by
  unfold chooseLayout at h
  simp only [] at h
  split at h
  · rename_i hu
    exact explicitLayers_legal _ _ _ _ (by simpa [c_DEFAULT_LAYERS] using hu) h
  · exact autoLayers_legal _ _ _ _ _ _ _ _ h

/-- side of the symbol for a layout: 11+4L compact, 15+4L+2·⌊(2L+6)/15⌋ full range -/
def sideOf (lay : Layout) : Nat :=
  if lay.compact then 11 + 4 * lay.layers else 15 + 4 * lay.layers + 2 * ((2 * lay.layers + 6) / 15)

theorem alignmentMap_side (lay : Layout) : (alignmentMap lay.compact (baseSize lay)).2 = sideOf lay := by
  unfold alignmentMap baseSize sideOf
  simp only []
  cases lay.compact
  · simp only [Bool.false_eq_true, if_false]
    omega
  · simp only [if_true]
    omega

/-- Shape of an accepted Aztec symbol. -/
theorem aztec_ok (data : Bytes) (e u : Int) (s : Scheme) (b : Barcode) (h : encodeWithColor data e u s = .ok b) :
    b.kind = "Aztec" ∧ b.dims = 2 ∧ b.content = data ∧ b.checksum = none ∧ b.scheme = s ∧
    ∃ lay, chooseLayout data e u = .ok lay ∧ LegalLayout lay ∧ b.w = sideOf lay ∧ b.h = sideOf lay := by
  rw [encodeWithColor_eq] at h
  cases hl : chooseLayout data e u with
  | error err => rw [hl] at h; cases h
  | ok lay =>
    rw [hl] at h
    simp only [bind, Except.bind] at h
    cases hm : generateCheckWords lay.stuffedBits lay.totalBitsInLayer lay.wordSize with
    | error err => rw [hm] at h; cases h
    | ok mb =>
      rw [hm] at h
      simp only [] at h
      cases hmm : generateModeMessage lay.compact lay.layers (lay.stuffedBits.length / lay.wordSize) with
      | error err => rw [hmm] at h; cases h
      | ok mm =>
        rw [hmm] at h
        simp only [pure, Except.pure] at h
        have hinit : Keeps (sideOf lay) data s (initCode (alignmentMap lay.compact (baseSize lay)).2 s data) :=
          ⟨alignmentMap_side lay, rfl, rfl⟩
        have hk := drawAll_keeps _ lay.compact lay.layers (baseSize lay) (alignmentMap lay.compact (baseSize lay)).2
          (alignmentMap lay.compact (baseSize lay)).1 mb.toArray mm.toArray hinit
        generalize drawAll (initCode (alignmentMap lay.compact (baseSize lay)).2 s data) lay.compact lay.layers
          (baseSize lay) (alignmentMap lay.compact (baseSize lay)).2
          (alignmentMap lay.compact (baseSize lay)).1 mb.toArray mm.toArray = code at h hk
        cases h
        obtain ⟨k1, k2, k3⟩ := hk
        exact ⟨kind_aztec, rfl, k2, rfl, k3, lay, rfl, chooseLayout_legal _ _ _ _ hl, k1, k1⟩

end BV.Proofs.RenderAztec
