/-
  QR matrix layer, part 1: from bit arrays to pictures.
  The nine bitmaps of `render` (`occupied` and the eight `results`) are described by pure functions on in-range
  coordinates (`Pix`); every closure of `render` (`setAll`, `setOccupied`, `setResult i`) corresponds to a pure update
  (`Rep_setAll` …), and the whole function-pattern phase `drawn` is represented by the same generic procedure
  `drawnG` run on pictures (`drawn_rep`).  After this file no array reasoning is needed for the function patterns.
-/
import BV.Proofs.QrCoords
import BV.Proofs.QrMatrixDefs
namespace BV.Proofs.QrMatrix
open BV BV.Model BV.Model.Qr BV.Gen.Qr BV.Proofs.QrTables BV.Proofs.QrRender BV.Proofs.QrCoords

/-! ### indices -/

/-- the bit index `x*d+y` determines the in-range coordinate pair -/
theorem cell_index_inj (d x y X Y : Nat) (hy : y < d) (hY : Y < d) (h : x * d + y = X * d + Y) : x = X ∧ y = Y := by
  have hd : 0 < d := by omega
  have h1 : (d * x + y) / d = (d * X + Y) / d := by rw [Nat.mul_comm d x, Nat.mul_comm d X, h]
  rw [Nat.mul_add_div hd, Nat.mul_add_div hd, Nat.div_eq_of_lt hy, Nat.div_eq_of_lt hY] at h1
  have h2 : (d * x + y) % d = (d * X + Y) % d := by rw [Nat.mul_comm d x, Nat.mul_comm d X, h]
  rw [Nat.mul_add_mod, Nat.mul_add_mod, Nat.mod_eq_of_lt hy, Nat.mod_eq_of_lt hY] at h2
  omega

/-- reading a bitmap after one `Set`, all coordinates inside the symbol -/
theorem get_set (q : QRCode) (d : Nat) (hq : q.dimension = d) (hs : q.data.size = d * d) (x y X Y : Nat) (v : Bool)
    (hx : x < d) (hy : y < d) (_hX : X < d) (hY : Y < d) :
    (QRCode.set x y v q).get X Y = if X = x ∧ Y = y then v else q.get X Y := by
  unfold QRCode.get QRCode.set
  simp only [hq, Array.getD_eq_getD_getElem?, Array.getElem?_setIfInBounds]
  have hlt := index_lt x y d hx hy
  by_cases h : x * d + y = X * d + Y
  · obtain ⟨rfl, rfl⟩ := cell_index_inj d x y X Y hy hY h
    simp [hs, hlt]
  · rw [if_neg h]
    have : ¬ (X = x ∧ Y = y) := by
      rintro ⟨rfl, rfl⟩; exact h rfl
    rw [if_neg this]

/-- `setMasked … QRCode.set` writes one module -/
theorem setMasked_set (x y : Nat) (val : Bool) (mask : Nat) (q : QRCode) :
    ∃ v, setMasked x y val mask QRCode.set q = QRCode.set x y v q := by
  unfold setMasked; exact ⟨_, rfl⟩

/-! ### pictures -/

/-- occupancy and the eight result pictures as functions of (mask index,) column, row -/
structure Pix where
  occ : Nat → Nat → Bool
  res : Nat → Nat → Nat → Bool

/-- update of one module -/
def upd (f : Nat → Nat → Bool) (x y : Nat) (v : Bool) : Nat → Nat → Bool :=
  fun X Y => if X = x ∧ Y = y then v else f X Y

/-- the closure `setAll` on pictures -/
def Pix.setAll (x y : Nat) (v : Bool) (P : Pix) : Pix := ⟨upd P.occ x y true, fun i => upd (P.res i) x y v⟩
/-- `occupied.Set` on pictures -/
def Pix.setOcc (x y : Nat) (v : Bool) (P : Pix) : Pix := ⟨upd P.occ x y v, P.res⟩
/-- `results[i].Set` on pictures -/
def Pix.setRes (i x y : Nat) (v : Bool) (P : Pix) : Pix :=
  ⟨P.occ, fun j => if j = i then upd (P.res j) x y v else P.res j⟩

/-- the blank picture -/
def Pix.blank : Pix := ⟨fun _ _ => false, fun _ _ _ => false⟩

/-- the module (X, Y) of result bitmap `i` (false if there is no such bitmap) -/
def resV (rs : Array QRCode) (i X Y : Nat) : Bool :=
  match rs[i]? with
  | some q => q.get X Y
  | none => false

/-- eight bitmaps of side `d` showing the pictures `res 0 … res 7` -/
def RepR (c : Scheme) (d : Nat) (rs : Array QRCode) (res : Nat → Nat → Nat → Bool) : Prop :=
  rs.size = 8 ∧ (∀ q ∈ rs, QROk c d q) ∧ ∀ i X Y, i < 8 → X < d → Y < d → resV rs i X Y = res i X Y

/-- a render state showing the picture `P` -/
def Rep (c : Scheme) (d : Nat) (st : RenderState) (P : Pix) : Prop :=
  QROk c d st.occupied ∧ (∀ X Y, X < d → Y < d → st.occupied.get X Y = P.occ X Y) ∧ RepR c d st.results P.res

/-- a state that shows a picture has nine bitmaps of the right size -/
theorem Rep.stOk {c d st P} (h : Rep c d st P) : StOk c d st := ⟨h.1, h.2.2.1, h.2.2.2.1⟩

/-- element `j` after the loop `for i := 0..7 { results[i] = f i results[i] }` -/
theorem modifyAll_get (rs : Array QRCode) (f : Nat → QRCode → QRCode) (j : Nat) :
    ((List.range 8).foldl (fun (rs : Array QRCode) i => rs.modify i (f i)) rs)[j]? =
      if j < 8 then rs[j]?.map (f j) else rs[j]? := by
  have : ∀ n, ((List.range n).foldl (fun (rs : Array QRCode) i => rs.modify i (f i)) rs)[j]? =
      if j < n then rs[j]?.map (f j) else rs[j]? := by
    intro n
    induction n with
    | zero => simp
    | succ n ih =>
      rw [List.range_succ, List.foldl_append, List.foldl_cons, List.foldl_nil, Array.getElem?_modify, ih]
      by_cases h1 : n = j
      · subst h1; simp
      · rw [if_neg h1]
        by_cases h2 : j < n
        · rw [if_pos h2, if_pos (by omega)]
        · rw [if_neg h2, if_neg (by omega)]
  exact this 8

/-- an element found by index is a member -/
theorem mem_of_getElem? {α} (a : Array α) (i : Nat) (x : α) (h : a[i]? = some x) : x ∈ a := by
  have hi : i < a.size := by
    by_cases hlt : i < a.size
    · exact hlt
    · rw [Array.getElem?_eq_none (by omega)] at h; cases h
  rw [Array.getElem?_eq_getElem hi] at h
  simp only [Option.some.injEq] at h
  rw [← h]; exact Array.getElem_mem hi

/-- the loop over the eight results with a per-index single-module write -/
theorem RepR_modifyAll (c : Scheme) (d : Nat) (rs : Array QRCode) (res : Nat → Nat → Nat → Bool)
    (h : RepR c d rs res) (x y : Nat) (hx : x < d) (hy : y < d) (f : Nat → QRCode → QRCode) (w : Nat → Bool)
    (hf : ∀ i q, f i q = QRCode.set x y (w i) q) :
    RepR c d ((List.range 8).foldl (fun (rs : Array QRCode) i => rs.modify i (f i)) rs)
      (fun i => upd (res i) x y (w i)) := by
  obtain ⟨h1, h2, h3⟩ := h
  refine ⟨by rw [modifyAll_size]; exact h1, ?_, ?_⟩
  · exact modifyAll_ok d rs f (fun i q hq => by rw [hf]; exact QROk_set _ _ _ _ _ hq) h2
  · intro i X Y hi hX hY
    unfold resV
    rw [modifyAll_get, if_pos hi]
    have h3' := h3 i X Y hi hX hY
    unfold resV at h3'
    cases hq : rs[i]? with
    | none =>
      have : i < rs.size := by omega
      rw [Array.getElem?_eq_getElem this] at hq; cases hq
    | some q =>
      rw [hq] at h3'
      simp only [Option.map_some] at h3' ⊢
      have hok := h2 q (mem_of_getElem? rs i q hq)
      rw [hf, get_set q d hok.1 hok.2.1 x y X Y (w i) hx hy hX hY, h3']
      rfl

/-- `setAll` inside the symbol corresponds to `Pix.setAll` -/
theorem Rep_setAll {c d st P} (h : Rep c d st P) (x y : Nat) (v : Bool) (hx : x < d) (hy : y < d) :
    Rep c d (setAll x y v st) (P.setAll x y v) := by
  obtain ⟨h1, h2, h3⟩ := h
  unfold setAll Pix.setAll Rep
  simp only
  refine ⟨QROk_set _ _ _ _ _ h1, ?_, ?_⟩
  · intro X Y hX hY
    rw [get_set _ d h1.1 h1.2.1 x y X Y true hx hy hX hY, h2 X Y hX hY]; rfl
  · exact RepR_modifyAll c d st.results P.res h3 x y hx hy (fun _ => QRCode.set x y v) (fun _ => v)
      (fun _ _ => rfl)

/-- `occupied.Set` inside the symbol corresponds to `Pix.setOcc` -/
theorem Rep_setOcc {c d st P} (h : Rep c d st P) (x y : Nat) (v : Bool) (hx : x < d) (hy : y < d) :
    Rep c d (setOccupied x y v st) (P.setOcc x y v) := by
  obtain ⟨h1, h2, h3⟩ := h
  refine ⟨QROk_set _ _ _ _ _ h1, ?_, h3⟩
  intro X Y hX hY
  show (QRCode.set x y v st.occupied).get X Y = upd P.occ x y v X Y
  rw [get_set _ d h1.1 h1.2.1 x y X Y v hx hy hX hY, h2 X Y hX hY]; rfl

/-- `results[i].Set` inside the symbol corresponds to `Pix.setRes i` -/
theorem Rep_setRes {c d st P} (h : Rep c d st P) (i x y : Nat) (v : Bool) (_hi : i < 8) (hx : x < d) (hy : y < d) :
    Rep c d (setResult i x y v st) (P.setRes i x y v) := by
  obtain ⟨h1, h2, h3⟩ := h
  refine ⟨h1, h2, ?_⟩
  have hst := setResult_ok (c := c) d i x y v st ⟨h1, h3.1, h3.2.1⟩
  refine ⟨hst.2.1, hst.2.2, ?_⟩
  obtain ⟨s1, s2, s3⟩ := h3
  intro j X Y hj hX hY
  show resV (st.results.modify i (QRCode.set x y v)) j X Y = (if j = i then upd (P.res j) x y v else P.res j) X Y
  unfold resV
  rw [Array.getElem?_modify]
  have h3' := s3 j X Y hj hX hY
  unfold resV at h3'
  cases hq : st.results[j]? with
  | none =>
    have : j < st.results.size := by omega
    rw [Array.getElem?_eq_getElem this] at hq; cases hq
  | some q =>
    rw [hq] at h3'
    simp only at h3'
    have hok := s2 q (mem_of_getElem? _ j q hq)
    by_cases hij : i = j
    · subst hij
      simp only [if_true, Option.map_some]
      rw [get_set q d hok.1 hok.2.1 x y X Y v hx hy hX hY, h3']; rfl
    · rw [if_neg hij, if_neg (fun e => hij e.symm)]
      simp only
      exact h3'

/-- the initial state of `render` shows the blank picture -/
theorem Rep_init (d : Nat) (color : Scheme) :
    Rep color d (RenderState.mk (newBarCodeWithColor d color)
      ((List.range 8).foldl (fun a _ => a.push (newBarCodeWithColor d color)) #[])) Pix.blank := by
  have hi := init_ok d color
  have hnew : ∀ X Y, (newBarCodeWithColor d color).get X Y = false := by
    intro X Y
    unfold QRCode.get newBarCodeWithColor
    simp only [Array.getD_eq_getD_getElem?, Array.getElem?_replicate]
    split <;> rfl
  refine ⟨hi.1, fun X Y _ _ => hnew X Y, hi.2.1, hi.2.2, ?_⟩
  intro i X Y _ _ _
  unfold resV
  simp only
  cases hq : ((List.range 8).foldl (fun a _ => a.push (newBarCodeWithColor d color)) #[])[i]? with
  | none => rfl
  | some q =>
    have hm := mem_of_getElem? _ i q hq
    have e : List.range 8 = [0, 1, 2, 3, 4, 5, 6, 7] := by decide
    rw [e] at hm
    simp only [List.foldl_cons, List.foldl_nil, Array.mem_push, Array.not_mem_empty, false_or, or_self] at hm
    simp only [hm]; exact hnew X Y

/-! ### relational folds: the drawing procedures on related states -/

theorem foldl_rel {α α' β} (R : α → α' → Prop) (f : α → β → α) (f' : α' → β → α') (l : List β) (a : α) (a' : α')
    (h0 : R a a') (hstep : ∀ a a' b, b ∈ l → R a a' → R (f a b) (f' a' b)) :
    R (l.foldl f a) (l.foldl f' a') := by
  induction l generalizing a a' with
  | nil => exact h0
  | cons x xs ih =>
    rw [List.foldl_cons, List.foldl_cons]
    exact ih _ _ (hstep _ _ _ List.mem_cons_self h0) (fun a a' b hb => hstep a a' b (List.mem_cons_of_mem _ hb))

section
variable {σ σ' : Type} (R : σ → σ' → Prop) (set : Nat → Nat → Bool → σ → σ) (set' : Nat → Nat → Bool → σ' → σ')
  (vi : VersionInfo)
  (hset : ∀ x y v st st', x < vi.modulWidth → y < vi.modulWidth → R st st' → R (set x y v st) (set' x y v st'))
include hset

/-- `drawFinderPatterns` on related states with related `set` -/
theorem drawFinderPatterns_rel (st : σ) (st' : σ') (h : R st st') :
    R (drawFinderPatterns vi set st) (drawFinderPatterns vi set' st') := by
  unfold drawFinderPatterns
  simp only
  have hdp : ∀ (xoff yoff : Int) (st : σ) (st' : σ'), R st st' → R
      ((intRange (-1) 9).foldl (fun st x =>
        (intRange (-1) 9).foldl (fun st y =>
          let val := (x == 0 || x == 6 || y == 0 || y == 6 || (x > 1 && x < 5 && y > 1 && y < 5)) &&
            (x ≤ 6 && y ≤ 6 && x ≥ 0 && y ≥ 0)
          if x + xoff ≥ 0 && x + xoff < (vi.modulWidth : Int) && y + yoff ≥ 0 && y + yoff < (vi.modulWidth : Int) then
            set (x + xoff).toNat (y + yoff).toNat val st
          else st) st) st)
      ((intRange (-1) 9).foldl (fun st x =>
        (intRange (-1) 9).foldl (fun st y =>
          let val := (x == 0 || x == 6 || y == 0 || y == 6 || (x > 1 && x < 5 && y > 1 && y < 5)) &&
            (x ≤ 6 && y ≤ 6 && x ≥ 0 && y ≥ 0)
          if x + xoff ≥ 0 && x + xoff < (vi.modulWidth : Int) && y + yoff ≥ 0 && y + yoff < (vi.modulWidth : Int) then
            set' (x + xoff).toNat (y + yoff).toNat val st
          else st) st) st') := by
    intro xoff yoff st st' h
    apply foldl_rel R _ _ _ _ _ h
    intro a a' x _ ha
    apply foldl_rel R _ _ _ _ _ ha
    intro a a' y _ ha
    simp only
    split
    · rename_i hc
      simp only [Bool.and_eq_true, decide_eq_true_eq] at hc
      exact hset _ _ _ _ _ (by omega) (by omega) ha
    · exact ha
  exact hdp _ _ _ _ (hdp _ _ _ _ (hdp _ _ _ _ h))

/-- `drawAlignmentPatterns` on related states with related `set` and `occupied` reads -/
theorem drawAlignmentPatterns_rel (occ : σ → Nat → Nat → Bool) (occ' : σ' → Nat → Nat → Bool)
    (hocc : ∀ st st' x y, x < vi.modulWidth → y < vi.modulWidth → R st st' → occ st x y = occ' st' x y)
    (h1 : 1 ≤ vi.version) (h40 : vi.version ≤ 40) (st : σ) (st' : σ') (h : R st st') :
    R (drawAlignmentPatterns occ vi set st) (drawAlignmentPatterns occ' vi set' st') := by
  unfold drawAlignmentPatterns
  simp only
  have hr : ∀ c ∈ vi.alignmentPatternPlacements, 6 ≤ c ∧ c + 7 ≤ vi.modulWidth := by
    intro c hc
    rw [alignmentPatternPlacements_eq] at hc
    have := (alignment_range_cert vi.version (by omega) h1).1 c hc
    rw [modulWidth_eq vi h1]; exact this
  apply foldl_rel R _ _ _ _ _ h
  intro a a' x hx ha
  apply foldl_rel R _ _ _ _ _ ha
  intro a a' y hy ha
  have hx' := hr x hx
  have hy' := hr y hy
  rw [hocc a a' x y (by omega) (by omega) ha]
  split
  · exact ha
  · apply foldl_rel R _ _ _ _ _ ha
    intro a a' x' hx'' ha
    apply foldl_rel R _ _ _ _ _ ha
    intro a a' y' hy'' ha
    have := mem_intRange hx''
    have := mem_intRange hy''
    exact hset _ _ _ _ _ (by omega) (by omega) ha

/-- `drawFormatInfo` on related states with related `set` -/
theorem drawFormatInfo_rel (usedMask : Int) (hdim : 21 ≤ vi.modulWidth) (st : σ) (st' : σ') (h : R st st') :
    R (drawFormatInfo vi usedMask set st) (drawFormatInfo vi usedMask set' st') := by
  rw [drawFormatInfo_eq, drawFormatInfo_eq]
  simp only
  generalize (if (usedMask == -1) = true then List.replicate 15 true
    else formatInfoOf vi.level usedMask.toNat) = fi
  split
  · apply foldl_rel R _ _ _ _ _ h
    intro a a' c hc ha
    have : c.1 < vi.modulWidth ∧ c.2.1 < vi.modulWidth := by
      unfold formatCells at hc
      generalize vi.modulWidth = d at *
      simp only [List.mem_cons, List.not_mem_nil, or_false] at hc
      rcases hc with rfl | rfl | rfl | rfl | rfl | rfl | rfl | rfl | rfl | rfl | rfl | rfl | rfl | rfl | rfl |
        rfl | rfl | rfl | rfl | rfl | rfl | rfl | rfl | rfl | rfl | rfl | rfl | rfl | rfl | rfl <;>
        constructor <;> simp only <;> omega
    exact hset _ _ _ _ _ this.1 this.2 ha
  · exact h

/-- `drawVersionInfo` on related states with related `set` -/
theorem drawVersionInfo_rel (hdim : 21 ≤ vi.modulWidth) (st : σ) (st' : σ') (h : R st st') :
    R (drawVersionInfo vi set st) (drawVersionInfo vi set' st') := by
  unfold drawVersionInfo
  split
  · exact h
  · rename_i bits hb
    have h18 : bits.length = 18 := by
      by_cases hv : vi.version < 7 ∨ 40 < vi.version
      · rw [versionInfoBits_none _ hv] at hb; cases hb
      · obtain ⟨bits', hb', hl, _⟩ := versionInfoBits_bch vi.version (by omega) (by omega)
        rw [hb'] at hb
        simp only [Option.some.injEq] at hb
        rw [← hb]; exact hl
    simp only
    split
    · apply foldl_rel R _ _ _ _ _ h
      intro a a' i hi ha
      rw [List.mem_range, h18] at hi
      exact hset _ _ _ _ _ (by omega) (by omega) (hset _ _ _ _ _ (by omega) (by omega) ha)
    · exact h

end

/-- the function-pattern phase on related states with related closures gives related states -/
theorem drawnG_rel {σ σ' : Type} (R : σ → σ' → Prop) (vi : VersionInfo) (hmem : vi ∈ versionInfos)
    (occ : σ → Nat → Nat → Bool) (occ' : σ' → Nat → Nat → Bool)
    (setA setO : Nat → Nat → Bool → σ → σ) (setR : Nat → Nat → Nat → Bool → σ → σ)
    (setA' setO' : Nat → Nat → Bool → σ' → σ') (setR' : Nat → Nat → Nat → Bool → σ' → σ')
    (hocc : ∀ st st' x y, x < vi.modulWidth → y < vi.modulWidth → R st st' → occ st x y = occ' st' x y)
    (hA : ∀ x y v st st', x < vi.modulWidth → y < vi.modulWidth → R st st' → R (setA x y v st) (setA' x y v st'))
    (hO : ∀ x y v st st', x < vi.modulWidth → y < vi.modulWidth → R st st' → R (setO x y v st) (setO' x y v st'))
    (hR : ∀ i x y v st st', i < 8 → x < vi.modulWidth → y < vi.modulWidth → R st st' →
      R (setR i x y v st) (setR' i x y v st'))
    (st : σ) (st' : σ') (h : R st st') :
    R (drawnG vi occ setA setO setR st) (drawnG vi occ' setA' setO' setR' st') := by
  obtain ⟨h1, h40, _⟩ := mem_versionInfos_range hmem
  have hdim : 21 ≤ vi.modulWidth := by rw [modulWidth_eq vi h1]; omega
  unfold drawnG
  simp only
  apply foldl_rel R
  · apply drawFormatInfo_rel R _ _ vi hO _ hdim
    apply drawVersionInfo_rel R _ _ vi hA hdim
    apply hA _ _ _ _ _ (by omega) (by omega)
    apply foldl_rel R
    · apply drawAlignmentPatterns_rel R _ _ vi hA _ _ hocc h1 h40
      exact drawFinderPatterns_rel R _ _ vi hA _ _ h
    · intro a a' i hi ha
      rw [List.mem_range] at hi
      have hs1 : R (if (!occ a i 6) = true then setA i 6 (i % 2 == 0) a else a)
          (if (!occ' a' i 6) = true then setA' i 6 (i % 2 == 0) a' else a') := by
        rw [hocc a a' i 6 hi (by omega) ha]
        split
        · exact hA _ _ _ _ _ hi (by omega) ha
        · exact ha
      revert hs1
      generalize (if (!occ a i 6) = true then setA i 6 (i % 2 == 0) a else a) = s
      generalize (if (!occ' a' i 6) = true then setA' i 6 (i % 2 == 0) a' else a') = s'
      intro hs1
      show R (if (!occ s 6 i) = true then setA 6 i (i % 2 == 0) s else s)
        (if (!occ' s' 6 i) = true then setA' 6 i (i % 2 == 0) s' else s')
      rw [hocc s s' 6 i (by omega) hi hs1]
      split
      · exact hA _ _ _ _ _ (by omega) hi hs1
      · exact hs1
  · intro a a' i hi ha
    rw [List.mem_range] at hi
    exact drawFormatInfo_rel R _ _ vi (fun x y v st st' hx hy h => hR i x y v st st' hi hx hy h) _ hdim _ _ ha

/-- the function patterns as a picture: the generic drawing phase run on pictures -/
def drawnP (vi : VersionInfo) : Pix :=
  drawnG vi (fun P x y => P.occ x y) Pix.setAll Pix.setOcc Pix.setRes Pix.blank

/-- the state of `render` after the function patterns shows the picture `drawnP vi` -/
theorem drawn_rep (vi : VersionInfo) (hmem : vi ∈ versionInfos) (color : Scheme) :
    Rep color vi.modulWidth (drawn vi color) (drawnP vi) := by
  rw [drawn_eq_drawnG]
  unfold drawnP
  apply drawnG_rel (Rep color vi.modulWidth) vi hmem
  · intro st P x y hx hy h; exact h.2.1 x y hx hy
  · intro x y v st P hx hy h; exact Rep_setAll h x y v hx hy
  · intro x y v st P hx hy h; exact Rep_setOcc h x y v hx hy
  · intro i x y v st P hi hx hy h; exact Rep_setRes h i x y v hi hx hy
  · exact Rep_init _ _

end BV.Proofs.QrMatrix
