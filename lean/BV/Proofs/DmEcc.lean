/-
  Proofs for C02 / C12 (DataMatrix error correction): `calcECC` never panics on the table rows, appends
  `ECCCount` bytes, and block `b` of the ISO de-interleaving (`Spec.Datamatrix.everyNth`) of the appended
  bytes is the Reed–Solomon remainder of block `b` of the data.
-/
import BV.Proofs.DmSize
import BV.Proofs.DmAscii
namespace BV.Proofs.DmEcc
open BV BV.Model BV.Model.Datamatrix BV.Spec.Datamatrix BV.Proofs.DmSize BV.Proofs.DmAscii

/-! ### `everyNth` by index -/

/-- offset of the first index `≥ s` that is `≡ b (mod n)`, as a function of `r = s % n` -/
def firstHit (n b r : Nat) : Nat := if r ≤ b then b - r else b + n - r

theorem succ_mod_cases (s n : Nat) (hn : 0 < n) :
    (s % n + 1 < n ∧ (s + 1) % n = s % n + 1) ∨ (s % n + 1 = n ∧ (s + 1) % n = 0) := by
  have hr : s % n < n := Nat.mod_lt _ hn
  have hm : (s + 1) % n = (s % n + 1) % n := (Nat.mod_add_mod s n 1).symm
  by_cases h : s % n + 1 < n
  · left
    exact ⟨h, by rw [hm, Nat.mod_eq_of_lt h]⟩
  · right
    have e : s % n + 1 = n := by omega
    exact ⟨e, by rw [hm, e, Nat.mod_self]⟩

theorem everyNthFrom_getElem? {α} (n b : Nat) (hb : b < n) : ∀ (l : List α) (s t : Nat),
    ((l.zipIdx s).filterMap (fun (p : α × Nat) => if p.2 % n = b then some p.1 else none))[t]? =
      l[firstHit n b (s % n) + n * t]? := by
  intro l
  induction l with
  | nil => intro s t; simp
  | cons x l ih =>
    intro s t
    have hr : s % n < n := Nat.mod_lt _ (by omega)
    rw [List.zipIdx_cons, List.filterMap_cons]
    by_cases hsb : s % n = b
    · simp only [hsb, if_true]
      have h0 : firstHit n b b = 0 := by simp [firstHit]
      rw [h0]
      cases t with
      | zero => simp
      | succ t =>
        rw [List.getElem?_cons_succ, ih (s + 1) t]
        have hf : firstHit n b ((s + 1) % n) = n - 1 := by
          rcases succ_mod_cases s n (by omega) with ⟨h1, h2⟩ | ⟨h1, h2⟩
          · rw [h2]; unfold firstHit; rw [if_neg (by omega)]; omega
          · rw [h2]; unfold firstHit; rw [if_pos (by omega)]; omega
        rw [hf, Nat.mul_succ]
        have e : 0 + (n * t + n) = (n - 1 + n * t) + 1 := by omega
        rw [e, List.getElem?_cons_succ]
    · simp only [hsb, if_false]
      rw [ih (s + 1) t]
      have hf : firstHit n b (s % n) = firstHit n b ((s + 1) % n) + 1 := by
        rcases succ_mod_cases s n (by omega) with ⟨h1, h2⟩ | ⟨h1, h2⟩
        · rw [h2]; unfold firstHit
          by_cases hle : s % n ≤ b
          · rw [if_pos hle, if_pos (by omega)]; omega
          · rw [if_neg hle, if_neg (by omega)]; omega
        · rw [h2]; unfold firstHit
          rw [if_neg (by omega), if_pos (by omega)]; omega
      rw [hf]
      have e : firstHit n b ((s + 1) % n) + 1 + n * t = (firstHit n b ((s + 1) % n) + n * t) + 1 := by omega
      rw [e, List.getElem?_cons_succ]

/-- element `t` of block `b` of an `n`-fold interleaved list is element `b + n t` of the list -/
theorem everyNth_getElem? (n b : Nat) (hb : b < n) (l : List Nat) (t : Nat) :
    (everyNth n b l)[t]? = l[b + n * t]? := by
  have := everyNthFrom_getElem? n b hb l 0 t
  rw [Nat.zero_mod] at this
  have h0 : firstHit n b 0 = b := by simp [firstHit]
  rw [h0] at this
  rw [← this]
  rfl

/-- a block of an interleaved list, given that exactly `cnt` indices `b + n t` fall inside the list -/
theorem everyNth_eq (n b : Nat) (hb : b < n) (l : List Nat) (cnt : Nat)
    (h1 : ∀ t, t < cnt → b + n * t < l.length) (h2 : l.length ≤ b + n * cnt) :
    everyNth n b l = (List.range cnt).map (fun t => l.getD (b + n * t) 0) := by
  apply List.ext_getElem?
  intro t
  rw [everyNth_getElem? n b hb]
  by_cases ht : t < cnt
  · have := h1 t ht
    simp [ht, List.getD_eq_getElem?_getD, List.getElem?_eq_getElem this]
  · have h3 : l.length ≤ b + n * t := by
      have : n * cnt ≤ n * t := Nat.mul_le_mul_left n (by omega)
      omega
    rw [List.getElem?_eq_none h3, List.getElem?_eq_none]
    simp; omega

/-! ### the two inner loops -/

/-- `fillBuff`: with room in `buff` and all read indices inside `data`, no panic; cells `j … j+rounds-1`
    receive `data[i + step t]`, the others keep their value -/
theorem fillBuff_spec (data : Array UInt8) (step : Nat) : ∀ (rounds i j : Nat) (buff : Array Nat),
    j + rounds ≤ buff.size → (∀ t, t < rounds → i + step * t < data.size) →
    ∃ buff', fillBuff data step rounds i j buff = .ok buff' ∧ buff'.size = buff.size ∧
      (∀ t, t < rounds → buff'[j + t]? = (data[i + step * t]?).map UInt8.toNat) ∧
      (∀ p, p < j → buff'[p]? = buff[p]?) := by
  intro rounds
  induction rounds with
  | zero =>
    intro i j buff _ _
    exact ⟨buff, rfl, rfl, fun t ht => absurd ht (by omega), fun _ _ => rfl⟩
  | succ rounds ih =>
    intro i j buff hj hi
    have hj' : j < buff.size := by omega
    have hi0 : i < data.size := by have := hi 0 (by omega); simpa using this
    rw [fillBuff]
    simp only [hj', if_true, Array.getElem?_eq_getElem hi0]
    obtain ⟨buff', h1, h2, h3, h4⟩ := ih (i + step) (j + 1) (buff.set! j data[i].toNat)
      (by simp; omega)
      (fun t ht => by have := hi (t + 1) (by omega); rw [Nat.mul_succ] at this; omega)
    refine ⟨buff', h1, by simpa using h2, ?_, ?_⟩
    · intro t ht
      cases t with
      | zero =>
        rw [Nat.add_zero, Nat.mul_zero, Nat.add_zero, h4 j (by omega)]
        simp [hj', Array.getElem?_eq_getElem hi0]
      | succ t =>
        have := h3 t (by omega)
        rw [Nat.mul_succ]
        rw [show j + (t + 1) = j + 1 + t by omega, show i + (step * t + step) = i + step + step * t by omega]
        exact this
    · intro p hp
      rw [h4 p (by omega)]
      simp [Array.getElem?_setIfInBounds]
      omega

/-- `storeEcc`: with enough check symbols and all write indices inside `arr` (and a positive stride), no
    panic; cell `dataSize + i + step t` receives `ecc[j + t]`, all other cells keep their value -/
theorem storeEcc_spec (ecc : Array Nat) (dataSize step : Nat) (hstep : 0 < step) :
    ∀ (rounds i j : Nat) (arr : Array UInt8),
    j + rounds ≤ ecc.size → (∀ t, t < rounds → dataSize + i + step * t < arr.size) →
    ∃ arr', storeEcc ecc dataSize step rounds i j arr = .ok arr' ∧ arr'.size = arr.size ∧
      (∀ t, t < rounds → arr'[dataSize + i + step * t]? = (ecc[j + t]?).map UInt8.ofNat) ∧
      (∀ p, (∀ t, t < rounds → p ≠ dataSize + i + step * t) → arr'[p]? = arr[p]?) := by
  intro rounds
  induction rounds with
  | zero =>
    intro i j arr _ _
    exact ⟨arr, rfl, rfl, fun t ht => absurd ht (by omega), fun _ _ => rfl⟩
  | succ rounds ih =>
    intro i j arr hj hi
    have hj' : j < ecc.size := by omega
    have hi0 : dataSize + i < arr.size := by have := hi 0 (by omega); simpa using this
    rw [storeEcc]
    simp only [Array.getElem?_eq_getElem hj', hi0, if_true]
    obtain ⟨arr', h1, h2, h3, h4⟩ := ih (i + step) (j + 1) (arr.set! (dataSize + i) (UInt8.ofNat ecc[j]))
      (by omega)
      (fun t ht => by
        have := hi (t + 1) (by omega); rw [Nat.mul_succ] at this
        simp only [Array.set!_eq_setIfInBounds, Array.size_setIfInBounds]; omega)
    refine ⟨arr', h1, by simpa using h2, ?_, ?_⟩
    · intro t ht
      cases t with
      | zero =>
        rw [Nat.mul_zero, Nat.add_zero, Nat.add_zero, h4 (dataSize + i)]
        · simp [hi0, Array.getElem?_eq_getElem hj']
        · intro t _
          have : 0 < step * (t + 1) := Nat.mul_pos hstep (by omega)
          rw [Nat.mul_succ] at this
          omega
      | succ t =>
        have := h3 t (by omega)
        rw [Nat.mul_succ]
        rw [show j + (t + 1) = j + 1 + t by omega,
          show dataSize + i + (step * t + step) = dataSize + (i + step) + step * t by omega]
        exact this
    · intro p hp
      rw [h4 p]
      · have := hp 0 (by omega)
        simp only [Nat.mul_zero, Nat.add_zero] at this
        simp [Array.getElem?_setIfInBounds]
        omega
      · intro t ht
        have := hp (t + 1) (by omega)
        rw [Nat.mul_succ] at this
        omega

/-! ### the block loop -/

/-- body of the block loop of `calcECC` -/
def eccStep (size : CodeSize) (dataSize : Nat) (arr : Array UInt8) (block : Nat) : Res (Array UInt8) := do
  let blockCount := size.blockCount.toNat
  let eccPer := size.errorCorrectionCodewordsPerBlock.toNat
  let dataCnt := size.dataCodewordsForBlock (block : Int)
  let buff0 : Array Nat := Array.replicate dataCnt.toNat 0
  let buff ← fillBuff arr blockCount (strideCount block dataSize blockCount) block 0 buff0
  let ecc := GF.rsEncode ecField buff.toList eccPer
  storeEcc ecc.toArray dataSize blockCount (strideCount block (eccPer * blockCount) blockCount) block 0 arr

theorem calcECC_eq (data : Bytes) (size : CodeSize) :
    calcECC data size =
      ((List.range size.blockCount.toNat).foldlM (eccStep size data.length)
        (data ++ List.replicate size.eccCount.toNat 0).toArray).map Array.toList := by
  unfold calcECC eccStep
  simp only [bind, Except.bind, pure, Except.pure, Except.map]

/-- what the loops of `calcECC` need of a table row for `D` data codewords: positive block count, the check
    area is `k·B` long, and for every block the two stride loops make exactly `DataCodewordsForBlock` resp.
    `k` rounds, all inside the slices -/
def eccShape (s : CodeSize) (D : Nat) : Bool :=
  let B := s.blockCount.toNat
  let k := s.errorCorrectionCodewordsPerBlock.toNat
  decide (0 < B) && s.eccCount.toNat == k * B &&
  (List.range B).all (fun b =>
    let cnt := (s.dataCodewordsForBlock (b : Int)).toNat
    strideCount b D B == cnt && strideCount b (k * B) B == k &&
    decide (0 < cnt) && decide (b + B * (cnt - 1) < D) && decide (D ≤ b + B * cnt))

/-- certificate (24 rows × their blocks): every table row has the shape the loops need -/
theorem table_eccShape : codeSizes.all (fun s => eccShape s s.dataCodewords.toNat) = true := by
  decide +kernel

/-- `Encode` returns at least `eccCount` symbols (`eccCount - len` zeros in front of the remainder) -/
theorem rsEncode_length_ge (f : GF.Field) (d : List Nat) (k : Nat) : k ≤ (GF.rsEncode f d k).length := by
  unfold GF.rsEncode GF.encodeWith
  simp only [List.length_append, List.length_replicate]
  omega

/-- data codewords of block `b` (every `B`-th codeword from `b` on), as the numbers the RS encoder gets -/
def blockData (s : CodeSize) (data : Bytes) (b : Nat) : List Nat :=
  (List.range (s.dataCodewordsForBlock (b : Int)).toNat).map
    (fun t => (data.getD (b + s.blockCount.toNat * t) 0).toNat)

/-- the check symbols `calcECC` computes for block `b` -/
def blockEcc (s : CodeSize) (data : Bytes) (b : Nat) : List Nat :=
  GF.rsEncode ecField (blockData s data b) s.errorCorrectionCodewordsPerBlock.toNat

/-- loop invariant after the blocks `< m` -/
def EccInv (s : CodeSize) (data : Bytes) (m : Nat) (arr : Array UInt8) : Prop :=
  let B := s.blockCount.toNat
  let k := s.errorCorrectionCodewordsPerBlock.toNat
  arr.size = data.length + k * B ∧ (∀ i, i < data.length → arr[i]? = data[i]?) ∧
  (∀ b, b < m → ∀ t, t < k → arr[data.length + b + B * t]? = ((blockEcc s data b)[t]?).map UInt8.ofNat)

theorem eccStep_inv (s : CodeSize) (data : Bytes) (hs : eccShape s data.length = true) (m : Nat)
    (hm : m < s.blockCount.toNat) (arr : Array UInt8) (hinv : EccInv s data m arr) :
    ∃ arr', eccStep s data.length arr m = .ok arr' ∧ EccInv s data (m + 1) arr' := by
  unfold eccShape at hs
  unfold EccInv at hinv ⊢
  simp only [Bool.and_eq_true, decide_eq_true_eq, beq_iff_eq, List.all_eq_true, List.mem_range] at hs
  obtain ⟨⟨hB, hE⟩, hblk⟩ := hs
  obtain ⟨⟨⟨⟨c1, c2⟩, c3⟩, c4⟩, c5⟩ := hblk m hm
  obtain ⟨i1, i2, i3⟩ := hinv
  generalize hBdef : s.blockCount.toNat = B at *
  generalize hkdef : s.errorCorrectionCodewordsPerBlock.toNat = k at *
  generalize hcdef : (s.dataCodewordsForBlock (m : Int)).toNat = cnt at *
  -- indices of block m inside the data
  have hidx : ∀ t, t < cnt → m + B * t < data.length := by
    intro t ht
    have : B * t ≤ B * (cnt - 1) := Nat.mul_le_mul_left B (by omega)
    omega
  -- first loop
  obtain ⟨buff, f1, f2, f3, _⟩ := fillBuff_spec arr B cnt m 0 (Array.replicate cnt 0)
    (by simp) (fun t ht => by have := hidx t ht; omega)
  have hbuff : buff.toList = blockData s data m := by
    unfold blockData
    rw [hcdef, hBdef]
    apply List.ext_getElem?
    intro t
    by_cases ht : t < cnt
    · have h := f3 t ht
      rw [Nat.zero_add] at h
      rw [Array.getElem?_toList, h, i2 _ (hidx t ht)]
      simp [ht, List.getD_eq_getElem?_getD, List.getElem?_eq_getElem (hidx t ht)]
    · rw [List.getElem?_eq_none, List.getElem?_eq_none]
      · simp; omega
      · simp [f2]; omega
  -- second loop
  have hlen := rsEncode_length_ge ecField buff.toList k
  have hwidx : ∀ t, t < k → data.length + m + B * t < arr.size := by
    intro t ht
    have : B * (t + 1) ≤ B * k := Nat.mul_le_mul_left B (by omega)
    rw [Nat.mul_succ] at this
    rw [i1, Nat.mul_comm k B]
    omega
  obtain ⟨arr', s1, s2, s3, s4⟩ := storeEcc_spec (GF.rsEncode ecField buff.toList k).toArray data.length B hB
    k m 0 arr (by simpa using hlen) hwidx
  refine ⟨arr', ?_, ?_⟩
  · unfold eccStep
    simp only [hBdef, hkdef, hcdef, c1, c2, f1, bind, Except.bind]
    exact s1
  · refine ⟨by rw [s2, i1], ?_, ?_⟩
    · intro i hi
      rw [s4 i (fun t _ => by omega), i2 i hi]
    · intro b hb t ht
      by_cases hbm : b = m
      · subst hbm
        have := s3 t ht
        rw [Nat.zero_add] at this
        rw [this]
        unfold blockEcc
        rw [hkdef, ← hbuff]
        simp
      · rw [s4, i3 b (by omega) t ht]
        intro t' _ heq
        have h1 : (b + B * t) % B = (m + B * t') % B := by
          have : b + B * t = m + B * t' := by omega
          rw [this]
        rw [Nat.add_mul_mod_self_left, Nat.add_mul_mod_self_left, Nat.mod_eq_of_lt (by omega),
          Nat.mod_eq_of_lt hm] at h1
        exact hbm h1

theorem eccLoop_inv (s : CodeSize) (data : Bytes) (hs : eccShape s data.length = true) (arr0 : Array UInt8)
    (h0 : EccInv s data 0 arr0) : ∀ m, m ≤ s.blockCount.toNat →
    ∃ arr, (List.range m).foldlM (eccStep s data.length) arr0 = .ok arr ∧ EccInv s data m arr := by
  intro m
  induction m with
  | zero => intro _; exact ⟨arr0, rfl, h0⟩
  | succ m ih =>
    intro hm
    obtain ⟨arr, h1, h2⟩ := ih (by omega)
    obtain ⟨arr', h3, h4⟩ := eccStep_inv s data hs m (by omega) arr h2
    refine ⟨arr', ?_, h4⟩
    rw [List.range_succ, List.foldlM_append, h1]
    simp only [bind, Except.bind, List.foldlM_cons, List.foldlM_nil, h3]
    rfl

/-! ### item 5: `calcECC` -/

/-- `calcECC` on any row with the loop shape: no panic, the data followed by `ECCCount` bytes, and the ISO
    de-interleaving yields per block the data of the block and the (first `k`, reduced to bytes) symbols the
    Reed–Solomon encoder returns for it. -/
theorem calcECC_shape (s : CodeSize) (data : Bytes) (hs : eccShape s data.length = true) :
    ∃ ecc : Bytes, calcECC data s = .ok (data ++ ecc) ∧ ecc.length = s.eccCount.toNat ∧
      ∀ b, b < s.blockCount.toNat →
        (everyNth s.blockCount.toNat b (toNats data)).length = (s.dataCodewordsForBlock (b : Int)).toNat ∧
        everyNth s.blockCount.toNat b (toNats ecc) =
          ((GF.rsEncode ecField (everyNth s.blockCount.toNat b (toNats data))
            s.errorCorrectionCodewordsPerBlock.toNat).take s.errorCorrectionCodewordsPerBlock.toNat).map (· % 256) := by
  have hs' := hs
  unfold eccShape at hs'
  simp only [Bool.and_eq_true, decide_eq_true_eq, beq_iff_eq, List.all_eq_true, List.mem_range] at hs'
  obtain ⟨⟨hB, hE⟩, hblk⟩ := hs'
  have h0 : EccInv s data 0 (data ++ List.replicate s.eccCount.toNat 0).toArray := by
    refine ⟨by simp [hE], ?_, fun b hb => absurd hb (by omega)⟩
    intro i hi
    simp [List.getElem?_append_left hi]
  obtain ⟨arr, h1, i1, i2, i3⟩ := eccLoop_inv s data hs _ h0 s.blockCount.toNat (Nat.le_refl _)
  generalize hBdef : s.blockCount.toNat = B at *
  generalize hkdef : s.errorCorrectionCodewordsPerBlock.toNat = k at *
  have hsplit : arr.toList = data ++ arr.toList.drop data.length := by
    have : arr.toList.take data.length = data := by
      apply List.ext_getElem?
      intro i
      by_cases hi : i < data.length
      · rw [List.getElem?_take_of_lt hi, Array.getElem?_toList, i2 i hi]
      · rw [List.getElem?_eq_none (by simp; omega), List.getElem?_eq_none (by omega)]
    conv => lhs; rw [← List.take_append_drop data.length arr.toList, this]
  refine ⟨arr.toList.drop data.length, ?_, by simp [i1, hE], ?_⟩
  · rw [calcECC_eq, hBdef, h1, ← hsplit]; rfl
  · intro b hb
    obtain ⟨⟨⟨⟨c1, c2⟩, c3⟩, c4⟩, c5⟩ := hblk b hb
    generalize hcdef : (s.dataCodewordsForBlock (b : Int)).toNat = cnt at *
    have hidx : ∀ t, t < cnt → b + B * t < data.length := by
      intro t ht
      have : B * t ≤ B * (cnt - 1) := Nat.mul_le_mul_left B (by omega)
      omega
    have hd : everyNth B b (toNats data) = blockData s data b := by
      rw [everyNth_eq B b hb (toNats data) cnt (by simpa using hidx) (by simpa using c5)]
      unfold blockData
      rw [hcdef, hBdef]
      apply List.map_congr_left
      intro t ht
      have := hidx t (List.mem_range.mp ht)
      simp [toNats, List.getD_eq_getElem?_getD, List.getElem?_eq_getElem this]
    refine ⟨by rw [hd]; simp [blockData, hcdef], ?_⟩
    have hidx2 : ∀ t, t < k → b + B * t < k * B := by
      intro t ht
      have : B * (t + 1) ≤ B * k := Nat.mul_le_mul_left B (by omega)
      rw [Nat.mul_succ] at this
      rw [Nat.mul_comm k B]
      omega
    rw [everyNth_eq B b hb _ k (by simpa [i1] using hidx2) (by simp [i1]; rw [Nat.mul_comm]; omega)]
    rw [hd]
    apply List.ext_getElem?
    intro t
    by_cases ht : t < k
    · have hlen := rsEncode_length_ge ecField (blockData s data b) k
      have e3 := i3 b hb t ht
      have hin := hidx2 t ht
      have hlt : data.length + (b + B * t) < arr.size := by omega
      simp only [List.getElem?_map, List.getElem?_range ht, Option.map_some, List.getElem?_take_of_lt ht]
      rw [List.getD_eq_getElem?_getD]
      simp only [toNats, List.getElem?_map, List.getElem?_drop]
      rw [Array.getElem?_toList, ← Nat.add_assoc, e3]
      unfold blockEcc
      rw [hkdef]
      rw [List.getElem?_eq_getElem (by omega)]
      simp
    · rw [List.getElem?_eq_none (by simp; omega), List.getElem?_eq_none (by simp; omega)]

/-- item 5 on the table: for every row and data of the row's capacity -/
theorem calcECC_blocks (s : CodeSize) (hs : s ∈ codeSizes) (data : Bytes)
    (hlen : data.length = s.dataCodewords.toNat) :
    ∃ ecc : Bytes, calcECC data s = .ok (data ++ ecc) ∧ ecc.length = s.eccCount.toNat ∧
      ∀ b, b < s.blockCount.toNat →
        (everyNth s.blockCount.toNat b (toNats data)).length = (s.dataCodewordsForBlock (b : Int)).toNat ∧
        everyNth s.blockCount.toNat b (toNats ecc) =
          ((GF.rsEncode ecField (everyNth s.blockCount.toNat b (toNats data))
            s.errorCorrectionCodewordsPerBlock.toNat).take s.errorCorrectionCodewordsPerBlock.toNat).map (· % 256) := by
  apply calcECC_shape
  rw [hlen]
  exact List.all_eq_true.mp table_eccShape s hs
