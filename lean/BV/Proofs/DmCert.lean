/-
  C02 item 6: the 24 placement certificates.  For every ECC 200 square size the symbolic run over the mapping
  matrix answers `some` (kernel evaluation, linear in the number of modules): no cell is written twice, no
  index leaves the matrix, the fuel suffices, exactly `dataCW + eccCW` codewords are placed and every module
  is either a codeword bit or part of the fixed lower-right pattern.
-/
import BV.Proofs.DmSym
import BV.Spec.Datamatrix
namespace BV.Proofs.DmCert
open BV.Proofs.DmSym BV.Spec.Datamatrix
set_option maxRecDepth 1000000

theorem run_8 : (run 8 8 8).isSome = true := by decide +kernel
theorem run_10 : (run 10 10 12).isSome = true := by decide +kernel
theorem run_12 : (run 12 12 18).isSome = true := by decide +kernel
theorem run_14 : (run 14 14 24).isSome = true := by decide +kernel
theorem run_16 : (run 16 16 32).isSome = true := by decide +kernel
theorem run_18 : (run 18 18 40).isSome = true := by decide +kernel
theorem run_20 : (run 20 20 50).isSome = true := by decide +kernel
theorem run_22 : (run 22 22 60).isSome = true := by decide +kernel
theorem run_24 : (run 24 24 72).isSome = true := by decide +kernel
theorem run_28 : (run 28 28 98).isSome = true := by decide +kernel
theorem run_32 : (run 32 32 128).isSome = true := by decide +kernel
theorem run_36 : (run 36 36 162).isSome = true := by decide +kernel
theorem run_40 : (run 40 40 200).isSome = true := by decide +kernel
theorem run_44 : (run 44 44 242).isSome = true := by decide +kernel
theorem run_48 : (run 48 48 288).isSome = true := by decide +kernel
theorem run_56 : (run 56 56 392).isSome = true := by decide +kernel
theorem run_64 : (run 64 64 512).isSome = true := by decide +kernel
theorem run_72 : (run 72 72 648).isSome = true := by decide +kernel
theorem run_80 : (run 80 80 800).isSome = true := by decide +kernel
theorem run_88 : (run 88 88 968).isSome = true := by decide +kernel
theorem run_96 : (run 96 96 1152).isSome = true := by decide +kernel
theorem run_108 : (run 108 108 1458).isSome = true := by decide +kernel
theorem run_120 : (run 120 120 1800).isSome = true := by decide +kernel
theorem run_132 : (run 132 132 2178).isSome = true := by decide +kernel

/-- certificate (24 sizes): the symbolic placement run succeeds for the mapping matrix of every standard size -/
theorem run_table : ∀ a ∈ attrTable, (run a.mapping a.mapping (a.dataCW + a.eccCW)).isSome = true := by
  intro a ha
  simp only [attrTable, List.mem_cons, List.not_mem_nil, or_false] at ha
  rcases ha with rfl | rfl | rfl | rfl | rfl | rfl | rfl | rfl | rfl | rfl | rfl | rfl | rfl | rfl | rfl | rfl | rfl | rfl | rfl | rfl | rfl | rfl | rfl | rfl
  · exact run_8
  · exact run_10
  · exact run_12
  · exact run_14
  · exact run_16
  · exact run_18
  · exact run_20
  · exact run_22
  · exact run_24
  · exact run_28
  · exact run_32
  · exact run_36
  · exact run_40
  · exact run_44
  · exact run_48
  · exact run_56
  · exact run_64
  · exact run_72
  · exact run_80
  · exact run_88
  · exact run_96
  · exact run_108
  · exact run_120
  · exact run_132

end BV.Proofs.DmCert
