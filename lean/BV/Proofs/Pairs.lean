/-
  BV.Proofs.Pairs — `Spec.OneD.resolvePairs` inverts a character-wise full-ASCII expansion (shared by Code 39 and 93).
-/
import BV.Spec.OneD
namespace BV.Proofs.Pairs
open BV BV.Spec.OneD

variable (sD sP sS sPl : Nat)

def isShift (c : Nat) : Bool := c == sD || c == sP || c == sS || c == sPl

theorem isShift_iff (c : Nat) : isShift sD sP sS sPl c = true ↔ (c = sD ∨ c = sP ∨ c = sS ∨ c = sPl) := by
  unfold isShift; simp only [Bool.or_eq_true, beq_iff_eq]; constructor
  · rintro (((h | h) | h) | h) <;> simp [h]
  · rintro (h | h | h | h) <;> simp [h]

/-- `p` is an admissible expansion of the character `r`: the character itself if it is not a shift character, or a
    shift character and a letter that the reference resolves to `r` -/
def goodPiece (r : Nat) (p : List Nat) : Bool :=
  match p with
  | [c] => c == r && !(isShift sD sP sS sPl c)
  | [s, l] => isShift sD sP sS sPl s && (resolvePairs sD sP sS sPl 2 [s, l] == some [r])
  | _ => false

theorem resolve_nil (f : Nat) : resolvePairs sD sP sS sPl f [] = some [] := by
  cases f <;> rfl

theorem resolve_plain (f c : Nat) (rest : List Nat) (hc : isShift sD sP sS sPl c = false) :
    resolvePairs sD sP sS sPl (f + 1) (c :: rest) = (resolvePairs sD sP sS sPl f rest).map (c :: ·) := by
  have : ¬ (c = sD ∨ c = sP ∨ c = sS ∨ c = sPl) := by
    rw [← isShift_iff]; simp [hc]
  rw [resolvePairs.eq_def]
  simp only [this, if_false]

theorem resolve_pair (f s l r : Nat) (rest : List Nat) (hs : isShift sD sP sS sPl s = true)
    (h2 : resolvePairs sD sP sS sPl 2 [s, l] = some [r]) :
    resolvePairs sD sP sS sPl (f + 1) (s :: l :: rest) = (resolvePairs sD sP sS sPl f rest).map (r :: ·) := by
  have hs' := (isShift_iff sD sP sS sPl s).1 hs
  rw [resolvePairs.eq_def] at h2
  rw [resolvePairs.eq_def]
  simp only [hs', if_true] at h2 ⊢
  by_cases hl : l < 65 ∨ l > 90
  · rw [if_pos hl] at h2; exact absurd h2 (by simp)
  · rw [if_neg hl] at h2 ⊢
    rw [resolve_nil] at h2
    generalize hv : (if s = sD then some (l - 65 + 1) else _) = v at h2 ⊢
    cases v with
    | none => exact absurd h2 (by simp)
    | some v =>
      simp only [Option.some.injEq, List.cons.injEq, and_true] at h2
      subst h2
      cases resolvePairs sD sP sS sPl f rest <;> rfl

theorem goodPiece_length {r : Nat} {p : List Nat} (h : goodPiece sD sP sS sPl r p = true) : 1 ≤ p.length := by
  unfold goodPiece at h
  split at h
  · simp
  · simp
  · exact absurd h (by simp)

theorem resolve_piece (f r : Nat) (p rest : List Nat) (h : goodPiece sD sP sS sPl r p = true) :
    resolvePairs sD sP sS sPl (f + 1) (p ++ rest) = (resolvePairs sD sP sS sPl f rest).map (r :: ·) := by
  unfold goodPiece at h
  split at h
  · rename_i c
    simp only [Bool.and_eq_true, beq_iff_eq, Bool.not_eq_true'] at h
    obtain ⟨rfl, hc⟩ := h
    exact resolve_plain sD sP sS sPl f c rest hc
  · rename_i s l
    simp only [Bool.and_eq_true, beq_iff_eq] at h
    exact resolve_pair sD sP sS sPl f s l r rest h.1 h.2
  · exact absurd h (by simp)

/-- resolving the concatenated expansions gives back the characters; fuel `≥` their number suffices -/
theorem resolve_flat (piece : Nat → List Nat) : ∀ (rs : List Nat) (fuel : Nat),
    (∀ r ∈ rs, goodPiece sD sP sS sPl r (piece r) = true) → rs.length ≤ fuel →
    resolvePairs sD sP sS sPl fuel (rs.flatMap piece) = some rs := by
  intro rs
  induction rs with
  | nil => intro fuel _ _; exact resolve_nil sD sP sS sPl fuel
  | cons r t ih =>
    intro fuel h hf
    obtain ⟨f, rfl⟩ : ∃ f, fuel = f + 1 := ⟨fuel - 1, by simp only [List.length_cons] at hf; omega⟩
    rw [List.flatMap_cons, resolve_piece sD sP sS sPl f r _ _ (h r (by simp)),
      ih f (fun x hx => h x (by simp [hx])) (by simp only [List.length_cons] at hf; omega)]
    rfl

theorem flat_length (piece : Nat → List Nat) : ∀ (rs : List Nat),
    (∀ r ∈ rs, goodPiece sD sP sS sPl r (piece r) = true) → rs.length ≤ (rs.flatMap piece).length := by
  intro rs
  induction rs with
  | nil => intro _; simp
  | cons r t ih =>
    intro h
    have := goodPiece_length sD sP sS sPl (h r (by simp))
    have := ih (fun x hx => h x (by simp [hx]))
    rw [List.flatMap_cons, List.length_append, List.length_cons]; omega

end BV.Proofs.Pairs
