/-
  C02 assembled: for every accepted content the image produced by `encodeWithColor` passes the reference decoder
  `Spec.Datamatrix.decode`, which returns the content.  The Reed–Solomon validity of the check symbols is property
  C17 and enters as the explicit hypothesis `RSEncodeValid`.
-/
import BV.Proofs.DmAscii
import BV.Proofs.DmSize
import BV.Proofs.DmEcc
import BV.Proofs.DmCert
import BV.Proofs.DmMergeCert
import BV.Proofs.DmFrame
import BV.Proofs.DmRead
namespace BV.Proofs.DmDecode
open BV BV.Model BV.Model.Datamatrix BV.Spec.Datamatrix
open BV.Proofs.DmAscii BV.Proofs.DmSize BV.Proofs.DmEcc BV.Proofs.DmSym BV.Proofs.DmPlaceM BV.Proofs.DmPlaceS
open BV.Proofs.DmFrame BV.Proofs.DmRead BV.Proofs.DmMergeSym

/-! ### the table pairs carry both certificates -/

theorem sizePairs_index : sizePairs =
    (List.range 24).map (fun i => (codeSizes.getD i default, attrTable.getD i default)) := by decide +kernel

theorem pair_certs {s : CodeSize} {a : Attr} (h : (s, a) ∈ sizePairs) :
    certOk s a = true ∧ (run a.mapping a.mapping (a.dataCW + a.eccCW)).isSome = true ∧ a ∈ attrTable ∧
      s ∈ codeSizes ∧ agrees s a = true := by
  have hag : agrees s a = true := List.all_eq_true.mp table_agrees (s, a) h
  have ha : a ∈ attrTable := by
    rw [← sizePairs_snd]; exact List.mem_map.mpr ⟨(s, a), h, rfl⟩
  have hs : s ∈ codeSizes := by
    rw [← sizePairs_fst]; exact List.mem_map.mpr ⟨(s, a), h, rfl⟩
  refine ⟨?_, DmCert.run_table a ha, ha, hs, hag⟩
  rw [sizePairs_index] at h
  obtain ⟨i, hi, he⟩ := List.mem_map.mp h
  cases he
  exact DmMergeCert.cert_table i (List.mem_range.mp hi)

/-- certificate: the sizes of the standard's table are pairwise different, so the decoder finds the row -/
theorem find_attr : ∀ a ∈ attrTable, attrTable.find? (fun x => x.size == a.size) = some a := by decide +kernel

/-! ### the reference decoder, given its ingredients -/

theorem decode_of_facts (a : Attr) (dark : Nat → Nat → Bool) (arr : Array Nat) (cw : Array Nat)
    (content : Bytes) (pad : Nat) (ha : a ∈ attrTable) (hfind : finderOk a dark = true)
    (hplace : placement a.mapping a.mapping = some (arr, a.dataCW + a.eccCW))
    (hread : readCodewords a.mapping a.mapping arr (a.dataCW + a.eccCW) (mappingModule a dark) = some cw)
    (hblocks : blocksOk a (cw.toList.take a.dataCW) (cw.toList.drop a.dataCW) = true)
    (hascii : decodeAscii 1 (cw.toList.take a.dataCW) = .ok (content, pad)) :
    decode a.size a.size dark = .ok
      { rows := a.size, cols := a.size, regions := a.regionsPerSide * a.regionsPerSide,
        regionsPerSide := a.regionsPerSide, mappingSize := a.mapping, dataCodewords := a.dataCW,
        eccCodewords := a.eccCW, blocks := a.blocks, padCount := pad, content := content } := by
  unfold decode
  simp [find_attr a ha, hfind, hplace, hread, hblocks, hascii, bind, Except.bind, pure, Except.pure]

/-! ### rendering: placement + merge + read-back -/

/-- For a table pair and any codeword list of the symbol's length: `render` does not panic; the image has the
    finder pattern; the reference's placement succeeds; reading the image through it returns the codewords. -/
theorem render_facts {s : CodeSize} {a : Attr} (hp : (s, a) ∈ sizePairs) (cwords : Bytes)
    (hlen : cwords.length = a.dataCW + a.eccCW) (color : Scheme) :
    ∃ code arr cw, render cwords s color = .ok code ∧ code.size = s ∧ code.color = color ∧
      finderOk a (darkOf code) = true ∧
      placement a.mapping a.mapping = some (arr, a.dataCW + a.eccCW) ∧
      readCodewords a.mapping a.mapping arr (a.dataCW + a.eccCW) (mappingModule a (darkOf code)) = some cw ∧
      cw.toList = toNats cwords := by
  obtain ⟨hcert, hrunS, ha, hs, hag⟩ := pair_certs hp
  obtain ⟨hrows, hcols, hmr, hmc, _⟩ := agrees_facts hag
  obtain ⟨st, hrun⟩ := Option.isSome_iff_exists.mp hrunS
  have hsz : cwords.toArray.size = a.dataCW + a.eccCW := by simpa using hlen
  obtain ⟨l, hset, hrel⟩ := setValues_of_run (color := color) hmr hmc hrun hsz
  obtain ⟨hmatEq, _⟩ := relM_arrays hrel
  have hmsz : a.mapping * a.mapping ≤ l.matrix.size := by
    rw [hmatEq]; simp only [Array.size_ofFn]; exact DmPlaceM.le_cap _
  obtain ⟨code, hmerge, hcs, hcc, _, hfind, hmap⟩ := merge_frame s a hag hcert l hrel.hsize hmsz
  have hmm : ∀ i, i < a.mapping * a.mapping →
      mappingModule a (darkOf code) (i / a.mapping) (i % a.mapping) = paint cwords.toArray (tagAt st.log i) := by
    intro i hi
    have hpos : 0 < a.mapping := by
      rcases Nat.eq_zero_or_pos a.mapping with h0 | h0
      · rw [h0] at hi; omega
      · exact h0
    have hrow : i / a.mapping < a.mapping := (Nat.div_lt_iff_lt_mul hpos).mpr hi
    have hcol : i % a.mapping < a.mapping := Nat.mod_lt _ hpos
    rw [hmap _ _ hrow hcol]
    have e : i % a.mapping + i / a.mapping * a.mapping = i := by
      rw [Nat.mul_comm]; exact Nat.mod_add_div i a.mapping
    rw [e, Array.getD_eq_getD_getElem?, hrel.hmat i,
      if_pos (Nat.lt_of_lt_of_le hi (DmPlaceM.le_cap _)), Option.getD_some]
  obtain ⟨cw, hread, hcw⟩ := read_back hrun cwords.toArray hsz (mappingModule a (darkOf code)) hmm
  refine ⟨code, _, cw, ?_, hcs, hcc.trans hrel.hcolor, hfind, placement_of_run hrun, hread, ?_⟩
  · unfold render
    simp only [hset, bind, Except.bind]
    exact hmerge
  · rw [hcw]; simp [toNats]

/-! ### the Reed–Solomon blocks (modulo C17) -/

/-- What C17 contributes: on byte data, for `k` check symbols with `|d| + k ≤ 255`, the encoder of `utils`
    returns exactly `k` symbols and data followed by them is a codeword of the ISO/IEC 16022 code
    (roots α¹ … α^k over GF(256)/0x12D). -/
def RSEncodeValid : Prop :=
  ∀ (d : List Nat) (k : Nat), (∀ x ∈ d, x < 256) → 1 ≤ k → d.length + k ≤ 255 →
    (GF.rsEncode ecField d k).length = k ∧ Spec.RS.dmField.valid 1 k (d ++ GF.rsEncode ecField d k) = true

/-- certificate: every block of every size fits GF(256) (at most 255 symbols), with at least one check symbol -/
theorem block_bounds : ∀ a ∈ attrTable, ∀ b, b < a.blocks → a.blockData b + a.blockEcc ≤ 255 ∧ 1 ≤ a.blockEcc := by
  decide +kernel

theorem everyNth_mem (n b : Nat) (l : List Nat) (x : Nat) (h : x ∈ everyNth n b l) : x ∈ l := by
  unfold everyNth at h
  obtain ⟨p, hp, hx⟩ := List.mem_filterMap.mp h
  obtain ⟨v, i⟩ := p
  simp only at hx
  split at hx
  · cases hx
    have := List.mem_zipIdx hp
    rw [this.2.2]
    exact List.getElem_mem _
  · cases hx

theorem toNats_lt (l : Bytes) : ∀ x ∈ toNats l, x < 256 := by
  intro x hx
  obtain ⟨b, _, rfl⟩ := List.mem_map.mp hx
  exact b.toNat_lt

theorem blocks_ok (hrs : RSEncodeValid) {s : CodeSize} {a : Attr} (hp : (s, a) ∈ sizePairs) (data : Bytes)
    (hlen : data.length = a.dataCW) :
    ∃ ecc : Bytes, calcECC data s = .ok (data ++ ecc) ∧ ecc.length = a.eccCW ∧
      blocksOk a (toNats data) (toNats ecc) = true := by
  obtain ⟨_, _, ha, hs, hag⟩ := pair_certs hp
  obtain ⟨_, _, _, _, hdc, hec, hbc, hpe, hfb, _, _, _⟩ := agrees_facts hag
  obtain ⟨ecc, hcalc, hel, hblk⟩ := calcECC_blocks s hs data (by rw [hdc, Int.toNat_natCast]; exact hlen)
  refine ⟨ecc, hcalc, by rw [hel, hec, Int.toNat_natCast], ?_⟩
  unfold blocksOk blockWord
  simp only [List.all_eq_true, List.mem_range, Bool.and_eq_true, beq_iff_eq]
  intro b hb
  rw [hbc, Int.toNat_natCast, hpe, Int.toNat_natCast] at hblk
  obtain ⟨h1, h2⟩ := hblk b hb
  rw [hfb b hb, Int.toNat_natCast] at h1
  obtain ⟨hb1, hb2⟩ := block_bounds a ha b hb
  obtain ⟨r1, r2⟩ := hrs (everyNth a.blocks b (toNats data)) a.blockEcc
    (fun x hx => toNats_lt data x (everyNth_mem _ _ _ x hx)) hb2 (by rw [h1]; exact hb1)
  have hall : ∀ x ∈ GF.rsEncode ecField (everyNth a.blocks b (toNats data)) a.blockEcc, x < 256 := by
    unfold Spec.RS.BinField.valid at r2
    simp only [Bool.and_eq_true, List.all_eq_true, decide_eq_true_eq] at r2
    intro x hx
    exact r2.2 x (List.mem_append_right _ hx)
  have he : everyNth a.blocks b (toNats ecc) =
      GF.rsEncode ecField (everyNth a.blocks b (toNats data)) a.blockEcc := by
    rw [h2, List.take_of_length_le (by omega)]
    conv => rhs; rw [← List.map_id (GF.rsEncode ecField (everyNth a.blocks b (toNats data)) a.blockEcc)]
    apply List.map_congr_left
    intro x hx
    exact Nat.mod_eq_of_lt (hall x hx)
  refine ⟨⟨h1, by rw [he, r1]⟩, by rw [he]; exact r2⟩

/-! ### the encoder end to end -/

/-- what `encodeWithColor` returns for an accepted content, stage by stage -/
structure Accepted (c : Bytes) (color : Scheme) (bc : Barcode) (s : CodeSize) (a : Attr) : Prop where
  chosen : chooseSize (encodeText c).length = some s
  pair : (s, a) ∈ sizePairs
  width : bc.w = a.size
  height : bc.h = a.size
  kind : bc.kind = "DataMatrix"
  dims : bc.dims = 2
  content : bc.content = c
  scheme : bc.scheme = color
  checksum : bc.checksum = none
  finder : finderOk a bc.dark = true
  /-- the codewords in the symbol: padded ASCII encodation followed by the check codewords of `calcECC` -/
  codewords : ∃ (ecc : Bytes) (arr : Array Nat) (cw : Array Nat),
    calcECC (addPadding (encodeText c) (a.dataCW : Int)) s = .ok (addPadding (encodeText c) (a.dataCW : Int) ++ ecc) ∧
    ecc.length = a.eccCW ∧
    placement a.mapping a.mapping = some (arr, a.dataCW + a.eccCW) ∧
    readCodewords a.mapping a.mapping arr (a.dataCW + a.eccCW) (mappingModule a bc.dark) = some cw ∧
    cw.toList = toNats (addPadding (encodeText c) (a.dataCW : Int)) ++ toNats ecc ∧
    cw.toList.take a.dataCW = toNats (addPadding (encodeText c) (a.dataCW : Int)) ∧
    cw.toList.drop a.dataCW = toNats ecc
  ascii : decodeAscii 1 (toNats (addPadding (encodeText c) (a.dataCW : Int))) =
    .ok (c, a.dataCW - (encodeText c).length)

/-- **No panic, and everything but the Reed–Solomon check.**  Every content whose ASCII encodation has at most
    1558 codewords is accepted; the result has the properties collected in `Accepted`. -/
theorem encode_accepted (c : Bytes) (color : Scheme) (hlen : (encodeText c).length ≤ 1558) :
    ∃ bc s a, encodeWithColor c color = .ok bc ∧ Accepted c color bc s a := by
  obtain ⟨s, pre, post, hch, htab, hfit, _, _⟩ := chooseSize_some _ hlen
  have hs : s ∈ codeSizes := chooseSize_mem hch
  obtain ⟨a, hp, ha, hag⟩ := exists_attr hs
  obtain ⟨hrows, hcols, _, _, hdc, hec, _⟩ := agrees_facts hag
  have hfit' : (encodeText c).length ≤ a.dataCW := by rw [hdc] at hfit; omega
  have hpadlen : (addPadding (encodeText c) (a.dataCW : Int)).length = a.dataCW := by
    rw [addPadding_eq _ _ hfit', List.length_append, padding_length _ _ hfit']; omega
  obtain ⟨_, _, _, hs', _⟩ := pair_certs hp
  obtain ⟨ecc, hcalc, hel, _⟩ := calcECC_blocks s hs (addPadding (encodeText c) (a.dataCW : Int))
    (by rw [hdc, Int.toNat_natCast]; exact hpadlen)
  have hel' : ecc.length = a.eccCW := by rw [hel, hec, Int.toNat_natCast]
  obtain ⟨code, arr, cw, hrender, hcs, hcc, hfind, hplace, hread, hcw⟩ :=
    render_facts hp (addPadding (encodeText c) (a.dataCW : Int) ++ ecc)
      (by rw [List.length_append, hpadlen, hel']) color
  refine ⟨({ code with content := c }).toBarcode, s, a, ?_, ?_⟩
  · rw [encodeWithColor_eq, hch]
    simp only [hdc, hcalc, Except.bind, hrender]
  · have hdark : ({ code with content := c } : DatamatrixCode).toBarcode.dark = darkOf code := rfl
    refine ⟨hch, hp, ?_, ?_, rfl, rfl, rfl, hcc, rfl, by rw [hdark]; exact hfind, ?_, ?_⟩
    · show (code.size.columns.toNat) = a.size
      rw [hcs, hcols, Int.toNat_natCast]
    · show (code.size.rows.toNat) = a.size
      rw [hcs, hrows, Int.toNat_natCast]
    · rw [toNats_append] at hcw
      refine ⟨ecc, arr, cw, hcalc, hel', hplace, by rw [hdark]; exact hread, hcw, ?_, ?_⟩
      · rw [hcw, List.take_append_of_le_length (by simp [hpadlen]), List.take_of_length_le (by simp [hpadlen])]
      · rw [hcw, List.drop_append_of_le_length (by simp [hpadlen]), List.drop_of_length_le (by simp [hpadlen]),
          List.nil_append]
    · exact dec_padded c a.dataCW hfit'

/-- contents whose encodation is longer than 1558 codewords are rejected with an error (no panic) -/
theorem encode_rejected (c : Bytes) (color : Scheme) (hlen : 1558 < (encodeText c).length) :
    encodeWithColor c color = .error .rejected := by
  rw [encodeWithColor_eq, chooseSize_none _ hlen]

/-- **C02 (modulo C17).**  Assuming the Reed–Solomon encoder of `utils` is valid (`RSEncodeValid`, property
    C17), the reference decoder accepts the image of every accepted content and returns the content. -/
theorem encode_decodes (hrs : RSEncodeValid) (c : Bytes) (color : Scheme) (hlen : (encodeText c).length ≤ 1558) :
    ∃ bc s a, encodeWithColor c color = .ok bc ∧ Accepted c color bc s a ∧
      decode bc.w bc.h bc.dark = .ok
        { rows := a.size, cols := a.size, regions := a.regionsPerSide * a.regionsPerSide,
          regionsPerSide := a.regionsPerSide, mappingSize := a.mapping, dataCodewords := a.dataCW,
          eccCodewords := a.eccCW, blocks := a.blocks, padCount := a.dataCW - (encodeText c).length,
          content := c } := by
  obtain ⟨bc, s, a, hok, hacc⟩ := encode_accepted c color hlen
  refine ⟨bc, s, a, hok, hacc, ?_⟩
  obtain ⟨ecc, arr, cw, hcalc, _, hplace, hread, _, htake, hdrop⟩ := hacc.codewords
  obtain ⟨_, _, ha, _, hag⟩ := pair_certs hacc.pair
  obtain ⟨_, _, _, _, hdc, _⟩ := agrees_facts hag
  have hfit : (encodeText c).length ≤ a.dataCW := by
    obtain ⟨s', _, _, hch, _, hfit, _, _⟩ := chooseSize_some _ hlen
    rw [hacc.chosen] at hch
    cases hch
    rw [hdc] at hfit; omega
  have hpadlen : (addPadding (encodeText c) (a.dataCW : Int)).length = a.dataCW := by
    rw [addPadding_eq _ _ hfit, List.length_append, padding_length _ _ hfit]; omega
  obtain ⟨ecc', hcalc', _, hblocks⟩ := blocks_ok hrs hacc.pair _ hpadlen
  have : ecc' = ecc := by
    rw [hcalc] at hcalc'
    have h := Except.ok.inj hcalc'
    exact (List.append_cancel_left h).symm
  subst this
  rw [hacc.width, hacc.height]
  exact decode_of_facts a bc.dark arr cw c _ ha hacc.finder hplace hread (by rw [htake, hdrop]; exact hblocks)
    (by rw [htake]; exact hacc.ascii)
