/-
  BV.Proofs.AztecAssemble — from the parts (stream round trip, stuffing, layer choice, check words, mode message,
  geometry of the drawing) to: the reference decoder accepts what `EncodeWithColor` returns and reads the payload.
-/
import BV.Proofs.AztecSearch
import BV.Proofs.AztecStuff
import BV.Proofs.AztecLayers
import BV.Proofs.AztecCheck
import BV.Proofs.AztecDecode
namespace BV.Proofs.AztecAssemble
open BV BV.Model.Aztec BV.Proofs.AztecBits BV.Proofs.AztecDecode

/-- what the reference decoder needs from the drawing: for each of the 36 shapes and all message / mode message
    bits of the right lengths, the modules of `render …` read at the positions of ISO/IEC 24778 give the message
    bits and the mode message back, and the finder pattern, orientation marks and reference grid are as the
    standard prescribes -/
def GeometryOK : Prop :=
  ∀ (compact : Bool) (layers : Nat), Shape compact layers →
  ∀ (messageBits modeMessage : List Bool), messageBits.length = totalBitsInLayer layers compact →
    modeMessage.length = (if compact then 28 else 40) → ∀ (data : Bytes) (color : Scheme),
    let code := render compact layers messageBits modeMessage data color
    let r := Spec.Aztec.modeRing compact
    code.size = Spec.Aztec.symbolSize compact layers ∧
    code.toBarcode.w = code.size ∧ code.toBarcode.h = code.size ∧ code.toBarcode.content = data ∧
    (Spec.Aztec.dataModules compact layers).map (modAt code) = messageBits ∧
    (Spec.Aztec.modeModules compact).map (modAt code) = modeMessage ∧
    (Spec.Aztec.ringWalk 5).all (fun p => !modAt code p) = !compact ∧
    (Spec.Aztec.square (r - 1)).all (fun p => modAt code p == (Spec.Aztec.cheb p % 2 == 0)) = true ∧
    ((Spec.Aztec.ringWalk r).filter (Spec.Aztec.isOrientation r)).all
        (fun p => modAt code p == (Spec.Aztec.orientationDark r).contains p) = true ∧
    (compact = false → (Spec.Aztec.square (Spec.Aztec.halfSize compact layers)).all (fun p =>
        if p.1 % 16 == 0 then modAt code p == (p.2 % 2 == 0)
        else if p.2 % 16 == 0 then modAt code p == (p.1 % 2 == 0) else true) = true)

theorem bind_ok {ε α β} {x : Except ε α} {f : α → Except ε β} {b : β} (h : (x >>= f) = .ok b) :
    ∃ a, x = .ok a ∧ f a = .ok b := by
  cases x with
  | error e => cases h
  | ok a => exact ⟨a, rfl, h⟩

/-- certificate: a full-range symbol never holds more than 2048 codewords (the range of the mode message) -/
theorem fullWordCount_table : ∀ L : Fin 33, totalBitsInLayer L.val false / word_size L.val ≤ 2048 := by decide

/-- a non-empty payload has a non-empty high-level encoding -/
theorem highlevelEncode_ne_nil (data : Bytes) (hne : data ≠ []) (hlen : data.length < 2 ^ 58) :
    highlevelEncode data ≠ [] := by
  intro h
  have := BV.Proofs.AztecSearch.highlevel_roundtrip 6 (by omega) data hlen [] (by simp) (by simp)
  rw [h] at this
  simp [Spec.Aztec.parse] at this
  exact hne this

/-- the reader of `Spec.Aztec.decode` on the barcode of a drawn code is `modAt` -/
theorem reader_eq (code : AztecCode) :
    (fun (p : Int × Int) => code.toBarcode.dark (((code.toBarcode.w / 2 : Nat) : Int) + p.1).toNat
      (((code.toBarcode.w / 2 : Nat) : Int) + p.2).toNat) = modAt code := rfl

/-- **From an accepted layout to a decodable symbol.**  Given the geometry of the drawing, a payload (possibly
    empty), `pct ≥ 0`, an accepted layout, and the results of `generateCheckWords` and `generateModeMessage`, the
    reference decoder reads from the rendered symbol the payload, the shape, and the word counts. -/
theorem decode_of_layout (hgeo : GeometryOK) (data : Bytes) (hlen : data.length < 2 ^ 58)
    (pct : Int) (hpct : 0 ≤ pct) (lay : Layout)
    (ok : LayoutOK (highlevelEncode data)
      (Int.tdiv (((highlevelEncode data).length : Int) * pct) 100 + 11) lay)
    (messageBits modeMessage : List Bool)
    (hmsg : generateCheckWords lay.stuffedBits lay.totalBitsInLayer lay.wordSize = .ok messageBits)
    (hmode : generateModeMessage lay.compact lay.layers (lay.stuffedBits.length / lay.wordSize) = .ok modeMessage)
    (color : Scheme) :
    let bc := (render lay.compact lay.layers messageBits modeMessage data color).toBarcode
    ∃ info, Spec.Aztec.decode bc.w bc.h bc.dark = .ok info ∧ info.content = data ∧
      info.compact = lay.compact ∧ info.layers = lay.layers ∧ info.size = bc.w ∧
      bc.w = Spec.Aztec.symbolSize lay.compact lay.layers ∧ bc.content = data ∧
      info.wordSize = lay.wordSize ∧ info.dataWords = lay.stuffedBits.length / lay.wordSize ∧
      info.checkWords = lay.totalBitsInLayer / lay.wordSize - lay.stuffedBits.length / lay.wordSize := by
  intro bc
  generalize hbits : highlevelEncode data = bits at ok
  -- word size
  have hw := BV.Proofs.AztecLayers.word_size_mem ok.shape
  rw [← ok.ws] at hw
  have hw2 : 2 ≤ lay.wordSize := by
    simp only [List.mem_cons, List.not_mem_nil, or_false] at hw; omega
  have hw18 : lay.wordSize ≤ 18 := by
    simp only [List.mem_cons, List.not_mem_nil, or_false] at hw; omega
  have hw4 : lay.wordSize ∈ [4, 6, 8, 10, 12] := List.mem_cons_of_mem _ hw
  have hL := BV.Proofs.AztecLayers.shape_le32 ok.shape
  have hwso : Spec.Aztec.wordSizeOf lay.layers = lay.wordSize := by
    rw [ok.ws, BV.Proofs.AztecLayers.word_size_eq _ hL.1 hL.2]
  -- stuffing
  have hmod : lay.stuffedBits.length % lay.wordSize = 0 := by
    rw [ok.stuffed]; exact BV.Proofs.AztecStuff.stuffBits_length_mod bits _ hw2
  have hge : bits.length ≤ lay.stuffedBits.length := by
    rw [ok.stuffed]; exact BV.Proofs.AztecStuff.stuffBits_length_ge bits _ hw2
  obtain ⟨hwords, ⟨pad, hpad1, hpad2, hunstuff⟩, _⟩ := BV.Proofs.AztecStuff.stuffBits_words bits lay.wordSize hw2
  rw [← ok.stuffed] at hwords hunstuff
  -- check words
  obtain ⟨_, hk1, hkn⟩ := BV.Proofs.AztecLayers.checkWords_ok ok rfl hpct hmod
  obtain ⟨pp, n, eccw, _, hfield, _, _, hgen, hdwlen, hecclen, hdwlt, heccllt, hvalid⟩ :=
    BV.Proofs.AztecCheck.generateCheckWords_spec lay.wordSize hw4 lay.stuffedBits lay.totalBitsInLayer hk1
      (Nat.le_trans (Nat.le_add_left _ _) hkn)
  rw [hgen] at hmsg
  have hmsg : messageBits = _ := (Except.ok.inj hmsg).symm
  have hmsglen : messageBits.length = totalBitsInLayer lay.layers lay.compact := by
    obtain ⟨r, hr, hrl⟩ := BV.Proofs.AztecCheck.generateCheckWords_length lay.wordSize hw4 lay.stuffedBits
      lay.totalBitsInLayer hk1 (Nat.le_trans (Nat.le_add_left _ _) hkn)
    rw [hgen] at hr
    rw [hmsg, Except.ok.inj hr, hrl, ok.total]
  -- number of data words
  have hlenpos : 1 ≤ lay.stuffedBits.length := by
    rw [ok.stuffed]; exact BV.Proofs.AztecStuff.stuffBits_length_pos bits _ hw2
  have hW1 : 1 ≤ lay.stuffedBits.length / lay.wordSize := by
    have h1 : lay.stuffedBits.length = lay.wordSize * (lay.stuffedBits.length / lay.wordSize) := by
      have := Nat.div_add_mod lay.stuffedBits.length lay.wordSize
      omega
    rcases Nat.eq_zero_or_pos (lay.stuffedBits.length / lay.wordSize) with h0 | h0
    · rw [h0] at h1; omega
    · exact h0
  have hW2 : lay.stuffedBits.length / lay.wordSize ≤ (if lay.compact then 64 else 2048) := by
    cases hc : lay.compact with
    | true =>
      have := ok.cap hc
      simp only [if_true]
      exact Nat.div_le_of_le_mul this
    | false =>
      simp only [Bool.false_eq_true, if_false]
      have h1 := fullWordCount_table ⟨lay.layers, by omega⟩
      have h1' : lay.totalBitsInLayer / lay.wordSize ≤ 2048 := by rw [ok.total, ok.ws, hc]; exact h1
      omega
  -- mode message
  obtain ⟨mm, hmm, hmmlen, hmmvalid, hmmv⟩ :=
    BV.Proofs.AztecCheck.generateModeMessage_spec lay.compact lay.layers _ ok.shape ⟨hW1, hW2⟩
  rw [hmm] at hmode
  have hmode : mm = modeMessage := Except.ok.inj hmode
  subst hmode
  -- geometry
  obtain ⟨g1, g2, g3, g4, g5, g6, g7, g8, g9, g10⟩ :=
    hgeo lay.compact lay.layers ok.shape messageBits mm hmsglen hmmlen data color
  -- the decoder
  have hdec : Spec.Aztec.decode bc.w bc.h bc.dark =
      stageFinder bc.w (modAt (render lay.compact lay.layers messageBits mm data color)) := by
    have h1 : bc.h = bc.w := rfl
    rw [h1, decode_ok bc.w bc.dark lay.compact lay.layers ok.shape (by rw [← g1]; rfl)]
    rfl
  have hparse := BV.Proofs.AztecSearch.highlevel_roundtrip lay.wordSize hw18 data hlen pad hpad1 hpad2
  rw [hbits, ← hunstuff] at hparse
  have hdata := stageData_ok bc.w (modAt (render lay.compact lay.layers messageBits mm data color)) lay.compact
    lay.layers lay.wordSize hwso (lay.totalBitsInLayer % lay.wordSize)
    (Spec.Aztec.groups lay.wordSize (lay.stuffedBits.length / lay.wordSize) lay.stuffedBits) eccw
    (Nat.mod_lt _ (by omega)) hdwlt heccllt (by rw [g5, hmsg]) ⟨pp, n⟩ hfield (by rw [hecclen]; exact hvalid)
    (fun x hx => (hwords x hx).2) data hparse
  rw [hdwlen] at hdata
  have hmodeok := stageMode_ok bc.w (modAt (render lay.compact lay.layers messageBits mm data color)) lay.compact
    lay.layers (lay.stuffedBits.length / lay.wordSize) hL.1 ⟨hW1, hW2⟩ mm g6 hmmvalid hmmv (by rw [← g1]; rfl) g10
  have hfinder := stageFinder_ok bc.w (modAt (render lay.compact lay.layers messageBits mm data color)) lay.compact
    g7 g8 g9
  rw [hdec, hfinder, hmodeok, hdata]
  exact ⟨_, rfl, rfl, rfl, rfl, rfl, by rw [← g1]; rfl, g4, rfl, rfl, hecclen⟩

/-- the layer selection of `EncodeWithColor` -/
def selectLayers (bits : List Bool) (pct req : Int) : Res Layout :=
  if req != Int.ofNat BV.Gen.Aztec.c_DEFAULT_LAYERS then
    explicitLayers bits (Int.tdiv ((bits.length : Int) * pct) 100 + 11) req
  else autoLayers bits (Int.tdiv ((bits.length : Int) * pct) 100 + 11)
    (bits.length + (Int.tdiv ((bits.length : Int) * pct) 100 + 11)) (BV.Gen.Aztec.c_max_nb_bits + 2) 0 0 []

theorem selectLayers_explicit (bits : List Bool) (pct req : Int) (h : req ≠ 0) :
    selectLayers bits pct req = explicitLayers bits (Int.tdiv ((bits.length : Int) * pct) 100 + 11) req := by
  unfold selectLayers
  rw [if_pos]
  simpa [BV.Gen.Aztec.c_DEFAULT_LAYERS] using h

theorem selectLayers_auto (bits : List Bool) (pct : Int) :
    selectLayers bits pct 0 = autoLayers bits (Int.tdiv ((bits.length : Int) * pct) 100 + 11)
      (bits.length + (Int.tdiv ((bits.length : Int) * pct) 100 + 11)) 34 0 0 [] := by
  unfold selectLayers
  rw [if_neg (by simp [BV.Gen.Aztec.c_DEFAULT_LAYERS])]
  rfl

theorem ecc_ge (n : Nat) (pct : Int) (hpct : 0 ≤ pct) : 11 ≤ Int.tdiv ((n : Int) * pct) 100 + 11 := by
  have : 0 ≤ Int.tdiv ((n : Int) * pct) 100 := Int.tdiv_nonneg (Int.mul_nonneg (by omega) hpct) (by omega)
  omega

/-- the selected layout is accepted, never a panic -/
theorem selectLayers_spec (bits : List Bool) (pct req : Int) :
    (∃ lay, selectLayers bits pct req = .ok lay ∧
      LayoutOK bits (Int.tdiv ((bits.length : Int) * pct) 100 + 11) lay) ∨
    selectLayers bits pct req = .error .rejected := by
  by_cases h0 : req = 0
  · subst h0
    rw [selectLayers_auto]
    cases h : autoLayers bits (Int.tdiv ((bits.length : Int) * pct) 100 + 11)
      (bits.length + (Int.tdiv ((bits.length : Int) * pct) 100 + 11)) 34 0 0 [] with
    | ok lay => exact Or.inl ⟨lay, rfl, (BV.Proofs.AztecLayers.autoLayers_ok h).1⟩
    | error e =>
      cases e with
      | rejected => exact Or.inr rfl
      | panic => exact absurd h (BV.Proofs.AztecLayers.autoLayers_ne_panic _ _)
  · rw [selectLayers_explicit _ _ _ h0]
    cases h : explicitLayers bits (Int.tdiv ((bits.length : Int) * pct) 100 + 11) req with
    | ok lay => exact Or.inl ⟨lay, rfl, (BV.Proofs.AztecLayers.explicitLayers_ok h h0).2.2.2⟩
    | error e =>
      cases e with
      | rejected => exact Or.inr rfl
      | panic => exact absurd h (BV.Proofs.AztecLayers.explicitLayers_ne_panic _ _ _)

/-- `EncodeWithColor`, for `pct ≥ 0`: either the layer selection rejects, or it accepts a layout, check words and
    mode message are computed without panic, and the result is the rendered symbol -/
theorem encode_cases (data : Bytes) (pct req : Int) (hpct : 0 ≤ pct) (color : Scheme) :
    (selectLayers (highlevelEncode data) pct req = .error .rejected ∧
      encodeWithColor data pct req color = .error .rejected) ∨
    (∃ lay messageBits modeMessage, selectLayers (highlevelEncode data) pct req = .ok lay ∧
      LayoutOK (highlevelEncode data) (Int.tdiv (((highlevelEncode data).length : Int) * pct) 100 + 11) lay ∧
      generateCheckWords lay.stuffedBits lay.totalBitsInLayer lay.wordSize = .ok messageBits ∧
      generateModeMessage lay.compact lay.layers (lay.stuffedBits.length / lay.wordSize) = .ok modeMessage ∧
      encodeWithColor data pct req color =
        .ok (render lay.compact lay.layers messageBits modeMessage data color).toBarcode) := by
  have heq : encodeWithColor data pct req color =
      (selectLayers (highlevelEncode data) pct req >>= fun lay =>
       generateCheckWords lay.stuffedBits lay.totalBitsInLayer lay.wordSize >>= fun messageBits =>
       generateModeMessage lay.compact lay.layers (lay.stuffedBits.length / lay.wordSize) >>= fun modeMessage =>
       pure (render lay.compact lay.layers messageBits modeMessage data color).toBarcode) :=
    encodeWithColor_eq data pct req color
  rcases selectLayers_spec (highlevelEncode data) pct req with ⟨lay, hsel, ok⟩ | hrej
  · right
    have hw := BV.Proofs.AztecLayers.word_size_mem ok.shape
    rw [← ok.ws] at hw
    have hw2 : 2 ≤ lay.wordSize := by
      simp only [List.mem_cons, List.not_mem_nil, or_false] at hw; omega
    have hmod : lay.stuffedBits.length % lay.wordSize = 0 := by
      rw [ok.stuffed]; exact BV.Proofs.AztecStuff.stuffBits_length_mod _ _ hw2
    obtain ⟨_, hk1, hkn⟩ := BV.Proofs.AztecLayers.checkWords_ok ok rfl hpct hmod
    obtain ⟨mb, hmb, _⟩ := BV.Proofs.AztecCheck.generateCheckWords_length lay.wordSize
      (List.mem_cons_of_mem _ hw) lay.stuffedBits lay.totalBitsInLayer hk1 (Nat.le_trans (Nat.le_add_left _ _) hkn)
    obtain ⟨mm, hmm⟩ := BV.Proofs.AztecCheck.generateModeMessage_no_panic lay.compact lay.layers
      (lay.stuffedBits.length / lay.wordSize)
    refine ⟨lay, mb, mm, hsel, ok, hmb, hmm, ?_⟩
    rw [heq, hsel]
    show (generateCheckWords lay.stuffedBits lay.totalBitsInLayer lay.wordSize >>= _) = _
    rw [hmb]
    show (generateModeMessage lay.compact lay.layers (lay.stuffedBits.length / lay.wordSize) >>= _) = _
    rw [hmm]
    rfl
  · left
    refine ⟨hrej, ?_⟩
    rw [heq, hrej]
    rfl

/-! ### size and content of the drawn symbol (independent of the geometry certificates) -/

section proj
variable {β : Type} (π : AztecCode → β) (hπ : ∀ c x y, π (AztecCode.set c x y) = π c)
include hπ

set_option linter.unusedSectionVars false in
theorem foldl_proj {α} (f : AztecCode → α → AztecCode) (hf : ∀ c x, π (f c x) = π c) (l : List α)
    (c : AztecCode) : π (l.foldl f c) = π c := by
  induction l generalizing c with
  | nil => rfl
  | cons x l ih => rw [List.foldl_cons, ih, hf]

theorem setIf_proj (c : AztecCode) (b : Bool) (x y : Nat) : π (c.setIf b x y) = π c := by
  unfold AztecCode.setIf; split
  · exact hπ _ _ _
  · rfl

theorem drawModeMessage_proj (c : AztecCode) (compact : Bool) (n : Nat) (mm : Array Bool) :
    π (drawModeMessage c compact n mm) = π c := by
  unfold drawModeMessage
  split <;> exact foldl_proj π hπ _ (fun c i => by simp only [setIf_proj π hπ]) _ _

theorem drawBullsEye_proj (c : AztecCode) (center size : Nat) : π (drawBullsEye c center size) = π c := by
  unfold drawBullsEye
  simp only [hπ]
  exact foldl_proj π hπ _ (fun c h => foldl_proj π hπ _ (fun c d => by simp only [hπ]) _ _) _ _

theorem drawReferenceGrid_proj (c : AztecCode) (b n : Nat) : π (drawReferenceGrid c b n) = π c := by
  unfold drawReferenceGrid
  exact foldl_proj π hπ _ (fun c h => foldl_proj π hπ _ (fun c d => by simp only [hπ]) _ _) _ _

theorem drawDataBits_proj (c : AztecCode) (compact : Bool) (layers b : Nat) (am : Array Nat) (bits : Array Bool) :
    π (drawDataBits c compact layers b am bits) = π c := by
  unfold drawDataBits
  have : ∀ (l : List Nat) (st : AztecCode × Nat),
      π (l.foldl (fun (st : AztecCode × Nat) i =>
        ((List.range ((layers - i) * 4 + (if compact then 9 else 12))).foldl
          (fun code j =>
            (List.range 2).foldl
              (fun (code : AztecCode) k =>
                let code := code.setIf (bits.getD (st.2 + j * 2 + k) false)
                  (am.getD (i * 2 + k) 0) (am.getD (i * 2 + j) 0)
                let code := code.setIf (bits.getD (st.2 + ((layers - i) * 4 + (if compact then 9 else 12)) * 2 + j * 2 + k) false)
                  (am.getD (i * 2 + j) 0) (am.getD (b - 1 - i * 2 - k) 0)
                let code := code.setIf (bits.getD (st.2 + ((layers - i) * 4 + (if compact then 9 else 12)) * 4 + j * 2 + k) false)
                  (am.getD (b - 1 - i * 2 - k) 0) (am.getD (b - 1 - i * 2 - j) 0)
                code.setIf (bits.getD (st.2 + ((layers - i) * 4 + (if compact then 9 else 12)) * 6 + j * 2 + k) false)
                  (am.getD (b - 1 - i * 2 - j) 0) (am.getD (i * 2 + k) 0))
              code)
          st.1, st.2 + ((layers - i) * 4 + (if compact then 9 else 12)) * 8)) st).1 = π st.1 := by
    intro l
    induction l with
    | nil => intro st; rfl
    | cons i l ih =>
      intro st
      rw [List.foldl_cons, ih]
      exact foldl_proj π hπ _ (fun c j => foldl_proj π hπ _ (fun c k => by simp only [setIf_proj π hπ]) _ _) _ _
  exact this _ _

/-- no drawing step of `render` changes a field that `set` leaves alone -/
theorem render_proj (compact : Bool) (layers : Nat) (mb mm : List Bool) (data : Bytes) (color : Scheme) :
    π (render compact layers mb mm data color) =
      π { newAztecCode (alignmentMap compact (if compact then 11 + layers * 4 else 14 + layers * 4)).2 color with
          content := data } := by
  unfold render
  simp only []
  cases compact with
  | true =>
    simp only [if_true]
    rw [drawBullsEye_proj π hπ, drawModeMessage_proj π hπ, drawDataBits_proj π hπ]
  | false =>
    simp only [Bool.false_eq_true, if_false]
    rw [drawReferenceGrid_proj π hπ, drawBullsEye_proj π hπ, drawModeMessage_proj π hπ, drawDataBits_proj π hπ]

end proj

/-- the drawn symbol has the side length of its shape and carries the payload as content -/
theorem render_size (compact : Bool) (layers : Nat) (hs : Shape compact layers) (mb mm : List Bool) (data : Bytes)
    (color : Scheme) :
    (render compact layers mb mm data color).size = Spec.Aztec.symbolSize compact layers ∧
    (render compact layers mb mm data color).content = data := by
  have hsz := BV.Proofs.AztecLayers.matrixSize_eq hs
  refine ⟨?_, ?_⟩
  · rw [render_proj (fun c => c.size) (fun _ _ _ => rfl)]
    exact hsz
  · rw [render_proj (fun c => c.content) (fun _ _ _ => rfl)]

end BV.Proofs.AztecAssemble
