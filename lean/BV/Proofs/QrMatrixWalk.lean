/-
  QR matrix layer: the zig-zag placement walk.
  The Go loop `iterateModules` (model: `allPoints.go`, with fuel) and the reference decoder's double fold
  `readDataBits` both traverse the closed-form list `walk dim` of `QrMatrixDefs`; the walk stays inside the
  symbol, never touches the timing column 6, has no repetition and visits every other module.
  Everything is proved by induction over the loops for every side length `17 + 4 * v`, `1 ≤ v`.
-/
import BV.Proofs.QrMatrixDefs
namespace BV.Proofs.QrMatrix
open BV BV.Model BV.Model.Qr

/-! ### W1: the fuelled loop `allPoints.go` equals the closed form -/

/-- the column update at the end of a column pair: two to the left, skipping the timing column 6 -/
def nextX (X : Int) : Int := if (X - 2 == 6) = true then X - 2 - 1 else X - 2

/-- the two modules of column pair with right column `X` in row `r`, as the loop emits them -/
def rowPts (X : Nat) (row : Nat → Nat) (t : Nat) : List (Int × Int) :=
  [((X : Int), ((row t : Nat) : Int)), (((X - 1 : Nat) : Int), ((row t : Nat) : Int))]

/-- one upward column pair: starting in row `dim-1-s` with `m+1` rows to go, the loop appends the remaining
    rows of the pair and then either stops (`nextX X < 0`) or continues downwards from row 0 -/
theorem go_up (d : Int) (dim X : Nat) (hX : 1 ≤ X) (m : Nat) :
    ∀ (s f : Nat) (acc : Array (Int × Int)), s + (m + 1) = dim →
    ∃ acc' : Array (Int × Int),
      acc'.toList = acc.toList ++ (List.range' s (m + 1)).flatMap (rowPts X (fun t => dim - 1 - t)) ∧
      allPoints.go d (f + (m + 1)) X ((dim - 1 - s : Nat) : Int) true acc =
        if nextX X < 0 then acc' else allPoints.go d f (nextX X) 0 false acc' := by
  have hX1 : (X : Int) - 1 = ((X - 1 : Nat) : Int) := by omega
  induction m with
  | zero =>
    intro s f acc hs
    refine ⟨(acc.push ((X : Int), ((dim - 1 - s : Nat) : Int))).push (((X - 1 : Nat) : Int), ((dim - 1 - s : Nat) : Int)),
      ?_, ?_⟩
    · simp [List.range', rowPts]
    · show allPoints.go d (f + 1) _ _ _ _ = _
      conv => lhs; unfold allPoints.go
      simp only [if_true]
      have h0 : ((dim - 1 - s : Nat) : Int) - 1 < 0 := by omega
      rw [if_pos h0, hX1]
      unfold nextX
      rfl
  | succ m ih =>
    intro s f acc hs
    obtain ⟨acc', h1, h2⟩ := ih (s + 1) f
      ((acc.push ((X : Int), ((dim - 1 - s : Nat) : Int))).push (((X - 1 : Nat) : Int), ((dim - 1 - s : Nat) : Int)))
      (by omega)
    refine ⟨acc', ?_, ?_⟩
    · rw [h1, @List.range'_succ s (m + 1) 1, List.flatMap_cons]
      simp only [rowPts, Array.toList_push, List.append_assoc, List.cons_append, List.nil_append]
    · rw [← h2]
      show allPoints.go d ((f + (m + 1)) + 1) _ _ _ _ = _
      conv => lhs; unfold allPoints.go
      simp only [if_true]
      have h0 : ¬ ((dim - 1 - s : Nat) : Int) - 1 < 0 := by omega
      have h3 : ((dim - 1 - s : Nat) : Int) - 1 = ((dim - 1 - (s + 1) : Nat) : Int) := by omega
      rw [if_neg h0, hX1, h3]

/-- one downward column pair: starting in row `s` with `m+1` rows to go -/
theorem go_down (d : Int) (dim X : Nat) (hd : d = dim) (hX : 1 ≤ X) (m : Nat) :
    ∀ (s f : Nat) (acc : Array (Int × Int)), s + (m + 1) = dim →
    ∃ acc' : Array (Int × Int),
      acc'.toList = acc.toList ++ (List.range' s (m + 1)).flatMap (rowPts X (fun t => t)) ∧
      allPoints.go d (f + (m + 1)) X (s : Int) false acc =
        if nextX X < 0 then acc' else allPoints.go d f (nextX X) (d - 1) true acc' := by
  have hX1 : (X : Int) - 1 = ((X - 1 : Nat) : Int) := by omega
  induction m with
  | zero =>
    intro s f acc hs
    refine ⟨(acc.push ((X : Int), (s : Int))).push (((X - 1 : Nat) : Int), (s : Int)), ?_, ?_⟩
    · simp [List.range', rowPts]
    · show allPoints.go d (f + 1) _ _ _ _ = _
      conv => lhs; unfold allPoints.go
      simp only [Bool.false_eq_true, if_false]
      have h0 : (s : Int) + 1 ≥ d := by omega
      rw [if_pos h0, hX1]
      unfold nextX
      rfl
  | succ m ih =>
    intro s f acc hs
    obtain ⟨acc', h1, h2⟩ := ih (s + 1) f
      ((acc.push ((X : Int), (s : Int))).push (((X - 1 : Nat) : Int), (s : Int))) (by omega)
    refine ⟨acc', ?_, ?_⟩
    · rw [h1, @List.range'_succ s (m + 1) 1, List.flatMap_cons]
      simp only [rowPts, Array.toList_push, List.append_assoc, List.cons_append, List.nil_append]
    · rw [← h2]
      show allPoints.go d ((f + (m + 1)) + 1) _ _ _ _ = _
      conv => lhs; unfold allPoints.go
      simp only [Bool.false_eq_true, if_false]
      have h0 : ¬ (s : Int) + 1 ≥ d := by omega
      rw [if_neg h0, hX1]
      rfl

/-- the points of column pair `k`, as integers -/
def pairPts (dim k : Nat) : List (Int × Int) :=
  (List.range dim).flatMap (rowPts (walkCol dim k) (walkRow dim k))

/-- the columns of the walk are at least 1 -/
theorem walkCol_pos (v dim k : Nat) (hdim : dim = 17 + 4 * v) (hk : k < (dim - 1) / 2) : 1 ≤ walkCol dim k := by
  unfold walkCol; split <;> omega

/-- case analysis of `walkCol` -/
theorem walkCol_spec (dim k : Nat) :
    (dim - 1 - 2 * k > 6 ∧ walkCol dim k = dim - 1 - 2 * k) ∨
    (dim - 1 - 2 * k ≤ 6 ∧ walkCol dim k = dim - 2 - 2 * k) := by
  unfold walkCol; split <;> omega

/-- the loop's column update leads from `walkCol dim k` to `walkCol dim (k+1)` … -/
theorem nextX_walkCol (v dim k : Nat) (hdim : dim = 17 + 4 * v) (hk : k + 1 < (dim - 1) / 2) :
    nextX (walkCol dim k : Int) = (walkCol dim (k + 1) : Int) ∧ ¬ nextX (walkCol dim k : Int) < 0 := by
  have h1 := walkCol_spec dim k
  have h2 := walkCol_spec dim (k + 1)
  generalize walkCol dim k = a at *
  generalize walkCol dim (k + 1) = b at *
  unfold nextX
  by_cases h6 : (a : Int) - 2 = 6
  · have : (((a : Int) - 2 == 6) = true) := by simp [h6]
    rw [if_pos this]; omega
  · have : ¬ (((a : Int) - 2 == 6) = true) := by simp [h6]
    rw [if_neg this]; omega

/-- … and below zero after the last column pair (column 1) -/
theorem nextX_walkCol_last (v dim k : Nat) (hdim : dim = 17 + 4 * v) (hk : k + 1 = (dim - 1) / 2) :
    nextX (walkCol dim k : Int) < 0 := by
  have h1 : walkCol dim k = 1 := by unfold walkCol; split <;> omega
  rw [h1]; decide

/-- the main loop invariant: with `n+1` column pairs to go (from pair `k`, in the direction and start row of
    pair `k`) and at least `(n+1)*dim` units of fuel, the loop appends exactly the remaining pairs -/
theorem go_pairs (v dim : Nat) (hdim : dim = 17 + 4 * v) (n : Nat) :
    ∀ (k f : Nat) (acc : Array (Int × Int)), k + (n + 1) = (dim - 1) / 2 →
    (allPoints.go (dim : Int) (f + (n + 1) * dim) (walkCol dim k : Int) ((walkRow dim k 0 : Nat) : Int)
        (k % 2 == 0) acc).toList =
      acc.toList ++ (List.range' k (n + 1)).flatMap (pairPts dim) := by
  have hdp : dim = (dim - 1) + 1 := by omega
  -- one column pair, in either direction
  have hcol : ∀ (k f : Nat) (acc : Array (Int × Int)), k < (dim - 1) / 2 →
      ∃ acc' : Array (Int × Int), acc'.toList = acc.toList ++ pairPts dim k ∧
        allPoints.go (dim : Int) (f + dim) (walkCol dim k : Int) ((walkRow dim k 0 : Nat) : Int) (k % 2 == 0) acc =
          if nextX (walkCol dim k : Int) < 0 then acc'
          else allPoints.go (dim : Int) f (nextX (walkCol dim k : Int)) ((walkRow dim (k + 1) 0 : Nat) : Int)
            ((k + 1) % 2 == 0) acc' := by
    intro k f acc hk
    have hX := walkCol_pos v dim k hdim hk
    by_cases hpar : k % 2 = 0
    · have e1 : (k % 2 == 0) = true := by simp [hpar]
      have e2 : ((k + 1) % 2 == 0) = false := by
        have : (k + 1) % 2 = 1 := by omega
        simp [this]
      have e3 : walkRow dim k = fun t => dim - 1 - t := by funext t; simp [walkRow, e1]
      have e4 : walkRow dim (k + 1) 0 = 0 := by simp [walkRow, e2]
      obtain ⟨acc', h1, h2⟩ := go_up (dim : Int) dim (walkCol dim k) hX (dim - 1) 0 f acc (by omega)
      refine ⟨acc', ?_, ?_⟩
      · rw [h1, pairPts, e3, List.range_eq_range', ← hdp]
      · rw [e1, e2, e3, e4]
        rw [← hdp] at h2
        exact h2
    · have e1 : (k % 2 == 0) = false := by simp [hpar]
      have e2 : ((k + 1) % 2 == 0) = true := by
        have : (k + 1) % 2 = 0 := by omega
        simp [this]
      have e3 : walkRow dim k = fun t => t := by funext t; simp [walkRow, e1]
      have e4 : ((walkRow dim (k + 1) 0 : Nat) : Int) = (dim : Int) - 1 := by simp [walkRow, e2]; omega
      obtain ⟨acc', h1, h2⟩ := go_down (dim : Int) dim (walkCol dim k) rfl hX (dim - 1) 0 f acc (by omega)
      refine ⟨acc', ?_, ?_⟩
      · rw [h1, pairPts, e3, List.range_eq_range', ← hdp]
      · rw [e1, e2, e3, e4]
        rw [← hdp] at h2
        exact h2
  induction n with
  | zero =>
    intro k f acc hk
    obtain ⟨acc', h1, h2⟩ := hcol k f acc (by omega)
    rw [show f + (0 + 1) * dim = f + dim by omega, h2, if_pos (nextX_walkCol_last v dim k hdim hk), h1]
    simp [List.range']
  | succ n ih =>
    intro k f acc hk
    obtain ⟨acc', h1, h2⟩ := hcol k (f + (n + 1) * dim) acc (by omega)
    have hn := nextX_walkCol v dim k hdim (by omega)
    have hf : f + (n + 1 + 1) * dim = f + (n + 1) * dim + dim := by
      rw [Nat.succ_mul (n + 1) dim]; omega
    rw [hf, h2, if_neg hn.2, hn.1, ih (k + 1) f acc' (by omega), h1, @List.range'_succ k (n + 1) 1,
      List.flatMap_cons, List.append_assoc]

/-- W1: for the side length of any version, the Go placement loop (`allPoints`, with its fuel) produces exactly
    the closed-form walk: column pairs dim-1, dim-3, …, 8, 5, 3, 1, alternately upwards and downwards, right
    module before left -/
theorem allPoints_eq_walk (v : Nat) (hv : 1 ≤ v) :
    (Model.Qr.allPoints (17 + 4 * v)).toList =
      (walk (17 + 4 * v)).map (fun p => ((p.1 : Int), (p.2 : Int))) := by
  generalize hdim : 17 + 4 * v = dim
  have hdim := hdim.symm
  unfold allPoints
  simp only
  have hK : (dim - 1) / 2 * dim ≤ dim * dim := Nat.mul_le_mul_right dim (by omega)
  obtain ⟨n, hn⟩ : ∃ n, (dim - 1) / 2 = 0 + (n + 1) := ⟨(dim - 1) / 2 - 1, by omega⟩
  have hfuel : dim * dim + 1 = (dim * dim + 1 - (n + 1) * dim) + (n + 1) * dim := by
    rw [hn, Nat.zero_add] at hK; omega
  have hX : ((dim : Nat) : Int) - 1 = ((walkCol dim 0 : Nat) : Int) := by
    unfold walkCol; split <;> omega
  have hY : ((dim : Nat) : Int) - 1 = ((walkRow dim 0 0 : Nat) : Int) := by
    simp [walkRow]; omega
  have hup : true = (0 % 2 == 0) := by decide
  have key : ∀ acc, allPoints.go (dim : Int) (dim * dim + 1) ((dim : Int) - 1) ((dim : Int) - 1) true acc =
      allPoints.go (dim : Int) ((dim * dim + 1 - (n + 1) * dim) + (n + 1) * dim) (walkCol dim 0 : Int)
        ((walkRow dim 0 0 : Nat) : Int) (0 % 2 == 0) acc := by
    intro acc; rw [← hX, ← hY, ← hfuel, ← hup]
  have hn' : (dim - 1) / 2 = n + 1 := by omega
  rw [key, go_pairs v dim hdim n 0 _ _ hn.symm, ← hn', ← List.range_eq_range']
  simp only [Array.mkEmpty_eq, List.nil_append, walk, List.map_flatMap, List.map_cons, List.map_nil]
  rfl

/-! ### W2–W4: the walk is a repetition-free enumeration of all modules outside column 6 -/

/-- membership in the walk: some column pair `k`, some step `t`, right or left module -/
theorem mem_walk (dim X Y : Nat) :
    (X, Y) ∈ walk dim ↔ ∃ k, k < (dim - 1) / 2 ∧ ∃ t, t < dim ∧
      (X = walkCol dim k ∨ X = walkCol dim k - 1) ∧ Y = walkRow dim k t := by
  unfold walk
  simp only [List.mem_flatMap, List.mem_range, List.mem_cons, List.not_mem_nil, or_false, Prod.mk.injEq]
  constructor
  · rintro ⟨k, hk, t, ht, h⟩
    exact ⟨k, hk, t, ht, by omega, by omega⟩
  · rintro ⟨k, hk, t, ht, h1, h2⟩
    exact ⟨k, hk, t, ht, by omega⟩

/-- case analysis of `walkRow` -/
theorem walkRow_spec (dim k t : Nat) :
    (k % 2 = 0 ∧ walkRow dim k t = dim - 1 - t) ∨ (k % 2 = 1 ∧ walkRow dim k t = t) := by
  unfold walkRow
  by_cases h : k % 2 = 0
  · left; simp [h]
  · right; have : k % 2 = 1 := by omega
    simp [this]

/-- W2: every point of the walk lies inside the symbol -/
theorem walk_range (v : Nat) (hv : 1 ≤ v) :
    ∀ p ∈ walk (17 + 4 * v), p.1 < 17 + 4 * v ∧ p.2 < 17 + 4 * v := by
  rintro ⟨X, Y⟩ hp
  obtain ⟨k, hk, t, ht, hX, hY⟩ := (mem_walk _ X Y).mp hp
  have h1 := walkCol_spec (17 + 4 * v) k
  have h2 := walkRow_spec (17 + 4 * v) k t
  simp only
  omega

/-- W2: the walk never visits the vertical timing column 6 -/
theorem walk_ne_six (v : Nat) (hv : 1 ≤ v) : ∀ p ∈ walk (17 + 4 * v), p.1 ≠ 6 := by
  have _ := hv
  rintro ⟨X, Y⟩ hp
  obtain ⟨k, hk, t, ht, hX, hY⟩ := (mem_walk _ X Y).mp hp
  have h1 := walkCol_spec (17 + 4 * v) k
  simp only
  omega

/-- W4: every module of the symbol outside column 6 is visited by the walk -/
theorem walk_complete (v : Nat) (hv : 1 ≤ v) :
    ∀ X Y, X < 17 + 4 * v → Y < 17 + 4 * v → X ≠ 6 → (X, Y) ∈ walk (17 + 4 * v) := by
  intro X Y hX hY h6
  have _ := hv
  rw [mem_walk]
  generalize hdim : 17 + 4 * v = dim at *
  have key : ∀ k, k < (dim - 1) / 2 → (X = walkCol dim k ∨ X = walkCol dim k - 1) →
      ∃ k, k < (dim - 1) / 2 ∧ ∃ t, t < dim ∧ (X = walkCol dim k ∨ X = walkCol dim k - 1) ∧ Y = walkRow dim k t := by
    intro k hk hx
    by_cases hp : k % 2 = 0
    · refine ⟨k, hk, dim - 1 - Y, by omega, hx, ?_⟩
      have := walkRow_spec dim k (dim - 1 - Y); omega
    · refine ⟨k, hk, Y, hY, hx, ?_⟩
      have := walkRow_spec dim k Y; omega
  by_cases hgt : X > 6
  · have h1 := walkCol_spec dim ((dim - 1 - X) / 2)
    exact key ((dim - 1 - X) / 2) (by omega) (by omega)
  · have h1 := walkCol_spec dim ((dim - 2 - X) / 2)
    exact key ((dim - 2 - X) / 2) (by omega) (by omega)

/-- W3: no module is visited twice -/
theorem walk_nodup (v : Nat) (hv : 1 ≤ v) : (walk (17 + 4 * v)).Nodup := by
  have _ := hv
  generalize hdim : 17 + 4 * v = dim
  unfold walk List.Nodup
  rw [List.pairwise_flatMap]
  constructor
  · intro k hk
    rw [List.mem_range] at hk
    have hc := walkCol_spec dim k
    rw [List.pairwise_flatMap]
    constructor
    · intro t _
      simp only [List.pairwise_cons, List.mem_cons, List.not_mem_nil, or_false, forall_eq, ne_eq, Prod.mk.injEq,
        List.Pairwise.nil, and_true, false_imp_iff, implies_true]
      omega
    · refine List.Pairwise.imp_of_mem ?_ (List.nodup_range (n := dim))
      intro a b ha hb hab
      rw [List.mem_range] at ha hb
      have h1 := walkRow_spec dim k a
      have h2 := walkRow_spec dim k b
      simp only [List.mem_cons, List.not_mem_nil, or_false, ne_eq]
      rintro x (rfl | rfl) y (rfl | rfl) <;> simp only [Prod.mk.injEq, not_and] <;> omega
  · refine List.Pairwise.imp_of_mem ?_ (List.nodup_range (n := (dim - 1) / 2))
    intro a b ha hb hab
    rw [List.mem_range] at ha hb
    have h1 := walkCol_spec dim a
    have h2 := walkCol_spec dim b
    simp only [List.mem_flatMap, List.mem_range, List.mem_cons, List.not_mem_nil, or_false, ne_eq]
    rintro x ⟨t, _, (rfl | rfl)⟩ y ⟨t', _, (rfl | rfl)⟩ <;> simp only [Prod.mk.injEq, not_and] <;> omega

/-! ### W5: the model's `iterateModules` -/

/-- filtering with an `if … then some … else none` is `filter` -/
theorem filterMap_ite_eq_filter {α : Type} (p : α → Bool) (l : List α) :
    l.filterMap (fun a => if p a = true then some a else none) = l.filter p := by
  induction l with
  | nil => rfl
  | cons a l ih =>
    rw [List.filterMap_cons, List.filter_cons, ih]
    by_cases h : p a = true
    · rw [if_pos h, if_pos h]
    · rw [if_neg h, if_neg h]

/-- W5: the free modules in placement order, as the model's data loop receives them, are the points of the
    closed-form walk that are not occupied -/
theorem iterateModules_eq (occ : Model.Qr.QRCode) (v : Nat) (hv : 1 ≤ v) (hd : occ.dimension = 17 + 4 * v) :
    (Model.Qr.iterateModules occ).toList = (walk (17 + 4 * v)).filter (fun p => !occ.get p.1 p.2) := by
  unfold iterateModules
  rw [Array.toList_filterMap, hd, allPoints_eq_walk v hv, List.filterMap_map,
    ← filterMap_ite_eq_filter]
  rfl

/-! ### W6: the reference decoder's `readDataBits` -/

/-- a left fold of conditional pushes (two candidates per step) is `filter` + `map` over the flattened
    candidate list -/
theorem foldl_push2 {α β : Type} (skip : β → Bool) (val : β → Bool) (c1 c2 : α → β) (l : List α) :
    ∀ out : Array Bool,
    (l.foldl (fun (out : Array Bool) t =>
      let out := if skip (c1 t) then out else out.push (val (c1 t))
      if skip (c2 t) then out else out.push (val (c2 t))) out).toList =
    out.toList ++ ((l.flatMap (fun t => [c1 t, c2 t])).filter (fun p => !skip p)).map val := by
  induction l with
  | nil => intro out; simp
  | cons t l ih =>
    intro out
    rw [List.foldl_cons, ih, List.flatMap_cons]
    by_cases h1 : skip (c1 t) = true <;> by_cases h2 : skip (c2 t) = true <;>
      simp [h1, h2]

/-- W6: the bits that the reference decoder reads are the de-masked modules at the non-function points of the
    closed-form walk, in walk order (for every side length) -/
theorem readDataBits_eq (dim : Nat) (dark : Nat → Nat → Bool) (func : Array Bool) (mask : Nat) :
    (Spec.Qr.readDataBits dim dark func mask).toList =
      ((walk dim).filter (fun p => !func.getD (p.2 * dim + p.1) true)).map
        (fun p => dark p.1 p.2 != Spec.Qr.maskCond mask p.2 p.1) := by
  unfold Spec.Qr.readDataBits walk
  generalize (dim - 1) / 2 = K
  have hin : ∀ (k : Nat) (out : Array Bool),
      ((List.range dim).foldl (fun (out : Array Bool) t =>
        let y := if k % 2 == 0 then dim - 1 - t else t
        let out := if func.getD (y * dim + (if dim - 1 - 2 * k > 6 then dim - 1 - 2 * k else dim - 2 - 2 * k)) true
          then out
          else out.push (dark (if dim - 1 - 2 * k > 6 then dim - 1 - 2 * k else dim - 2 - 2 * k) y !=
            Spec.Qr.maskCond mask y (if dim - 1 - 2 * k > 6 then dim - 1 - 2 * k else dim - 2 - 2 * k))
        let xl := (if dim - 1 - 2 * k > 6 then dim - 1 - 2 * k else dim - 2 - 2 * k) - 1
        if func.getD (y * dim + xl) true then out
        else out.push (dark xl y != Spec.Qr.maskCond mask y xl)) out).toList =
      out.toList ++ (((List.range dim).flatMap (fun t =>
          [(walkCol dim k, walkRow dim k t), (walkCol dim k - 1, walkRow dim k t)])).filter
          (fun p => !func.getD (p.2 * dim + p.1) true)).map
        (fun p => dark p.1 p.2 != Spec.Qr.maskCond mask p.2 p.1) := by
    intro k out
    exact foldl_push2 (fun p : Nat × Nat => func.getD (p.2 * dim + p.1) true)
      (fun p => dark p.1 p.2 != Spec.Qr.maskCond mask p.2 p.1)
      (fun t => (walkCol dim k, walkRow dim k t)) (fun t => (walkCol dim k - 1, walkRow dim k t))
      (List.range dim) out
  have hout : ∀ (l : List Nat) (out : Array Bool),
      (l.foldl (fun (out : Array Bool) k =>
        let xr := if dim - 1 - 2 * k > 6 then dim - 1 - 2 * k else dim - 2 - 2 * k
        (List.range dim).foldl (fun (out : Array Bool) t =>
          let y := if k % 2 == 0 then dim - 1 - t else t
          let out := if func.getD (y * dim + xr) true then out else out.push (dark xr y != Spec.Qr.maskCond mask y xr)
          let xl := xr - 1
          if func.getD (y * dim + xl) true then out else out.push (dark xl y != Spec.Qr.maskCond mask y xl)) out)
        out).toList =
      out.toList ++ ((l.flatMap (fun k => (List.range dim).flatMap (fun t =>
          [(walkCol dim k, walkRow dim k t), (walkCol dim k - 1, walkRow dim k t)]))).filter
          (fun p => !func.getD (p.2 * dim + p.1) true)).map
        (fun p => dark p.1 p.2 != Spec.Qr.maskCond mask p.2 p.1) := by
    intro l
    induction l with
    | nil => intro out; simp
    | cons k l ih =>
      intro out
      rw [List.foldl_cons, ih]
      simp only
      rw [hin k out, List.flatMap_cons, List.filter_append, List.map_append, List.append_assoc]
  rw [hout]
  simp

/-! ### W7: the model's data masks are the standard's -/

/-- W7: `setMasked` writes the value XOR the mask condition of Table 10 (row `y`, column `x`) -/
theorem setMasked_eq (x y : Nat) (val : Bool) (mask : Nat) (hm : mask < 8) {σ}
    (set : Nat → Nat → Bool → σ → σ) :
    Model.Qr.setMasked x y val mask set = set x y (val != Spec.Qr.maskCond mask y x) := by
  match mask, hm with
  | 0, _ => rfl
  | 1, _ => rfl
  | 2, _ => rfl
  | 3, _ => rfl
  | 4, _ => rfl
  | 5, _ => rfl
  | 6, _ => rfl
  | 7, _ => rfl
  | n + 8, h => omega

end BV.Proofs.QrMatrix
