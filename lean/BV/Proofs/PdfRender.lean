/-
  BV.Proofs.PdfRender — the picture of an accepted PDF417 symbol, read back row by row (C04 / C13): the module
  sequence `renderBarcode` produces in list form, the pixel lines of `symbolOf`, and the fact that the Spec's
  row reader `decodeRow` returns, on both pixel lines of every row, the left indicator, the data codewords of
  that row of the grid and the right indicator.
-/
import BV.Proofs.PdfAccept
namespace BV.Proofs.PdfRender
open BV BV.Model.Pdf417 BV.Gen.Pdf417 BV.Spec.Pdf417 BV.Proofs.PdfAccept BV.Proofs.PdfFrame

/-! ### `renderBarcode` in list form -/

/-- the modules the inner loop of `renderBarcode` appends for the words `l`, the first of which has index `i`:
    18 modules for the word with index `lastIdx`, 17 for every other word -/
def goBits (lastIdx : Nat) : List Nat → Nat → List Bool
  | [], _ => []
  | col :: rest, i => msbBits col (if i == lastIdx then 18 else 17) ++ goBits lastIdx rest (i + 1)

/-- the inner loop of `renderBarcode` appends `goBits` -/
theorem render_go_eq (lastIdx : Nat) : ∀ (l : List Nat) (i : Nat) (bl : Array Bool),
    renderBarcode.go lastIdx l i bl = bl ++ (goBits lastIdx l i).toArray := by
  intro l
  induction l with
  | nil => intro i bl; simp [renderBarcode.go, goBits]
  | cons col rest ih =>
    intro i bl
    rw [renderBarcode.go, ih, goBits]
    simp [Array.append_assoc]

/-- the modules of one row of words: 17 per word, 18 for the last word -/
def rowBits (row : List Nat) : List Bool := goBits (row.length - 1) row 0

theorem render_foldl : ∀ (codes : List (List Nat)) (bl : Array Bool),
    codes.foldl (fun bl row => renderBarcode.go (row.length - 1) row 0 bl) bl =
      bl ++ (codes.flatMap rowBits).toArray := by
  intro codes
  induction codes with
  | nil => intro bl; simp
  | cons row rest ih =>
    intro bl
    rw [List.foldl_cons, ih, render_go_eq, List.flatMap_cons]
    simp [rowBits, Array.append_assoc]

/-- `renderBarcode` is the concatenation of the modules of all rows -/
theorem renderBarcode_eq (codes : List (List Nat)) :
    renderBarcode codes = ((codes.map rowBits).flatten).toArray := by
  unfold renderBarcode
  rw [render_foldl]
  simp [List.flatMap_def]

/-- before the last word every word contributes 17 modules -/
theorem goBits_short (lastIdx : Nat) : ∀ (l : List Nat) (i : Nat), i + l.length ≤ lastIdx →
    goBits lastIdx l i = l.flatMap (fun w => msbBits w 17) := by
  intro l
  induction l with
  | nil => intro i _; rfl
  | cons col rest ih =>
    intro i h
    simp only [List.length_cons] at h
    have hne : (i == lastIdx) = false := by simp; omega
    rw [goBits, hne, ih (i + 1) (by omega), List.flatMap_cons]
    rfl

/-- a row of words ending in the word with index `lastIdx` -/
theorem goBits_snoc (lastIdx : Nat) : ∀ (l : List Nat) (x : Nat) (i : Nat), i + l.length = lastIdx →
    goBits lastIdx (l ++ [x]) i = l.flatMap (fun w => msbBits w 17) ++ msbBits x 18 := by
  intro l
  induction l with
  | nil =>
    intro x i h
    simp only [List.length_nil, Nat.add_zero] at h
    subst h
    simp [goBits]
  | cons col rest ih =>
    intro x i h
    simp only [List.length_cons] at h
    have hne : (i == lastIdx) = false := by simp; omega
    rw [List.cons_append, goBits, hne, ih x (i + 1) (by omega), List.flatMap_cons]
    simp

/-- the modules of a non-empty row of words -/
theorem rowBits_snoc (l : List Nat) (x : Nat) :
    rowBits (l ++ [x]) = l.flatMap (fun w => msbBits w 17) ++ msbBits x 18 := by
  unfold rowBits
  rw [goBits_snoc _ l x 0 (by simp)]

/-! ### reading a flat module array in lines -/

/-- a window of an array read module by module is `drop`/`take` of the list -/
theorem window_eq (l : List Bool) (k W : Nat) (h : k + W ≤ l.length) :
    (List.range W).map (fun x => l.toArray.getD (k + x) false) = (l.drop k).take W := by
  apply List.ext_getElem
  · simp; omega
  · intro i h1 h2
    simp only [List.length_map, List.length_range] at h1
    simp only [List.getElem_map, List.getElem_range, List.getElem_take, List.getElem_drop]
    rw [Array.getD_eq_getD_getElem?, List.getElem?_toArray, List.getElem?_eq_getElem (by omega)]
    rfl

/-- blocks of equal length: total length -/
theorem flatten_length_of_const (W : Nat) : ∀ (blocks : List (List Bool)), (∀ b ∈ blocks, b.length = W) →
    blocks.flatten.length = blocks.length * W := by
  intro blocks
  induction blocks with
  | nil => intro _; simp
  | cons b rest ih =>
    intro h
    rw [List.flatten_cons, List.length_append, ih (fun x hx => h x (List.mem_cons_of_mem _ hx)),
      h b List.mem_cons_self, List.length_cons, Nat.succ_mul]
    omega

/-- blocks of equal length `W`: the `r`-th window of width `W` of the concatenation is the `r`-th block -/
theorem flatten_window (W : Nat) : ∀ (blocks : List (List Bool)) (r : Nat), (∀ b ∈ blocks, b.length = W) →
    r < blocks.length → (blocks.flatten.drop (r * W)).take W = blocks.getD r [] := by
  intro blocks
  induction blocks with
  | nil => intro r _ hr; simp at hr
  | cons b rest ih =>
    intro r h hr
    have hb := h b List.mem_cons_self
    cases r with
    | zero =>
      simp only [Nat.zero_mul, List.drop_zero, List.flatten_cons, List.getD_cons_zero]
      rw [List.take_append_of_le_length (by omega), List.take_of_length_le (by omega)]
    | succ r =>
      simp only [List.length_cons] at hr
      rw [List.flatten_cons, List.getD_cons_succ, ← ih r (fun x hx => h x (List.mem_cons_of_mem _ hx)) (by omega),
        Nat.succ_mul, Nat.add_comm (r * W) W, ← List.drop_drop]
      have hd : (b ++ rest.flatten).drop W = rest.flatten := by rw [← hb]; exact List.drop_left
      rw [hd]

/-! ### the module lines of the accepted symbol -/

/-- the codewords the reader has to find in row `r`: left indicator, data, right indicator -/
def rowWords (rows cols lvl r : Nat) (row : List Nat) : List Nat :=
  getLeftCodeWord r rows cols lvl :: (row ++ [getRightCodeWord r rows cols lvl])

/-- the module line of row `r`: start pattern, the symbol characters of `rowWords`, stop pattern -/
def lineOf (rows cols lvl r : Nat) (row : List Nat) : List Bool :=
  msbBits c_start_word 17 ++ (rowWords rows cols lvl r row).flatMap (fun w => msbBits (pat (r % 3) w) 17) ++
    msbBits c_stop_word 18

theorem rowCodeList_eq (rows cols lvl r : Nat) (row : List Nat) :
    rowCodeList rows cols lvl r row =
      (c_start_word :: (rowWords rows cols lvl r row).map (pat (r % 3))) ++ [c_stop_word] := by
  simp [rowCodeList, rowWords]

/-- the modules `renderBarcode` draws for row `r` -/
theorem rowBits_rowCodeList (rows cols lvl r : Nat) (row : List Nat) :
    rowBits (rowCodeList rows cols lvl r row) = lineOf rows cols lvl r row := by
  rw [rowCodeList_eq, rowBits_snoc, List.flatMap_cons, List.flatMap_map, lineOf]

/-- symbol characters of 17 modules each: total length -/
theorem flatMap_length17 (g : Nat → List Bool) (hg : ∀ w, (g w).length = 17) : ∀ (ws : List Nat),
    (ws.flatMap g).length = 17 * ws.length := by
  intro ws
  induction ws with
  | nil => rfl
  | cons w rest ih => rw [List.flatMap_cons, List.length_append, ih, hg, List.length_cons]; omega

/-- a row of `cols` data codewords is drawn with `17·(cols+4)+1` modules -/
theorem lineOf_length (rows cols lvl r : Nat) (row : List Nat) (h : row.length = cols) :
    (lineOf rows cols lvl r row).length = 17 * (cols + 4) + 1 := by
  rw [lineOf, List.length_append, List.length_append, msbBits_length, msbBits_length,
    flatMap_length17 _ (fun w => msbBits_length _ _)]
  simp only [rowWords, List.length_cons, List.length_append, List.length_nil, h]
  omega

/-- the module lines of the rows from row number `r` on -/
theorem codesFrom_lines (rows cols lvl : Nat) : ∀ (grid : List (List Nat)) (r0 : Nat),
    (codesFrom rows cols lvl r0 grid).map rowBits =
      (List.range grid.length).map (fun r => lineOf rows cols lvl (r0 + r) (grid.getD r [])) := by
  intro grid
  induction grid with
  | nil => intro r0; rfl
  | cons row rest ih =>
    intro r0
    rw [codesFrom, List.map_cons, ih, rowBits_rowCodeList, List.length_cons, List.range_succ_eq_map,
      List.map_cons, List.map_map]
    congr 1
    apply List.map_congr_left
    intro r _
    simp only [Function.comp, List.getD_cons_succ]
    rw [Nat.add_assoc, Nat.add_comm 1 r]

/-! ### reading one module line -/

/-- in a run of 17-module characters the `k`-th window of 17 modules is the `k`-th character -/
theorem flatMap_window (g : Nat → List Bool) (hg : ∀ w, (g w).length = 17) : ∀ (ws : List Nat) (k : Nat)
    (post : List Bool) (h : k < ws.length), ((ws.flatMap g ++ post).drop (17 * k)).take 17 = g ws[k] := by
  intro ws
  induction ws with
  | nil => intro k post h; simp at h
  | cons w rest ih =>
    intro k post h
    cases k with
    | zero =>
      simp only [Nat.mul_zero, List.drop_zero, List.flatMap_cons, List.append_assoc, List.getElem_cons_zero]
      rw [List.take_append_of_le_length (by rw [hg]), List.take_of_length_le (by rw [hg])]
    | succ k =>
      simp only [List.length_cons] at h
      have hd : ((g w ++ rest.flatMap g) ++ post).drop 17 = rest.flatMap g ++ post := by
        rw [List.append_assoc, ← hg w]; exact List.drop_left
      rw [List.flatMap_cons, Nat.mul_succ, Nat.add_comm (17 * k) 17, ← List.drop_drop, hd, List.getElem_cons_succ]
      exact ih k post (by omega)

/-- a loop over a list in `Except` all of whose steps succeed -/
theorem mapM_ok {α β : Type} (f : α → Except String β) (g : α → β) : ∀ (l : List α), (∀ k ∈ l, f k = .ok (g k)) →
    l.mapM f = .ok (l.map g) := by
  intro l
  induction l with
  | nil => intro _; rfl
  | cons a rest ih =>
    intro h
    rw [List.mapM_cons, h a List.mem_cons_self, ih (fun x hx => h x (List.mem_cons_of_mem _ hx))]
    rfl

/-- reading a list by index gives the list -/
theorem range_map_getD (ws : List Nat) : (List.range ws.length).map (fun k => ws.getD k 0) = ws := by
  apply List.ext_getElem
  · simp
  · intro i h1 h2
    simp [List.getD_eq_getElem?_getD, List.getElem?_eq_getElem h2]

/-- the Spec's row reader, applied to the module line of row `r`, returns the left indicator, the data
    codewords and the right indicator of that row -/
theorem decodeRow_lineOf (rows cols lvl r : Nat) (row : List Nat) (hlen : row.length = cols)
    (hr : r < rows) (hrows : rows ≤ 30) (hcols : 1 ≤ cols ∧ cols ≤ 30) (hl : lvl ≤ 8) (hrow : ∀ w ∈ row, w < 929) :
    decodeRow cols r (lineOf rows cols lvl r row) = .ok (rowWords rows cols lvl r row) := by
  have hci : r % 3 < 3 := Nat.mod_lt _ (by omega)
  obtain ⟨hL, hR⟩ := indicators_lt r rows cols lvl hr hrows hcols hl
  have hws : ∀ w ∈ rowWords rows cols lvl r row, w < 929 := by
    intro w hw
    simp only [rowWords, List.mem_cons, List.mem_append, List.not_mem_nil, or_false] at hw
    rcases hw with rfl | hw | rfl
    · exact hL
    · exact hrow w hw
    · exact hR
  have hwl : (rowWords rows cols lvl r row).length = cols + 2 := by simp [rowWords, hlen]
  generalize hwsdef : rowWords rows cols lvl r row = ws at *
  have hg : ∀ w, (msbBits (pat (r % 3) w) 17).length = 17 := fun w => msbBits_length _ _
  have hflen := flatMap_length17 _ hg ws
  have hstart : (lineOf rows cols lvl r row).take 17 = startPattern := by
    rw [lineOf, hwsdef, List.append_assoc, List.take_append_of_le_length (by rw [msbBits_length]),
      List.take_of_length_le (by rw [msbBits_length]), start_word]
  have hstop : (lineOf rows cols lvl r row).drop (17 * (cols + 3)) = stopPattern := by
    have : 17 * (cols + 3) =
        (msbBits c_start_word 17 ++ ws.flatMap (fun w => msbBits (pat (r % 3) w) 17)).length := by
      rw [List.length_append, msbBits_length, hflen, hwl]; omega
    rw [lineOf, hwsdef, this, List.drop_left, stop_word]
  have hseg : ∀ k, k < cols + 2 →
      symbolValue (r % 3) (((lineOf rows cols lvl r row).drop (17 * (k + 1))).take 17) = .ok (ws.getD k 0) := by
    intro k hk
    have hk' : k < ws.length := by omega
    have hd : (lineOf rows cols lvl r row).drop (17 * (k + 1)) =
        (ws.flatMap (fun w => msbBits (pat (r % 3) w) 17) ++ msbBits c_stop_word 18).drop (17 * k) := by
      have e : (msbBits c_start_word 17).length = 17 := msbBits_length _ _
      rw [lineOf, hwsdef, List.append_assoc, Nat.mul_succ, Nat.add_comm (17 * k) 17, ← List.drop_drop]
      rw [List.drop_left' e]
    rw [hd, flatMap_window _ hg ws k _ hk', List.getD_eq_getElem?_getD, List.getElem?_eq_getElem hk']
    exact (symbolValue_pat (r % 3) ws[k] hci (hws _ (List.getElem_mem hk'))).2
  unfold decodeRow
  simp only []
  rw [if_neg (by rw [hstart]; simp), if_neg (by rw [hstop]; simp),
    mapM_ok _ (fun k => ws.getD k 0) _ (fun k hk => hseg k (List.mem_range.mp hk)), ← hwl, range_map_getD]

/-! ### the accepted symbol -/

/-- geometry of the accepted symbol and its pixel lines: width `17·(cols+4)+1`, height `2·rows`, and both
    pixel lines of row `r` are the module line `lineOf` of the `r`-th row of the grid -/
theorem symbol_lines (data : Bytes) (cws : List Nat) (cols rows lvl : Nat) (s : Scheme) (hc : 0 < cols)
    (hlen : (symbolCodewords cws cols lvl).length = rows * cols) :
    (symbolOf data cws cols rows lvl s).w = 17 * (cols + 4) + 1 ∧
    (symbolOf data cws cols rows lvl s).h = 2 * rows ∧
    ∀ r, r < rows → ∀ y, (y = 2 * r ∨ y = 2 * r + 1) →
      (List.range (symbolOf data cws cols rows lvl s).w).map
          (fun x => (symbolOf data cws cols rows lvl s).dark x y) =
        lineOf rows cols lvl r
          ((gridRows ((symbolCodewords cws cols lvl).length + 1) (symbolCodewords cws cols lvl) cols).getD r []) := by
  obtain ⟨g1, g2, _⟩ := gridRows_spec cols hc rows ((symbolCodewords cws cols lvl).length + 1)
    (symbolCodewords cws cols lvl) hlen (by omega)
  generalize hgrid : gridRows ((symbolCodewords cws cols lvl).length + 1) (symbolCodewords cws cols lvl) cols = grid
    at *
  have hW : (cols + 4) * 17 + 1 = 17 * (cols + 4) + 1 := by omega
  have hsym : symbolOf data cws cols rows lvl s =
      mkBarcode data (17 * (cols + 4) + 1)
        (((List.range grid.length).map (fun r => lineOf rows cols lvl r (grid.getD r []))).flatten).toArray s := by
    unfold symbolOf
    simp only []
    rw [hgrid, renderBarcode_eq, codesFrom_lines, hW]
    simp only [Nat.zero_add]
  generalize hblocks : (List.range grid.length).map (fun r => lineOf rows cols lvl r (grid.getD r [])) = blocks
    at hsym
  have hbl : blocks.length = rows := by rw [← hblocks]; simp [g1]
  have hget : ∀ r, r < rows → blocks.getD r [] = lineOf rows cols lvl r (grid.getD r []) := by
    intro r hr
    rw [← hblocks, List.getD_eq_getElem?_getD, List.getElem?_map, List.getElem?_range (by omega)]
    rfl
  have hall : ∀ b ∈ blocks, b.length = 17 * (cols + 4) + 1 := by
    intro b hb
    rw [← hblocks] at hb
    obtain ⟨r, hr, rfl⟩ := List.mem_map.mp hb
    have hr' : r < grid.length := List.mem_range.mp hr
    apply lineOf_length
    apply g2
    rw [List.getD_eq_getElem?_getD, List.getElem?_eq_getElem hr']
    exact List.getElem_mem hr'
  have hfl := flatten_length_of_const _ blocks hall
  rw [hbl] at hfl
  rw [hsym]
  refine ⟨rfl, ?_, ?_⟩
  · show blocks.flatten.toArray.size / (17 * (cols + 4) + 1) * c_moduleHeight = 2 * rows
    rw [List.size_toArray, hfl, Nat.mul_div_cancel _ (by omega), c_moduleHeight, Nat.mul_comm]
  · intro r hr y hy
    have hy2 : y / c_moduleHeight = r := by rw [c_moduleHeight]; omega
    show (List.range (17 * (cols + 4) + 1)).map
        (fun x => blocks.flatten.toArray.getD (y / c_moduleHeight * (17 * (cols + 4) + 1) + x) false) = _
    rw [hy2, window_eq _ _ _ (by
        rw [hfl]
        have : (r + 1) * (17 * (cols + 4) + 1) ≤ rows * (17 * (cols + 4) + 1) := Nat.mul_le_mul_right _ (by omega)
        rw [Nat.succ_mul] at this
        exact this),
      flatten_window _ blocks r hall (by omega), hget r hr]

/-- the two pixel lines of every row of the accepted symbol are identical (the Spec's "two pixel lines
    identical" test passes) -/
theorem symbol_lines_equal (data : Bytes) (cws : List Nat) (cols rows lvl : Nat) (s : Scheme) (hc : 0 < cols)
    (hlen : (symbolCodewords cws cols lvl).length = rows * cols) (r : Nat) (hr : r < rows) :
    (List.range (symbolOf data cws cols rows lvl s).w).map
        (fun x => (symbolOf data cws cols rows lvl s).dark x (2 * r)) =
      (List.range (symbolOf data cws cols rows lvl s).w).map
        (fun x => (symbolOf data cws cols rows lvl s).dark x (2 * r + 1)) := by
  obtain ⟨_, _, h⟩ := symbol_lines data cws cols rows lvl s hc hlen
  rw [h r hr (2 * r) (Or.inl rfl), h r hr (2 * r + 1) (Or.inr rfl)]

/-- geometry and rows of the accepted symbol: width `17·(cols+4)+1`, height `2·rows`, and the Spec's row
    reader, applied to either pixel line of row `r`, returns the left indicator, the `r`-th row of the
    codeword grid and the right indicator -/
theorem symbol_rows (data : Bytes) (cws : List Nat) (cols rows lvl : Nat) (s : Scheme)
    (hc : 2 ≤ cols ∧ cols ≤ 30) (hr : 2 ≤ rows ∧ rows ≤ 30) (hl : lvl ≤ 8)
    (hlen : (symbolCodewords cws cols lvl).length = rows * cols)
    (hlt : ∀ c ∈ symbolCodewords cws cols lvl, c < 929) :
    (symbolOf data cws cols rows lvl s).w = 17 * (cols + 4) + 1 ∧
    (symbolOf data cws cols rows lvl s).h = 2 * rows ∧
    ∀ r, r < rows → ∀ y, (y = 2 * r ∨ y = 2 * r + 1) →
      decodeRow cols r ((List.range (symbolOf data cws cols rows lvl s).w).map
          (fun x => (symbolOf data cws cols rows lvl s).dark x y)) =
        .ok (getLeftCodeWord r rows cols lvl ::
              ((gridRows ((symbolCodewords cws cols lvl).length + 1) (symbolCodewords cws cols lvl) cols).getD r []
                ++ [getRightCodeWord r rows cols lvl])) := by
  obtain ⟨h1, h2, h3⟩ := symbol_lines data cws cols rows lvl s (by omega) hlen
  refine ⟨h1, h2, ?_⟩
  intro r hrr y hy
  obtain ⟨g1, g2, g3⟩ := gridRows_spec cols (by omega) rows ((symbolCodewords cws cols lvl).length + 1)
    (symbolCodewords cws cols lvl) hlen (by omega)
  rw [h3 r hrr y hy]
  generalize hgrid : gridRows ((symbolCodewords cws cols lvl).length + 1) (symbolCodewords cws cols lvl) cols = grid
    at *
  have hr' : r < grid.length := by omega
  have hmem : grid.getD r [] ∈ grid := by
    rw [List.getD_eq_getElem?_getD, List.getElem?_eq_getElem hr']
    exact List.getElem_mem hr'
  exact decodeRow_lineOf rows cols lvl r (grid.getD r []) (g2 _ hmem) hrr hr.2 ⟨by omega, hc.2⟩ hl
    (fun w hw => hlt w (by rw [← g3]; exact List.mem_flatten.mpr ⟨_, hmem, hw⟩))

/-- the hypotheses of `symbol_rows` are satisfiable: data codewords 1 2 3 at level 0 in 2 columns give the
    six codewords 4 1 2 3 322 687, i.e. 3 rows -/
example : (symbolCodewords [1, 2, 3] 2 0).length = 3 * 2 ∧ ∀ c ∈ symbolCodewords [1, 2, 3] 2 0, c < 929 := by
  decide

end BV.Proofs.PdfRender
