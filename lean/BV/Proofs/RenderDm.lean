/-
  RenderDm — C11 for DataMatrix.  One relational pass over the layout and merge stages: two runs that start
  from layouts with the same bits and the same size `sz` (colours `c`, `c'` arbitrary) fail alike or yield
  results with the same bits, size `sz` and colours `c`, `c'`.  This gives both scheme independence and the
  fact that the size chosen from the table is the size of the symbol.
-/
import BV.Proofs.Render
import BV.Model.Datamatrix
namespace BV.Proofs.RenderDm
open BV BV.Model BV.Model.Datamatrix BV.Proofs.Render

/-! ### relating two results -/

/-- both fail with the same error, or both succeed with related values -/
def Rel {α β} (R : α → β → Prop) : Res α → Res β → Prop
  | .ok a, .ok b => R a b
  | .error e, .error e' => e = e'
  | _, _ => False

theorem Rel.bind {α β γ δ} {R : α → β → Prop} {S : γ → δ → Prop} {x : Res α} {y : Res β}
    {f : α → Res γ} {g : β → Res δ} (h : Rel R x y) (hfg : ∀ a b, R a b → Rel S (f a) (g b)) :
    Rel S (x >>= f) (y >>= g) := by
  cases x <;> cases y <;> simp only [Rel] at h
  · subst h; rfl
  · exact hfg _ _ h

theorem Rel.pure {α β} {R : α → β → Prop} {a : α} {b : β} (h : R a b) :
    Rel R (Pure.pure a : Res α) (Pure.pure b : Res β) := h

theorem Rel.ok {α β} {R : α → β → Prop} {a : α} {b : β} (h : R a b) :
    Rel R (.ok a : Res α) (.ok b : Res β) := h

theorem Rel.error {α β} {R : α → β → Prop} (e : Err) : Rel R (.error e : Res α) (.error e : Res β) := rfl

theorem Rel.refl_eq {α} (x : Res α) : Rel Eq x x := by cases x <;> rfl

theorem Rel.ite {α β} {R : α → β → Prop} {p : Prop} [Decidable p] {a a' : Res α} {b b' : Res β}
    (h1 : p → Rel R a b) (h2 : ¬p → Rel R a' b') : Rel R (if p then a else a') (if p then b else b') := by
  by_cases hp : p
  · rw [if_pos hp, if_pos hp]; exact h1 hp
  · rw [if_neg hp, if_neg hp]; exact h2 hp

theorem Rel.foldlM {α β ι} {R : α → β → Prop} {f : α → ι → Res α} {g : β → ι → Res β}
    (h : ∀ a b i, R a b → Rel R (f a i) (g b i)) : ∀ (l : List ι) (a : α) (b : β), R a b →
    Rel R (l.foldlM f a) (l.foldlM g b) := by
  intro l
  induction l with
  | nil => intro a b hab; exact hab
  | cons i l ih =>
    intro a b hab
    rw [List.foldlM_cons, List.foldlM_cons]
    exact Rel.bind (h a b i hab) ih

/-! ### layouts -/

/-- same bits, both of size `sz`, colours `c` and `c'` -/
structure RL (sz : CodeSize) (c c' : Scheme) (l l' : CodeLayout) : Prop where
  matrix : l'.matrix = l.matrix
  occupy : l'.occupy = l.occupy
  size : l.size = sz
  size' : l'.size = sz
  color : l.color = c
  color' : l'.color = c'

variable {sz : CodeSize} {c c' : Scheme}

theorem set_rel {l l' : CodeLayout} (h : RL sz c c' l l') (row col : Int) (v : UInt8) (b : Nat) :
    Rel (RL sz c c') (l.set row col v b) (l'.set row col v b) := by
  unfold CodeLayout.set CodeLayout.occupied
  simp only [h.size, h.size', h.matrix, h.occupy]
  generalize (if row < 0 then (row + sz.matrixRows, col + (4 - (sz.matrixRows + 4).tmod 8)) else (row, col)) = p
  obtain ⟨r1, c1⟩ := p
  simp only []
  generalize (if c1 < 0 then (r1 + (4 - (sz.matrixColumns + 4).tmod 8), c1 + sz.matrixColumns) else (r1, c1)) = p
  obtain ⟨r2, c2⟩ := p
  simp only []
  refine Rel.bind (Rel.refl_eq _) (fun o o' ho => ?_)
  subst ho
  refine Rel.ite (fun _ => ?_) (fun _ => ?_)
  · exact Rel.error _
  · refine Rel.bind (Rel.refl_eq _) (fun o o' ho => ?_)
    subst ho
    refine Rel.bind (Rel.refl_eq _) (fun m m' hm => ?_)
    subst hm
    exact Rel.pure ⟨rfl, rfl, rfl, rfl, h.color, h.color'⟩

theorem setSimple_rel {l l' : CodeLayout} (h : RL sz c c' l l') (row col : Int) (v : UInt8) :
    Rel (RL sz c c') (l.setSimple row col v) (l'.setSimple row col v) := by
  unfold CodeLayout.setSimple
  iterate 7 refine Rel.bind (set_rel h _ _ _ _) (fun _ _ h => ?_)
  exact set_rel h _ _ _ _

theorem corner1_rel {l l' : CodeLayout} (h : RL sz c c' l l') (v : UInt8) :
    Rel (RL sz c c') (l.corner1 v) (l'.corner1 v) := by
  unfold CodeLayout.corner1
  simp only [h.size, h.size']
  iterate 7 refine Rel.bind (set_rel h _ _ _ _) (fun _ _ h => ?_)
  exact set_rel h _ _ _ _

theorem corner2_rel {l l' : CodeLayout} (h : RL sz c c' l l') (v : UInt8) :
    Rel (RL sz c c') (l.corner2 v) (l'.corner2 v) := by
  unfold CodeLayout.corner2
  simp only [h.size, h.size']
  iterate 7 refine Rel.bind (set_rel h _ _ _ _) (fun _ _ h => ?_)
  exact set_rel h _ _ _ _

theorem corner3_rel {l l' : CodeLayout} (h : RL sz c c' l l') (v : UInt8) :
    Rel (RL sz c c') (l.corner3 v) (l'.corner3 v) := by
  unfold CodeLayout.corner3
  simp only [h.size, h.size']
  iterate 7 refine Rel.bind (set_rel h _ _ _ _) (fun _ _ h => ?_)
  exact set_rel h _ _ _ _

theorem corner4_rel {l l' : CodeLayout} (h : RL sz c c' l l') (v : UInt8) :
    Rel (RL sz c c') (l.corner4 v) (l'.corner4 v) := by
  unfold CodeLayout.corner4
  simp only [h.size, h.size']
  iterate 7 refine Rel.bind (set_rel h _ _ _ _) (fun _ _ h => ?_)
  exact set_rel h _ _ _ _

/-- layout and next data index -/
def RP (sz : CodeSize) (c c' : Scheme) (p p' : CodeLayout × Nat) : Prop := RL sz c c' p.1 p'.1 ∧ p.2 = p'.2

/-- the loop state of `SetValues` -/
def RS (sz : CodeSize) (c c' : Scheme) (p p' : SVState) : Prop := RL sz c c' p.1 p'.1 ∧ p.2 = p'.2

theorem withNext_rel (data : Array UInt8) {l l' : CodeLayout} (h : RL sz c c' l l') (idx : Nat)
    (f : CodeLayout → UInt8 → Res CodeLayout)
    (hf : ∀ l l' d, RL sz c c' l l' → Rel (RL sz c c') (f l d) (f l' d)) :
    Rel (RP sz c c') (withNext data l idx f) (withNext data l' idx f) := by
  unfold withNext
  refine Rel.bind (Rel.refl_eq _) (fun d d' hd => ?_)
  subst hd
  refine Rel.bind (hf _ _ _ h) (fun a b hab => ?_)
  exact Rel.pure ⟨hab, rfl⟩

theorem stepIf_rel (guard : Bool) (data : Array UInt8) {st st' : CodeLayout × Nat} (h : RP sz c c' st st')
    (f : CodeLayout → UInt8 → Res CodeLayout)
    (hf : ∀ l l' d, RL sz c c' l l' → Rel (RL sz c c') (f l d) (f l' d)) :
    Rel (RP sz c c') (stepIf guard data st f) (stepIf guard data st' f) := by
  unfold stepIf
  refine Rel.ite (fun _ => ?_) (fun _ => Rel.pure h)
  rw [← h.2]
  exact withNext_rel data h.1 _ f hf

theorem occupied_eq {l l' : CodeLayout} (h : RL sz c c' l l') (row col : Int) :
    l'.occupied row col = l.occupied row col := by
  unfold CodeLayout.occupied
  rw [h.size, h.size', h.occupy]

theorem placeIfFree_rel (data : Array UInt8) (inRange : Bool) {l l' : CodeLayout} (h : RL sz c c' l l')
    (idx : Nat) (row col : Int) :
    Rel (RP sz c c') (placeIfFree data inRange l idx row col) (placeIfFree data inRange l' idx row col) := by
  unfold placeIfFree
  refine Rel.ite (fun _ => ?_) (fun _ => Rel.pure ⟨h, rfl⟩)
  rw [occupied_eq h]
  refine Rel.bind (Rel.refl_eq _) (fun o o' ho => ?_)
  subst ho
  refine Rel.ite (fun _ => Rel.pure ⟨h, rfl⟩) (fun _ => ?_)
  exact withNext_rel data h _ _ (fun l l' d hl => setSimple_rel hl _ _ _)

theorem sweepUp_rel (data : Array UInt8) : ∀ (fuel : Nat) (st st' : SVState), RS sz c c' st st' →
    Rel (RS sz c c') (sweepUp data fuel st) (sweepUp data fuel st') := by
  intro fuel
  induction fuel with
  | zero => intro st st' _; exact Rel.error _
  | succ fuel ih =>
    intro st st' h
    obtain ⟨l, idx, row, col⟩ := st
    obtain ⟨l', idx', row', col'⟩ := st'
    obtain ⟨hl, he⟩ := h
    cases he
    replace hl : RL sz c c' l l' := hl
    unfold sweepUp
    simp only [hl.size, hl.size']
    refine Rel.bind (placeIfFree_rel data _ hl _ _ _) (fun p p' hp => ?_)
    obtain ⟨l1, i1⟩ := p
    obtain ⟨l1', i1'⟩ := p'
    obtain ⟨hl1, he1⟩ := hp
    cases he1
    replace hl1 : RL sz c c' l1 l1' := hl1
    simp only [hl1.size, hl1.size']
    refine Rel.ite (fun _ => Rel.pure ⟨hl1, rfl⟩) (fun _ => ih _ _ ⟨hl1, rfl⟩)

theorem sweepDown_rel (data : Array UInt8) : ∀ (fuel : Nat) (st st' : SVState), RS sz c c' st st' →
    Rel (RS sz c c') (sweepDown data fuel st) (sweepDown data fuel st') := by
  intro fuel
  induction fuel with
  | zero => intro st st' _; exact Rel.error _
  | succ fuel ih =>
    intro st st' h
    obtain ⟨l, idx, row, col⟩ := st
    obtain ⟨l', idx', row', col'⟩ := st'
    obtain ⟨hl, he⟩ := h
    cases he
    replace hl : RL sz c c' l l' := hl
    unfold sweepDown
    simp only [hl.size, hl.size']
    refine Rel.bind (placeIfFree_rel data _ hl _ _ _) (fun p p' hp => ?_)
    obtain ⟨l1, i1⟩ := p
    obtain ⟨l1', i1'⟩ := p'
    obtain ⟨hl1, he1⟩ := hp
    cases he1
    replace hl1 : RL sz c c' l1 l1' := hl1
    simp only [hl1.size, hl1.size']
    refine Rel.ite (fun _ => Rel.pure ⟨hl1, rfl⟩) (fun _ => ih _ _ ⟨hl1, rfl⟩)

theorem setValuesLoop_rel (data : Array UInt8) : ∀ (fuel : Nat) (st st' : SVState), RS sz c c' st st' →
    Rel (RS sz c c') (setValuesLoop data fuel st) (setValuesLoop data fuel st') := by
  intro fuel
  induction fuel with
  | zero => intro st st' _; exact Rel.error _
  | succ fuel ih =>
    intro st st' h
    obtain ⟨l, idx, row, col⟩ := st
    obtain ⟨l', idx', row', col'⟩ := st'
    obtain ⟨hl, he⟩ := h
    cases he
    replace hl : RL sz c c' l l' := hl
    unfold setValuesLoop
    simp only [hl.size, hl.size']
    refine Rel.ite (fun _ => ?_) (fun _ => Rel.pure ⟨hl, rfl⟩)
    refine Rel.bind (stepIf_rel _ data (st := (l, idx)) (st' := (l', idx)) ⟨hl, rfl⟩ _
      (fun _ _ _ h => corner1_rel h _)) (fun p p' hp => ?_)
    refine Rel.bind (stepIf_rel _ data hp _ (fun _ _ _ h => corner2_rel h _)) (fun p p' hp => ?_)
    refine Rel.bind (stepIf_rel _ data hp _ (fun _ _ _ h => corner3_rel h _)) (fun p p' hp => ?_)
    refine Rel.bind (stepIf_rel _ data hp _ (fun _ _ _ h => corner4_rel h _)) (fun p p' hp => ?_)
    obtain ⟨hp1, hp2⟩ := hp
    rw [← hp2]
    refine Rel.bind (sweepUp_rel data _ _ _ ⟨hp1, rfl⟩) (fun q q' hq => ?_)
    obtain ⟨l1, i1, r1, c1⟩ := q
    obtain ⟨l1', i1', r1', c1'⟩ := q'
    obtain ⟨hl1, he1⟩ := hq
    cases he1
    replace hl1 : RL sz c c' l1 l1' := hl1
    simp only []
    refine Rel.bind (sweepDown_rel data _ _ _ ⟨hl1, rfl⟩) (fun q q' hq => ?_)
    obtain ⟨l2, i2, r2, c2⟩ := q
    obtain ⟨l2', i2', r2', c2'⟩ := q'
    obtain ⟨hl2, he2⟩ := hq
    cases he2
    replace hl2 : RL sz c c' l2 l2' := hl2
    exact ih _ _ ⟨hl2, rfl⟩

theorem setValues_rel {l l' : CodeLayout} (h : RL sz c c' l l') (data : Array UInt8) :
    Rel (RL sz c c') (l.setValues data) (l'.setValues data) := by
  unfold CodeLayout.setValues
  simp only [h.size, h.size']
  refine Rel.bind (setValuesLoop_rel data _ _ _ ⟨h, rfl⟩) (fun q q' hq => ?_)
  obtain ⟨l2, i2, r2, c2⟩ := q
  obtain ⟨l2', i2', r2', c2'⟩ := q'
  obtain ⟨hl2, he2⟩ := hq
  replace hl2 : RL sz c c' l2 l2' := hl2
  simp only []
  rw [occupied_eq hl2]
  refine Rel.bind (Rel.refl_eq _) (fun o o' ho => ?_)
  subst ho
  refine Rel.ite (fun _ => ?_) (fun _ => Rel.pure hl2)
  refine Rel.bind (set_rel hl2 _ _ _ _) (fun _ _ h => ?_)
  exact set_rel h _ _ _ _

/-! ### symbols -/

/-- same bits and content, both of size `sz`, colours `c` and `c'` -/
structure RD (sz : CodeSize) (c c' : Scheme) (a a' : DatamatrixCode) : Prop where
  bits : a'.bits = a.bits
  size : a.size = sz
  size' : a'.size = sz
  content : a'.content = a.content
  color : a.color = c
  color' : a'.color = c'

theorem dset_rel {a a' : DatamatrixCode} (h : RD sz c c' a a') (x y : Int) (v : Bool) :
    Rel (RD sz c c') (a.set x y v) (a'.set x y v) := by
  unfold DatamatrixCode.set
  simp only [h.size, h.size', h.bits]
  refine Rel.bind (Rel.refl_eq _) (fun b b' hb => ?_)
  subst hb
  exact Rel.pure ⟨rfl, rfl, rfl, h.content, h.color, h.color'⟩

theorem setLines_rel {a a' : DatamatrixCode} (h : RD sz c c' a a') (swap : Bool) (outer inner : List Int) :
    Rel (RD sz c c') (a.setLines swap outer inner) (a'.setLines swap outer inner) := by
  unfold DatamatrixCode.setLines
  refine Rel.foldlM (fun a b o hab => ?_) _ _ _ h
  refine Rel.foldlM (fun a b i hab => ?_) _ _ _ hab
  refine Rel.ite (fun _ => dset_rel hab _ _ _) (fun _ => dset_rel hab _ _ _)

theorem merge_rel {l l' : CodeLayout} (h : RL sz c c' l l') : Rel (RD sz c c') l.merge l'.merge := by
  unfold CodeLayout.merge
  simp only [h.size, h.size', h.color, h.color', h.matrix]
  have h0 : RD sz c c' (newDataMatrixCodeWithColor sz c) (newDataMatrixCodeWithColor sz c') :=
    ⟨rfl, rfl, rfl, rfl, rfl, rfl⟩
  refine Rel.bind (setLines_rel h0 _ _ _) (fun _ _ h0 => ?_)
  refine Rel.bind (setLines_rel h0 _ _ _) (fun _ _ h0 => ?_)
  refine Rel.bind (setLines_rel h0 _ _ _) (fun _ _ h0 => ?_)
  refine Rel.bind (setLines_rel h0 _ _ _) (fun _ _ h0 => ?_)
  refine Rel.foldlM (fun _ _ _ h0 => ?_) _ _ _ h0
  refine Rel.foldlM (fun _ _ _ h0 => ?_) _ _ _ h0
  refine Rel.foldlM (fun _ _ _ h0 => ?_) _ _ _ h0
  refine Rel.foldlM (fun _ _ _ h0 => ?_) _ _ _ h0
  refine Rel.bind (Rel.refl_eq _) (fun b b' hb => ?_)
  subst hb
  exact dset_rel h0 _ _ _

theorem render_rel (data : Bytes) (sz : CodeSize) (c c' : Scheme) :
    Rel (RD sz c c') (render data sz c) (render data sz c') := by
  unfold render
  have h0 : RL sz c c' (newCodeLayout sz c) (newCodeLayout sz c') := ⟨rfl, rfl, rfl, rfl, rfl, rfl⟩
  refine Rel.bind (setValues_rel h0 _) (fun _ _ h => ?_)
  exact merge_rel h

/-- the symbol as `encodeWithColor` returns it: same module pattern whatever the colours are, the size chosen
    from the table, empty `content` field -/
theorem render_ok (data : Bytes) (sz : CodeSize) (c c' : Scheme) (code : DatamatrixCode)
    (h : render data sz c = .ok code) :
    code.size = sz ∧ code.color = c ∧ render data sz c' = .ok { code with color := c' } := by
  have hr := render_rel data sz c c'
  rw [h] at hr
  cases h' : render data sz c' with
  | error e => rw [h'] at hr; exact hr.elim
  | ok code' =>
    rw [h'] at hr
    have hr : RD sz c c' code code' := hr
    refine ⟨hr.size, hr.color, ?_⟩
    congr 1
    obtain ⟨b, s, ct, cl⟩ := code'
    obtain ⟨h1, h2, h3, h4, h5, h6⟩ := hr
    simp only at h1 h3 h4 h6
    subst h1 h3 h4 h6
    simp [h2]

theorem render_error (data : Bytes) (sz : CodeSize) (c c' : Scheme) (e : Err)
    (h : render data sz c = .error e) : render data sz c' = .error e := by
  have hr := render_rel data sz c c'
  rw [h] at hr
  cases h' : render data sz c' with
  | error e' => rw [h'] at hr; exact congrArg _ (Eq.symm hr)
  | ok code' => rw [h'] at hr; exact hr.elim

/-! ### `encodeWithColor` -/

/-- the sides of the DataMatrix symbols (ECC 200 square sizes) -/
def sides : List Nat := [10, 12, 14, 16, 18, 20, 22, 24, 26, 32, 36, 40, 44, 48, 52, 64, 72, 80, 88, 96, 104, 120, 132, 144]

/-- certificate: the rows of the generated size table are exactly the 24 square sizes, in this order -/
theorem codeSizes_sides : codeSizes.map (fun s => (s.rows, s.columns)) = sides.map (fun (n : Nat) => ((n : Int), (n : Int))) := by
  decide

theorem codeSizes_mem (sz : CodeSize) (h : sz ∈ codeSizes) :
    sz.columns.toNat = sz.rows.toNat ∧ sz.rows.toNat ∈ sides := by
  have h1 : (sz.rows, sz.columns) ∈ codeSizes.map (fun s => (s.rows, s.columns)) := List.mem_map_of_mem h
  rw [codeSizes_sides] at h1
  obtain ⟨n, hn, he⟩ := List.mem_map.1 h1
  simp only [Prod.mk.injEq] at he
  rw [← he.1, ← he.2]
  exact ⟨rfl, by simpa using hn⟩

/-- the size `EncodeWithColor` picks: the first table row with enough data codewords -/
def chooseSize (content : Bytes) : Option CodeSize :=
  codeSizes.find? (fun s => s.dataCodewords ≥ ((encodeText content).length : Int))

theorem dm_map (content : Bytes) (s : Scheme) :
    encodeWithColor content s = (encode content).map (Barcode.recolor s) := by
  unfold encode encodeWithColor
  simp only []
  split
  · rfl
  · rename_i size _
    simp only [bind, Except.bind]
    cases calcECC (addPadding (encodeText content) size.dataCodewords) size with
    | error e => rfl
    | ok data =>
      simp only []
      cases h : render data size scheme16 with
      | error e => rw [render_error _ _ _ s _ h]; rfl
      | ok code => rw [(render_ok _ _ _ s _ h).2.2]; rfl

/-- Shape of an accepted DataMatrix symbol. -/
theorem dm_ok (content : Bytes) (s : Scheme) (b : Barcode) (h : encodeWithColor content s = .ok b) :
    b.kind = "DataMatrix" ∧ b.dims = 2 ∧ b.content = content ∧ b.checksum = none ∧ b.scheme = s ∧
    ∃ sz, chooseSize content = some sz ∧ sz ∈ codeSizes ∧ b.w = sz.columns.toNat ∧ b.h = sz.rows.toNat := by
  unfold encodeWithColor at h
  simp only [] at h
  split at h
  · cases h
  · rename_i size hfind
    simp only [bind, Except.bind] at h
    split at h
    · cases h
    · rename_i data _
      split at h
      · cases h
      · rename_i code hr
        obtain ⟨h1, h2, _⟩ := render_ok _ _ _ s _ hr
        cases h
        refine ⟨kind_dm, rfl, rfl, rfl, h2, size, hfind, List.mem_of_find?_eq_some hfind, ?_, ?_⟩
        · show code.size.columns.toNat = _; rw [h1]
        · show code.size.rows.toNat = _; rw [h1]

end BV.Proofs.RenderDm
