/-
  QR matrix layer: the number of data modules of every version.
  * `walk_count` — the number of walk points satisfying a predicate as a double sum over (column pair, row);
  * `fastCount` — a kernel-friendly evaluation of the number of non-function modules on the walk
    (`fastCount_eq`: equal to the count for every `dim`, `version`, `cs`);
  * `dataModuleCount` — for the 40 versions × 4 levels the number of data modules is `8·total + r` with
    `r < 8` (certificate by kernel evaluation of `fastCount`);
  * `centres_facts` — per-version facts about the alignment centres of Annex E (certificate over the 40 rows).
-/
import BV.Proofs.QrMatrixDefs
import BV.Proofs.QrBlocks
namespace BV.Proofs.QrMatrix
open BV

/-! ### finite sums -/

/-- `sumTo n f = f 0 + … + f (n-1)`; nested sums keep the kernel's evaluation depth small -/
def sumTo : Nat → (Nat → Nat) → Nat
  | 0, _ => 0
  | n + 1, f => sumTo n f + f n

/-- `1` for `true`, `0` for `false` -/
def b2n (b : Bool) : Nat := if b then 1 else 0

/-- sums of functions that agree below the bound are equal -/
theorem sumTo_congr {n : Nat} {f g : Nat → Nat} (h : ∀ i, i < n → f i = g i) : sumTo n f = sumTo n g := by
  induction n with
  | zero => rfl
  | succ n ih =>
    simp only [sumTo]
    rw [ih (fun i hi => h i (by omega)), h n (by omega)]

/-- the sum of two sums -/
theorem sumTo_add (n : Nat) (f g : Nat → Nat) : sumTo n f + sumTo n g = sumTo n (fun i => f i + g i) := by
  induction n with
  | zero => rfl
  | succ n ih => simp only [sumTo, ← ih]; omega

/-- splitting off the first term -/
theorem sumTo_shift (n : Nat) (f : Nat → Nat) : sumTo (n + 1) f = f 0 + sumTo n (fun i => f (i + 1)) := by
  induction n with
  | zero => simp [sumTo]
  | succ n ih =>
    rw [sumTo, ih]
    simp only [sumTo]
    omega

/-- summing in the reverse order -/
theorem sumTo_reverse (n : Nat) (f : Nat → Nat) : sumTo n (fun t => f (n - 1 - t)) = sumTo n f := by
  induction n generalizing f with
  | zero => rfl
  | succ n ih =>
    rw [sumTo_shift n f, ← ih (fun i => f (i + 1))]
    simp only [sumTo]
    have e : sumTo n (fun t => f (n + 1 - 1 - t)) = sumTo n (fun t => f (n - 1 - t + 1)) :=
      sumTo_congr (fun i hi => by congr 1; omega)
    rw [e]
    have : n + 1 - 1 - n = 0 := by omega
    rw [this]
    omega

/-- number of elements of a `flatMap` over a range satisfying `p`, as a sum -/
theorem length_filter_flatMap_range {α : Type} (p : α → Bool) (n : Nat) (F : Nat → List α) :
    (((List.range n).flatMap F).filter p).length = sumTo n (fun i => ((F i).filter p).length) := by
  induction n with
  | zero => rfl
  | succ n ih =>
    rw [List.range_succ, List.flatMap_append, List.filter_append, List.length_append, ih]
    simp [sumTo]

/-- the number of walk points satisfying `p`: sum over the column pairs and the rows (in either direction) of
    the two cells of the pair -/
theorem walk_count (dim : Nat) (p : Nat × Nat → Bool) :
    ((walk dim).filter p).length =
      sumTo ((dim - 1) / 2) (fun k => sumTo dim (fun Y =>
        b2n (p (walkCol dim k, Y)) + b2n (p (walkCol dim k - 1, Y)))) := by
  unfold walk
  rw [length_filter_flatMap_range]
  apply sumTo_congr
  intro k _
  rw [length_filter_flatMap_range]
  have e : ∀ t, ([(walkCol dim k, walkRow dim k t), (walkCol dim k - 1, walkRow dim k t)].filter p).length =
      (fun Y => b2n (p (walkCol dim k, Y)) + b2n (p (walkCol dim k - 1, Y))) (walkRow dim k t) := by
    intro t
    simp only [List.filter, b2n]
    cases p (walkCol dim k, walkRow dim k t) <;> cases p (walkCol dim k - 1, walkRow dim k t) <;> rfl
  rw [sumTo_congr (fun t _ => e t)]
  unfold walkRow
  by_cases hk : (k % 2 == 0) = true
  · simp only [hk, if_true]
    exact sumTo_reverse dim (fun Y => b2n (p (walkCol dim k, Y)) + b2n (p (walkCol dim k - 1, Y)))
  · simp only [hk]
    rfl

/-! ### a kernel-friendly evaluation of the count

The kernel evaluates lazily and substitutes unevaluated arguments; `forceN`/`forceB`/`forceL` evaluate a value to
a literal once and pass the literal on (they are the identity: `forceN_eq` …). All comparisons use the
GMP-accelerated `Nat.ble`/`Nat.beq`. -/

/-- `f n`, with `n` evaluated first -/
def forceN {α : Type} (n : Nat) (f : Nat → α) : α :=
  match n with
  | 0 => f 0
  | k + 1 => f (Nat.succ k)

/-- `f b`, with `b` evaluated first -/
def forceB {α : Type} (b : Bool) (f : Bool → α) : α :=
  match b with
  | true => f true
  | false => f false

/-- `f l`, with the list `l` and its elements evaluated first -/
def forceL {α : Type} (l : List Nat) (f : List Nat → α) : α :=
  match l with
  | [] => f []
  | a :: t => forceN a (fun a => forceL t (fun t => f (a :: t)))

/-- `forceN` is the identity -/
theorem forceN_eq {α : Type} (n : Nat) (f : Nat → α) : forceN n f = f n := by
  cases n <;> rfl

/-- `forceB` is the identity -/
theorem forceB_eq {α : Type} (b : Bool) (f : Bool → α) : forceB b f = f b := by
  cases b <;> rfl

/-- `forceL` is the identity -/
theorem forceL_eq {α : Type} (l : List Nat) (f : List Nat → α) : forceL l f = f l := by
  induction l generalizing f with
  | nil => rfl
  | cons a t ih => simp only [forceL, forceN_eq, ih]

/-- `Nat.ble` as a decision of `≤` -/
theorem ble_eq_decide (a b : Nat) : Nat.ble a b = decide (a ≤ b) := by
  rw [Bool.eq_iff_iff]; simp

/-- `Nat.beq` is `==` -/
theorem beq_eq_beq (a b : Nat) : Nat.beq a b = (a == b) := by
  rw [Bool.eq_iff_iff]; simp

/-- `inSq` with accelerated comparisons -/
def inSqF (c X : Nat) : Bool := Nat.ble c (X + 2) && Nat.ble X (c + 2)

/-- the fast square test is `inSq` -/
theorem inSqF_eq (c X : Nat) : inSqF c X = inSq c X := by
  simp only [inSqF, inSq, ble_eq_decide]

/-- the three centre combinations that carry a finder pattern instead of an alignment pattern -/
def exclF (last cx cy : Nat) : Bool :=
  (Nat.beq cx 6 && Nat.beq cy 6) || (Nat.beq cx 6 && Nat.beq cy last) || (Nat.beq cx last && Nat.beq cy 6)

/-- the alignment squares column-wise: first the centres whose square meets column `X`, then those whose square
    meets row `Y` -/
theorem alignAt_positions (cs : List Nat) (X Y : Nat) :
    alignAt (Spec.Qr.alignmentPositions cs) X Y =
      (cs.filter (fun c => inSqF c X)).any (fun cx =>
        cs.any (fun cy => inSqF cy Y && !exclF (cs.getLastD 0) cx cy)) := by
  rw [Bool.eq_iff_iff]
  simp only [alignAt, Spec.Qr.alignmentPositions, List.any_eq_true, List.mem_filter, List.mem_flatMap,
    List.mem_map, Bool.and_eq_true, inSqF_eq, exclF, beq_eq_beq]
  constructor
  · rintro ⟨p, ⟨⟨cx, hcx, cy, hcy, rfl⟩, hp⟩, hX, hY⟩
    exact ⟨cx, ⟨hcx, hX⟩, cy, hcy, hY, hp⟩
  · rintro ⟨cx, ⟨hcx, hX⟩, cy, hcy, hY, hp⟩
    exact ⟨(cx, cy), ⟨⟨cx, hcx, cy, hcy, rfl⟩, hp⟩, hX, hY⟩

/-- `isFn` of the cell (X, Y), with everything that depends only on the column passed in evaluated:
    `a1 = X ≤ 8`, `a2 = dim-8 ≤ X`, `a3 = X == 6`, `a4 = dim-11 ≤ X ≤ dim-9`, `a5 = X ≤ 5`,
    `L` = the centres whose square meets column `X` -/
def cellFn (d8 d9 d11 : Nat) (v7 a1 a2 a3 a4 a5 : Bool) (cs L : List Nat) (last Y : Nat) : Bool :=
  (a1 && Nat.ble Y 8) || (a2 && Nat.ble Y 8) || (a1 && Nat.ble d8 Y) || a3 || Nat.beq Y 6 ||
  L.any (fun cx => cs.any (fun cy => inSqF cy Y && !exclF last cx cy)) ||
  (v7 && ((a4 && Nat.ble Y 5) || (a5 && Nat.ble d11 Y && Nat.ble Y d9)))

/-- number of non-function cells of column `X` -/
def colCount (dim d8 d9 d11 : Nat) (v7 : Bool) (cs : List Nat) (last X : Nat) : Nat :=
  forceN X fun X =>
  forceB (Nat.ble X 8) fun a1 =>
  forceB (Nat.ble d8 X) fun a2 =>
  forceB (Nat.beq X 6) fun a3 =>
  forceB (Nat.ble d11 X && Nat.ble X d9) fun a4 =>
  forceB (Nat.ble X 5) fun a5 =>
  forceL (cs.filter (fun c => inSqF c X)) fun L =>
  sumTo dim (fun Y => b2n (!cellFn d8 d9 d11 v7 a1 a2 a3 a4 a5 cs L last Y))

/-- number of non-function cells on the walk, in a form the kernel evaluates quickly -/
def fastCount (dim version : Nat) (cs : List Nat) : Nat :=
  forceN dim fun dim =>
  forceN (dim - 8) fun d8 =>
  forceN (dim - 9) fun d9 =>
  forceN (dim - 11) fun d11 =>
  forceB (Nat.ble 7 version) fun v7 =>
  forceL cs fun cs =>
  forceN (cs.getLastD 0) fun last =>
  sumTo ((dim - 1) / 2) fun k =>
    forceN (walkCol dim k) fun X =>
      colCount dim d8 d9 d11 v7 cs last X + colCount dim d8 d9 d11 v7 cs last (X - 1)

/-- the fast per-column count is the count with `isFn` -/
theorem colCount_eq (dim version : Nat) (cs : List Nat) (X : Nat) :
    colCount dim (dim - 8) (dim - 9) (dim - 11) (Nat.ble 7 version) cs (cs.getLastD 0) X =
      sumTo dim (fun Y => b2n (!isFn dim version (Spec.Qr.alignmentPositions cs) X Y)) := by
  simp only [colCount, forceN_eq, forceB_eq, forceL_eq]
  apply sumTo_congr
  intro Y _
  simp only [cellFn, isFn, alignAt_positions, ble_eq_decide, beq_eq_beq, ge_iff_le]

/-- `fastCount` is the number of non-function cells on the walk, for all sizes, versions and centre lists -/
theorem fastCount_eq (dim version : Nat) (cs : List Nat) :
    fastCount dim version cs =
      ((walk dim).filter (fun p => !isFn dim version (Spec.Qr.alignmentPositions cs) p.1 p.2)).length := by
  rw [walk_count]
  simp only [fastCount, forceN_eq, forceB_eq, forceL_eq, colCount_eq]
  apply sumTo_congr
  intro k _
  simp only [sumTo_add]

/-! ### the 40 versions -/

/-- remainder bits of a version (Table 1 of the standard): data modules minus 8 × codewords -/
def remainderBits (v : Nat) : Nat :=
  if v ≤ 1 then 0 else if v ≤ 6 then 7 else if v ≤ 13 then 0 else if v ≤ 20 then 3 else if v ≤ 27 then 4
  else if v ≤ 34 then 3 else 0

/-- the check for one version: for each of the four levels the number of data modules is
    8 × (total codewords of Table 9) + remainder bits -/
def countCheck (v : Nat) : Bool :=
  match Spec.Qr.alignmentCentres.lookup v with
  | none => false
  | some cs =>
    forceN (fastCount (17 + 4 * v) v cs) fun n =>
      (List.range 4).all fun l =>
        match BV.Proofs.QrBlocks.isoBlocks v l with
        | none => true
        | some (ec, lens) => Nat.beq n (8 * (lens.foldl (· + ·) 0 + lens.length * ec) + remainderBits v)

/-- certificate: the check holds for the 40 versions (kernel evaluation of `fastCount`, about 20 s) -/
theorem countCheck_all : ∀ v : Nat, v < 41 → 1 ≤ v → countCheck v = true := by
  decide +kernel

/-- remainder bits are fewer than a codeword -/
theorem remainderBits_lt (v : Nat) : remainderBits v < 8 := by
  unfold remainderBits
  repeat' split
  all_goals omega

/-- For every version 1..40 and level, the number of data modules (walk cells that are not function modules,
    with the alignment patterns of Annex E) is exactly 8 × (total number of codewords of Table 9) plus the
    remainder bits of the version. -/
theorem dataModuleCount_exact (v l : Nat) (h1 : 1 ≤ v) (h40 : v ≤ 40) (hl : l ≤ 3) (cs : List Nat)
    (hcs : Spec.Qr.alignmentCentres.lookup v = some cs) (ec : Nat) (lens : List Nat)
    (hiso : BV.Proofs.QrBlocks.isoBlocks v l = some (ec, lens)) :
    let dim := 17 + 4 * v
    let n := ((walk dim).filter (fun p => !isFn dim v (Spec.Qr.alignmentPositions cs) p.1 p.2)).length
    let total := lens.foldl (· + ·) 0 + lens.length * ec
    n = 8 * total + remainderBits v := by
  intro dim n total
  have hc := countCheck_all v (by omega) h1
  unfold countCheck at hc
  rw [hcs] at hc
  simp only [forceN_eq] at hc
  have hlv := List.all_eq_true.mp hc l (List.mem_range.mpr (by omega))
  rw [hiso] at hlv
  rw [fastCount_eq] at hlv
  exact Nat.eq_of_beq_eq_true hlv

/-- The geometric fact checked by `Spec.Qr.decode` ("number of data modules matches the codeword capacity"):
    for every version 1..40 and level the number of data modules `n` satisfies `8·total ≤ n < 8·total + 8`,
    where `total` is the number of codewords of the (version, level) row of Table 9. -/
theorem dataModuleCount (v l : Nat) (h1 : 1 ≤ v) (h40 : v ≤ 40) (hl : l ≤ 3) (cs : List Nat)
    (hcs : Spec.Qr.alignmentCentres.lookup v = some cs) (ec : Nat) (lens : List Nat)
    (hiso : BV.Proofs.QrBlocks.isoBlocks v l = some (ec, lens)) :
    let dim := 17 + 4 * v
    let n := ((walk dim).filter (fun p => !isFn dim v (Spec.Qr.alignmentPositions cs) p.1 p.2)).length
    let total := lens.foldl (· + ·) 0 + lens.length * ec
    8 * total ≤ n ∧ n < 8 * total + 8 := by
  intro dim n total
  have h : n = 8 * total + remainderBits v := dataModuleCount_exact v l h1 h40 hl cs hcs ec lens hiso
  have hr := remainderBits_lt v
  omega

/-! ### the alignment centres of Annex E -/

/-- a successful `lookup` returns an entry of the list -/
theorem mem_of_lookup {β : Type} {k : Nat} {x : β} {l : List (Nat × β)} (h : l.lookup k = some x) :
    (k, x) ∈ l := by
  induction l with
  | nil => simp at h
  | cons a t ih =>
    obtain ⟨a1, a2⟩ := a
    rw [List.lookup_cons] at h
    by_cases e : (k == a1) = true
    · rw [e] at h
      simp only [Option.some.injEq] at h
      have : k = a1 := by simpa using e
      subst this; subst h
      exact List.mem_cons_self
    · simp only [e] at h
      exact List.mem_cons_of_mem _ (ih h)

/-- the facts about one row of Annex E -/
def CentresFacts (v : Nat) (cs : List Nat) : Prop :=
  let dim := 17 + 4 * v
  (∀ c ∈ cs, c % 2 = 0 ∧ 6 ≤ c ∧ c + 7 ≤ dim) ∧
  cs.Pairwise (fun a b => a + 12 ≤ b ∧ (3 ≤ v → a + 16 ≤ b)) ∧
  (cs ≠ [] → cs.head? = some 6 ∧ cs.getLast? = some (dim - 7)) ∧
  (v = 1 ↔ cs = []) ∧
  cs.getLastD 0 = (if v = 1 then 0 else dim - 7) ∧
  (∀ c ∈ cs, c = 6 ∨ c = dim - 7 ∨ (22 ≤ c ∧ c + 23 ≤ dim)) ∧
  cs.length ≤ 7

instance (v : Nat) (cs : List Nat) : Decidable (CentresFacts v cs) := by
  unfold CentresFacts; infer_instance

/-- certificate over the 40 rows of Annex E -/
theorem centres_certificate :
    Spec.Qr.alignmentCentres.all (fun r => decide (1 ≤ r.1 ∧ r.1 ≤ 40 → CentresFacts r.1 r.2)) = true := by
  decide +kernel

/-- The alignment centres `cs` of a version 1..40 (side `dim = 17 + 4v`): every centre is even and lies in
    `[6, dim-7]`; consecutive (indeed any two, in order) centres are at least 12 apart, at least 16 from version 3
    on; a non-empty list starts with 6 and ends with `dim-7`; the list is empty exactly for version 1; its
    `getLastD 0` is `dim-7` (0 for version 1); every centre other than 6 and `dim-7` lies in `[22, dim-23]`;
    there are at most 7 centres. -/
theorem centres_facts (v : Nat) (h1 : 1 ≤ v) (h40 : v ≤ 40) (cs : List Nat)
    (hcs : Spec.Qr.alignmentCentres.lookup v = some cs) :
    let dim := 17 + 4 * v
    (∀ c ∈ cs, c % 2 = 0 ∧ 6 ≤ c ∧ c + 7 ≤ dim) ∧
    cs.Pairwise (fun a b => a + 12 ≤ b ∧ (3 ≤ v → a + 16 ≤ b)) ∧
    (cs ≠ [] → cs.head? = some 6 ∧ cs.getLast? = some (dim - 7)) ∧
    (v = 1 ↔ cs = []) ∧
    cs.getLastD 0 = (if v = 1 then 0 else dim - 7) ∧
    (∀ c ∈ cs, c = 6 ∨ c = dim - 7 ∨ (22 ≤ c ∧ c + 23 ≤ dim)) ∧
    cs.length ≤ 7 := by
  have h := List.all_eq_true.mp centres_certificate (v, cs) (mem_of_lookup hcs)
  simp only [decide_eq_true_eq] at h
  exact h ⟨h1, h40⟩

/-! ### sanity checks: the hypotheses are satisfiable, and the values are the ones of the standard -/

/-- version 7, level L: 2 blocks of 78 data + 20 check codewords, 196 codewords, 1568 data modules -/
example : Spec.Qr.alignmentCentres.lookup 7 = some [6, 22, 38] ∧
    BV.Proofs.QrBlocks.isoBlocks 7 0 = some (20, [78, 78]) := by decide +kernel

example : ((walk 45).filter (fun p => !isFn 45 7 (Spec.Qr.alignmentPositions [6, 22, 38]) p.1 p.2)).length
    = 8 * 196 + 0 :=
  dataModuleCount_exact 7 0 (by decide) (by decide) (by decide) [6, 22, 38] (by decide +kernel) 20 [78, 78]
    (by decide +kernel)

/-- version 2 evaluated directly from the definitions, without `fastCount`: 44 codewords and 7 remainder bits -/
example : ((walk 25).filter (fun p => !isFn 25 2 (Spec.Qr.alignmentPositions [6, 18]) p.1 p.2)).length
    = 8 * 44 + 7 := by decide +kernel

/-- version 40: 3706 codewords, no remainder bits -/
example : fastCount 177 40 [6, 30, 58, 86, 114, 142, 170] = 8 * 3706 := by decide +kernel

end BV.Proofs.QrMatrix
