/-
  BV.Proofs.QrStream — content round trip of the QR data bit stream (property C01, bit-stream level):
  what `Model.Qr.encodeNumeric / encodeAlphaNumeric / encodeUnicode` write is read back by the reference
  parser `Spec.Qr.parseSegments` as the same content, with a conformant terminator and pad codewords.
-/
import BV.Model.Qr
import BV.Spec.Qr
import BV.Proofs.Bits
namespace BV.Proofs.QrStream
open BV BV.Model.Qr BV.Spec.Qr BV.Proofs.Bits
open BV.Gen.Qr

/-- the array reader of the reference decoder is the reader of `BV.Proofs.Bits` -/
theorem bitsToNatAt_eq (bits : Array Bool) (p n : Nat) : bitsToNatAt bits p n = readAt bits p n := rfl

/-! ### codeword-aligned reads -/

/-- reading codeword `i` of a run of codewords written with `msbBits · 8` after a prefix -/
theorem readAt_flatMap (cw : List Nat) : ∀ (pre post : List Bool) (i : Nat), i < cw.length →
    (∀ c ∈ cw, c < 256) →
    readAt (pre ++ (cw.flatMap (fun c => msbBits c 8) ++ post)).toArray (pre.length + 8 * i) 8 =
      cw.getD i 0 := by
  induction cw with
  | nil => intro _ _ i hi; simp at hi
  | cons c cw ih =>
    intro pre post i hi hc
    cases i with
    | zero =>
      rw [List.flatMap_cons, List.append_assoc]
      exact readAt_msbBits pre _ c 8 (hc c (List.mem_cons_self ..))
    | succ i =>
      have := ih (pre ++ msbBits c 8) post i (by simpa using hi)
        (fun c h => hc c (List.mem_cons_of_mem _ h))
      rw [List.flatMap_cons]
      simp only [List.length_append, length_msbBits, List.append_assoc] at this
      have e : pre.length + 8 * (i + 1) = pre.length + 8 + 8 * i := by omega
      rw [e, List.append_assoc, this]
      simp

/-! ### terminator, bit padding and pad codewords as written by `addPaddingAndTerminator` -/

/-- number of terminator bits: four, fewer only when the capacity is reached -/
def termLen (len cap : Nat) : Nat := min 4 (cap - len)
/-- number of zero bits up to the next codeword boundary -/
def alignLen (len : Nat) : Nat := (8 - len % 8) % 8
/-- the pad codewords 0xEC, 0x11, 0xEC, … starting with parity `i` -/
def padWordsFrom (i n : Nat) : List Nat := (List.range n).map (fun j => if (i + j) % 2 == 0 then 236 else 17)
/-- number of pad codewords after `len` bits of mode/count/data in a symbol of `cap` data bits -/
def padCount (len cap : Nat) : Nat :=
  (cap - (len + termLen len cap + alignLen (len + termLen len cap))) / 8

/-- loop 1 of `addPaddingAndTerminator` with `k` iterations left writes `min k (cap - len)` zero bits -/
theorem terminatorBits_eq (k len cap : Nat) :
    terminatorBits k len cap = List.replicate (min k (cap - len)) false := by
  induction k generalizing len with
  | zero => simp [terminatorBits]
  | succ k ih =>
    rw [terminatorBits]
    split
    · rename_i h
      rw [ih]
      have : min (k + 1) (cap - len) = min k (cap - (len + 1)) + 1 := by omega
      rw [this, List.replicate_succ]
    · rename_i h
      have : min (k + 1) (cap - len) = 0 := by omega
      rw [this]; rfl

/-- loop 2 writes the zero bits up to the next multiple of 8 (at most 7, so 8 iterations of fuel are enough) -/
theorem alignBits_eq (k len : Nat) (h : alignLen len ≤ k) :
    alignBits k len = List.replicate (alignLen len) false := by
  induction k generalizing len with
  | zero =>
    have : alignLen len = 0 := by omega
    rw [this]; rfl
  | succ k ih =>
    rw [alignBits]
    unfold alignLen at h ⊢
    split
    · rename_i h1
      have h1 : len % 8 ≠ 0 := by simpa using h1
      have e : (8 - len % 8) % 8 = (8 - (len + 1) % 8) % 8 + 1 := by omega
      rw [ih (len + 1) (by unfold alignLen; omega), e, List.replicate_succ]
      rfl
    · rename_i h1
      have h1 : len % 8 = 0 := by simpa using h1
      rw [h1]; rfl

/-- the first pad codeword and the rest with the opposite parity -/
theorem padWordsFrom_succ (i n : Nat) :
    padWordsFrom i (n + 1) = (if i % 2 == 0 then 236 else 17) :: padWordsFrom (i + 1) n := by
  simp only [padWordsFrom, List.range_succ_eq_map, List.map_cons, List.map_map, Nat.add_zero]
  congr 1
  apply List.map_congr_left
  intro j _
  simp only [Function.comp]
  rw [show i + (j + 1) = i + 1 + j by omega]

/-- loop 3, started on a codeword boundary `8·n` bits below the capacity, writes exactly `n` pad codewords -/
theorem padBytes_eq (k : Nat) : ∀ (i len cap n : Nat), cap = len + 8 * n → n ≤ k →
    padBytes k i len cap = (padWordsFrom i n).flatMap (fun c => msbBits c 8) := by
  induction k with
  | zero =>
    intro i len cap n h hn
    have : n = 0 := by omega
    subst this; rfl
  | succ k ih =>
    intro i len cap n h hn
    rw [padBytes]
    cases n with
    | zero =>
      have : ¬ len < cap := by omega
      simp [this, padWordsFrom]
    | succ n =>
      have : len < cap := by omega
      rw [if_pos this, ih (i + 1) (len + 8) cap n (by omega) (by omega), padWordsFrom_succ,
        List.flatMap_cons]

/-- pad codewords are bytes -/
theorem padWordsFrom_lt (i n : Nat) : ∀ c ∈ padWordsFrom i n, c < 256 := by
  intro c hc
  simp only [padWordsFrom, List.mem_map] at hc
  obtain ⟨j, _, rfl⟩ := hc
  split <;> omega

/-- the padded stream in closed form -/
def padded (bl : List Bool) (cap : Nat) : List Bool :=
  bl ++ (List.replicate (termLen bl.length cap) false ++
    (List.replicate (alignLen (bl.length + termLen bl.length cap)) false ++
      (padWordsFrom 0 (padCount bl.length cap)).flatMap (fun c => msbBits c 8)))

/-- `addPaddingAndTerminator` appends: the terminator (4 zero bits, or as many as still fit), zero bits up to
    the codeword boundary, then 0xEC / 0x11 alternately up to the capacity -/
theorem addPaddingAndTerminator_eq (bl : List Bool) (vi : VersionInfo)
    (h : bl.length ≤ vi.totalDataBytes * 8) :
    addPaddingAndTerminator bl vi = padded bl (vi.totalDataBytes * 8) := by
  simp only [addPaddingAndTerminator, padded]
  rw [terminatorBits_eq, List.length_replicate]
  have ha : alignLen (bl.length + min 4 (vi.totalDataBytes * 8 - bl.length)) ≤ 8 := by
    unfold alignLen; omega
  rw [alignBits_eq _ _ ha, List.length_replicate]
  generalize hc : vi.totalDataBytes = c at *
  have hp := padBytes_eq (c * 8) 0
    (bl.length + min 4 (c * 8 - bl.length) + alignLen (bl.length + min 4 (c * 8 - bl.length))) (c * 8)
    (padCount bl.length (c * 8))
    (by unfold padCount termLen alignLen; omega) (by unfold padCount; omega)
  rw [hp]
  rfl

/-- eight bits per codeword -/
theorem length_flatMap_msbBits8 (cw : List Nat) : (cw.flatMap (fun c => msbBits c 8)).length = 8 * cw.length := by
  induction cw with
  | nil => rfl
  | cons c cw ih => simp [List.flatMap_cons, ih]; omega

/-- number of pad codewords -/
theorem length_padWordsFrom (i n : Nat) : (padWordsFrom i n).length = n := by simp [padWordsFrom]

/-- the padded stream fills the capacity exactly -/
theorem length_padded (bl : List Bool) (cap : Nat) (h : bl.length ≤ cap) (h8 : cap % 8 = 0) :
    (padded bl cap).length = cap := by
  simp only [padded, List.length_append, List.length_replicate, length_flatMap_msbBits8,
    length_padWordsFrom]
  unfold padCount termLen alignLen
  omega

/-! ### the reference parser on the tail -/

/-- `parseTail` succeeds when its three checks hold -/
theorem parseTail_of_checks (bits : Array Bool) (p : Nat)
    (c1 : bitsToNatAt bits p (min 4 (bits.size - p)) = 0)
    (c2 : ∀ i, i < (p + min 4 (bits.size - p) + 7) / 8 * 8 - (p + min 4 (bits.size - p)) →
       bits.getD (p + min 4 (bits.size - p) + i) false = false)
    (c3 : ∀ i, i < (bits.size - (p + min 4 (bits.size - p) + 7) / 8 * 8) / 8 →
       bitsToNatAt bits ((p + min 4 (bits.size - p) + 7) / 8 * 8 + 8 * i) 8 = (if i % 2 == 0 then 0xEC else 0x11)) :
    parseTail bits p = .ok (min 4 (bits.size - p), (bits.size - (p + min 4 (bits.size - p) + 7) / 8 * 8) / 8) := by
  unfold parseTail
  simp only []
  have e1 : (bitsToNatAt bits p (min 4 (bits.size - p)) == 0) = true := by rw [c1]; rfl
  have e2 : ((List.range ((p + min 4 (bits.size - p) + 7) / 8 * 8 - (p + min 4 (bits.size - p)))).all
      (fun i => !bits.getD (p + min 4 (bits.size - p) + i) false)) = true := by
    rw [List.all_eq_true]; intro i hi; rw [c2 i (List.mem_range.mp hi)]; rfl
  have e3 : ((List.range ((bits.size - (p + min 4 (bits.size - p) + 7) / 8 * 8) / 8)).all (fun i =>
    bitsToNatAt bits ((p + min 4 (bits.size - p) + 7) / 8 * 8 + 8 * i) 8 == (if i % 2 == 0 then 0xEC else 0x11))) = true := by
    rw [List.all_eq_true]; intro i hi; rw [c3 i (List.mem_range.mp hi)]; simp
  rw [e1, e2, e3]
  rfl

/-- pad codeword `j`: 0xEC at even positions, 0x11 at odd ones -/
theorem getD_padWordsFrom (i n j : Nat) (h : j < n) :
    (padWordsFrom i n).getD j 0 = if (i + j) % 2 == 0 then 236 else 17 := by
  simp [padWordsFrom, List.getD, h]

/-- the reference tail parser accepts what `addPaddingAndTerminator` appends after `bl` and reports the terminator length and the number of pad codewords -/
theorem parseTail_padded (bl : List Bool) (cap : Nat) (h : bl.length ≤ cap) (h8 : cap % 8 = 0) :
    parseTail (padded bl cap).toArray bl.length = .ok (termLen bl.length cap, padCount bl.length cap) := by
  have hsz : (padded bl cap).toArray.size = cap := by simp [length_padded bl cap h h8]
  have hq : (bl.length + termLen bl.length cap + 7) / 8 * 8 =
      bl.length + termLen bl.length cap + alignLen (bl.length + termLen bl.length cap) := by
    unfold alignLen; omega
  have hn : (cap - (bl.length + termLen bl.length cap + 7) / 8 * 8) / 8 = padCount bl.length cap := by
    rw [hq]; rfl
  have := parseTail_of_checks (padded bl cap).toArray bl.length
  rw [hsz] at this
  change _ → _ → _ → parseTail _ _ = .ok (termLen bl.length cap, (cap - (bl.length + termLen bl.length cap + 7) / 8 * 8) / 8) at this
  rw [hn] at this
  apply this
  · have := readAt_mid bl (List.replicate (termLen bl.length cap) false)
      (List.replicate (alignLen (bl.length + termLen bl.length cap)) false ++
        (padWordsFrom 0 (padCount bl.length cap)).flatMap (fun c => msbBits c 8))
    rw [List.length_replicate, bitsToNat_replicate_false] at this
    exact this
  · intro i hi
    change i < (bl.length + termLen bl.length cap + 7) / 8 * 8 - (bl.length + termLen bl.length cap) at hi
    rw [hq] at hi
    change (padded bl cap).toArray.getD (bl.length + termLen bl.length cap + i) false = false
    have e : padded bl cap = (bl ++ List.replicate (termLen bl.length cap) false) ++
      (List.replicate (alignLen (bl.length + termLen bl.length cap)) false ++
        (padWordsFrom 0 (padCount bl.length cap)).flatMap (fun c => msbBits c 8)) := by
      simp [padded]
    rw [e]
    have hi' : i < alignLen (bl.length + termLen bl.length cap) := by omega
    simp only [Array.getD_eq_getD_getElem?, List.getElem?_toArray]
    rw [List.getElem?_append_right (by simp)]
    simp only [List.length_append, List.length_replicate]
    rw [show bl.length + termLen bl.length cap + i - (bl.length + termLen bl.length cap) = i by omega]
    rw [List.getElem?_append_left (by simpa using hi')]
    simp [hi']
  · intro i hi
    change i < (cap - (bl.length + termLen bl.length cap + 7) / 8 * 8) / 8 at hi
    rw [hn] at hi
    change readAt (padded bl cap).toArray ((bl.length + termLen bl.length cap + 7) / 8 * 8 + 8 * i) 8 = _
    rw [hq]
    have e : padded bl cap = (bl ++ (List.replicate (termLen bl.length cap) false ++
      List.replicate (alignLen (bl.length + termLen bl.length cap)) false)) ++
        ((padWordsFrom 0 (padCount bl.length cap)).flatMap (fun c => msbBits c 8) ++ []) := by
      simp only [padded, List.append_assoc, List.append_nil]
    have := readAt_flatMap (padWordsFrom 0 (padCount bl.length cap))
      (bl ++ (List.replicate (termLen bl.length cap) false ++
      List.replicate (alignLen (bl.length + termLen bl.length cap)) false)) [] i
      (by simpa [length_padWordsFrom] using hi) (padWordsFrom_lt _ _)
    rw [e]
    simp only [List.length_append, List.length_replicate] at this
    rw [show bl.length + termLen bl.length cap + alignLen (bl.length + termLen bl.length cap) + 8 * i =
      bl.length + (termLen bl.length cap + alignLen (bl.length + termLen bl.length cap)) + 8 * i by omega]
    rw [this, getD_padWordsFrom _ _ _ hi]
    simp

/-! ### the reference parser: one step, and the end of the stream -/

/-- the segment loop stops (end of data or terminator 0000) and returns what `parseTail` reports -/
theorem parseSegments_finish (version : Nat) (bits : Array Bool) (fuel p : Nat) (modes : List Nat)
    (acc : List Bytes) (t npad : Nat)
    (h : bits.size - p < 4 ∨ bitsToNatAt bits p 4 = 0)
    (ht : parseTail bits p = .ok (t, npad)) :
    parseSegments version bits (fuel + 1) p modes acc =
      .ok { modes := modes.reverse, content := acc.reverse.flatten, terminatorBits := t, padCodewords := npad } := by
  rw [parseSegments]
  simp only [ht]
  by_cases h1 : bits.size - p < 4
  · rw [if_pos h1]; rfl
  · rw [if_neg h1]
    have h2 : bitsToNatAt bits p 4 = 0 := by
      rcases h with h | h
      · exact absurd h h1
      · exact h
    rw [h2]
    rfl

/-- the segment body parser selected by the mode indicator -/
def parseBody (bits : Array Bool) (m n body : Nat) : Except String (Bytes × Nat) :=
  if m == 1 then parseNumeric bits (n + 1) n body
  else if m == 2 then parseAlnum bits (n + 1) n body
  else parseBytes bits n body

/-- one iteration of the segment loop on a well-formed segment -/
theorem parseSegments_step (version : Nat) (bits : Array Bool) (fuel p : Nat) (modes : List Nat)
    (acc : List Bytes) (m cb n : Nat) (seg : Bytes) (p' : Nat)
    (h1 : 4 ≤ bits.size - p) (hm : bitsToNatAt bits p 4 = m) (hm0 : m ≠ 0)
    (hcb : countBits version m = cb) (hcb0 : cb ≠ 0) (h2 : p + 4 + cb ≤ bits.size)
    (hn : bitsToNatAt bits (p + 4) cb = n)
    (hb : parseBody bits m n (p + 4 + cb) = .ok (seg, p')) :
    parseSegments version bits (fuel + 1) p modes acc =
      parseSegments version bits fuel p' (m :: modes) (seg :: acc) := by
  rw [parseSegments]
  simp only []
  rw [if_neg (by omega), hm, hcb, hn]
  have e1 : (m == 0) = false := by simpa using hm0
  have e2 : (cb == 0) = false := by simpa using hcb0
  simp only [e1, e2, Bool.false_eq_true, if_false]
  rw [if_neg (by omega)]
  unfold parseBody at hb
  rw [hb]

/-! ### a stream with a single segment -/

/-- what the reference parser returns for a single segment of mode `m` -/
def singleResult (m : Nat) (seg : Bytes) (used cap : Nat) : Parsed :=
  { modes := [m], content := seg, terminatorBits := termLen used cap, padCodewords := padCount used cap }

/-- a stream made of one segment (mode `m`, count `n` in `cb` bits, `body`) padded to `cap` bits is parsed as that segment followed by the tail, provided the body parser reads `body` back as `seg` wherever it stands -/
theorem single_segment (version m cb n : Nat) (body : List Bool) (seg : Bytes) (cap fuel : Nat)
    (hm0 : m ≠ 0) (hm16 : m < 16)
    (hcb : countBits version m = cb) (hcb0 : cb ≠ 0) (hn : n < 2 ^ cb)
    (hbody : ∀ pre post : List Bool, parseBody (pre ++ (body ++ post)).toArray m n pre.length =
      .ok (seg, pre.length + body.length))
    (hcap : 4 + cb + body.length ≤ cap) (h8 : cap % 8 = 0) :
    parseSegments version (padded (msbBits m 4 ++ (msbBits n cb ++ body)) cap).toArray (fuel + 2) 0 [] [] =
      .ok (singleResult m seg (4 + cb + body.length) cap) := by
  have hlen : (msbBits m 4 ++ (msbBits n cb ++ body)).length = 4 + cb + body.length := by
    simp; omega
  have hsz : (padded (msbBits m 4 ++ (msbBits n cb ++ body)) cap).toArray.size = cap := by
    simp [length_padded _ cap (by rw [hlen]; omega) h8]
  generalize htail : (List.replicate (termLen (4 + cb + body.length) cap) false ++
    (List.replicate (alignLen (4 + cb + body.length + termLen (4 + cb + body.length) cap)) false ++
      (padWordsFrom 0 (padCount (4 + cb + body.length) cap)).flatMap (fun c => msbBits c 8))) = tail
  have hL : padded (msbBits m 4 ++ (msbBits n cb ++ body)) cap =
      msbBits m 4 ++ (msbBits n cb ++ (body ++ tail)) := by
    simp only [padded, hlen, htail, List.append_assoc]
  have step := parseSegments_step version (padded (msbBits m 4 ++ (msbBits n cb ++ body)) cap).toArray
    (fuel + 1) 0 [] [] m cb n seg (4 + cb + body.length) (by omega)
    (by rw [hL]; exact readAt_msbBits [] _ m 4 (by simpa using hm16))
    hm0 hcb hcb0 (by omega)
    (by rw [hL]
        have := readAt_msbBits (msbBits m 4) (body ++ tail) n cb hn
        rw [length_msbBits] at this
        exact this)
    (by rw [hL]
        have := hbody (msbBits m 4 ++ msbBits n cb) tail
        simp only [List.length_append, length_msbBits, List.append_assoc] at this
        exact this)
  rw [step]
  have fin := parseSegments_finish version (padded (msbBits m 4 ++ (msbBits n cb ++ body)) cap).toArray
    fuel (4 + cb + body.length) [m] [seg] (termLen (4 + cb + body.length) cap)
    (padCount (4 + cb + body.length) cap)
  rw [fin]
  · simp [singleResult]
  · rw [hsz]
    by_cases h4 : cap - (4 + cb + body.length) < 4
    · exact Or.inl h4
    · right
      have ht : termLen (4 + cb + body.length) cap = 4 := by unfold termLen; omega
      rw [ht] at htail
      have := readAt_mid (msbBits m 4 ++ (msbBits n cb ++ body)) (List.replicate 4 false)
        (List.replicate (alignLen (4 + cb + body.length + 4)) false ++
          (padWordsFrom 0 (padCount (4 + cb + body.length) cap)).flatMap (fun c => msbBits c 8))
      rw [htail, hlen] at this
      rw [hL, bitsToNatAt_eq]
      simp only [List.append_assoc] at this
      rw [List.length_replicate, bitsToNat_replicate_false] at this
      exact this
  · have := parseTail_padded (msbBits m 4 ++ (msbBits n cb ++ body)) cap (by omega) h8
    rw [hlen] at this
    exact this

/-! ### what the version search guarantees -/

/-- certificate over the 160 rows of `versionInfos`: the data capacity of every version class is small enough for
    the character count of any content that fits to be below `2^countBits` -/
theorem capacity_certificate : versionInfos.all (fun vi =>
    decide ((vi.version < 10 → vi.totalDataBytes ≤ 232) ∧ (vi.version < 27 → vi.totalDataBytes ≤ 1370) ∧
      vi.totalDataBytes ≤ 2956)) = true := by decide

/-- the version found is a table row of the requested level in which data bits + mode indicator + character count fit -/
theorem findSmallest_spec (ecl mode dataBits : Nat) (vi : VersionInfo)
    (h : findSmallestVersionInfo ecl mode dataBits = some vi) :
    vi ∈ versionInfos ∧ vi.level = ecl ∧ dataBits + 4 + vi.charCountBits mode ≤ vi.totalDataBytes * 8 := by
  unfold findSmallestVersionInfo at h
  have h1 := List.find?_some h
  have h2 := List.mem_of_find?_eq_some h
  simp only [Bool.and_eq_true, beq_iff_eq, decide_eq_true_eq] at h1
  exact ⟨h2, h1.1, by omega⟩

/-- the Go `charCountBits` and Table 3 of the standard agree for numeric, alphanumeric and byte mode, for every version number -/
theorem charCountBits_eq (vi : VersionInfo) (m : Nat) (hm : m = 1 ∨ m = 2 ∨ m = 4) :
    vi.charCountBits m = countBits vi.version m := by
  unfold VersionInfo.charCountBits countBits c_numericMode c_alphaNumericMode c_byteMode c_kanjiMode
  by_cases h1 : vi.version < 10
  · have h1' : vi.version ≤ 9 := by omega
    rcases hm with rfl | rfl | rfl <;> simp [h1, h1']
  · have h1' : ¬ vi.version ≤ 9 := by omega
    by_cases h2 : vi.version < 27
    · have h2' : vi.version ≤ 26 := by omega
      rcases hm with rfl | rfl | rfl <;> simp [h1, h1', h2, h2']
    · have h2' : ¬ vi.version ≤ 26 := by omega
      rcases hm with rfl | rfl | rfl <;> simp [h1, h1', h2, h2']

/-! ### byte mode -/

/-- the character count field of the three modes is never empty -/
theorem countBits_pos (v m : Nat) (hm : m = 1 ∨ m = 2 ∨ m = 4) : countBits v m ≠ 0 := by
  unfold countBits
  by_cases h1 : v ≤ 9
  · rcases hm with rfl | rfl | rfl <;> simp [h1]
  · by_cases h2 : v ≤ 26 <;> rcases hm with rfl | rfl | rfl <;> simp [h1, h2]

/-- eight bits per byte -/
theorem length_flatMap_bytes (content : Bytes) :
    (content.flatMap (fun b => msbBits b.toNat 8)).length = 8 * content.length := by
  have e : content.flatMap (fun b => msbBits b.toNat 8) =
      (content.map (·.toNat)).flatMap (fun c => msbBits c 8) := by
    rw [List.flatMap_map]
  rw [e, length_flatMap_msbBits8, List.length_map]

/-- the byte-mode body is read back byte for byte -/
theorem parseBytes_body (content : Bytes) (pre post : List Bool) :
    parseBytes (pre ++ (content.flatMap (fun b => msbBits b.toNat 8) ++ post)).toArray content.length
      pre.length = .ok (content, pre.length + (content.flatMap (fun b => msbBits b.toNat 8)).length) := by
  have e : content.flatMap (fun b => msbBits b.toNat 8) =
      (content.map (·.toNat)).flatMap (fun c => msbBits c 8) := by
    rw [List.flatMap_map]
  have hl : (content.flatMap (fun b => msbBits b.toNat 8)).length = 8 * content.length := by
    rw [e, length_flatMap_msbBits8, List.length_map]
  unfold parseBytes
  rw [if_neg (by simp [hl])]
  rw [hl]
  congr 2
  apply List.ext_getElem
  · simp
  · intro i h1 h2
    have hlt : ∀ c ∈ content.map (·.toNat), c < 256 := by
      intro c hc
      obtain ⟨b, _, rfl⟩ := List.mem_map.mp hc
      exact b.toNat_lt
    have := readAt_flatMap (content.map (·.toNat)) pre post i (by simpa using h2) hlt
    rw [← e] at this
    simp only [List.getElem_map, List.getElem_range, bitsToNatAt_eq, this]
    simp [List.getD, h2]

/-- byte mode: a content that fits the capacity has a length below `2^countBits` (from `capacity_certificate`) -/
theorem byte_len_lt (vi : VersionInfo) (len : Nat) (hvi : vi ∈ versionInfos)
    (h : len * 8 + 4 + vi.charCountBits 4 ≤ vi.totalDataBytes * 8) :
    len < 2 ^ countBits vi.version 4 := by
  have hc := List.all_eq_true.mp capacity_certificate vi hvi
  simp only [decide_eq_true_eq] at hc
  unfold countBits
  by_cases h1 : vi.version ≤ 9
  · have := hc.1 (by omega)
    simp [h1]; omega
  · have := hc.2.2
    by_cases h2 : vi.version ≤ 26 <;> simp [h1, h2] <;> omega

/-- byte mode: every byte string that `encodeUnicode` accepts is read back unchanged -/
theorem byte_stream (content : Bytes) (ecl : Nat) (bits : List Bool) (vi : VersionInfo) (fuel : Nat)
    (h : encodeUnicode content ecl = some (bits, vi)) :
    parseSegments vi.version bits.toArray (fuel + 2) 0 [] [] =
      .ok (singleResult 4 content (4 + countBits vi.version 4 + 8 * content.length) (vi.totalDataBytes * 8)) ∧
    bits = padded (msbBits 4 4 ++ (msbBits content.length (countBits vi.version 4) ++
      content.flatMap (fun b => msbBits b.toNat 8))) (vi.totalDataBytes * 8) := by
  unfold encodeUnicode at h
  simp only [] at h
  split at h
  · cases h
  · rename_i vi' hf
    simp only [Option.some.injEq, Prod.mk.injEq] at h
    obtain ⟨hb, rfl⟩ := h
    have hs := findSmallest_spec _ _ _ _ hf
    have hcc := charCountBits_eq vi' 4 (by simp)
    have hl := length_flatMap_bytes content
    have hpad := addPaddingAndTerminator_eq (msbBits c_byteMode 4 ++
      msbBits content.length (vi'.charCountBits c_byteMode) ++ content.flatMap (fun b => msbBits b.toNat 8)) vi'
      (by simp [hl]; have := hs.2.2; simp only [c_byteMode] at this ⊢; omega)
    rw [hpad] at hb
    simp only [c_byteMode, hcc, List.append_assoc] at hb
    refine ⟨?_, hb.symm⟩
    rw [← hb]
    have := single_segment vi'.version 4 (countBits vi'.version 4) content.length
      (content.flatMap (fun b => msbBits b.toNat 8)) content (vi'.totalDataBytes * 8) fuel (by simp) (by simp) rfl
      (countBits_pos _ _ (by simp))
      (byte_len_lt vi' content.length hs.1 (by have := hs.2.2; simp only [c_byteMode] at this; omega))
      (fun pre post => by
        unfold parseBody
        simp only [show (4 == 1) = false from rfl, show (4 == 2) = false from rfl, Bool.false_eq_true, if_false]
        exact parseBytes_body content pre post)
      (by rw [hl, ← hcc]; have := hs.2.2; simp only [c_byteMode] at this; omega) (by omega)
    rw [hl] at this
    exact this

/-! ### numeric mode -/

/-- a byte is determined by its value -/
theorem u8_eq (a : UInt8) (n : Nat) (h : n = a.toNat) : UInt8.ofNat n = a := by
  subst h; simp

/-- decimal value of a digit string -/
def decVal (s : Bytes) : Nat := s.foldl (fun a b => a * 10 + (b.toNat - 48)) 0

/-- the `Int` fold of `atoi` is the cast of the `Nat` fold -/
theorem foldl_cast (s : Bytes) (n : Nat) :
    s.foldl (fun (a : Int) b => a * 10 + ((b.toNat - 48 : Nat) : Int)) (n : Int) =
      ((s.foldl (fun a b => a * 10 + (b.toNat - 48)) n : Nat) : Int) := by
  induction s generalizing n with
  | nil => rfl
  | cons b s ih =>
    simp only [List.foldl_cons]
    rw [← ih]
    congr 1

/-- `atoi` on a string that does not start with a sign: all bytes are digits and the value is decimal -/
theorem atoi_nosign (c : UInt8) (rest : Bytes) (i : Int) (h : atoi (c :: rest) = some i)
    (h1 : c ≠ 43) (h2 : c ≠ 45) :
    (∀ b ∈ c :: rest, 48 ≤ b.toNat ∧ b.toNat ≤ 57) ∧ i = ((decVal (c :: rest) : Nat) : Int) := by
  unfold atoi at h
  have e1 : (c == 43) = false := by simp [h1]
  have e2 : (c == 45) = false := by simp [h2]
  simp only [e1, e2, Bool.or_false, Bool.false_eq_true, if_false, List.isEmpty_cons] at h
  split at h
  · rename_i hd
    simp only [Option.some.injEq] at h
    refine ⟨?_, ?_⟩
    · intro b hb
      have := List.all_eq_true.mp hd b hb
      simpa using this
    · rw [← h]
      exact foldl_cast (c :: rest) 0
  · cases h

/-- one digit: value below 10, regenerated digit is the byte -/
theorem digits1 (a : UInt8) (ha : 48 ≤ a.toNat ∧ a.toNat ≤ 57) :
    decVal [a] < 10 ∧ digitsOf (decVal [a]) 1 = [a] := by
  simp only [decVal, List.foldl_cons, List.foldl_nil]
  refine ⟨by omega, ?_⟩
  simp only [digitsOf, List.range_succ_eq_map, List.range_zero, List.map_cons, List.map_nil]
  congr 1
  apply u8_eq
  omega

/-- two digits: value below 100, regenerated digits are the bytes -/
theorem digits2 (a b : UInt8) (ha : 48 ≤ a.toNat ∧ a.toNat ≤ 57) (hb : 48 ≤ b.toNat ∧ b.toNat ≤ 57) :
    decVal [a, b] < 100 ∧ digitsOf (decVal [a, b]) 2 = [a, b] := by
  simp only [decVal, List.foldl_cons, List.foldl_nil]
  refine ⟨by omega, ?_⟩
  simp only [digitsOf, List.range_succ_eq_map, List.range_zero, List.map_cons, List.map_nil]
  congr 1
  · apply u8_eq; simp; omega
  · congr 1
    apply u8_eq; simp; omega

/-- three digits: value below 1000, regenerated digits are the bytes -/
theorem digits3 (a b c : UInt8) (ha : 48 ≤ a.toNat ∧ a.toNat ≤ 57) (hb : 48 ≤ b.toNat ∧ b.toNat ≤ 57)
    (hc : 48 ≤ c.toNat ∧ c.toNat ≤ 57) :
    decVal [a, b, c] < 1000 ∧ digitsOf (decVal [a, b, c]) 3 = [a, b, c] := by
  simp only [decVal, List.foldl_cons, List.foldl_nil]
  refine ⟨by omega, ?_⟩
  simp only [digitsOf, List.range_succ_eq_map, List.range_zero, List.map_cons, List.map_nil]
  congr 1
  · apply u8_eq; simp; omega
  · congr 1
    · apply u8_eq; simp; omega
    · congr 1
      apply u8_eq; simp; omega

/-- no digits left -/
theorem parseNumeric_zero (bits : Array Bool) (fuel p : Nat) : parseNumeric bits fuel 0 p = .ok ([], p) := by
  cases fuel <;> simp [parseNumeric]

/-- one digit group of the reference parser -/
theorem parseNumeric_step (bits : Array Bool) (fuel n p take width lim : Nat) (hn : n ≠ 0)
    (hsel : (if n ≥ 3 then (3, 10, 1000) else if n == 2 then (2, 7, 100) else (1, 4, 10)) = (take, width, lim))
    (hfit : p + width ≤ bits.size) (hv : bitsToNatAt bits p width < lim) (rest : Bytes) (p' : Nat)
    (hrec : parseNumeric bits fuel (n - take) (p + width) = .ok (rest, p')) :
    parseNumeric bits (fuel + 1) n p = .ok (digitsOf (bitsToNatAt bits p width) take ++ rest, p') := by
  rw [parseNumeric]
  have e : (n == 0) = false := by simpa using hn
  simp only [e, Bool.false_eq_true, if_false]
  rw [hsel]
  simp only []
  rw [if_neg (by omega), if_neg (by omega), hrec]
  rfl

/-- one iteration of the chunk loop of `encodeNumeric` that did not return an error -/
theorem numericChunks_cons (fuel : Nat) (s : Bytes) (hs : s ≠ []) (chunks : List Bool)
    (h : numericChunks (fuel + 1) s = some chunks) :
    ∃ i rest, atoi (s.take 3) = some i ∧ 0 ≤ i ∧ (s.take 3).head? ≠ some 43 ∧ (s.take 3).head? ≠ some 45 ∧
      numericChunks fuel (s.drop 3) = some rest ∧
      chunks = msbBits i.toNat (match (s.take 3).length % 3 with | 0 => 10 | 1 => 4 | _ => 7) ++ rest := by
  rw [numericChunks] at h
  have e : s.isEmpty = false := by cases s <;> simp_all
  simp only [e, Bool.false_eq_true, if_false] at h
  split at h
  · cases h
  · rename_i i hi
    split at h
    · cases h
    · rename_i hc
      split at h
      · cases h
      · rename_i rest hr
        simp only [Option.some.injEq] at h
        simp only [Bool.or_eq_true, decide_eq_true_eq, beq_iff_eq, not_or] at hc
        exact ⟨i, rest, hi, by omega, hc.1.2, hc.2, hr, h.symm⟩

/-- number of data bits of a numeric segment with `len` digits -/
def numBitCount (len : Nat) : Nat :=
  (len / 3) * 10 + (match len % 3 with | 1 => 4 | 2 => 7 | _ => 0)

/-- helper: the first byte differs from `x` -/
theorem head_ne (a : UInt8) (l : Bytes) (x : UInt8) (h : (a :: l).head? ≠ some x) : a ≠ x := by
  intro e; apply h; simp [e]

/-- the chunk loop: accepted strings consist of digits, and the chunks are read back by `parseNumeric` -/
theorem numericChunks_spec : ∀ (fuel : Nat) (s : Bytes) (chunks : List Bool), s.length ≤ fuel →
    numericChunks fuel s = some chunks →
    chunks.length = numBitCount s.length ∧ (∀ b ∈ s, 48 ≤ b.toNat ∧ b.toNat ≤ 57) ∧
    ∀ (pfuel : Nat) (pre post : List Bool), s.length < pfuel →
      parseNumeric (pre ++ (chunks ++ post)).toArray pfuel s.length pre.length =
        .ok (s, pre.length + chunks.length) := by
  intro fuel
  induction fuel with
  | zero =>
    intro s chunks hl h
    have : s = [] := List.eq_nil_of_length_eq_zero (by omega)
    subst this
    simp only [numericChunks, Option.some.injEq] at h
    subst h
    refine ⟨rfl, by simp, ?_⟩
    intro pfuel pre post _
    exact parseNumeric_zero _ _ _
  | succ fuel ih =>
    intro s chunks hl h
    match s, hl, h with
    | [], _, h =>
      simp only [numericChunks, List.isEmpty_nil, if_true, Option.some.injEq] at h
      subst h
      refine ⟨rfl, by simp, ?_⟩
      intro pfuel pre post _
      exact parseNumeric_zero _ _ _
    | [a], _, h =>
      obtain ⟨i, rest, hi, _, h43, h45, hr, rfl⟩ := numericChunks_cons fuel [a] (by simp) chunks h
      have hrest : rest = [] := by
        have : numericChunks fuel [] = some [] := by cases fuel <;> simp [numericChunks]
        simp only [List.drop_succ_cons, List.drop_nil] at hr
        rw [this] at hr; exact (Option.some.inj hr).symm
      subst hrest
      obtain ⟨hd, rfl⟩ := atoi_nosign a [] i hi (head_ne _ _ _ h43) (head_ne _ _ _ h45)
      have ha := hd a (by simp)
      have hdig := digits1 a ha
      simp only [List.take_succ_cons, List.take_nil, List.length_singleton, Int.toNat_natCast,
        List.append_nil] 
      refine ⟨by simp [numBitCount], hd, ?_⟩
      intro pfuel pre post hp
      obtain ⟨pf, rfl⟩ : ∃ pf, pfuel = pf + 1 := ⟨pfuel - 1, by have : [a].length = 1 := rfl; omega⟩
      have hread := readAt_msbBits pre post (decVal [a]) 4 (by omega)
      have := parseNumeric_step (pre ++ (msbBits (decVal [a]) 4 ++ post)).toArray pf 1 pre.length 1 4 10
        (by simp) (by simp) (by simp) (by rw [bitsToNatAt_eq, hread]; exact hdig.1) [] (pre.length + 4)
        (parseNumeric_zero _ _ _)
      rw [bitsToNatAt_eq, hread, hdig.2] at this
      simpa using this
    | [a, b], _, h =>
      obtain ⟨i, rest, hi, _, h43, h45, hr, rfl⟩ := numericChunks_cons fuel [a, b] (by simp) chunks h
      have hrest : rest = [] := by
        have : numericChunks fuel [] = some [] := by cases fuel <;> simp [numericChunks]
        simp only [List.drop_succ_cons, List.drop_nil] at hr
        rw [this] at hr; exact (Option.some.inj hr).symm
      subst hrest
      obtain ⟨hd, rfl⟩ := atoi_nosign a [b] i hi (head_ne _ _ _ h43) (head_ne _ _ _ h45)
      have ha := hd a (by simp)
      have hb := hd b (by simp)
      have hdig := digits2 a b ha hb
      simp only [List.take_succ_cons, List.take_nil, List.length_cons, List.length_nil, Int.toNat_natCast,
        List.append_nil]
      refine ⟨by simp [numBitCount], hd, ?_⟩
      intro pfuel pre post hp
      obtain ⟨pf, rfl⟩ : ∃ pf, pfuel = pf + 1 := ⟨pfuel - 1, by omega⟩
      have hread := readAt_msbBits pre post (decVal [a, b]) 7 (by omega)
      have := parseNumeric_step (pre ++ (msbBits (decVal [a, b]) 7 ++ post)).toArray pf 2 pre.length 2 7 100
        (by simp) (by simp) (by simp) (by rw [bitsToNatAt_eq, hread]; exact hdig.1) [] (pre.length + 7)
        (parseNumeric_zero _ _ _)
      rw [bitsToNatAt_eq, hread, hdig.2] at this
      simpa using this
    | a :: b :: c :: s', hl, h =>
      obtain ⟨i, rest, hi, _, h43, h45, hr, rfl⟩ :=
        numericChunks_cons fuel (a :: b :: c :: s') (by simp) chunks h
      simp only [List.take_succ_cons, List.take_zero, List.drop_succ_cons, List.drop_zero,
        List.length_cons, List.length_nil] at hi h43 h45 hr ⊢
      obtain ⟨hd, rfl⟩ := atoi_nosign a [b, c] i hi (head_ne _ _ _ h43) (head_ne _ _ _ h45)
      have ha := hd a (by simp)
      have hb := hd b (by simp)
      have hc := hd c (by simp)
      have hdig := digits3 a b c ha hb hc
      have hl' : s'.length ≤ fuel := by simp at hl; omega
      obtain ⟨r1, r2, r3⟩ := ih s' rest hl' hr
      simp only [Int.toNat_natCast]
      refine ⟨?_, ?_, ?_⟩
      · simp only [List.length_append, length_msbBits, r1, numBitCount]
        have e1 : (s'.length + 1 + 1 + 1) / 3 = s'.length / 3 + 1 := by omega
        have e2 : (s'.length + 1 + 1 + 1) % 3 = s'.length % 3 := by omega
        rw [e1, e2]; omega
      · intro x hx
        simp only [List.mem_cons] at hx
        rcases hx with rfl | rfl | rfl | hx
        · exact ha
        · exact hb
        · exact hc
        · exact r2 x hx
      · intro pfuel pre post hp
        obtain ⟨pf, rfl⟩ : ∃ pf, pfuel = pf + 1 := ⟨pfuel - 1, by omega⟩
        have hread := readAt_msbBits pre (rest ++ post) (decVal [a, b, c]) 10 (by omega)
        have hrec := r3 pf (pre ++ msbBits (decVal [a, b, c]) 10) post (by omega)
        simp only [List.length_append, length_msbBits, List.append_assoc] at hrec
        have := parseNumeric_step (pre ++ (msbBits (decVal [a, b, c]) 10 ++ (rest ++ post))).toArray pf
          (s'.length + 1 + 1 + 1) pre.length 3 10 1000
          (by omega) (by simp) (by simp) (by rw [bitsToNatAt_eq, hread]; exact hdig.1) s'
          (pre.length + 10 + rest.length) (by simpa using hrec)
        rw [bitsToNatAt_eq, hread, hdig.2] at this
        simp only [List.append_assoc, List.length_append, length_msbBits]
        rw [this]
        simp; omega

/-- numeric mode: a content that fits the capacity has fewer than `2^countBits` digits (from `capacity_certificate`) -/
theorem numeric_len_lt (vi : VersionInfo) (len : Nat) (hvi : vi ∈ versionInfos)
    (h : numBitCount len + 4 + vi.charCountBits 1 ≤ vi.totalDataBytes * 8) :
    len < 2 ^ countBits vi.version 1 := by
  have hc := List.all_eq_true.mp capacity_certificate vi hvi
  simp only [decide_eq_true_eq] at hc
  have hb : (len / 3) * 10 ≤ numBitCount len := by unfold numBitCount; omega
  unfold countBits
  by_cases h1 : vi.version ≤ 9
  · have := hc.1 (by omega)
    simp [h1]; omega
  · by_cases h2 : vi.version ≤ 26
    · have := hc.2.1 (by omega)
      simp [h1, h2]; omega
    · have := hc.2.2
      simp [h1, h2]; omega

/-- numeric mode: every string that `encodeNumeric` accepts consists of digits and is read back unchanged -/
theorem numeric_stream (content : Bytes) (ecl : Nat) (bits : List Bool) (vi : VersionInfo) (fuel : Nat)
    (h : encodeNumeric content ecl = some (bits, vi)) :
    parseSegments vi.version bits.toArray (fuel + 2) 0 [] [] =
      .ok (singleResult 1 content (4 + countBits vi.version 1 + numBitCount content.length)
        (vi.totalDataBytes * 8)) ∧
    (∀ b ∈ content, 48 ≤ b.toNat ∧ b.toNat ≤ 57) ∧
    ∃ chunks, numericChunks content.length content = some chunks ∧ chunks.length = numBitCount content.length ∧
      bits = padded (msbBits 1 4 ++ (msbBits content.length (countBits vi.version 1) ++ chunks))
        (vi.totalDataBytes * 8) := by
  unfold encodeNumeric at h
  simp only [] at h
  split at h
  · cases h
  · rename_i vi' hf
    split at h
    · cases h
    · rename_i chunks hch
      simp only [Option.some.injEq, Prod.mk.injEq] at h
      obtain ⟨hb, rfl⟩ := h
      have hs := findSmallest_spec _ _ _ _ hf
      have hcc := charCountBits_eq vi' 1 (by simp)
      obtain ⟨r1, r2, r3⟩ := numericChunks_spec content.length content chunks (Nat.le_refl _) hch
      have hcap : numBitCount content.length + 4 + vi'.charCountBits 1 ≤ vi'.totalDataBytes * 8 := by
        have := hs.2.2
        unfold numBitCount
        simp only [c_numericMode] at this
        split at this <;> split <;> first | omega | contradiction | (simp only [] at this; omega)
      have hpad := addPaddingAndTerminator_eq (msbBits c_numericMode 4 ++
        msbBits content.length (vi'.charCountBits c_numericMode) ++ chunks) vi'
        (by simp [r1]; simp only [c_numericMode]; omega)
      rw [hpad] at hb
      simp only [c_numericMode, hcc, List.append_assoc] at hb
      refine ⟨?_, r2, chunks, hch, r1, hb.symm⟩
      rw [← hb]
      have := single_segment vi'.version 1 (countBits vi'.version 1) content.length
        chunks content (vi'.totalDataBytes * 8) fuel (by simp) (by simp) rfl
        (countBits_pos _ _ (by simp))
        (numeric_len_lt vi' content.length hs.1 hcap)
        (fun pre post => by
          unfold parseBody
          simp only [show (1 == 1) = true from rfl, if_true]
          exact r3 _ pre post (by omega))
        (by rw [r1, ← hcc]; omega) (by omega)
      rw [r1] at this
      exact this

end BV.Proofs.QrStream
