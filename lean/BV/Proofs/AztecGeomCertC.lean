/-
  BV.Proofs.AztecGeomCertC — kernel certificates (`decide +kernel`, part C): `cert compact L` of `BV.Proofs.AztecGeom`
  evaluates to `true`; each certificate concerns the outermost data layer and the fixed patterns of its shape only.
-/
import BV.Proofs.AztecGeom
namespace BV.Proofs.AztecGeom
open BV.Proofs.AztecBits

set_option maxRecDepth 100000

/-- certificate: full-range symbol with 27 layer(s) -/
theorem cert_full_27 : cert false 27 = true := by decide +kernel

/-- certificate: full-range symbol with 28 layer(s) -/
theorem cert_full_28 : cert false 28 = true := by decide +kernel

/-- certificate: full-range symbol with 29 layer(s) -/
theorem cert_full_29 : cert false 29 = true := by decide +kernel

/-- certificate: full-range symbol with 30 layer(s) -/
theorem cert_full_30 : cert false 30 = true := by decide +kernel

/-- certificate: full-range symbol with 31 layer(s) -/
theorem cert_full_31 : cert false 31 = true := by decide +kernel

/-- certificate: full-range symbol with 32 layer(s) -/
theorem cert_full_32 : cert false 32 = true := by decide +kernel

end BV.Proofs.AztecGeom
